(* C28: matching terminates on productive grammars, with an explicit fuel bound. *)
From Coq Require Import List NArith ZArith Bool Arith Lia.
Import ListNotations.
From V Require Import Base.Prelude Base.TplRes Gen.Tokens Model.Tpl Model.TplProd Proofs.Tpl.
Local Open Scope nat_scope.

Section Term.
Variable rk : list nat.
Variable nl : list bool.
Variable R W : nat.
Variable env : list (option m).
Variable toks : list tokn.
Hypothesis Henv : env_ok_from rk nl R W 0 env = true.

Notation run := (run env toks).
Notation nullable := (nullable nl).
Notation ok := (ok rk nl R).
Notation okseq := (okseq rk nl R).
Notation T := (length toks).

Lemma env_ok_nth : forall l k j o, env_ok_from rk nl R W k l = true -> nth_error l j = Some o ->
  body_ok rk nl R W (k + j) o = true.
Proof.
  induction l as [|x l IH]; intros k j o H Hn; [destruct j; discriminate|].
  cbn [env_ok_from] in H. apply andb_prop in H as [Hx Hl]. destruct j as [|j].
  - injection Hn as <-. rewrite Nat.add_0_r. exact Hx.
  - cbn [nth_error] in Hn. rewrite <- Nat.add_succ_comm. eapply IH; eauto.
Qed.

Lemma env_lookup v e : nth_error env v = Some (Some e) ->
  rank rk v < R /\ ok (rank rk v) e = true /\ (vnull nl v = false -> nullable e = false) /\ msize e < W.
Proof.
  intros H. pose proof (env_ok_nth env 0 v _ Henv H) as B. cbn [body_ok Nat.add] in B.
  apply andb_prop in B as [B B4]. apply andb_prop in B as [B B3]. apply andb_prop in B as [B1 B2].
  apply Nat.ltb_lt in B1. apply Nat.ltb_lt in B4. repeat split; auto.
  intros Hv. rewrite Hv in B3. cbn [orb] in B3. apply negb_true_iff in B3. exact B3.
Qed.

Lemma ok_seq_eq b items : ok b (MSeq items) = okseq b items.
Proof. destruct items; reflexivity. Qed.

(* ---------- progress: what a successful result says about n ---------- *)
Definition prog (s : rs) (n : nat) : Prop :=
  match s with
  | SM g i => (nullable g = false -> 1 <= n) /\ (1 <= n -> i + n <= T)
  | SCh opts _ i _ => (existsb nullable opts = false -> 1 <= n) /\ (1 <= n -> i + n <= T)
  | SSq items i n0 _ => n0 <= n /\ (forallb nullable items = false -> n0 < n) /\ (n0 < n -> i + n <= T)
  | SRp r i n0 _ => n0 <= n /\ (n0 < n -> i + n <= T)
  end.

Lemma nth_lt {A} (l : list A) i x : nth_error l i = Some x -> i < length l.
Proof. intros H. apply nth_error_Some. congruence. Qed.

Lemma progress : forall f s n r, run f s = Ok (n, r, false) -> prog s n.
Proof.
  induction f as [|f IH]; intros s n r H; [discriminate|]. cbn [Tpl.run] in H.
  destruct s as [g i|opts stops i nmax|items i n0 acc|g i n0 acc]; cbn [prog].
  - destruct g; cbn [TplProd.nullable].
    + injection H as <- _. split; [discriminate|lia].
    + (* MWS *) destruct (nth_error toks i) as [t|]; [|discriminate]. destruct i as [|j]; [discriminate|].
      destruct (nth_error toks j) as [p|]; [|discriminate]. destruct (tok_end p) as [e| |]; cbn [bind] in H; try discriminate.
      destruct (negb (Z.eqb e (tpos t))); [|discriminate]. injection H as <- _. split; [discriminate|lia].
    + (* MStr *) destruct (nth_error toks i) as [t|] eqn:E; [|discriminate].
      destruct (negb (Z.eqb (ttok t) STRING)); [discriminate|]. destruct (tlit t) as [|c l]; [discriminate|].
      destruct (N.eqb c q); [|discriminate]. injection H as <- _. apply nth_lt in E. split; intros; lia.
    + destruct (nth_error toks i) as [t0|] eqn:E; [|discriminate]. destruct (Z.eqb (ttok t0) t); [|discriminate].
      injection H as <- _. apply nth_lt in E. split; intros; lia.
    + destruct (nth_error toks i) as [t0|] eqn:E; [|discriminate]. destruct (Z.eqb (ttok t0) t && str_eqb (tlit t0) lit); [|discriminate].
      injection H as <- _. apply nth_lt in E. split; intros; lia.
    + (* MChoice *) apply IH in H. exact H.
    + (* MSeq *) apply IH in H. cbn [prog] in H. destruct H as (H0 & H1 & H2). split; intros; [apply H1|apply H2]; auto; lia.
    + (* MRep0 *) apply IH in H. cbn [prog] in H. destruct H as (H0 & H2). split; [discriminate|]. intros; apply H2; lia.
    + (* MRep1 *)
      destruct (run f (SM g i)) as [[[n1 x1] [|]]| |] eqn:E; try discriminate.
      apply IH in E. apply IH in H. cbn [prog] in E, H. destruct E as [E1 E2], H as [H0 H2]. split.
      * intros Hn. specialize (E1 Hn). lia.
      * intros Hn. destruct (Nat.eq_dec n n1) as [->|]; [apply E2; lia|apply H2; lia].
    + (* MRep01 *)
      destruct (run f (SM g i)) as [[[n1 x1] [|]]| |] eqn:E; try discriminate.
      * injection H as <- _. split; [discriminate|lia].
      * injection H as <- _. apply IH in E. cbn [prog] in E. split; [discriminate|apply E].
    + (* MAdj *)
      destruct (run f (SM g1 i)) as [[[n1 x1] [|]]| |] eqn:E; try discriminate.
      destruct (Nat.eqb n1 0) eqn:E0; [discriminate|]. apply Nat.eqb_neq in E0.
      destruct (run f (SM g2 (i + n1))) as [[[n2 x2] [|]]| |] eqn:E2; try discriminate.
      destruct (Nat.eqb n2 0) eqn:E3; [discriminate|]. apply Nat.eqb_neq in E3.
      destruct (nth_error toks (i + n1 - 1)) as [p|]; [|discriminate]. destruct (nth_error toks (i + n1)) as [q|]; [|discriminate].
      destruct (tok_end p) as [e| |]; cbn [bind] in H; try discriminate.
      destruct (Z.eqb e (tpos q)); [|discriminate]. injection H as <- _.
      apply IH in E2. cbn [prog] in E2. destruct E2 as [_ E2]. specialize (E2 ltac:(lia)). split; intros; lia.
    + (* MVar *)
      destruct (nth_error env v) as [[e|]|] eqn:E; try discriminate.
      apply IH in H. cbn [prog] in H. destruct H as [H1 H2]. split; auto.
      intros Hv. apply H1. apply (env_lookup v e E). exact Hv.
  - (* SCh *)
    destruct opts as [|o t]; [discriminate|].
    destruct (run f (SM o i)) as [[[n1 x1] [|]]| |] eqn:E; try discriminate.
    + destruct stops as [|s st]; [discriminate|]. destruct (Nat.ltb 0 n1 && s); [discriminate|].
      apply IH in H. cbn [prog] in H. destruct H as [H1 H2]. split; auto.
      intros Hn. cbn [existsb] in Hn. apply orb_false_elim in Hn as [_ Hn]. auto.
    + injection H as <- _. apply IH in E. cbn [prog] in E. destruct E as [E1 E2]. split; auto.
      intros Hn. cbn [existsb] in Hn. apply orb_false_elim in Hn as [Hn _]. auto.
  - (* SSq *)
    destruct items as [|it t].
    + injection H as <- _. split; [lia|]. split; [discriminate|lia].
    + destruct (run f (SM it (i + n0))) as [[[n1 x1] [|]]| |] eqn:E; try discriminate.
      apply IH in E. apply IH in H. cbn [prog] in E, H. destruct E as [E1 E2], H as (H0 & H1 & H2).
      split; [lia|]. split.
      * intros Hn. cbn [forallb] in Hn. apply andb_false_iff in Hn as [Hn|Hn]; [specialize (E1 Hn); lia|specialize (H1 Hn); lia].
      * intros Hn. destruct (Nat.eq_dec n (n0 + n1)) as [->|]; [|apply H2; lia].
        assert (1 <= n1) by lia. specialize (E2 H). lia.
  - (* SRp *)
    destruct (run f (SM g (i + n0))) as [[[n1 x1] [|]]| |] eqn:E; try discriminate.
    + injection H as <- _. split; lia.
    + apply IH in E. apply IH in H. cbn [prog] in E, H. destruct E as [E1 E2], H as (H0 & H2).
      split; [lia|]. intros Hn. destruct (Nat.eq_dec n (n0 + n1)) as [->|]; [|apply H2; lia].
      assert (1 <= n1) by lia. specialize (E2 H). lia.
Qed.

(* ---------- monotonicity of the bound ---------- *)
Lemma ok_mono : forall g b b', b <= b' -> b' <= R -> ok b g = true -> ok b' g = true.
Proof.
  fix IH 1. intros g b b' Hb HR H. destruct g; cbn [TplProd.ok] in *; auto.
  - (* MChoice *) induction opts as [|o t IHt]; [reflexivity|]. cbn [forallb] in *. apply andb_prop in H as [H1 H2].
    rewrite (IH o b b'); auto.
  - (* MSeq *) revert b b' Hb HR H. induction items as [|it t IHt]; intros b b' Hb HR H; [reflexivity|].
    apply andb_prop in H as [H1 H2]. rewrite (IH it b b'); auto. cbn [andb].
    destruct (nullable it); [apply (IHt b b'); auto|apply (IHt R R); auto].
  - apply andb_prop in H as [H1 H2]. rewrite H1. cbn [andb]. eapply IH; eauto.
  - apply andb_prop in H as [H1 H2]. rewrite H1. cbn [andb]. eapply IH; eauto.
  - eapply IH; eauto.
  - apply andb_prop in H as [H1 H2]. rewrite H2. rewrite (IH g1 b b'); auto.
  - apply Nat.ltb_lt in H. apply Nat.ltb_lt. lia.
Qed.

Lemma okseq_mono l : forall b b', b <= b' -> b' <= R -> okseq b l = true -> okseq b' l = true.
Proof.
  intros b b' Hb HR H. rewrite <- ok_seq_eq in *. eapply ok_mono; eauto.
Qed.

(* ---------- the measure ---------- *)
Definition lw (l : list m) : nat := fold_right (fun x a => S (msize x + a)) 0 l.
Definition K : nat := (R + 1) * W.
Definition mu (b p w : nat) : nat := (T - p) * K + b * W + w.

Definition pos (s : rs) : nat :=
  match s with SM _ i | SCh _ _ i _ => i | SSq _ i n _ | SRp _ i n _ => i + n end.
Definition wt (s : rs) : nat :=
  match s with SM g _ => msize g | SCh opts _ _ _ => lw opts | SSq items _ _ _ => lw items | SRp r _ _ _ => S (msize r) end.
Definition inv (b : nat) (s : rs) : Prop :=
  match s with
  | SM g _ => ok b g = true
  | SCh opts _ _ _ => forallb (ok b) opts = true
  | SSq items _ _ _ => okseq b items = true
  | SRp r _ _ _ => nullable r = false /\ ok b r = true
  end.

Lemma mu_same b b' p w w' : b' <= b -> w' < w -> mu b' p w' < mu b p w.
Proof. intros. unfold mu. assert (b' * W <= b * W) by (apply Nat.mul_le_mono_r; lia). lia. Qed.

Lemma mu_var b b' p w w' : b' < b -> w' < W -> mu b' p w' < mu b p w.
Proof.
  intros. unfold mu. assert (S b' * W <= b * W) by (apply Nat.mul_le_mono_r; lia).
  cbn [Nat.mul] in H1. lia.
Qed.

Lemma mu_adv b b' p p' w w' : p < p' -> p' <= T -> b' <= R -> w' < W -> mu b' p' w' < mu b p w.
Proof.
  intros. unfold mu, K. set (KK := (R + 1) * W).
  assert (HK : KK = R * W + W) by (unfold KK; rewrite Nat.mul_add_distr_r; lia).
  assert (b' * W <= R * W) by (apply Nat.mul_le_mono_r; lia).
  assert (E : T - p = S (T - p') + (p' - p - 1)) by lia. rewrite E.
  rewrite Nat.mul_add_distr_r, Nat.mul_succ_l. clearbody KK.
  generalize dependent ((T - p') * KK). generalize ((p' - p - 1) * KK). generalize dependent (b' * W). generalize (b * W). generalize dependent (R * W). intros. lia.
Qed.

Lemma msize_pos g : 1 <= msize g.
Proof. destruct g; cbn [msize]; lia. Qed.

(* ---------- termination ---------- *)
Lemma tok_end_not_fuel t : is_fuel (tok_end t) = false.
Proof. unfold tok_end. destruct (tlit t); [destruct (tpl_Len (ttok t))|]; reflexivity. Qed.
Ltac leaf := cbn [bind]; repeat (match goal with
  | |- is_fuel (match ?x with _ => _ end) = false => destruct x; cbn [bind]
  | |- is_fuel (if ?x then _ else _) = false => destruct x
  | |- is_fuel (bind (tok_end ?p) _) = false =>
      let H := fresh in pose proof (tok_end_not_fuel p) as H; destruct (tok_end p); cbn [bind]; try discriminate H
  end); try reflexivity.
Lemma terminates : forall f s b, b <= R -> inv b s -> wt s < W -> mu b (pos s) (wt s) < f ->
  is_fuel (run f s) = false.
Proof.
  induction f as [|f IH]; intros s b HbR Hinv Hw Hmu; [lia|]. cbn [Tpl.run].
  destruct s as [g i|opts stops i nmax|items i n0 acc|g i n0 acc]; cbn [pos wt inv] in *.
  - destruct g; cbn [msize] in *.
    + reflexivity.
    + leaf.
    + leaf.
    + leaf.
    + leaf.
    + (* MChoice *)
      apply (IH (SCh opts stops i 0) b); cbn [pos wt inv]; auto; [fold (lw opts) in Hw; lia|].
      fold (lw opts) in Hmu. pose proof (mu_same b b i (S (lw opts)) (lw opts) ltac:(lia) ltac:(lia)). lia.
    + (* MSeq *)
      apply (IH (SSq items i 0 []) b); cbn [pos wt inv]; auto.
      * fold (lw items) in Hw; lia.
      * rewrite Nat.add_0_r. fold (lw items) in Hmu.
        pose proof (mu_same b b i (S (lw items)) (lw items) ltac:(lia) ltac:(lia)). lia.
    + (* MRep0 *)
      cbn [TplProd.ok] in Hinv. apply andb_prop in Hinv as [Hn Ho]. apply negb_true_iff in Hn.
      apply (IH (SRp g i 0 []) b); cbn [pos wt inv]; auto; [lia|].
      rewrite Nat.add_0_r. pose proof (mu_same b b i (S (S (msize g))) (S (msize g)) ltac:(lia) ltac:(lia)). lia.
    + (* MRep1 *)
      cbn [TplProd.ok] in Hinv. apply andb_prop in Hinv as [Hn Ho]. apply negb_true_iff in Hn.
      assert (H1 : is_fuel (run f (SM g i)) = false).
      { apply (IH (SM g i) b); cbn [pos wt inv]; auto; [lia|].
        pose proof (mu_same b b i (S (S (msize g))) (msize g) ltac:(lia) ltac:(lia)). lia. }
      destruct (run f (SM g i)) as [[[n1 x1] [|]]| |] eqn:E; try reflexivity; try discriminate.
      pose proof (progress _ _ _ _ E) as [P1 P2]. specialize (P1 Hn). specialize (P2 P1).
      apply (IH (SRp g i n1 [x1]) R); cbn [pos wt inv]; auto; [split; auto; eapply ok_mono; eauto|lia|].
      pose proof (mu_adv b R i (i + n1) (S (S (msize g))) (S (msize g)) ltac:(lia) P2 ltac:(lia) ltac:(lia)). lia.
    + (* MRep01 *)
      cbn [TplProd.ok] in Hinv.
      assert (H1 : is_fuel (run f (SM g i)) = false).
      { apply (IH (SM g i) b); cbn [pos wt inv]; auto; [lia|].
        pose proof (mu_same b b i (S (S (msize g))) (msize g) ltac:(lia) ltac:(lia)). lia. }
      destruct (run f (SM g i)) as [[[n1 x1] [|]]| |]; try reflexivity; discriminate.
    + (* MAdj *)
      cbn [TplProd.ok] in Hinv. apply andb_prop in Hinv as [Ha Hc].
      assert (H1 : is_fuel (run f (SM g1 i)) = false).
      { apply (IH (SM g1 i) b); cbn [pos wt inv]; auto; [lia|].
        pose proof (mu_same b b i (S (msize g1 + msize g2)) (msize g1) ltac:(lia) ltac:(pose proof (msize_pos g2); lia)). lia. }
      destruct (run f (SM g1 i)) as [[[n1 x1] [|]]| |] eqn:E; try reflexivity; try discriminate.
      destruct (Nat.eqb n1 0) eqn:E0; [reflexivity|]. apply Nat.eqb_neq in E0.
      pose proof (progress _ _ _ _ E) as [_ P2]. specialize (P2 ltac:(lia)).
      assert (H2 : is_fuel (run f (SM g2 (i + n1))) = false).
      { apply (IH (SM g2 (i + n1)) R); cbn [pos wt inv]; auto; [lia|].
        pose proof (mu_adv b R i (i + n1) (S (msize g1 + msize g2)) (msize g2) ltac:(lia) P2 ltac:(lia) ltac:(lia)). lia. }
      destruct (run f (SM g2 (i + n1))) as [[[n2 x2] [|]]| |]; try reflexivity; try discriminate.
      destruct (Nat.eqb n2 0); [reflexivity|].
      leaf.
    + (* MVar *)
      cbn [TplProd.ok] in Hinv. apply Nat.ltb_lt in Hinv.
      destruct (nth_error env v) as [[e|]|] eqn:E; try reflexivity.
      destruct (env_lookup v e E) as (Hr & Hok & _ & Hsz).
      apply (IH (SM e i) (rank rk v)); cbn [pos wt inv]; auto; [lia|].
      pose proof (mu_var b (rank rk v) i 1 (msize e) Hinv Hsz). lia.
  - (* SCh *)
    destruct opts as [|o t]; [reflexivity|]. cbn [forallb] in Hinv. apply andb_prop in Hinv as [Ho Ht].
    cbn [lw fold_right] in Hw, Hmu. fold (lw t) in Hw, Hmu.
    assert (H1 : is_fuel (run f (SM o i)) = false).
    { apply (IH (SM o i) b); cbn [pos wt inv]; auto; [lia|].
      pose proof (mu_same b b i (S (msize o + lw t)) (msize o) ltac:(lia) ltac:(lia)). lia. }
    destruct (run f (SM o i)) as [[[n1 x1] [|]]| |]; try reflexivity; try discriminate.
    destruct stops as [|s st]; [reflexivity|]. destruct (Nat.ltb 0 n1 && s); [reflexivity|].
    apply (IH (SCh t st i (Nat.max nmax n1)) b); cbn [pos wt inv]; auto; [lia|].
    pose proof (mu_same b b i (S (msize o + lw t)) (lw t) ltac:(lia) ltac:(lia)). lia.
  - (* SSq *)
    destruct items as [|it t]; [reflexivity|]. cbn [TplProd.okseq] in Hinv. apply andb_prop in Hinv as [Ho Ht].
    cbn [lw fold_right] in Hw, Hmu. fold (lw t) in Hw, Hmu.
    assert (H1 : is_fuel (run f (SM it (i + n0))) = false).
    { apply (IH (SM it (i + n0)) b); cbn [pos wt inv]; auto; [lia|].
      pose proof (mu_same b b (i + n0) (S (msize it + lw t)) (msize it) ltac:(lia) ltac:(lia)). lia. }
    destruct (run f (SM it (i + n0))) as [[[n1 x1] [|]]| |] eqn:E; try reflexivity; try discriminate.
    pose proof (progress _ _ _ _ E) as [P1 P2].
    destruct (Nat.eq_dec n1 0) as [->|Hn1].
    + (* no token consumed: the item is nullable, the bound stays *)
      assert (Hnl : nullable it = true).
      { destruct (nullable it) eqn:En; auto. specialize (P1 eq_refl). lia. }
      rewrite Hnl in Ht.
      apply (IH (SSq t i (n0 + 0) (x1 :: acc)) b); cbn [pos wt inv]; auto; [lia|].
      rewrite Nat.add_0_r. pose proof (mu_same b b (i + n0) (S (msize it + lw t)) (lw t) ltac:(lia) ltac:(lia)). lia.
    + specialize (P2 ltac:(lia)).
      apply (IH (SSq t i (n0 + n1) (x1 :: acc)) R); cbn [pos wt inv]; auto.
      * destruct (nullable it); [eapply okseq_mono; eauto|exact Ht].
      * lia.
      * pose proof (mu_adv b R (i + n0) (i + (n0 + n1)) (S (msize it + lw t)) (lw t) ltac:(lia) ltac:(lia) ltac:(lia) ltac:(lia)). lia.
  - (* SRp *)
    destruct Hinv as [Hn Ho].
    assert (H1 : is_fuel (run f (SM g (i + n0))) = false).
    { apply (IH (SM g (i + n0)) b); cbn [pos wt inv]; auto; [lia|].
      pose proof (mu_same b b (i + n0) (S (msize g)) (msize g) ltac:(lia) ltac:(lia)). lia. }
    destruct (run f (SM g (i + n0))) as [[[n1 x1] [|]]| |] eqn:E; try reflexivity; try discriminate.
    pose proof (progress _ _ _ _ E) as [P1 P2]. specialize (P1 Hn). specialize (P2 P1).
    apply (IH (SRp g i (n0 + n1) (x1 :: acc)) R); cbn [pos wt inv]; auto; [split; auto; eapply ok_mono; eauto|].
    pose proof (mu_adv b R (i + n0) (i + (n0 + n1)) (S (msize g)) (S (msize g)) ltac:(lia) ltac:(lia) ltac:(lia) ltac:(lia)). lia.
Qed.

End Term.

(* ---------- the closed statement ---------- *)
Lemma nth_le_max l v : nth v l 0 <= fold_right Nat.max 0 l.
Proof.
  revert v. induction l as [|x l IH]; intros v; [destruct v; simpl; lia|].
  destruct v; cbn [nth fold_right]; [lia|]. specialize (IH v). lia.
Qed.

Theorem match_terminates rk nl env toks doc : productive rk nl env = true ->
  is_fuel (match_doc env toks (fuel_bound rk env toks) doc) = false.
Proof.
  intros Hp. unfold match_doc, productive in *.
  apply (terminates rk nl (cert_R rk) (cert_W env) env toks Hp _ (SM (MVar doc) 0) (cert_R rk)).
  - lia.
  - cbn [inv TplProd.ok]. apply Nat.ltb_lt. unfold cert_R, rank. pose proof (nth_le_max rk doc). lia.
  - cbn [wt msize]. unfold cert_W. lia.
  - cbn [pos wt msize]. unfold mu, K, fuel_bound. rewrite Nat.sub_0_r.
    set (KK := (cert_R rk + 1) * cert_W env).
    assert (HK : KK = cert_R rk * cert_W env + cert_W env) by (unfold KK; rewrite Nat.mul_add_distr_r; lia).
    assert (2 <= cert_W env) by (unfold cert_W; lia).
    rewrite Nat.mul_add_distr_r, Nat.mul_1_l. clearbody KK.
    generalize dependent (length toks * KK). generalize dependent (cert_R rk * cert_W env). intros. lia.
Qed.

(* any larger fuel gives the same (terminating) result *)
Corollary match_result_stable rk nl env toks doc f : productive rk nl env = true ->
  fuel_bound rk env toks <= f -> match_doc env toks f doc = match_doc env toks (fuel_bound rk env toks) doc.
Proof.
  intros Hp Hf. unfold match_doc. apply run_mono_le; auto. apply (match_terminates rk nl env toks doc Hp).
Qed.

(* ---------- the two known non-terminating shapes, on the model ---------- *)
Definition IDENT := tpl_IDENT.
(* doc = *(?IDENT) *)
Definition env_nullable_rep : list (option m) := [Some (MRep0 (MRep01 (MTok IDENT)))].
(* doc = doc "+" IDENT *)
Definition env_left_rec : list (option m) := [Some (MSeq [MVar 0; MTok 43; MTok IDENT])].

Lemma nullable_rep_loops : forall f acc, Tpl.run env_nullable_rep [] f (SRp (MRep01 (MTok IDENT)) 0 0 acc) = OutOfFuel.
Proof.
  induction f as [|f IH]; intros acc; [reflexivity|]. cbn [Tpl.run].
  destruct f as [|f]; [reflexivity|]. destruct f as [|f]; [reflexivity|].
  change (Tpl.run env_nullable_rep [] (S (S f)) (SM (MRep01 (MTok IDENT)) (0 + 0))) with (@okr 0 RNil).
  cbn [okr]. apply IH.
Qed.

Lemma nullable_rep_diverges : forall f, match_doc env_nullable_rep [] f 0 = OutOfFuel.
Proof.
  intros f. unfold match_doc. destruct f as [|f]; [reflexivity|]. cbn [Tpl.run nth_error env_nullable_rep].
  destruct f as [|f]; [reflexivity|]. cbn [Tpl.run]. apply nullable_rep_loops.
Qed.

Lemma left_rec_diverges : forall f, match_doc env_left_rec [] f 0 = OutOfFuel.
Proof.
  unfold match_doc.
  assert (G : forall f, Tpl.run env_left_rec [] f (SM (MVar 0) 0) = OutOfFuel /\
                        Tpl.run env_left_rec [] f (SM (MSeq [MVar 0; MTok 43; MTok IDENT]) 0) = OutOfFuel /\
                        Tpl.run env_left_rec [] f (SSq [MVar 0; MTok 43; MTok IDENT] 0 0 []) = OutOfFuel).
  { induction f as [|f (I1 & I2 & I3)]; [repeat split; reflexivity|]. repeat split.
    - cbn [Tpl.run nth_error env_left_rec]. exact I2.
    - cbn [Tpl.run]. exact I3.
    - cbn [Tpl.run]. change (0 + 0) with 0. rewrite I1. reflexivity. }
  intros f. apply G.
Qed.

(* neither has a certificate *)
Lemma nullable_rep_not_productive rk nl : productive rk nl env_nullable_rep = false.
Proof.
  destruct (productive rk nl env_nullable_rep) eqn:E; auto.
  pose proof (match_terminates rk nl env_nullable_rep [] 0 E) as H. rewrite nullable_rep_diverges in H. discriminate.
Qed.
Lemma left_rec_not_productive rk nl : productive rk nl env_left_rec = false.
Proof.
  destruct (productive rk nl env_left_rec) eqn:E; auto.
  pose proof (match_terminates rk nl env_left_rec [] 0 E) as H. rewrite left_rec_diverges in H. discriminate.
Qed.
