(* Lemmas for C08: the sort of the files makes compilation independent of presentation order;
   generic permutation-invariance facts for the map-range loop shapes. *)
From Coq Require Import List NArith Bool Permutation Sorting.Sorted Lia.
Import ListNotations.
From V Require Import Base.Prelude Model.C08.

(* ---------- str_ltb is a strict total order ---------- *)
Lemma str_ltb_irrefl a : str_ltb a a = false.
Proof. induction a as [|x a IH]; cbn [str_ltb]; auto. rewrite N.ltb_irrefl, N.eqb_refl. exact IH. Qed.

Lemma str_ltb_cons x a y b :
  str_ltb (x :: a) (y :: b) = true <-> (x < y)%N \/ (x = y /\ str_ltb a b = true).
Proof.
  cbn [str_ltb]. destruct (N.ltb x y) eqn:L.
  - apply N.ltb_lt in L. split; auto.
  - apply N.ltb_ge in L. destruct (N.eqb x y) eqn:E.
    + apply N.eqb_eq in E. split; [auto|]. intros [H|[_ H]]; [lia|exact H].
    + apply N.eqb_neq in E. split; [discriminate|]. intros [H|[H _]]; [lia|congruence].
Qed.

Lemma str_ltb_trans a : forall b c, str_ltb a b = true -> str_ltb b c = true -> str_ltb a c = true.
Proof.
  induction a as [|x a IH]; intros [|y b] [|z c]; try (cbn [str_ltb]; congruence).
  rewrite !str_ltb_cons. intros [H1|[-> H1]] [H2|[-> H2]].
  - left; lia.
  - left; exact H1.
  - left; exact H2.
  - right; split; auto. eapply IH; eauto.
Qed.

Lemma str_ltb_total a : forall b, str_ltb a b = false -> str_ltb b a = false -> a = b.
Proof.
  induction a as [|x a IH]; intros [|y b]; cbn [str_ltb]; try congruence; auto.
  destruct (N.ltb x y) eqn:Hxy; try congruence.
  destruct (N.ltb y x) eqn:Hyx; try congruence.
  apply N.ltb_ge in Hxy. apply N.ltb_ge in Hyx. assert (x = y) by lia. subst.
  rewrite N.eqb_refl. intros H1 H2. f_equal. apply IH; assumption.
Qed.

Lemma str_ltb_asym a b : str_ltb a b = true -> str_ltb b a = false.
Proof.
  intros H. destruct (str_ltb b a) eqn:E; auto.
  pose proof (str_ltb_trans _ _ _ H E) as C. rewrite str_ltb_irrefl in C. discriminate.
Qed.

(* ---------- insertion sort: permutation, sortedness, uniqueness ---------- *)
Section Sort.
  Context {A : Type}.
  Notation elt := (str * A)%type.
  Definition plt (x y : elt) : Prop := str_ltb (fst x) (fst y) = true.

  Lemma insert_perm (x : elt) l : Permutation (x :: l) (insert_by_path x l).
  Proof.
    induction l as [|y t IH]; cbn [insert_by_path]; auto.
    destruct (str_ltb (fst y) (fst x)); auto.
    eapply perm_trans; [apply perm_swap|]. constructor. exact IH.
  Qed.

  Lemma sort_perm (l : list elt) : Permutation l (sort_by_path l).
  Proof.
    induction l as [|x t IH]; cbn [sort_by_path]; auto.
    eapply perm_trans; [|apply insert_perm]. constructor. exact IH.
  Qed.

  Lemma insert_sorted (x : elt) l :
    ~ In (fst x) (map fst l) -> StronglySorted plt l -> StronglySorted plt (insert_by_path x l).
  Proof.
    induction l as [|y t IH]; intros Hn Hs; cbn [insert_by_path].
    - constructor; constructor.
    - inversion Hs as [|? ? Hst Hall]; subst.
      destruct (str_ltb (fst y) (fst x)) eqn:E.
      + constructor.
        * apply IH; auto. intros Hin. apply Hn. right. exact Hin.
        * rewrite Forall_forall in *. intros z Hz.
          apply Permutation_in with (l' := x :: t) in Hz; [|apply Permutation_sym, insert_perm].
          destruct Hz as [<-|Hz]; [exact E|apply Hall; exact Hz].
      + assert (Hxy : plt x y).
        { unfold plt. destruct (str_ltb (fst x) (fst y)) eqn:E2; auto.
          exfalso. apply Hn. left. apply str_ltb_total; assumption. }
        constructor; [exact Hs|].
        constructor; [exact Hxy|].
        rewrite Forall_forall in *. intros z Hz. unfold plt in *.
        eapply str_ltb_trans; [exact Hxy|apply Hall; exact Hz].
  Qed.

  Lemma sort_sorted (l : list elt) : NoDup (map fst l) -> StronglySorted plt (sort_by_path l).
  Proof.
    induction l as [|x t IH]; intros Hnd; cbn [sort_by_path]; [constructor|].
    inversion Hnd as [|? ? Hn Hnd']; subst.
    apply insert_sorted; auto.
    intros Hin. apply Hn.
    eapply Permutation_in; [apply Permutation_sym, Permutation_map, sort_perm|exact Hin].
  Qed.

  (* two strictly sorted lists with the same elements are equal *)
  Lemma sorted_perm_eq (l1 : list elt) : forall l2,
    StronglySorted plt l1 -> StronglySorted plt l2 -> Permutation l1 l2 -> l1 = l2.
  Proof.
    induction l1 as [|x t IH]; intros l2 H1 H2 Hp.
    - apply Permutation_nil in Hp. congruence.
    - destruct l2 as [|y u]; [apply Permutation_sym, Permutation_nil in Hp; discriminate|].
      inversion H1 as [|? ? H1t H1a]; inversion H2 as [|? ? H2t H2a]; subst.
      rewrite Forall_forall in H1a, H2a.
      assert (x = y).
      { assert (Hx : In x (y :: u)) by (eapply Permutation_in; [exact Hp|left; reflexivity]).
        assert (Hy : In y (x :: t)) by (eapply Permutation_in; [apply Permutation_sym; exact Hp|left; reflexivity]).
        destruct Hx as [->|Hx]; auto. destruct Hy as [->|Hy]; auto.
        apply H2a in Hx. apply H1a in Hy. unfold plt in *.
        rewrite (str_ltb_asym _ _ Hx) in Hy. discriminate. }
      subst. f_equal. apply IH; auto. eapply Permutation_cons_inv; exact Hp.
  Qed.

  (* ANY sorting algorithm agrees with sort_by_path on distinct paths *)
  Lemma sort_unique (l l' : list elt) :
    NoDup (map fst l) -> Permutation l l' -> StronglySorted plt l' -> l' = sort_by_path l.
  Proof.
    intros Hnd Hp Hs. apply sorted_perm_eq; auto.
    - apply sort_sorted; exact Hnd.
    - eapply perm_trans; [apply Permutation_sym; exact Hp|apply sort_perm].
  Qed.

  Lemma sort_perm_invariant (l l' : list elt) :
    NoDup (map fst l) -> Permutation l l' -> sort_by_path l = sort_by_path l'.
  Proof.
    intros Hnd Hp. symmetry. apply sort_unique; auto.
    - eapply perm_trans; [exact Hp|apply sort_perm].
    - apply sort_sorted. eapply Permutation_NoDup; [apply Permutation_map; exact Hp|exact Hnd].
  Qed.

  Lemma sorted_files_perm_invariant {St} (step : St -> elt -> St) (init : St) (fs fs' : list elt) :
    Permutation fs fs' -> NoDup (map fst fs) -> compile_files step init fs = compile_files step init fs'.
  Proof. intros Hp Hnd. unfold compile_files. rewrite (sort_perm_invariant fs fs'); auto. Qed.

  (* without the sort the fold is NOT invariant in general: see fold_order_matters below *)
End Sort.

Lemma new_package_perm_invariant (xgo xgo' gof gof' : list srcfile) :
  Permutation xgo xgo' -> Permutation gof gof' ->
  NoDup (map fst xgo) -> NoDup (map fst gof) ->
  new_package xgo gof = new_package xgo' gof'.
Proof.
  intros Hx Hg Nx Ng. unfold new_package.
  rewrite (sort_perm_invariant xgo xgo'), (sort_perm_invariant gof gof'); auto.
Qed.

(* ---------- generic: a fold whose step commutes is invariant under permutation ---------- *)
Lemma fold_commutative_perm {S X} (f : S -> X -> S) :
  (forall s x y, f (f s x) y = f (f s y) x) ->
  forall l l', Permutation l l' -> forall s, fold_left f l s = fold_left f l' s.
Proof.
  intros Hc l l' Hp. induction Hp; intros s; cbn [fold_left]; auto.
  - rewrite Hc. reflexivity.
  - rewrite IHHp1. apply IHHp2.
Qed.

(* a weaker hypothesis suffices when the observation of the state is through [obs] only *)
Lemma fold_commutative_perm_obs {S X O} (f : S -> X -> S) (obs : S -> O) (eqv : S -> S -> Prop) :
  (forall s, eqv s s) -> (forall a b c, eqv a b -> eqv b c -> eqv a c) ->
  (forall a b x, eqv a b -> eqv (f a x) (f b x)) ->
  (forall s x y, eqv (f (f s x) y) (f (f s y) x)) ->
  (forall a b, eqv a b -> obs a = obs b) ->
  forall l l', Permutation l l' -> forall s, obs (fold_left f l s) = obs (fold_left f l' s).
Proof.
  intros Hr Ht Hf Hc Ho l l' Hp s. apply Ho. revert s.
  assert (Hcong : forall l a b, eqv a b -> eqv (fold_left f l a) (fold_left f l b)).
  { induction l0 as [|x t IH]; intros a b Hab; cbn [fold_left]; auto. }
  induction Hp; intros s; cbn [fold_left].
  - apply Hr.
  - apply IHHp.
  - apply Hcong. apply Hc.
  - eapply Ht; [apply IHHp1|apply IHHp2].
Qed.

(* ---------- set-build (gopSyms) ---------- *)
Section SetBuild.
  Context {K : Type} (keqb : K -> K -> bool).
  Lemma set_mem_fold (k : K) l : forall s, set_mem keqb k (fold_left set_add l s) = existsb (keqb k) l || set_mem keqb k s.
  Proof.
    induction l as [|x t IH]; intros s; cbn [fold_left existsb]; auto.
    rewrite IH. unfold set_add, set_mem. cbn [existsb].
    destruct (keqb k x), (existsb (keqb k) t), (existsb (keqb k) s); reflexivity.
  Qed.
  Lemma existsb_perm (p : K -> bool) l l' : Permutation l l' -> existsb p l = existsb p l'.
  Proof.
    intros Hp; induction Hp; cbn [existsb]; auto.
    - rewrite IHHp; reflexivity.
    - destruct (p x), (p y); reflexivity.
    - congruence.
  Qed.
  Lemma set_build_perm l l' : Permutation l l' -> forall k, set_mem keqb k (set_build l) = set_mem keqb k (set_build l').
  Proof. intros Hp k. unfold set_build. rewrite !set_mem_fold. rewrite (existsb_perm _ l l' Hp). reflexivity. Qed.
End SetBuild.

(* ---------- unique-match search (lookupClassNode) ---------- *)
Section Find.
  Context {X : Type} (p : X -> bool).
  Lemma find_none_perm l l' : Permutation l l' -> find p l = None -> find p l' = None.
  Proof.
    intros Hp H. destruct (find p l') eqn:E; auto.
    apply find_some in E as [Hin Hpx].
    pose proof (find_none _ _ H x (Permutation_in _ (Permutation_sym Hp) Hin)). congruence.
  Qed.
  Lemma find_unique_perm l l' :
    (forall x y, In x l -> In y l -> p x = true -> p y = true -> x = y) ->
    Permutation l l' -> find p l = find p l'.
  Proof.
    intros Hu Hp. destruct (find p l) eqn:E.
    - apply find_some in E as [Hin Hpx].
      destruct (find p l') eqn:E'.
      + apply find_some in E' as [Hin' Hpx']. f_equal. apply Hu; auto.
        eapply Permutation_in; [apply Permutation_sym; exact Hp|exact Hin'].
      + pose proof (find_none _ _ E' x (Permutation_in _ Hp Hin)). congruence.
    - symmetry. eapply find_none_perm; eauto.
  Qed.
End Find.

(* ---------- pick-any (x/build loadPackage): order dependent as soon as there are two ---------- *)
Lemma pick_any_singleton {K V} (m m' : list (K * V)) :
  Permutation m m' -> (length m <= 1)%nat -> pick_any m = pick_any m'.
Proof.
  intros Hp Hl. destruct m as [|a [|b t]]; cbn in Hl; try lia.
  - apply Permutation_nil in Hp. subst. reflexivity.
  - apply Permutation_length_1_inv in Hp. subst. reflexivity.
Qed.

Lemma pick_any_refuted : exists (m m' : list (nat * nat)),
  Permutation m m' /\ NoDup (map fst m) /\ pick_any m <> pick_any m'.
Proof.
  exists [(1,10);(2,20)]%nat, [(2,20);(1,10)]%nat. split; [apply perm_swap|]. split.
  - repeat constructor; cbn; intuition congruence.
  - cbn. congruence.
Qed.

Lemma first_wins_head {K V} (m : list (K * V)) : first_wins m = pick_any m.
Proof.
  unfold first_wins, pick_any. destruct m as [|a t]; cbn [fold_left hd_error]; auto.
  induction t as [|b t IH]; cbn [fold_left]; auto.
Qed.

Lemma first_wins_refuted : exists (m m' : list (nat * nat)),
  Permutation m m' /\ NoDup (map fst m) /\ first_wins m <> first_wins m'.
Proof.
  destruct pick_any_refuted as (m & m' & Hp & Hn & Hd). exists m, m'. rewrite !first_wins_head. auto.
Qed.

(* ---------- error-per-match and effect-log loops ---------- *)
Section Logs.
  Context {X E : Type}.
  Lemma filter_perm (p : X -> bool) l l' : Permutation l l' -> Permutation (filter p l) (filter p l').
  Proof.
    intros Hp; induction Hp; cbn [filter]; auto.
    - destruct (p x); auto.
    - destruct (p x), (p y); auto. apply perm_swap.
    - eapply perm_trans; eauto.
  Qed.
  Lemma perm_short_eq (l l' : list X) : Permutation l l' -> (length l <= 1)%nat -> l = l'.
  Proof.
    intros Hp Hl. destruct l as [|a [|b t]]; cbn in Hl; try lia.
    - apply Permutation_nil in Hp. congruence.
    - apply Permutation_length_1_inv in Hp. congruence.
  Qed.
  (* at most one entry matches -> the emitted errors do not depend on the iteration order *)
  Lemma errs_per_match_perm (mt : X -> bool) (e : X -> E) l l' :
    Permutation l l' -> (length (filter mt l) <= 1)%nat -> map e (filter mt l) = map e (filter mt l').
  Proof. intros Hp Hl. f_equal. apply perm_short_eq; auto. apply filter_perm; exact Hp. Qed.

  (* effect-log loop: if at most one iteration logs anything the log is order independent *)
  Lemma flat_map_filter (body : X -> list E) l :
    flat_map body l = flat_map body (filter (fun x => match body x with [] => false | _ => true end) l).
  Proof.
    induction l as [|x t IH]; cbn [flat_map filter]; auto.
    destruct (body x) eqn:Ex; cbn [flat_map]; rewrite ?Ex; cbn [app]; rewrite IH; reflexivity.
  Qed.
  Lemma log_loop_perm_at_most_one (body : X -> list E) l l' :
    Permutation l l' ->
    (length (filter (fun x => match body x with [] => false | _ => true end) l) <= 1)%nat ->
    flat_map body l = flat_map body l'.
  Proof.
    intros Hp Hl. rewrite (flat_map_filter body l), (flat_map_filter body l'). f_equal.
    apply perm_short_eq; auto. apply filter_perm; exact Hp.
  Qed.
End Logs.

(* two logging iterations: the log depends on the order (initGopPkg over ctx.syms) *)
Lemma log_loop_refuted : exists (body : nat -> list nat) l l',
  Permutation l l' /\ NoDup l /\ flat_map body l <> flat_map body l'.
Proof.
  exists (fun x => [x]), [1;2]%nat, [2;1]%nat. split; [apply perm_swap|]. split.
  - repeat constructor; cbn; intuition congruence.
  - cbn. congruence.
Qed.

(* without sorting, a non-commutative per-file step sees the presentation order *)
Lemma fold_order_matters : exists (step : list nat -> nat -> list nat) l l',
  Permutation l l' /\ fold_left step l [] <> fold_left step l' [].
Proof.
  exists (fun s x => s ++ [x]), [1;2]%nat, [2;1]%nat. split; [apply perm_swap|]. cbn. congruence.
Qed.

(* ---------- type switch: `seen` never holds two identical types ---------- *)
Section TypeSwitch.
  Context {T P : Type} (ident : T -> T -> bool).
  Hypothesis ident_sym : forall a b, ident a b = ident b a.
  Hypothesis ident_trans : forall a b c, ident a b = true -> ident b c = true -> ident a c = true.

  Definition pairwise_distinct (seen : list (T * P)) : Prop :=
    ForallOrdPairs (fun a b => ident (fst a) (fst b) = false) seen.

  Lemma filter_ident_le1 c seen :
    pairwise_distinct seen -> (length (filter (fun s : T * P => ident c (fst s)) seen) <= 1)%nat.
  Proof.
    induction 1 as [|a l Ha Hl IH]; cbn [filter length]; auto.
    destruct (ident c (fst a)) eqn:E; auto.
    assert (Hn : filter (fun s : T * P => ident c (fst s)) l = []).
    { clear IH Hl. induction l as [|b t IHt]; cbn [filter]; auto.
      inversion Ha as [|? ? Hab Ht]; subst.
      destruct (ident c (fst b)) eqn:Eb.
      - exfalso. rewrite ident_sym in E. pose proof (ident_trans _ _ _ E Eb). congruence.
      - apply IHt; exact Ht. }
    rewrite Hn. cbn. lia.
  Qed.

  Section WithPerm.
    Variables perm1 perm2 : list (T * P) -> list (T * P).
    Hypothesis perm1_ok : forall l, Permutation l (perm1 l).
    Hypothesis perm2_ok : forall l, Permutation l (perm2 l).

    Lemma ts_item_inv (perm : list (T * P) -> list (T * P)) (Hperm : forall l, Permutation l (perm l)) st c :
      pairwise_distinct (fst st) -> pairwise_distinct (fst (ts_item ident perm st c)).
    Proof.
      destruct st as [seen errs]. cbn [fst]. intros Hd. unfold ts_item.
      destruct (filter (fun s => ident (fst c) (fst s)) (perm seen)) eqn:E; cbn [fst]; auto.
      constructor; auto.
      rewrite Forall_forall. intros s Hs.
      destruct (ident (fst c) (fst s)) eqn:Es; auto.
      assert (Hin : In s (filter (fun s => ident (fst c) (fst s)) (perm seen))).
      { apply filter_In. split; auto. eapply Permutation_in; [apply Hperm|exact Hs]. }
      rewrite E in Hin. destruct Hin.
    Qed.

    Lemma ts_item_perm st c :
      pairwise_distinct (fst st) -> ts_item ident perm1 st c = ts_item ident perm2 st c.
    Proof.
      destruct st as [seen errs]. cbn [fst]. intros Hd. unfold ts_item.
      assert (Heq : filter (fun s => ident (fst c) (fst s)) (perm1 seen) =
                    filter (fun s => ident (fst c) (fst s)) (perm2 seen)).
      { assert (H1 : filter (fun s => ident (fst c) (fst s)) seen = filter (fun s => ident (fst c) (fst s)) (perm1 seen)).
        { apply perm_short_eq; [apply filter_perm, perm1_ok|apply filter_ident_le1; exact Hd]. }
        assert (H2 : filter (fun s => ident (fst c) (fst s)) seen = filter (fun s => ident (fst c) (fst s)) (perm2 seen)).
        { apply perm_short_eq; [apply filter_perm, perm2_ok|apply filter_ident_le1; exact Hd]. }
        congruence. }
      rewrite Heq. reflexivity.
    Qed.

    Lemma ts_cases_perm_gen cs : forall st,
      pairwise_distinct (fst st) ->
      fold_left (ts_item ident perm1) cs st = fold_left (ts_item ident perm2) cs st.
    Proof.
      induction cs as [|c t IH]; intros st Hd; cbn [fold_left]; auto.
      rewrite (ts_item_perm st c Hd). apply IH. apply ts_item_inv; auto.
    Qed.

    Lemma ts_cases_perm cs : ts_cases ident perm1 cs = ts_cases ident perm2 cs.
    Proof. unfold ts_cases. apply ts_cases_perm_gen. constructor. Qed.
  End WithPerm.
End TypeSwitch.

(* ---------- the three repaired loops: collect the keys, sort them, then work in sorted order ---------- *)
Section SortedLoops.
  Context {V E : Type}.
  Lemma sorted_loop_perm {R} (work : list (str * V) -> R) (m m' : list (str * V)) :
    Permutation m m' -> NoDup (map fst m) -> work (sort_by_path m) = work (sort_by_path m').
  Proof. intros Hp Hn. rewrite (sort_perm_invariant m m'); auto. Qed.
  (* initGopPkg: the loads (each may log errors) run over the sorted names *)
  Lemma log_loop_sorted_perm (body : str * V -> list E) m m' :
    Permutation m m' -> NoDup (map fst m) ->
    log_loop body (sort_by_path m) = log_loop body (sort_by_path m').
  Proof. apply sorted_loop_perm. Qed.
  (* gmxCheckProjs: first writer wins over the sorted extensions *)
  Lemma first_wins_sorted_perm (m m' : list (str * V)) :
    Permutation m m' -> NoDup (map fst m) -> first_wins (sort_by_path m) = first_wins (sort_by_path m').
  Proof. apply sorted_loop_perm. Qed.
  (* x/build loadPackage: the first sorted name *)
  Lemma pick_any_sorted_perm (m m' : list (str * V)) :
    Permutation m m' -> NoDup (map fst m) -> pick_any (sort_by_path m) = pick_any (sort_by_path m').
  Proof. apply sorted_loop_perm. Qed.
End SortedLoops.

(* ---------- type switch: the duplicate detection is complete for an equivalence `ident` ---------- *)
Section TypeSwitchComplete.
  Context {T P : Type} (ident : T -> T -> bool).
  Hypothesis ident_refl : forall a, ident a a = true.
  Hypothesis ident_sym : forall a b, ident a b = ident b a.
  Hypothesis ident_trans : forall a b c, ident a b = true -> ident b c = true -> ident a c = true.
  Variable perm : list (T * P) -> list (T * P).
  Hypothesis perm_ok : forall l, Permutation l (perm l).

  (* every processed case type is represented in `seen` *)
  Definition covers (seen : list (T * P)) (t : T) : Prop := exists s, In s seen /\ ident t (fst s) = true.

  Lemma ts_item_covers st c t :
    covers (fst st) t \/ ident t (fst c) = true -> covers (fst (ts_item ident perm st c)) t.
  Proof.
    destruct st as [seen errs]. cbn [fst]. unfold ts_item.
    destruct (filter (fun s => ident (fst c) (fst s)) (perm seen)) as [|h hs] eqn:E; cbn [fst].
    - intros [(s & Hs & Hi)|Hc]; [exists s; split; [right; exact Hs|exact Hi]|exists c; split; [left; reflexivity|exact Hc]].
    - intros [H|Hc]; [exact H|].
      assert (Hh : In h (filter (fun s => ident (fst c) (fst s)) (perm seen))) by (rewrite E; left; reflexivity).
      apply filter_In in Hh as [Hin Hid]. exists h. split.
      + eapply Permutation_in; [apply Permutation_sym, perm_ok|exact Hin].
      + eapply ident_trans; eauto.
  Qed.

  Lemma ts_item_errs_grow st c : exists more, snd (ts_item ident perm st c) = snd st ++ more.
  Proof.
    destruct st as [seen errs]. unfold ts_item.
    destruct (filter (fun s => ident (fst c) (fst s)) (perm seen)); cbn [snd]; [exists []; rewrite app_nil_r; reflexivity|eauto].
  Qed.

  Lemma ts_item_reports st c : covers (fst st) (fst c) -> snd (ts_item ident perm st c) <> snd st.
  Proof.
    destruct st as [seen errs]. cbn [fst snd]. intros (s & Hs & Hi). unfold ts_item.
    destruct (filter (fun s => ident (fst c) (fst s)) (perm seen)) as [|h hs] eqn:E.
    - exfalso. assert (Hin : In s (filter (fun s => ident (fst c) (fst s)) (perm seen))).
      { apply filter_In. split; [eapply Permutation_in; [apply perm_ok|exact Hs]|exact Hi]. }
      rewrite E in Hin. destruct Hin.
    - cbn [snd map]. intros H. apply (f_equal (@length _)) in H. rewrite app_length in H. cbn [length] in H. lia.
  Qed.

  Lemma fold_errs_grow cs : forall st, exists more, snd (fold_left (ts_item ident perm) cs st) = snd st ++ more.
  Proof.
    induction cs as [|c cs IH]; intros st; cbn [fold_left]; [exists []; rewrite app_nil_r; reflexivity|].
    destruct (IH (ts_item ident perm st c)) as [m1 H1]. destruct (ts_item_errs_grow st c) as [m0 H0].
    exists (m0 ++ m1). rewrite H1, H0, app_assoc. reflexivity.
  Qed.

  (* a case whose type is identical to an earlier case's type is always reported *)
  Lemma ts_cases_complete pre c mid d post :
    ident (fst d) (fst c) = true ->
    snd (ts_cases ident perm (pre ++ c :: mid ++ d :: post)) <> [].
  Proof.
    intros Hid. unfold ts_cases. rewrite fold_left_app. cbn [fold_left]. rewrite fold_left_app. cbn [fold_left].
    set (st0 := fold_left (ts_item ident perm) pre ([], [])).
    set (st1 := ts_item ident perm st0 c).
    assert (Hc1 : covers (fst st1) (fst c)) by (apply ts_item_covers; right; apply ident_refl).
    assert (Hc2 : covers (fst (fold_left (ts_item ident perm) mid st1)) (fst c)).
    { clearbody st1. clear st0. revert st1 Hc1. induction mid as [|m mid IH]; intros st1 Hc1; cbn [fold_left]; auto.
      apply IH. apply ts_item_covers. left. exact Hc1. }
    set (st2 := fold_left (ts_item ident perm) mid st1) in *.
    assert (Hd : covers (fst st2) (fst d)).
    { destruct Hc2 as (s & Hs & Hi). exists s. split; auto. eapply ident_trans; eauto. }
    pose proof (ts_item_reports st2 d Hd) as Hne.
    destruct (ts_item_errs_grow st2 d) as [m Hm].
    destruct (fold_errs_grow post (ts_item ident perm st2 d)) as [m' Hm'].
    rewrite Hm'. intros H. apply app_eq_nil in H as [H _]. rewrite Hm in H. apply app_eq_nil in H as [H1 H2].
    apply Hne. rewrite Hm, H1, H2. reflexivity.
  Qed.
End TypeSwitchComplete.

(* with pointer identity instead of types.Identical a repeated unnamed type is missed: types are
   (structure, allocation) pairs; two occurrences of []int are two allocations of one structure *)
Definition ident_struct (a b : nat * nat) : bool := Nat.eqb (fst a) (fst b).
Definition ident_ptr (a b : nat * nat) : bool := Nat.eqb (fst a) (fst b) && Nat.eqb (snd a) (snd b).
Lemma pointer_identity_misses_duplicate :
  exists cs : list ((nat * nat) * nat),
    snd (ts_cases ident_struct (fun l => l) cs) <> [] /\ snd (ts_cases ident_ptr (fun l => l) cs) = [].
Proof. exists [((7, 1), 10); ((7, 2), 20)]%nat. split; vm_compute; [discriminate|reflexivity]. Qed.

(* expression switch over an interface value: (value, type) pairs; the complete detection keeps EVERY
   distinct (value, type) seen (ts_cases with ident = same value and same type); remembering only the first
   type per value misses a duplicate of a later type (seeded/C06b) *)
Definition ident_vt (a b : nat * nat) : bool := Nat.eqb (fst a) (fst b) && Nat.eqb (snd a) (snd b).
Definition sw_item_first_only (st : list (nat * nat) * nat) (c : nat * nat) : list (nat * nat) * nat :=
  match find (fun s => Nat.eqb (fst s) (fst c)) (fst st) with
  | None => (fst st ++ [c], snd st)
  | Some s => if Nat.eqb (snd s) (snd c) then (fst st, S (snd st)) else st
  end.
Lemma switch_first_only_misses :
  exists cs : list ((nat * nat) * nat),
    snd (ts_cases ident_vt (fun l => l) cs) <> [] /\ snd (fold_left sw_item_first_only (map fst cs) ([], 0)) = 0.
Proof. exists [((100, 1), 10); ((100, 2), 20); ((100, 2), 30)]%nat. split; vm_compute; [discriminate|reflexivity]. Qed.
