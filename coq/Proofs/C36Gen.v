(* Obligations over the literals regenerated from tool/imp.go (Gen/C36.v): the text model of
   Model/C36.v is the rendering of the source's own format strings. By computation only. *)
From Coq Require Import List NArith ZArith Bool.
Import ListNotations.
From V Require Import Base.Prelude Base.Radix Base.Fmt Model.C36 Gen.C36.

Definition src (l : list N) : str := l.

Lemma cancl_table : cancl_case_labels = [[ext_go; ext_xgo; ext_gop; ext_gox]].
Proof. vm_compute. reflexivity. Qed.

(* fmt.Fprintf(h, "file\t%s\t%x\t%x\n", fname, v.Size(), v.ModTime().UnixNano()) is `line` *)
Lemma line_is_source_format e :
  fmt_apply (nth 2 dirhash_formats []) [FStr (e_name e); FHex (e_size e); FHex (e_mtime e)] = Some (line e).
Proof. reflexivity. Qed.

(* the two `self` lines *)
Lemma self_is_source_format gov xgov :
  match fmt_apply (nth 0 dirhash_formats []) [FStr gov], fmt_apply (nth 1 dirhash_formats []) [FStr xgov] with
  | Some a, Some b => a ++ b = self_text (Some (gov, xgov))
  | _, _ => False
  end.
Proof. cbn. rewrite <- app_assoc. reflexivity. Qed.

Lemma dirhash_tables :
  length dirhash_formats = 3%nat
  /\ dirhash_format_args =
       [[src [95;46;86;101;114;115;105;111;110;40;41]];                       (* _.Version()  (runtime) *)
        [src [95;46;86;101;114;115;105;111;110]];                                            (* _.Version  (xgo) *)
        [src [95]; src [95;46;83;105;122;101;40;41];                                  (* _ , _.Size(), *)
         src [95;46;77;111;100;84;105;109;101;40;41;46;85;110;105;120;78;97;110;111;40;41]]]          (* _.ModTime().UnixNano() *)
  /\ dirhash_prefix_literals = [[USCORE]]
  /\ dirhash_skips_dirs = true.
Proof. vm_compute. repeat split; reflexivity. Qed.

(* can_cl read against the generated table *)
Lemma can_cl_by_table classes n : In (path_ext n) (concat cancl_case_labels) -> can_cl classes n = true.
Proof.
  rewrite cancl_table. cbn [concat app In]. unfold can_cl. cbv zeta.
  intros [E|[E|[E|[E|[]]]]]; rewrite <- E; reflexivity.
Qed.
