(* C25, second part: the deletion of the unused fmt import is invisible to evaluation. *)
From Coq Require Import List NArith ZArith Bool Lia.
Import ListNotations.
From V Require Import Base.Prelude Gen.C25 Model.C25 Proofs.C25.

(* ================================================================ the imports the formatter marks used, without scope tracking *)

Definition use0 (im : list (name * str)) (x sel : name) : list name :=
  match sassoc x im with
  | Some path => match fmt_to_builtin path sel with Some _ => [] | None => [x] end
  | None => []
  end.

Section U.
Variable im : list (name * str).

Fixpoint u_e (e : expr) : list name :=
  match e with
  | EInt _ | EStr _ | EVar _ => []
  | EAdd a b => u_e a ++ u_e b
  | ECall _ args => u_args args
  | ESel x sel args => use0 im x sel ++ u_args args
  | EField x f => use0 im x f
  | EFuncLit _ _ body => u_ss body
  | ELambda _ rhs => u_es rhs
  | ELambda2 _ body => u_ss body
  | ENew _ e1 => u_e e1
  end
with u_es (es : exprs) : list name :=
  match es with ENil => [] | ECons e t => u_e e ++ u_es t end
with u_args (es : exprs) : list name :=
  match es with
  | ENil => []
  | ECons e t =>
      (match e with
       | EFuncLit ps res body =>
           match body with
           | SCons (SReturn rs) SNil => if lam_ok res rs then u_es rs else u_ss body
           | _ => u_ss body
           end
       | _ => u_e e
       end) ++ u_args t
  end
with u_s (s : stmt) : list name :=
  match s with
  | SExpr _ e => u_e e
  | SDefine _ e => u_e e
  | SVar _ e => u_e e
  | SIf c thn els => u_e c ++ u_ss thn ++ u_ss els
  | SReturn r => u_es r
  | SBlock b => u_ss b
  end
with u_ss (ss : stmts) : list name :=
  match ss with SNil => [] | SCons s t => u_s s ++ u_ss t end.
End U.

Definition u_arg (im : list (name * str)) (e : expr) : list name :=
  match e with
  | EFuncLit ps res body =>
      match body with
      | SCons (SReturn rs) SNil => if lam_ok res rs then u_es im rs else u_ss im body
      | _ => u_ss im body
      end
  | _ => u_e im e
  end.

Lemma u_args_eq im es : u_args im es = match es with ENil => [] | ECons e t => u_arg im e ++ u_args im t end.
Proof. destruct es; reflexivity. Qed.
Lemma u_e_eq im e : u_e im e =
  match e with
  | EInt _ | EStr _ | EVar _ => []
  | EAdd a b => u_e im a ++ u_e im b
  | ECall _ args => u_args im args
  | ESel x sel args => use0 im x sel ++ u_args im args
  | EField x f => use0 im x f
  | EFuncLit _ _ body => u_ss im body
  | ELambda _ rhs => u_es im rhs
  | ELambda2 _ body => u_ss im body
  | ENew _ e1 => u_e im e1
  end.
Proof. destruct e; reflexivity. Qed.
Lemma u_es_eq im es : u_es im es = match es with ENil => [] | ECons e t => u_e im e ++ u_es im t end.
Proof. destruct es; reflexivity. Qed.
Lemma u_s_eq im s : u_s im s =
  match s with
  | SExpr _ e => u_e im e
  | SDefine _ e => u_e im e
  | SVar _ e => u_e im e
  | SIf c thn els => u_e im c ++ u_ss im thn ++ u_ss im els
  | SReturn r => u_es im r
  | SBlock b => u_ss im b
  end.
Proof. destruct s; reflexivity. Qed.
Lemma u_ss_eq im ss : u_ss im ss = match ss with SNil => [] | SCons s t => u_s im s ++ u_ss im t end.
Proof. destruct ss; reflexivity. Qed.

Lemma sel_action_use0 c x sel : scope_inv c -> snd (sel_action c x sel) = use0 (imps c) x sel.
Proof.
  intros H. unfold sel_action, use0. destruct (in_scope x c) eqn:E.
  - rewrite (H x E). reflexivity.
  - destruct (sassoc x (imps c)); [|reflexivity]. destruct (fmt_to_builtin s sel); reflexivity.
Qed.

Definition aux_u (e : expr) : Prop :=
  match e with
  | EFuncLit _ _ body => forall c, scope_inv c -> good_ss (ni (imps c)) body = true ->
      snd (tr_stmts c body) = u_ss (imps c) body /\ snd (tr_block c body) = u_ss (imps c) body
  | _ => True
  end.

(* the used lists computed with scope tracking are the ctx-free ones *)
Lemma tr_is_u :
  (forall e, (forall c, scope_inv c -> good_e (ni (imps c)) e = true -> snd (tr_expr c e) = u_e (imps c) e) /\ aux_u e) /\
  (forall es c, scope_inv c -> good_es (ni (imps c)) es = true ->
     snd (tr_exprs c es) = u_es (imps c) es /\ snd (tr_args c es) = u_args (imps c) es) /\
  (forall s c, scope_inv c -> good_s (ni (imps c)) s = true -> snd (tr_stmt c s) = u_s (imps c) s) /\
  (forall ss c, scope_inv c -> good_ss (ni (imps c)) ss = true ->
     snd (tr_stmts c ss) = u_ss (imps c) ss /\ snd (tr_block c ss) = u_ss (imps c) ss).
Proof.
  destruct tr_is_t as [_ [_ [Hts _]]].
  apply syntax_mutind.
  - intros z. split; [reflexivity | exact I].
  - intros s. split; [reflexivity | exact I].
  - intros x. split; [reflexivity | exact I].
  - (* EAdd *) intros a [IHa _] b [IHb _]. split; [|exact I]. intros c Hc Hg. simpl in Hg. bsplit Hg.
    simpl; rewrite (u_e_eq _ (EAdd a b)). specialize (IHa c Hc Hg). specialize (IHb c Hc Hg0).
    destruct (tr_expr c a) as [a' u1]. destruct (tr_expr c b) as [b' u2]. simpl in *. congruence.
  - (* ECall *) intros f args IHa. split; [|exact I]. intros c Hc Hg. simpl in Hg.
    simpl; rewrite (u_e_eq _ (ECall f args)). destruct (IHa c Hc Hg) as [_ IH2].
    destruct (tr_args c args) as [a' u]. simpl in *. congruence.
  - (* ESel *) intros x sel args IHa. split; [|exact I]. intros c Hc Hg. simpl in Hg.
    simpl; rewrite (u_e_eq _ (ESel x sel args)). destruct (IHa c Hc Hg) as [_ IH2].
    pose proof (sel_action_use0 c x sel Hc) as Hs.
    destruct (sel_action c x sel) as [act u1]. destruct (tr_args c args) as [a' u2]. simpl in *. subst.
    destruct act; reflexivity.
  - (* EField *) intros x f. split; [|exact I]. intros c Hc _. simpl; rewrite (u_e_eq _ (EField x f)).
    pose proof (sel_action_use0 c x f Hc) as Hs.
    destruct (sel_action c x f) as [act u1]. simpl in *. subst. destruct act; reflexivity.
  - (* EFuncLit *) intros ps res body IHb. split.
    + intros c Hc Hg. simpl in Hg. bsplit Hg. simpl; rewrite (u_e_eq _ (EFuncLit ps res body)).
      destruct (IHb c Hc Hg0) as [_ IH2]. destruct (tr_block c body) as [b' u]. simpl in *. congruence.
    + intros c Hc Hg. apply IHb; assumption.
  - (* ELambda *) intros ps rhs IHr. split; [|exact I]. intros c Hc Hg. simpl in Hg. bsplit Hg.
    simpl; rewrite (u_e_eq _ (ELambda ps rhs)). destruct (IHr c Hc Hg0) as [IH1 _]. destruct (tr_exprs c rhs) as [r' u]. simpl in *. congruence.
  - (* ELambda2 *) intros ps body IHb. split; [|exact I]. intros c Hc Hg. simpl in Hg. bsplit Hg.
    simpl; rewrite (u_e_eq _ (ELambda2 ps body)). destruct (IHb c Hc Hg0) as [_ IH2]. destruct (tr_block c body) as [b' u]. simpl in *. congruence.
  - (* ENew *) intros t e [IHe _]. split; [|exact I]. intros c Hc Hg. simpl in Hg.
    simpl; rewrite (u_e_eq _ (ENew t e)). specialize (IHe c Hc Hg). destruct (tr_expr c e) as [e' u]. simpl in *. congruence.
  - (* ENil *) intros c _ _. split; reflexivity.
  - (* ECons *) intros e [IHe Haux] t IHt c Hc Hg. simpl in Hg. bsplit Hg.
    destruct (IHt c Hc Hg0) as [IHt1 IHt2]. specialize (IHe c Hc Hg).
    split.
    + simpl; rewrite (u_es_eq _ (ECons e t)). destruct (tr_expr c e) as [e' u1]. destruct (tr_exprs c t) as [t' u2]. simpl in *. congruence.
    + simpl tr_args; rewrite (u_args_eq (imps c) (ECons e t)); unfold u_arg.
      assert (Harg : snd (match e with
                          | EFuncLit ps res body =>
                              match body with
                              | SCons (SReturn rs) SNil =>
                                  if lam_ok res rs
                                  then let '(r', u) := tr_exprs c rs in (ELambda ps r', u)
                                  else let '(b', u) := tr_block c body in (ELambda2 ps b', u)
                              | _ => let '(b', u) := tr_block c body in (ELambda2 ps b', u)
                              end
                          | _ => tr_expr c e
                          end) =
                     match e with
                     | EFuncLit ps res body =>
                         match body with
                         | SCons (SReturn rs) SNil =>
                             if lam_ok res rs then u_es (imps c) rs else u_ss (imps c) body
                         | _ => u_ss (imps c) body
                         end
                     | _ => u_e (imps c) e
                     end).
      { destruct e; try exact IHe.
        simpl in Hg. bsplit Hg. simpl in Haux. destruct (Haux c Hc Hg1) as [Hs Hb].
        assert (Hblock : snd (let '(b', u) := tr_block c body in (ELambda2 ps b', u)) = u_ss (imps c) body).
        { destruct (tr_block c body) as [b' u]. simpl in *. congruence. }
        destruct body as [|s0 rest]; [exact Hblock|].
        destruct s0; try exact Hblock. destruct rest; [|exact Hblock].
        destruct (lam_ok res r); [|exact Hblock].
        simpl in Hs. change (u_ss (imps c) (SCons (SReturn r) SNil)) with (u_es (imps c) r ++ []) in Hs.
        destruct (tr_exprs c r) as [r' u]. simpl in Hs |- *. rewrite !app_nil_r in Hs. exact Hs. }
      destruct (match e with EFuncLit _ _ _ => _ | _ => _ end) as [e' u1].
      destruct (tr_args c t) as [t' u2]. simpl in *. congruence.
  - (* SExpr *) intros cmd e [IHe _] c Hc Hg. simpl in Hg. simpl; rewrite (u_s_eq _ (SExpr cmd e)).
    specialize (IHe c Hc Hg). destruct (tr_expr c e) as [e' u]. simpl in *. exact IHe.
  - (* SDefine *) intros x e [IHe _] c Hc Hg. simpl in Hg. bsplit Hg. simpl; rewrite (u_s_eq _ (SDefine x e)).
    specialize (IHe c Hc Hg0). destruct (tr_expr c e) as [e' u]. simpl in *. exact IHe.
  - (* SVar *) intros x e [IHe _] c Hc Hg. simpl in Hg. bsplit Hg. simpl; rewrite (u_s_eq _ (SVar x e)).
    specialize (IHe c Hc Hg0). destruct (tr_expr c e) as [e' u]. simpl in *. exact IHe.
  - (* SIf *) intros cnd [IHc _] thn IHt els IHe c Hc Hg. simpl in Hg. bsplit Hg. simpl; rewrite (u_s_eq _ (SIf cnd thn els)).
    pose proof (scope_inv_push c Hc) as Hp.
    specialize (IHc (push c) Hp Hg). destruct (IHt (push c) Hp Hg1) as [_ IHt2]. destruct (IHe (push c) Hp Hg0) as [_ IHe2].
    destruct (tr_expr (push c) cnd) as [c' u1]. destruct (tr_block (push c) thn) as [t' u2].
    destruct (tr_block (push c) els) as [e' u3]. simpl in *. subst. reflexivity.
  - (* SReturn *) intros r IHr c Hc Hg. simpl in Hg. simpl; rewrite (u_s_eq _ (SReturn r)).
    destruct (IHr c Hc Hg) as [IH1 _]. destruct (tr_exprs c r) as [r' u]. simpl in *. exact IH1.
  - (* SBlock *) intros b IHb c Hc Hg. simpl in Hg. simpl; rewrite (u_s_eq _ (SBlock b)).
    destruct (IHb c Hc Hg) as [_ IH2]. destruct (tr_block c b) as [b' u]. simpl in *. exact IH2.
  - (* SNil *) intros c _ _. split; reflexivity.
  - (* SCons *) intros s IHs t IHt c Hc Hg. simpl in Hg. bsplit Hg. split.
    + simpl; rewrite (u_ss_eq _ (SCons s t)). specialize (IHs c Hc Hg). destruct (Hts s c Hc Hg) as [_ [H2 H3]].
      destruct (tr_stmt c s) as [[s' c1] u1]. simpl in *.
      rewrite <- H3 in Hg0. destruct (IHt c1 H2 Hg0) as [H4 _].
      destruct (tr_stmts c1 t) as [t' u2]. simpl in *. rewrite H3 in H4. congruence.
    + simpl; rewrite (u_ss_eq _ (SCons s t)). pose proof (scope_inv_push c Hc) as Hp.
      specialize (IHs (push c) Hp Hg). destruct (Hts s (push c) Hp Hg) as [_ [H2 H3]].
      destruct (tr_stmt (push c) s) as [[s' c1] u1]. simpl in *.
      rewrite <- H3 in Hg0. destruct (IHt c1 H2 Hg0) as [H4 _].
      destruct (tr_stmts c1 t) as [t' u2]. simpl in *. rewrite H3 in H4. congruence.
Qed.

(* ================================================================ selector bases of a term *)

Fixpoint bases_e (e : expr) : list name :=
  match e with
  | EInt _ | EStr _ | EVar _ => []
  | EAdd a b => bases_e a ++ bases_e b
  | ECall _ args => bases_es args
  | ESel x _ args => x :: bases_es args
  | EField x _ => [x]
  | EFuncLit _ _ body => bases_ss body
  | ELambda _ rhs => bases_es rhs
  | ELambda2 _ body => bases_ss body
  | ENew _ e1 => bases_e e1
  end
with bases_es (es : exprs) : list name :=
  match es with ENil => [] | ECons e t => bases_e e ++ bases_es t end
with bases_s (s : stmt) : list name :=
  match s with
  | SExpr _ e => bases_e e
  | SDefine _ e => bases_e e
  | SVar _ e => bases_e e
  | SIf c thn els => bases_e c ++ bases_ss thn ++ bases_ss els
  | SReturn r => bases_es r
  | SBlock b => bases_ss b
  end
with bases_ss (ss : stmts) : list name :=
  match ss with SNil => [] | SCons s t => bases_s s ++ bases_ss t end.

(* every selector base left by the conversion is marked used, or is not an import at all *)
Definition ok_base (im : list (name * str)) (u : list name) (x : name) : Prop := In x u \/ sassoc x im = None.

Lemma ok_base_incl im u u' x : incl u u' -> ok_base im u x -> ok_base im u' x.
Proof. intros Hi [H | H]; [left; auto | right; auto]. Qed.

Ltac okb_app :=
  match goal with
  | H : In _ (_ ++ _) |- _ => apply in_app_or in H; destruct H as [H | H]
  end.

Lemma bases_marked im :
  (forall e x, In x (bases_e (t_e im e)) -> ok_base im (u_e im e) x) /\
  (forall es x, (In x (bases_es (t_es im es)) -> ok_base im (u_es im es) x) /\
                (In x (bases_es (t_args im es)) -> ok_base im (u_args im es) x)) /\
  (forall s x, In x (bases_s (t_s im s)) -> ok_base im (u_s im s) x) /\
  (forall ss x, In x (bases_ss (t_ss im ss)) -> ok_base im (u_ss im ss) x).
Proof.
  apply syntax_mutind.
  - intros z x []. 
  - intros s x [].
  - intros y x [].
  - (* EAdd *) intros a IHa b IHb x H. rewrite t_e_eq in H. simpl in H. rewrite (u_e_eq _ (EAdd a b)). okb_app.
    + eapply ok_base_incl; [|apply IHa; exact H]. apply incl_appl, incl_refl.
    + eapply ok_base_incl; [|apply IHb; exact H]. apply incl_appr, incl_refl.
  - (* ECall *) intros f args IHa x H. rewrite t_e_eq in H. simpl in H. rewrite (u_e_eq _ (ECall f args)).
    apply (proj2 (IHa x)). exact H.
  - (* ESel *) intros y sel args IHa x H. rewrite t_e_eq in H. rewrite (u_e_eq _ (ESel y sel args)).
    unfold act0, use0 in *. destruct (sassoc y im) as [path|] eqn:Ey.
    + destruct (fmt_to_builtin path sel) as [b|].
      * simpl in H. simpl. apply (proj2 (IHa x)). exact H.
      * simpl in H. destruct H as [<- | H]; [left; simpl; auto|].
        eapply ok_base_incl; [|apply (proj2 (IHa x)); exact H]. apply incl_appr, incl_refl.
    + simpl in H. destruct H as [<- | H]; [right; exact Ey|].
      simpl. apply (proj2 (IHa x)). exact H.
  - (* EField *) intros y f x H. rewrite t_e_eq in H. rewrite (u_e_eq _ (EField y f)).
    unfold act0, use0 in *. destruct (sassoc y im) as [path|] eqn:Ey.
    + destruct (fmt_to_builtin path f) as [b|]; simpl in H; [tauto|].
      destruct H as [<- | []]. left. simpl. auto.
    + simpl in H. destruct H as [<- | []]. right. exact Ey.
  - intros ps res body IHb x H. rewrite t_e_eq in H. simpl in H. rewrite (u_e_eq _ (EFuncLit ps res body)). apply IHb. exact H.
  - intros ps rhs IHr x H. rewrite t_e_eq in H. simpl in H. rewrite (u_e_eq _ (ELambda ps rhs)). apply (proj1 (IHr x)). exact H.
  - intros ps body IHb x H. rewrite t_e_eq in H. simpl in H. rewrite (u_e_eq _ (ELambda2 ps body)). apply IHb. exact H.
  - intros t e IHe x H. rewrite t_e_eq in H. simpl in H. rewrite (u_e_eq _ (ENew t e)). apply IHe. exact H.
  - intros x. split; intros [].
  - (* ECons *) intros e IHe t IHt x. split; intros H.
    + rewrite t_es_eq in H. simpl in H. rewrite (u_es_eq _ (ECons e t)). okb_app.
      * eapply ok_base_incl; [|apply IHe; exact H]. apply incl_appl, incl_refl.
      * eapply ok_base_incl; [|apply (proj1 (IHt x)); exact H]. apply incl_appr, incl_refl.
    + rewrite t_args_eq in H. simpl in H. rewrite (u_args_eq _ (ECons e t)). okb_app.
      * eapply ok_base_incl; [apply incl_appl, incl_refl|].
        assert (Hgen : In x (bases_e (t_e im e)) -> ok_base im (u_e im e) x) by apply IHe.
        destruct e; try (apply Hgen; exact H).
        (* EFuncLit: the lambda forms have the bases of the translated body *)
        unfold t_arg in H. unfold u_arg.
        rewrite t_e_eq, (u_e_eq _ (EFuncLit ps res body)) in Hgen. simpl in Hgen.
        destruct body as [|s0 rest]; [apply Hgen; exact H|].
        destruct s0; try (apply Hgen; exact H).
        destruct rest; [|apply Hgen; exact H].
        destruct (lam_ok res r); [|apply Hgen; exact H].
        simpl in H.
        change (u_ss im (SCons (SReturn r) SNil)) with (u_es im r ++ []) in Hgen. rewrite app_nil_r in Hgen.
        apply Hgen. change (t_ss im (SCons (SReturn r) SNil)) with (SCons (SReturn (t_es im r)) SNil).
        simpl. rewrite app_nil_r. exact H.
      * eapply ok_base_incl; [|apply (proj2 (IHt x)); exact H]. apply incl_appr, incl_refl.
  - intros cmd e IHe x H. rewrite t_s_eq in H. simpl in H. rewrite (u_s_eq _ (SExpr cmd e)). apply IHe. exact H.
  - intros y e IHe x H. rewrite t_s_eq in H. simpl in H. rewrite (u_s_eq _ (SDefine y e)). apply IHe. exact H.
  - intros y e IHe x H. rewrite t_s_eq in H. simpl in H. rewrite (u_s_eq _ (SVar y e)). apply IHe. exact H.
  - intros c IHc thn IHt els IHe x H. rewrite t_s_eq in H. simpl in H. rewrite (u_s_eq _ (SIf c thn els)).
    okb_app; [|okb_app].
    + eapply ok_base_incl; [|apply IHc; exact H]. apply incl_appl, incl_refl.
    + eapply ok_base_incl; [|apply IHt; exact H]. apply incl_appr, incl_appl, incl_refl.
    + eapply ok_base_incl; [|apply IHe; exact H]. apply incl_appr, incl_appr, incl_refl.
  - intros r IHr x H. rewrite t_s_eq in H. simpl in H. rewrite (u_s_eq _ (SReturn r)). apply (proj1 (IHr x)). exact H.
  - intros b IHb x H. rewrite t_s_eq in H. simpl in H. rewrite (u_s_eq _ (SBlock b)). apply IHb. exact H.
  - intros x [].
  - intros s IHs t IHt x H. rewrite t_ss_eq in H. simpl in H. rewrite (u_ss_eq _ (SCons s t)). okb_app.
    + eapply ok_base_incl; [|apply IHs; exact H]. apply incl_appl, incl_refl.
    + eapply ok_base_incl; [|apply IHt; exact H]. apply incl_appr, incl_refl.
Qed.

(* ================================================================ evaluation does not depend on imports that no selector base mentions *)

Section Inv.
Variables im1 im2 : list (name * str).
Definition agree (x : name) : Prop := sassoc x im2 = sassoc x im1.

Definition safe_e (e : expr) : Prop := forall x, In x (bases_e e) -> agree x.
Definition safe_es (es : exprs) : Prop := forall x, In x (bases_es es) -> agree x.
Definition safe_s (s : stmt) : Prop := forall x, In x (bases_s s) -> agree x.
Definition safe_ss (ss : stmts) : Prop := forall x, In x (bases_ss ss) -> agree x.

Inductive safe_v : value -> Prop :=
| sv_int z : safe_v (VInt z)
| sv_str s : safe_v (VStr s)
| sv_unit : safe_v VUnit
| sv_obj t v : safe_v v -> safe_v (VObj t v)
| sv_clos ps b e : safe_ss b -> safe_env e -> safe_v (VClos ps b e)
with safe_env : env -> Prop :=
| se_nil : safe_env []
| se_cons x v e : safe_v v -> safe_env e -> safe_env ((x, v) :: e).

Lemma safe_env_lookup e x v : safe_env e -> sassoc x e = Some v -> safe_v v.
Proof.
  induction 1 as [|y w e Hw He IH]; simpl; [discriminate|].
  destruct (str_eqb x y); [intros H; inversion H; subst; assumption | exact IH].
Qed.

Lemma bind_safe ps : forall vs ce e1, Forall safe_v vs -> safe_env ce -> bind ps vs ce = Some e1 -> safe_env e1.
Proof.
  induction ps as [|p ps IH]; intros vs ce e1 Hv Hc Hb.
  - destruct vs; [|discriminate]. simpl in Hb. inversion Hb; subst. assumption.
  - destruct vs as [|v vs]; [discriminate|]. inversion Hv; subst. simpl in Hb.
    destruct (bind ps vs ce) as [e0|] eqn:E; [|discriminate]. inversion Hb; subst.
    constructor; [assumption | eapply IH; eauto].
Qed.

Variables (F : list (name * (list name * stmts))) (Mt : list (name * (name * (name * (list name * stmts))))).
Hypothesis F_safe : forall f ps b, sassoc f F = Some (ps, b) -> safe_ss b.
Hypothesis M_safe : forall t m r ps b, find_method t m Mt = Some (r, (ps, b)) -> safe_ss b.

Definition W1 (g : env) := World im1 F Mt g.
Definition W2 (g : env) := World im2 F Mt g.

Definition safe_opt (r : option value) : Prop := match r with Some v => safe_v v | None => True end.

Definition inv_e (n : nat) (md : mode) (g : env) : Prop :=
  forall e en, safe_e e -> safe_env en ->
  eval_e n md (W1 g) en e = eval_e n md (W2 g) en e /\
  (forall v tr, eval_e n md (W1 g) en e = Ok (v, tr) -> safe_v v).
Definition inv_es (n : nat) (md : mode) (g : env) : Prop :=
  forall es en, safe_es es -> safe_env en ->
  eval_es n md (W1 g) en es = eval_es n md (W2 g) en es /\
  (forall vs tr, eval_es n md (W1 g) en es = Ok (vs, tr) -> Forall safe_v vs).
Definition inv_s (n : nat) (md : mode) (g : env) : Prop :=
  forall s en, safe_s s -> safe_env en ->
  eval_s n md (W1 g) en s = eval_s n md (W2 g) en s /\
  (forall r en1 tr, eval_s n md (W1 g) en s = Ok (r, en1, tr) -> safe_opt r /\ safe_env en1).
Definition inv_ss (n : nat) (md : mode) (g : env) : Prop :=
  forall ss en, safe_ss ss -> safe_env en ->
  eval_ss n md (W1 g) en ss = eval_ss n md (W2 g) en ss /\
  (forall r en1 tr, eval_ss n md (W1 g) en ss = Ok (r, en1, tr) -> safe_opt r /\ safe_env en1).

Lemma lookup_method_same md g t m : lookup_method md (W1 g) t m = lookup_method md (W2 g) t m.
Proof. reflexivity. Qed.

Lemma lookup_method_safe md g t m r ps b : lookup_method md (W1 g) t m = Some (r, (ps, b)) -> safe_ss b.
Proof.
  unfold lookup_method. simpl. destruct (find_method t m Mt) as [[r0 [ps0 b0]]|] eqn:E.
  - intros H. inversion H; subst. eapply M_safe; eauto.
  - destruct md; [discriminate|]. intros H. eapply M_safe; eauto.
Qed.

Ltac inv' H := inversion H; subst; clear H.
Ltac triv := split; [reflexivity | intros; discriminate].

Lemma ret1_safe r : safe_opt r -> safe_v (ret1 r).
Proof. destruct r; simpl; [auto | constructor]. Qed.

Lemma safe_clos_inv ps b e : safe_v (VClos ps b e) -> safe_ss b /\ safe_env e.
Proof. intros H. inversion H; subst. auto. Qed.
Lemma safe_obj_inv t v : safe_v (VObj t v) -> safe_v v.
Proof. intros H. inversion H; subst. auto. Qed.

Opaque c25_xgo_builtins.

Lemma inv_e_step n md g : safe_env g -> inv_e n md g -> inv_es n md g -> inv_ss n md g -> inv_e (S n) md g.
Proof.
  intros Hgs IHe IHes IHss e en Hse Hen.
  destruct e.
  - simpl. split; [reflexivity|]. intros v tr H. inv' H. constructor.
  - simpl. split; [reflexivity|]. intros v tr H. inv' H. constructor.
  - (* EVar *) simpl. split; [reflexivity|]. intros v tr H.
    destruct (sassoc x en) as [v0|] eqn:Ex.
    + inv' H. eapply safe_env_lookup; eauto.
    + destruct (sassoc x F) as [[ps b]|] eqn:Ef.
      * inv' H. constructor; [eapply F_safe; eauto | assumption].
      * destruct md; simpl in H; [discriminate|]. destruct (sassoc x c25_xgo_builtins) as [[p f]|]; [|discriminate]. inv' H. constructor.
  - (* EAdd *) assert (H1 : safe_e e1) by (intros x Hx; apply Hse; simpl; apply in_or_app; auto).
    assert (H2 : safe_e e2) by (intros x Hx; apply Hse; simpl; apply in_or_app; auto).
    destruct (IHe e1 en H1 Hen) as [Q1 _]. destruct (IHe e2 en H2 Hen) as [Q2 _].
    simpl. rewrite <- Q1, <- Q2. split; [reflexivity|]. intros v tr H.
    destruct (eval_e n md (W1 g) en e1) as [[va ta]| |]; try discriminate. destruct va; try discriminate.
    destruct (eval_e n md (W1 g) en e2) as [[vb tb]| |]; try discriminate. destruct vb; try discriminate.
    inv' H. constructor.
  - (* ECall *) assert (Ha : safe_es args) by (intros x Hx; apply Hse; exact Hx).
    destruct (IHes args en Ha Hen) as [Q1 S1]. simpl. rewrite <- Q1.
    destruct (eval_es n md (W1 g) en args) as [[vs t1]| |] eqn:Ea; try triv.
    specialize (S1 _ _ eq_refl).
    destruct (sassoc f en) as [v0|] eqn:Ef.
    + destruct v0 as [ | | | |ps b ce]; try triv.
      pose proof (safe_env_lookup _ _ _ Hen Ef) as Hv. apply safe_clos_inv in Hv. destruct Hv as [Hsb Hsce].
      destruct (bind ps vs ce) as [e1|] eqn:Eb; [|triv].
      pose proof (bind_safe _ _ _ _ S1 Hsce Eb) as He1.
      destruct (IHss b e1 Hsb He1) as [Q2 S2]. rewrite <- Q2.
      destruct (eval_ss n md (W1 g) e1 b) as [[[r e2] t2]| |] eqn:Es; try triv.
      split; [reflexivity|]. intros v tr H. inv' H. apply ret1_safe. apply (S2 _ _ _ eq_refl).
    + destruct (sassoc f F) as [[ps b]|] eqn:Eff.
      * destruct (bind ps vs g) as [e1|] eqn:Eb; [|triv].
        pose proof (bind_safe _ _ _ _ S1 Hgs Eb) as He1.
        destruct (IHss b e1 (F_safe _ _ _ Eff) He1) as [Q2 S2]. rewrite <- Q2.
        destruct (eval_ss n md (W1 g) e1 b) as [[[r e2] t2]| |] eqn:Es; try triv.
        split; [reflexivity|]. intros v tr H. inv' H. apply ret1_safe. apply (S2 _ _ _ eq_refl).
      * destruct md; [triv|]. destruct (sassoc f c25_xgo_builtins) as [[p f0]|]; [|triv].
        split; [reflexivity|]. unfold ext_call. intros v tr H. inv' H. constructor.
  - (* ESel *) assert (Ha : safe_es args) by (intros y Hy; apply Hse; simpl; auto).
    assert (Hx : agree x) by (apply Hse; simpl; auto).
    destruct (IHes args en Ha Hen) as [Q1 S1]. simpl. rewrite <- Q1.
    destruct (eval_es n md (W1 g) en args) as [[vs t1]| |] eqn:Ea; try triv.
    specialize (S1 _ _ eq_refl).
    destruct (sassoc x en) as [v0|] eqn:Ex.
    + destruct v0 as [ | | |t pv| ]; try triv.
      pose proof (safe_env_lookup _ _ _ Hen Ex) as Hv.
      rewrite <- (lookup_method_same md g t sel).
      destruct (lookup_method md (W1 g) t sel) as [[r [ps b]]|] eqn:El; [|triv].
      destruct (bind ps vs g) as [e1|] eqn:Eb; [|triv].
      pose proof (bind_safe _ _ _ _ S1 Hgs Eb) as He1.
      assert (He1' : safe_env ((r, VObj t pv) :: e1)) by (constructor; assumption).
      destruct (IHss b _ (lookup_method_safe _ _ _ _ _ _ _ El) He1') as [Q2 S2]. rewrite <- Q2.
      destruct (eval_ss n md (W1 g) ((r, VObj t pv) :: e1) b) as [[[rv e2] t2]| |] eqn:Es; try triv.
      split; [reflexivity|]. intros v tr H. inv' H. apply ret1_safe. apply (S2 _ _ _ eq_refl).
    + unfold agree in Hx. rewrite Hx.
      destruct (sassoc x im1) as [path|]; [|triv].
      destruct (pkg_member md sel) as [g0|]; [|triv].
      split; [reflexivity|]. unfold ext_call. intros v tr H. inv' H. constructor.
  - (* EField *) assert (Hx : agree x) by (apply Hse; simpl; auto).
    simpl. destruct (sassoc x en) as [v0|] eqn:Ex.
    + destruct v0 as [ | | |t pv| ]; try triv.
      split; [reflexivity|]. intros v tr H. inv' H.
      pose proof (safe_env_lookup _ _ _ Hen Ex) as Hv. apply safe_obj_inv in Hv. assumption.
    + unfold agree in Hx. rewrite Hx.
      destruct (sassoc x im1) as [path|]; [|triv].
      destruct (pkg_member md f) as [g0|]; [|triv].
      split; [reflexivity|]. intros v tr H. inv' H. constructor.
  - (* EFuncLit *) simpl. split; [reflexivity|]. intros v tr H. inv' H. constructor; [exact Hse | assumption].
  - (* ELambda *) simpl. split; [reflexivity|]. intros v tr H. inv' H. constructor; [|assumption].
    intros x Hx. apply Hse. simpl in Hx |- *. rewrite app_nil_r in Hx. exact Hx.
  - (* ELambda2 *) simpl. split; [reflexivity|]. intros v tr H. inv' H. constructor; [exact Hse | assumption].
  - (* ENew *) assert (H1 : safe_e e) by (intros x Hx; apply Hse; exact Hx).
    destruct (IHe e en H1 Hen) as [Q1 S1]. simpl. rewrite <- Q1.
    destruct (eval_e n md (W1 g) en e) as [[v1 t1]| |] eqn:Ea; try triv.
    split; [reflexivity|]. intros v tr H. inv' H. constructor. apply (S1 _ _ eq_refl).
Qed.

Lemma inv_es_step n md g : inv_e n md g -> inv_es n md g -> inv_es (S n) md g.
Proof.
  intros IHe IHes es en Hse Hen. destruct es as [|e t].
  - simpl. split; [reflexivity|]. intros vs tr H. inv' H. constructor.
  - assert (H1 : safe_e e) by (intros x Hx; apply Hse; simpl; apply in_or_app; auto).
    assert (H2 : safe_es t) by (intros x Hx; apply Hse; simpl; apply in_or_app; auto).
    destruct (IHe e en H1 Hen) as [Q1 S1]. destruct (IHes t en H2 Hen) as [Q2 S2].
    simpl. rewrite <- Q1, <- Q2.
    destruct (eval_e n md (W1 g) en e) as [[v1 t1]| |] eqn:Ea; try triv.
    destruct (eval_es n md (W1 g) en t) as [[vs1 t2]| |] eqn:Eb; try triv.
    split; [reflexivity|]. intros vs tr H. inv' H. constructor; [apply (S1 _ _ eq_refl) | apply (S2 _ _ eq_refl)].
Qed.

Lemma inv_s_step n md g : inv_e n md g -> inv_ss n md g -> inv_s (S n) md g.
Proof.
  intros IHe IHss s en Hse Hen. destruct s.
  - assert (H1 : safe_e e) by (intros x Hx; apply Hse; exact Hx).
    destruct (IHe e en H1 Hen) as [Q1 S1]. simpl. rewrite <- Q1.
    destruct (eval_e n md (W1 g) en e) as [[v1 t1]| |] eqn:Ea; try triv.
    split; [reflexivity|]. intros r en1 tr H. inv' H. simpl. auto.
  - assert (H1 : safe_e e) by (intros y Hy; apply Hse; exact Hy).
    destruct (IHe e en H1 Hen) as [Q1 S1]. simpl. rewrite <- Q1.
    destruct (eval_e n md (W1 g) en e) as [[v1 t1]| |] eqn:Ea; try triv.
    split; [reflexivity|]. intros r en1 tr H. inv' H. simpl. split; [auto|]. constructor; [apply (S1 _ _ eq_refl) | assumption].
  - assert (H1 : safe_e e) by (intros y Hy; apply Hse; exact Hy).
    destruct (IHe e en H1 Hen) as [Q1 S1]. simpl. rewrite <- Q1.
    destruct (eval_e n md (W1 g) en e) as [[v1 t1]| |] eqn:Ea; try triv.
    split; [reflexivity|]. intros r en1 tr H. inv' H. simpl. split; [auto|]. constructor; [apply (S1 _ _ eq_refl) | assumption].
  - assert (H1 : safe_e c) by (intros y Hy; apply Hse; simpl; apply in_or_app; auto).
    assert (H2 : safe_ss thn) by (intros y Hy; apply Hse; simpl; apply in_or_app; right; apply in_or_app; auto).
    assert (H3 : safe_ss els) by (intros y Hy; apply Hse; simpl; apply in_or_app; right; apply in_or_app; auto).
    destruct (IHe c en H1 Hen) as [Q1 S1]. simpl. rewrite <- Q1.
    destruct (eval_e n md (W1 g) en c) as [[v1 t1]| |] eqn:Ea; try triv.
    destruct v1 as [z| | | | ]; try triv.
    assert (Hb : safe_ss (if Z.eqb z 0 then els else thn)) by (destruct (Z.eqb z 0); assumption).
    destruct (IHss _ en Hb Hen) as [Q2 S2]. rewrite <- Q2.
    destruct (eval_ss n md (W1 g) en (if Z.eqb z 0 then els else thn)) as [[[r1 e2] t2]| |] eqn:Es; try triv.
    split; [reflexivity|]. intros r en1 tr H. inv' H. split; [apply (S2 _ _ _ eq_refl) | assumption].
  - destruct r as [|e0 rest].
    + simpl. split; [reflexivity|]. intros r en1 tr H. inv' H. simpl. split; [constructor | assumption].
    + destruct rest; [|simpl; triv].
      assert (H1 : safe_e e0) by (intros y Hy; apply Hse; simpl; rewrite app_nil_r; exact Hy).
      destruct (IHe e0 en H1 Hen) as [Q1 S1]. simpl. rewrite <- Q1.
      destruct (eval_e n md (W1 g) en e0) as [[v1 t1]| |] eqn:Ea; try triv.
      split; [reflexivity|]. intros r en1 tr H. inv' H. simpl. split; [apply (S1 _ _ eq_refl) | assumption].
  - assert (H1 : safe_ss b) by (intros y Hy; apply Hse; exact Hy).
    destruct (IHss b en H1 Hen) as [Q1 S1]. simpl. rewrite <- Q1.
    destruct (eval_ss n md (W1 g) en b) as [[[r1 e2] t2]| |] eqn:Es; try triv.
    split; [reflexivity|]. intros r en1 tr H. inv' H. split; [apply (S1 _ _ _ eq_refl) | assumption].
Qed.

Lemma inv_ss_step n md g : inv_s n md g -> inv_ss n md g -> inv_ss (S n) md g.
Proof.
  intros IHs IHss ss en Hse Hen. destruct ss as [|s t].
  - simpl. split; [reflexivity|]. intros r en1 tr H. inv' H. simpl. auto.
  - assert (H1 : safe_s s) by (intros x Hx; apply Hse; simpl; apply in_or_app; auto).
    assert (H2 : safe_ss t) by (intros x Hx; apply Hse; simpl; apply in_or_app; auto).
    destruct (IHs s en H1 Hen) as [Q1 S1]. simpl. rewrite <- Q1.
    destruct (eval_s n md (W1 g) en s) as [[[r1 e1] t1]| |] eqn:Ea; try triv.
    destruct (S1 _ _ _ eq_refl) as [Sr Se1].
    destruct r1 as [v1|].
    + split; [reflexivity|]. intros r en1 tr H. inv' H. auto.
    + destruct (IHss t e1 H2 Se1) as [Q2 S2]. rewrite <- Q2.
      destruct (eval_ss n md (W1 g) e1 t) as [[[r2 e2] t2]| |] eqn:Eb; try triv.
      split; [reflexivity|]. intros r en1 tr H. inv' H. apply (S2 _ _ _ eq_refl).
Qed.

Lemma inv_all n md g : safe_env g -> inv_e n md g /\ inv_es n md g /\ inv_s n md g /\ inv_ss n md g.
Proof.
  intros Hg. induction n as [|n [He [Hes [Hs Hss]]]].
  - unfold inv_e, inv_es, inv_s, inv_ss. repeat split; intros; simpl in *; congruence.
  - split; [apply inv_e_step; assumption|].
    split; [apply inv_es_step; assumption|].
    split; [apply inv_s_step; assumption | apply inv_ss_step; assumption].
Qed.

End Inv.
Transparent c25_xgo_builtins.

(* ================================================================ program level *)

Definition keepf (used : list name) (np : name * str) : bool :=
  (negb (str_eqb (snd np) c25_fmt_path) || existsb (str_eqb (fst np)) used)%bool.

Lemma imports_of_filter used l : imports_of (filter (keep_decl used) l) = filter (keepf used) (imports_of l).
Proof.
  induction l as [|d t IH]; simpl; [reflexivity|].
  destruct d; simpl; try exact IH.
  unfold keepf at 1. simpl. destruct (negb (str_eqb path c25_fmt_path) || existsb (str_eqb nm) used)%bool; simpl; rewrite IH; reflexivity.
Qed.

Lemma funcs_of_filter used l : funcs_of (filter (keep_decl used) l) = funcs_of l.
Proof.
  induction l as [|d t IH]; simpl; [reflexivity|].
  destruct d; simpl; rewrite ?IH; try reflexivity.
  destruct (negb (str_eqb path c25_fmt_path) || existsb (str_eqb nm) used)%bool; simpl; exact IH.
Qed.

Lemma methods_of_filter used l : methods_of (filter (keep_decl used) l) = methods_of l.
Proof.
  induction l as [|d t IH]; simpl; [reflexivity|].
  destruct d; simpl; rewrite ?IH; try reflexivity.
  destruct (negb (str_eqb path c25_fmt_path) || existsb (str_eqb nm) used)%bool; simpl; exact IH.
Qed.

Lemma existsb_str_in x l : In x l -> existsb (str_eqb x) l = true.
Proof. intros H. apply existsb_exists. exists x. split; [exact H | apply str_eqb_eq; reflexivity]. Qed.

Lemma sassoc_filter_keep im used x : ok_base im used x -> sassoc x (filter (keepf used) im) = sassoc x im.
Proof.
  intros Hok. induction im as [|[k v] im IH]; simpl; [reflexivity|].
  assert (Hok' : str_eqb x k = false -> ok_base im used x).
  { intros E. destruct Hok as [H | H]; [left; exact H | right]. simpl in H. rewrite E in H. exact H. }
  destruct (keepf used (k, v)) eqn:Ek; simpl.
  - destruct (str_eqb x k) eqn:E; [reflexivity | apply IH; auto].
  - destruct (str_eqb x k) eqn:E; [|apply IH; auto].
    exfalso. apply str_eqb_eq in E. subst k. destruct Hok as [H | H].
    + unfold keepf in Ek. simpl in Ek. rewrite (existsb_str_in _ _ H), orb_true_r in Ek. discriminate.
    + simpl in H. rewrite (proj2 (str_eqb_eq x x) eq_refl) in H. discriminate.
Qed.

(* the used lists of the two passes *)
Definition uv (im : list (name * str)) (d : decl) : list name := match d with DVar _ e => u_e im e | _ => [] end.
Definition uf (im : list (name * str)) (d : decl) : list name :=
  match d with DFunc _ _ _ b => u_ss im b | DMethod _ _ _ _ _ b => u_ss im b | _ => [] end.

Lemma pass1_used_noimp okf : forall ds c, forallb (fun d => negb (is_import d)) ds = true -> scope_inv c ->
  forallb (good_decl (ni (imps c)) okf) ds = true -> snd (pass1 c ds) = flat_map (uv (imps c)) ds.
Proof.
  destruct tr_is_u as [He _].
  induction ds as [|d t IH]; intros c Hn Hc Hg; [reflexivity|].
  simpl in Hn. apply andb_prop in Hn. destruct Hn as [Hd Hn].
  simpl in Hg. apply andb_prop in Hg. destruct Hg as [Hgd Hg].
  destruct d; try discriminate; simpl.
  - simpl in Hgd. apply andb_prop in Hgd. destruct Hgd as [Hx Hge].
    destruct (He e) as [Hte _]. specialize (Hte c Hc Hge).
    destruct (tr_expr c e) as [e' u1]. simpl in Hte. subst u1.
    assert (Hc' : scope_inv (insert x c)) by (apply scope_inv_insert; assumption).
    assert (Hg' : forallb (good_decl (ni (imps (insert x c))) okf) t = true) by (rewrite imps_insert; exact Hg).
    specialize (IH (insert x c) Hn Hc' Hg'). rewrite imps_insert in IH.
    destruct (pass1 (insert x c) t) as [[t' c2] u2]. simpl in *. subst u2. reflexivity.
  - specialize (IH c Hn Hc Hg). destruct (pass1 c t) as [[t' c2] u2]. simpl in *. exact IH.
  - specialize (IH c Hn Hc Hg). destruct (pass1 c t) as [[t' c2] u2]. simpl in *. exact IH.
  - specialize (IH c Hn Hc Hg). destruct (pass1 c t) as [[t' c2] u2]. simpl in *. exact IH.
Qed.

Lemma pass1_used okf : forall ds c, imports_first ds = true -> (forall x, in_scope x c = false) ->
  forallb (good_decl (ni (imps c ++ imports_of ds)) okf) ds = true ->
  snd (pass1 c ds) = flat_map (uv (imps c ++ imports_of ds)) ds.
Proof.
  induction ds as [|d t IH]; intros c Hi Hs Hg; [reflexivity|].
  destruct (is_import d) eqn:Ed.
  - destruct d; try discriminate. simpl in Hi, Hg |- *.
    set (c1 := Fctx (imps c ++ [(nm, path)]) (scopes c)).
    assert (Hs1 : forall x, in_scope x c1 = false) by (intros x; apply Hs).
    assert (Himp : imps c1 ++ imports_of t = imps c ++ (nm, path) :: imports_of t).
    { unfold c1. simpl. rewrite <- app_assoc. reflexivity. }
    rewrite <- Himp in Hg |- *.
    specialize (IH c1 Hi Hs1 Hg). destruct (pass1 c1 t) as [[t' c2] u]. simpl in *. exact IH.
  - pose proof (imports_first_tail d t Hi Ed) as Hn.
    rewrite (imports_of_none _ Hn), app_nil_r in *.
    apply (pass1_used_noimp okf); [exact Hn | | exact Hg].
    intros x Hx. rewrite Hs in Hx. discriminate.
Qed.

Lemma pass2_used c : scope_inv c -> forall ds, forallb (good_fn (ni (imps c))) ds = true ->
  snd (pass2 c ds) = flat_map (uf (imps c)) ds.
Proof.
  destruct tr_is_u as [_ [_ [_ Hss]]].
  intros Hc. induction ds as [|d t IH]; intros Hg; [reflexivity|].
  simpl in Hg. apply andb_prop in Hg. destruct Hg as [Hgd Hg]. specialize (IH Hg).
  simpl. destruct (pass2 c t) as [t' u2]. simpl in IH. subst u2.
  destruct d; simpl; try reflexivity.
  - simpl in Hgd. destruct (Hss body c Hc Hgd) as [_ H2]. destruct (tr_block c body) as [b' u]. simpl in *. subst. reflexivity.
  - simpl in Hgd. destruct (Hss body c Hc Hgd) as [_ H2]. destruct (tr_block c body) as [b' u]. simpl in *. subst. reflexivity.
Qed.

Lemma uf_t1 im ds : flat_map (uf im) (map (t1 im) ds) = flat_map (uf im) ds.
Proof. induction ds as [|d t IH]; simpl; [reflexivity|]. rewrite IH. destruct d; reflexivity. Qed.

Lemma gopstyle_used ds : imports_first ds = true ->
  forallb (good_decl (ni (imports_of ds)) (fun _ => true)) ds = true ->
  snd (gopstyle_decls ds) = flat_map (uv (imports_of ds)) ds ++ flat_map (uf (imports_of ds)) ds.
Proof.
  intros Hi Hg. unfold gopstyle_decls.
  destruct (pass1_ok (fun _ => true) ds (Fctx [] [[]]) Hi (fun x => eq_refl) Hg) as [H1 [H2 H3]].
  pose proof (pass1_used (fun _ => true) ds (Fctx [] [[]]) Hi (fun x => eq_refl) Hg) as Hu1.
  destruct (pass1 (Fctx [] [[]]) ds) as [[ds1 c] u1]. simpl in *. subst ds1 u1.
  pose proof (pass2_used c H2 (map (t1 (imports_of ds)) ds)) as Hu2.
  rewrite H3 in Hu2. specialize (Hu2 (good_fn_t1 _ _ _ _ Hg)).
  destruct (pass2 c (map (t1 (imports_of ds)) ds)) as [ds2 u2]. simpl in *. subst u2.
  rewrite uf_t1. reflexivity.
Qed.

Lemma in_flat_map_incl {A B} (f : A -> list B) l a : In a l -> incl (f a) (flat_map f l).
Proof. intros Ha x Hx. apply in_flat_map. exists a. auto. Qed.

Lemma sassoc_tfun_inv im f l ps b' : sassoc f (map (tfun im) l) = Some (ps, b') ->
  exists b, sassoc f l = Some (ps, b) /\ b' = t_ss im b.
Proof.
  rewrite sassoc_tfun. destruct (sassoc f l) as [[ps0 b]|]; [|discriminate].
  intros H. inversion H; subst. eauto.
Qed.

Lemma find_method_tmeth_inv im t m l r ps b' : find_method t m (map (tmeth im) l) = Some (r, (ps, b')) ->
  exists b, find_method t m l = Some (r, (ps, b)) /\ b' = t_ss im b.
Proof.
  rewrite find_method_tmeth. destruct (find_method t m l) as [[r0 [ps0 b]]|]; [|discriminate].
  intros H. inversion H; subst. eauto.
Qed.

Lemma init_vars_filter n md used : forall l W g tr, 
  init_vars n md W (filter (keep_decl used) l) g tr = init_vars n md W l g tr.
Proof.
  induction l as [|d t IH]; intros W g tr; [reflexivity|].
  destruct d; simpl; try (rewrite IH; reflexivity).
  - destruct (negb (str_eqb path c25_fmt_path) || existsb (str_eqb nm) used)%bool; simpl; apply IH.
  - destruct (eval_e n md _ g e) as [[v t1]| |]; try reflexivity. apply IH.
Qed.

(* running the converted program with or without the deleted import gives the same result *)
Lemma deletion_invisible p n md : imports_first (pdecls p) = true -> no_shadow p = true ->
  run n md (gopstyle p) = run n md (gopstyle_keep p).
Proof.
  intros Hi Hs.
  pose proof (gopstyle_decls_ok (pdecls p) Hi Hs) as Hfst.
  pose proof (gopstyle_used (pdecls p) Hi Hs) as Hsnd.
  unfold gopstyle, gopstyle_keep, run.
  destruct (gopstyle_decls (pdecls p)) as [ds2 used] eqn:Eg. simpl in Hfst, Hsnd. cbn [pdecls fst].
  set (ds := pdecls p) in *. set (im := imports_of ds) in *.
  rewrite imports_of_filter, funcs_of_filter, methods_of_filter.
  rewrite Hfst. rewrite imports_of_t, funcs_of_t, methods_of_t. fold im.
  set (F := map (tfun im) (funcs_of ds)). set (Mt := map (tmeth im) (methods_of ds)).
  set (im2 := filter (keepf used) im).
  (* every piece of code of the converted program only mentions bases on which im2 and im agree *)
  assert (Hagree : forall u x, incl u used -> ok_base im u x -> agree im im2 x).
  { intros u x Hu Hok. unfold agree, im2. apply sassoc_filter_keep. eapply ok_base_incl; eauto. }
  destruct (bases_marked im) as [Be [_ [_ Bss]]].
  assert (HF : forall f ps b, sassoc f F = Some (ps, b) -> safe_ss im im2 b).
  { intros f ps b' Hf. unfold F in Hf. apply sassoc_tfun_inv in Hf. destruct Hf as [b [Hf ->]].
    apply sassoc_in in Hf. apply funcs_of_in in Hf. destruct Hf as [res Hin].
    intros x Hx. apply (Hagree (u_ss im b)); [|apply Bss; exact Hx].
    subst used. apply incl_appr. exact (in_flat_map_incl (uf im) ds _ Hin). }
  assert (HM : forall t m r ps b, find_method t m Mt = Some (r, (ps, b)) -> safe_ss im im2 b).
  { intros t m r ps b' Hf. unfold Mt in Hf. apply find_method_tmeth_inv in Hf. destruct Hf as [b [Hf ->]].
    apply find_method_in in Hf. apply methods_of_in in Hf. destruct Hf as [res Hin].
    intros x Hx. apply (Hagree (u_ss im b)); [|apply Bss; exact Hx].
    subst used. apply incl_appr. exact (in_flat_map_incl (uf im) ds _ Hin). }
  (* the package variables *)
  rewrite init_vars_filter.
  assert (Hinit : forall l, (forall d, In d l -> In d ds) -> forall g tr0, safe_env im im2 g ->
            init_vars n md (World im2 F Mt []) (map (t_decl im) l) g tr0 = init_vars n md (World im F Mt []) (map (t_decl im) l) g tr0 /\
            (forall g1 t1, init_vars n md (World im F Mt []) (map (t_decl im) l) g tr0 = Ok (g1, t1) -> safe_env im im2 g1)).
  { induction l as [|d l IH]; intros Hl g tr0 Hg.
    - simpl. split; [reflexivity|]. intros g1 t1 H. inversion H; subst. assumption.
    - assert (Hl' : forall d0, In d0 l -> In d0 ds) by (intros; apply Hl; simpl; auto).
      destruct d as [nm path | x e | ty | f ps res body | ty r m ps res body]; simpl; try (apply IH; assumption).
      assert (Hse : safe_e im im2 (t_e im e)).
      { intros y Hy. apply (Hagree (u_e im e)); [|apply Be; exact Hy].
        subst used. apply incl_appl. apply (in_flat_map_incl (uv im) ds (DVar x e)). apply Hl. simpl. auto. }
      destruct (inv_all im im2 F Mt HF HM n md g Hg) as [He _].
      destruct (He _ _ Hse Hg) as [Q S1]. unfold W1, W2 in Q, S1. rewrite <- Q.
      destruct (eval_e n md (World im F Mt g) g (t_e im e)) as [[v t1]| |] eqn:Ea;
        try (split; [reflexivity | intros; discriminate]).
      apply IH; [assumption|]. constructor; [apply (S1 _ _ eq_refl) | assumption]. }
  destruct (Hinit ds (fun d H => H) [] [] (se_nil im im2)) as [Qi Si]. rewrite Qi.
  destruct (init_vars n md (World im F Mt []) (map (t_decl im) ds) [] []) as [[g t0]| |] eqn:Ei; try reflexivity.
  specialize (Si _ _ eq_refl).
  destruct (sassoc main_name F) as [[ps b]|] eqn:Em; [|reflexivity].
  destruct (inv_all im im2 F Mt HF HM n md g Si) as [_ [_ [_ Hss]]].
  destruct (Hss b g (HF _ _ _ Em) Si) as [Q _]. unfold W1, W2 in Q. rewrite Q. reflexivity.
Qed.

(* C25: the conversion preserves the trace *)
Theorem gopstyle_preserves p n tr :
  imports_first (pdecls p) = true -> no_shadow p = true -> no_builtin_clash p = true -> no_case_twin p = true ->
  run n Go p = Ok tr -> run n XGo (gopstyle p) = Ok tr.
Proof.
  intros Hi Hs Hb Ht Hrun. rewrite (deletion_invisible p n XGo Hi Hs).
  apply gopstyle_keep_preserves; assumption.
Qed.
