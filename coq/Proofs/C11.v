From Coq Require Import List NArith ZArith Bool Lia.
Import ListNotations.
From V Require Import Base.Prelude Model.C11.
Open Scope Z_scope.

(* ------------------------------------------------------------------ Part A: the struct *)

(* what one ValueSpec of the var block declares *)
Definition declared (v : vspec) : list field :=
  match vnames v with
  | [] => [mkfield (embed_name (vtype v)) (vtype v) true (vtag v)]
  | ns => map (fun n => mkfield n (vtype v) false (vtag v)) ns
  end.
Definition all_declared (vs : list vspec) : list field := flat_map declared vs.

(* keep the first declaration of every name (names in `seen` count as already declared) *)
Fixpoint dedup (seen : list str) (l : list field) : list field :=
  match l with
  | [] => []
  | f :: t => if mem_str (fname f) seen then dedup seen t else f :: dedup (fname f :: seen) t
  end.
Fixpoint seen_after (seen : list str) (l : list field) : list str :=
  match l with
  | [] => seen
  | f :: t => if mem_str (fname f) seen then seen_after seen t else seen_after (fname f :: seen) t
  end.

Lemma dedup_app a : forall seen b, dedup seen (a ++ b) = dedup seen a ++ dedup (seen_after seen a) b.
Proof.
  induction a as [|f a IH]; intros seen b; simpl; auto.
  destruct (mem_str (fname f) seen); simpl; rewrite IH; reflexivity.
Qed.

Lemma fields_of_names_spec ns ty tag : forall seen,
  fields_of_names ns ty tag seen =
  (dedup seen (map (fun n => mkfield n ty false tag) ns), seen_after seen (map (fun n => mkfield n ty false tag) ns)).
Proof.
  induction ns as [|n t IH]; intros seen; simpl; auto.
  destruct (mem_str n seen); [apply IH|]. rewrite IH. reflexivity.
Qed.

Lemma class_fields_from_spec vs : forall seen, class_fields_from vs seen = dedup seen (all_declared vs).
Proof.
  induction vs as [|v t IH]; intros seen; [reflexivity|].
  unfold all_declared. cbn [flat_map class_fields_from]. fold (all_declared t).
  rewrite dedup_app. unfold declared. destruct (vnames v) as [|n ns].
  - cbn [dedup seen_after fname]. destruct (mem_str (embed_name (vtype v)) seen); rewrite IH; reflexivity.
  - rewrite fields_of_names_spec. rewrite IH. reflexivity.
Qed.

Lemma mem_str_In x l : mem_str x l = true <-> In x l.
Proof.
  induction l as [|y t IH]; simpl; [split; [discriminate|tauto]|].
  rewrite orb_true_iff, IH, str_eqb_eq. split; intros [H|H]; auto.
Qed.

Lemma dedup_nodup l : forall seen,
  NoDup (map fname l) -> (forall f, In f l -> ~ In (fname f) seen) -> dedup seen l = l.
Proof.
  induction l as [|f t IH]; intros seen Hnd Hs; simpl; auto.
  inversion Hnd as [|? ? Hnin Hnd']; subst.
  destruct (mem_str (fname f) seen) eqn:E.
  - apply mem_str_In in E. exfalso. eapply Hs; [left; reflexivity|exact E].
  - f_equal. apply IH; auto. intros g Hg [Hh|Hh].
    + apply Hnin. rewrite Hh. apply in_map. exact Hg.
    + eapply Hs; [right; exact Hg|exact Hh].
Qed.

Lemma class_fields_exact specs :
  class_fields specs = dedup [] (all_declared (map parse_spec specs)).
Proof. unfold class_fields. apply class_fields_from_spec. Qed.

Lemma class_fields_exact_nodup specs :
  NoDup (map fname (all_declared (map parse_spec specs))) ->
  class_fields specs = all_declared (map parse_spec specs).
Proof. intros H. rewrite class_fields_exact. apply dedup_nodup; auto. Qed.

(* no field is declared twice, whatever the input *)
Lemma dedup_names_nodup l : forall seen,
  NoDup (map fname (dedup seen l)) /\ (forall f, In f (dedup seen l) -> ~ In (fname f) seen).
Proof.
  induction l as [|f t IH]; intros seen; simpl.
  - split; [constructor|tauto].
  - destruct (mem_str (fname f) seen) eqn:E; [apply IH|].
    destruct (IH (fname f :: seen)) as [A B]. split.
    + simpl. constructor; auto. intros Hin. apply in_map_iff in Hin as (g & Hg1 & Hg2).
      apply (B g Hg2). left. congruence.
    + intros g [Hg|Hg].
      * subst g. intros Hin. apply mem_str_In in Hin. congruence.
      * intros Hin. apply (B g Hg). right. exact Hin.
Qed.

Lemma class_fields_nodup specs : NoDup (map fname (class_fields specs)).
Proof. rewrite class_fields_exact. apply dedup_names_nodup. Qed.

(* ------------------------------------------------------------------ Part A: the methods *)

Lemma class_methods_exact cls fs g :
  In g (class_funcs cls fs) <-> exists n k, In (n, k) fs /\ g = class_func cls n k.
Proof.
  unfold class_funcs. rewrite in_map_iff. split.
  - intros ([n k] & E & Hin). eauto.
  - intros (n & k & Hin & E). exists (n, k). auto.
Qed.

Lemma class_plain_is_method cls fs n :
  In (n, FPlain) fs -> In (mkgofunc n (Some (this_, cls, true))) (class_funcs cls fs).
Proof. intros H. apply class_methods_exact. exists n, FPlain. auto. Qed.

Lemma class_funcs_length cls fs : length (class_funcs cls fs) = length fs.
Proof. unfold class_funcs. apply map_length. Qed.

(* ------------------------------------------------------------------ Part B: class form = explicit form *)

Lemma find_method_desugar c ms m :
  find_method (map (desugar_method c) ms) m = option_map (desugar_method c) (find_method ms m).
Proof.
  induction ms as [|x t IH]; simpl; auto. destruct (str_eqb m (mname x)); auto.
Qed.

Lemma find_method_none ms m : mem_str m (map mname ms) = false -> find_method ms m = None.
Proof.
  induction ms as [|x t IH]; simpl; auto. intros H. apply orb_false_iff in H as [H1 H2]. rewrite H1. auto.
Qed.

Section Equiv.
Variable c : class.
Let F := cfields c.
Let M := map mname (cmethods c).
Let c' := desugar_class c.

Definition Q_expr (fuel : nat) : Prop := forall scope env st e,
  eval_expr ClassForm c fuel scope env st e = eval_expr ExplicitForm c' fuel scope env st (desugar_expr F M scope e).
Definition Q_call (fuel : nat) : Prop := forall m v st,
  call_method ClassForm c fuel m v st = call_method ExplicitForm c' fuel m v st.
Definition Q_stmts (fuel : nat) : Prop := forall scope env st b,
  eval_stmts ClassForm c fuel scope env st b = eval_stmts ExplicitForm c' fuel scope env st (desugar_stmts F M scope b).

Lemma Q_step f : Q_expr f /\ Q_call f /\ Q_stmts f -> Q_expr (S f) /\ Q_call (S f) /\ Q_stmts (S f).
Proof.
  intros (IHe & IHc & IHs). unfold Q_expr, Q_call, Q_stmts in *. refine (conj _ (conj _ _)).
  - (* expressions *)
    intros scope env st e. destruct e; cbn [desugar_expr].
    + reflexivity.
    + destruct (mem_str x scope) eqn:Es.
      * simpl eval_stmts; simpl eval_expr; simpl call_method. rewrite Es. reflexivity.
      * destruct (mem_str x F) eqn:Ef; simpl eval_stmts; simpl eval_expr; simpl call_method; rewrite ?Es; unfold is_field; fold F; rewrite Ef; reflexivity.
    + reflexivity.
    + simpl eval_stmts; simpl eval_expr; simpl call_method. rewrite <- IHe. destruct (eval_expr ClassForm c f scope env st e1) as [[x st1]| |]; auto.
      rewrite <- IHe. reflexivity.
    + simpl eval_stmts; simpl eval_expr; simpl call_method. rewrite <- IHe. destruct (eval_expr ClassForm c f scope env st e1) as [[x st1]| |]; auto.
      rewrite <- IHe. reflexivity.
    + simpl eval_stmts; simpl eval_expr; simpl call_method. rewrite <- IHe. destruct (eval_expr ClassForm c f scope env st e1) as [[x st1]| |]; auto.
      rewrite <- IHe. reflexivity.
    + destruct (mem_str m scope) eqn:Es.
      * simpl eval_stmts; simpl eval_expr; simpl call_method. rewrite <- IHe. rewrite Es. reflexivity.
      * destruct (mem_str m M) eqn:Em.
        -- simpl eval_stmts; simpl eval_expr; simpl call_method. rewrite <- IHe. rewrite Es. fold M. rewrite Em.
           destruct (eval_expr ClassForm c f scope env st e) as [[v st1]| |]; auto.
        -- simpl eval_stmts; simpl eval_expr; simpl call_method. rewrite <- IHe. rewrite Es. fold M. rewrite Em.
           destruct (eval_expr ClassForm c f scope env st e) as [[v st1]| |]; auto.
    + simpl eval_stmts; simpl eval_expr; simpl call_method. rewrite <- IHe. destruct (eval_expr ClassForm c f scope env st e) as [[v st1]| |]; auto.
  - (* method calls *)
    intros m v st. simpl eval_stmts; simpl eval_expr; simpl call_method. unfold c'. cbn [desugar_class cmethods].
    rewrite find_method_desugar. destruct (find_method (cmethods c) m) as [md|]; cbn [option_map]; auto.
    cbn [desugar_method mparam mbody]. rewrite <- IHs. reflexivity.
  - (* statements *)
    intros scope env st b. destruct b as [|s r]; [reflexivity|].
    cbn [desugar_stmts desugar_stmt]. destruct s; cbn [desugar_stmt desugar_stmts].
    + destruct (mem_str x scope) eqn:Es.
      * simpl eval_stmts; simpl eval_expr; simpl call_method. rewrite <- IHe. destruct (eval_expr ClassForm c f scope env st e) as [[v st1]| |]; auto.
        rewrite Es. apply IHs.
      * destruct (mem_str x F) eqn:Ef.
        -- simpl eval_stmts; simpl eval_expr; simpl call_method. rewrite <- IHe. destruct (eval_expr ClassForm c f scope env st e) as [[v st1]| |]; auto.
           rewrite Es. unfold is_field. fold F. rewrite Ef. apply IHs.
        -- simpl eval_stmts; simpl eval_expr; simpl call_method. rewrite <- IHe. destruct (eval_expr ClassForm c f scope env st e) as [[v st1]| |]; auto.
           rewrite Es. unfold is_field. fold F. rewrite Ef. apply IHs.
    + simpl eval_stmts; simpl eval_expr; simpl call_method. rewrite <- IHe. destruct (eval_expr ClassForm c f scope env st e) as [[v st1]| |]; auto.
    + simpl eval_stmts; simpl eval_expr; simpl call_method. rewrite <- IHe. destruct (eval_expr ClassForm c f scope env st e) as [[v st1]| |]; auto.
    + simpl eval_stmts; simpl eval_expr; simpl call_method. rewrite <- IHe. destruct (eval_expr ClassForm c f scope env st e) as [[v st1]| |]; auto.
    + simpl eval_stmts; simpl eval_expr; simpl call_method. rewrite <- IHe. destruct (eval_expr ClassForm c f scope env st e) as [[v st1]| |]; auto.
    + simpl eval_stmts; simpl eval_expr; simpl call_method. rewrite <- IHe. destruct (eval_expr ClassForm c f scope env st c0) as [[v st1]| |]; auto.
      destruct (v =? 0); rewrite <- IHs;
        match goal with |- match ?X with _ => _ end = _ => destruct X as [[[env1 st2] [rv|]]| |]; auto end.
    + simpl eval_stmts; simpl eval_expr; simpl call_method. rewrite <- IHe. destruct (eval_expr ClassForm c f scope env st e) as [[v st1]| |]; auto.
Qed.

Lemma Q_all f : Q_expr f /\ Q_call f /\ Q_stmts f.
Proof.
  induction f as [|f IH]; [|apply Q_step; exact IH].
  unfold Q_expr, Q_call, Q_stmts. repeat split; intros; reflexivity.
Qed.

Lemma run_calls_equiv fuel calls : forall st acc,
  run_calls ClassForm c fuel calls st acc = run_calls ExplicitForm c' fuel calls st acc.
Proof.
  induction calls as [|[m v] t IH]; intros st acc; simpl; auto.
  destruct (Q_all fuel) as (_ & Qc & _). rewrite <- Qc.
  destruct (call_method ClassForm c fuel m v st) as [[r st1]| |]; auto.
Qed.

End Equiv.

Lemma class_equiv fuel c globals calls :
  run_class fuel c globals calls = run_explicit fuel c globals calls.
Proof. unfold run_class, run_explicit. apply run_calls_equiv. Qed.


(* ------------------------------------------------------------------ the explicit form is a fixpoint of the desugaring *)

Scheme stmt_mind := Induction for stmt Sort Prop
  with stmts_mind := Induction for stmts Sort Prop.
Combined Scheme stmt_stmts_ind from stmt_mind, stmts_mind.

Section Idem.
Variable F M : list str.

Lemma desugar_expr_idem e : forall scope, desugar_expr F M scope (desugar_expr F M scope e) = desugar_expr F M scope e.
Proof.
  induction e; intros scope; cbn [desugar_expr]; try congruence.
  - destruct (mem_str x scope) eqn:Es; cbn [desugar_expr]; [now rewrite Es|].
    destruct (mem_str x F) eqn:Ef; cbn [desugar_expr]; [reflexivity|]. now rewrite Es, Ef.
  - destruct (mem_str m scope) eqn:Es; cbn [desugar_expr]; [now rewrite Es, IHe|].
    destruct (mem_str m M) eqn:Em; cbn [desugar_expr]; [now rewrite IHe|]. now rewrite Es, Em, IHe.
Qed.

Lemma desugar_stmts_cons scope s r :
  desugar_stmts F M scope (SCons s r) =
  let '(s', sc') := desugar_stmt F M scope s in SCons s' (desugar_stmts F M sc' r).
Proof. reflexivity. Qed.

Lemma desugar_idem_both :
  (forall s scope, desugar_stmt F M scope (fst (desugar_stmt F M scope s)) = desugar_stmt F M scope s) /\
  (forall b scope, desugar_stmts F M scope (desugar_stmts F M scope b) = desugar_stmts F M scope b).
Proof.
  apply stmt_stmts_ind.
  - intros x e scope. cbn [desugar_stmt fst].
    destruct (mem_str x scope) eqn:Es; cbn [desugar_stmt]; [now rewrite Es, desugar_expr_idem|].
    destruct (mem_str x F) eqn:Ef; cbn [desugar_stmt]; [now rewrite desugar_expr_idem|]. now rewrite Es, Ef, desugar_expr_idem.
  - intros f e scope. cbn [desugar_stmt fst]. now rewrite desugar_expr_idem.
  - intros x e scope. cbn [desugar_stmt fst]. now rewrite desugar_expr_idem.
  - intros e scope. cbn [desugar_stmt fst]. now rewrite desugar_expr_idem.
  - intros e scope. cbn [desugar_stmt fst]. now rewrite desugar_expr_idem.
  - intros c t IHt f IHf scope. cbn [desugar_stmt fst]. now rewrite desugar_expr_idem, IHt, IHf.
  - intros e scope. cbn [desugar_stmt fst]. now rewrite desugar_expr_idem.
  - intros scope. reflexivity.
  - intros s IHs r IHr scope. rewrite desugar_stmts_cons.
    destruct (desugar_stmt F M scope s) as [s' scope'] eqn:E. rewrite desugar_stmts_cons.
    specialize (IHs scope). rewrite E in IHs. cbn [fst] in IHs. rewrite IHs. now rewrite IHr.
Qed.
End Idem.

Lemma desugar_class_idem c :
  desugar_class (desugar_class c) = desugar_class c.
Proof.
  unfold desugar_class. cbn [cfields cmethods]. f_equal.
  rewrite map_map. apply map_ext_in. intros m Hm. unfold desugar_method. cbn [mname mparam mbody cfields cmethods].
  f_equal. rewrite map_map. cbn [mname].
  replace (map (fun x : method => mname x) (cmethods c)) with (map mname (cmethods c)) by reflexivity.
  apply (proj2 (desugar_idem_both (cfields c) (map mname (cmethods c)))).
Qed.

(* ------------------------------------------------------------------ the static-scope evaluator is ordinary lexical scoping *)

Lemma mem_keys x env : mem_str x (map fst env) = bound x env.
Proof.
  unfold bound. induction env as [|[y v] t IH]; simpl; auto.
  destruct (str_eqb x y); simpl; auto.
Qed.

Lemma sset_keys x v env : bound x env = true -> map fst (sset x v env) = map fst env.
Proof.
  unfold bound. induction env as [|[y w] t IH]; simpl; [discriminate|].
  destruct (str_eqb x y); simpl; auto. intros H. f_equal. auto.
Qed.

Lemma map_fst_skipn {A B} n (l : list (A * B)) : map fst (skipn n l) = skipn n (map fst l).
Proof. revert l. induction n; intros [|x l]; simpl; auto. Qed.

Lemma skipn_app_exact {A} (a b : list A) : skipn (length a) (a ++ b) = b.
Proof. induction a; simpl; auto. Qed.

Section Dyn.
Variable c : class.

Definition D_expr (f : nat) : Prop := forall scope env st e,
  map fst env = scope -> eval_expr ClassForm c f scope env st e = dyn_expr c f env st e.
Definition D_call (f : nat) : Prop := forall m v st,
  call_method ClassForm c f m v st = dyn_call c f m v st.
Definition D_stmts (f : nat) : Prop := forall scope env st b,
  map fst env = scope ->
  eval_stmts ClassForm c f scope env st b = dyn_stmts c f env st b /\
  (forall env1 st1 r, dyn_stmts c f env st b = Val (env1, st1, r) -> exists extra, map fst env1 = extra ++ scope).

Ltac flds := simpl eval_stmts; simpl eval_expr; simpl call_method; simpl dyn_stmts; simpl dyn_expr; simpl dyn_call.

Lemma D_step f : D_expr f /\ D_call f /\ D_stmts f -> D_expr (S f) /\ D_call (S f) /\ D_stmts (S f).
Proof.
  intros (IHe & IHc & IHs). unfold D_expr, D_call, D_stmts in *. refine (conj _ (conj _ _)).
  - intros scope env st e Hk. destruct e; flds; auto.
    + rewrite <- Hk, mem_keys. reflexivity.
    + rewrite (IHe scope env st e1 Hk). destruct (dyn_expr c f env st e1) as [[x st1]| |]; auto.
      rewrite (IHe scope env st1 e2 Hk). reflexivity.
    + rewrite (IHe scope env st e1 Hk). destruct (dyn_expr c f env st e1) as [[x st1]| |]; auto.
      rewrite (IHe scope env st1 e2 Hk). reflexivity.
    + rewrite (IHe scope env st e1 Hk). destruct (dyn_expr c f env st e1) as [[x st1]| |]; auto.
      rewrite (IHe scope env st1 e2 Hk). reflexivity.
    + rewrite (IHe scope env st e Hk). destruct (dyn_expr c f env st e) as [[v st1]| |]; auto.
      rewrite <- Hk, mem_keys. destruct (bound m env); auto.
      destruct (mem_str m (map mname (cmethods c))); auto.
    + rewrite (IHe scope env st e Hk). destruct (dyn_expr c f env st e) as [[v st1]| |]; auto.
  - intros m v st. flds. destruct (find_method (cmethods c) m) as [md|]; auto.
    destruct (IHs [mparam md] [(mparam md, v)] st (mbody md) eq_refl) as [E _]. rewrite E. reflexivity.
  - intros scope env st b Hk. destruct b as [|s r]; flds.
    + split; auto. intros env1 st1 r0 H. inversion H; subst. exists []. reflexivity.
    + destruct s; flds.
      * rewrite (IHe scope env st e Hk). destruct (dyn_expr c f env st e) as [[v st1]| |]; try (split; [reflexivity|discriminate]).
        rewrite <- Hk at 1. rewrite mem_keys. destruct (bound x env) eqn:Eb.
        -- apply IHs. rewrite sset_keys; auto.
        -- destruct (is_field c x); apply IHs; exact Hk.
      * rewrite (IHe scope env st e Hk). destruct (dyn_expr c f env st e) as [[v st1]| |]; try (split; [reflexivity|discriminate]).
        apply IHs; exact Hk.
      * rewrite (IHe scope env st e Hk). destruct (dyn_expr c f env st e) as [[v st1]| |]; try (split; [reflexivity|discriminate]).
        destruct (IHs (x :: scope) ((x, v) :: env) st1 r) as [E Sh]; [simpl; now rewrite Hk|].
        split; [exact E|]. intros env1 st2 r0 H. destruct (Sh _ _ _ H) as [extra Hx].
        exists (extra ++ [x]). rewrite Hx, <- app_assoc. reflexivity.
      * rewrite (IHe scope env st e Hk). destruct (dyn_expr c f env st e) as [[v st1]| |]; try (split; [reflexivity|discriminate]).
        apply IHs; exact Hk.
      * rewrite (IHe scope env st e Hk). destruct (dyn_expr c f env st e) as [[v st1]| |]; try (split; [reflexivity|discriminate]).
        apply IHs; exact Hk.
      * rewrite (IHe scope env st c0 Hk). destruct (dyn_expr c f env st c0) as [[v st1]| |]; try (split; [reflexivity|discriminate]).
        destruct (IHs scope env st1 (if v =? 0 then f0 else t) Hk) as [E Sh]. rewrite E.
        destruct (dyn_stmts c f env st1 (if v =? 0 then f0 else t)) as [[[env1 st2] [rv|]]| |] eqn:Eb;
          try (split; [reflexivity|discriminate]).
        -- split; [reflexivity|]. intros env2 st3 r0 H. inversion H; subst. exact (Sh _ _ _ eq_refl).
        -- destruct (Sh _ _ _ eq_refl) as [extra Hx].
           assert (Hk' : map fst (skipn (length env1 - length env) env1) = scope).
           { rewrite map_fst_skipn, Hx.
             assert (L1 : length env1 = (length extra + length scope)%nat)
               by (rewrite <- (map_length fst env1), Hx, app_length; reflexivity).
             assert (L2 : length env = length scope) by (rewrite <- Hk, map_length; reflexivity).
             replace (length env1 - length env)%nat with (length extra) by lia. apply skipn_app_exact. }
           apply IHs. exact Hk'.
      * rewrite (IHe scope env st e Hk). destruct (dyn_expr c f env st e) as [[v st1]| |]; try (split; [reflexivity|discriminate]).
        split; [reflexivity|]. intros env1 st2 r0 H. inversion H; subst. exists []. reflexivity.
Qed.

Lemma D_all f : D_expr f /\ D_call f /\ D_stmts f.
Proof.
  induction f as [|f IH]; [|apply D_step; exact IH].
  unfold D_expr, D_call, D_stmts. refine (conj _ (conj _ _)); intros; try reflexivity.
  split; [reflexivity|]. intros env1 st1 r H0. discriminate H0.
Qed.

Lemma run_calls_dyn fuel calls : forall st acc,
  run_calls ClassForm c fuel calls st acc = dyn_calls c fuel calls st acc.
Proof.
  induction calls as [|[m v] t IH]; intros st acc; simpl; auto.
  destruct (D_all fuel) as (_ & Dc & _). rewrite Dc.
  destruct (dyn_call c fuel m v st) as [[r st1]| |]; auto.
Qed.
End Dyn.

Lemma class_static_is_lexical fuel c globals calls :
  run_class fuel c globals calls = run_class_dyn fuel c globals calls.
Proof. unfold run_class, run_class_dyn. apply run_calls_dyn. Qed.

(* ------------------------------------------------------------------ position of the var block; two instances *)

Definition skipped (d : topdecl) : bool := match d with TImport | TConst | TType => true | _ => false end.

Lemma class_fields_decl_found pre s rest :
  forallb skipped pre = true -> class_fields_decl (pre ++ TVar s :: rest) = Some s.
Proof.
  induction pre as [|d t IH]; simpl; auto. intros H. apply andb_prop in H as [Hd Ht].
  destruct d; try discriminate; auto.
Qed.

Lemma class_struct_any_order pre s rest :
  forallb skipped pre = true -> class_struct (pre ++ TVar s :: rest) = class_fields s.
Proof. intros H. unfold class_struct. now rewrite class_fields_decl_found. Qed.

Lemma run_objs_equiv c fuel calls : forall fa fb gl tr acc,
  run_objs ClassForm c fuel calls fa fb gl tr acc = run_objs ExplicitForm (desugar_class c) fuel calls fa fb gl tr acc.
Proof.
  induction calls as [|[o [m v]] t IH]; intros fa fb gl tr acc; simpl; auto.
  destruct (Q_all c fuel) as (_ & Qc & _). rewrite <- Qc.
  destruct (call_method ClassForm c fuel m v _) as [[r st1]| |]; auto. destruct o; apply IH.
Qed.

Lemma run_objs_dyn c fuel calls : forall fa fb gl tr acc,
  run_objs ClassForm c fuel calls fa fb gl tr acc = dyn_objs c fuel calls fa fb gl tr acc.
Proof.
  induction calls as [|[o [m v]] t IH]; intros fa fb gl tr acc; simpl; auto.
  destruct (D_all c fuel) as (_ & Dc & _). rewrite Dc.
  destruct (dyn_call c fuel m v _) as [[r st1]| |]; auto. destruct o; apply IH.
Qed.

Lemma class_equiv_two fuel c globals calls : run2_class fuel c globals calls = run2_explicit fuel c globals calls.
Proof. apply run_objs_equiv. Qed.
Lemma class_lexical_two fuel c globals calls : run2_class fuel c globals calls = run2_dyn fuel c globals calls.
Proof. apply run_objs_dyn. Qed.
