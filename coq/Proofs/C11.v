From Coq Require Import List NArith ZArith Bool Lia.
Import ListNotations.
From V Require Import Base.Prelude Model.C11.
Open Scope Z_scope.

(* ------------------------------------------------------------------ Part A: the struct *)

(* what one ValueSpec of the var block declares *)
Definition declared (v : vspec) : list field :=
  match vnames v with
  | [] => [mkfield (embed_name (vtype v)) (vtype v) true (vtag v)]
  | ns => map (fun n => mkfield n (vtype v) false (vtag v)) ns
  end.
Definition all_declared (vs : list vspec) : list field := flat_map declared vs.

(* keep the first declaration of every name (names in `seen` count as already declared) *)
Fixpoint dedup (seen : list str) (l : list field) : list field :=
  match l with
  | [] => []
  | f :: t => if mem_str (fname f) seen then dedup seen t else f :: dedup (fname f :: seen) t
  end.
Fixpoint seen_after (seen : list str) (l : list field) : list str :=
  match l with
  | [] => seen
  | f :: t => if mem_str (fname f) seen then seen_after seen t else seen_after (fname f :: seen) t
  end.

Lemma dedup_app a : forall seen b, dedup seen (a ++ b) = dedup seen a ++ dedup (seen_after seen a) b.
Proof.
  induction a as [|f a IH]; intros seen b; simpl; auto.
  destruct (mem_str (fname f) seen); simpl; rewrite IH; reflexivity.
Qed.

Lemma fields_of_names_spec ns ty tag : forall seen,
  fields_of_names ns ty tag seen =
  (dedup seen (map (fun n => mkfield n ty false tag) ns), seen_after seen (map (fun n => mkfield n ty false tag) ns)).
Proof.
  induction ns as [|n t IH]; intros seen; simpl; auto.
  destruct (mem_str n seen); [apply IH|]. rewrite IH. reflexivity.
Qed.

Lemma class_fields_from_spec vs : forall seen, class_fields_from vs seen = dedup seen (all_declared vs).
Proof.
  induction vs as [|v t IH]; intros seen; [reflexivity|].
  unfold all_declared. cbn [flat_map class_fields_from]. fold (all_declared t).
  rewrite dedup_app. unfold declared. destruct (vnames v) as [|n ns].
  - cbn [dedup seen_after fname]. destruct (mem_str (embed_name (vtype v)) seen); rewrite IH; reflexivity.
  - rewrite fields_of_names_spec. rewrite IH. reflexivity.
Qed.

Lemma mem_str_In x l : mem_str x l = true <-> In x l.
Proof.
  induction l as [|y t IH]; simpl; [split; [discriminate|tauto]|].
  rewrite orb_true_iff, IH, str_eqb_eq. split; intros [H|H]; auto.
Qed.

Lemma dedup_nodup l : forall seen,
  NoDup (map fname l) -> (forall f, In f l -> ~ In (fname f) seen) -> dedup seen l = l.
Proof.
  induction l as [|f t IH]; intros seen Hnd Hs; simpl; auto.
  inversion Hnd as [|? ? Hnin Hnd']; subst.
  destruct (mem_str (fname f) seen) eqn:E.
  - apply mem_str_In in E. exfalso. eapply Hs; [left; reflexivity|exact E].
  - f_equal. apply IH; auto. intros g Hg [Hh|Hh].
    + apply Hnin. rewrite Hh. apply in_map. exact Hg.
    + eapply Hs; [right; exact Hg|exact Hh].
Qed.

Lemma class_fields_exact specs :
  class_fields specs = dedup [] (all_declared (map parse_spec specs)).
Proof. unfold class_fields. apply class_fields_from_spec. Qed.

Lemma class_fields_exact_nodup specs :
  NoDup (map fname (all_declared (map parse_spec specs))) ->
  class_fields specs = all_declared (map parse_spec specs).
Proof. intros H. rewrite class_fields_exact. apply dedup_nodup; auto. Qed.

(* no field is declared twice, whatever the input *)
Lemma dedup_names_nodup l : forall seen,
  NoDup (map fname (dedup seen l)) /\ (forall f, In f (dedup seen l) -> ~ In (fname f) seen).
Proof.
  induction l as [|f t IH]; intros seen; simpl.
  - split; [constructor|tauto].
  - destruct (mem_str (fname f) seen) eqn:E; [apply IH|].
    destruct (IH (fname f :: seen)) as [A B]. split.
    + simpl. constructor; auto. intros Hin. apply in_map_iff in Hin as (g & Hg1 & Hg2).
      apply (B g Hg2). left. congruence.
    + intros g [Hg|Hg].
      * subst g. intros Hin. apply mem_str_In in Hin. congruence.
      * intros Hin. apply (B g Hg). right. exact Hin.
Qed.

Lemma class_fields_nodup specs : NoDup (map fname (class_fields specs)).
Proof. rewrite class_fields_exact. apply dedup_names_nodup. Qed.

(* ------------------------------------------------------------------ Part A: the methods *)

Lemma class_methods_exact cls fs g :
  In g (class_funcs cls fs) <-> exists n k, In (n, k) fs /\ g = class_func cls n k.
Proof.
  unfold class_funcs. rewrite in_map_iff. split.
  - intros ([n k] & E & Hin). eauto.
  - intros (n & k & Hin & E). exists (n, k). auto.
Qed.

Lemma class_plain_is_method cls fs n :
  In (n, FPlain) fs -> In (mkgofunc n (Some (this_, cls, true))) (class_funcs cls fs).
Proof. intros H. apply class_methods_exact. exists n, FPlain. auto. Qed.

Lemma class_funcs_length cls fs : length (class_funcs cls fs) = length fs.
Proof. unfold class_funcs. apply map_length. Qed.

(* ------------------------------------------------------------------ Part B: class form = explicit form *)

Lemma find_method_desugar c ms m :
  find_method (map (desugar_method c) ms) m = option_map (desugar_method c) (find_method ms m).
Proof.
  induction ms as [|x t IH]; simpl; auto. destruct (str_eqb m (mname x)); auto.
Qed.

Lemma find_method_none ms m : mem_str m (map mname ms) = false -> find_method ms m = None.
Proof.
  induction ms as [|x t IH]; simpl; auto. intros H. apply orb_false_iff in H as [H1 H2]. rewrite H1. auto.
Qed.

Section Equiv.
Variable c : class.
Let F := cfields c.
Let M := map mname (cmethods c).
Let c' := desugar_class c.

Definition Q_expr (fuel : nat) : Prop := forall scope env st e,
  eval_expr ClassForm c fuel scope env st e = eval_expr ExplicitForm c' fuel scope env st (desugar_expr F M scope e).
Definition Q_call (fuel : nat) : Prop := forall m v st,
  call_method ClassForm c fuel m v st = call_method ExplicitForm c' fuel m v st.
Definition Q_stmts (fuel : nat) : Prop := forall scope env st b,
  eval_stmts ClassForm c fuel scope env st b = eval_stmts ExplicitForm c' fuel scope env st (desugar_stmts F M scope b).

Lemma Q_step f : Q_expr f /\ Q_call f /\ Q_stmts f -> Q_expr (S f) /\ Q_call (S f) /\ Q_stmts (S f).
Proof.
  intros (IHe & IHc & IHs). unfold Q_expr, Q_call, Q_stmts in *. refine (conj _ (conj _ _)).
  - (* expressions *)
    intros scope env st e. destruct e; cbn [desugar_expr].
    + reflexivity.
    + destruct (mem_str x scope) eqn:Es.
      * simpl eval_stmts; simpl eval_expr; simpl call_method. rewrite Es. reflexivity.
      * destruct (mem_str x F) eqn:Ef; simpl eval_stmts; simpl eval_expr; simpl call_method; rewrite ?Es; unfold is_field; fold F; rewrite Ef; reflexivity.
    + reflexivity.
    + simpl eval_stmts; simpl eval_expr; simpl call_method. rewrite <- IHe. destruct (eval_expr ClassForm c f scope env st e1) as [[x st1]| |]; auto.
      rewrite <- IHe. reflexivity.
    + simpl eval_stmts; simpl eval_expr; simpl call_method. rewrite <- IHe. destruct (eval_expr ClassForm c f scope env st e1) as [[x st1]| |]; auto.
      rewrite <- IHe. reflexivity.
    + simpl eval_stmts; simpl eval_expr; simpl call_method. rewrite <- IHe. destruct (eval_expr ClassForm c f scope env st e1) as [[x st1]| |]; auto.
      rewrite <- IHe. reflexivity.
    + destruct (mem_str m scope) eqn:Es.
      * simpl eval_stmts; simpl eval_expr; simpl call_method. rewrite <- IHe. rewrite Es. reflexivity.
      * destruct (mem_str m M) eqn:Em.
        -- simpl eval_stmts; simpl eval_expr; simpl call_method. rewrite <- IHe. rewrite Es. fold M. rewrite Em.
           destruct (eval_expr ClassForm c f scope env st e) as [[v st1]| |]; auto.
        -- simpl eval_stmts; simpl eval_expr; simpl call_method. rewrite <- IHe. rewrite Es. fold M. rewrite Em.
           destruct (eval_expr ClassForm c f scope env st e) as [[v st1]| |]; auto.
    + simpl eval_stmts; simpl eval_expr; simpl call_method. rewrite <- IHe. destruct (eval_expr ClassForm c f scope env st e) as [[v st1]| |]; auto.
  - (* method calls *)
    intros m v st. simpl eval_stmts; simpl eval_expr; simpl call_method. unfold c'. cbn [desugar_class cmethods].
    rewrite find_method_desugar. destruct (find_method (cmethods c) m) as [md|]; cbn [option_map]; auto.
    cbn [desugar_method mparam mbody]. rewrite <- IHs. reflexivity.
  - (* statements *)
    intros scope env st b. destruct b as [|s r]; [reflexivity|].
    cbn [desugar_stmts desugar_stmt]. destruct s; cbn [desugar_stmt desugar_stmts].
    + destruct (mem_str x scope) eqn:Es.
      * simpl eval_stmts; simpl eval_expr; simpl call_method. rewrite <- IHe. destruct (eval_expr ClassForm c f scope env st e) as [[v st1]| |]; auto.
        rewrite Es. apply IHs.
      * destruct (mem_str x F) eqn:Ef.
        -- simpl eval_stmts; simpl eval_expr; simpl call_method. rewrite <- IHe. destruct (eval_expr ClassForm c f scope env st e) as [[v st1]| |]; auto.
           rewrite Es. unfold is_field. fold F. rewrite Ef. apply IHs.
        -- simpl eval_stmts; simpl eval_expr; simpl call_method. rewrite <- IHe. destruct (eval_expr ClassForm c f scope env st e) as [[v st1]| |]; auto.
           rewrite Es. unfold is_field. fold F. rewrite Ef. apply IHs.
    + simpl eval_stmts; simpl eval_expr; simpl call_method. rewrite <- IHe. destruct (eval_expr ClassForm c f scope env st e) as [[v st1]| |]; auto.
    + simpl eval_stmts; simpl eval_expr; simpl call_method. rewrite <- IHe. destruct (eval_expr ClassForm c f scope env st e) as [[v st1]| |]; auto.
    + simpl eval_stmts; simpl eval_expr; simpl call_method. rewrite <- IHe. destruct (eval_expr ClassForm c f scope env st e) as [[v st1]| |]; auto.
    + simpl eval_stmts; simpl eval_expr; simpl call_method. rewrite <- IHe. destruct (eval_expr ClassForm c f scope env st e) as [[v st1]| |]; auto.
    + simpl eval_stmts; simpl eval_expr; simpl call_method. rewrite <- IHe. destruct (eval_expr ClassForm c f scope env st c0) as [[v st1]| |]; auto.
      destruct (v =? 0); rewrite <- IHs;
        match goal with |- match ?X with _ => _ end = _ => destruct X as [[[env1 st2] [rv|]]| |]; auto end.
    + simpl eval_stmts; simpl eval_expr; simpl call_method. rewrite <- IHe. destruct (eval_expr ClassForm c f scope env st e) as [[v st1]| |]; auto.
Qed.

Lemma Q_all f : Q_expr f /\ Q_call f /\ Q_stmts f.
Proof.
  induction f as [|f IH]; [|apply Q_step; exact IH].
  unfold Q_expr, Q_call, Q_stmts. repeat split; intros; reflexivity.
Qed.

Lemma run_calls_equiv fuel calls : forall st acc,
  run_calls ClassForm c fuel calls st acc = run_calls ExplicitForm c' fuel calls st acc.
Proof.
  induction calls as [|[m v] t IH]; intros st acc; simpl; auto.
  destruct (Q_all fuel) as (_ & Qc & _). rewrite <- Qc.
  destruct (call_method ClassForm c fuel m v st) as [[r st1]| |]; auto.
Qed.

End Equiv.

Lemma class_equiv fuel c globals calls :
  run_class fuel c globals calls = run_explicit fuel c globals calls.
Proof. unfold run_class, run_explicit. apply run_calls_equiv. Qed.

