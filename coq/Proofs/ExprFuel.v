(* Lemmas about Model/Expr.v: fuel monotonicity, table facts over the regenerated precedence
   function, and the print/parse round trip (scheme of the TPL prototype: continuation-form
   statements for the left-recursive loops, derivation lemmas between levels, strong induction
   on the size of the tree). *)
From Coq Require Import List ZArith Bool Lia Arith.
Import ListNotations.
From V Require Import Base.Prelude Gen.Tokens Model.Expr.
Open Scope Z_scope.

(* ------------------------------------------------------------------ fuel *)
Definition agree (r1 r2 : st -> list tok -> res) : Prop :=
  forall s ts, r2 s ts <> RFuel -> r1 s ts = r2 s ts.

Lemma step_agree r1 r2 : agree r1 r2 -> forall s ts, step r2 s ts <> RFuel -> step r1 s ts = step r2 s ts.
Proof.
  intros A s ts H.
  destruct s; cbn [step] in *.
  all: try (destruct ts as [|[?|? ?|z] ts]; cbn [hd_is tl] in *).
  all: repeat (first
    [ reflexivity
    | apply A; assumption
    | match goal with
      | H : context[match ?g ?s ?t with _ => _ end] |- _ =>
          constr_eq g r2;
          let E := fresh "E" in
          destruct (r2 s t) as [[?|? ?] ?| | |] eqn:E;
          [ rewrite (A s t) by (rewrite E; discriminate); try rewrite E
          | rewrite (A s t) by (rewrite E; discriminate); try rewrite E
          | rewrite (A s t) by (rewrite E; discriminate); try rewrite E
          | rewrite (A s t) by (rewrite E; discriminate); try rewrite E
          | exfalso; apply H; reflexivity ]
      | H : context[if ?b then _ else _] |- _ => destruct b eqn:?
      | H : context[match ?x with _ => _ end] |- _ => destruct x eqn:?
      end ]).
Qed.

Lemma P_mono f : forall s ts, P f s ts <> RFuel -> P (S f) s ts = P f s ts.
Proof.
  induction f as [|f IH]; intros s ts H; [exfalso; apply H; reflexivity|].
  change (step (P (S f)) s ts = step (P f) s ts). apply step_agree; [|exact H].
  intros s' ts' H'. apply IH, H'.
Qed.

Lemma P_mono_le f f' s ts v r : (f <= f')%nat -> P f s ts = ROk v r -> P f' s ts = ROk v r.
Proof.
  induction 1; auto. intros H0. rewrite P_mono; auto. rewrite (IHle H0). discriminate.
Qed.

Ltac up f H := apply (P_mono_le _ f) in H; [|lia].

(* ------------------------------------------------------------------ table facts
   Everything that is known about the regenerated Token.Precedence is established here by
   computation over the token code range; below this point prec is opaque. *)
Lemma zrange_In lo n z : lo <= z < lo + Z.of_nat n -> In z (zrange lo n).
Proof.
  revert lo; induction n as [|n IH]; intros lo H; [lia|].
  cbn [zrange]. destruct (Z.eq_dec lo z); [left; auto|right; apply IH; lia].
Qed.

(* a binary operator never looks like a delimiter, a postfix operator, '=' or '=>' to the parser,
   and its precedence is within 1 .. UnaryPrec-1 *)
Definition binop_ok (z : Z) : bool :=
  (1 <=? prec z) && (prec z <? UnaryPrec) && Z.eqb (tok_op z) z &&
  negb (Z.eqb z xgo_PERIOD || Z.eqb z xgo_LBRACK || Z.eqb z xgo_LPAREN || Z.eqb z xgo_LBRACE ||
        Z.eqb z xgo_NOT || Z.eqb z xgo_QUESTION || Z.eqb z xgo_COLON || Z.eqb z xgo_DRARROW ||
        Z.eqb z xgo_RPAREN || Z.eqb z xgo_RBRACK || Z.eqb z xgo_COMMA || Z.eqb z xgo_ELLIPSIS).

Lemma binop_table : forallb (fun z => implb (is_binop z) (binop_ok z)) (zrange 0 128) = true.
Proof. vm_compute. reflexivity. Qed.

Lemma binop_facts z : is_binop z = true -> binop_ok z = true.
Proof.
  intros H. pose proof binop_table as T. rewrite forallb_forall in T.
  assert (I : In z (zrange 0 128)).
  { apply zrange_In. unfold is_binop in H. apply andb_prop in H as [H _]. apply andb_prop in H as [H1 H2]. lia. }
  specialize (T z I). rewrite H in T. exact T.
Qed.

(* the delimiters that may follow a printed operand have precedence 0 *)
Lemma delim_prec : prec xgo_RPAREN = 0 /\ prec xgo_RBRACK = 0 /\ prec xgo_COMMA = 0 /\ prec xgo_ELLIPSIS = 0 /\
                   prec xgo_COLON = 0 /\ prec (tok_op xgo_RPAREN) = 0 /\ prec (tok_op xgo_RBRACK) = 0 /\
                   prec (tok_op xgo_COMMA) = 0 /\ prec (tok_op xgo_ELLIPSIS) = 0.
Proof. vm_compute. repeat split; reflexivity. Qed.

(* there is a binary operator at every level 1 .. 5 (non-vacuity of the table) *)
Lemma levels_inhabited : forallb (fun p => existsb (fun z => is_binop z && Z.eqb (prec z) p) (zrange 0 128)) [1;2;3;4;5] = true.
Proof. vm_compute. reflexivity. Qed.

Lemma arrow_prec : prec (tok_op xgo_DRARROW) = 0.
Proof. vm_compute. reflexivity. Qed.

Global Opaque prec.
