(* C39 — the done channel: closed only when idle, not reading and shutting down; nothing becomes busy afterwards *)
From Coq Require Import List NArith ZArith Bool Arith Lia.
Import ListNotations.
From V Require Import Base.ConnView Gen.ConnSites Model.C39 Proofs.C39Base Proofs.C39Measure Proofs.C39Calls Proofs.C39Flight Proofs.C39Holders.

Definition idle_f (s : state) : Prop :=
  s_outgoing s = [] /\ s_outNotifs s = 0 /\ s_incoming s = 0 /\ s_handlerRunning s = false.
Definition sd_f (s : state) : bool := s_connClosing s || s_readErr s || s_writeErr s.
Definition reader_running (p : rpc) : bool := match p with RNone | RExited => false | _ => true end.

Record InvD (s : state) : Prop := {
  id_done : s_done s = true -> idle_f s /\ s_reading s = false /\ sd_f s = true /\ s_closer s = false;
  id_reading : s_reading s = reader_running (s_reader s);
  id_readErr : s_readErr s = match s_reader s with RExited => true | _ => false end;
  id_rwc : s_rwc_closes s = (if s_closer s then 0 else 1);
  id_ondone : s_ondones s = (if s_done s then 1 else 0);
  id_acked : s_rwc_acked s <= s_rwc_closes s /\ s_ondone_acked s <= s_ondones s;
  id_started : s_main s = MStarted -> s_reader s = RNone -> s_done s = true;
  id_readerr_out : s_readErr s = true -> s_outgoing s = [] }.

Lemma InvD_init p : InvD (init p).
Proof. constructor; simpl; try discriminate; try reflexivity; try lia. Qed.

Lemma idle_iff s : idle s = true <-> idle_f s.
Proof. apply idle_spec. Qed.

Lemma InvD_body s l s1 : InvN s -> InvB s -> InvD s -> body_step s l = Ok s1 -> InvD s1.
Proof.
  intros IN IB [D1 D2 D3 D4 D5 D6 D7 D8] H.
  pose proof (byID_nil_of_idle _ IN IB) as BN. destruct IN as [N1 N2 N3 N4].
  destruct l; inv_body H; unfold idle_f, sd_f, notif_count, in_flight in *; simp_state.
  all: repeat match goal with E : shutting_down _ = _ |- _ => rewrite sd_spec in E end.
  all: constructor; unfold idle_f, sd_f; simp_state; try assumption.
  all: repeat match goal with
       | E : s_done _ = _ |- _ => rewrite E in *; clear E
       | E : s_reader _ = _ |- _ => rewrite E in *; clear E
       | E : s_main _ = _ |- _ => rewrite E in *; clear E
       | E : s_handler _ = _ |- _ => rewrite E in *; clear E
       | E : s_closer _ = _ |- _ => rewrite E in *; clear E
       | E : s_outNotifs _ = _ |- _ => rewrite E in *; clear E
       | E : s_incoming _ = _ |- _ => rewrite E in *; clear E
       | E : s_queue _ = _ |- _ => rewrite E in *; clear E
       | E : s_handlerRunning _ = _ |- _ => rewrite E in *; clear E
       | E : s_outgoing _ = _ |- _ => rewrite E in *; clear E
       | E : s_byID _ = _ |- _ => rewrite E in *; clear E
       | E : s_writeErr _ = _ |- _ => rewrite E in *; clear E
       end.
  all: simpl in *.
  all: try solve [intuition (try discriminate; try lia; try congruence)].
  all: rewrite ?orb_true_r in *.
  all: repeat match goal with
       | E : nth_error (s_notifs _) _ = Some ?n0 |- _ =>
           lazymatch goal with H : n_counted (n_pc n0) <= _ |- _ => fail | _ => idtac end;
           pose proof (sum_map_ge (fun nr => n_counted (n_pc nr)) _ _ _ E); cbv beta in *
       | E : nth_error (s_resps _) _ = Some ?p |- _ =>
           lazymatch goal with H : p_counted p <= _ |- _ => fail | _ => idtac end;
           pose proof (sum_map_ge p_counted _ _ _ E)
       end.
  all: repeat match goal with E : n_pc _ = _ |- _ => rewrite E in *; clear E end; simpl in *.
  all: try match goal with |- _ = true -> _ =>
         let Dn := fresh "Dn" in intros Dn; destruct (D1 Dn) as ((O & Nn & Inc & Hr) & Rd & Sd & Cl);
         try rewrite O in *; try (rewrite (BN ltac:(lia)) in *); simpl in *; rewrite ?sd_spec in * end.
  all: try solve [intuition (try discriminate; try lia; try congruence)].
  - apply Nat.ltb_lt in E. lia.
  - apply Nat.ltb_lt in E. lia.
  - rewrite D3, (N4 eq_refl). reflexivity.
  - intros R. rewrite R in *. rewrite orb_true_r in *. simpl in *. discriminate.
  - intros R. rewrite (D8 R). reflexivity.
Qed.

Lemma InvD_epi s s' : InvD s -> epi s = Ok s' -> InvD s'.
Proof.
  unfold epi. intros [D1 D2 D3 D4 D5 D6 D7 D8] H. break_match H; injection H as <-.
  all: repeat match goal with E : idle _ = true |- _ => apply idle_iff in E end.
  all: repeat match goal with E : shutting_down _ = _ |- _ => rewrite sd_spec in E end.
  all: try (apply andb_prop in E0; destruct E0 as [E0a E0b]; apply idle_iff in E0a; rewrite sd_spec in E0b).
  all: constructor; unfold idle_f, sd_f in *; simp_state; try assumption.
  all: repeat match goal with
       | E : s_done _ = _ |- _ => rewrite E in *; clear E
       | E : s_closer _ = _ |- _ => rewrite E in *; clear E
       | E : s_reading _ = _ |- _ => rewrite E in *; clear E
       end; simpl in *.
  all: try solve [intuition (try discriminate; try lia; try congruence)].
Qed.

Lemma epi_no_panic s p : InvD s -> epi s <> Panic p.
Proof.
  unfold epi. intros D H. break_match H; try discriminate.
  apply (id_done _ D) in E. destruct E as [I _]. apply idle_iff in I. congruence.
Qed.

(* after every critical section the epilogue has closed done if it could *)
Definition InvE (s : state) : Prop := s_done s = false -> idle s && shutting_down s && negb (s_reading s) = false.
Lemma InvE_epi s s' : epi s = Ok s' -> InvE s'.
Proof.
  unfold epi, InvE. intros H Hd.
  destruct (idle s' && shutting_down s' && negb (s_reading s')) eqn:X; [exfalso | reflexivity].
  apply andb_prop in X as [X X3]. apply andb_prop in X as [X1 X2].
  apply idle_spec in X1. rewrite sd_spec in X2. apply negb_true_iff in X3.
  break_match H; injection H as <-; simp_state; try congruence.
  - (* not idle or not shutting down before: nothing changed *)
    assert (idle s = true) by (apply idle_spec; assumption).
    rewrite sd_spec in E0. rewrite H, X2 in E0. discriminate.
Qed.
