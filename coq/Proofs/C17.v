(* C17 — proofs: the Pos()/End() bodies agree with the layout templates (Model/C17.v). *)
From Coq Require Import List String ZArith NArith Bool Lia.
Import ListNotations.
From V Require Import Base.Prelude Base.AstTree Base.AstTreeFacts Base.AstPos Model.C17.
Open Scope string_scope.
Open Scope list_scope.
Open Scope Z_scope.

(* ------------------------------------------------------------------ decidable equalities *)

Lemma pcond_eqb_eq : forall a b, pcond_eqb a b = true -> a = b.
Proof.
  induction a; destruct b; cbn [pcond_eqb]; try discriminate; intros H;
    try (apply String.eqb_eq in H; now subst); try reflexivity.
  - f_equal. auto.
  - apply andb_prop in H as [H1 H2]. f_equal; auto.
  - apply andb_prop in H as [H1 H2]. f_equal; auto.
Qed.

Lemma pcond_eqb_refl : forall a, pcond_eqb a a = true.
Proof. induction a; cbn [pcond_eqb]; try apply String.eqb_refl; auto; now rewrite IHa1, IHa2. Qed.

Lemma list_eqb_str_eq : forall a b, list_eqb String.eqb a b = true -> a = b.
Proof.
  induction a as [|x a IH]; destruct b as [|y b]; cbn; try discriminate; auto.
  intros H. apply andb_prop in H as [H1 H2]. apply String.eqb_eq in H1. subst. f_equal. auto.
Qed.

Lemma pexpr_eqb_eq a b : pexpr_eqb a b = true -> a = b.
Proof.
  destruct a, b; cbn [pexpr_eqb]; try discriminate; intros H;
    try (apply String.eqb_eq in H; now subst); try reflexivity.
  - apply andb_prop in H as [H1 H2]. apply String.eqb_eq in H1. apply Z.eqb_eq in H2. now subst.
  - apply andb_prop in H as [H1 H2]. apply String.eqb_eq in H1. apply list_eqb_str_eq in H2. now subst.
  - apply andb_prop in H as [H1 H2]. apply String.eqb_eq in H1, H2. now subst.
  - apply andb_prop in H as [H1 H2]. apply String.eqb_eq in H1, H2. now subst.
Qed.

(* ------------------------------------------------------------------ valuations *)

Lemma ceval_ext v1 v2 : forall c, (forall x, In x (atoms_of c) -> v1 x = v2 x) -> ceval v1 c = ceval v2 c.
Proof.
  induction c; intros H; cbn [ceval atoms_of] in *; try (apply H; now left).
  - f_equal. auto.
  - rewrite IHc1, IHc2; auto; intros x Hx; apply H; apply in_or_app; auto.
  - rewrite IHc1, IHc2; auto; intros x Hx; apply H; apply in_or_app; auto.
Qed.

Lemma select_ext v1 v2 : forall b, (forall x, In x (atoms_of_body b) -> v1 x = v2 x) -> select v1 b = select v2 b.
Proof.
  induction b; intros H; cbn [select atoms_of_body] in *; auto.
  rewrite (ceval_ext v1 v2 c) by (intros x Hx; apply H; apply in_or_app; auto).
  destruct (ceval v2 c); [apply IHb1|apply IHb2]; intros x Hx; apply H; apply in_or_app; right; apply in_or_app; auto.
Qed.

Lemma item_present_ext v1 v2 it : (forall x, In x (atoms_of_item it) -> v1 x = v2 x) ->
  item_present v1 it = item_present v2 it.
Proof.
  destruct it; cbn [item_present atoms_of_item]; intros H; try (apply ceval_ext; auto); auto.
  apply H. now left.
Qed.

Lemma find_present_ext v1 v2 : forall tm, (forall x, In x (flat_map atoms_of_item tm) -> v1 x = v2 x) ->
  find (item_present v1) tm = find (item_present v2) tm.
Proof.
  induction tm as [|it t IH]; intros H; [reflexivity|]. cbn [find flat_map] in *.
  rewrite (item_present_ext v1 v2 it) by (intros x Hx; apply H; apply in_or_app; auto).
  destruct (item_present v2 it); auto. apply IH. intros x Hx. apply H. apply in_or_app. auto.
Qed.

Lemma flat_map_rev_In {A B} (f : A -> list B) l x : In x (flat_map f (rev l)) -> In x (flat_map f l).
Proof. rewrite !in_flat_map. intros (y & Hy & Hx). exists y. split; auto. now apply in_rev. Qed.

(* the assignment that records a valuation on a list of atoms *)
Definition record (v : pcond -> bool) (atoms : list pcond) : list (pcond * bool) := map (fun c => (c, v c)) atoms.

Lemma record_in v : forall atoms, In (record v atoms) (all_assign atoms).
Proof.
  induction atoms as [|a t IH]; [now left|]. cbn [all_assign record map].
  apply in_flat_map. exists (record v t). split; [exact IH|]. destruct (v a); cbn; auto.
Qed.

Lemma look_record v atoms c : v CTrue = true -> In c atoms -> look (record v atoms) c = v c.
Proof.
  intros Ht Hin. unfold look.
  assert (F : find (fun p => pcond_eqb (fst p) c) (record v atoms) = Some (c, v c)).
  { induction atoms as [|a t IH]; [destruct Hin|]. cbn [record map find fst].
    destruct (pcond_eqb a c) eqn:E.
    - apply pcond_eqb_eq in E. now subst.
    - destruct Hin as [->|Hin]; [now rewrite pcond_eqb_refl in E|]. now apply IH. }
  rewrite F. destruct c; auto.
Qed.

Lemma mem_c_In c l : mem_c c l = true <-> In c l.
Proof.
  unfold mem_c. rewrite existsb_exists. split.
  - intros (y & Hy & E). apply pcond_eqb_eq in E. now subst.
  - intros H. exists c. split; auto. apply pcond_eqb_refl.
Qed.

Lemma dedup_c_In c l : In c l -> In c (dedup_c l).
Proof.
  induction l as [|y t IH]; [auto|]. cbn [dedup_c]. intros [->|H].
  - destruct (mem_c c t) eqn:E; [apply IH; now apply mem_c_In|now left].
  - destruct (mem_c y t); [auto|right; auto].
Qed.

Lemma dedup_c_In_inv c l : In c (dedup_c l) -> In c l.
Proof.
  induction l as [|y t IH]; [auto|]. cbn [dedup_c]. destruct (mem_c y t); [right; auto|].
  intros [->|H]; [now left|right; auto].
Qed.

Lemma len_atoms_pos f l : In (CLenOne f) l -> In (CLenPos f) (len_atoms l).
Proof. intros H. unfold len_atoms. apply in_flat_map. exists (CLenOne f). split; auto. right. now left. Qed.

Lemma len_atoms_inv c l : In c (len_atoms l) -> forall f, c = CLenOne f -> In (CLenOne f) l.
Proof.
  unfold len_atoms. intros H f ->. apply in_flat_map in H as (y & Hy & H).
  destruct y; try (now destruct H). destruct H as [E|[E|E]]; [inversion E; subst; exact Hy|discriminate E|destruct E].
Qed.

(* ------------------------------------------------------------------ semantics of a body through select *)

Section Sem.
  Context (tokens : list str) (ibase : Z).
  Notation aval := (atom_val ibase).

  Lemma eval_body_select rp re n : forall b,
    eval_body tokens ibase rp re n b =
    match select (aval n) b with Some e => eval_expr tokens rp re n e | None => Panic end.
  Proof.
    induction b; cbn [eval_body select]; auto. unfold eval_cond. destruct (ceval (aval n) c); auto.
  Qed.

  Lemma consistent_aval n atoms : consistent (aval n) atoms = true.
  Proof.
    unfold consistent. apply forallb_forall. intros c _. destruct c; auto.
    cbn [atom_val]. destruct (get f n) as [| | | | | | | |l]; auto. destruct l as [|x [|y l]]; auto.
  Qed.

  Lemma pexpr_ok_sound rp re n a b : pexpr_ok (aval n) a b = true ->
    eval_expr tokens rp re n a = eval_expr tokens rp re n b.
  Proof.
    unfold pexpr_ok. intros H. apply orb_prop in H as [H|H]; [now rewrite (pexpr_eqb_eq _ _ H)|].
    destruct a, b; try discriminate. apply andb_prop in H as [E L]. apply String.eqb_eq in E. subst f0.
    cbn [atom_val] in L. cbn [eval_expr].
    destruct (get f n) as [| | | | | | | |l]; try discriminate. destruct l as [|x [|y l]]; try discriminate.
    reflexivity.
  Qed.

  (* a kind whose bodies pass the check: Pos()/End() are the start / end the template gives *)
  Lemma kind_span_sound bp be kt rp re n :
    kind_span_ok bp be kt = true -> forallb (eval_cond ibase n) (k_req kt) = true ->
    eval_body tokens ibase rp re n bp = eval_expr tokens rp re n (tfirst (aval n) (k_items kt)) /\
    eval_body tokens ibase rp re n be = eval_expr tokens rp re n (tlast (aval n) (k_items kt)).
  Proof.
    intros Hok Hreq. unfold kind_span_ok in Hok. set (atoms := kind_atoms bp be kt) in *.
    rewrite forallb_forall in Hok. specialize (Hok _ (record_in (aval n) atoms)).
    set (v := look (record (aval n) atoms)) in *.
    assert (Hv : forall c, In c atoms -> v c = aval n c) by (intros c Hc; apply look_record; auto).
    assert (Hin : forall c, In c (atoms_of_body bp ++ atoms_of_body be ++ flat_map atoms_of_item (k_items kt) ++
                                  flat_map atoms_of (k_req kt)) -> In c atoms).
    { intros c Hc. unfold atoms, kind_atoms. apply dedup_c_In. apply in_or_app. now left. }
    assert (Hone : forall f, In (IList f) (k_items kt) -> In (CLenOne f) atoms).
    { intros f Hf. unfold atoms, kind_atoms. apply dedup_c_In. apply in_or_app. right. apply in_or_app. left.
      apply in_flat_map. exists (IList f). split; auto. now left. }
    (* the premise of the checked implication holds for the recorded valuation *)
    assert (Hprem : forallb (ceval v) (k_req kt) && consistent v atoms = true).
    { apply andb_true_intro. split.
      - apply forallb_forall. intros c Hc. rewrite forallb_forall in Hreq. specialize (Hreq c Hc).
        unfold eval_cond in Hreq. rewrite <- Hreq. apply ceval_ext. intros x Hx. apply Hv, Hin.
        apply in_or_app; right; apply in_or_app; right; apply in_or_app; right.
        apply in_flat_map. eauto.
      - unfold consistent. apply forallb_forall. intros c Hc. destruct c; auto.
        assert (Hp : In (CLenPos f) atoms).
        { unfold atoms, kind_atoms in *. apply dedup_c_In. apply dedup_c_In_inv in Hc.
          set (base := atoms_of_body bp ++ atoms_of_body be ++ flat_map atoms_of_item (k_items kt) ++
                       flat_map atoms_of (k_req kt)) in *.
          set (one := flat_map (fun it => match it with IList f => [CLenOne f] | _ => [] end) (k_items kt)) in *.
          assert (Hbo : In (CLenOne f) (base ++ one)).
          { apply in_app_or in Hc as [Hc|Hc]; [apply in_or_app; now left|].
            apply in_app_or in Hc as [Hc|Hc]; [apply in_or_app; now right|].
            eapply len_atoms_inv; eauto. }
          apply in_or_app. right. apply in_or_app. right. now apply len_atoms_pos. }
        rewrite (Hv _ Hc), (Hv _ Hp).
        pose proof (consistent_aval n [CLenOne f]) as C. cbn in C. now rewrite andb_true_r in C. }
    rewrite Hprem in Hok. cbn [implb] in Hok.
    rewrite (select_ext v (aval n) bp) in Hok by (intros x Hx; apply Hv, Hin; apply in_or_app; auto).
    rewrite (select_ext v (aval n) be) in Hok
      by (intros x Hx; apply Hv, Hin; apply in_or_app; right; apply in_or_app; auto).
    assert (Hitems : forall x, In x (flat_map atoms_of_item (k_items kt)) -> v x = aval n x).
    { intros x Hx. apply Hv, Hin. apply in_or_app; right; apply in_or_app; right; apply in_or_app; auto. }
    unfold tfirst, tlast in Hok.
    rewrite (find_present_ext v (aval n) (k_items kt) Hitems) in Hok.
    rewrite (find_present_ext v (aval n) (rev (k_items kt))) in Hok
      by (intros x Hx; apply Hitems; now apply flat_map_rev_In).
    rewrite !eval_body_select.
    destruct (select (aval n) bp) as [ep|]; [|discriminate]. destruct (select (aval n) be) as [ee|]; [|discriminate].
    apply andb_prop in Hok as [H1 H2].
    (* pexpr_ok under v vs under aval n: they agree on the CLenOne atoms of list items *)
    assert (Hpo : forall a b, pexpr_ok v a b = true ->
                    (forall f, b = PListLastEnd f -> In (CLenOne f) atoms) -> pexpr_ok (aval n) a b = true).
    { intros a b H Hb. unfold pexpr_ok in *. apply orb_prop in H as [H|H]; [now rewrite H|].
      destruct a, b; try discriminate. apply andb_prop in H as [E L]. pose proof E as E'. apply String.eqb_eq in E'. subst f0.
      rewrite (Hv _ (Hb f eq_refl)) in L. rewrite E, L. apply orb_true_r. }
    split; apply pexpr_ok_sound; apply Hpo; auto.
    - intros f E. unfold tfirst in E. destruct (find (item_present (aval n)) (k_items kt)) as [it|]; [|discriminate].
      destruct it; discriminate.
    - intros f E. unfold tlast in E. destruct (find (item_present (aval n)) (rev (k_items kt))) as [it|] eqn:F; [|discriminate].
      apply find_some in F as [F _]. apply in_rev in F. destruct it as [? l ?| | | |]; try destruct l; try discriminate.
      cbn [item_end] in E. inversion E; subst. auto.
  Qed.
End Sem.

(* ------------------------------------------------------------------ whole trees *)

Lemma assoc_In17 {A} k (l : list (string * A)) v : assoc k l = Some v -> In (k, v) l.
Proof.
  induction l as [|[k' v'] t IH]; cbn [assoc]; [discriminate|].
  destruct (String.eqb k k') eqn:E.
  - apply String.eqb_eq in E. subst. intros H; inversion H; subst. now left.
  - intros H. right. auto.
Qed.

Lemma last_opt_In {A} (l : list A) x : last_opt l = Some x -> In x l.
Proof.
  induction l as [|y t IH]; [discriminate|]. cbn [last_opt]. destruct t as [|z t'].
  - intros H; inversion H; now left.
  - intros H. right. auto.
Qed.

Section Tree.
  Context (bodies : pos_table) (tokens : list str) (ibase : Z).
  Context (HT : span_table_ok bodies = true).

  Lemma eval_expr_ext rp re rp' re' n e :
    (forall f c, In c (value_nodes (get f n)) -> rp c = rp' c /\ re c = re' c) ->
    eval_expr tokens rp re n e = eval_expr tokens rp' re' n e.
  Proof.
    intros H. destruct e; cbn [eval_expr]; auto.
    - destruct (get f n) eqn:G; auto. apply (H f). rewrite G. now left.
    - destruct (get f n) eqn:G; auto. apply (H f). rewrite G. now left.
    - destruct (get f n) as [| | | | | | | |l] eqn:G; auto. destruct l as [|x l]; auto. destruct x; auto.
      apply (H f). rewrite G, value_nodes_list. cbn [flat_map value_nodes]. now left.
    - destruct (get f n) as [| | | | | | | |l] eqn:G; auto. destruct (last_opt l) as [x|] eqn:L; auto. destruct x; auto.
      apply (H f). rewrite G, value_nodes_list. apply in_flat_map. exists (VNode n0). split; [now apply last_opt_In|now left].
    - destruct (get f n) as [| | | | | | | |l] eqn:G; auto. destruct l as [|x l]; auto. destruct x; auto.
      apply (H f). rewrite G, value_nodes_list. cbn [flat_map value_nodes]. now left.
  Qed.

  Lemma good_tree_child t f c : good_tree ibase t = true -> In c (value_nodes (get f t)) -> good_tree ibase c = true.
  Proof.
    unfold good_tree. rewrite !forallb_forall. intros H Hin x Hx. apply H. eapply get_nodes_sub; eauto.
  Qed.

  (* Pos() and End() of every node are the start of its first and the end of its last template item *)
  Theorem span_exact : forall fuel w t, good_tree ibase t = true ->
    pe bodies tokens ibase fuel w t = spec_pe tokens ibase fuel w t.
  Proof.
    induction fuel as [|f IH]; intros w t Hg; [reflexivity|].
    assert (Hr : req_ok ibase t = true).
    { unfold good_tree in Hg. rewrite forallb_forall in Hg. apply Hg, subnodes_self. }
    unfold req_ok in Hr. cbn [pe spec_pe].
    destruct (assoc (kind t) templates) as [kt|] eqn:At; [|discriminate].
    unfold span_table_ok in HT. apply andb_prop in HT as [H12 H3]. apply andb_prop in H12 as [H1 H2].
    rewrite forallb_forall in H1. specialize (H1 _ (assoc_In17 _ _ _ At)). cbn [fst] in H1.
    destruct (assoc (kind t) bodies) as [[bp be]|] eqn:Ab; [|discriminate].
    rewrite forallb_forall in H3. specialize (H3 _ (assoc_In17 _ _ _ Ab)). cbn beta iota in H3. rewrite At in H3.
    assert (Hnf : String.eqb (kind t) "File" = false).
    { destruct (String.eqb (kind t) "File") eqn:E; auto. apply String.eqb_eq in E.
      cbn [untemplated forallb] in H2. rewrite <- E, At in H2. discriminate. }
    destruct (kind_span_sound tokens ibase bp be kt (pe bodies tokens ibase f true) (pe bodies tokens ibase f false) t H3 Hr)
      as [Kp Ke].
    assert (Hext : forall e, eval_expr tokens (pe bodies tokens ibase f true) (pe bodies tokens ibase f false) t e =
                             eval_expr tokens (spec_pe tokens ibase f true) (spec_pe tokens ibase f false) t e).
    { intros e. apply eval_expr_ext. intros g c Hc. pose proof (good_tree_child _ _ _ Hg Hc). split; apply IH; auto. }
    destruct w.
    - rewrite <- Hext, <- Kp. destruct bp; auto. cbn [negb andb]. now rewrite andb_false_r.
    - rewrite <- Hext, <- Ke. destruct be; auto. rewrite Hnf. reflexivity.
  Qed.
End Tree.

(* ------------------------------------------------------------------ nesting and order *)

Lemma find_filter_hd {A} (p : A -> bool) l : find p l = hd_error (filter p l).
Proof. induction l as [|x t IH]; [reflexivity|]. cbn [find filter]. destruct (p x); auto. Qed.

Lemma filter_rev {A} (p : A -> bool) l : filter p (rev l) = rev (filter p l).
Proof.
  induction l as [|x t IH]; [reflexivity|]. cbn [rev filter]. rewrite filter_app, IH. cbn [filter].
  destruct (p x); cbn [rev]; [reflexivity|now rewrite app_nil_r].
Qed.

Lemma hd_error_rev_last {A} (l : list A) : hd_error (rev l) = last_opt l.
Proof.
  induction l as [|x t IH]; [reflexivity|]. cbn [rev last_opt]. destruct t as [|y t'].
  - reflexivity.
  - rewrite <- IH. cbn [rev]. destruct (rev t' ++ [y]) eqn:E; [destruct (rev t'); discriminate|reflexivity].
Qed.

Lemma chain_bounds : forall l s0 e0, chain ((s0, e0) :: l) ->
  forall s e, In (s, e) ((s0, e0) :: l) -> s0 <= s /\ s <= e /\
    match last_opt ((s0, e0) :: l) with Some (_, el) => e <= el | None => True end.
Proof.
  induction l as [|[s1 e1] t IH]; intros s0 e0 Hc s e Hin.
  - destruct Hin as [E|[]]. inversion E; subst. cbn in *. lia.
  - cbn [chain] in Hc. destruct Hc as (H0 & H01 & Hc).
    change (last_opt ((s0, e0) :: (s1, e1) :: t)) with (last_opt ((s1, e1) :: t)).
    destruct Hin as [E|Hin].
    + inversion E; subst. specialize (IH s1 e1 Hc s1 e1 (or_introl eq_refl)).
      destruct (last_opt ((s1, e1) :: t)) as [[a el]|]; lia.
    + specialize (IH s1 e1 Hc s e Hin). destruct (last_opt ((s1, e1) :: t)) as [[a el]|]; lia.
Qed.

Lemma chain_order : forall l, chain l -> forall i j a b, (i < j)%nat ->
  nth_error l i = Some a -> nth_error l j = Some b -> snd a <= fst b.
Proof.
  induction l as [|[s0 e0] t IH]; intros Hc i j a b Hij Ha Hb; [destruct i; discriminate|].
  cbn [chain] in Hc. destruct Hc as (H0 & H01 & Hc).
  destruct j as [|j]; [lia|]. cbn [nth_error] in Hb. destruct i as [|i].
  - cbn [nth_error] in Ha. inversion Ha; subst a. cbn [snd].
    destruct t as [|[s1 e1] t']; [destruct j; discriminate|].
    assert (Hin : In b ((s1, e1) :: t')) by (eapply nth_error_In; eauto).
    destruct b as [sb eb]. pose proof (chain_bounds _ _ _ Hc _ _ Hin) as (B1 & B2 & _). cbn [fst]. cbn in H01. lia.
  - cbn [nth_error] in Ha. apply (IH Hc i j a b); auto. lia.
Qed.

Lemma mapM17_length {A B} (f : A -> M B) l r : mapM17 f l = Ok r -> List.length r = List.length l.
Proof.
  revert r. induction l as [|x t IH]; cbn [mapM17]; intros r H; [inversion H; reflexivity|].
  destruct (f x) as [y| |]; try discriminate. cbn [bind] in H.
  destruct (mapM17 f t) as [r'| |]; try discriminate. cbn [bind] in H. inversion H; subst.
  cbn [List.length]. f_equal. auto.
Qed.

Lemma mapM17_hd {A B} (f : A -> M B) l r x : mapM17 f l = Ok r -> hd_error l = Some x ->
  exists y, f x = Ok y /\ hd_error r = Some y.
Proof.
  destruct l as [|a t]; [discriminate|]. cbn [hd_error mapM17]. intros H E. inversion E; subst a.
  destruct (f x) as [y| |]; try discriminate. cbn [bind] in H.
  destruct (mapM17 f t) as [r'| |]; try discriminate. cbn [bind] in H. inversion H; subst. eauto.
Qed.

Lemma mapM17_last {A B} (f : A -> M B) : forall l r x, mapM17 f l = Ok r -> last_opt l = Some x ->
  exists y, f x = Ok y /\ last_opt r = Some y.
Proof.
  induction l as [|a t IH]; intros r x H E; [discriminate|]. cbn [mapM17] in H.
  destruct (f a) as [y| |] eqn:Fa; try discriminate. cbn [bind] in H.
  destruct (mapM17 f t) as [r'| |] eqn:Ft; try discriminate. cbn [bind] in H. inversion H; subst.
  destruct t as [|b t'].
  - cbn [last_opt] in E. inversion E; subst. cbn [mapM17] in Ft. inversion Ft; subst. eauto.
  - change (last_opt (a :: b :: t')) with (last_opt (b :: t')) in E.
    destruct (IH r' x eq_refl E) as (y' & Fy & Ly). exists y'. split; auto.
    pose proof (mapM17_length _ _ _ Ft) as L. destruct r' as [|c r'']; [discriminate|]. exact Ly.
Qed.

Lemma last_opt_cons {A} (x : A) l : exists y, last_opt (x :: l) = Some y.
Proof. revert x. induction l as [|z t IH]; intros x; [now exists x|]. destruct (IH z) as (y & E). exists y. exact E. Qed.

Section Nest.
  Context (tokens : list str) (ibase : Z).

  (* if the items of a node are laid out one after the other, the node's span (by the specification)
     starts with the first and ends with the last of them, every item — in particular every child —
     lies within it, and the items are in order and do not overlap *)
  Theorem nested_ordered fuel n ivs : laid_out tokens ibase fuel n ivs -> ivs <> [] ->
    exists s0 e0 sl el, hd_error ivs = Some (s0, e0) /\ last_opt ivs = Some (sl, el) /\
      spec_pe tokens ibase (S fuel) true n = Ok s0 /\ spec_pe tokens ibase (S fuel) false n = Ok el /\
      (forall s e, In (s, e) ivs -> s0 <= s /\ s <= e /\ e <= el) /\
      (forall i j a b, (i < j)%nat -> nth_error ivs i = Some a -> nth_error ivs j = Some b -> snd a <= fst b).
  Proof.
    intros [Hm Hc] Hne. unfold present_items in Hm. cbn [spec_pe].
    destruct (assoc (kind n) templates) as [kt|]; [|cbn in Hm; inversion Hm; subst; congruence].
    set (v := atom_val ibase n) in *. set (pres := filter (item_present v) (k_items kt)) in *.
    destruct ivs as [|[s0 e0] rest] eqn:Ei; [congruence|]. rewrite <- Ei in *.
    pose proof (mapM17_length _ _ _ Hm) as L.
    destruct pres as [|it0 pt] eqn:Ep; [rewrite Ei in L; discriminate|].
    destruct (mapM17_hd _ _ _ it0 Hm eq_refl) as (y0 & F0 & H0).
    destruct (last_opt_cons it0 pt) as (itl & Ll).
    destruct (mapM17_last _ _ _ itl Hm Ll) as ([sl el] & Fl & Hl).
    exists s0, e0, sl, el. rewrite Ei in H0 at 1. cbn [hd_error] in H0. inversion H0; subst y0.
    split; [now rewrite Ei|]. split; [exact Hl|].
    unfold tfirst, tlast. rewrite find_filter_hd, find_filter_hd, filter_rev, hd_error_rev_last. fold v pres.
    rewrite Ep. cbn [hd_error]. rewrite Ll.
    unfold item_iv in F0, Fl.
    destruct (eval_expr tokens _ _ n (item_start it0)) as [a| |] eqn:A0; try discriminate. cbn [bind] in F0.
    destruct (eval_expr tokens _ _ n (item_end it0)) as [b| |]; try discriminate. cbn [bind] in F0. inversion F0; subst a b.
    destruct (eval_expr tokens _ _ n (item_start itl)) as [a| |]; try discriminate. cbn [bind] in Fl.
    destruct (eval_expr tokens _ _ n (item_end itl)) as [b| |] eqn:Bl; try discriminate. cbn [bind] in Fl. inversion Fl; subst a b.
    split; [reflexivity|]. split; [reflexivity|]. split.
    - intros s e Hin. rewrite Ei in Hc, Hin, Hl. pose proof (chain_bounds _ _ _ Hc _ _ Hin) as B. rewrite Hl in B. exact B.
    - intros i j a b. apply chain_order. exact Hc.
  Qed.
End Nest.
