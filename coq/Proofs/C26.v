(* C26 — crash safety and mode preservation of writeFileWithBackup over the file-system model. *)
From Coq Require Import List NArith Bool Arith Lia.
Import ListNotations.
From V Require Import Base.C26Ops Gen.FmtOps Model.C26.

Lemma set_same {A} (f : N -> option A) k v : set f k v k = v.
Proof. unfold set. now rewrite N.eqb_refl. Qed.
Lemma set_other {A} (f : N -> option A) k v x : x <> k -> set f k v x = f x.
Proof. unfold set. intros H. destruct (N.eqb_spec x k); [contradiction|reflexivity]. Qed.

Lemma apply_all_app l1 l2 s : apply_all (l1 ++ l2) s = apply_all l2 (apply_all l1 s).
Proof. unfold apply_all. apply fold_left_app. Qed.

Section One.
Variable e : env.

(* calls that only touch the temporary name / the temporary inode *)
Definition tmp_only (x : sys) : Prop :=
  match x with
  | SysCreate n i sd => n = tmp e /\ i = tino e /\ sd = true
  | SysWrite i _ | SysFchmod i _ => i = tino e
  | SysClose _ => True
  | SysUnlink n => n = tmp e
  | SysRename _ _ => False
  | SysStat _ _ => True
  end.

Definition same_off (s s' : fs) : Prop :=
  (forall n, n <> tmp e -> ents s' n = ents s n) /\ (forall i, i <> tino e -> inos s' i = inos s i).

Lemma same_off_refl s : same_off s s.
Proof. split; auto. Qed.

Lemma same_off_step s s' x : same_off s s' -> tmp_only x -> same_off s (apply1 x s').
Proof.
  intros [H1 H2] T. destruct x; simpl in *.
  - destruct T as (-> & -> & _). split; intros; simpl; rewrite set_other by auto; auto.
  - subst i. destruct (inos s' (tino e)); [|split; auto]. split; intros; simpl; auto. rewrite set_other by auto; auto.
  - subst i. destruct (inos s' (tino e)); [|split; auto]. split; intros; simpl; auto. rewrite set_other by auto; auto.
  - split; auto.
  - subst n. split; intros; simpl; auto. rewrite set_other by auto; auto.
  - contradiction.
  - split; auto.
Qed.

Lemma same_off_all l : forall s s', same_off s s' -> Forall tmp_only l -> same_off s (apply_all l s').
Proof.
  induction l as [|x l IH]; intros s s' H F; simpl; auto.
  inversion F; subst. apply IH; auto. now apply same_off_step.
Qed.

(* the situation before the call: path leads to a file with content old and mode m; the temporary
   name and inode are fresh (os.CreateTemp: O_EXCL, random suffix) *)
Definition wf0 (s : fs) (old : list N) (m : N) : Prop :=
  read s (path e) = Some (old, m) /\ tmp e <> path e /\ ents s (tmp e) = None /\ inos s (tino e) = None.

Lemma read_same_off s s' old m : wf0 s old m -> same_off s s' -> read s' (path e) = Some (old, m).
Proof.
  intros (R & Hne & Ht & Hi) [H1 H2]. unfold read, resolve in *.
  rewrite H1 by auto. destruct (ents s (path e)) as [[i|t]|] eqn:E; try discriminate.
  - assert (i <> tino e) by (intros ->; rewrite Hi in R; discriminate). rewrite H2 by auto. exact R.
  - assert (t <> tmp e) by (intros ->; rewrite Ht in R; discriminate). rewrite H1 by auto.
    destruct (ents s t) as [[i|]|]; try discriminate.
    assert (i <> tino e) by (intros ->; rewrite Hi in R; discriminate). rewrite H2 by auto. exact R.
Qed.

(* the temporary inode after create + writes *)
Lemma writes_inode ws : forall s c md, inos s (tino e) = Some (mkI c md) ->
  inos (apply_all (map (SysWrite (tino e)) ws) s) (tino e) = Some (mkI (c ++ concat ws) md).
Proof.
  induction ws as [|w ws IH]; intros s c md H; simpl.
  - now rewrite app_nil_r.
  - rewrite (IH _ (c ++ w) md); [now rewrite app_assoc|]. rewrite H. simpl. apply set_same.
Qed.

Lemma writes_tmp_only ws : Forall tmp_only (map (SysWrite (tino e)) ws).
Proof. induction ws; simpl; constructor; simpl; auto. Qed.

End One.
Definition mrun (e : env) (fl : faults) (s : fs) : mstate := exec e fl model_wfb (start s).

(* every call succeeds as far as the rename needs it *)
Definition succeeds (fl : faults) : bool :=
  negb (fl_create fl) && wr_ok fl && (fl_stat fl || negb (fl_chmod fl)) && negb (fl_close fl) && negb (fl_rename fl).

Ltac tmpo := repeat match goal with
  | |- Forall _ (_ ++ _) => apply Forall_app; split
  | |- Forall _ (map (SysWrite _) _) => apply writes_tmp_only
  | |- Forall _ (_ :: _) => constructor; [simpl; auto|]
  | |- Forall _ [] => constructor
  end.

Lemma run_shape e fl s old m : wf0 e s old m ->
  let r := mrun e fl s in
  cur r = apply_all (trace r) s /\
  if succeeds fl
  then exists A, trace r = A ++ [SysRename (tmp e) (path e)] /\ Forall (tmp_only e) A /\ err r = false /\
                 ents (apply_all A s) (tmp e) = Some (EFile (tino e)) /\
                 inos (apply_all A s) (tino e) = Some (mkI (concat (wr fl)) (if fl_stat fl then 384%N else m))
  else Forall (tmp_only e) (trace r) /\ err r = true /\ (fl_remove fl = false -> ents (cur r) (tmp e) = None).
Proof.
  intros WF. pose proof WF as (R & Hne & Ht & Hi).
  destruct fl as [c w wok st ch cl rm rn]. unfold mrun, model_wfb, succeeds. simpl fl_create. simpl wr_ok.
  simpl fl_stat. simpl fl_chmod. simpl fl_close. simpl fl_rename. simpl wr. simpl fl_remove.
  destruct c.
  { (* CreateTemp fails *) cbn. split; [reflexivity|]. split; [constructor|]. split; [reflexivity|]. intros _. exact Ht. }
  set (s1 := apply1 (SysCreate (tmp e) (tino e) true) s).
  set (W := map (SysWrite (tino e)) w).
  set (s2 := apply_all W s1).
  assert (T1 : tmp_only e (SysCreate (tmp e) (tino e) true)) by (simpl; auto).
  assert (SO1 : same_off e s s1) by (apply same_off_step; [apply same_off_refl|exact T1]).
  assert (SO2 : same_off e s s2) by (apply same_off_all; [exact SO1|apply writes_tmp_only]).
  assert (I1 : inos s1 (tino e) = Some (mkI [] 384%N)) by (unfold s1; simpl; apply set_same).
  assert (I2 : inos s2 (tino e) = Some (mkI (concat w) 384%N)) by (unfold s2, W; rewrite (writes_inode e w s1 [] 384%N I1); reflexivity).
  assert (E1 : ents s1 (tmp e) = Some (EFile (tino e))) by (unfold s1; simpl; apply set_same).
  assert (St : stat_mode true s2 (path e) = Some m) by (unfold stat_mode; rewrite (read_same_off e s s2 old m WF SO2); reflexivity).
  cbn [exec exec1 ret err start fl_create fl_stat fl_chmod fl_close fl_remove fl_rename wr wr_ok
       emit emits set_err set_ret set_fi set_nodir nodir cur trace fi negb andb orb app].
  fold s1. fold W. fold s2.
  destruct wok.
  2:{ (* the write fails *)
      cbn. fold s1 W s2. destruct rm; cbn; fold s1 W s2.
      - split; [unfold s2, s1, apply_all; simpl; rewrite ?fold_left_app; reflexivity|]. split; [unfold W; tmpo|].
        split; [reflexivity|discriminate].
      - split; [unfold s2, s1, apply_all; simpl; rewrite ?fold_left_app; reflexivity|]. split; [unfold W; tmpo|].
        split; [reflexivity|]. intros _. simpl. apply set_same. }
  assert (IC : forall md, inos (apply1 (SysFchmod (tino e) md) s2) (tino e) = Some (mkI (concat w) md))
    by (intros md; simpl; rewrite I2; simpl; apply set_same).
  assert (E2 : ents s2 (tmp e) = Some (EFile (tino e))).
  { unfold s2, W. clear -E1. revert E1. generalize s1. induction w as [|x w IH]; intros s0 E; simpl; auto.
    apply IH. simpl. destruct (inos s0 (tino e)); simpl; auto. }
  assert (EC : forall md, ents (apply1 (SysFchmod (tino e) md) s2) (tmp e) = Some (EFile (tino e)))
    by (intros md; simpl; rewrite I2; simpl; exact E2).
  destruct st, ch, cl, rm, rn;
    cbn [exec exec1 ret err start fl_create fl_stat fl_chmod fl_close fl_remove fl_rename wr wr_ok
         emit emits set_err set_ret set_fi set_nodir nodir cur trace fi negb andb orb app];
    fold s1; fold W; fold s2; rewrite ?St;
    cbn [exec exec1 ret err start fl_create fl_stat fl_chmod fl_close fl_remove fl_rename wr wr_ok
         emit emits set_err set_ret set_fi set_nodir nodir cur trace fi negb andb orb app];
    (split; [unfold s2, s1, apply_all; simpl; rewrite ?fold_left_app; reflexivity|]).
  all: try (split; [unfold W; tmpo|split; [reflexivity|intros Hrm; try discriminate; simpl; apply set_same]]).
  all: match goal with |- exists A, SysCreate ?a ?b ?c :: ?l ++ [?r] = _ /\ _ => exists (SysCreate a b c :: l) end.
  all: split; [reflexivity|]; split; [unfold W; tmpo|]; split; [reflexivity|].
  all: unfold apply_all; simpl; rewrite ?fold_left_app; simpl;
       change (fold_left (fun s x => apply1 x s) W (apply1 (SysCreate (tmp e) (tino e) true) s)) with s2.
  all: try (split; [exact E2|exact I2]).
  all: try (split; [apply EC|apply IC]).
Qed.

Lemma Forall_firstn {A} (P : A -> Prop) k l : Forall P l -> Forall P (firstn k l).
Proof. revert l; induction k; intros [|x l] H; simpl; auto. inversion H; subst. constructor; auto. Qed.

Lemma firstn_snoc {A} k (l : list A) x : firstn k (l ++ [x]) = firstn k l \/ firstn k (l ++ [x]) = l ++ [x].
Proof.
  destruct (Nat.le_gt_cases k (length l)).
  - left. rewrite firstn_app. replace (k - length l) with 0 by lia. simpl. apply app_nil_r.
  - right. apply firstn_all2. rewrite app_length. simpl. lia.
Qed.

(* after the rename: path is the temporary file *)
Lemma read_after_rename e s c md : tmp e <> path e ->
  ents s (tmp e) = Some (EFile (tino e)) -> inos s (tino e) = Some (mkI c md) ->
  read (apply1 (SysRename (tmp e) (path e)) s) (path e) = Some (c, md).
Proof.
  intros Hne E I. unfold read, resolve. simpl. rewrite E. simpl. rewrite set_same. rewrite I. reflexivity.
Qed.

Definition new_mode (fl : faults) (m : N) : N := if fl_stat fl then 384%N else m.

Theorem crash_safe e fl s old m k : wf0 e s old m -> (wr_ok fl = true -> concat (wr fl) = target e) ->
  let s' := apply_all (firstn k (trace (mrun e fl s))) s in
  read s' (path e) = Some (old, m) \/
  (succeeds fl = true /\ length (trace (mrun e fl s)) <= k /\ read s' (path e) = Some (target e, new_mode fl m)).
Proof.
  intros WF Hw. destruct (run_shape e fl s old m WF) as [_ Sh]. fold (mrun e fl s) in Sh.
  destruct (succeeds fl) eqn:S.
  - destruct Sh as (A & Et & FA & _ & E & I). simpl. rewrite Et.
    destruct (firstn_snoc k A (SysRename (tmp e) (path e))) as [P|P]; rewrite P.
    + left. eapply read_same_off; eauto. apply same_off_all; [apply same_off_refl|]. now apply Forall_firstn.
    + right. split; [reflexivity|]. split.
      * destruct (Nat.le_gt_cases (length (A ++ [SysRename (tmp e) (path e)])) k); auto.
        exfalso. assert (length (firstn k (A ++ [SysRename (tmp e) (path e)])) = k) by (apply firstn_length_le; lia).
        rewrite P in H0. lia.
      * rewrite apply_all_app. simpl.
        assert (W : wr_ok fl = true).
        { unfold succeeds in S. destruct (fl_create fl), (wr_ok fl); simpl in S; auto; discriminate. }
        rewrite <- (Hw W). destruct WF as (_ & Hne & _). unfold new_mode. eapply read_after_rename; eauto.
  - destruct Sh as [F _]. left. simpl. eapply read_same_off; eauto.
    apply same_off_all; [apply same_off_refl|]. now apply Forall_firstn.
Qed.

(* the complete run: success keeps the mode (when Stat works), failure leaves the file alone *)
Theorem run_result e fl s old m : wf0 e s old m -> (wr_ok fl = true -> concat (wr fl) = target e) ->
  let r := mrun e fl s in
  if succeeds fl
  then err r = false /\ read (cur r) (path e) = Some (target e, new_mode fl m)
  else err r = true /\ read (cur r) (path e) = Some (old, m).
Proof.
  intros WF Hw. destruct (run_shape e fl s old m WF) as [C Sh]. fold (mrun e fl s) in Sh, C.
  pose proof (crash_safe e fl s old m (length (trace (mrun e fl s))) WF Hw) as CS. simpl in CS.
  rewrite firstn_all in CS. simpl. rewrite C.
  destruct (succeeds fl) eqn:S.
  - destruct Sh as (A & Et & FA & Er & E & I). split; auto.
    rewrite Et, apply_all_app. simpl.
    assert (W : wr_ok fl = true).
    { unfold succeeds in S. destruct (fl_create fl), (wr_ok fl); simpl in S; auto; discriminate. }
    rewrite <- (Hw W). destruct WF as (_ & Hne & _). unfold new_mode. eapply read_after_rename; eauto.
  - destruct Sh as [F Er]. split; auto. destruct CS as [CS|(X & _)]; [exact CS|discriminate].
Qed.

Theorem mode_kept e fl s old m : wf0 e s old m -> concat (wr fl) = target e -> succeeds fl = true -> fl_stat fl = false ->
  read (cur (mrun e fl s)) (path e) = Some (target e, m).
Proof.
  intros WF Hw S St. pose proof (run_result e fl s old m WF (fun _ => Hw)) as R. simpl in R.
  rewrite S in R. unfold new_mode in R. rewrite St in R. apply R.
Qed.

(* what the model says if os.Stat fails although the file is there: the mode is lost silently *)
Theorem mode_lost_if_stat_fails e fl s old m : wf0 e s old m -> concat (wr fl) = target e -> succeeds fl = true ->
  fl_stat fl = true -> read (cur (mrun e fl s)) (path e) = Some (target e, 384%N).
Proof.
  intros WF Hw S St. pose proof (run_result e fl s old m WF (fun _ => Hw)) as R. simpl in R.
  rewrite S in R. unfold new_mode in R. rewrite St in R. apply R.
Qed.

(* nothing but the path and the temporary name changes, at any crash point *)
Theorem others_untouched e fl s old m k n : wf0 e s old m -> n <> tmp e -> n <> path e ->
  ents (apply_all (firstn k (trace (mrun e fl s))) s) n = ents s n.
Proof.
  intros WF N1 N2. destruct (run_shape e fl s old m WF) as [_ Sh]. fold (mrun e fl s) in Sh.
  destruct (succeeds fl).
  - destruct Sh as (A & Et & FA & _). rewrite Et.
    destruct (firstn_snoc k A (SysRename (tmp e) (path e))) as [P|P]; rewrite P.
    + apply (same_off_all e (firstn k A) s s (same_off_refl e s) (Forall_firstn _ k A FA)); auto.
    + rewrite apply_all_app. simpl.
      pose proof (same_off_all e A s s (same_off_refl e s) FA) as [H1 _].
      destruct (ents (apply_all A s) (tmp e)); simpl; [|apply H1; auto].
      unfold set. destruct (N.eqb_spec n (path e)); [contradiction|]. destruct (N.eqb_spec n (tmp e)); [contradiction|].
      apply H1; auto.
  - destruct Sh as [F _]. apply (same_off_all e _ s s (same_off_refl e s) (Forall_firstn _ k _ F)); auto.
Qed.

(* ------------------------------------------------------------------ transport to the generated program *)
Lemma gen_is_model : gen_wfb = model_wfb.
Proof. vm_compute. reflexivity. Qed.

Lemma run_wfb_mrun : run_wfb = mrun.
Proof. unfold run_wfb, mrun. rewrite gen_is_model. reflexivity. Qed.

Lemma g_crash_safe e fl s old m k : wf0 e s old m -> (wr_ok fl = true -> concat (wr fl) = target e) ->
  read (crash_state e fl s k) (path e) = Some (old, m) \/
  (succeeds fl = true /\ length (trace (run_wfb e fl s)) <= k /\
   read (crash_state e fl s k) (path e) = Some (target e, new_mode fl m)).
Proof. unfold crash_state. rewrite run_wfb_mrun. apply crash_safe. Qed.

Lemma g_run_result e fl s old m : wf0 e s old m -> (wr_ok fl = true -> concat (wr fl) = target e) ->
  if succeeds fl
  then err (run_wfb e fl s) = false /\ read (cur (run_wfb e fl s)) (path e) = Some (target e, new_mode fl m)
  else err (run_wfb e fl s) = true /\ read (cur (run_wfb e fl s)) (path e) = Some (old, m).
Proof. rewrite run_wfb_mrun. apply run_result. Qed.

Lemma g_mode_kept e fl s old m : wf0 e s old m -> concat (wr fl) = target e -> succeeds fl = true -> fl_stat fl = false ->
  read (cur (run_wfb e fl s)) (path e) = Some (target e, m).
Proof. rewrite run_wfb_mrun. apply mode_kept. Qed.

Lemma g_mode_lost_if_stat_fails e fl s old m : wf0 e s old m -> concat (wr fl) = target e -> succeeds fl = true ->
  fl_stat fl = true -> read (cur (run_wfb e fl s)) (path e) = Some (target e, 384%N).
Proof. rewrite run_wfb_mrun. apply mode_lost_if_stat_fails. Qed.

Lemma g_others_untouched e fl s old m k n : wf0 e s old m -> n <> tmp e -> n <> path e ->
  ents (crash_state e fl s k) n = ents s n.
Proof. unfold crash_state. rewrite run_wfb_mrun. apply others_untouched. Qed.
