(* C26 — crash safety and mode preservation of writeFileWithBackup over the file-system model. *)
From Coq Require Import List NArith Bool Arith Lia.
Import ListNotations.
From V Require Import Base.C26Ops Gen.FmtOps Model.C26.

Lemma set_same {A} (f : N -> option A) k v : set f k v k = v.
Proof. unfold set. now rewrite N.eqb_refl. Qed.
Lemma set_other {A} (f : N -> option A) k v x : x <> k -> set f k v x = f x.
Proof. unfold set. intros H. destruct (N.eqb_spec x k); [contradiction|reflexivity]. Qed.

Lemma apply_all_app l1 l2 s : apply_all (l1 ++ l2) s = apply_all l2 (apply_all l1 s).
Proof. unfold apply_all. apply fold_left_app. Qed.

Section One.
Variable e : env.

(* calls that only touch the temporary name / the temporary inode *)
Definition tmp_only (x : sys) : Prop :=
  match x with
  | SysCreate n i sd => n = tmp e /\ i = tino e /\ sd = true
  | SysWrite i _ | SysFchmod i _ => i = tino e
  | SysClose _ => True
  | SysUnlink n => n = tmp e
  | SysRename _ _ => False
  | SysStat _ _ => True
  end.

Definition same_off (s s' : fs) : Prop :=
  (forall n, n <> tmp e -> ents s' n = ents s n) /\ (forall i, i <> tino e -> inos s' i = inos s i).

Lemma same_off_refl s : same_off s s.
Proof. split; auto. Qed.

Lemma same_off_step s s' x : same_off s s' -> tmp_only x -> same_off s (apply1 x s').
Proof.
  intros [H1 H2] T. destruct x; simpl in *.
  - destruct T as (-> & -> & _). split; intros; simpl; rewrite set_other by auto; auto.
  - subst i. destruct (inos s' (tino e)); [|split; auto]. split; intros; simpl; auto. rewrite set_other by auto; auto.
  - subst i. destruct (inos s' (tino e)); [|split; auto]. split; intros; simpl; auto. rewrite set_other by auto; auto.
  - split; auto.
  - subst n. split; intros; simpl; auto. rewrite set_other by auto; auto.
  - contradiction.
  - split; auto.
Qed.

Lemma same_off_all l : forall s s', same_off s s' -> Forall tmp_only l -> same_off s (apply_all l s').
Proof.
  induction l as [|x l IH]; intros s s' H F; simpl; auto.
  inversion F; subst. apply IH; auto. now apply same_off_step.
Qed.

(* the situation before the call: path leads to a file with content old and mode m; the temporary
   name and inode are fresh (os.CreateTemp: O_EXCL, random suffix) *)
Definition wf0 (s : fs) (old : list N) (m : N) : Prop :=
  read s (path e) = Some (old, m) /\ tmp e <> path e /\ ents s (tmp e) = None /\ inos s (tino e) = None.

Lemma read_same_off s s' old m : wf0 s old m -> same_off s s' -> read s' (path e) = Some (old, m).
Proof.
  intros (R & Hne & Ht & Hi) [H1 H2]. unfold read, resolve in *.
  rewrite H1 by auto. destruct (ents s (path e)) as [[i|t]|] eqn:E; try discriminate.
  - assert (i <> tino e) by (intros ->; rewrite Hi in R; discriminate). rewrite H2 by auto. exact R.
  - assert (t <> tmp e) by (intros ->; rewrite Ht in R; discriminate). rewrite H1 by auto.
    destruct (ents s t) as [[i|]|]; try discriminate.
    assert (i <> tino e) by (intros ->; rewrite Hi in R; discriminate). rewrite H2 by auto. exact R.
Qed.

(* the temporary inode after create + writes *)
Lemma writes_inode ws : forall s c md, inos s (tino e) = Some (mkI c md) ->
  inos (apply_all (map (SysWrite (tino e)) ws) s) (tino e) = Some (mkI (c ++ concat ws) md).
Proof.
  induction ws as [|w ws IH]; intros s c md H; simpl.
  - now rewrite app_nil_r.
  - rewrite (IH _ (c ++ w) md); [now rewrite app_assoc|]. rewrite H. simpl. apply set_same.
Qed.

Lemma writes_tmp_only ws : Forall tmp_only (map (SysWrite (tino e)) ws).
Proof. induction ws; simpl; constructor; simpl; auto. Qed.

End One.
Definition mrun (e : env) (fl : faults) (s : fs) : mstate := exec e fl model_wfb (start s).

(* every call succeeds as far as the rename needs it *)
Definition succeeds (fl : faults) : bool :=
  negb (fl_create fl) && wr_ok fl && (fl_stat fl || negb (fl_chmod fl)) && negb (fl_close fl) && negb (fl_rename fl).

Ltac tmpo := repeat match goal with
  | |- Forall _ (_ ++ _) => apply Forall_app; split
  | |- Forall _ (map (SysWrite _) _) => apply writes_tmp_only
  | |- Forall _ (_ :: _) => constructor; [simpl; auto|]
  | |- Forall _ [] => constructor
  end.

Lemma exec_cons e fl x t m : exec e fl (x :: t) m = if ret m then m else exec e fl t (exec1 e fl x m).
Proof. reflexivity. Qed.
Lemma exec_cons' e fl x t m : ret m = false -> exec e fl (x :: t) m = exec e fl t (exec1 e fl x m).
Proof. intros H. simpl. now rewrite H. Qed.
Lemma exec_ret e fl l m : ret m = true -> exec e fl l m = m.
Proof. intros H. destruct l; simpl; auto. now rewrite H. Qed.
Lemma exec_cons_mk e fl x t c er f tr nd :
  exec e fl (x :: t) (mkM c er f false tr nd) = exec e fl t (exec1 e fl x (mkM c er f false tr nd)).
Proof. reflexivity. Qed.
Lemma exec_ret_mk e fl l c er f tr nd : exec e fl l (mkM c er f true tr nd) = mkM c er f true tr nd.
Proof. destruct l; reflexivity. Qed.
Lemma exec_nil e fl m : exec e fl [] m = m.
Proof. reflexivity. Qed.


(* one-step unfolding equations (so that the symbolic execution below is a chain of rewrites) *)
Section Unfold.
Variables (e : env) (fl : faults).
Lemma seq_exec b : forall m,
  (fix seq (l : list fstmt) (m : mstate) : mstate :=
     match l with [] => m | x :: t => if ret m then m else seq t (exec1 e fl x m) end) b m = exec e fl b m.
Proof. induction b as [|x t IH]; intros m; simpl; [reflexivity|]. destruct (ret m); [reflexivity|apply IH]. Qed.
Lemma u_split m : exec1 e fl SSplitPath m = set_nodir m (bare e). Proof. reflexivity. Qed.
Lemma u_dirdot m : exec1 e fl SDirDot m = set_nodir m false. Proof. reflexivity. Qed.
Lemma u_create m : exec1 e fl SCreateTemp m =
  if fl_create fl then set_err m true else emit m (SysCreate (tmp e) (tino e) (negb (nodir m))). Proof. reflexivity. Qed.
Lemma u_retiferr m : exec1 e fl SRetIfErr m = if err m then set_ret m else m. Proof. reflexivity. Qed.
Lemma u_tmpname m : exec1 e fl STmpName m = m. Proof. reflexivity. Qed.
Lemma u_write m : exec1 e fl SWrite m = set_err (emits m (map (SysWrite (tino e)) (wr fl))) (negb (wr_ok fl)). Proof. reflexivity. Qed.
Lemma u_ifnoerr b m : exec1 e fl (SIfNoErr b) m = if err m then m else exec e fl b m.
Proof. simpl. destruct (err m); auto; try apply seq_exec. Qed.
Lemma u_ifstat f b m : exec1 e fl (SIfStat f b) m =
  if fl_stat fl then m else match stat_mode f (cur m) (path e) with
                            | Some md => exec e fl b (set_fi (emit m (SysStat f (path e))) (Some md)) | None => m end.
Proof. simpl. destruct (fl_stat fl); auto; try (destruct (stat_mode f (cur m) (path e)); auto; try apply seq_exec). Qed.
Lemma u_chmod m : exec1 e fl SChmodStat m =
  match fi m with Some md => if fl_chmod fl then set_err m true else emit m (SysFchmod (tino e) md) | None => set_err m true end.
Proof. reflexivity. Qed.
Lemma u_close m : exec1 e fl SCloseKeepErr m =
  if err m then emit m (SysClose (tino e)) else set_err (emit m (SysClose (tino e))) (fl_close fl). Proof. reflexivity. Qed.
Lemma u_iferr b m : exec1 e fl (SIfErr b) m = if err m then exec e fl b m else m.
Proof. simpl. destruct (err m); auto; try apply seq_exec. Qed.
Lemma u_removetmp m : exec1 e fl SRemoveTmp m = if fl_remove fl then m else emit m (SysUnlink (tmp e)). Proof. reflexivity. Qed.
Lemma u_return m : exec1 e fl SReturn m = set_ret m. Proof. reflexivity. Qed.
Lemma u_renameelse b m : exec1 e fl (SRenameElse b) m =
  if fl_rename fl then exec e fl b (set_err m true) else emit m (SysRename (tmp e) (path e)).
Proof. simpl. destruct (fl_rename fl); auto; try apply seq_exec. Qed.
Lemma k_emit c er f r t nd x : emit (mkM c er f r t nd) x = mkM (apply1 x c) er f r (t ++ [x]) nd. Proof. reflexivity. Qed.
Lemma k_emits c er f r t nd l : emits (mkM c er f r t nd) l = mkM (apply_all l c) er f r (t ++ l) nd. Proof. reflexivity. Qed.
Lemma k_err c er f r t nd b : set_err (mkM c er f r t nd) b = mkM c b f r t nd. Proof. reflexivity. Qed.
Lemma k_ret c er f r t nd : set_ret (mkM c er f r t nd) = mkM c er f true t nd. Proof. reflexivity. Qed.
Lemma k_fi c er f r t nd v : set_fi (mkM c er f r t nd) v = mkM c er v r t nd. Proof. reflexivity. Qed.
Lemma k_nodir c er f r t nd b : set_nodir (mkM c er f r t nd) b = mkM c er f r t b. Proof. reflexivity. Qed.
Lemma p_err c er f r t nd : err (mkM c er f r t nd) = er. Proof. reflexivity. Qed.
Lemma p_ret c er f r t nd : ret (mkM c er f r t nd) = r. Proof. reflexivity. Qed.
Lemma p_fi c er f r t nd : fi (mkM c er f r t nd) = f. Proof. reflexivity. Qed.
Lemma p_cur c er f r t nd : cur (mkM c er f r t nd) = c. Proof. reflexivity. Qed.
Lemma p_trace c er f r t nd : trace (mkM c er f r t nd) = t. Proof. reflexivity. Qed.
Lemma p_nodir c er f r t nd : nodir (mkM c er f r t nd) = nd. Proof. reflexivity. Qed.
End Unfold.

Ltac norm := repeat (rewrite ?u_split, ?u_dirdot, ?u_create, ?u_retiferr, ?u_tmpname, ?u_write,
                   ?u_ifnoerr, ?u_ifstat, ?u_chmod, ?u_close, ?u_iferr, ?u_removetmp, ?u_return, ?u_renameelse,
                   ?k_emit, ?k_emits, ?k_err, ?k_ret, ?k_fi, ?k_nodir, ?p_err, ?p_ret, ?p_fi, ?p_cur, ?p_trace, ?p_nodir;
                   cbv beta iota delta [negb fl_create wr wr_ok fl_stat fl_chmod fl_close fl_remove fl_rename]).
Ltac sx := norm; first [ rewrite exec_nil | rewrite exec_ret by reflexivity | rewrite exec_cons' by reflexivity ]; norm.

(* the run, made explicit: which calls are made and whether an error is reported, by fault pattern *)
Definition plan (e : env) (fl : faults) (m : N) : list sys * bool :=
  if fl_create fl then ([], true) else
  let pre := SysCreate (tmp e) (tino e) true :: map (SysWrite (tino e)) (wr fl) in
  let cleanup := if fl_remove fl then [] else [SysUnlink (tmp e)] in
  if negb (wr_ok fl) then (pre ++ [SysClose (tino e)] ++ cleanup, true) else
  if fl_stat fl then
    (if fl_close fl then (pre ++ [SysClose (tino e)] ++ cleanup, true)
     else if fl_rename fl then (pre ++ [SysClose (tino e)] ++ cleanup, true)
     else (pre ++ [SysClose (tino e); SysRename (tmp e) (path e)], false))
  else if fl_chmod fl then (pre ++ [SysStat true (path e); SysClose (tino e)] ++ cleanup, true)
  else
    (if fl_close fl then (pre ++ [SysStat true (path e); SysFchmod (tino e) m; SysClose (tino e)] ++ cleanup, true)
     else if fl_rename fl then (pre ++ [SysStat true (path e); SysFchmod (tino e) m; SysClose (tino e)] ++ cleanup, true)
     else (pre ++ [SysStat true (path e); SysFchmod (tino e) m; SysClose (tino e); SysRename (tmp e) (path e)], false)).

Lemma mrun_plan e fl s old m : wf0 e s old m ->
  trace (mrun e fl s) = fst (plan e fl m) /\ err (mrun e fl s) = snd (plan e fl m) /\
  cur (mrun e fl s) = apply_all (trace (mrun e fl s)) s.
Proof.
  intros WF. pose proof WF as (R & Hne & Ht & Hi).
  destruct fl as [c w wok st ch cl rm rn]. unfold mrun, model_wfb, plan, start.
  cbn [fl_create wr wr_ok fl_stat fl_chmod fl_close fl_remove fl_rename].
  set (s1 := apply1 (SysCreate (tmp e) (tino e) true) s).
  set (W := map (SysWrite (tino e)) w).
  set (s2 := apply_all W s1).
  assert (SO1 : same_off e s s1) by (apply same_off_step; [apply same_off_refl|simpl; auto]).
  assert (SO2 : same_off e s s2) by (apply same_off_all; [exact SO1|apply writes_tmp_only]).
  assert (St : stat_mode true s2 (path e) = Some m) by (unfold stat_mode; rewrite (read_same_off e s s2 old m WF SO2); reflexivity).

  Ltac leaf s1 W s2 St :=
    repeat (progress (norm; try fold s1; try fold W; try fold s2; rewrite ?St; norm;
                      try first [ rewrite exec_nil | rewrite exec_ret_mk | rewrite exec_cons_mk ]));
    cbv beta iota delta [fst snd negb];
    (split; [unfold W; simpl; rewrite <- ?app_assoc; simpl; reflexivity|]);
    (split; [reflexivity|]);
    unfold s2, s1, W, apply_all; simpl; rewrite ?fold_left_app; reflexivity.
  destruct c; [leaf s1 W s2 St|].
  destruct wok; [|destruct rm; leaf s1 W s2 St].
  destruct st.
  - destruct cl; [destruct rm; leaf s1 W s2 St|]. destruct rn; [destruct rm; leaf s1 W s2 St|leaf s1 W s2 St].
  - destruct ch; [destruct rm; leaf s1 W s2 St|].
    destruct cl; [destruct rm; leaf s1 W s2 St|]. destruct rn; [destruct rm; leaf s1 W s2 St|leaf s1 W s2 St].
Qed.

Lemma run_shape e fl s old m : wf0 e s old m ->
  let r := mrun e fl s in
  cur r = apply_all (trace r) s /\
  if succeeds fl
  then exists A, trace r = A ++ [SysRename (tmp e) (path e)] /\ Forall (tmp_only e) A /\ err r = false /\
                 ents (apply_all A s) (tmp e) = Some (EFile (tino e)) /\
                 inos (apply_all A s) (tino e) = Some (mkI (concat (wr fl)) (if fl_stat fl then 384%N else m))
  else Forall (tmp_only e) (trace r) /\ err r = true /\ (fl_remove fl = false -> ents (cur r) (tmp e) = None).
Proof.
  intros WF. pose proof WF as (R & Hne & Ht & Hi).
  destruct (mrun_plan e fl s old m WF) as (Tr & Er & Cu). cbv zeta. split; [exact Cu|].
  rewrite Cu, Tr, Er. clear Tr Er Cu.
  destruct fl as [c w wok st ch cl rm rn]. unfold plan, succeeds.
  cbn [fl_create wr wr_ok fl_stat fl_chmod fl_close fl_remove fl_rename].
  destruct c.
  { cbn. split; [constructor|]. split; [reflexivity|]. intros _. exact Ht. }
  set (s1 := apply1 (SysCreate (tmp e) (tino e) true) s).
  set (W := map (SysWrite (tino e)) w).
  set (s2 := apply_all W s1).
  assert (I1 : inos s1 (tino e) = Some (mkI [] 384%N)) by (unfold s1; simpl; apply set_same).
  assert (I2 : inos s2 (tino e) = Some (mkI (concat w) 384%N)) by (unfold s2, W; rewrite (writes_inode e w s1 [] 384%N I1); reflexivity).
  assert (E1 : ents s1 (tmp e) = Some (EFile (tino e))) by (unfold s1; simpl; apply set_same).
  assert (E2 : ents s2 (tmp e) = Some (EFile (tino e))).
  { unfold s2, W. clear -E1. revert E1. generalize s1. induction w as [|x w IH]; intros s0 E; simpl; auto.
    apply IH. simpl. destruct (inos s0 (tino e)); simpl; auto. }
  assert (PRE : forall X, apply_all ((SysCreate (tmp e) (tino e) true :: W) ++ X) s = apply_all X s2)
    by (intros X; rewrite apply_all_app; reflexivity).
  (* a failing run: only the temporary file was touched, the error is reported, the temporary name is gone *)
  assert (FAIL : forall X cleanup, Forall (tmp_only e) X -> (cleanup = [] /\ rm = true \/ cleanup = [SysUnlink (tmp e)]) ->
            Forall (tmp_only e) ((SysCreate (tmp e) (tino e) true :: W) ++ X ++ cleanup) /\ true = true /\
            (rm = false -> ents (apply_all ((SysCreate (tmp e) (tino e) true :: W) ++ X ++ cleanup) s) (tmp e) = None)).
  { intros X cleanup FX [[-> ->]| ->].
    - split; [|split; [reflexivity|discriminate]]. rewrite app_nil_r. unfold W. tmpo. exact FX.
    - split; [|split; [reflexivity|]].
      + unfold W. tmpo; auto.
      + intros _. rewrite PRE, apply_all_app. simpl. apply set_same. }
  assert (CL : rm = true /\ (if rm then [] else [SysUnlink (tmp e)]) = [] \/ (if rm then [] else [SysUnlink (tmp e)]) = [SysUnlink (tmp e)])
    by (destruct rm; auto).
  assert (CL' : (if rm then [] else [SysUnlink (tmp e)]) = [] /\ rm = true \/ (if rm then [] else [SysUnlink (tmp e)]) = [SysUnlink (tmp e)])
    by (destruct rm; auto).
  destruct wok; cbn [negb andb orb].
  2:{ apply (FAIL [SysClose (tino e)]); [tmpo|exact CL']. }
  destruct st; cbn [negb andb orb].
  - destruct cl; cbn [negb andb orb]; [apply (FAIL [SysClose (tino e)]); [tmpo|exact CL']|].
    destruct rn; cbn [negb andb orb]; [apply (FAIL [SysClose (tino e)]); [tmpo|exact CL']|].
    exists ((SysCreate (tmp e) (tino e) true :: W) ++ [SysClose (tino e)]).
    split; [rewrite <- app_assoc; reflexivity|]. split; [unfold W; tmpo|]. split; [reflexivity|].
    rewrite PRE. simpl. split; [exact E2|exact I2].
  - destruct ch; cbn [negb andb orb]; [apply (FAIL [SysStat true (path e); SysClose (tino e)]); [tmpo|exact CL']|].
    destruct cl; cbn [negb andb orb];
      [apply (FAIL [SysStat true (path e); SysFchmod (tino e) m; SysClose (tino e)]); [tmpo|exact CL']|].
    destruct rn; cbn [negb andb orb];
      [apply (FAIL [SysStat true (path e); SysFchmod (tino e) m; SysClose (tino e)]); [tmpo|exact CL']|].
    exists ((SysCreate (tmp e) (tino e) true :: W) ++ [SysStat true (path e); SysFchmod (tino e) m; SysClose (tino e)]).
    split; [rewrite <- app_assoc; reflexivity|]. split; [unfold W; tmpo|]. split; [reflexivity|].
    rewrite PRE. simpl. rewrite I2. simpl. split; [exact E2|apply set_same].
Qed.

Lemma Forall_firstn {A} (P : A -> Prop) k l : Forall P l -> Forall P (firstn k l).
Proof. revert l; induction k; intros [|x l] H; simpl; auto. inversion H; subst. constructor; auto. Qed.

Lemma firstn_snoc {A} k (l : list A) x : firstn k (l ++ [x]) = firstn k l \/ firstn k (l ++ [x]) = l ++ [x].
Proof.
  destruct (Nat.le_gt_cases k (length l)).
  - left. rewrite firstn_app. replace (k - length l) with 0 by lia. simpl. apply app_nil_r.
  - right. apply firstn_all2. rewrite app_length. simpl. lia.
Qed.

(* after the rename: path is the temporary file *)
Lemma read_after_rename e s c md : tmp e <> path e ->
  ents s (tmp e) = Some (EFile (tino e)) -> inos s (tino e) = Some (mkI c md) ->
  read (apply1 (SysRename (tmp e) (path e)) s) (path e) = Some (c, md).
Proof.
  intros Hne E I. unfold read, resolve. simpl. rewrite E. simpl. rewrite set_same. rewrite I. reflexivity.
Qed.

Definition new_mode (fl : faults) (m : N) : N := if fl_stat fl then 384%N else m.

Theorem crash_safe e fl s old m k : wf0 e s old m -> (wr_ok fl = true -> concat (wr fl) = target e) ->
  let s' := apply_all (firstn k (trace (mrun e fl s))) s in
  read s' (path e) = Some (old, m) \/
  (succeeds fl = true /\ length (trace (mrun e fl s)) <= k /\ read s' (path e) = Some (target e, new_mode fl m)).
Proof.
  intros WF Hw. destruct (run_shape e fl s old m WF) as [_ Sh]. fold (mrun e fl s) in Sh.
  destruct (succeeds fl) eqn:S.
  - destruct Sh as (A & Et & FA & _ & E & I). simpl. rewrite Et.
    destruct (firstn_snoc k A (SysRename (tmp e) (path e))) as [P|P]; rewrite P.
    + left. eapply read_same_off; eauto. apply same_off_all; [apply same_off_refl|]. now apply Forall_firstn.
    + right. split; [reflexivity|]. split.
      * destruct (Nat.le_gt_cases (length (A ++ [SysRename (tmp e) (path e)])) k); auto.
        exfalso. assert (length (firstn k (A ++ [SysRename (tmp e) (path e)])) = k) by (apply firstn_length_le; lia).
        rewrite P in H0. lia.
      * rewrite apply_all_app. simpl.
        assert (W : wr_ok fl = true).
        { unfold succeeds in S. destruct (fl_create fl), (wr_ok fl); simpl in S; auto; discriminate. }
        rewrite <- (Hw W). destruct WF as (_ & Hne & _). unfold new_mode. eapply read_after_rename; eauto.
  - destruct Sh as [F _]. left. simpl. eapply read_same_off; eauto.
    apply same_off_all; [apply same_off_refl|]. now apply Forall_firstn.
Qed.

(* the complete run: success keeps the mode (when Stat works), failure leaves the file alone *)
Theorem run_result e fl s old m : wf0 e s old m -> (wr_ok fl = true -> concat (wr fl) = target e) ->
  let r := mrun e fl s in
  if succeeds fl
  then err r = false /\ read (cur r) (path e) = Some (target e, new_mode fl m)
  else err r = true /\ read (cur r) (path e) = Some (old, m).
Proof.
  intros WF Hw. destruct (run_shape e fl s old m WF) as [C Sh]. fold (mrun e fl s) in Sh, C.
  pose proof (crash_safe e fl s old m (length (trace (mrun e fl s))) WF Hw) as CS. simpl in CS.
  rewrite firstn_all in CS. simpl. rewrite C.
  destruct (succeeds fl) eqn:S.
  - destruct Sh as (A & Et & FA & Er & E & I). split; auto.
    rewrite Et, apply_all_app. simpl.
    assert (W : wr_ok fl = true).
    { unfold succeeds in S. destruct (fl_create fl), (wr_ok fl); simpl in S; auto; discriminate. }
    rewrite <- (Hw W). destruct WF as (_ & Hne & _). unfold new_mode. eapply read_after_rename; eauto.
  - destruct Sh as (F & Er & _). split; auto. destruct CS as [CS|(X & _)]; [exact CS|discriminate].
Qed.

Theorem mode_kept e fl s old m : wf0 e s old m -> concat (wr fl) = target e -> succeeds fl = true -> fl_stat fl = false ->
  read (cur (mrun e fl s)) (path e) = Some (target e, m).
Proof.
  intros WF Hw S St. pose proof (run_result e fl s old m WF (fun _ => Hw)) as R. simpl in R.
  rewrite S in R. unfold new_mode in R. rewrite St in R. apply R.
Qed.

(* what the model says if os.Stat fails although the file is there: the mode is lost silently *)
Theorem mode_lost_if_stat_fails e fl s old m : wf0 e s old m -> concat (wr fl) = target e -> succeeds fl = true ->
  fl_stat fl = true -> read (cur (mrun e fl s)) (path e) = Some (target e, 384%N).
Proof.
  intros WF Hw S St. pose proof (run_result e fl s old m WF (fun _ => Hw)) as R. simpl in R.
  rewrite S in R. unfold new_mode in R. rewrite St in R. apply R.
Qed.

(* a run that reports an error leaves no temporary file behind (unless os.Remove itself fails); in particular
   when only the rename fails *)
Theorem no_temp_left_on_failure e fl s old m : wf0 e s old m -> succeeds fl = false -> fl_remove fl = false ->
  ents (cur (mrun e fl s)) (tmp e) = None.
Proof.
  intros WF S Rm. destruct (run_shape e fl s old m WF) as [_ Sh]. fold (mrun e fl s) in Sh.
  rewrite S in Sh. destruct Sh as (_ & _ & H). auto.
Qed.

Theorem no_temp_left_on_rename_failure e fl s old m : wf0 e s old m -> fl_rename fl = true -> fl_remove fl = false ->
  err (mrun e fl s) = true /\ ents (cur (mrun e fl s)) (tmp e) = None /\ read (cur (mrun e fl s)) (path e) = Some (old, m).
Proof.
  intros WF Rn Rm.
  assert (S : succeeds fl = false) by (unfold succeeds; rewrite Rn; simpl; apply andb_false_r).
  pose proof (run_shape e fl s old m WF) as [Cu Sh]. fold (mrun e fl s) in Sh, Cu. rewrite S in Sh.
  destruct Sh as (F & Er & H). split; [exact Er|]. split; [auto|].
  rewrite Cu. eapply read_same_off; eauto. apply same_off_all; [apply same_off_refl|exact F].
Qed.

(* the temporary file is always created next to the path (never in os.TempDir()) *)
Theorem temp_next_to_file e fl s old m n i sd : wf0 e s old m -> In (SysCreate n i sd) (trace (mrun e fl s)) -> sd = true.
Proof.
  intros WF H. destruct (run_shape e fl s old m WF) as [_ Sh]. fold (mrun e fl s) in Sh.
  assert (T : forall l, Forall (tmp_only e) l -> In (SysCreate n i sd) l -> sd = true).
  { intros l F Hin. rewrite Forall_forall in F. apply F in Hin. simpl in Hin. tauto. }
  destruct (succeeds fl).
  - destruct Sh as (A & Et & FA & _). rewrite Et in H. apply in_app_or in H as [H|[H|[]]]; [eauto|discriminate].
  - destruct Sh as (F & _). eauto.
Qed.

(* nothing but the path and the temporary name changes, at any crash point *)
Theorem others_untouched e fl s old m k n : wf0 e s old m -> n <> tmp e -> n <> path e ->
  ents (apply_all (firstn k (trace (mrun e fl s))) s) n = ents s n.
Proof.
  intros WF N1 N2. destruct (run_shape e fl s old m WF) as [_ Sh]. fold (mrun e fl s) in Sh.
  destruct (succeeds fl).
  - destruct Sh as (A & Et & FA & _). rewrite Et.
    destruct (firstn_snoc k A (SysRename (tmp e) (path e))) as [P|P]; rewrite P.
    + apply (same_off_all e (firstn k A) s s (same_off_refl e s) (Forall_firstn _ k A FA)); auto.
    + rewrite apply_all_app. simpl.
      pose proof (same_off_all e A s s (same_off_refl e s) FA) as [H1 _].
      destruct (ents (apply_all A s) (tmp e)); simpl; [|apply H1; auto].
      unfold set. destruct (N.eqb_spec n (path e)); [contradiction|]. destruct (N.eqb_spec n (tmp e)); [contradiction|].
      apply H1; auto.
  - destruct Sh as [F _]. apply (same_off_all e _ s s (same_off_refl e s) (Forall_firstn _ k _ F)); auto.
Qed.

(* ------------------------------------------------------------------ transport to the generated program *)
Lemma gen_is_model : gen_wfb = model_wfb.
Proof. vm_compute. reflexivity. Qed.

Lemma run_wfb_mrun : run_wfb = mrun.
Proof. unfold run_wfb, mrun. rewrite gen_is_model. reflexivity. Qed.

Lemma g_crash_safe e fl s old m k : wf0 e s old m -> (wr_ok fl = true -> concat (wr fl) = target e) ->
  read (crash_state e fl s k) (path e) = Some (old, m) \/
  (succeeds fl = true /\ length (trace (run_wfb e fl s)) <= k /\
   read (crash_state e fl s k) (path e) = Some (target e, new_mode fl m)).
Proof. unfold crash_state. rewrite run_wfb_mrun. apply crash_safe. Qed.

Lemma g_run_result e fl s old m : wf0 e s old m -> (wr_ok fl = true -> concat (wr fl) = target e) ->
  if succeeds fl
  then err (run_wfb e fl s) = false /\ read (cur (run_wfb e fl s)) (path e) = Some (target e, new_mode fl m)
  else err (run_wfb e fl s) = true /\ read (cur (run_wfb e fl s)) (path e) = Some (old, m).
Proof. rewrite run_wfb_mrun. apply run_result. Qed.

Lemma g_mode_kept e fl s old m : wf0 e s old m -> concat (wr fl) = target e -> succeeds fl = true -> fl_stat fl = false ->
  read (cur (run_wfb e fl s)) (path e) = Some (target e, m).
Proof. rewrite run_wfb_mrun. apply mode_kept. Qed.

Lemma g_mode_lost_if_stat_fails e fl s old m : wf0 e s old m -> concat (wr fl) = target e -> succeeds fl = true ->
  fl_stat fl = true -> read (cur (run_wfb e fl s)) (path e) = Some (target e, 384%N).
Proof. rewrite run_wfb_mrun. apply mode_lost_if_stat_fails. Qed.

Lemma g_others_untouched e fl s old m k n : wf0 e s old m -> n <> tmp e -> n <> path e ->
  ents (crash_state e fl s k) n = ents s n.
Proof. unfold crash_state. rewrite run_wfb_mrun. apply others_untouched. Qed.

Lemma g_no_temp_left_on_failure e fl s old m : wf0 e s old m -> succeeds fl = false -> fl_remove fl = false ->
  ents (cur (run_wfb e fl s)) (tmp e) = None.
Proof. rewrite run_wfb_mrun. apply no_temp_left_on_failure. Qed.

Lemma g_no_temp_left_on_rename_failure e fl s old m : wf0 e s old m -> fl_rename fl = true -> fl_remove fl = false ->
  err (run_wfb e fl s) = true /\ ents (cur (run_wfb e fl s)) (tmp e) = None /\
  read (cur (run_wfb e fl s)) (path e) = Some (old, m).
Proof. rewrite run_wfb_mrun. apply no_temp_left_on_rename_failure. Qed.

Lemma g_temp_next_to_file e fl s old m n i sd : wf0 e s old m ->
  In (SysCreate n i sd) (trace (run_wfb e fl s)) -> sd = true.
Proof. rewrite run_wfb_mrun. apply temp_next_to_file. Qed.
