(* Proofs about the directory-parsing model (Model/C34.v). *)
From Coq Require Import List NArith ZArith Lia Bool.
Import ListNotations.
From V Require Import Base.Prelude Model.C34.
Open Scope N_scope.

Lemma str_eqb_refl a : str_eqb a a = true.
Proof. apply str_eqb_eq. reflexivity. Qed.
Lemma str_eqb_neq a b : a <> b -> str_eqb a b = false.
Proof. intros H. destruct (str_eqb a b) eqn:E; [apply str_eqb_eq in E; contradiction|reflexivity]. Qed.
Lemma str_eqb_false a b : str_eqb a b = false -> a <> b.
Proof. intros H E. subst. rewrite str_eqb_refl in H. discriminate. Qed.

(* ------------------------------------------------------------------ the documented file kinds *)
Definition other_ext (n : str) : Prop :=
  path_ext n <> ext_xgo /\ path_ext n <> ext_gop /\ path_ext n <> ext_go.

Inductive file_kind (c : config) (n : str) : kind -> Prop :=
| FK_xgo : path_ext n = ext_xgo \/ path_ext n = ext_gop -> file_kind c n (KX false false false)
| FK_go : path_ext n = ext_go -> has_prefix autogen_prefix n = false -> c_go_as_x c = false -> file_kind c n KGo
| FK_go_as_x : path_ext n = ext_go -> has_prefix autogen_prefix n = false -> c_go_as_x c = true ->
               file_kind c n (KX false false false)
| FK_class p : other_ext n -> c_ck c n = (p, true) -> file_kind c n (KX p true false)
| FK_gox p : path_ext n = ext_gox -> c_ck c n = (p, false) -> file_kind c n (KX p true true).

Theorem classify_spec c n k : classify c n = Some k <-> file_kind c n k.
Proof.
  unfold classify. split.
  - intros H.
    destruct (str_eqb (path_ext n) ext_xgo) eqn:E1; cbn [orb] in H.
    { injection H as <-. apply FK_xgo. left. apply str_eqb_eq. assumption. }
    destruct (str_eqb (path_ext n) ext_gop) eqn:E2.
    { injection H as <-. apply FK_xgo. right. apply str_eqb_eq. assumption. }
    destruct (str_eqb (path_ext n) ext_go) eqn:E3.
    { apply str_eqb_eq in E3. destruct (has_prefix autogen_prefix n) eqn:A; [discriminate|].
      destruct (c_go_as_x c) eqn:G; injection H as <-; [apply FK_go_as_x|apply FK_go]; assumption. }
    apply str_eqb_false in E1, E2, E3.
    destruct (c_ck c n) as [p cl] eqn:CK. destruct cl.
    { injection H as <-. apply FK_class; [repeat split; assumption|assumption]. }
    destruct (str_eqb (path_ext n) ext_gox) eqn:E4; [|discriminate].
    injection H as <-. apply FK_gox; [apply str_eqb_eq; assumption|assumption].
  - intros H. destruct H as [[E|E]|E A G|E A G|p (N1 & N2 & N3) CK|p E CK].
    + rewrite E. reflexivity.
    + rewrite E. reflexivity.
    + rewrite E, A, G. reflexivity.
    + rewrite E, A, G. reflexivity.
    + rewrite (str_eqb_neq _ _ N1), (str_eqb_neq _ _ N2), (str_eqb_neq _ _ N3), CK. reflexivity.
    + rewrite E, CK. reflexivity.
Qed.

Theorem file_kind_functional c n k1 k2 : file_kind c n k1 -> file_kind c n k2 -> k1 = k2.
Proof. intros H1 H2. apply classify_spec in H1, H2. congruence. Qed.

(* a file of no documented kind is skipped: unknown extension (or none) that the class-kind
   function does not claim, and gop_autogen*.go *)
Theorem classify_none c n : classify c n = None <->
  (path_ext n = ext_go /\ has_prefix autogen_prefix n = true)
  \/ (other_ext n /\ path_ext n <> ext_gox /\ snd (c_ck c n) = false).
Proof.
  unfold classify. split.
  - intros H.
    destruct (str_eqb (path_ext n) ext_xgo) eqn:E1; cbn [orb] in H; [discriminate|].
    destruct (str_eqb (path_ext n) ext_gop) eqn:E2; [discriminate|].
    destruct (str_eqb (path_ext n) ext_go) eqn:E3.
    { apply str_eqb_eq in E3. destruct (has_prefix autogen_prefix n); [left; auto|].
      destruct (c_go_as_x c); discriminate. }
    apply str_eqb_false in E1, E2, E3. right.
    destruct (c_ck c n) as [p cl]. destruct cl; [discriminate|].
    destruct (str_eqb (path_ext n) ext_gox) eqn:E4; [discriminate|].
    apply str_eqb_false in E4. repeat split; assumption.
  - intros [[E A]|((N1 & N2 & N3) & N4 & CK)].
    + rewrite E, A. reflexivity.
    + rewrite (str_eqb_neq _ _ N1), (str_eqb_neq _ _ N2), (str_eqb_neq _ _ N3), (str_eqb_neq _ _ N4).
      destruct (c_ck c n) as [p cl]. cbn [snd] in CK. subst cl. reflexivity.
Qed.

(* ------------------------------------------------------------------ selection *)
Definition passes (c : config) (e : entry) : Prop :=
  has_prefix us (f_name e) = false /\ (c_filter c = true -> f_info_ok e = true /\ f_filt e = true).

Definition parse_of (e : entry) (k : kind) : xout :=
  match k with
  | KGo => (match f_go e with Some p => Some (Some p) | None => None end, match f_go e with Some _ => false | None => true end)
  | KX _ isClass _ => if isClass then f_x_class e else f_x_plain e
  end.

(* the declarative reading of "the directory parse includes this file, with these flags, under this package" *)
Definition included (c : config) (e : entry) (it : item) : Prop :=
  f_dir e = false /\ file_kind c (f_name e) (i_kind it) /\ passes c e /\
  fst (parse_of e (i_kind it)) = Some (Some (i_pkg it)) /\ i_file it = f_name e.

Definition raises (c : config) (e : entry) : Prop :=
  f_dir e = false /\ exists k, file_kind c (f_name e) k /\ passes c e /\ snd (parse_of e k) = true.

Lemma passes_dec c e :
  negb (has_prefix us (f_name e)) && (negb (c_filter c) || (f_info_ok e && f_filt e)) = true <-> passes c e.
Proof.
  unfold passes. destruct (has_prefix us (f_name e)), (c_filter c), (f_info_ok e), (f_filt e); cbn; intuition congruence.
Qed.

Lemma step_spec c e : forall it, fst (step c e) = Some it <-> included c e it.
Proof.
  intros it. unfold step, included. destruct (f_dir e).
  { cbn [fst]. split; [discriminate|intros (H & _); discriminate]. }
  destruct (classify c (f_name e)) as [k|] eqn:CL.
  2:{ cbn [fst]. split; [discriminate|]. intros (_ & FK & _). apply classify_spec in FK. congruence. }
  destruct (negb (has_prefix us (f_name e)) && (negb (c_filter c) || (f_info_ok e && f_filt e))) eqn:PS.
  2:{ cbn [fst]. split; [discriminate|]. intros (_ & _ & P & _). apply passes_dec in P. congruence. }
  apply passes_dec in PS. apply classify_spec in CL.
  destruct k as [|p cl g].
  - destruct (f_go e) as [pk|] eqn:G; cbn [fst].
    + split.
      * intros H. injection H as <-. cbn [i_kind i_pkg i_file].
        split; [reflexivity|]. split; [exact CL|]. split; [exact PS|].
        split; [cbn [parse_of fst]; rewrite G; reflexivity|reflexivity].
      * intros (_ & FK & _ & PO & FN). destruct it as [ip ifl ik]. cbn [i_kind i_pkg i_file] in *.
        pose proof (file_kind_functional _ _ _ _ FK CL) as ->. subst. cbn [parse_of fst] in PO. rewrite G in PO. congruence.
    + split; [discriminate|]. intros (_ & FK & _ & PO & _). rewrite (file_kind_functional _ _ _ _ FK CL) in PO.
      cbn [parse_of fst] in PO. rewrite G in PO. discriminate.
  - destruct (if cl then f_x_class e else f_x_plain e) as [file err] eqn:X. cbn [fst]. split.
    + intros H. destruct file as [[pk|]|]; try discriminate H.
      injection H as <-. cbn [i_kind i_pkg i_file].
      split; [reflexivity|]. split; [exact CL|]. split; [exact PS|].
      split; [cbn [parse_of]; rewrite X; reflexivity|reflexivity].
    + intros (_ & FK & _ & PO & FN). destruct it as [ip ifl ik]. cbn [i_kind i_pkg i_file] in *.
      pose proof (file_kind_functional _ _ _ _ FK CL) as ->. subst. cbn [parse_of] in PO. rewrite X in PO.
      cbn [fst] in PO. rewrite PO. reflexivity.
Qed.

Lemma step_err c e : snd (step c e) = true <-> raises c e.
Proof.
  unfold step, raises. destruct (f_dir e).
  { cbn [snd]. split; [discriminate|intros (H & _); discriminate]. }
  destruct (classify c (f_name e)) as [k|] eqn:CL.
  2:{ cbn [snd]. split; [discriminate|]. intros (_ & k & FK & _). apply classify_spec in FK. congruence. }
  destruct (negb (has_prefix us (f_name e)) && (negb (c_filter c) || (f_info_ok e && f_filt e))) eqn:PS.
  2:{ cbn [snd]. split; [discriminate|]. intros (_ & k' & _ & P & _). apply passes_dec in P. congruence. }
  apply passes_dec in PS. apply classify_spec in CL.
  assert (G : snd (match k with
                   | KGo => match f_go e with Some p => (Some (mkI p (f_name e) KGo), false) | None => (None, true) end
                   | KX isProj isClass isNormalGox =>
                     let '(file, err) := if isClass then f_x_class e else f_x_plain e in
                     (match file with Some (Some p) => Some (mkI p (f_name e) k) | _ => None end, err)
                   end) = snd (parse_of e k)).
  { destruct k as [|p cl g]; cbn [parse_of]; [destruct (f_go e); reflexivity|].
    destruct (if cl then f_x_class e else f_x_plain e). reflexivity. }
  rewrite G. split.
  - intros H. split; [reflexivity|]. exists k. auto.
  - intros (_ & k' & FK & _ & H). rewrite (file_kind_functional _ _ _ _ FK CL) in H. exact H.
Qed.

Lemma select_files_cons c e t :
  select_files c (e :: t) =
    (match fst (step c e) with Some i => i :: fst (select_files c t) | None => fst (select_files c t) end,
     snd (step c e) || snd (select_files c t)).
Proof. cbn [select_files]. destruct (step c e) as [oi err]. destruct (select_files c t) as [its err']. reflexivity. Qed.

Theorem select_files_spec c l it : In it (fst (select_files c l)) <-> exists e, In e l /\ included c e it.
Proof.
  induction l as [|e t IH].
  - cbn. split; [intros []|intros (e & [] & _)].
  - rewrite select_files_cons. cbn [fst]. split.
    + intros H. destruct (fst (step c e)) as [i|] eqn:S.
      * destruct H as [<-|H]; [exists e; split; [left; reflexivity|apply step_spec; assumption]|].
        apply IH in H as (e' & I & Inc). exists e'. split; [right; assumption|assumption].
      * apply IH in H as (e' & I & Inc). exists e'. split; [right; assumption|assumption].
    + intros (e' & [<-|I] & Inc).
      * apply step_spec in Inc. rewrite Inc. left. reflexivity.
      * assert (In it (fst (select_files c t))) by (apply IH; exists e'; auto).
        destruct (fst (step c e)); [right|]; assumption.
Qed.

Theorem select_files_error c l : snd (select_files c l) = true <-> exists e, In e l /\ raises c e.
Proof.
  induction l as [|e t IH].
  - cbn. split; [discriminate|intros (e & [] & _)].
  - rewrite select_files_cons. cbn [snd]. rewrite orb_true_iff, step_err, IH. split.
    + intros [H|(e' & I & H)]; [exists e; split; [left; reflexivity|assumption]|exists e'; split; [right; assumption|assumption]].
    + intros (e' & [<-|I] & H); [left; assumption|right; exists e'; auto].
Qed.

(* the selected files keep the order of the listing: one file per listing entry at most *)
Theorem select_files_order c l : exists keep : list bool,
  length keep = length l /\
  map i_file (fst (select_files c l)) = map f_name (map snd (filter fst (combine keep l))).
Proof.
  induction l as [|e t (keep & L & IH)]; [exists []; split; reflexivity|].
  rewrite select_files_cons. cbn [fst]. destruct (fst (step c e)) as [i|] eqn:S.
  - exists (true :: keep). split; [cbn [length]; congruence|]. cbn [combine filter fst map snd]. f_equal; [|exact IH].
    apply step_spec in S. apply S.
  - exists (false :: keep). split; [cbn [length]; congruence|]. cbn [combine filter fst]. exact IH.
Qed.

(* ------------------------------------------------------------------ grouping by package (reqPkg) *)
Definition of_pkg (k : str) (its : list item) : list item := filter (fun it => str_eqb k (i_pkg it)) its.

(* invariant of the package map after the items `done` have been filed *)
Definition grouped (m : list (str * list item)) (done : list item) : Prop :=
  NoDup (map fst m)
  /\ (forall k v, In (k, v) m -> v = of_pkg k done /\ v <> [])
  /\ (forall it, In it done -> In (i_pkg it) (map fst m)).

Lemma of_pkg_app k a b : of_pkg k (a ++ b) = of_pkg k a ++ of_pkg k b.
Proof. apply filter_app. Qed.

Lemma add_item_keys it : forall m, In (i_pkg it) (map fst (add_item it m)) /\
  (forall k, In k (map fst (add_item it m)) <-> k = i_pkg it \/ In k (map fst m)).
Proof.
  induction m as [|[k v] t [IH1 IH2]]; cbn [add_item map fst].
  - split; [left; reflexivity|]. intros k. cbn [In]. intuition.
  - destruct (str_eqb k (i_pkg it)) eqn:E.
    + apply str_eqb_eq in E. subst k. cbn [map fst In]. split; [left; reflexivity|]. intros k. intuition.
    + cbn [map fst In]. split; [right; exact IH1|]. intros k'. rewrite IH2. intuition.
Qed.

Lemma add_item_grouped it : forall m done, grouped m done -> grouped (add_item it m) (done ++ [it]).
Proof.
  induction m as [|[k v] t IH]; intros done (ND & HV & HK).
  - cbn [add_item]. split; [constructor; [intros []|constructor]|]. split.
    + intros k v [E|[]]. injection E as <- <-. rewrite of_pkg_app. cbn [of_pkg filter]. rewrite str_eqb_refl.
      assert (Z : of_pkg (i_pkg it) done = []).
      { destruct done as [|d ds]; [reflexivity|]. exfalso. apply (HK d). left. reflexivity. }
      rewrite Z. split; [reflexivity|discriminate].
    + intros x I. apply in_app_or in I as [I|[<-|[]]]; [destruct (HK x I)|left; reflexivity].
  - cbn [add_item]. destruct (str_eqb k (i_pkg it)) eqn:E.
    + apply str_eqb_eq in E. subst k. split; [exact ND|]. split.
      * intros k' v' [Eq|I].
        -- injection Eq as <- <-. destruct (HV (i_pkg it) v (or_introl eq_refl)) as [-> NE].
           rewrite of_pkg_app. cbn [of_pkg filter]. rewrite str_eqb_refl. split; [reflexivity|].
           intros Z. apply app_eq_nil in Z as [_ Z]. discriminate.
        -- destruct (HV k' v' (or_intror I)) as [-> NE]. rewrite of_pkg_app.
           assert (k' <> i_pkg it).
           { intros ->. cbn [map fst] in ND. inversion ND as [|? ? NI _]; subst. apply NI.
             apply in_map_iff. exists (i_pkg it, of_pkg (i_pkg it) done). split; [reflexivity|exact I]. }
           cbn [of_pkg filter]. rewrite (str_eqb_neq _ _ H), app_nil_r. split; [reflexivity|exact NE].
      * intros x I. cbn [map fst]. apply in_app_or in I as [I|[<-|[]]]; [apply (HK x I)|left; reflexivity].
    + apply str_eqb_false in E.
      assert (G : grouped t (filter (fun x => negb (str_eqb k (i_pkg x))) done)).
      { cbn [map fst] in ND. inversion ND as [|? ? NI ND']; subst. split; [exact ND'|]. split.
        - intros k' v' I. destruct (HV k' v' (or_intror I)) as [-> NE]. split; [|exact NE].
          assert (k' <> k) by (intros ->; apply NI; apply in_map_iff; exists (k, of_pkg k done); split; [reflexivity|exact I]).
          unfold of_pkg. clear -H. induction done as [|d ds IHd]; [reflexivity|]. cbn [filter].
          destruct (str_eqb k (i_pkg d)) eqn:Ek; cbn [negb].
          + apply str_eqb_eq in Ek. rewrite <- Ek, (str_eqb_neq _ _ H). exact IHd.
          + cbn [filter]. destruct (str_eqb k' (i_pkg d)); [f_equal|]; exact IHd.
        - intros x I. apply filter_In in I as [I Nk]. destruct (HK x I) as [Ek|I']; [|exact I'].
          cbn [fst] in Ek. subst k. rewrite str_eqb_refl in Nk. discriminate. }
      specialize (IH _ G). destruct IH as (ND2 & HV2 & HK2).
      destruct (add_item_keys it t) as [K1 K2].
      cbn [map fst] in ND. inversion ND as [|? ? NI ND']; subst.
      split; [|split].
      * cbn [map fst]. constructor; [|exact ND2]. intros I. apply K2 in I as [I|I]; [congruence|contradiction].
      * intros k' v' [Eq|I].
        -- injection Eq as <- <-. destruct (HV k v (or_introl eq_refl)) as [-> NE].
           rewrite of_pkg_app. cbn [of_pkg filter]. rewrite (str_eqb_neq _ _ E), app_nil_r. split; [reflexivity|exact NE].
        -- destruct (HV2 k' v' I) as [-> NE]. split; [|exact NE].
           assert (k' <> k).
           { intros ->. apply NI. assert (In k (map fst (add_item it t))) by (apply in_map_iff; eexists; split; [|exact I]; reflexivity).
             apply K2 in H as [H|H]; [congruence|exact H]. }
           unfold of_pkg. rewrite !filter_app. f_equal.
           clear -H. induction done as [|d ds IHd]; [reflexivity|]. cbn [filter].
           destruct (str_eqb k (i_pkg d)) eqn:Ek; cbn [negb].
           ++ apply str_eqb_eq in Ek. rewrite <- Ek, (str_eqb_neq _ _ H). exact IHd.
           ++ cbn [filter]. destruct (str_eqb k' (i_pkg d)); [f_equal|]; exact IHd.
      * intros x I. cbn [map fst]. apply in_app_or in I as [I|[<-|[]]].
        -- destruct (HK x I) as [Ek|I']; [left; exact Ek|]. right. apply K2. right. exact I'.
        -- right. exact K1.
Qed.

Lemma group_fold : forall its m done, grouped m done -> grouped (fold_left (fun m it => add_item it m) its m) (done ++ its).
Proof.
  induction its as [|it its IH]; intros m done G; cbn [fold_left]; [rewrite app_nil_r; exact G|].
  replace (done ++ it :: its) with ((done ++ [it]) ++ its) by (rewrite <- app_assoc; reflexivity).
  apply IH, add_item_grouped, G.
Qed.

(* the package map: one entry per package name, holding exactly the selected files that the parser
   put in that package, in listing order; never an empty package; every selected file is filed *)
Theorem grouping_by_pkg its :
  NoDup (map fst (group its))
  /\ (forall k v, In (k, v) (group its) -> v = of_pkg k its /\ v <> [])
  /\ (forall it, In it its -> exists v, In (i_pkg it, v) (group its) /\ In it v).
Proof.
  assert (G : grouped (group its) its).
  { unfold group. apply (group_fold its [] []). split; [constructor|]. split; [intros ? ? []|intros ? []]. }
  destruct G as (ND & HV & HK). split; [exact ND|]. split; [exact HV|].
  intros it I. specialize (HK it I). apply in_map_iff in HK as ([k v] & Ek & Iv). cbn [fst] in Ek. subst k.
  exists v. split; [exact Iv|]. destruct (HV _ _ Iv) as [-> _]. apply filter_In. split; [exact I|apply str_eqb_refl].
Qed.

(* ------------------------------------------------------------------ ParseFSEntry vs ParseFSDir *)
Definition flags_of (k : kind) : bool * bool * bool :=
  match k with KGo => (false, false, false) | KX p c g => (p, c, g) end.

(* ParseFSEntry classifies a file name exactly as ParseFSDir does, except for .go files: the single-file
   entry point always takes them (XGo parser, no flags), the directory walk skips gop_autogen*.go *)
Theorem entry_matches_dir c n : path_ext n <> ext_go ->
  classify_entry (c_ck c) n = option_map flags_of (classify c n).
Proof.
  intros NG. unfold classify_entry, classify. rewrite (str_eqb_neq _ _ NG), orb_false_r.
  destruct (str_eqb (path_ext n) ext_xgo || str_eqb (path_ext n) ext_gop); [reflexivity|].
  destruct (c_ck c n) as [p cl]. destruct cl; [reflexivity|]. destruct (str_eqb (path_ext n) ext_gox); reflexivity.
Qed.
Theorem entry_go ck n : path_ext n = ext_go -> classify_entry ck n = Some (false, false, false).
Proof. intros E. unfold classify_entry. rewrite E. reflexivity. Qed.
Theorem dir_go c n : path_ext n = ext_go ->
  classify c n = if has_prefix autogen_prefix n then None else Some (if c_go_as_x c then KX false false false else KGo).
Proof. intros E. unfold classify. rewrite E. cbn. destruct (has_prefix autogen_prefix n), (c_go_as_x c); reflexivity. Qed.

(* defaultClassKind *)
Theorem default_class_kind_spec n :
  default_class_kind n =
    if str_eqb (path_ext n) ext_spx then (str_eqb n main_spx, true)
    else if str_eqb (path_ext n) ext_gsh || str_eqb (path_ext n) ext_gmx then (true, true) else (false, false).
Proof. reflexivity. Qed.
