(* C39 — no internal deadlock: while the connection is not done some step that is not the arrival of new
   work is enabled (unless an asynchronous response is still owed by the handler) *)
From Coq Require Import List NArith ZArith Bool Arith Lia.
Import ListNotations.
From V Require Import Base.ConnView Gen.ConnSites Model.C39
  Proofs.C39Base Proofs.C39Measure Proofs.C39Calls Proofs.C39Flight Proofs.C39Holders Proofs.C39Done Proofs.C39.

(* ---- two more invariants *)
(* a non-empty handler queue has a running handler goroutine *)
Definition InvQ (s : state) : Prop := s_queue s <> [] -> s_handlerRunning s = true.
Lemma InvQ_body s l s1 : InvQ s -> body_step s l = Ok s1 -> InvQ s1.
Proof.
  unfold InvQ. intros I H. destruct l; inv_body H; simp_state; auto.
  all: try (intros _; reflexivity); try (intros X; contradiction).
  all: try (match goal with E : s_queue _ = _ :: _ |- _ => rewrite E in I end; intros _; apply I; discriminate).
  all: try (intros _; match goal with E : s_handlerRunning _ = true |- _ => exact E end).
  intros _. apply I. discriminate.
Qed.
Lemma InvQ_epi s s' : InvQ s -> epi s = Ok s' -> InvQ s'.
Proof. unfold epi, InvQ. intros I H. break_match H; injection H as <-; simp_state; assumption. Qed.

(* outside the critical sections nothing the epilogue looks at changes *)
Lemma nonsection_frame s l s1 : body_step s l = Ok s1 -> is_section l = false ->
  s_outgoing s1 = s_outgoing s /\ s_outNotifs s1 = s_outNotifs s /\ s_incoming s1 = s_incoming s /\
  s_handlerRunning s1 = s_handlerRunning s /\ s_connClosing s1 = s_connClosing s /\ s_readErr s1 = s_readErr s /\
  s_writeErr s1 = s_writeErr s /\ s_reading s1 = s_reading s /\ s_done s1 = s_done s.
Proof. intros H P. destruct l; try discriminate P; inv_body H; simp_state; repeat split; reflexivity. Qed.

Lemma InvE_step s l s' : InvE s -> step s l = Ok s' -> InvE s'.
Proof.
  unfold step. intros I H. destruct (body_step s l) as [s1| |] eqn:B; try discriminate.
  destruct (is_section l) eqn:P; [eapply InvE_epi; eauto|]. injection H as <-.
  destruct (nonsection_frame _ _ _ B P) as (A1 & A2 & A3 & A4 & A5 & A6 & A7 & A8 & A9).
  unfold InvE in *. intros Hd. rewrite A9 in Hd. specialize (I Hd).
  destruct (idle s1 && shutting_down s1 && negb (s_reading s1)) eqn:X; [exfalso | reflexivity].
  apply andb_prop in X as [X X3]. apply andb_prop in X as [X1 X2].
  apply idle_spec in X1. rewrite sd_spec in X2. rewrite A1, A2, A3, A4 in X1. rewrite A5, A6, A7 in X2. rewrite A8 in X3.
  assert (idle s = true) by (apply idle_spec; assumption). rewrite sd_spec in I. rewrite H, X2, X3 in I. discriminate.
Qed.
Lemma InvE_init p : InvE (init p).
Proof. intros _. vm_compute. reflexivity. Qed.
Lemma InvQ_step s l s' : InvQ s -> step s l = Ok s' -> InvQ s'.
Proof.
  unfold step. intros I H. destruct (body_step s l) as [s1| |] eqn:B; try discriminate.
  pose proof (InvQ_body _ _ _ I B). destruct (is_section l); [eapply InvQ_epi; eauto | injection H as <-; assumption].
Qed.
Lemma reachable_EQ p s : reachable p s -> InvE s /\ InvQ s.
Proof.
  induction 1 as [|s l s' R [IE IQ] H].
  - split; [apply InvE_init | intros X; exfalso; apply X; reflexivity].
  - split; [eapply InvE_step | eapply InvQ_step]; eauto.
Qed.

(* ---- a thread in the delete stage of processResult works on a call (a request that has an ID) *)
Definition is_call (s : state) (r : nat) : Prop := exists i, exists rq, nth_error (s_reqs s) r = Some rq /\ rq_id rq = Some i.
Record InvP (s : state) : Prop := {
  ip_r : forall r o, s_reader s = RBusy r (RPR (PDelete o)) -> is_call s r;
  ip_h : forall r o, s_handler s = HBusy r (HPR (PDelete o)) -> is_call s r;
  ip_p : forall j r o, nth_error (s_resps s) j = Some (PBusy r (PDelete o)) -> is_call s r }.
Lemma InvP_init p : InvP (init p).
Proof. constructor; simpl; intros; try discriminate. destruct j; discriminate. Qed.

Lemma HW_ge_r s r : cnt_r true pre_write (s_reader s) r <= HW s r.
Proof. unfold HW, holders. lia. Qed.
Lemma HW_ge_h s r : cnt_h pre_write (s_handler s) r <= HW s r.
Proof. unfold HW, holders. lia. Qed.
Lemma HW_ge_p s r j pp : nth_error (s_resps s) j = Some pp -> cnt_p pre_write pp r <= HW s r.
Proof. intros E. unfold HW, holders. pose proof (sum_map_ge (fun pp => cnt_p pre_write pp r) _ _ _ E). simpl in H. lia. Qed.
Lemma HW_pos_nth s r : InvA s -> 1 <= HW s r -> exists rq, nth_error (s_reqs s) r = Some rq.
Proof.
  intros IA H. destruct (nth_error (s_reqs s) r) eqn:E; [eauto|].
  apply nth_error_None in E. pose proof (ia_fresh _ IA _ E). lia.
Qed.

Lemma is_call_fwd_same s s1 r : s_reqs s1 = s_reqs s -> is_call s r -> is_call s1 r.
Proof. unfold is_call. intros ->. auto. Qed.
Ltac call_fwd I :=
  let i := fresh "i" in let rq := fresh "rq" in let Hrq := fresh "Hrq" in let Hid := fresh "Hid" in
  destruct I as (i & rq & Hrq & Hid); exists i; simp_state; table_fwd Hrq Hid.

Lemma two_holders_aux a b c d : a + S (b + 1 + c + d) <= 1 -> False.
Proof. lia. Qed.
Lemma two_holders_aux' a b c d e : a + S (b + c + d + e) <= 1 -> 1 <= e -> False.
Proof. lia. Qed.

Lemma InvP_body s l s1 : InvA s -> InvP s -> body_step s l = Ok s1 -> InvP s1.
Proof.
  intros IA [P1 P2 P3] H. destruct l; inv_body H.
  all: constructor; [intros q oo Hq | intros q oo Hq | intros jj q oo Hq]; simp_state.
  all: try discriminate Hq.
  all: try (first [ specialize (P1 _ _ Hq) as K | specialize (P2 _ _ Hq) as K | specialize (P3 _ _ _ Hq) as K ];
            first [ exact K | call_fwd K ]; fail).
  (* the Respond thread table changed *)
  all: try (rewrite nth_error_snoc in Hq; destruct (Nat.ltb _ _); [| destruct (Nat.eqb _ _); discriminate Hq];
            specialize (P3 _ _ _ Hq) as K; first [ exact K | call_fwd K ]; fail).
  all: try (match type of Hq with nth_error (upd ?j0 _ _) ?j1 = _ =>
              rewrite nth_error_upd in Hq; destruct (Nat.eqb_spec j0 j1);
              [ subst j1; match goal with E : nth_error (s_resps _) j0 = Some _ |- _ => rewrite E in Hq end; try discriminate Hq
              | specialize (P3 _ _ _ Hq) as K; first [ exact K | call_fwd K ]; fail ] end).
  (* entering the delete stage through pr_stage: the request has an ID *)
  all: try (first [ injection Hq as Hq1 Hp | injection Hq as Hp ]; try subst q;
            match goal with E : nth_error (s_reqs _) _ = Some ?rq |- _ =>
              match type of Hp with context [pr_stage rq ?o] =>
                destruct (pr_stage_cases' rq o) as [[Q P]|(i0 & Q & P)]; rewrite P in Hp;
                [ discriminate Hp | exists i0, rq; simp_state; split; [first [assumption | congruence] | assumption] ] end end; fail).
  - (* duplicate ID while another thread deletes: impossible, the reader is the only pre-write holder of r *)
    assert (q <> r).
    { intros ->. pose proof (ia_once _ IA _ _ E0). pose proof (HW_ge_h s r). unfold HW, holders in *.
      rewrite E, Hq in *. simpl in *. rewrite Nat.eqb_refl in *. simpl in *. exact (two_holders_aux _ _ _ _ H). }
    destruct (P2 _ _ Hq) as (i1 & rq & Hrq & Hid). exists i1, rq. simp_state. rewrite nth_error_upd_other by congruence. auto.
  - assert (q <> r).
    { intros ->. pose proof (ia_once _ IA _ _ E0).
      pose proof (sum_map_ge (fun pp => cnt_p pre_write pp r) _ _ _ Hq) as H0. unfold HW, holders in *.
      rewrite E in *. simpl in *. rewrite Nat.eqb_refl in *. simpl in *. exact (two_holders_aux' _ _ _ _ _ H H0). }
    destruct (P3 _ _ _ Hq) as (i1 & rq & Hrq & Hid). exists i1, rq. simp_state. rewrite nth_error_upd_other by congruence. auto.
  - injection Hq as <- _. exists i, r0. simp_state. auto.
Qed.
Lemma InvP_epi s s' : InvP s -> epi s = Ok s' -> InvP s'.
Proof.
  unfold epi. intros [P1 P2 P3] H. break_match H; injection H as <-; constructor; unfold is_call in *; simp_state; assumption.
Qed.
Lemma reachable_P p s : reachable p s -> InvP s.
Proof.
  induction 1 as [|s l s' R IP H]; [apply InvP_init|].
  unfold step in H. destruct (body_step s l) as [s1| |] eqn:B; try discriminate.
  pose proof (InvP_body _ _ _ (inv_A _ (reachable_inv _ _ R)) IP B).
  destruct (is_section l); [eapply InvP_epi; eauto | injection H as <-; assumption].
Qed.

(* ---- enabledness *)
Lemma epi_not_disabled s : epi s <> Disabled.
Proof. unfold epi. intros H. break_match H; discriminate. Qed.
Definition can_progress (s : state) : Prop := exists l s', is_progress l = true /\ step s l = Ok s'.
Lemma enabled_intro p s l : reachable p s -> is_progress l = true -> body_step s l <> Disabled -> can_progress s.
Proof.
  intros R P N. exists l. destruct (step s l) as [s'|pn|] eqn:E.
  - exists s'; auto.
  - exfalso. eapply no_panic; eauto.
  - exfalso. unfold step in E. destruct (body_step s l) eqn:B; try congruence.
    destruct (is_section l); [eapply epi_not_disabled; eauto | discriminate].
Qed.

Lemma sum_pos_ex {A} (f : A -> nat) l : 0 < sum (map f l) -> exists i x, nth_error l i = Some x /\ 0 < f x.
Proof.
  induction l as [|a l IH]; simpl; [lia|]. intros H. destruct (f a) eqn:E.
  - destruct IH as (i & x & Hx & Hp); [lia|]. exists (S i), x; auto.
  - exists 0, a; simpl; split; [reflexivity | lia].
Qed.
Lemma resp_match_refl r :
  id_eqb (rs_id r) (rs_id r) &&
  match rs_body r, rs_body r with
  | BResult a, BResult b => N.eqb a b
  | BErr a, BErr b => N.eqb a b
  | _, _ => false end = true.
Proof. rewrite id_eqb_refl. destruct (rs_body r); simpl; apply N.eqb_refl. Qed.

(* a thread inside processResult can always take its next step *)
Lemma get_pr_HW s t r pst : get_pr t s = Some (r, pst) -> pre_write pst = true -> 1 <= HW s r.
Proof.
  intros G P. destruct t; simpl in G.
  - destruct (s_reader s) eqn:E; try discriminate. destruct sub; try discriminate. injection G as -> ->.
    pose proof (HW_ge_r s r). rewrite E in H. simpl in H. rewrite Nat.eqb_refl, P in H. exact H.
  - destruct (s_handler s) eqn:E; try discriminate. destruct sub; try discriminate. injection G as -> ->.
    pose proof (HW_ge_h s r). rewrite E in H. simpl in H. rewrite Nat.eqb_refl, P in H. exact H.
  - destruct (nth_error (s_resps s) j) as [[]|] eqn:E; try discriminate. injection G as -> ->.
    pose proof (HW_ge_p s r _ _ E). simpl in H. rewrite Nat.eqb_refl, P in H. exact H.
Qed.
Lemma get_pr_is_call s t r o : InvP s -> get_pr t s = Some (r, PDelete o) -> is_call s r.
Proof.
  intros IP G. destruct t; simpl in G.
  - destruct (s_reader s) eqn:E; try discriminate. destruct sub; try discriminate. injection G as -> ->. eapply ip_r; eauto.
  - destruct (s_handler s) eqn:E; try discriminate. destruct sub; try discriminate. injection G as -> ->. eapply ip_h; eauto.
  - destruct (nth_error (s_resps s) j) as [[]|] eqn:E; try discriminate. injection G as -> ->. eapply ip_p; eauto.
Qed.
Lemma pr_enabled p s t r pst : reachable p s -> get_pr t s = Some (r, pst) -> can_progress s.
Proof.
  intros R G. pose proof (reachable_inv _ _ R) as I. destruct pst as [o|resp| |].
  - destruct (get_pr_is_call _ _ _ _ (reachable_P _ _ R) G) as (i & rq & Hrq & Hid).
    apply (enabled_intro p s (LResultDelete t) R eq_refl). unfold body_step. rewrite G, Hrq, Hid. discriminate.
  - destruct (HW_pos_nth _ _ (inv_A _ I) (get_pr_HW _ _ _ _ G eq_refl)) as (rq & Hrq).
    apply (enabled_intro p s (LWriteResp t resp WOk) R eq_refl). unfold body_step. rewrite G, resp_match_refl, Hrq. discriminate.
  - apply (enabled_intro p s (LWriteErrSec (WEPR t)) R eq_refl). unfold body_step. rewrite G. discriminate.
  - apply (enabled_intro p s (LResultDec t) R eq_refl). unfold body_step. rewrite G. destruct (s_incoming s); discriminate.
Qed.

Lemma reader_enabled p s : reachable p s ->
  match s_reader s with RNone | RExited => False | _ => True end -> can_progress s.
Proof.
  intros R A. pose proof (reachable_inv _ _ R) as I. destruct (s_reader s) eqn:E; try contradiction.
  - apply (enabled_intro p s LReadErr R eq_refl). unfold body_step. rewrite E. discriminate.
  - apply (enabled_intro p s LReadResponse R eq_refl). unfold body_step. rewrite E.
    destruct (alookup _ _); [destruct (retire _ _ _)|]; discriminate.
  - assert (Hnth : match sub with RPR PWErr | RPR PDec => True | _ => exists rq, nth_error (s_reqs s) r = Some rq end).
    { destruct sub as [| | | |[ | | |]]; try exact Logic.I; apply (HW_pos_nth _ _ (inv_A _ I));
        pose proof (HW_ge_r s r) as H; rewrite E in H; simpl in H; rewrite Nat.eqb_refl in H; exact H. }
    destruct sub.
    + destruct Hnth as (rq & Hrq). apply (enabled_intro p s LAccept R eq_refl). unfold body_step. rewrite E, Hrq.
      destruct (rq_id rq); [destruct (alookup _ _); [|destruct (shutting_down s)]|]; discriminate.
    + apply (enabled_intro p s (LPreemptBegin r) R eq_refl). unfold body_step. rewrite E, Nat.eqb_refl. discriminate.
    + destruct Hnth as (rq & Hrq). apply (enabled_intro p s (LPreemptRet r ONotHandled) R eq_refl).
      unfold body_step. rewrite E, Nat.eqb_refl, Hrq. discriminate.
    + destruct Hnth as (rq & Hrq). apply (enabled_intro p s LEnqueue R eq_refl). unfold body_step. rewrite E, Hrq.
      destruct (shutting_down s); [|destruct (s_handlerRunning s)]; discriminate.
    + apply (pr_enabled p s WhoReader r p0 R). simpl. rewrite E. reflexivity.
  - apply (enabled_intro p s LReadExit R eq_refl). unfold body_step. rewrite E. destruct (retire_all _ _); discriminate.
Qed.

Lemma handler_enabled p s : reachable p s -> s_handler s <> HNone -> can_progress s.
Proof.
  intros R A. pose proof (reachable_inv _ _ R) as I. destruct (s_handler s) eqn:E; try contradiction.
  - apply (enabled_intro p s LDequeue R eq_refl). unfold body_step. rewrite E. destruct (s_queue s); discriminate.
  - assert (Hnth : match sub with HPR PWErr | HPR PDec => True | _ => exists rq, nth_error (s_reqs s) r = Some rq end).
    { destruct sub as [| | | |[ | | |]]; try exact Logic.I; apply (HW_pos_nth _ _ (inv_A _ I));
        pose proof (HW_ge_h s r) as H; rewrite E in H; simpl in H; rewrite Nat.eqb_refl in H; exact H. }
    destruct sub.
    + destruct Hnth as (rq & Hrq). apply (enabled_intro p s LHCheck R eq_refl). unfold body_step. rewrite E, Hrq. discriminate.
    + destruct Hnth as (rq & Hrq). apply (enabled_intro p s LCancelledErr R eq_refl). unfold body_step. rewrite E, Hrq. discriminate.
    + apply (enabled_intro p s (LHandleBegin r) R eq_refl). unfold body_step. rewrite E, Nat.eqb_refl. discriminate.
    + destruct Hnth as (rq & Hrq). apply (enabled_intro p s (LHandleRet r (OOk 0)) R eq_refl).
      unfold body_step. rewrite E, Nat.eqb_refl, Hrq. discriminate.
    + apply (pr_enabled p s WhoHandler r p0 R). simpl. rewrite E. reflexivity.
Qed.

Lemma notif_enabled p s n nr : reachable p s -> nth_error (s_notifs s) n = Some nr -> 0 < n_counted (n_pc nr) -> can_progress s.
Proof.
  intros R E A. destruct (n_pc nr) eqn:P; simpl in A; try lia.
  - apply (enabled_intro p s (LWriteNotify n WOk) R eq_refl). unfold body_step. rewrite E, P. discriminate.
  - apply (enabled_intro p s (LWriteErrSec (WENotify n)) R eq_refl). unfold body_step. rewrite E, P. discriminate.
  - apply (enabled_intro p s (LNotifyEnd n) R eq_refl). unfold body_step. rewrite E, P. destruct (s_outNotifs s); discriminate.
Qed.

Theorem no_internal_deadlock p s : reachable p s -> s_done s = false -> s_asyncs s = [] -> can_progress s.
Proof.
  intros R Hd Ha. pose proof (reachable_inv _ _ R) as I. destruct (reachable_EQ _ _ R) as [IE IQ].
  pose proof (inv_D _ I) as D. pose proof (inv_N _ I) as N.
  destruct (s_main s) eqn:EM.
  { apply (enabled_intro p s LStart R eq_refl). unfold body_step. rewrite EM, Hd. discriminate. }
  destruct (s_reader s) eqn:ER.
  1: { rewrite (id_started _ D EM ER) in Hd. discriminate. }
  1-4: apply (reader_enabled p s R); rewrite ER; exact Logic.I.
  (* the reader has exited: the connection is shutting down and not reading, hence not idle *)
  specialize (IE Hd). pose proof (id_readErr _ D) as RE. rewrite ER in RE. pose proof (id_reading _ D) as RD. rewrite ER in RD. simpl in RD.
  rewrite sd_spec, RE, RD, orb_true_r in IE. simpl in IE. rewrite !andb_true_r in IE.
  destruct (s_handler s) eqn:EH.
  2,3: apply (handler_enabled p s R); rewrite EH; discriminate.
  pose proof (in_running _ N) as RUN. rewrite EH in RUN.
  assert (Q : s_queue s = []).
  { destruct (s_queue s) eqn:EQ; [reflexivity|]. unfold InvQ in IQ. rewrite EQ in IQ. rewrite IQ in RUN; [discriminate | discriminate]. }
  destruct (s_outNotifs s) eqn:EN.
  2: { pose proof (in_notifs _ N) as X. rewrite EN in X. unfold notif_count in X.
       destruct (sum_pos_ex (fun nr => n_counted (n_pc nr)) (s_notifs s)) as (n0 & nr & Hn & Hp); [lia|].
       eapply notif_enabled; eauto. }
  destruct (s_incoming s) eqn:EI.
  2: { pose proof (in_incoming _ N) as X. rewrite EI in X. unfold in_flight in X. rewrite ER, EH, Q, Ha in X. simpl in X.
       destruct (sum_pos_ex p_counted (s_resps s)) as (j & pp & Hj & Hp); [lia|].
       destruct pp; simpl in Hp; try lia. apply (pr_enabled p s (WhoResp j) r p0 R). simpl. rewrite Hj. reflexivity. }
  exfalso. assert (X : idle s = true); [|rewrite X in IE; discriminate].
  apply idle_spec. repeat split; auto. apply (id_readerr_out _ D RE).
Qed.

(* nothing left to do (measure 0) means done *)
Lemma sum_zero_all {A} (f : A -> nat) l i x : sum (map f l) = 0 -> nth_error l i = Some x -> f x = 0.
Proof. intros Z E. pose proof (sum_map_ge f _ _ _ E). lia. Qed.
Theorem measure_zero_done p s : reachable p s -> measure s = 0 -> s_done s = true.
Proof.
  intros R Z. destruct (s_done s) eqn:Hd; [reflexivity | exfalso].
  assert (Ha : s_asyncs s = []) by (unfold measure in Z; destruct (s_asyncs s); [reflexivity | simpl in Z; lia]).
  destruct (no_internal_deadlock _ _ R Hd Ha) as (l & s' & P & H).
  pose proof (measure_step _ _ _ H P). lia.
Qed.

(* when nothing is left to do every call has its response: each Await can return *)
Theorem all_calls_answered_at_quiescence p s c cr : reachable p s -> measure s = 0 ->
  nth_error (s_calls s) c = Some cr -> exists r, c_resp cr = Some r /\ c_id cr = Some (rs_id r).
Proof.
  intros R Z E. pose proof (measure_zero_done _ _ R Z) as D.
  assert (W : w_cpc (c_pc cr) = 0).
  { apply (sum_zero_all (fun cr => w_cpc (c_pc cr)) (s_calls s) c cr); [unfold measure in Z; lia | assumption]. }
  assert (P : returned_pc (c_pc cr) = true) by (destruct (c_pc cr); simpl in *; try discriminate; reflexivity).
  pose proof (retired_when_done _ _ _ _ R D E (or_intror P)) as X.
  destruct (c_resp cr) as [r|] eqn:Y; [|congruence]. exists r. split; [reflexivity|]. eapply own_id; eauto.
Qed.
