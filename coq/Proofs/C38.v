(* Proofs about the framing model (Model/C38.v). *)
From Coq Require Import List NArith ZArith Lia Bool ZifyN ZifyNat ZifyBool.
Import ListNotations.
From V Require Import Base.Prelude Base.Radix Model.C38.
Open Scope N_scope.

(* ------------------------------------------------------------------ lists, lengths *)
Lemma nlen_app {A} (a b : list A) : nlen (a ++ b) = nlen a + nlen b.
Proof. unfold nlen. rewrite app_length. lia. Qed.
Lemma nlen_cons {A} (x : A) l : nlen (x :: l) = 1 + nlen l.
Proof. unfold nlen. cbn [length]. lia. Qed.
Lemma nlen_nil {A} : nlen (@nil A) = 0.
Proof. reflexivity. Qed.
Lemma nlen_to_nat {A} (l : list A) : N.to_nat (nlen l) = length l.
Proof. unfold nlen. lia. Qed.
Lemma firstn_app_exact {A} (a b : list A) : firstn (length a) (a ++ b) = a.
Proof. induction a; cbn [length firstn app]; [destruct b; reflexivity|]. f_equal. assumption. Qed.
Lemma skipn_app_exact {A} (a b : list A) : skipn (length a) (a ++ b) = b.
Proof. induction a; cbn [length skipn app]; auto. Qed.
Lemma rev'_rev {A} (l : list A) : rev' l = rev l.
Proof. unfold rev'. symmetry. apply rev_alt. Qed.

(* ------------------------------------------------------------------ ReadString *)
Lemma read_string_split : forall s l r ok, read_string s = (l, r, ok) -> s = l ++ r.
Proof.
  induction s as [|c t IH]; intros l r ok H; cbn [read_string] in H.
  - injection H as <- <- <-. reflexivity.
  - destruct (c =? LF) eqn:E.
    + injection H as <- <- <-. reflexivity.
    + destruct (read_string t) as [[l' r'] ok'] eqn:R. injection H as <- <- <-.
      cbn [app]. f_equal. eapply IH. reflexivity.
Qed.

Lemma read_string_ok : forall s l r, read_string s = (l, r, true) -> exists l', l = l' ++ [LF] /\ ~ In LF l'.
Proof.
  induction s as [|c t IH]; intros l r H; cbn [read_string] in H.
  - discriminate.
  - destruct (N.eqb_spec c LF) as [->|NE].
    + injection H as <- <-. exists []. split; [reflexivity|intros []].
    + destruct (read_string t) as [[l' r'] ok'] eqn:R. injection H as <- <- ->.
      destruct (IH _ _ eq_refl) as (l2 & -> & NI). exists (c :: l2). split; [reflexivity|].
      intros [E|I]; [congruence|auto].
Qed.

Lemma read_string_eof : forall s l r, read_string s = (l, r, false) -> r = [] /\ l = s /\ ~ In LF s.
Proof.
  induction s as [|c t IH]; intros l r H; cbn [read_string] in H.
  - injection H as <- <-. repeat split; auto.
  - destruct (N.eqb_spec c LF) as [->|NE]; [discriminate|].
    destruct (read_string t) as [[l' r'] ok'] eqn:R. injection H as <- <- ->.
    destruct (IH _ _ eq_refl) as (-> & -> & NI). repeat split; auto.
    intros [E|I]; [congruence|auto].
Qed.

Lemma read_string_app : forall a r, ~ In LF a -> read_string (a ++ LF :: r) = (a ++ [LF], r, true).
Proof.
  induction a as [|c a IH]; intros r NI; cbn [app read_string].
  - rewrite N.eqb_refl. reflexivity.
  - destruct (N.eqb_spec c LF) as [->|NE]; [exfalso; apply NI; left; reflexivity|].
    rewrite IH by (intros I; apply NI; right; exact I). reflexivity.
Qed.

(* the line ReadString returned is returned again whatever follows it *)
Lemma read_string_line_any : forall s l r, read_string s = (l, r, true) -> forall r', read_string (l ++ r') = (l, r', true).
Proof.
  intros s l r H r'. destruct (read_string_ok _ _ _ H) as (l' & -> & NI).
  rewrite <- app_assoc. cbn [app]. apply read_string_app. exact NI.
Qed.

(* ------------------------------------------------------------------ TrimSpace *)
Definition plain (c : N) : Prop := c < 128 /\ is_ascii_space c = false.

Lemma trim_left_plain c t : plain c -> trim_left (c :: t) = c :: t.
Proof.
  intros [Hc Hs]. cbn [trim_left]. rewrite Hs.
  destruct t as [|c2 t2]; [reflexivity|].
  replace (is_usp2 c c2) with false by (unfold is_usp2; lia).
  destruct t2 as [|c3 t3]; [reflexivity|].
  replace (is_usp3 c c2 c3) with false by (unfold is_usp3; lia). reflexivity.
Qed.
Lemma trim_left_rev_plain c t : plain c -> trim_left_rev (c :: t) = c :: t.
Proof.
  intros [Hc Hs]. cbn [trim_left_rev]. rewrite Hs.
  destruct t as [|c2 t2]; [reflexivity|].
  replace (is_usp2 c2 c) with false by (unfold is_usp2; lia).
  destruct t2 as [|c3 t3]; [reflexivity|].
  replace (is_usp3 c3 c2 c) with false by (unfold is_usp3; lia). reflexivity.
Qed.
Lemma trim_left_space c t : is_ascii_space c = true -> trim_left (c :: t) = trim_left t.
Proof. intros H. cbn [trim_left]. rewrite H. reflexivity. Qed.
Lemma trim_left_rev_space c t : is_ascii_space c = true -> trim_left_rev (c :: t) = trim_left_rev t.
Proof. intros H. cbn [trim_left_rev]. rewrite H. reflexivity. Qed.

Lemma trim_right_plain l c : plain c -> trim_right (l ++ [c]) = l ++ [c].
Proof.
  intros H. unfold trim_right. rewrite !rev'_rev, rev_unit, trim_left_rev_plain by assumption.
  rewrite <- (rev_unit l c). apply rev_involutive.
Qed.
Lemma trim_right_space l c : is_ascii_space c = true -> trim_right (l ++ [c]) = trim_right l.
Proof.
  intros H. unfold trim_right. rewrite !rev'_rev, rev_unit, trim_left_rev_space by assumption. reflexivity.
Qed.
Lemma trim_right_nil : trim_right [] = [].
Proof. reflexivity. Qed.

Lemma dec_char_plain c : is_dec_char c = true -> plain c.
Proof. unfold is_dec_char, plain, is_ascii_space. lia. Qed.

(* a non-empty digit string is untouched by TrimSpace, also with blanks / CR LF around it *)
Lemma digits_last n : exists l c, to_dec n = l ++ [c] /\ is_dec_char c = true.
Proof.
  destruct (exists_last (to_dec_nonempty n)) as (l & c & E). exists l, c. split; [assumption|].
  pose proof (to_dec_chars n) as F. rewrite E in F. apply Forall_app in F as [_ F]. inversion F; assumption.
Qed.
Lemma digits_head n : exists c l, to_dec n = c :: l /\ is_dec_char c = true.
Proof.
  pose proof (to_dec_nonempty n) as NE. pose proof (to_dec_chars n) as F.
  destruct (to_dec n) as [|c l]; [congruence|]. exists c, l. split; [reflexivity|]. inversion F; assumption.
Qed.

Lemma trim_space_digits n : trim_space (32 :: to_dec n) = to_dec n.
Proof.
  unfold trim_space. rewrite trim_left_space by reflexivity.
  destruct (digits_head n) as (c & l & E & Hc). rewrite E, trim_left_plain by (apply dec_char_plain; assumption).
  rewrite <- E. destruct (digits_last n) as (l' & c' & E' & Hc'). rewrite E'.
  apply trim_right_plain. apply dec_char_plain; assumption.
Qed.

Lemma trim_space_crlf : trim_space [CR; LF] = [].
Proof. reflexivity. Qed.

(* ------------------------------------------------------------------ the header line the writer emits *)
Lemma split_colon_app : forall a b, ~ In COLON a -> split_colon (a ++ COLON :: b) = Some (a, b).
Proof.
  induction a as [|c a IH]; intros b NI; cbn [app split_colon].
  - rewrite N.eqb_refl. reflexivity.
  - destruct (N.eqb_spec c COLON) as [->|NE]; [exfalso; apply NI; left; reflexivity|].
    rewrite IH by (intros I; apply NI; right; exact I). reflexivity.
Qed.

Lemma parse_int32_digits n : parse_int32 (to_dec n) =
  if n <=? 2147483647 then Some (Z.of_N n) else None.
Proof.
  destruct (digits_head n) as (c & l & E & Hc). unfold parse_int32. rewrite E.
  replace (c =? 43) with false by (unfold is_dec_char in Hc; lia).
  replace (c =? 45) with false by (unfold is_dec_char in Hc; lia).
  rewrite <- E, parse_to_dec. reflexivity.
Qed.

Lemma not_in_forall (P : N -> bool) x l : Forall (fun c => P c = true) l -> P x = false -> ~ In x l.
Proof. intros F Hx I. rewrite Forall_forall in F. apply F in I. congruence. Qed.

Definition header_line (n : N) : str := header_prefix ++ to_dec n ++ [CR; LF].

Lemma header_line_read n tail : read_string (header_line n ++ tail) = (header_line n, tail, true).
Proof.
  unfold header_line.
  replace ((header_prefix ++ to_dec n ++ [CR; LF]) ++ tail) with ((header_prefix ++ to_dec n ++ [CR]) ++ LF :: tail)
    by (rewrite <- !app_assoc; reflexivity).
  rewrite read_string_app.
  - rewrite <- !app_assoc. reflexivity.
  - intros I. apply in_app_or in I as [I|I].
    + revert I. unfold header_prefix, content_length, LF, COLON. cbn [app In]. intuition discriminate.
    + apply in_app_or in I as [I|I].
      * revert I. apply not_in_forall with (P := is_dec_char); [apply to_dec_chars|reflexivity].
      * destruct I as [I|[]]. discriminate.
Qed.

Lemma header_line_trim n : trim_space (header_line n) = header_prefix ++ to_dec n.
Proof.
  unfold trim_space, header_line. unfold header_prefix at 1, content_length at 1.
  cbn [app]. rewrite trim_left_plain by (split; [lia|reflexivity]).
  change (67 :: 111 :: 110 :: 116 :: 101 :: 110 :: 116 :: 45 :: 76 :: 101 :: 110 :: 103 :: 116 :: 104 :: COLON :: 32 :: to_dec n ++ [CR; LF])
    with (header_prefix ++ to_dec n ++ [CR; LF]).
  destruct (digits_last n) as (l & c & E & Hc). rewrite E.
  replace (header_prefix ++ (l ++ [c]) ++ [CR; LF]) with (((header_prefix ++ l ++ [c]) ++ [CR]) ++ [LF])
    by (rewrite <- !app_assoc; reflexivity).
  rewrite trim_right_space by reflexivity. rewrite trim_right_space by reflexivity.
  replace (header_prefix ++ l ++ [c]) with ((header_prefix ++ l) ++ [c]) by (rewrite <- app_assoc; reflexivity).
  apply trim_right_plain. apply dec_char_plain. assumption.
Qed.

Lemma header_line_split n : split_colon (header_prefix ++ to_dec n) = Some (content_length, 32 :: to_dec n).
Proof.
  unfold header_prefix. rewrite <- app_assoc. cbn [app]. apply split_colon_app.
  unfold content_length, COLON. cbn [In]. intuition discriminate.
Qed.

Lemma header_line_nonempty n : header_prefix ++ to_dec n <> [].
Proof. unfold header_prefix, content_length. cbn [app]. discriminate. Qed.

(* ------------------------------------------------------------------ one iteration of the header loop *)
Inductive act := AStop (r : hres) | ACont (total : N) (length : Z).

Definition line_act (line rest : str) (total : N) (length : Z) : act :=
  let total := total + nlen line in
  match trim_space line with
  | [] => AStop (HDone rest total length)
  | c :: tl =>
    match split_colon (c :: tl) with
    | None => AStop (HErr EHdrLine total)
    | Some (name, value) =>
      if str_eqb name content_length then
        match parse_int32 (trim_space value) with
        | None => AStop (HErr EHdrLength total)
        | Some z => if (z <=? 0)%Z then AStop (HErr EHdrLength total) else ACont total z
        end
      else ACont total length
    end
  end.

Lemma header_loop_unf f s total length :
  header_loop (S f) s total length =
  let '(line, rest, ok) := read_string s in
  if negb ok then Ok (if total + nlen line =? 0 then HErr EEOF 0 else HErr EHdrEOF (total + nlen line))
  else match line_act line rest total length with
       | AStop r => Ok r
       | ACont t l => header_loop f rest t l
       end.
Proof.
  cbn [header_loop]. destruct (read_string s) as [[line rest] ok]. destruct ok; cbn [negb]; [|reflexivity].
  unfold line_act. destruct (trim_space line) as [|c tl]; [reflexivity|].
  destruct (split_colon (c :: tl)) as [[name value]|]; [|reflexivity].
  destruct (str_eqb name content_length); [|reflexivity].
  destruct (parse_int32 (trim_space value)) as [z|]; [|reflexivity].
  destruct (z <=? 0)%Z; reflexivity.
Qed.

(* what one header line does depends on what follows it only by handing it on *)
Lemma line_act_cases line rest t l :
  (line_act line rest t l = AStop (HDone rest (t + nlen line) l)
     /\ forall rest', line_act line rest' t l = AStop (HDone rest' (t + nlen line) l))
  \/ (exists e, (e = EHdrLine \/ e = EHdrLength) /\ forall rest', line_act line rest' t l = AStop (HErr e (t + nlen line)))
  \/ (exists l', (l' = l \/ (0 < l' < 2147483648)%Z) /\ forall rest', line_act line rest' t l = ACont (t + nlen line) l').
Proof.
  unfold line_act. destruct (trim_space line) as [|c tl]; [left; split; reflexivity|].
  destruct (split_colon (c :: tl)) as [[name value]|]; [|right; left; exists EHdrLine; split; [left|]; reflexivity].
  destruct (str_eqb name content_length); [|right; right; exists l; split; [left|]; reflexivity].
  destruct (parse_int32 (trim_space value)) as [z|] eqn:P; [|right; left; exists EHdrLength; split; [right|]; reflexivity].
  destruct (Z.leb_spec z 0); [right; left; exists EHdrLength; split; [right|]; reflexivity|].
  right; right. exists z. split; [right|reflexivity].
  unfold parse_int32 in P. destruct (trim_space value) as [|c0 v0]; [discriminate|].
  assert (G : forall neg ds, match parse_dec ds with
            | Some n => if neg : bool then if n <=? 2147483648 then Some (- Z.of_N n)%Z else None
                        else if n <=? 2147483647 then Some (Z.of_N n) else None
            | None => None end = Some z -> (0 < z < 2147483648)%Z).
  { intros neg ds Q. destruct (parse_dec ds) as [n|]; [|discriminate]. destruct neg.
    - destruct (n <=? 2147483648); [|discriminate]. injection Q as <-. lia.
    - destruct (N.leb_spec n 2147483647); [|discriminate]. injection Q as <-. lia. }
  destruct (c0 =? 43); [exact (G false v0 P)|]. destruct (c0 =? 45); [exact (G true v0 P)|exact (G false (c0 :: v0) P)].
Qed.

Definition hdr_err (e : rerr) : Prop := e = EHdrLine \/ e = EHdrLength.

(* The header loop only ever looks at the lines it consumes: its outcome on  h ++ anything  is
   the outcome on s, for the consumed prefix h of s. *)
Lemma header_loop_prefix : forall fuel s t l r, header_loop fuel s t l = Ok r ->
  match r with
  | HDone rest total len =>
      exists h, s = h ++ rest /\ total = t + nlen h /\ h <> [] /\ (len = l \/ (0 < len < 2147483648)%Z) /\
        forall f' rest', (length h < f')%nat -> header_loop f' (h ++ rest') t l = Ok (HDone rest' total len)
  | HErr EEOF total => s = [] /\ t = 0 /\ total = 0
  | HErr EHdrEOF total => total = t + nlen s /\ total <> 0
  | HErr e total =>
      hdr_err e /\ exists h rest, s = h ++ rest /\ total = t + nlen h /\ h <> [] /\
        forall f' rest', (length h < f')%nat -> header_loop f' (h ++ rest') t l = Ok (HErr e total)
  end.
Proof.
  induction fuel as [|f IH]; intros s t l r H; [discriminate|].
  rewrite header_loop_unf in H. destruct (read_string s) as [[line rest] ok] eqn:R.
  destruct ok; cbn [negb] in H.
  - pose proof (read_string_split _ _ _ _ R) as Es.
    pose proof (read_string_line_any _ _ _ R) as Rany.
    assert (NEl : line <> []).
    { destruct (read_string_ok _ _ _ R) as (l' & -> & _). destruct l'; discriminate. }
    destruct (line_act_cases line rest t l) as [[A Aany]|[(e & He & Aany)|(l' & Hl' & Aany)]].
    + rewrite A in H. injection H as <-. exists line. repeat split; auto.
      intros f' rest' Hf. destruct f' as [|f']; [lia|].
      rewrite header_loop_unf, Rany. cbn [negb]. rewrite Aany. reflexivity.
    + rewrite Aany in H. injection H as <-.
      assert (G : hdr_err e /\ exists h rest0, s = h ++ rest0 /\ t + nlen line = t + nlen h /\ h <> [] /\
                forall f' rest', (length h < f')%nat -> header_loop f' (h ++ rest') t l = Ok (HErr e (t + nlen line))).
      { split; [exact He|]. exists line, rest. repeat split; auto.
        intros f' rest' Hf. destruct f' as [|f']; [lia|].
        rewrite header_loop_unf, Rany. cbn [negb]. rewrite Aany. reflexivity. }
      destruct He as [-> | ->]; exact G.
    + rewrite Aany in H. apply IH in H.
      destruct r as [e total|rest0 total len].
      * destruct e.
        -- destruct H as (_ & H0 & _). exfalso.
           assert (nlen line <> 0) by (unfold nlen; destruct line; [congruence|cbn [length]; lia]). lia.
        -- destruct H as (-> & Hne). split; [|assumption]. rewrite Es, nlen_app. lia.
        -- destruct H as (He & h & rest1 & -> & -> & Hh & Hany). split; [assumption|].
           exists (line ++ h), rest1. rewrite Es, <- app_assoc, nlen_app. repeat split; auto; try lia.
           ++ destruct line; [congruence|discriminate].
           ++ intros f' rest' Hf. destruct f' as [|f']; [cbn [length] in Hf; lia|].
              rewrite <- app_assoc, header_loop_unf, Rany. cbn [negb]. rewrite Aany.
              apply Hany. rewrite app_length in Hf. destruct line; [congruence|cbn [length] in Hf; lia].
        -- destruct H as (He & h & rest1 & -> & -> & Hh & Hany). split; [assumption|].
           exists (line ++ h), rest1. rewrite Es, <- app_assoc, nlen_app. repeat split; auto; try lia.
           ++ destruct line; [congruence|discriminate].
           ++ intros f' rest' Hf. destruct f' as [|f']; [cbn [length] in Hf; lia|].
              rewrite <- app_assoc, header_loop_unf, Rany. cbn [negb]. rewrite Aany.
              apply Hany. rewrite app_length in Hf. destruct line; [congruence|cbn [length] in Hf; lia].
        -- destruct H as ([E|E] & _); discriminate.
        -- destruct H as ([E|E] & _); discriminate.
        -- destruct H as ([E|E] & _); discriminate.
      * destruct H as (h & -> & -> & Hh & Hlen & Hany).
        assert (Hlen' : len = l \/ (0 < len < 2147483648)%Z) by (destruct Hlen as [->|Hlen]; [assumption|right; assumption]).
        exists (line ++ h). rewrite Es, <- app_assoc, nlen_app. repeat split; auto; try lia.
        -- destruct line; [congruence|discriminate].
        -- intros f' rest' Hf. destruct f' as [|f']; [cbn [length] in Hf; lia|].
           rewrite <- app_assoc, header_loop_unf, Rany. cbn [negb]. rewrite Aany.
           apply Hany. rewrite app_length in Hf. destruct line; [congruence|cbn [length] in Hf; lia].
  - destruct (read_string_eof _ _ _ R) as (-> & -> & NI).
    destruct (N.eqb_spec (t + nlen s) 0) as [E|NE]; injection H as <-.
    + assert (nlen s = 0) by lia. repeat split; try lia. destruct s; [reflexivity|rewrite nlen_cons in *; lia].
    + split; [reflexivity|assumption].
Qed.

(* fuel |s|+1 is enough: every iteration consumes a line of at least one byte *)
Lemma header_loop_total : forall fuel s t l, (length s < fuel)%nat -> exists r, header_loop fuel s t l = Ok r.
Proof.
  induction fuel as [|f IH]; intros s t l Hf; [lia|].
  rewrite header_loop_unf. destruct (read_string s) as [[line rest] ok] eqn:R.
  destruct ok; cbn [negb]; [|eexists; reflexivity].
  destruct (line_act line rest t l) as [r|t' l']; [eexists; reflexivity|].
  apply IH. pose proof (read_string_split _ _ _ _ R) as ->.
  destruct (read_string_ok _ _ _ R) as (l0 & -> & _). rewrite !app_length in Hf. cbn [length] in Hf. lia.
Qed.

(* ------------------------------------------------------------------ Read as a whole *)
(* h is a complete header block declaring a body of d bytes, whatever follows it *)
Definition declares (h : str) (d : N) : Prop :=
  h <> [] /\ 0 < d < 2147483648 /\
  forall f' rest', (length h < f')%nat -> header_loop f' (h ++ rest') 0 0%Z = Ok (HDone rest' (nlen h) (Z.of_N d)).

Lemma read_frame_unf s : read_frame s =
  match header_loop (S (length s)) s 0 0%Z with
  | Ok (HErr e total) => Ok (RErr e, total)
  | Ok (HDone rest total len) =>
    if (len =? 0)%Z then Ok (RErr EHdrMissing, total) else
    if Z.to_N len <=? nlen rest then Ok (RPayload (firstn (N.to_nat (Z.to_N len)) rest), total + Z.to_N len)
    else Ok (RErr (if nlen rest =? 0 then EBodyEOF else EBodyShort), total + nlen rest)
  | Panic => Panic
  | OutOfFuel => OutOfFuel
  end.
Proof. reflexivity. Qed.

Lemma read_frame_declared h d rest : declares h d ->
  read_frame (h ++ rest) =
    if d <=? nlen rest then Ok (RPayload (firstn (N.to_nat d) rest), nlen h + d)
    else Ok (RErr (if nlen rest =? 0 then EBodyEOF else EBodyShort), nlen h + nlen rest).
Proof.
  intros (Hne & Hd & Hl). rewrite read_frame_unf, Hl by (rewrite app_length; lia).
  replace (Z.of_N d =? 0)%Z with false by lia. rewrite N2Z.id. reflexivity.
Qed.

Definition hdr_stage_err (e : rerr) : Prop := e = EHdrLine \/ e = EHdrLength \/ e = EHdrMissing.

Theorem read_frame_cases s r n : read_frame s = Ok (r, n) ->
  match r with
  | RPayload p =>
      exists h, declares h (nlen p) /\ s = h ++ p ++ skipn (N.to_nat n) s /\ n = nlen h + nlen p
  | RErr EEOF => s = [] /\ n = 0
  | RErr EHdrEOF => n = nlen s /\ n <> 0
  | RErr EBodyEOF => exists d, declares s d /\ n = nlen s
  | RErr EBodyShort => exists h body d, declares h d /\ s = h ++ body /\ 0 < nlen body < d /\ n = nlen s
  | RErr e =>
      hdr_stage_err e /\ exists h rest, h <> [] /\ s = h ++ rest /\ n = nlen h /\
        forall rest', read_frame (h ++ rest') = Ok (RErr e, n)
  end.
Proof.
  intros H. rewrite read_frame_unf in H.
  destruct (header_loop (S (length s)) s 0 0%Z) as [r0| |] eqn:HL; try discriminate.
  pose proof (header_loop_prefix _ _ _ _ _ HL) as P.
  destruct r0 as [e total|rest total len].
  - injection H as <- <-.
    destruct e; try (destruct P as ([E|E] & _); discriminate).
    + destruct P as (-> & _ & ->). split; reflexivity.
    + destruct P as (-> & Hne). split; [lia|assumption].
    + destruct P as (He & h & rest & -> & -> & Hh & Hany). split; [left; reflexivity|].
      exists h, rest. repeat split; auto; try lia.
      intros rest'. rewrite read_frame_unf, Hany by (rewrite app_length; lia); try reflexivity; try (f_equal; f_equal; lia).
    + destruct P as (He & h & rest & -> & -> & Hh & Hany). split; [right; left; reflexivity|].
      exists h, rest. repeat split; auto; try lia.
      intros rest'. rewrite read_frame_unf, Hany by (rewrite app_length; lia); try reflexivity; try (f_equal; f_equal; lia).
  - destruct P as (h & -> & -> & Hh & Hlen & Hany).
    destruct (Z.eqb_spec len 0) as [->|NZ].
    + injection H as <- <-. split; [right; right; reflexivity|].
      exists h, rest. repeat split; auto; try lia.
      intros rest'. rewrite read_frame_unf, Hany by (rewrite app_length; lia); try reflexivity.
    + destruct Hlen as [->|Hlen]; [congruence|].
      assert (D : declares h (Z.to_N len)).
      { repeat split; auto; try lia. intros f' rest' Hf. rewrite Z2N.id by lia. rewrite Hany by assumption; try reflexivity;
        try (f_equal; f_equal; lia). }
      destruct (N.leb_spec (Z.to_N len) (nlen rest)) as [Hle|Hgt].
      * injection H as <- <-.
        assert (Lp : length (firstn (N.to_nat (Z.to_N len)) rest) = N.to_nat (Z.to_N len))
          by (apply firstn_length_le; unfold nlen in Hle; lia).
        assert (Np : nlen (firstn (N.to_nat (Z.to_N len)) rest) = Z.to_N len) by (unfold nlen; rewrite Lp; lia).
        exists h. rewrite Np. split; [exact D|]. split; [|lia].
        match goal with |- context [skipn ?k _] =>
          replace k with (length h + N.to_nat (Z.to_N len))%nat by (unfold nlen; lia) end.
        rewrite skipn_app. rewrite skipn_all2 by lia. cbn [app].
        replace (length h + N.to_nat (Z.to_N len) - length h)%nat with (N.to_nat (Z.to_N len)) by lia.
        rewrite firstn_skipn. reflexivity.
      * injection H as <- <-. destruct (N.eqb_spec (nlen rest) 0) as [E0|NE0].
        -- assert (rest = []) by (destruct rest; [reflexivity|rewrite nlen_cons in E0; lia]). subst rest.
           rewrite app_nil_r. exists (Z.to_N len). split; [exact D|]. rewrite nlen_nil. lia.
        -- exists h, rest, (Z.to_N len). split; [exact D|]. rewrite nlen_app. repeat split; auto; lia.
Qed.

(* ---- the Props-level corollaries *)
Theorem read_total s : exists r n, read_frame s = Ok (r, n) /\ n <= nlen s.
Proof.
  destruct (header_loop_total (S (length s)) s 0 0%Z ltac:(lia)) as [r0 HL].
  assert (E : exists r n, read_frame s = Ok (r, n)).
  { rewrite read_frame_unf, HL. destruct r0 as [e total|rest total len]; [eauto|].
    destruct (len =? 0)%Z; [eauto|]. destruct (Z.to_N len <=? nlen rest); eauto. }
  destruct E as (r & n & E). exists r, n. split; [assumption|].
  pose proof (read_frame_cases _ _ _ E) as C. destruct r as [p|e].
  - destruct C as (h & _ & Es & ->). apply (f_equal nlen) in Es. rewrite !nlen_app in Es. lia.
  - destruct e.
    + destruct C as (_ & ->). lia.
    + destruct C as (-> & _). lia.
    + destruct C as (_ & h & rest & _ & -> & -> & _). rewrite nlen_app. lia.
    + destruct C as (_ & h & rest & _ & -> & -> & _). rewrite nlen_app. lia.
    + destruct C as (_ & h & rest & _ & -> & -> & _). rewrite nlen_app. lia.
    + destruct C as (d & _ & ->). lia.
    + destruct C as (h & body & d & _ & _ & _ & ->). lia.
Qed.

(* a read that is not the clean EOF consumes at least one byte *)
Theorem read_progress s r n : read_frame s = Ok (r, n) -> n = 0 -> r = RErr EEOF /\ s = [].
Proof.
  intros H ->. pose proof (read_frame_cases _ _ _ H) as C. destruct r as [p|e].
  - destruct C as (h & (Hne & _) & _ & E). destruct h; [congruence|rewrite nlen_cons in E; lia].
  - destruct e.
    + destruct C as (-> & _). auto.
    + destruct C as (_ & C). congruence.
    + destruct C as (_ & h & rest & Hne & _ & E & _). destruct h; [congruence|rewrite nlen_cons in E; lia].
    + destruct C as (_ & h & rest & Hne & _ & E & _). destruct h; [congruence|rewrite nlen_cons in E; lia].
    + destruct C as (_ & h & rest & Hne & _ & E & _). destruct h; [congruence|rewrite nlen_cons in E; lia].
    + destruct C as (d & (Hne & _) & E). destruct s; [congruence|rewrite nlen_cons in E; lia].
    + destruct C as (h & body & d & (Hne & _) & -> & _ & E). destruct h; [congruence|cbn [app] in E; rewrite nlen_cons in E; lia].
Qed.

Theorem read_consumes_exactly s p n : read_frame s = Ok (RPayload p, n) ->
  exists h, declares h (nlen p) /\ s = h ++ p ++ skipn (N.to_nat n) s /\ n = nlen h + nlen p /\ 0 < nlen p < 2147483648.
Proof.
  intros H. destruct (read_frame_cases _ _ _ H) as (h & D & Es & En). exists h. repeat split; auto; apply D.
Qed.

(* whatever the outcome, Read never consumes beyond header + declared length *)
Theorem read_never_past_declared s r n h d rest :
  read_frame s = Ok (r, n) -> declares h d -> s = h ++ rest -> nlen h <= n <= nlen h + d.
Proof.
  intros H D ->. rewrite (read_frame_declared _ _ _ D) in H.
  destruct (N.leb_spec d (nlen rest)); injection H as <- <-; lia.
Qed.

(* the outcome of a read that does not end at EOF depends only on the bytes it consumed *)
Theorem read_prefix_determined s r n : read_frame s = Ok (r, n) ->
  match r with RErr EEOF | RErr EHdrEOF | RErr EBodyEOF | RErr EBodyShort => True
  | _ => forall t, read_frame (firstn (N.to_nat n) s ++ t) = Ok (r, n) end.
Proof.
  intros H. pose proof (read_frame_cases _ _ _ H) as C. destruct r as [p|e].
  - destruct C as (h & D & Es & En). intros t.
    assert (F : firstn (N.to_nat n) s = h ++ p).
    { rewrite Es. replace (N.to_nat n) with (length (h ++ p)) by (rewrite app_length; unfold nlen in En; lia).
      rewrite app_assoc. apply firstn_app_exact. }
    rewrite F, <- app_assoc, (read_frame_declared _ _ _ D), nlen_app.
    replace (nlen p <=? nlen p + nlen t) with true by lia.
    rewrite nlen_to_nat, firstn_app_exact. f_equal. f_equal. lia.
  - destruct e; auto.
    + destruct C as (_ & h & rest & Hne & -> & -> & Hany). intros t. rewrite nlen_to_nat, firstn_app_exact. apply Hany.
    + destruct C as (_ & h & rest & Hne & -> & -> & Hany). intros t. rewrite nlen_to_nat, firstn_app_exact. apply Hany.
    + destruct C as (_ & h & rest & Hne & -> & -> & Hany). intros t. rewrite nlen_to_nat, firstn_app_exact. apply Hany.
Qed.

Theorem read_error_consumption_bounded s e n : read_frame s = Ok (RErr e, n) ->
  n <= nlen s /\
  match e with
  | EEOF => s = [] /\ n = 0
  | EHdrEOF => n = nlen s
  | EBodyEOF => exists d, declares s d /\ n = nlen s
  | EBodyShort => exists h body d, declares h d /\ s = h ++ body /\ 0 < nlen body < d /\ n = nlen s
  | _ => exists h rest, h <> [] /\ s = h ++ rest /\ n = nlen h /\ forall rest', read_frame (h ++ rest') = Ok (RErr e, n)
  end.
Proof.
  intros H. split.
  - destruct (read_total s) as (r & n' & E & Hn). rewrite H in E. injection E as <- <-. assumption.
  - pose proof (read_frame_cases _ _ _ H) as C. destruct e; try exact C; try (destruct C as (_ & C); exact C).
    destruct C as (-> & _). reflexivity.
Qed.

(* ------------------------------------------------------------------ what the writer writes *)
Lemma header_line_act n rest t l : 0 < n <= 2147483647 ->
  line_act (header_line n) rest t l = ACont (t + nlen (header_line n)) (Z.of_N n).
Proof.
  intros Hn. unfold line_act. rewrite header_line_trim.
  destruct (header_prefix ++ to_dec n) as [|c tl] eqn:E; [exfalso; revert E; apply header_line_nonempty|].
  rewrite <- E, header_line_split.
  replace (str_eqb content_length content_length) with true by reflexivity.
  rewrite trim_space_digits, parse_int32_digits.
  replace (n <=? 2147483647) with true by lia.
  replace (Z.of_N n <=? 0)%Z with false by lia. reflexivity.
Qed.

Lemma header_line_act_big n rest t l : 2147483647 < n ->
  line_act (header_line n) rest t l = AStop (HErr EHdrLength (t + nlen (header_line n))).
Proof.
  intros Hn. unfold line_act. rewrite header_line_trim.
  destruct (header_prefix ++ to_dec n) as [|c tl] eqn:E; [exfalso; revert E; apply header_line_nonempty|].
  rewrite <- E, header_line_split.
  replace (str_eqb content_length content_length) with true by reflexivity.
  rewrite trim_space_digits, parse_int32_digits.
  replace (n <=? 2147483647) with false by lia. reflexivity.
Qed.

Lemma header_line_act_zero rest t l :
  line_act (header_line 0) rest t l = AStop (HErr EHdrLength (t + nlen (header_line 0))).
Proof. reflexivity. Qed.

Definition frame_header (n : N) : str := header_line n ++ [CR; LF].

Lemma write_frame_eq p : write_frame p = frame_header (nlen p) ++ p.
Proof. unfold write_frame, frame_header, header_line. rewrite <- !app_assoc. reflexivity. Qed.

Lemma frame_header_declares n : 0 < n < 2147483648 -> declares (frame_header n) n.
Proof.
  intros Hn. split; [unfold frame_header, header_line, header_prefix, content_length; cbn [app]; discriminate|].
  split; [assumption|]. intros f' rest' Hf.
  assert (L2 : (2 <= length (frame_header n))%nat).
  { unfold frame_header. rewrite app_length. cbn [length]. lia. }
  destruct f' as [|[|f]]; try lia.
  unfold frame_header. rewrite <- app_assoc, header_loop_unf, header_line_read. cbn [negb].
  rewrite header_line_act by lia.
  rewrite header_loop_unf. cbn [app read_string]. replace (CR =? LF) with false by reflexivity.
  rewrite N.eqb_refl. cbn [negb]. unfold line_act. rewrite trim_space_crlf.
  f_equal. f_equal. rewrite nlen_app. reflexivity.
Qed.

Theorem frame_roundtrip p rest : 0 < nlen p < 2147483648 ->
  read_frame (write_frame p ++ rest) = Ok (RPayload p, nlen (write_frame p)).
Proof.
  intros Hp. rewrite write_frame_eq, <- app_assoc.
  rewrite (read_frame_declared _ _ _ (frame_header_declares _ Hp)), !nlen_app.
  replace (nlen p <=? nlen p + nlen rest) with true by lia.
  rewrite nlen_to_nat, firstn_app_exact. reflexivity.
Qed.

(* the bound is sharp: a payload of 2^31 bytes or more, and the empty payload, are written by the
   writer but rejected by the reader at the Content-Length line *)
Theorem oversize_rejected p rest : 2147483648 <= nlen p ->
  read_frame (write_frame p ++ rest) = Ok (RErr EHdrLength, nlen (header_line (nlen p))).
Proof.
  intros Hp. rewrite write_frame_eq. unfold frame_header. rewrite <- !app_assoc.
  rewrite read_frame_unf. cbn [length]. rewrite header_loop_unf, header_line_read. cbn [negb].
  rewrite header_line_act_big by lia. reflexivity.
Qed.
Theorem empty_rejected rest :
  read_frame (write_frame [] ++ rest) = Ok (RErr EHdrLength, nlen (header_line 0)).
Proof.
  rewrite write_frame_eq. unfold frame_header. rewrite <- !app_assoc.
  rewrite read_frame_unf. cbn [length]. change (nlen []) with 0. rewrite header_loop_unf, header_line_read. cbn [negb].
  rewrite header_line_act_zero. reflexivity.
Qed.

(* ------------------------------------------------------------------ streams *)
Lemma read_all_unf f s : read_all (S f) s =
  match read_frame s with
  | Ok (r, n) =>
    match r with
    | RErr EEOF => Ok [(r, n)]
    | _ => match read_all f (skipn (N.to_nat n) s) with Ok l => Ok ((r, n) :: l) | Panic => Panic | OutOfFuel => OutOfFuel end
    end
  | Panic => Panic
  | OutOfFuel => OutOfFuel
  end.
Proof. reflexivity. Qed.

Lemma read_frame_nil : read_frame [] = Ok (RErr EEOF, 0).
Proof. reflexivity. Qed.

Definition payload_ok (p : str) : Prop := 0 < nlen p < 2147483648.

Lemma read_all_stream : forall ps fuel tail l, Forall payload_ok ps -> (length ps < fuel)%nat ->
  read_all (fuel - length ps) tail = Ok l ->
  read_all fuel (write_stream ps ++ tail) = Ok (map (fun p => (RPayload p, nlen (write_frame p))) ps ++ l).
Proof.
  induction ps as [|p ps IH]; intros fuel tail l F Hf Ht.
  - cbn [write_stream map concat app length] in *. rewrite Nat.sub_0_r in Ht. assumption.
  - inversion F as [|? ? Hp F']; subst. cbn [length] in Hf. destruct fuel as [|fuel]; [lia|].
    unfold write_stream. cbn [map concat]. rewrite <- app_assoc, read_all_unf, frame_roundtrip by assumption.
    rewrite nlen_to_nat, skipn_app_exact.
    fold (write_stream ps). rewrite (IH fuel tail l F'); [reflexivity|lia|].
    cbn [length] in Ht. replace (fuel - length ps)%nat with (S fuel - S (length ps))%nat by lia. assumption.
Qed.

Lemma write_stream_length ps : Forall payload_ok ps -> (length ps <= length (write_stream ps))%nat.
Proof.
  induction 1 as [|p ps Hp F IH]; [cbn; lia|].
  unfold write_stream in *. cbn [map concat length]. rewrite app_length, write_frame_eq, app_length.
  unfold payload_ok, nlen in Hp. lia.
Qed.

Theorem stream_roundtrip ps : Forall payload_ok ps ->
  read_stream (write_stream ps) =
    Ok (map (fun p => (RPayload p, nlen (write_frame p))) ps ++ [(RErr EEOF, 0)]).
Proof.
  intros F. unfold read_stream. rewrite <- (app_nil_r (write_stream ps)) at 2.
  pose proof (write_stream_length ps F) as L.
  apply read_all_stream; [assumption|lia|].
  destruct (S (length (write_stream ps)) - length ps)%nat as [|k] eqn:E; [lia|].
  rewrite read_all_unf, read_frame_nil. reflexivity.
Qed.

(* reading any stream to its end terminates with the fuel |s|+1 and never panics *)
Lemma read_all_total : forall fuel s, (length s < fuel)%nat -> exists l, read_all fuel s = Ok l.
Proof.
  induction fuel as [|f IH]; intros s Hf; [lia|].
  rewrite read_all_unf. destruct (read_total s) as (r & n & E & Hn). rewrite E.
  assert (G : r = RErr EEOF \/ exists l, read_all f (skipn (N.to_nat n) s) = Ok l).
  { destruct (N.eq_dec n 0) as [->|NZ].
    - left. apply (read_progress _ _ _ E eq_refl).
    - right. apply IH. rewrite skipn_length. unfold nlen in Hn. lia. }
  destruct G as [->|(l & G)]; [eexists; reflexivity|]. rewrite G.
  destruct r as [p|e]; [eexists; reflexivity|]. destruct e; eexists; reflexivity.
Qed.
Theorem read_stream_total s : exists l, read_stream s = Ok l.
Proof. apply read_all_total. lia. Qed.

(* ------------------------------------------------------------------ with a message codec *)
Section Codec.
  Variable msg : Type.
  Variable enc : msg -> str.              (* EncodeMessage *)
  Variable dec : str -> option msg.       (* DecodeMessage; None = error *)
  Variable good : msg -> Prop.            (* the message domain on which the codec round-trips *)
  Hypothesis dec_enc : forall m, good m -> dec (enc m) = Some m.
  Hypothesis enc_size : forall m, good m -> payload_ok (enc m).

  (* what the caller of Reader.Read gets *)
  Definition deliver (x : rres * N) : option msg :=
    match fst x with RPayload p => dec p | RErr _ => None end.

  Theorem stream_roundtrip_codec ms : Forall good ms ->
    exists l, read_stream (write_stream (map enc ms)) = Ok (l ++ [(RErr EEOF, 0)])
      /\ map deliver l = map Some ms.
  Proof.
    intros F. eexists. split.
    - apply stream_roundtrip. rewrite Forall_map. eapply Forall_impl; [|exact F]. exact enc_size.
    - rewrite !map_map. induction F as [|m ms Hm F IH]; [reflexivity|].
      cbn [map]. f_equal; [|exact IH]. unfold deliver. cbn [fst]. apply dec_enc. assumption.
  Qed.
End Codec.

(* ------------------------------------------------------------------ success characterised; malformed => error *)
Definition well_framed (s : str) : Prop := exists h p rest, declares h (nlen p) /\ s = h ++ p ++ rest.

Theorem read_success_iff s : (exists p n, read_frame s = Ok (RPayload p, n)) <-> well_framed s.
Proof.
  split.
  - intros (p & n & H). destruct (read_consumes_exactly _ _ _ H) as (h & D & Es & _ & _).
    exists h, p, (skipn (N.to_nat n) s). auto.
  - intros (h & p & rest & D & ->). exists p, (nlen h + nlen p).
    rewrite (read_frame_declared _ _ _ D), nlen_app.
    replace (nlen p <=? nlen p + nlen rest) with true by lia.
    rewrite nlen_to_nat, firstn_app_exact. reflexivity.
Qed.

Theorem malformed_error s : ~ well_framed s -> exists e n, read_frame s = Ok (RErr e, n) /\ n <= nlen s.
Proof.
  intros NW. destruct (read_total s) as (r & n & E & Hn). destruct r as [p|e].
  - exfalso. apply NW. apply read_success_iff. eauto.
  - eauto.
Qed.
