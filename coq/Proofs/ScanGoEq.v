(* C16: on Go-like input the XGo dialect and the Go dialect produce the same result. *)
From Coq Require Import List NArith ZArith Bool Lia.
From Coq Require Import ZifyN ZifyNat ZifyBool.
Import ListNotations.
From V Require Import Base.Prelude Gen.ScanTok Model.Scan Model.ScanRel Proofs.ScanBase Proofs.ScanGo Proofs.ScanTplEq.
Open Scope Z_scope.

Lemma tk_eqb_eq a b : tk_eqb a b = true -> a = b.
Proof. unfold tk_eqb. destruct (tk_eq_dec a b); [auto|discriminate]. Qed.

Lemma skip_ws_semi fuel s : cur (skip_ws fuel true s) <> 10 -> skip_ws fuel false s = skip_ws fuel true s.
Proof.
  revert s; induction fuel as [|f IH]; intros s; cbn [skip_ws]; [reflexivity|]. cbn [negb andb].
  destruct (cur s =? 10) eqn:C10.
  - assert (cur s = 10) by lia. replace (cur s =? 32) with false by lia. replace (cur s =? 9) with false by lia.
    replace (cur s =? 13) with false by lia. cbn [orb andb]. intros N. congruence.
  - cbn [andb]. destruct ((cur s =? 32) || (cur s =? 9) || false || (cur s =? 13)); [apply IH|reflexivity].
Qed.

Section Eq.
Variable ul ud : Z -> bool.

Definition core (a b : St) : Prop := sc a = sc b /\ unit a = [] /\ unit b = [] /\ nlpos a = 0 /\ nlpos b = 0.
(* the XGo state a and the go/scanner state b are at the same place; insertSemi is the same, or
   set in XGo only (after '!' / '...') with a harmless next token *)
Definition Inv (a b : St) : Prop :=
  core a b /\ (semi a = semi b \/ (semi a = true /\ semi b = false /\ safe_follow ul (sc a) = true)).
Definition rel (x y : M outcome) : Prop :=
  match x, y with
  | Ok (Emit t a), Ok (Emit t' b) => t = t' /\ Inv a b
  | Ok (Again a), Ok (Again b) => Inv a b
  | _, _ => False
  end.

Lemma rel_emit pos t lit s' b np np' : rel (emit pos t lit s' b np []) (emit pos t lit s' b np' []).
Proof. unfold rel, emit, Inv, core. cbn. auto 10. Qed.
Lemma rel_emit_nl pos s' np np' : rel (emit_nl pos s' np) (emit_nl pos s' np').
Proof. unfold rel, emit_nl, Inv, core. cbn. auto 10. Qed.
Lemma rel_emit_mis pos t lit s' np np' :
  safe_follow ul s' = true -> rel (emit pos t lit s' true np []) (emit pos t lit s' false np' []).
Proof. intros H. unfold rel, emit, Inv, core. cbn. auto 10. Qed.

Lemma lex_word_rel stX stG s :
  (let s1 := scan_ident ul ud (S (length (rest s))) s in
   let lit := slice s s1 in
   if Nat.ltb 1 (length lit) then negb (str_eqb lit [112; 121]%N && (cur s1 =? 34))
   else negb (((cur s =? 99) || (cur s =? 67)) && (cur s1 =? 34))) = true ->
  rel (lex_word ul ud XGo stX s) (lex_word ul ud Go stG s).
Proof.
  cbv zeta. unfold lex_word. cbv zeta. cbn [is_tpl is_xgo andb]. set (s1 := scan_ident _ _ _ _).
  destruct (Nat.ltb 1 (length (slice s s1))); intros H; apply negb_true_iff in H.
  - rewrite lookup_agree. destruct (lookup Go (slice s s1)); try (rewrite H; apply rel_emit).
    rewrite kw_semi_agree. apply rel_emit.
  - rewrite H. apply rel_emit.
Qed.

Lemma scan_number_go_unit s t s1 u : scan_number ul ud Go s = (t, s1, u) -> u = 0.
Proof.
  unfold scan_number.
  destruct (num_int _ s) as [[[[[tok base] prefix] digsep] inv] sa].
  destruct (num_frac _ tok base prefix digsep inv sa) as [[[tok2 digsep2] inv2] sb].
  destruct (num_exp _ tok2 prefix digsep2 sb) as [[tok3 digsep3] sc0].
  unfold num_suffix. cbn [is_go]. destruct (cur sc0 =? 105); intros H; inversion H; reflexivity.
Qed.

Lemma lex_number_rel stX stG s : num_agree ul ud s = true ->
  rel (lex_number ul ud XGo stX s) (lex_number ul ud Go stG s).
Proof.
  unfold num_agree, lex_number.
  destruct (scan_number ul ud XGo s) as [[t1 s1] u1]. destruct (scan_number ul ud Go s) as [[t2 s2] u2] eqn:G.
  intros H. apply andb_prop in H as [H H3]. apply andb_prop in H as [H1 H2].
  apply tk_eqb_eq in H1. apply sc_eqb_eq in H2. assert (u1 = u2) by lia. subst.
  rewrite (scan_number_go_unit _ _ _ _ G). cbn [Z.to_nat firstn]. apply rel_emit.
Qed.

Ltac sw_rel :=
  match goal with
  | |- context[sw2 ?s ?a ?b] => destruct (sw2 s a b) as [? ?]; apply rel_emit
  | |- context[sw3 ?s ?a ?b ?c ?e] => destruct (sw3 s a b c e) as [? ?]; apply rel_emit
  | |- context[sw4 ?s ?a ?b ?c ?e ?g] => destruct (sw4 s a b c e g) as [? ?]; apply rel_emit
  end.

Lemma with_look_same s : cur s = 47 -> (cur (nxt s) = 47 \/ cur (nxt s) = 42) -> with_look s (nxt s) = s.
Proof.
  intros C C1. unfold with_look, nxt. destruct (decode (rest s)) as [c w] eqn:D. cbn [errs lineoff].
  assert (c = 47) by (unfold cur in C; rewrite D in C; exact C). subst c. cbn [Z.eqb Pos.eqb].
  assert (A : arrive (off s + Z.of_nat w) (skipn w (rest s)) = []).
  { unfold cur in C1. rewrite nxt_rest, D in C1. cbn [snd] in C1.
    destruct (skipn w (rest s)) as [|b0 t] eqn:R; [reflexivity|]. unfold arrive.
    assert (B : b0 = 47%N \/ b0 = 42%N).
    { destruct C1 as [C1|C1]; destruct (decode_ascii (b0 :: t) _ C1 ltac:(lia)) as (t' & R' & _); injection R' as -> _; auto. }
    destruct B as [-> | ->]; reflexivity. }
  rewrite A. destruct s; reflexivity.
Qed.

(* the default branch: stX (XGo) and stG (Go) may differ in nParen; insertSemi is equal, or the
   character is one whose case does not read it *)
Lemma lex_punct_rel cm stX stG s :
  (semi stX = semi stG \/ (semi stX = true /\ semi stG = false /\ punct_char (cur s) = true
                            /\ ((cur s =? 47) && ((cur (nxt s) =? 47) || (cur (nxt s) =? 42))) = false)) ->
  (cur s =? 35) = false -> (cur s =? 36) = false -> (cur s =? 63) = false -> (cur s =? 126) = false ->
  ((cur s =? 45) && (cur (nxt s) =? 62)) = false ->
  ((cur s =? 60) && (cur (nxt s) =? 62)) = false ->
  ((cur s =? 61) && (cur (nxt s) =? 62)) = false ->
  (if (cur s =? 47) && ((cur (nxt s) =? 47) || (cur (nxt s) =? 42))
   then negb (semi stX) && comment_agree_go s else true) = true ->
  (if (cur s =? 33) && negb (cur (nxt s) =? 61) then safe_follow ul (nxt s) else true) = true ->
  (if (cur s =? 46) && (cur (nxt s) =? 46) && (peek (nxt s) =? 46)%N && (nparen stX =? 0)
   then safe_follow ul (nxt (nxt (nxt s))) else true) = true ->
  rel (lex_punct XGo cm stX s) (lex_punct Go cm stG s).
Proof.
  intros SEMI N35 N36 N63 N126 NSR NBI NDR CMT BANG ELL.
  unfold lex_punct. cbv zeta. cbn [is_go is_xgo is_tpl negb andb np_reset].
  rewrite N35, N36, N63, N126. cbn [andb].
  destruct (cur s =? -1) eqn:EOF.
  { destruct SEMI as [SE|(SX & SG & PC & _)].
    - rewrite SE. destruct (semi stG); [apply rel_emit_nl|apply rel_emit].
    - exfalso. assert (cur s = -1) by lia. rewrite H in PC. discriminate. }
  destruct (cur s =? 10) eqn:C10; [apply rel_emit_nl|].
  destruct (cur s =? 34) eqn:C34; [apply rel_emit|].
  destruct (cur s =? 39) eqn:C39; [apply rel_emit|].
  destruct (cur s =? 96) eqn:C96; [apply rel_emit|].
  destruct (cur s =? 58) eqn:C58; [sw_rel|].
  destruct (cur s =? 46) eqn:C46.
  { cbn [andb] in ELL. destruct ((cur (nxt s) =? 46) && (peek (nxt s) =? 46)%N) eqn:EL; [|apply rel_emit].
    cbn [andb] in ELL.
    destruct (nparen stX =? 0); [apply rel_emit_mis, ELL|apply rel_emit]. }
  destruct (cur s =? 44) eqn:C44; [apply rel_emit|].
  destruct (cur s =? 59) eqn:C59; [apply rel_emit|].
  destruct (cur s =? 40) eqn:C40; [apply rel_emit|].
  destruct (cur s =? 41) eqn:C41; [apply rel_emit|].
  destruct (cur s =? 91) eqn:C91; [apply rel_emit|].
  destruct (cur s =? 93) eqn:C93; [apply rel_emit|].
  destruct (cur s =? 123) eqn:C123; [apply rel_emit|].
  destruct (cur s =? 125) eqn:C125; [apply rel_emit|].
  destruct (cur s =? 43) eqn:C43; [sw_rel|].
  destruct (cur s =? 45) eqn:C45; [cbn [andb] in NSR; rewrite NSR; sw_rel|].
  destruct (cur s =? 42) eqn:C42; [sw_rel|].
  destruct (cur s =? 47) eqn:C47.
  { cbn [andb] in CMT. destruct ((cur (nxt s) =? 47) || (cur (nxt s) =? 42)) eqn:CS; [|sw_rel].
    apply andb_prop in CMT as [SX CA]. apply negb_true_iff in SX.
    assert (SG : semi stG = false).
    { destruct SEMI as [SE|(SX' & _)]; congruence. }
    unfold lex_slash_comment. cbn [is_go]. rewrite SX, SG. cbn [andb].
    rewrite (with_look_same s ltac:(lia) ltac:(lia)).
    unfold comment_agree_go in CA.
    destruct (scan_comment_x XGo s) as [[[s2 lit] nl]| |]; try discriminate.
    destruct (scan_comment_x Go s) as [[[s2' lit'] nl']| |]; try discriminate.
    apply andb_prop in CA as [A1 A2]. apply sc_eqb_eq in A1. apply str_eqb_eq in A2. subst. cbn [bind].
    unfold comment_out. destruct cm.
    - unfold rel, emit, Inv, core. cbn. rewrite Z.sub_0_r. auto 10.
    - unfold rel, Inv, core. cbn. auto 10. }
  destruct (cur s =? 37) eqn:C37; [sw_rel|].
  destruct (cur s =? 94) eqn:C94; [sw_rel|].
  destruct (cur s =? 60) eqn:C60.
  { destruct (cur (nxt s) =? 45); [apply rel_emit|]. cbn [andb] in NBI. rewrite NBI. sw_rel. }
  destruct (cur s =? 62) eqn:C62; [sw_rel|].
  destruct (cur s =? 61) eqn:C61.
  { cbn [andb] in NDR. rewrite (sw3_as_sw2 _ _ _ _ _ NDR). sw_rel. }
  destruct (cur s =? 33) eqn:C33.
  { cbn [andb] in BANG. unfold sw2. destruct (cur (nxt s) =? 61); cbn [negb] in BANG; cbn [tk_eqb_simple andb].
    - apply rel_emit.
    - apply rel_emit_mis, BANG. }
  destruct (cur s =? 38) eqn:C38; [destruct (cur (nxt s) =? 94); sw_rel|].
  destruct (cur s =? 124) eqn:C124; [sw_rel|].
  (* ILLEGAL: preserves insertSemi *)
  destruct SEMI as [SE|(SX & SG & PC & _)].
  - rewrite SE. apply rel_emit.
  - exfalso. unfold punct_char in PC. cbn [existsb] in PC.
    rewrite C34, C39, C96, C58, C46, C44, C59, C40, C41, C91, C93, C123, C125, C43, C45, C42, C47, C37, C94, C60, C62, C61, C33, C38, C124 in PC.
    discriminate.
Qed.

Lemma step_xgo_go cm stX stG :
  Inv stX stG -> xg_plain ul ud stX = true -> rel (step ul ud XGo cm stX) (step ul ud Go cm stG).
Proof.
  intros [(SC & UX & UG & NX & NG) SEMI] P. unfold step. cbn [is_go is_xgo andb]. rewrite NG, UX, UG. cbn [Z.eqb negb].
  unfold xg_plain in P. rewrite UX in P. cbv zeta in P. rewrite <- SC.
  set (sX := skip_ws (S (length (rest (sc stX)))) (semi stX) (sc stX)) in *.
  assert (SG : skip_ws (S (length (rest (sc stX)))) (semi stG) (sc stX) = sX
               /\ (semi stX = semi stG \/
                   (semi stX = true /\ semi stG = false /\ cur sX <> -1
                    /\ ((cur sX =? 47) && ((cur (nxt sX) =? 47) || (cur (nxt sX) =? 42))) = false
                    /\ (is_letter ul (cur sX) || is_decimal (cur sX) || punct_char (cur sX)) = true))).
  { destruct SEMI as [SE|(SX & SG & SF)].
    - rewrite <- SE. split; [reflexivity|left; reflexivity].
    - unfold safe_follow in SF. cbv zeta in SF. subst sX. rewrite SX in *. rewrite SG.
      apply andb_prop in SF as [SF S4]. apply andb_prop in SF as [SF S3]. apply andb_prop in SF as [S1 S2].
      split; [apply skip_ws_semi; lia|]. right. repeat split; auto; [lia|]. apply negb_true_iff in S3. exact S3. }
  destruct SG as [-> SEMI']. unfold lex.
  destruct (is_letter ul (cur sX)) eqn:L; [apply lex_word_rel, P|].
  destruct (is_decimal (cur sX) || ((cur sX =? 46) && is_decimal_b (peek sX))) eqn:N; [apply lex_number_rel, P|].
  repeat match type of P with (_ && _) = true => let Q := fresh "Q" in apply andb_prop in P as [P Q] end.
  repeat match goal with H : negb _ = true |- _ => apply negb_true_iff in H end.
  apply lex_punct_rel; try assumption.
  destruct SEMI' as [SE|(SX & SG & C1 & C2 & C3)]; [left; exact SE|right].
  repeat split; try assumption.
  assert (is_decimal (cur sX) = false) by (destruct (is_decimal (cur sX)); [discriminate|reflexivity]).
  rewrite H in C3. cbn [orb] in C3. exact C3.
Qed.

Lemma scan_all_xgo_go cm fuel stX stG acc :
  Inv stX stG -> all_steps (xg_plain ul ud) ul ud XGo fuel cm stX = true ->
  scan_all ul ud XGo fuel cm stX acc = scan_all ul ud Go fuel cm stG acc.
Proof.
  revert stX stG acc; induction fuel as [|f IH]; intros stX stG acc I; [reflexivity|]. cbn [all_steps scan_all].
  intros H. apply andb_prop in H as [P H]. pose proof (step_xgo_go cm stX stG I P) as R. unfold rel in R.
  destruct (step ul ud XGo cm stX) as [[t a|a]| |]; destruct (step ul ud Go cm stG) as [[t' b|b]| |]; try contradiction.
  - destruct R as [<- I']. destruct (ttok t); try (apply IH; assumption).
    destruct I' as [(SC & _) _]. rewrite SC. reflexivity.
  - apply IH; assumption.
Qed.

Theorem run_xgo_go cm src : go_like ul ud cm src = true -> run ul ud XGo cm src = run ul ud Go cm src.
Proof.
  unfold go_like, run. apply scan_all_xgo_go. unfold Inv, core, init. cbn. auto 10.
Qed.
End Eq.
