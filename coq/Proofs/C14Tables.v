From Coq Require Import List NArith ZArith Bool Lia.
Import ListNotations.
From V Require Import Base.Prelude Gen.Tokens Model.C14.
Local Open Scope Z_scope.

(* ================================================================== token tables (Gen/Tokens.v) *)
Fixpoint sassoc (k : str) (l : list (str * Z)) : option Z :=
  match l with [] => None | (k', v) :: t => if str_eqb k k' then Some v else sassoc k t end.

(* every token constant of go/token has the same numeric code under the same name in token/token.go
   (fromgo casts go/token.Token to token.Token; the model uses one code space) *)
Definition go_codes_agree : bool :=
  forallb (fun kv => match sassoc (fst kv) xgo_consts with Some v => Z.eqb v (snd kv) | None => false end) go_consts.
Lemma go_codes_agree_ok : go_codes_agree = true.
Proof. vm_compute. reflexivity. Qed.

(* forall Go binary operator, prec_xgo op = prec_go op   (by name, over the generated tables) *)
Definition prec_agree_binary : bool :=
  forallb (fun kv =>
    match go_Precedence (snd kv) with
    | Ok p => if Z.ltb 0 p then
                match sassoc (fst kv) xgo_consts with
                | Some v => match xgo_Precedence v with Ok q => Z.eqb p q | _ => false end
                | None => false
                end
              else true
    | _ => false
    end) go_consts.
Lemma prec_agree_binary_ok : prec_agree_binary = true.
Proof. vm_compute. reflexivity. Qed.

(* number of Go binary operators covered by the obligation (non-vacuity) *)
Definition go_binary_ops : list (str * Z) :=
  filter (fun kv => match go_Precedence (snd kv) with Ok p => Z.ltb 0 p | _ => false end) go_consts.
Lemma go_binary_ops_count : length go_binary_ops = 19%nat.
Proof. vm_compute. reflexivity. Qed.

(* ... and for EVERY code (not only the named constants): the two Precedence functions differ
   exactly on XGo's two extra operators -> and <> *)
Ltac split_codes c :=
  repeat match goal with
  | |- context [Z.eqb c ?k] => destruct (Z.eqb_spec c k) as [->|?]; [vm_compute; reflexivity|]; cbv beta iota
  end.
Lemma prec_agree : forall c,
  xgo_Precedence c = if (c =? xgo_SRARROW) || (c =? xgo_BIDIARROW) then Ok 3 else go_Precedence c.
Proof.
  intros c. unfold xgo_Precedence, go_Precedence, xgo_SRARROW, xgo_BIDIARROW. cbv [bind ret].
  split_codes c. reflexivity.
Qed.
Lemma go_prec_total : forall c, exists p, go_Precedence c = Ok p /\ 0 <= p <= 5.
Proof.
  intros c. unfold go_Precedence. cbv [bind ret].
  repeat match goal with
  | |- context [Z.eqb c ?k] => destruct (Z.eqb_spec c k) as [->|?]; [eexists; split; [vm_compute; reflexivity|lia]|]; cbv beta iota
  end.
  eexists; split; [reflexivity|lia].
Qed.
