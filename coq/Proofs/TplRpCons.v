(* The RetProc-aware model is a conservative extension: on an environment without rewriters [runp] computes
   what [run] computes (same n, same success/failure, same result on success), so the theorems about [run]
   (Props/C29.v) are theorems about [runp] restricted to grammars without RetProcs. *)
From Coq Require Import List NArith ZArith Bool Arith Lia.
Import ListNotations.
From V Require Import Base.Prelude Base.TplRes Gen.Tokens Model.Tpl Model.TplRp Proofs.Tpl Proofs.TplRpTerm.
Local Open Scope nat_scope.

Definition same (a : out) (b : outp) : Prop :=
  match a, b with
  | OutOfFuel, OutOfFuel => True
  | Panic, Panic => True
  | Ok (n, r, false), Ok (n', r', EOk) => n = n' /\ r = r'
  | Ok (n, _, true), Ok (n', _, EErr) => n = n'
  | _, _ => False
  end.

Section Cons.
Variable envp : list (option (m * option rp)).
Variable toks : list tokn.
Hypothesis Hnone : forall v e orp, nth_error envp v = Some (Some (e, orp)) -> orp = None.
Notation env := (bodies envp).

Definition nmax_of (best : option (nat * ek)) : nat := match best with Some (n, _) => n | None => 0 end.

Inductive sim : rs -> rsp -> Prop :=
| sim_m g i : sim (SM g i) (PM g i)
| sim_ch opts st i nm best multi : nm = nmax_of best -> (forall n k, best = Some (n, k) -> k = EErr) ->
    sim (SCh opts st i nm) (PCh opts st i best multi)
| sim_sq items i n acc : sim (SSq items i n acc) (PSq items i n acc EOk)
| sim_rp r i n acc : sim (SRp r i n acc) (PRp r i n acc EOk).

Lemma env_nth v : nth_error env v = option_map (option_map fst) (nth_error envp v).
Proof. unfold bodies. apply nth_error_map. Qed.

Ltac sub IH s sp := let H := fresh "S" in
  assert (H : same (run env toks _ s) (runp envp toks _ sp)) by (apply IH; constructor; auto);
  destruct (run env toks _ s) as [[[? ?] [|]]| |]; destruct (runp envp toks _ sp) as [[[? ?] [| |]]| |];
  cbn [same] in H; try contradiction.

Theorem conservative : forall f s sp, sim s sp -> same (run env toks f s) (runp envp toks f sp).
Proof.
  induction f as [|f IH]; intros s sp Hs; [destruct Hs; exact I|].
  destruct Hs as [g i|opts st i nm best multi Hnm Hk|items i n acc|r i n acc]; cbn [Tpl.run TplRp.runp].
  - destruct g.
    + cbn; auto.
    + destruct (nth_error toks i) as [t|]; [|cbn; auto]. destruct i as [|j]; [cbn; auto|].
      destruct (nth_error toks j) as [p|]; [|exact I]. destruct (tok_end p) as [e| |]; cbn [bind]; try exact I.
      destruct (negb (Z.eqb e (tpos t))); cbn; auto.
    + destruct (nth_error toks i) as [t|]; [|cbn; auto]. destruct (negb (Z.eqb (ttok t) STRING)); [cbn; auto|].
      destruct (tlit t) as [|c l]; [exact I|]. destruct (N.eqb c q); cbn; auto.
    + destruct (nth_error toks i) as [t0|]; [|cbn; auto]. destruct (Z.eqb (ttok t0) t); cbn; auto.
    + destruct (nth_error toks i) as [t0|]; [|cbn; auto]. destruct (Z.eqb (ttok t0) t && str_eqb (tlit t0) lit); cbn; auto.
    + apply IH. constructor; [reflexivity|discriminate].
    + apply IH. constructor.
    + apply IH. constructor.
    + (* MRep1 *)
      assert (S1 := IH (SM g i) (PM g i) (sim_m g i)).
      destruct (run env toks f (SM g i)) as [[[n1 x1] [|]]| |]; destruct (runp envp toks f (PM g i)) as [[[n2 x2] [| |]]| |];
        cbn [same] in S1; try contradiction; try solve [cbn; auto].
      destruct S1 as [-> ->]. apply IH. constructor.
    + (* MRep01 *)
      assert (S1 := IH (SM g i) (PM g i) (sim_m g i)).
      destruct (run env toks f (SM g i)) as [[[n1 x1] [|]]| |]; destruct (runp envp toks f (PM g i)) as [[[n2 x2] [| |]]| |];
        cbn [same] in S1; try contradiction; try solve [cbn; auto].
    + (* MAdj *)
      assert (S1 := IH (SM g1 i) (PM g1 i) (sim_m g1 i)).
      destruct (run env toks f (SM g1 i)) as [[[n1 x1] [|]]| |]; destruct (runp envp toks f (PM g1 i)) as [[[n2 x2] [| |]]| |];
        cbn [same] in S1; try contradiction; try solve [cbn; auto].
      destruct S1 as [-> ->]. destruct (Nat.eqb n2 0); [cbn; auto|].
      assert (S2 := IH (SM g2 (i + n2)) (PM g2 (i + n2)) (sim_m g2 (i + n2))).
      destruct (run env toks f (SM g2 (i + n2))) as [[[m1 y1] [|]]| |]; destruct (runp envp toks f (PM g2 (i + n2))) as [[[m2 y2] [| |]]| |];
        cbn [same] in S2; try contradiction; try solve [cbn; auto].
      destruct S2 as [-> ->]. destruct (Nat.eqb m2 0); [cbn; auto|].
      destruct (nth_error toks (i + n2 - 1)) as [p|]; [|exact I]. destruct (nth_error toks (i + n2)) as [q|]; [|exact I].
      destruct (tok_end p) as [e| |]; cbn [bind]; try exact I. destruct (Z.eqb e (tpos q)); cbn; auto.
    + (* MVar *)
      rewrite env_nth. destruct (nth_error envp v) as [[[e orp]|]|] eqn:E; cbn [option_map fst]; try (cbn; auto; fail).
      rewrite (Hnone v e orp E).
      assert (S1 := IH (SM e i) (PM e i) (sim_m e i)).
      destruct (run env toks f (SM e i)) as [[[n1 x1] [|]]| |]; destruct (runp envp toks f (PM e i)) as [[[n2 x2] [| |]]| |];
        cbn [same] in S1; try contradiction; try solve [cbn; auto].
  - (* choices *)
    destruct opts as [|o t].
    + destruct best as [[nb kb]|]; destruct multi; cbn [nmax_of] in *; subst; cbn; auto.
      rewrite (Hk nb kb eq_refl). cbn. auto.
    + assert (S1 := IH (SM o i) (PM o i) (sim_m o i)).
      destruct (run env toks f (SM o i)) as [[[n1 x1] [|]]| |]; destruct (runp envp toks f (PM o i)) as [[[n2 x2] [| |]]| |];
        cbn [same] in S1; try contradiction; try solve [cbn; auto].
      subst n2. destruct st as [|s st']; [exact I|]. destruct (Nat.ltb 0 n1 && s); [cbn; auto|].
      destruct best as [[nb kb]|]; cbn [nmax_of] in *; subst.
      * pose proof (Hk nb kb eq_refl) as ->.
        destruct (Nat.ltb nb n1) eqn:E1; [|destruct (Nat.eqb n1 nb) eqn:E2].
        -- apply Nat.ltb_lt in E1. apply IH. constructor; [cbn; lia|]. intros n k Hb. injection Hb as _ <-. reflexivity.
        -- apply Nat.eqb_eq in E2. apply IH. constructor; [cbn; lia|auto].
        -- apply Nat.ltb_ge in E1. apply Nat.eqb_neq in E2. apply IH. constructor; [cbn; lia|auto].
      * apply IH. constructor; [cbn; lia|]. intros n k Hb. injection Hb as _ <-. reflexivity.
  - (* sequence *)
    destruct items as [|it t]; [cbn; auto|].
    assert (S1 := IH (SM it (i + n)) (PM it (i + n)) (sim_m it (i + n))).
    destruct (run env toks f (SM it (i + n))) as [[[n1 x1] [|]]| |]; destruct (runp envp toks f (PM it (i + n))) as [[[n2 x2] [| |]]| |];
      cbn [same] in S1; try contradiction; try solve [cbn; auto].
    destruct S1 as [-> ->]. cbn [join]. apply IH. constructor.
  - (* repetition *)
    assert (S1 := IH (SM r (i + n)) (PM r (i + n)) (sim_m r (i + n))).
    destruct (run env toks f (SM r (i + n))) as [[[n1 x1] [|]]| |]; destruct (runp envp toks f (PM r (i + n))) as [[[n2 x2] [| |]]| |];
      cbn [same] in S1; try contradiction; try solve [cbn; auto].
    destruct S1 as [-> ->]. cbn [join]. apply IH. constructor.
Qed.
End Cons.

Lemma attach_none_all env v e orp : nth_error (attach env []) v = Some (Some (e, orp)) -> orp = None.
Proof.
  revert v. induction env as [|o t IH]; intros v H; [destruct v; discriminate|].
  destruct v as [|v]; cbn [attach nth_error hd tl] in H.
  - destruct o; [injection H as _ <-; reflexivity|discriminate].
  - eapply IH; eauto.
Qed.

(* Doc.Match of a grammar compiled WITHOUT RetProcs: the two models agree *)
Corollary match_doc_conservative env toks f doc :
  same (match_doc env toks f doc) (match_doc_rp (attach env []) toks f doc).
Proof.
  unfold match_doc, match_doc_rp. rewrite <- (bodies_attach env []) at 1.
  apply conservative; [|constructor]. intros v e orp H. eapply attach_none_all; eauto.
Qed.
