(* Lemmas for C06: the lowering of the sugar calculus preserves types, whatever the Go scope
   binds the compiler's temporaries to. *)
From Coq Require Import List NArith ZArith Bool Lia.
Import ListNotations.
From V Require Import Model.C06.

Lemma ty_eqb_refl t : ty_eqb t t = true.
Proof. induction t; cbn; auto. Qed.

Lemma ty_eqb_eq a : forall b, ty_eqb a b = true -> a = b.
Proof. induction a; destruct b; cbn; intros H; try discriminate; auto. f_equal; auto. Qed.

(* two scopes that agree on every user identifier *)
Definition agree (G G' : env) : Prop := forall x, is_user x = true -> G x = G' x.

Lemma agree_upd_user G G' x t : agree G G' -> agree (upd G x t) (upd G' x t).
Proof. intros H y Hy. unfold upd. destruct (N.eqb y x); auto. Qed.

Lemma agree_upd_reserved G G' x t : is_user x = false -> agree G G' -> agree G (upd G' x t).
Proof.
  intros Hx H y Hy. unfold upd. destruct (N.eqb y x) eqn:E; auto.
  apply N.eqb_eq in E. subst. congruence.
Qed.

Lemma ret_not_user : is_user ret_name = false. Proof. reflexivity. Qed.
Lemma err_not_user : is_user err_name = false. Proof. reflexivity. Qed.

Lemma upd_same G x t : upd G x t x = Some t.
Proof. unfold upd. rewrite N.eqb_refl. reflexivity. Qed.
Lemma upd_other G x y t : N.eqb y x = false -> upd G x t y = G y.
Proof. unfold upd. intros ->. reflexivity. Qed.

Lemma user_neq_ret x : is_user x = true -> N.eqb ret_name x = false.
Proof. unfold is_user, ret_name. intros H. apply N.leb_le in H. apply N.eqb_neq. lia. Qed.
Lemma user_neq_err x : is_user x = true -> N.eqb err_name x = false.
Proof. unfold is_user, err_name. intros H. apply N.leb_le in H. apply N.eqb_neq. lia. Qed.

Ltac inv_opt :=
  repeat match goal with
         | H : match ?o with Some _ => _ | None => _ end = Some _ |- _ => destruct o eqn:?; try discriminate
         | H : match ?t with TInt => _ | TBool => _ | TStr => _ | TErr => _ | TList _ => _ end = Some _ |- _ =>
           destruct t eqn:?; try discriminate
         | H : (if ?b then _ else _) = Some _ |- _ => destruct b eqn:?; try discriminate
         | H : Some _ = Some _ |- _ => injection H as H; subst
         end.

(* the generalised statement: the scope the lowered term is checked in may differ from the scope
   of the sugar on the reserved names (this is what makes the induction go through the closures) *)
Lemma lower_preserves S e : forall G G' t,
  agree G G' -> names_ok e = true -> stype S G e = Some t -> gtype S G' (lower S G e) = Some t.
Proof.
  induction e as [x|n|b|s|a IHa b IHb|a IHa b IHb|a IHa b IHb|f a IHa|e IHe x src IHs|e IHe x src IHs c IHc|f a IHa d IHd|f a IHa];
    intros G G' t Hag Hn Ht; cbn [names_ok] in Hn; cbn [stype] in Ht; cbn [lower gtype].
  - rewrite <- Hag; auto.
  - exact Ht.
  - exact Ht.
  - exact Ht.
  - apply andb_prop in Hn as [Hn1 Hn2]. inv_opt. rewrite (IHa G G' TInt), (IHb G G' TInt); auto.
  - apply andb_prop in Hn as [Hn1 Hn2]. inv_opt. rewrite (IHa G G' TInt), (IHb G G' TInt); auto.
  - apply andb_prop in Hn as [Hn1 Hn2]. inv_opt. rewrite (IHa G G' TStr), (IHb G G' TStr); auto.
  - destruct (S f) as [sg|] eqn:Ef; [|discriminate].
    destruct (stype S G a) as [ta|] eqn:Ea; [|discriminate].
    rewrite (IHa G G' ta); auto.
  - (* [e for x <- src] *)
    apply andb_prop in Hn as [Hn Hns]. apply andb_prop in Hn as [Hne Hx].
    destruct (stype S G src) as [[| | | |ts]|] eqn:Es; try discriminate.
    destruct (stype S (upd G x ts) e) as [te|] eqn:Ee; [|discriminate].
    injection Ht as <-. cbn [elem_or ty_or]. rewrite Ee. cbn [ty_or gok].
    rewrite (IHs G (upd G' ret_name (TList te)) (TList ts)); auto using agree_upd_reserved, ret_not_user.
    assert (Hag' : agree (upd G x ts) (upd (upd G' ret_name (TList te)) x ts)).
    { apply agree_upd_user. apply agree_upd_reserved; auto using ret_not_user. }
    cbn [gok gtype].
    rewrite (upd_other _ x ret_name ts (user_neq_ret x Hx)), upd_same.
    rewrite (IHe (upd G x ts) (upd (upd G' ret_name (TList te)) x ts) te); auto.
    rewrite ty_eqb_refl. cbn [ty_eqb]. rewrite ty_eqb_refl. reflexivity.
  - (* [e for x <- src, c] *)
    apply andb_prop in Hn as [Hn Hnc]. apply andb_prop in Hn as [Hn Hns]. apply andb_prop in Hn as [Hne Hx].
    destruct (stype S G src) as [[| | | |ts]|] eqn:Es; try discriminate.
    destruct (stype S (upd G x ts) c) as [[| | | |?]|] eqn:Ec; try discriminate.
    destruct (stype S (upd G x ts) e) as [te|] eqn:Ee; [|discriminate].
    injection Ht as <-. cbn [elem_or ty_or]. rewrite Ee. cbn [ty_or gok].
    rewrite (IHs G (upd G' ret_name (TList te)) (TList ts)); auto using agree_upd_reserved, ret_not_user.
    assert (Hag' : agree (upd G x ts) (upd (upd G' ret_name (TList te)) x ts)).
    { apply agree_upd_user. apply agree_upd_reserved; auto using ret_not_user. }
    cbn [gok gtype].
    rewrite (IHc (upd G x ts) (upd (upd G' ret_name (TList te)) x ts) TBool); auto.
    rewrite (upd_other _ x ret_name ts (user_neq_ret x Hx)), upd_same.
    rewrite (IHe (upd G x ts) (upd (upd G' ret_name (TList te)) x ts) te); auto.
    rewrite ty_eqb_refl. cbn [ty_eqb]. rewrite ty_eqb_refl. reflexivity.
  - (* f(a)?:d *)
    apply andb_prop in Hn as [Hna Hnd].
    destruct (S f) as [sg|] eqn:Ef; [|discriminate].
    destruct (stype S G a) as [ta|] eqn:Ea; [|discriminate].
    destruct (stype S G d) as [td|] eqn:Ed; [|discriminate].
    destruct (ty_eqb ta (f_arg sg) && f_fallible sg && ty_eqb td (f_res sg)) eqn:Eb; [|discriminate].
    injection Ht as <-. apply andb_prop in Eb as [Eb Etd]. apply andb_prop in Eb as [Eta Efa].
    unfold res_of. rewrite Ef. cbn [gok gtype].
    set (E := upd (upd G' ret_name (f_res sg)) err_name TErr).
    assert (HagE : agree G E).
    { unfold E. apply agree_upd_reserved; auto using err_not_user. apply agree_upd_reserved; auto using ret_not_user. }
    rewrite Ef. rewrite (IHa G E ta); auto.
    assert (Hret : E ret_name = Some (f_res sg)).
    { unfold E. rewrite upd_other by reflexivity. apply upd_same. }
    assert (Herr : E err_name = Some TErr) by (unfold E; apply upd_same).
    rewrite Hret, Herr. rewrite Eta, Efa, ty_eqb_refl. cbn [andb].
    rewrite (IHd G E td); auto. rewrite Etd. reflexivity.
  - (* f(a)! *)
    destruct (S f) as [sg|] eqn:Ef; [|discriminate].
    destruct (stype S G a) as [ta|] eqn:Ea; [|discriminate].
    destruct (ty_eqb ta (f_arg sg) && f_fallible sg) eqn:Eb; [|discriminate].
    injection Ht as <-. apply andb_prop in Eb as [Eta Efa].
    unfold res_of. rewrite Ef. cbn [gok gtype].
    set (E := upd (upd G' ret_name (f_res sg)) err_name TErr).
    assert (HagE : agree G E).
    { unfold E. apply agree_upd_reserved; auto using err_not_user. apply agree_upd_reserved; auto using ret_not_user. }
    rewrite Ef. rewrite (IHa G E ta); auto.
    assert (Hret : E ret_name = Some (f_res sg)).
    { unfold E. rewrite upd_other by reflexivity. apply upd_same. }
    assert (Herr : E err_name = Some TErr) by (unfold E; apply upd_same).
    rewrite Hret, Herr. rewrite Eta, Efa, ty_eqb_refl. reflexivity.
Qed.

Lemma agree_refl G : agree G G. Proof. intros x _. reflexivity. Qed.

Lemma lower_preserves_typing S G e t :
  names_ok e = true -> stype S G e = Some t -> gtype S G (lower S G e) = Some t.
Proof. intros. eapply lower_preserves; eauto using agree_refl. Qed.

(* no temporary escapes: the lowered term type-checks in a scope where the temporaries are not
   even declared — its free identifiers are user identifiers *)
Definition mask_reserved (G : env) : env := fun x => if is_user x then G x else None.
Lemma lower_closed S G e t :
  names_ok e = true -> stype S G e = Some t -> gtype S (mask_reserved G) (lower S G e) = Some t.
Proof.
  intros. eapply lower_preserves; eauto. intros x Hx. unfold mask_reserved. rewrite Hx. reflexivity.
Qed.

(* the temporaries cannot clash with whatever the enclosing Go scope calls _gop_ret/_gop_err *)
Lemma fresh_names_disjoint S G e t tr te :
  names_ok e = true -> stype S G e = Some t ->
  gtype S (upd (upd G ret_name tr) err_name te) (lower S G e) = Some t.
Proof.
  intros. eapply lower_preserves; eauto.
  apply agree_upd_reserved; auto using err_not_user. apply agree_upd_reserved; auto using ret_not_user, agree_refl.
Qed.

(* the hypothesis names_ok is needed: a user variable called _gop_ret is captured by the closure *)
Definition capture_witness : sexpr := SCompr (SAdd (SVar ret_name) (SVar 2%N)) 2%N (SVar 4%N).
Lemma capture_refuted :
  stype prelude_sig (upd prelude_env ret_name TInt) capture_witness = Some (TList TInt) /\
  gtype prelude_sig (upd prelude_env ret_name TInt)
        (lower prelude_sig (upd prelude_env ret_name TInt) capture_witness) = None.
Proof. split; vm_compute; reflexivity. Qed.
