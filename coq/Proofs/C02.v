From Coq Require Import List ZArith NArith Bool Lia.
Import ListNotations.
From V Require Import Base.Prelude Model.MiniGo Model.Compr Proofs.MiniGo.
Open Scope Z_scope.

(* user variables only *)
Definition user_env (a : env) : Prop := Forall (fun p => is_user (fst p) = true) a.

Lemma fresh_user_env a x : user_env a -> is_user x = false -> fresh x a.
Proof. intros H Hx. eapply Forall_impl; [|exact H]. intros [y w]. cbn [fst]. destruct x, y; simpl in *; congruence. Qed.

Lemma lookup_mid a R en x : nonuser R -> is_user x = true -> lookup (a ++ R ++ en) x = lookup (a ++ en) x.
Proof. intros HR Hx. induction a as [|[y w] t IH]; cbn [app lookup].
  - apply lookup_app_fresh. eapply Forall_impl; [|exact HR]. intros [y w]. cbn [fst]. destruct x, y; simpl in *; congruence.
  - now rewrite IH. Qed.

Lemma pop_to_drop (b e1 e2 : env) : length e1 = length e2 -> pop_to (length e1) (b ++ e2) = e2.
Proof. intros H. rewrite H. apply pop_to_app. Qed.

Section C02.
  Variable err_text : err -> str.
  Variable self : stmt -> env -> trace -> sres.
  Notation ev := (ev err_text self).
  Notation ex := (ex err_text self).

  (* pure operand expressions evaluate as pev says, wherever compiler-generated bindings sit *)
  Lemma pev_sound a R en : nonuser R -> forall e v t, pev (a ++ en) e = Some (v, t) ->
    forall tr, ev e (a ++ R ++ en) tr = (RVal [v], a ++ R ++ en, tr ++ t).
  Proof.
    intros HR. induction e; intros v0 t0 H tr; cbn [pev] in H; try discriminate.
    - injection H as <- <-. rewrite ev_EConst. now rewrite app_nil_r.
    - destruct (is_user x) eqn:U; [|discriminate]. destruct (lookup (a ++ en) x) as [w|] eqn:L; [|discriminate].
      injection H as <- <-. rewrite ev_EVar. rewrite (lookup_mid a R en x HR U). rewrite L. now rewrite app_nil_r.
    - destruct (pev (a ++ en) e) as [[w t]|] eqn:P; [|discriminate]. injection H as <- <-.
      rewrite ev_EProbe. unfold ev1. rewrite (IHe _ _ eq_refl). cbn [one]. now rewrite <- app_assoc.
    - destruct (pev (a ++ en) e1) as [[x ta]|] eqn:P1; [|discriminate].
      destruct (pev (a ++ en) e2) as [[y tb]|] eqn:P2; [|discriminate].
      destruct (bin_eval op x y) eqn:B; try discriminate. injection H as <- <-.
      rewrite ev_EBin. unfold ev1. rewrite (IHe1 _ _ eq_refl). cbn [one]. rewrite (IHe2 _ _ eq_refl). cbn [one].
      rewrite B. now rewrite <- app_assoc.
  Qed.

  Variable en : env.     (* the environment around the comprehension *)

  (* the closure's result variables around the accumulated value *)
  Definition frame (k : ckind) (acc : val) : env :=
    match k with
    | CList _ | CMap _ _ | CSelect _ false => [(NRet 0, acc)]
    | CSelect _ true => [(NOk, VBool false); (NRet 0, acc)]
    | CExists => [(NOk, acc)]
    end.
  Lemma frame_nonuser k acc : nonuser (frame k acc).
  Proof. destruct k as [| | ? [|] |]; repeat constructor. Qed.
  Lemma frame_length k acc acc' : length (frame k acc) = length (frame k acc').
  Proof. destruct k as [| | ? [|] |]; reflexivity. Qed.

  (* a statement implements a body function *)
  Definition body_ok (k : ckind) (s : stmt) (F : body_fn) : Prop :=
    forall a acc tr st tr', user_env a -> F (a ++ en) acc tr = Some (st, tr') ->
      match st with
      | Cont acc' => ex s (a ++ frame k acc ++ en) tr = (RVal tt, a ++ frame k acc' ++ en, tr')
      | Done vs => exists acc'', ex s (a ++ frame k acc ++ en) tr = (RRet vs, a ++ frame k acc'' ++ en, tr')
      end.

  Lemma lookup_frame0 a acc : user_env a -> lookup (a ++ [(NRet 0, acc)] ++ en) (NRet 0) = Some acc.
  Proof. intros Ha. rewrite lookup_app_fresh by (apply fresh_user_env; auto). reflexivity. Qed.
  Lemma update_frame0 a acc v : user_env a -> update (a ++ [(NRet 0, acc)] ++ en) (NRet 0) v = Some (a ++ [(NRet 0, v)] ++ en).
  Proof. intros Ha. rewrite update_app_fresh by (apply fresh_user_env; auto). reflexivity. Qed.

  Lemma inner_ok k : body_ok k (innermost k) (spec_inner k).
  Proof.
    intros a acc tr st tr' Ha H. destruct k as [elt|ke ve|elt two|]; cbn [spec_inner innermost] in *.
    - (* list *)
      destruct acc as [| | | | |l| |]; try discriminate.
      destruct (pev (a ++ en) elt) as [[v t]|] eqn:P; [|discriminate]. injection H as <- <-.
      pose proof (pev_sound a _ en (frame_nonuser (CList elt) (VList l)) _ _ _ P) as PS.
      cbn [frame] in *.
      rewrite ex_SAssign. cbn [rhs_eval]. rewrite ev_EAppend. unfold ev1.
      rewrite ev_EVar, lookup_frame0 by auto. cbn [one]. rewrite PS. cbn [one assign_all].
      rewrite update_frame0 by auto. reflexivity.
    - (* map *)
      destruct acc as [| | | | | |l|]; try discriminate.
      destruct (pev (a ++ en) ke) as [[kv tk]|] eqn:P1; [|discriminate].
      destruct (pev (a ++ en) ve) as [[vv tv]|] eqn:P2; [|discriminate]. injection H as <- <-.
      pose proof (pev_sound a _ en (frame_nonuser (CMap ke ve) (VMap l)) _ _ _ P1) as PS1.
      pose proof (pev_sound a _ en (frame_nonuser (CMap ke ve) (VMap l)) _ _ _ P2) as PS2.
      cbn [frame] in *.
      rewrite ex_SSetIndex, lookup_frame0 by auto. rewrite PS1, PS2. rewrite update_frame0 by auto. reflexivity.
    - (* select *)
      destruct (pev (a ++ en) elt) as [[v t]|] eqn:P; [|discriminate]. injection H as <- <-.
      rewrite ex_SReturn. destruct two; cbn [ev_list].
      + exists acc. rewrite (pev_sound a _ en (frame_nonuser (CSelect elt true) acc) _ _ _ P). cbn [one]. rewrite ev_EConst. reflexivity.
      + exists acc. rewrite (pev_sound a _ en (frame_nonuser (CSelect elt false) acc) _ _ _ P). reflexivity.
    - injection H as <- <-. exists acc. rewrite ex_SReturn. cbn [ev_list]. rewrite ev_EConst. reflexivity.
  Qed.

  (* ---------------------------------------------------------------- one for-phrase *)
  Definition wf_phrase (p : phrase) : Prop :=
    match ph_key p with Some x => is_user x = true | None => True end /\
    match ph_val p with Some x => is_user x = true | None => True end.

  Definition binds (p : phrase) (kv vv : val) : env := bind_kv p kv vv [].
  Lemma bind_kv_app p kv vv X : bind_kv p kv vv X = binds p kv vv ++ X.
  Proof. unfold binds, bind_kv, bind_opt. destruct (ph_val p), (ph_key p); reflexivity. Qed.
  Lemma binds_user p kv vv : wf_phrase p -> user_env (binds p kv vv).
  Proof. intros [Hk Hv]. unfold binds, bind_kv, bind_opt. destruct (ph_val p), (ph_key p); repeat constructor; auto. Qed.

  Lemma spec_items_nil p F e acc tr : spec_items p F e [] acc tr = Some (Cont acc, tr).
  Proof. reflexivity. Qed.
  Lemma spec_items_cons p F e kv vv t acc tr : spec_items p F e ((kv, vv) :: t) acc tr =
      let en' := bind_kv p kv vv e in
      let run := match ph_cond p with
                 | None => F en' acc tr
                 | Some c => match pev en' c with
                             | Some (VBool true, tc) => F en' acc (tr ++ tc)
                             | Some (VBool false, tc) => Some (Cont acc, tr ++ tc)
                             | _ => None
                             end
                 end in
      match run with
      | Some (Cont acc', tr') => spec_items p F e t acc' tr'
      | r => r
      end.
  Proof. reflexivity. Qed.

  Definition guarded (p : phrase) (s : stmt) : stmt := match ph_cond p with Some c => SIf c s SSkip | None => s end.

  (* the guarded body, run for one item *)
  Lemma guarded_ok k p s F : body_ok k s F ->
    forall a acc tr st tr', user_env a ->
      match ph_cond p with
      | None => F (a ++ en) acc tr
      | Some c => match pev (a ++ en) c with
                  | Some (VBool true, tc) => F (a ++ en) acc (tr ++ tc)
                  | Some (VBool false, tc) => Some (Cont acc, tr ++ tc)
                  | _ => None
                  end
      end = Some (st, tr') ->
      match st with
      | Cont acc' => ex (guarded p s) (a ++ frame k acc ++ en) tr = (RVal tt, a ++ frame k acc' ++ en, tr')
      | Done vs => exists acc'', ex (guarded p s) (a ++ frame k acc ++ en) tr = (RRet vs, a ++ frame k acc'' ++ en, tr')
      end.
  Proof.
    intros Hs a acc tr st tr' Ha H. unfold guarded. destruct (ph_cond p) as [c|]; [|exact (Hs a acc tr st tr' Ha H)].
    destruct (pev (a ++ en) c) as [[[| [|] | | | | | |] tc]|] eqn:PC; try discriminate.
    - (* filter true *)
      rewrite ex_SIf. rewrite (pev_sound a _ en (frame_nonuser k acc) _ _ _ PC). cbv zeta.
      pose proof (Hs a acc (tr ++ tc) st tr' Ha H) as B. destruct st as [acc'|vs].
      + rewrite B. f_equal. f_equal. apply pop_to_eqlen. rewrite !app_length. now rewrite (frame_length k acc acc').
      + destruct B as [acc'' B]. exists acc''. rewrite B. f_equal. f_equal. apply pop_to_eqlen.
        rewrite !app_length. now rewrite (frame_length k acc acc'').
    - (* filter false *)
      injection H as <- <-. rewrite ex_SIf. rewrite (pev_sound a _ en (frame_nonuser k acc) _ _ _ PC). cbv zeta.
      rewrite ex_SSkip. now rewrite pop_to_same.
  Qed.

  Lemma items_ok k p s F : wf_phrase p -> body_ok k s F ->
    forall a, user_env a -> forall l acc tr st tr' n,
      n = length (a ++ frame k acc ++ en) ->
      spec_items p F (a ++ en) l acc tr = Some (st, tr') ->
      match st with
      | Cont acc' => range_go err_text self (ph_key p) (ph_val p) (guarded p s) n l (a ++ frame k acc ++ en) tr
                     = (RVal tt, a ++ frame k acc' ++ en, tr')
      | Done vs => exists acc'', range_go err_text self (ph_key p) (ph_val p) (guarded p s) n l (a ++ frame k acc ++ en) tr
                     = (RRet vs, a ++ frame k acc'' ++ en, tr')
      end.
  Proof.
    intros Hp Hs a Ha. induction l as [|[kv vv] t IH]; intros acc tr st tr' n Hn H.
    - rewrite spec_items_nil in H. injection H as <- <-. reflexivity.
    - rewrite spec_items_cons in H. cbv zeta in H. rewrite bind_kv_app in H.
      rewrite range_go_cons.
      change (bind_opt (ph_val p) vv (bind_opt (ph_key p) kv (a ++ frame k acc ++ en))) with (bind_kv p kv vv (a ++ frame k acc ++ en)).
      rewrite bind_kv_app.
      assert (Ha' : user_env (binds p kv vv ++ a)) by (apply Forall_app; split; [now apply binds_user|exact Ha]).
      rewrite (app_assoc (binds p kv vv) a en) in H.
      rewrite (app_assoc (binds p kv vv) a (frame k acc ++ en)).
      pose proof (guarded_ok k p s F Hs (binds p kv vv ++ a) acc tr) as G.
      destruct (match ph_cond p with
                | Some c => match pev ((binds p kv vv ++ a) ++ en) c with
                            | Some (VBool true, tc) => F ((binds p kv vv ++ a) ++ en) acc (tr ++ tc)
                            | Some (VBool false, tc) => Some (Cont acc, tr ++ tc)
                            | _ => None
                            end
                | None => F ((binds p kv vv ++ a) ++ en) acc tr
                end) as [[st1 tr1]|] eqn:RUN; [|discriminate].
      specialize (G st1 tr1 Ha' eq_refl). destruct st1 as [acc1|vs1].
      + rewrite G.
        assert (PP : pop_to n ((binds p kv vv ++ a) ++ frame k acc1 ++ en) = a ++ frame k acc1 ++ en).
        { rewrite <- app_assoc. subst n. apply pop_to_drop. rewrite !app_length. now rewrite (frame_length k acc acc1). }
        rewrite PP. apply IH; auto. subst n. rewrite !app_length. now rewrite (frame_length k acc acc1).
      + injection H as <- <-. destruct G as [acc'' G]. exists acc''. rewrite G. f_equal. f_equal.
        rewrite <- app_assoc. subst n. apply pop_to_drop. rewrite !app_length. now rewrite (frame_length k acc acc'').
  Qed.

  Lemma wrap_ok k p s F : wf_phrase p -> body_ok k s F -> body_ok k (wrap p s) (spec_wrap p F).
  Proof.
    intros Hp Hs a acc tr st tr' Ha H. unfold spec_wrap in H.
    destruct (pev (a ++ en) (ph_x p)) as [[c tx]|] eqn:PX; [|discriminate].
    destruct (range_of c) as [l| |] eqn:RG; try discriminate.
    unfold wrap. fold (guarded p s). rewrite ex_SRange.
    rewrite (pev_sound a _ en (frame_nonuser k acc) _ _ _ PX). rewrite RG.
    exact (items_ok k p s F Hp Hs a Ha l acc (tr ++ tx) st tr' _ eq_refl H).
  Qed.

  Lemma nest_ok k : forall ps s F, Forall wf_phrase ps -> body_ok k s F -> body_ok k (nest ps s) (spec_nest ps F).
  Proof. induction ps as [|p t IH]; intros s F Hw Hs; [exact Hs|]. inversion Hw; subst. cbn [nest spec_nest].
    apply IH; auto. now apply wrap_ok. Qed.


  (* ---------------------------------------------------------------- the whole comprehension *)
  Definition done_ne (F : body_fn) : Prop := forall e acc tr vs tr', F e acc tr = Some (Done vs, tr') -> vs <> [].

  Lemma items_done_ne p F : done_ne F -> forall e l acc tr vs tr', spec_items p F e l acc tr = Some (Done vs, tr') -> vs <> [].
  Proof. intros HF e. induction l as [|[kv vv] t IH]; intros acc tr vs tr' H.
    - rewrite spec_items_nil in H. discriminate.
    - rewrite spec_items_cons in H. cbv zeta in H.
      destruct (match ph_cond p with
                | Some c => match pev (bind_kv p kv vv e) c with
                            | Some (VBool true, tc) => F (bind_kv p kv vv e) acc (tr ++ tc)
                            | Some (VBool false, tc) => Some (Cont acc, tr ++ tc)
                            | _ => None
                            end
                | None => F (bind_kv p kv vv e) acc tr
                end) as [[[acc1|vs1] tr1]|] eqn:RUN; try discriminate.
      + eapply IH; eauto.
      + injection H as <- <-. destruct (ph_cond p) as [c|]; [|eapply HF; eauto].
        destruct (pev (bind_kv p kv vv e) c) as [[[| [|] | | | | | |] tc]|]; try discriminate. eapply HF; eauto. Qed.

  Lemma wrap_done_ne p F : done_ne F -> done_ne (spec_wrap p F).
  Proof. intros HF e acc tr vs tr' H. unfold spec_wrap in H. destruct (pev e (ph_x p)) as [[c tx]|]; [|discriminate].
    destruct (range_of c); try discriminate. eapply items_done_ne; eauto. Qed.

  Lemma nest_done_ne : forall ps F, done_ne F -> done_ne (spec_nest ps F).
  Proof. induction ps as [|p t IH]; intros F HF; [exact HF|]. cbn [spec_nest]. apply IH. now apply wrap_done_ne. Qed.

  Lemma inner_done_ne k : done_ne (spec_inner k).
  Proof. intros e acc tr vs tr' H. destruct k as [elt|ke ve|elt two|]; cbn [spec_inner] in H.
    - destruct acc; try discriminate. destruct (pev e elt) as [[? ?]|]; discriminate.
    - destruct acc; try discriminate. destruct (pev e ke) as [[? ?]|]; try discriminate. destruct (pev e ve) as [[? ?]|]; discriminate.
    - destruct (pev e elt) as [[? ?]|]; try discriminate. injection H as <- _. discriminate.
    - injection H as <- _. discriminate. Qed.

  Lemma frame_init k zero : rev (results_of k zero) = frame k (spec_init k zero).
  Proof. destruct k as [| | ? [|] |]; reflexivity. Qed.

  Lemma results_frame k zero acc :
    closure_results (results_of k zero) (frame k acc ++ en) =
    Some (match k with CSelect _ true => [acc; VBool false] | _ => [acc] end).
  Proof. destruct k as [| | ? [|] |]; reflexivity. Qed.

  Lemma prologue_ok k zero tr :
    ex (prologue k) (frame k (spec_init k zero) ++ en) tr = (RVal tt, frame k (spec_init k zero) ++ en, tr).
  Proof. destruct k as [| | ? [|] |]; reflexivity. Qed.

  Lemma comprehension_correct k zero ps tr vs tr' :
    Forall wf_phrase ps ->
    spec_comprehension k zero ps en tr = Some (vs, tr') ->
    ev (lower_comprehension k zero ps) en tr = (RVal vs, en, tr').
  Proof.
    intros Hw HS. unfold lower_comprehension. unfold spec_comprehension in HS.
    destruct (spec_nest ps (spec_inner k) en (spec_init k zero) tr) as [[st tr1]|] eqn:SN; [|discriminate].
    pose proof (nest_ok k ps (innermost k) (spec_inner k) Hw (inner_ok k) [] (spec_init k zero) tr st tr1 (Forall_nil _) SN) as B.
    cbn [app] in B.
    rewrite ev_EClosure. cbv zeta. rewrite frame_init. rewrite ex_SSeq, prologue_ok, ex_SSeq.
    destruct st as [acc|rv].
    - injection HS as <- <-. rewrite B. rewrite ex_SReturn. cbn [ev_list]. rewrite results_frame.
      f_equal. f_equal. apply pop_to_app.
    - injection HS as <- <-. destruct B as [acc'' B]. rewrite B.
      pose proof (nest_done_ne ps _ (inner_done_ne k) _ _ _ _ _ SN) as NE.
      destruct rv as [|v0 rv]; [congruence|]. f_equal. f_equal. apply pop_to_app.
  Qed.

  (* the last for-phrase is the outermost loop *)
  Lemma spec_nest_snoc : forall ps p F, spec_nest (ps ++ [p]) F = spec_wrap p (spec_nest ps F).
  Proof. induction ps as [|q t IH]; intros p F; [reflexivity|]. cbn [app spec_nest]. apply IH. Qed.
  Lemma nest_snoc : forall ps p s, nest (ps ++ [p]) s = wrap p (nest ps s).
  Proof. induction ps as [|q t IH]; intros p s; [reflexivity|]. cbn [app nest]. apply IH. Qed.

  (* ---------------------------------------------------------------- readable corollary: one phrase *)
  (* [e for x <- l if c]  =  map e (filter c l)   when e and c are effect-free *)
  Lemma single_list_items p x c e (cf : val -> bool) (ef : val -> val) :
    ph_key p = None -> ph_val p = Some x -> ph_cond p = Some c ->
    (forall v, pev ((x, v) :: en) c = Some (VBool (cf v), [])) ->
    (forall v, pev ((x, v) :: en) e = Some (ef v, [])) ->
    forall l i acc tr,
    spec_items p (spec_inner (CList e)) en (index_from i l) (VList acc) tr
    = Some (Cont (VList (acc ++ map ef (filter cf l))), tr).
  Proof. intros Hk Hv Hcd Hc He. induction l as [|v t IH]; intros i acc tr.
    - cbn [index_from filter map]. rewrite spec_items_nil. now rewrite app_nil_r.
    - cbn [index_from]. rewrite spec_items_cons. cbv zeta. unfold bind_kv, bind_opt. rewrite Hk, Hv, Hcd.
      rewrite Hc. cbn [filter]. destruct (cf v).
      + cbn [spec_inner]. rewrite He. rewrite !app_nil_r. rewrite IH. cbn [map]. now rewrite <- app_assoc.
      + rewrite app_nil_r. apply IH.
  Qed.

  Lemma single_list_map_filter x c e l (cf : val -> bool) (ef : val -> val) zero tr :
    (forall v, pev ((x, v) :: en) c = Some (VBool (cf v), [])) ->
    (forall v, pev ((x, v) :: en) e = Some (ef v, [])) ->
    spec_comprehension (CList e) zero [{| ph_key := None; ph_val := Some x; ph_x := EConst (VList l); ph_cond := Some c |}] en tr
    = Some ([VList (map ef (filter cf l))], tr).
  Proof. intros Hc He. unfold spec_comprehension. cbn [spec_nest]. unfold spec_wrap. cbn [ph_x pev range_of spec_init].
    rewrite app_nil_r.
    rewrite (single_list_items {| ph_key := None; ph_val := Some x; ph_x := EConst (VList l); ph_cond := Some c |}
               x c e cf ef eq_refl eq_refl eq_refl Hc He l 0 [] tr). reflexivity. Qed.

  (* ---------------------------------------------------------------- a <- v1, v2, ... *)
  Lemma pev_plain e0 v t : pev en e0 = Some (v, t) -> forall tr, ev e0 en tr = (RVal [v], en, tr ++ t).
  Proof. intros H. exact (pev_sound [] [] en (Forall_nil _) e0 v t H). Qed.

  Lemma send_fold : forall (ews : list (expr * val * trace)) base l tb tr,
    (forall tr0, ev base en tr0 = (RVal [VList l], en, tr0 ++ tb)) ->
    Forall (fun x => pev en (fst (fst x)) = Some (snd (fst x), snd x)) ews ->
    ev (fold_left EAppend (map (fun x => fst (fst x)) ews) base) en tr
    = (RVal [VList (l ++ map (fun x => snd (fst x)) ews)], en, (tr ++ tb) ++ concat (map snd ews)).
  Proof. induction ews as [|[[e0 w] t] rest IH]; intros base l tb tr Hb HF.
    - cbn [map fold_left concat]. rewrite Hb. now rewrite !app_nil_r.
    - inversion HF as [|? ? H1 H2]; subst. cbn [fst snd] in H1. cbn [map fold_left fst snd concat].
      rewrite (IH (EAppend base e0) (l ++ [w]) (tb ++ t)); auto.
      + rewrite <- !app_assoc. reflexivity.
      + intros tr0. rewrite ev_EAppend. unfold ev1. rewrite Hb. cbn [one]. rewrite (pev_plain _ _ _ H1). cbn [one].
        now rewrite <- app_assoc.
  Qed.

  Lemma send_append_ok a l (ews : list (expr * val * trace)) en' tr :
    lookup en a = Some (VList l) ->
    update en a (VList (l ++ map (fun x => snd (fst x)) ews)) = Some en' ->
    Forall (fun x => pev en (fst (fst x)) = Some (snd (fst x), snd x)) ews ->
    ex (lower_send a (map (fun x => fst (fst x)) ews)) en tr = (RVal tt, en', tr ++ concat (map snd ews)).
  Proof. intros HL HU HF. unfold lower_send. rewrite ex_SAssign. cbn [rhs_eval].
    rewrite (send_fold ews (EVar a) l [] tr); auto.
    - cbn [assign_all]. rewrite HU. now rewrite app_nil_r.
    - intros tr0. rewrite ev_EVar, HL. now rewrite app_nil_r.
  Qed.

  (* a blank loop variable: `[e for _ <- l]` evaluates e once per element, `{for _ <- l}` tells whether l is non-empty *)
  Lemma blank_list_items p e v0 : ph_key p = None -> ph_val p = None -> ph_cond p = None ->
    pev en e = Some (v0, []) ->
    forall l acc tr, spec_items p (spec_inner (CList e)) en l (VList acc) tr = Some (Cont (VList (acc ++ map (fun _ => v0) l)), tr).
  Proof. intros Hk Hv Hc He. induction l as [|[kv vv] t IH]; intros acc tr.
    - rewrite spec_items_nil. cbn [map]. now rewrite app_nil_r.
    - rewrite spec_items_cons. cbv zeta. unfold bind_kv, bind_opt. rewrite Hk, Hv, Hc. cbn [spec_inner]. rewrite He.
      rewrite app_nil_r. rewrite IH. cbn [map]. now rewrite <- app_assoc. Qed.

  Lemma blank_list e v0 l zero tr : pev en e = Some (v0, []) ->
    spec_comprehension (CList e) zero [{| ph_key := None; ph_val := None; ph_x := EConst (VList l); ph_cond := None |}] en tr
    = Some ([VList (map (fun _ => v0) l)], tr).
  Proof. intros He. unfold spec_comprehension. cbn [spec_nest]. unfold spec_wrap. cbn [ph_x pev range_of spec_init].
    rewrite app_nil_r.
    rewrite (blank_list_items {| ph_key := None; ph_val := None; ph_x := EConst (VList l); ph_cond := None |} e v0 eq_refl eq_refl eq_refl He).
    cbn [app]. f_equal. f_equal. f_equal. f_equal. clear. generalize 0. induction l; intros; cbn [index_from map]; f_equal; auto. Qed.

  Lemma blank_wf x c : wf_phrase {| ph_key := None; ph_val := None; ph_x := x; ph_cond := c |}.
  Proof. split; exact I. Qed.
End C02.

(* named instances, stated outside the section *)
Lemma comprehension_list_correct : forall err_text self en elt zero ps tr vs tr',
  Forall wf_phrase ps ->
  spec_comprehension (CList elt) zero ps en tr = Some (vs, tr') -> ev err_text self (lower_comprehension (CList elt) zero ps) en tr = (RVal vs, en, tr').
Proof. intros et self en elt. exact (comprehension_correct et self en (CList elt)). Qed.
Lemma comprehension_map_correct : forall err_text self en ke ve zero ps tr vs tr',
  Forall wf_phrase ps ->
  spec_comprehension (CMap ke ve) zero ps en tr = Some (vs, tr') -> ev err_text self (lower_comprehension (CMap ke ve) zero ps) en tr = (RVal vs, en, tr').
Proof. intros et self en ke ve. exact (comprehension_correct et self en (CMap ke ve)). Qed.
Lemma comprehension_select_correct : forall err_text self en elt two zero ps tr vs tr',
  Forall wf_phrase ps ->
  spec_comprehension (CSelect elt two) zero ps en tr = Some (vs, tr') -> ev err_text self (lower_comprehension (CSelect elt two) zero ps) en tr = (RVal vs, en, tr').
Proof. intros et self en elt two. exact (comprehension_correct et self en (CSelect elt two)). Qed.
Lemma comprehension_exists_correct : forall err_text self en zero ps tr vs tr',
  Forall wf_phrase ps ->
  spec_comprehension CExists zero ps en tr = Some (vs, tr') -> ev err_text self (lower_comprehension CExists zero ps) en tr = (RVal vs, en, tr').
Proof. intros et self en. exact (comprehension_correct et self en CExists). Qed.
Lemma last_phrase_outermost : forall ps p s F,
  nest (ps ++ [p]) s = wrap p (nest ps s) /\ spec_nest (ps ++ [p]) F = spec_wrap p (spec_nest ps F).
Proof. intros. split; [apply nest_snoc|apply spec_nest_snoc]. Qed.
