From Coq Require Import List ZArith NArith Bool Lia.
Import ListNotations.
From V Require Import Base.Prelude Model.MiniGo Model.Compr Proofs.MiniGo.
Open Scope Z_scope.

(* user variables only *)
Definition user_env (a : env) : Prop := Forall (fun p => is_user (fst p) = true) a.

Lemma fresh_user_env a x : user_env a -> is_user x = false -> fresh x a.
Proof. intros H Hx. eapply Forall_impl; [|exact H]. intros [y w]. cbn [fst]. destruct x, y; simpl in *; congruence. Qed.

Lemma pop_to_drop (b e1 e2 : env) : length e1 = length e2 -> pop_to (length e1) (b ++ e2) = e2.
Proof. intros H. rewrite H. apply pop_to_app. Qed.

(* ---- the user-visible part of an environment ---- *)
Lemma strip_app a b : strip (a ++ b) = strip a ++ strip b.
Proof. apply filter_app. Qed.
Lemma strip_user a : user_env a -> strip a = a.
Proof. induction 1 as [|[x v] t Hx _ IH]; [reflexivity|]. cbn [strip filter fst] in *. rewrite Hx. unfold strip in IH. now rewrite IH. Qed.
Lemma strip_nonuser R : nonuser R -> strip R = [].
Proof. induction 1 as [|[x v] t Hx _ IH]; [reflexivity|]. cbn [strip filter fst] in *. rewrite Hx. exact IH. Qed.
Lemma lookup_strip en x : is_user x = true -> lookup (strip en) x = lookup en x.
Proof. intros Hx. induction en as [|[y w] t IH]; [reflexivity|]. cbn [strip filter fst lookup].
  destruct (is_user y) eqn:Uy.
  - cbn [lookup]. destruct (name_eqb x y); auto.
  - assert (name_eqb x y = false) as -> by (destruct x, y; simpl in *; congruence). exact IH. Qed.
Lemma strip_mid a R en : user_env a -> nonuser R -> strip (a ++ R ++ en) = a ++ strip en.
Proof. intros Ha HR. rewrite !strip_app, (strip_user a Ha), (strip_nonuser R HR). reflexivity. Qed.

Section C02.
  Variable err_text : err -> str.
  Variable self : stmt -> env -> trace -> sres.
  Notation ev := (ev err_text self).
  Notation ex := (ex err_text self).

  (* pure operand expressions evaluate as pev says on the user-visible environment *)
  Lemma pev_sound : forall e en v t, pev (strip en) e = Some (v, t) ->
    forall tr, ev e en tr = (RVal [v], en, tr ++ t).
  Proof.
    induction e; intros en v0 t0 H tr; cbn [pev] in H; try discriminate.
    - injection H as <- <-. rewrite ev_EConst. now rewrite app_nil_r.
    - destruct (is_user x) eqn:U; [|discriminate]. rewrite (lookup_strip en x U) in H.
      destruct (lookup en x) as [w|] eqn:L; [|discriminate].
      injection H as <- <-. rewrite ev_EVar, L. now rewrite app_nil_r.
    - destruct (pev (strip en) e) as [[w t]|] eqn:P; [|discriminate]. injection H as <- <-.
      rewrite ev_EProbe. unfold ev1. rewrite (IHe _ _ _ P). cbn [one]. now rewrite <- app_assoc.
    - destruct (pev (strip en) e1) as [[x ta]|] eqn:P1; [|discriminate].
      destruct (pev (strip en) e2) as [[y tb]|] eqn:P2; [|discriminate].
      destruct (bin_eval op x y) eqn:B; try discriminate. injection H as <- <-.
      rewrite ev_EBin. unfold ev1. rewrite (IHe1 _ _ _ P1). cbn [one]. rewrite (IHe2 _ _ _ P2). cbn [one].
      rewrite B. now rewrite <- app_assoc.
  Qed.

  (* an operand is sound: its expression evaluates, in ANY environment, to what its meaning says on the
     user-visible part of that environment; single value, environment unchanged *)
  Definition op_ok (o : operand) : Prop :=
    forall en v tr tr', op_f o (strip en) tr = Some (v, tr') -> ev (op_e o) en tr = (RVal [v], en, tr').

  Lemma pure_op_ok e : op_ok (pure_op e).
  Proof. intros en v tr tr' H. cbn [pure_op op_f op_e] in *. destruct (pev (strip en) e) as [[w t]|] eqn:P; [|discriminate].
    injection H as <- <-. now apply pev_sound. Qed.

  Definition wf_phrase (p : phrase) : Prop :=
    match ph_key p with Some x => is_user x = true | None => True end /\
    match ph_val p with Some x => is_user x = true | None => True end /\
    op_ok (ph_x p) /\ match ph_cond p with Some c => op_ok c | None => True end.
  Definition wf_kind (k : ckind) : Prop :=
    match k with
    | CList e => op_ok e
    | CMap a b => op_ok a /\ op_ok b
    | CSelect e _ => op_ok e
    | CExists => True
    end.

  Section Env.
  Variable en : env.     (* the environment around the comprehension *)

  (* the closure's result variables around the accumulated value *)
  Definition frame (k : ckind) (acc : val) : env :=
    match k with
    | CList _ | CMap _ _ | CSelect _ false => [(NRet 0, acc)]
    | CSelect _ true => [(NOk, VBool false); (NRet 0, acc)]
    | CExists => [(NOk, acc)]
    end.
  Lemma frame_nonuser k acc : nonuser (frame k acc).
  Proof. destruct k as [| | ? [|] |]; repeat constructor. Qed.
  Lemma frame_length k acc acc' : length (frame k acc) = length (frame k acc').
  Proof. destruct k as [| | ? [|] |]; reflexivity. Qed.

  Lemma strip_env a k acc : user_env a -> strip (a ++ frame k acc ++ en) = a ++ strip en.
  Proof. intros Ha. apply strip_mid; auto. apply frame_nonuser. Qed.

  (* operands inside the loops *)
  Lemma op_at o a k acc v tr tr' : op_ok o -> user_env a -> op_f o (a ++ strip en) tr = Some (v, tr') ->
    ev (op_e o) (a ++ frame k acc ++ en) tr = (RVal [v], a ++ frame k acc ++ en, tr').
  Proof. intros Ho Ha H. apply Ho. now rewrite strip_env. Qed.

  (* a statement implements a body function *)
  Definition body_ok (k : ckind) (s : stmt) (F : body_fn) : Prop :=
    forall a acc tr st tr', user_env a -> F (a ++ strip en) acc tr = Some (st, tr') ->
      match st with
      | Cont acc' => ex s (a ++ frame k acc ++ en) tr = (RVal tt, a ++ frame k acc' ++ en, tr')
      | Done vs => exists acc'', ex s (a ++ frame k acc ++ en) tr = (RRet vs, a ++ frame k acc'' ++ en, tr')
      end.

  Lemma lookup_frame0 a acc : user_env a -> lookup (a ++ [(NRet 0, acc)] ++ en) (NRet 0) = Some acc.
  Proof. intros Ha. rewrite lookup_app_fresh by (apply fresh_user_env; auto). reflexivity. Qed.
  Lemma update_frame0 a acc v : user_env a -> update (a ++ [(NRet 0, acc)] ++ en) (NRet 0) v = Some (a ++ [(NRet 0, v)] ++ en).
  Proof. intros Ha. rewrite update_app_fresh by (apply fresh_user_env; auto). reflexivity. Qed.

  Lemma inner_ok k : wf_kind k -> body_ok k (innermost k) (spec_inner k).
  Proof.
    intros Wk a acc tr st tr' Ha H. destruct k as [elt|ke ve|elt two|]; cbn [spec_inner innermost wf_kind] in *.
    - (* list *)
      destruct acc as [| | | | |l| |]; try discriminate.
      destruct (op_f elt (a ++ strip en) tr) as [[v tr1]|] eqn:P; [|discriminate]. injection H as <- <-.
      pose proof (op_at elt a (CList elt) (VList l) v tr tr1 Wk Ha P) as PS.
      cbn [frame] in *.
      rewrite ex_SAssign. cbn [rhs_eval]. rewrite ev_EAppend. unfold ev1.
      rewrite ev_EVar, lookup_frame0 by auto. cbn [one]. rewrite PS. cbn [one assign_all].
      rewrite update_frame0 by auto. reflexivity.
    - (* map *)
      destruct Wk as [Wa Wb].
      destruct acc as [| | | | | |l|]; try discriminate.
      destruct (op_f ke (a ++ strip en) tr) as [[kv tr1]|] eqn:P1; [|discriminate].
      destruct (op_f ve (a ++ strip en) tr1) as [[vv tr2]|] eqn:P2; [|discriminate]. injection H as <- <-.
      pose proof (op_at ke a (CMap ke ve) (VMap l) kv tr tr1 Wa Ha P1) as PS1.
      pose proof (op_at ve a (CMap ke ve) (VMap l) vv tr1 tr2 Wb Ha P2) as PS2.
      cbn [frame] in *.
      rewrite ex_SSetIndex, lookup_frame0 by auto. rewrite PS1, PS2. rewrite update_frame0 by auto. reflexivity.
    - (* select *)
      destruct (op_f elt (a ++ strip en) tr) as [[v tr1]|] eqn:P; [|discriminate]. injection H as <- <-.
      rewrite ex_SReturn. exists acc. destruct two; cbn [ev_list].
      + rewrite (op_at elt a (CSelect elt true) acc v tr tr1 Wk Ha P). cbn [one]. rewrite ev_EConst. reflexivity.
      + rewrite (op_at elt a (CSelect elt false) acc v tr tr1 Wk Ha P). reflexivity.
    - injection H as <- <-. exists acc. rewrite ex_SReturn. cbn [ev_list]. rewrite ev_EConst. reflexivity.
  Qed.

  (* ---------------------------------------------------------------- one for-phrase *)
  Definition binds (p : phrase) (kv vv : val) : env := bind_kv p kv vv [].
  Lemma bind_kv_app p kv vv X : bind_kv p kv vv X = binds p kv vv ++ X.
  Proof. unfold binds, bind_kv, bind_opt. destruct (ph_val p), (ph_key p); reflexivity. Qed.
  Lemma binds_user p kv vv : wf_phrase p -> user_env (binds p kv vv).
  Proof. intros (Hk & Hv & _). unfold binds, bind_kv, bind_opt. destruct (ph_val p), (ph_key p); repeat constructor; auto. Qed.

  Lemma spec_items_nil p F e acc tr : spec_items p F e [] acc tr = Some (Cont acc, tr).
  Proof. reflexivity. Qed.
  Lemma spec_items_cons p F e kv vv t acc tr : spec_items p F e ((kv, vv) :: t) acc tr =
      let en' := bind_kv p kv vv e in
      let run := match ph_cond p with
                 | None => F en' acc tr
                 | Some c => match op_f c en' tr with
                             | Some (VBool true, tr1) => F en' acc tr1
                             | Some (VBool false, tr1) => Some (Cont acc, tr1)
                             | _ => None
                             end
                 end in
      match run with
      | Some (Cont acc', tr') => spec_items p F e t acc' tr'
      | r => r
      end.
  Proof. reflexivity. Qed.

  Definition guarded (p : phrase) (s : stmt) : stmt := match ph_cond p with Some c => SIf (op_e c) s SSkip | None => s end.

  (* the guarded body, run for one item *)
  Lemma guarded_ok k p s F : wf_phrase p -> body_ok k s F ->
    forall a acc tr st tr', user_env a ->
      match ph_cond p with
      | None => F (a ++ strip en) acc tr
      | Some c => match op_f c (a ++ strip en) tr with
                  | Some (VBool true, tr1) => F (a ++ strip en) acc tr1
                  | Some (VBool false, tr1) => Some (Cont acc, tr1)
                  | _ => None
                  end
      end = Some (st, tr') ->
      match st with
      | Cont acc' => ex (guarded p s) (a ++ frame k acc ++ en) tr = (RVal tt, a ++ frame k acc' ++ en, tr')
      | Done vs => exists acc'', ex (guarded p s) (a ++ frame k acc ++ en) tr = (RRet vs, a ++ frame k acc'' ++ en, tr')
      end.
  Proof.
    intros (_ & _ & _ & Wc) Hs a acc tr st tr' Ha H. unfold guarded. destruct (ph_cond p) as [c|]; [|exact (Hs a acc tr st tr' Ha H)].
    destruct (op_f c (a ++ strip en) tr) as [[[| [|] | | | | | |] tr1]|] eqn:PC; try discriminate.
    - (* filter true *)
      rewrite ex_SIf. rewrite (op_at c a k acc _ tr tr1 Wc Ha PC). cbv zeta.
      pose proof (Hs a acc tr1 st tr' Ha H) as B. destruct st as [acc'|vs].
      + rewrite B. f_equal. f_equal. apply pop_to_eqlen. rewrite !app_length. now rewrite (frame_length k acc acc').
      + destruct B as [acc'' B]. exists acc''. rewrite B. f_equal. f_equal. apply pop_to_eqlen.
        rewrite !app_length. now rewrite (frame_length k acc acc'').
    - (* filter false *)
      injection H as <- <-. rewrite ex_SIf. rewrite (op_at c a k acc _ tr tr1 Wc Ha PC). cbv zeta.
      rewrite ex_SSkip. now rewrite pop_to_same.
  Qed.

  Lemma items_ok k p s F : wf_phrase p -> body_ok k s F ->
    forall a, user_env a -> forall l acc tr st tr' n,
      n = length (a ++ frame k acc ++ en) ->
      spec_items p F (a ++ strip en) l acc tr = Some (st, tr') ->
      match st with
      | Cont acc' => range_go err_text self (ph_key p) (ph_val p) (guarded p s) n l (a ++ frame k acc ++ en) tr
                     = (RVal tt, a ++ frame k acc' ++ en, tr')
      | Done vs => exists acc'', range_go err_text self (ph_key p) (ph_val p) (guarded p s) n l (a ++ frame k acc ++ en) tr
                     = (RRet vs, a ++ frame k acc'' ++ en, tr')
      end.
  Proof.
    intros Hp Hs a Ha. induction l as [|[kv vv] t IH]; intros acc tr st tr' n Hn H.
    - rewrite spec_items_nil in H. injection H as <- <-. reflexivity.
    - rewrite spec_items_cons in H. cbv zeta in H. rewrite bind_kv_app in H.
      rewrite range_go_cons.
      change (bind_opt (ph_val p) vv (bind_opt (ph_key p) kv (a ++ frame k acc ++ en))) with (bind_kv p kv vv (a ++ frame k acc ++ en)).
      rewrite bind_kv_app.
      assert (Ha' : user_env (binds p kv vv ++ a)) by (apply Forall_app; split; [now apply binds_user|exact Ha]).
      rewrite (app_assoc (binds p kv vv) a (strip en)) in H.
      rewrite (app_assoc (binds p kv vv) a (frame k acc ++ en)).
      pose proof (guarded_ok k p s F Hp Hs (binds p kv vv ++ a) acc tr) as G.
      destruct (match ph_cond p with
                | Some c => match op_f c ((binds p kv vv ++ a) ++ strip en) tr with
                            | Some (VBool true, tr1) => F ((binds p kv vv ++ a) ++ strip en) acc tr1
                            | Some (VBool false, tr1) => Some (Cont acc, tr1)
                            | _ => None
                            end
                | None => F ((binds p kv vv ++ a) ++ strip en) acc tr
                end) as [[st1 tr1]|] eqn:RUN; [|discriminate].
      specialize (G st1 tr1 Ha' eq_refl). destruct st1 as [acc1|vs1].
      + rewrite G.
        assert (PP : pop_to n ((binds p kv vv ++ a) ++ frame k acc1 ++ en) = a ++ frame k acc1 ++ en).
        { rewrite <- app_assoc. subst n. apply pop_to_drop. rewrite !app_length. now rewrite (frame_length k acc acc1). }
        rewrite PP. apply IH; auto. subst n. rewrite !app_length. now rewrite (frame_length k acc acc1).
      + injection H as <- <-. destruct G as [acc'' G]. exists acc''. rewrite G. f_equal. f_equal.
        rewrite <- app_assoc. subst n. apply pop_to_drop. rewrite !app_length. now rewrite (frame_length k acc acc'').
  Qed.

  Lemma wrap_ok k p s F : wf_phrase p -> body_ok k s F -> body_ok k (wrap p s) (spec_wrap p F).
  Proof.
    intros Hp Hs a acc tr st tr' Ha H. unfold spec_wrap in H.
    destruct (op_f (ph_x p) (a ++ strip en) tr) as [[c tr1]|] eqn:PX; [|discriminate].
    destruct (range_of c) as [l| |] eqn:RG; try discriminate.
    unfold wrap. fold (guarded p s). rewrite ex_SRange.
    destruct Hp as (Hk & Hv & Wx & Wc).
    rewrite (op_at (ph_x p) a k acc c tr tr1 Wx Ha PX). rewrite RG.
    exact (items_ok k p s F (conj Hk (conj Hv (conj Wx Wc))) Hs a Ha l acc tr1 st tr' _ eq_refl H).
  Qed.

  Lemma nest_ok k : forall ps s F, Forall wf_phrase ps -> body_ok k s F -> body_ok k (nest ps s) (spec_nest ps F).
  Proof. induction ps as [|p t IH]; intros s F Hw Hs; [exact Hs|]. inversion Hw; subst. cbn [nest spec_nest].
    apply IH; auto. now apply wrap_ok. Qed.

  (* ---------------------------------------------------------------- the whole comprehension *)
  Definition done_ne (F : body_fn) : Prop := forall e acc tr vs tr', F e acc tr = Some (Done vs, tr') -> vs <> [].

  Lemma items_done_ne p F : done_ne F -> forall e l acc tr vs tr', spec_items p F e l acc tr = Some (Done vs, tr') -> vs <> [].
  Proof. intros HF e. induction l as [|[kv vv] t IH]; intros acc tr vs tr' H.
    - rewrite spec_items_nil in H. discriminate.
    - rewrite spec_items_cons in H. cbv zeta in H.
      destruct (match ph_cond p with
                | Some c => match op_f c (bind_kv p kv vv e) tr with
                            | Some (VBool true, tr1) => F (bind_kv p kv vv e) acc tr1
                            | Some (VBool false, tr1) => Some (Cont acc, tr1)
                            | _ => None
                            end
                | None => F (bind_kv p kv vv e) acc tr
                end) as [[[acc1|vs1] tr1]|] eqn:RUN; try discriminate.
      + eapply IH; eauto.
      + injection H as <- <-. destruct (ph_cond p) as [c|]; [|eapply HF; eauto].
        destruct (op_f c (bind_kv p kv vv e) tr) as [[[| [|] | | | | | |] tc]|]; try discriminate. eapply HF; eauto. Qed.

  Lemma wrap_done_ne p F : done_ne F -> done_ne (spec_wrap p F).
  Proof. intros HF e acc tr vs tr' H. unfold spec_wrap in H. destruct (op_f (ph_x p) e tr) as [[c tx]|]; [|discriminate].
    destruct (range_of c); try discriminate. eapply items_done_ne; eauto. Qed.

  Lemma nest_done_ne : forall ps F, done_ne F -> done_ne (spec_nest ps F).
  Proof. induction ps as [|p t IH]; intros F HF; [exact HF|]. cbn [spec_nest]. apply IH. now apply wrap_done_ne. Qed.

  Lemma inner_done_ne k : done_ne (spec_inner k).
  Proof. intros e acc tr vs tr' H. destruct k as [elt|ke ve|elt two|]; cbn [spec_inner] in H.
    - destruct acc; try discriminate. destruct (op_f elt e tr) as [[? ?]|]; discriminate.
    - destruct acc; try discriminate. destruct (op_f ke e tr) as [[? ?]|]; try discriminate. destruct (op_f ve e t) as [[? ?]|]; discriminate.
    - destruct (op_f elt e tr) as [[? ?]|]; try discriminate. injection H as <- _. discriminate.
    - injection H as <- _. discriminate. Qed.

  Lemma frame_init k zero : rev (results_of k zero) = frame k (spec_init k zero).
  Proof. destruct k as [| | ? [|] |]; reflexivity. Qed.

  Lemma results_frame k zero acc :
    closure_results (results_of k zero) (frame k acc ++ en) =
    Some (match k with CSelect _ true => [acc; VBool false] | _ => [acc] end).
  Proof. destruct k as [| | ? [|] |]; reflexivity. Qed.

  Lemma prologue_ok k zero tr :
    ex (prologue k) (frame k (spec_init k zero) ++ en) tr = (RVal tt, frame k (spec_init k zero) ++ en, tr).
  Proof. destruct k as [| | ? [|] |]; reflexivity. Qed.

  Lemma comprehension_correct k zero ps tr vs tr' :
    Forall wf_phrase ps -> wf_kind k ->
    spec_comprehension k zero ps (strip en) tr = Some (vs, tr') ->
    ev (lower_comprehension k zero ps) en tr = (RVal vs, en, tr').
  Proof.
    intros Hw Wk HS. unfold lower_comprehension. unfold spec_comprehension in HS.
    destruct (spec_nest ps (spec_inner k) (strip en) (spec_init k zero) tr) as [[st tr1]|] eqn:SN; [|discriminate].
    pose proof (nest_ok k ps (innermost k) (spec_inner k) Hw (inner_ok k Wk) [] (spec_init k zero) tr st tr1 (Forall_nil _) SN) as B.
    cbn [app] in B.
    rewrite ev_EClosure. cbv zeta. rewrite frame_init. rewrite ex_SSeq, prologue_ok, ex_SSeq.
    destruct st as [acc|rv].
    - injection HS as <- <-. rewrite B. rewrite ex_SReturn. cbn [ev_list]. rewrite results_frame.
      f_equal. f_equal. apply pop_to_app.
    - injection HS as <- <-. destruct B as [acc'' B]. rewrite B.
      pose proof (nest_done_ne ps _ (inner_done_ne k) _ _ _ _ _ SN) as NE.
      destruct rv as [|v0 rv]; [congruence|]. f_equal. f_equal. apply pop_to_app.
  Qed.
  End Env.

  (* a comprehension is itself a sound operand: comprehensions nest to any depth *)
  Lemma comp_op_ok k zero ps : Forall wf_phrase ps -> wf_kind k -> op_ok (comp_op k zero ps).
  Proof. intros Hw Wk en v tr tr' H. cbn [comp_op op_f op_e] in *.
    destruct (spec_comprehension k zero ps (strip en) tr) as [[[|v0 [|v1 r]] tr1]|] eqn:S; try discriminate.
    injection H as <- <-. now apply comprehension_correct. Qed.

  (* the last for-phrase is the outermost loop *)
  Lemma spec_nest_snoc : forall ps p F, spec_nest (ps ++ [p]) F = spec_wrap p (spec_nest ps F).
  Proof. induction ps as [|q t IH]; intros p F; [reflexivity|]. cbn [app spec_nest]. apply IH. Qed.
  Lemma nest_snoc : forall ps p s, nest (ps ++ [p]) s = wrap p (nest ps s).
  Proof. induction ps as [|q t IH]; intros p s; [reflexivity|]. cbn [app nest]. apply IH. Qed.

  (* ---------------------------------------------------------------- a <- v1, v2, ... *)
  Lemma send_fold en : forall (ews : list (expr * val * trace)) base l tb tr,
    (forall tr0, ev base en tr0 = (RVal [VList l], en, tr0 ++ tb)) ->
    Forall (fun x => pev (strip en) (fst (fst x)) = Some (snd (fst x), snd x)) ews ->
    ev (fold_left EAppend (map (fun x => fst (fst x)) ews) base) en tr
    = (RVal [VList (l ++ map (fun x => snd (fst x)) ews)], en, (tr ++ tb) ++ concat (map snd ews)).
  Proof. induction ews as [|[[e0 w] t] rest IH]; intros base l tb tr Hb HF.
    - cbn [map fold_left concat]. rewrite Hb. now rewrite !app_nil_r.
    - inversion HF as [|? ? H1 H2]; subst. cbn [fst snd] in H1. cbn [map fold_left fst snd concat].
      rewrite (IH (EAppend base e0) (l ++ [w]) (tb ++ t)); auto.
      + rewrite <- !app_assoc. reflexivity.
      + intros tr0. rewrite ev_EAppend. unfold ev1. rewrite Hb. cbn [one]. rewrite (pev_sound _ _ _ _ H1). cbn [one].
        now rewrite <- app_assoc.
  Qed.

  Lemma send_append_ok en a l (ews : list (expr * val * trace)) en' tr :
    lookup en a = Some (VList l) ->
    update en a (VList (l ++ map (fun x => snd (fst x)) ews)) = Some en' ->
    Forall (fun x => pev (strip en) (fst (fst x)) = Some (snd (fst x), snd x)) ews ->
    ex (lower_send a (map (fun x => fst (fst x)) ews)) en tr = (RVal tt, en', tr ++ concat (map snd ews)).
  Proof. intros HL HU HF. unfold lower_send. rewrite ex_SAssign. cbn [rhs_eval].
    rewrite (send_fold en ews (EVar a) l [] tr); auto.
    - cbn [assign_all]. rewrite HU. now rewrite app_nil_r.
    - intros tr0. rewrite ev_EVar, HL. now rewrite app_nil_r.
  Qed.
End C02.

(* ---------------------------------------------------------------- readable corollaries (no evaluator involved) *)
(* [e for x <- l if c]  =  map e (filter c l)   when e and c are effect-free *)
Lemma single_list_items p en x c e (cf : val -> bool) (ef : val -> val) :
  ph_key p = None -> ph_val p = Some x -> ph_cond p = Some (pure_op c) ->
  (forall v, pev ((x, v) :: en) c = Some (VBool (cf v), [])) ->
  (forall v, pev ((x, v) :: en) e = Some (ef v, [])) ->
  forall l i acc tr,
  spec_items p (spec_inner (CList (pure_op e))) en (index_from i l) (VList acc) tr
  = Some (Cont (VList (acc ++ map ef (filter cf l))), tr).
Proof. intros Hk Hv Hcd Hc He. induction l as [|v t IH]; intros i acc tr.
  - cbn [index_from filter map]. unfold spec_items. now rewrite app_nil_r.
  - cbn [index_from]. unfold spec_items. fold (spec_items p (spec_inner (CList (pure_op e))) en).
    cbv zeta. unfold bind_kv, bind_opt. rewrite Hk, Hv, Hcd. cbn [pure_op op_f].
    rewrite Hc. rewrite app_nil_r. cbn [filter]. destruct (cf v).
    + cbn [spec_inner pure_op op_f]. rewrite He. rewrite app_nil_r. rewrite IH. cbn [map]. now rewrite <- app_assoc.
    + apply IH.
Qed.

Lemma single_list_map_filter en x c e l (cf : val -> bool) (ef : val -> val) zero tr :
  (forall v, pev ((x, v) :: en) c = Some (VBool (cf v), [])) ->
  (forall v, pev ((x, v) :: en) e = Some (ef v, [])) ->
  spec_comprehension (CList (pure_op e)) zero
    [{| ph_key := None; ph_val := Some x; ph_x := pure_op (EConst (VList l)); ph_cond := Some (pure_op c) |}] en tr
  = Some ([VList (map ef (filter cf l))], tr).
Proof. intros Hc He. unfold spec_comprehension. cbn [spec_nest]. unfold spec_wrap. cbn [ph_x pure_op op_f pev range_of spec_init].
  rewrite app_nil_r.
  rewrite (single_list_items {| ph_key := None; ph_val := Some x; ph_x := pure_op (EConst (VList l)); ph_cond := Some (pure_op c) |}
             en x c e cf ef eq_refl eq_refl eq_refl Hc He l 0 [] tr). reflexivity. Qed.

(* a blank loop variable: `[e for _ <- l]` evaluates e once per element *)
Lemma blank_list_items p en e v0 : ph_key p = None -> ph_val p = None -> ph_cond p = None ->
  pev en e = Some (v0, []) ->
  forall l acc tr, spec_items p (spec_inner (CList (pure_op e))) en l (VList acc) tr = Some (Cont (VList (acc ++ map (fun _ => v0) l)), tr).
Proof. intros Hk Hv Hc He. induction l as [|[kv vv] t IH]; intros acc tr.
  - unfold spec_items. cbn [map]. now rewrite app_nil_r.
  - unfold spec_items. fold (spec_items p (spec_inner (CList (pure_op e))) en).
    cbv zeta. unfold bind_kv, bind_opt. rewrite Hk, Hv, Hc. cbn [spec_inner pure_op op_f]. rewrite He.
    rewrite app_nil_r. rewrite IH. cbn [map]. now rewrite <- app_assoc. Qed.

Lemma blank_list en e v0 l zero tr : pev en e = Some (v0, []) ->
  spec_comprehension (CList (pure_op e)) zero
    [{| ph_key := None; ph_val := None; ph_x := pure_op (EConst (VList l)); ph_cond := None |}] en tr
  = Some ([VList (map (fun _ => v0) l)], tr).
Proof. intros He. unfold spec_comprehension. cbn [spec_nest]. unfold spec_wrap. cbn [ph_x pure_op op_f pev range_of spec_init].
  rewrite app_nil_r.
  rewrite (blank_list_items {| ph_key := None; ph_val := None; ph_x := pure_op (EConst (VList l)); ph_cond := None |} en e v0 eq_refl eq_refl eq_refl He).
  cbn [app]. f_equal. f_equal. f_equal. f_equal. clear. generalize 0. induction l; intros; cbn [index_from map]; f_equal; auto. Qed.

Lemma blank_wf err_text self x c : op_ok err_text self x -> match c with Some o => op_ok err_text self o | None => True end ->
  wf_phrase err_text self {| ph_key := None; ph_val := None; ph_x := x; ph_cond := c |}.
Proof. intros Hx Hc. repeat split; auto. Qed.

Lemma last_phrase_outermost : forall ps p s F,
  nest (ps ++ [p]) s = wrap p (nest ps s) /\ spec_nest (ps ++ [p]) F = spec_wrap p (spec_nest ps F).
Proof. intros. split; [apply nest_snoc|apply spec_nest_snoc]. Qed.
