(* C23, the line table: when every spec of a block sits on its own line and the closing parenthesis is
   on a later line, the line-table model never panics and returns exactly what the layout-free
   functions return for the runs of the original layout. *)
From Coq Require Import List NArith ZArith Bool Lia Permutation Sorting.Sorted ZifyBool ZifyNat.
Import ListNotations.
From V Require Import Base.Prelude Model.C23 Proofs.C23.
Open Scope Z_scope.

(* ------------------------------------------------------------------ line_at and MergeLine *)
Definition cnt (lines : list Z) (q : Z) : nat := length (filter (fun s => s <=? q) lines).
Lemma line_at_cnt lines q : line_at lines q = Z.of_nat (cnt lines q).
Proof. reflexivity. Qed.

Lemma cnt_cons x r q : cnt (x :: r) q = ((if (x <=? q)%Z then 1 else 0) + cnt r q)%nat.
Proof. unfold cnt. simpl. destruct (x <=? q); reflexivity. Qed.

Lemma cnt_le_length lines q : (cnt lines q <= length lines)%nat.
Proof. unfold cnt. induction lines as [|x r IH]; simpl; [lia|]. destruct (x <=? q); simpl; lia. Qed.

Lemma cnt_mono lines q q' : q <= q' -> (cnt lines q <= cnt lines q')%nat.
Proof. intros H. induction lines as [|x r IH]; [auto|]. rewrite !cnt_cons.
  destruct (Z.leb_spec x q), (Z.leb_spec x q'); lia. Qed.

Lemma line_at_mono lines q q' : q <= q' -> line_at lines q <= line_at lines q'.
Proof. intros H. rewrite !line_at_cnt. pose proof (cnt_mono lines q q' H). lia. Qed.

Lemma cnt_zero x r q : StronglySorted Z.lt (x :: r) -> q < x -> cnt r q = 0%nat.
Proof. intros Hs Hq. inversion Hs as [|? ? _ Hf]; subst. clear Hs. induction r as [|y r IH]; [reflexivity|].
  inversion Hf; subst. rewrite cnt_cons, IH by auto. destruct (Z.leb_spec y q); lia. Qed.

Lemma cnt_remove : forall lines n q, StronglySorted Z.lt lines -> (n < length lines)%nat ->
  cnt (remove_nth n lines) q = if (n <? cnt lines q)%nat then (cnt lines q - 1)%nat else cnt lines q.
Proof.
  induction lines as [|x r IH]; intros n q Hs Hn; [simpl in Hn; lia|].
  assert (Hr : StronglySorted Z.lt r) by (inversion Hs; auto).
  destruct n as [|n].
  - simpl remove_nth. rewrite cnt_cons. destruct (Z.leb_spec x q).
    + destruct (Nat.ltb_spec 0 (1 + cnt r q)); lia.
    + rewrite (cnt_zero x r q Hs) by lia. reflexivity.
  - simpl remove_nth. rewrite !cnt_cons. simpl in Hn. rewrite IH by (auto; lia).
    destruct (Z.leb_spec x q).
    + destruct (Nat.ltb_spec n (cnt r q)), (Nat.ltb_spec (S n) (1 + cnt r q)); lia.
    + rewrite (cnt_zero x r q Hs) by lia. reflexivity.
Qed.

Lemma remove_nth_subseq {A} : forall n (l : list A), subseq (remove_nth n l) l.
Proof. induction n as [|n IH]; intros [|x l]; simpl; try apply sub_nil.
  - apply sub_skip, subseq_refl. - apply sub_keep, IH. Qed.

Lemma remove_nth_length {A} : forall n (l : list A), (n < length l)%nat -> length (remove_nth n l) = (length l - 1)%nat.
Proof. induction n as [|n IH]; intros [|x l] H; simpl in *; try lia. rewrite IH by lia. lia. Qed.

Definition tab_ok (lines : list Z) : Prop := StronglySorted Z.lt lines.

Lemma merge_ok lines L : tab_ok lines -> 1 <= L < zlen lines ->
  exists lines', merge_line lines L = Ok lines' /\ tab_ok lines' /\ zlen lines' = zlen lines - 1 /\
    forall q, line_at lines' q = if line_at lines q >? L then line_at lines q - 1 else line_at lines q.
Proof.
  intros Hs HL. unfold merge_line, zlen in *.
  destruct (Z.ltb_spec L 1); [lia|]. destruct (Z.leb_spec (Z.of_nat (length lines)) L); [lia|].
  exists (remove_nth (Z.to_nat L) lines). repeat split.
  - eapply subseq_sorted; [apply remove_nth_subseq|exact Hs].
  - rewrite remove_nth_length by lia. lia.
  - intros q. rewrite !line_at_cnt, cnt_remove by (auto; lia).
    destruct (Nat.ltb_spec (Z.to_nat L) (cnt lines q)), (Z.gtb_spec (Z.of_nat (cnt lines q)) L); lia.
Qed.

Lemma line_at_le_len lines q : line_at lines q <= zlen lines.
Proof. rewrite line_at_cnt. unfold zlen. pose proof (cnt_le_length lines q). lia. Qed.

(* ------------------------------------------------------------------ the dedup loop on a line table *)
Definition after_p (a : Z) (ps : list Z) : nat := length (filter (fun b => a <? b) ps).

Record inv (lines : list Z) (z : Z) (ps : list Z) : Prop := {
  iJ : forall a, In a ps -> line_at lines z - line_at lines a >= 1 + Z.of_nat (after_p a ps);
  iD : forall a b, In a ps -> In b ps -> a < b -> line_at lines a < line_at lines b;
  iN : NoDup ps;
  iP : forall a, In a ps -> 1 <= line_at lines a }.

Lemma Permutation_filter {A} (f : A -> bool) l l' : Permutation l l' -> Permutation (filter f l) (filter f l').
Proof. induction 1; simpl; auto.
  - destruct (f x); auto.
  - destruct (f x), (f y); auto. apply perm_swap.
  - eapply perm_trans; eauto. Qed.

Lemma inv_perm lines z ps ps' : Permutation ps ps' -> inv lines z ps -> inv lines z ps'.
Proof. intros P [J D N Pp]. constructor.
  - intros a Ha. unfold after_p. rewrite <- (Permutation_length (Permutation_filter _ _ _ P)).
    apply J. eapply Permutation_in; [apply Permutation_sym, P|exact Ha].
  - intros a b Ha Hb. apply D.
    + exact (Permutation_in a (Permutation_sym P) Ha).
    + exact (Permutation_in b (Permutation_sym P) Hb).
  - eapply Permutation_NoDup; eauto.
  - intros a Ha. apply Pp. eapply Permutation_in; [apply Permutation_sym, P|exact Ha].
Qed.

Lemma inv_tail lines z p ps : inv lines z (p :: ps) -> inv lines z ps.
Proof. intros [J D N Pp]. constructor.
  - intros a Ha. specialize (J a (or_intror Ha)). unfold after_p in *. cbn [filter] in J. destruct (a <? p); cbn [length] in J; lia.
  - intros a b Ha Hb. apply D; right; auto.
  - inversion N; auto.
  - intros a Ha. apply Pp. right; auto.
Qed.

(* dropping the head p: MergeLine(lineAt(p)) *)
Lemma inv_drop lines lines' z p ps : inv lines z (p :: ps) ->
  (forall q, line_at lines' q = if line_at lines q >? line_at lines p then line_at lines q - 1 else line_at lines q) ->
  inv lines' z ps.
Proof.
  intros [J D N Pp] Hsh. inversion N as [|? ? Hnotin N']; subst.
  assert (Hz : line_at lines z > line_at lines p) by (specialize (J p (or_introl eq_refl)); lia).
  assert (Hne : forall a, In a ps -> (a < p /\ line_at lines a < line_at lines p) \/ (p < a /\ line_at lines p < line_at lines a)).
  { intros a Ha. assert (a <> p) by (intros ->; contradiction).
    destruct (Z.lt_total a p) as [H1|[H1|H1]]; [left|contradiction|right]; split; auto; apply D; simpl; auto. }
  constructor.
  - intros a Ha. specialize (J a (or_intror Ha)). unfold after_p in *. cbn [filter] in J. rewrite !Hsh.
    destruct (Hne a Ha) as [[H1 H2]|[H1 H2]].
    + destruct (Z.ltb_spec a p); [|lia]. cbn [length] in J.
      destruct (Z.gtb_spec (line_at lines z) (line_at lines p)), (Z.gtb_spec (line_at lines a) (line_at lines p)); lia.
    + destruct (Z.ltb_spec a p); [lia|].
      destruct (Z.gtb_spec (line_at lines z) (line_at lines p)), (Z.gtb_spec (line_at lines a) (line_at lines p)); lia.
  - intros a b Ha Hb Hab. rewrite !Hsh. pose proof (D a b (or_intror Ha) (or_intror Hb) Hab).
    destruct (Hne a Ha) as [[H1 H2]|[H1 H2]], (Hne b Hb) as [[H3 H4]|[H3 H4]];
      destruct (Z.gtb_spec (line_at lines a) (line_at lines p)), (Z.gtb_spec (line_at lines b) (line_at lines p)); lia.
  - exact N'.
  - intros a Ha. rewrite Hsh. pose proof (Pp a (or_intror Ha)). pose proof (Pp p (or_introl eq_refl)).
    destruct (Z.gtb_spec (line_at lines a) (line_at lines p)); lia.
Qed.

Lemma dedupe_length_le l : (length (dedupe l) <= length l)%nat.
Proof. apply subseq_length, dedupe_subseq. Qed.

Lemma dedupe_m_ok : forall l lines z, tab_ok lines -> inv lines z (map spos l) ->
  exists lines', dedupe_m lines l = Ok (dedupe l, lines') /\ tab_ok lines' /\
    (forall q, line_at lines z <= line_at lines q ->
               line_at lines' q = line_at lines q - Z.of_nat (length l - length (dedupe l))) /\
    (forall q, line_at lines' q <= line_at lines q) /\
    (forall q, 1 <= line_at lines q -> 1 <= line_at lines' q).
Proof.
  induction l as [|s r IH]; intros lines z Ht Hi.
  - exists lines. simpl. repeat split; auto; intros; lia.
  - destruct r as [|n r].
    + exists lines. simpl. repeat split; auto; intros; lia.
    + rewrite dedupe_m_cons2, dedupe_cons2. destruct (collapse s n) eqn:Ec.
      * pose proof (iJ _ _ _ Hi (spos s) (or_introl eq_refl)) as Js.
        pose proof (iP _ _ _ Hi (spos s) (or_introl eq_refl)) as Ps.
        destruct (merge_ok lines (line_at lines (spos s)) Ht) as (l1 & E1 & T1 & Z1 & S1).
        { pose proof (line_at_le_len lines z). lia. }
        rewrite E1. cbn [bind].
        pose proof (inv_drop lines l1 z (spos s) (map spos (n :: r)) Hi S1) as Hi1.
        destruct (IH l1 z T1 Hi1) as (l2 & E2 & T2 & Sh2 & Le2 & P2).
        exists l2. rewrite E2. repeat split; auto.
        -- intros q Hq. assert (Hq1 : line_at l1 q = line_at lines q - 1).
           { rewrite S1. destruct (Z.gtb_spec (line_at lines q) (line_at lines (spos s))); lia. }
           assert (Hz1 : line_at l1 z = line_at lines z - 1).
           { rewrite S1. destruct (Z.gtb_spec (line_at lines z) (line_at lines (spos s))); lia. }
           rewrite Sh2 by lia. rewrite Hq1. pose proof (dedupe_length_le (n :: r)). simpl length in *. lia.
        -- intros q. specialize (Le2 q). rewrite S1 in Le2.
           destruct (Z.gtb_spec (line_at lines q) (line_at lines (spos s))); lia.
        -- intros q Hq. apply P2. rewrite S1.
           destruct (Z.gtb_spec (line_at lines q) (line_at lines (spos s))); lia.
      * destruct (IH lines z Ht (inv_tail _ _ _ _ Hi)) as (l2 & E2 & T2 & Sh2 & Le2 & P2).
        exists l2. rewrite E2. cbn [bind fst snd]. repeat split; auto.
Qed.

(* ------------------------------------------------------------------ strictly increasing layouts *)
(* positions strictly increasing and on strictly increasing lines *)
Definition incr (lines : list Z) (ps : list Z) : Prop :=
  StronglySorted (fun a b => a < b /\ line_at lines a < line_at lines b) ps.

Lemma incr_app_l lines a b : incr lines (a ++ b) -> incr lines a.
Proof. induction a as [|x a IH]; intros H; [constructor|]. simpl in H. inversion H as [|? ? Hs Hf]; subst. constructor.
  - apply IH. exact Hs.
  - rewrite Forall_app in Hf. tauto. Qed.
Lemma incr_app_r lines a b : incr lines (a ++ b) -> incr lines b.
Proof. induction a as [|x a IH]; intros H; auto. simpl in H. inversion H; subst. auto. Qed.

Lemma incr_gap lines : forall ps p z more, incr lines (p :: ps ++ z :: more) ->
  line_at lines z - line_at lines p >= 1 + Z.of_nat (length ps).
Proof. induction ps as [|p' ps IH]; intros p z more H.
  - inversion H as [|? ? _ F]; subst. inversion F; subst. simpl. lia.
  - inversion H as [|? ? H' F]; subst. inversion F as [|? ? [_ Hl] _]; subst.
    specialize (IH p' z more H'). simpl length. lia. Qed.

Lemma after_p_all a ps : Forall (fun b => a < b) ps -> after_p a ps = length ps.
Proof. unfold after_p. induction 1 as [|b ps Hb _ IH]; simpl; auto. destruct (Z.ltb_spec a b); [simpl; lia|lia]. Qed.

Lemma inv_of_incr lines : forall ps z more, incr lines (ps ++ z :: more) ->
  (forall a, In a ps -> 1 <= line_at lines a) -> inv lines z ps.
Proof.
  induction ps as [|p ps IH]; intros z more H H1.
  - constructor; simpl; try tauto. constructor.
  - simpl in H. inversion H as [|? ? H' F]; subst.
    specialize (IH z more H' (fun a Ha => H1 a (or_intror Ha))). destruct IH as [J D N Pp].
    rewrite Forall_app in F. destruct F as [F _].
    assert (Fp : Forall (fun b => p < b) ps) by (eapply Forall_impl; [|exact F]; simpl; tauto).
    constructor.
    + intros a [<-|Ha].
      * unfold after_p. simpl. destruct (Z.ltb_spec p p); [lia|].
        fold (after_p p ps). rewrite (after_p_all _ _ Fp). apply (incr_gap lines ps p z more H).
      * specialize (J a Ha). unfold after_p in *. simpl. rewrite Forall_forall in Fp. specialize (Fp a Ha).
        destruct (Z.ltb_spec a p); [lia|]. exact J.
    + intros a b [<-|Ha] [<-|Hb] Hab; try lia.
      * rewrite Forall_forall in F. apply F; auto.
      * rewrite Forall_forall in Fp. specialize (Fp a Ha). lia.
      * apply D; auto.
    + constructor; auto. intros Hin. rewrite Forall_forall in Fp. specialize (Fp p Hin). lia.
    + intros a [<-|Ha]; auto. apply H1. left; auto.
Qed.

(* a uniform shift of the lines of all listed positions keeps the layout *)
Lemma incr_shift lines lines' t ps : incr lines ps ->
  (forall a, In a ps -> line_at lines' a = line_at lines a - t) -> incr lines' ps.
Proof. induction 1 as [|p ps Hs IH F]; intros Hsh; constructor.
  - apply IH. intros a Ha. apply Hsh. right; auto.
  - apply Forall_forall. intros b Hb. rewrite Forall_forall in F. destruct (F b Hb).
    rewrite (Hsh p), (Hsh b); simpl; auto. lia. Qed.

(* ------------------------------------------------------------------ sortSpecs on a run followed by position z *)
Lemma sort_specs_m_ok srt lines z run more : sorter_ok srt -> tab_ok lines ->
  incr lines (map spos run ++ z :: more) -> (forall s, In s run -> 1 <= line_at lines (spos s)) ->
  exists out lines', sort_specs_m srt lines run = Ok (out, lines') /\ sort_specs srt run = Ok out /\ tab_ok lines' /\
    (forall q, line_at lines z <= line_at lines q ->
               line_at lines' q = line_at lines q - Z.of_nat (length run - length out)) /\
    (forall q, line_at lines' q <= line_at lines q) /\
    (forall q, 1 <= line_at lines q -> 1 <= line_at lines' q).
Proof.
  intros Hs Ht Hi H1. unfold sort_specs_m, sort_specs. destruct (Nat.leb_spec (length run) 1) as [Hl|Hl].
  - exists run, lines. repeat split; auto; intros; lia.
  - destruct (Hs run) as [HP _].
    assert (Hinv : inv lines z (map spos (srt run))).
    { eapply inv_perm; [apply Permutation_map, HP|]. eapply inv_of_incr; eauto.
      intros a Ha. apply in_map_iff in Ha as (s & <- & Hs'). auto. }
    destruct (dedupe_m_ok (srt run) lines z Ht Hinv) as (l1 & E1 & T1 & Sh & Le & P1).
    rewrite E1. cbn [bind fst snd].
    destruct (reassign_spec (dedupe (srt run)) (map span_of run)) as (out & R1 & R2 & R3).
    { rewrite map_length, (Permutation_length HP). apply dedupe_length_le. }
    rewrite R1. cbn [bind]. exists out, l1. repeat split; auto.
    intros q Hq. rewrite Sh by auto.
    assert (length out = length (dedupe (srt run))) by (rewrite <- (map_length ident_of out), R2, map_length; reflexivity).
    rewrite (Permutation_length HP). lia.
Qed.

(* ------------------------------------------------------------------ the loop over one block *)
(* line fields of the records = lines of the current table, up to a uniform shift k *)
Definition consistent (lines : list Z) (k : Z) (l : list spec) : Prop :=
  forall s, In s l -> sline s = line_at lines (spos s) + k /\ sendline s = line_at lines (send s) + k /\ spos s <= send s.

Lemma block_loop_ok srt (Hs : sorter_ok srt) : forall l lines prev cur out rp k,
  tab_ok lines -> incr lines (map spos (cur ++ l) ++ [rp]) ->
  (forall s, In s (cur ++ l) -> 1 <= line_at lines (spos s)) ->
  consistent lines k (cur ++ l) ->
  (match prev with Some p => exists c0, cur = c0 ++ [p] | None => cur = [] end) ->
  exists rs' lines' t, sort_runs srt (runs_loop prev cur l) = Ok rs' /\
    block_loop srt lines prev cur l out = Ok (out ++ concat rs', lines') /\ tab_ok lines' /\ 0 <= t /\
    (forall q, line_at lines rp <= line_at lines q -> line_at lines' q = line_at lines q - t) /\
    (forall q, line_at lines' q <= line_at lines q) /\
    (forall q, 1 <= line_at lines q -> 1 <= line_at lines' q).
Proof.
  induction l as [|s r IH]; intros lines prev cur out rp k Ht Hi H1 Hc Hp.
  - rewrite app_nil_r in *. cbn [runs_loop sort_runs block_loop].
    destruct (sort_specs_m_ok srt lines rp cur [] Hs Ht Hi H1) as (o & l1 & E1 & E2 & T1 & Sh & Le & P1).
    exists [o], l1, (Z.of_nat (length cur - length o)). rewrite E1, E2. cbn [bind fst snd concat]. rewrite app_nil_r.
    repeat split; auto. lia.
  - cbn [runs_loop block_loop].
    assert (Hstay : exists rs' lines' t, sort_runs srt (runs_loop (Some s) (cur ++ [s]) r) = Ok rs' /\
      block_loop srt lines (Some s) (cur ++ [s]) r out = Ok (out ++ concat rs', lines') /\ tab_ok lines' /\ 0 <= t /\
      (forall q, line_at lines rp <= line_at lines q -> line_at lines' q = line_at lines q - t) /\
      (forall q, line_at lines' q <= line_at lines q) /\
      (forall q, 1 <= line_at lines q -> 1 <= line_at lines' q)).
    { replace (cur ++ s :: r) with ((cur ++ [s]) ++ r) in * by (now rewrite <- app_assoc).
      apply (IH lines (Some s) (cur ++ [s]) out rp k); auto. exists cur. reflexivity. }
    destruct prev as [p|]; [|exact Hstay].
    destruct Hp as [c0 ->].
    assert (Hgap : (sline s >? 1 + sendline p) = (line_at lines (spos s) >? 1 + line_at lines (send p))).
    { destruct (Hc s) as (A1 & _ & _); [apply in_or_app; right; left; auto|].
      destruct (Hc p) as (_ & B2 & _); [apply in_or_app; left; apply in_or_app; right; left; auto|].
      rewrite A1, B2. destruct (Z.gtb_spec (line_at lines (spos s) + k) (1 + (line_at lines (send p) + k))),
        (Z.gtb_spec (line_at lines (spos s)) (1 + line_at lines (send p))); lia. }
    rewrite Hgap. destruct (line_at lines (spos s) >? 1 + line_at lines (send p)); [|exact Hstay].
    (* a new run starts at s: sort cur = c0 ++ [p] with the position of s as the following position *)
    set (cur := c0 ++ [p]) in *.
    assert (Hi' : incr lines (map spos cur ++ spos s :: (map spos r ++ [rp]))).
    { rewrite map_app in Hi. simpl map in Hi. rewrite <- app_assoc in Hi. simpl app in Hi. exact Hi. }
    destruct (sort_specs_m_ok srt lines (spos s) cur (map spos r ++ [rp]) Hs Ht Hi') as (o & l1 & E1 & E2 & T1 & Sh & Le & P1).
    { intros x Hx. apply H1. apply in_or_app. auto. }
    rewrite E1. cbn [bind fst snd sort_runs]. rewrite E2. cbn [bind].
    set (t := Z.of_nat (length cur - length o)) in *.
    (* every position from s on is shifted by t *)
    assert (Hsr : incr lines (spos s :: map spos r ++ [rp])) by (apply incr_app_r in Hi'; exact Hi').
    assert (Hlater : forall q, spos s <= q -> line_at l1 q = line_at lines q - t).
    { intros q Hq. apply Sh. now apply line_at_mono. }
    assert (Hpos : forall a, In a (spos s :: map spos r ++ [rp]) -> spos s <= a).
    { intros a [<-|Ha]; [lia|]. inversion Hsr as [|? ? _ F]; subst. rewrite Forall_forall in F. destruct (F a Ha). lia. }
    assert (Hrp : spos s <= rp) by (apply Hpos; right; apply in_or_app; right; left; auto).
    destruct (IH l1 (Some s) [s] (out ++ o) rp (k + t)) as (rs' & l2 & t2 & F1 & F2 & T2 & Ht2 & Sh2 & Le2 & P2); auto.
    + simpl app. simpl map. apply (incr_shift lines l1 t); [exact Hsr|].
      intros a Ha. apply Hlater, Hpos. exact Ha.
    + intros x Hx. apply P1, H1. apply in_or_app. right. exact Hx.
    + intros x Hx. destruct (Hc x) as (A1 & A2 & A3); [apply in_or_app; right; exact Hx|].
      assert (spos s <= spos x).
      { apply Hpos. simpl in Hx. destruct Hx as [<-|Hx]; [left; auto|right]. apply in_or_app. left. now apply in_map. }
      rewrite !Hlater by lia. repeat split; lia.
    + exists []. reflexivity.
    + exists (o :: rs'), l2, (t + t2). rewrite F1. cbn [bind concat]. rewrite F2, <- app_assoc. repeat split; auto.
      * unfold t. lia.
      * intros q Hq. pose proof (line_at_mono lines _ _ Hrp) as M1.
        rewrite Sh2.
        -- rewrite (Sh q) by lia. fold t. lia.
        -- rewrite (Sh rp), (Sh q) by lia. lia.
      * intros q. specialize (Le q). specialize (Le2 q). lia.
Qed.

(* ------------------------------------------------------------------ the Rparen clean-up loop never panics *)
Lemma rparen_loop_ok : forall n lines L, tab_ok lines -> Z.of_nat n < L -> L <= zlen lines ->
  exists lines', rparen_loop n lines L = Ok lines' /\ tab_ok lines' /\
    (forall q, L <= line_at lines q -> line_at lines' q = line_at lines q - Z.of_nat n) /\
    (forall q, line_at lines' q <= line_at lines q) /\
    (forall q, 1 <= line_at lines q -> 1 <= line_at lines' q).
Proof.
  induction n as [|n IH]; intros lines L Ht Hn HL.
  - exists lines. simpl. repeat split; auto; intros; lia.
  - cbn [rparen_loop]. destruct (merge_ok lines (L - 1) Ht) as (l1 & E1 & T1 & Z1 & S1); [lia|].
    rewrite E1. cbn [bind]. destruct (IH l1 (L - 1) T1) as (l2 & E2 & T2 & Sh2 & Le2 & P2); [lia|lia|].
    exists l2. rewrite E2. repeat split; auto.
    + intros q Hq. assert (line_at l1 q = line_at lines q - 1).
      { rewrite S1. destruct (Z.gtb_spec (line_at lines q) (L - 1)); lia. }
      rewrite Sh2 by lia. lia.
    + intros q. specialize (Le2 q). rewrite S1 in Le2. destruct (Z.gtb_spec (line_at lines q) (L - 1)); lia.
    + intros q Hq. apply P2. rewrite S1. destruct (Z.gtb_spec (line_at lines q) (L - 1)); lia.
Qed.

(* ------------------------------------------------------------------ one block *)
Lemma sort_block_m_ok srt lines rp specs k : sorter_ok srt -> tab_ok lines ->
  incr lines (map spos specs ++ [rp]) -> (forall s, In s specs -> 1 <= line_at lines (spos s)) ->
  consistent lines k specs ->
  exists out lines' t, sort_block srt specs = Ok out /\ sort_block_m srt lines rp specs = Ok (out, lines') /\
    tab_ok lines' /\ 0 <= t /\
    (forall q, line_at lines rp <= line_at lines q -> line_at lines' q = line_at lines q - t) /\
    (forall q, 1 <= line_at lines q -> 1 <= line_at lines' q).
Proof.
  intros Hs Ht Hi H1 Hc.
  destruct (block_loop_ok srt Hs specs lines None [] [] rp k Ht Hi H1 Hc eq_refl)
    as (rs' & l1 & t & F1 & F2 & T1 & Ht0 & Sh & Le & P1).
  unfold sort_block, sort_block_m, runs. rewrite F1, F2. cbn [bind fst snd app].
  destruct (rev (concat rs')) as [|lst rest] eqn:Er.
  - exists (concat rs'), l1, t. repeat split; auto.
  - set (L := line_at l1 rp). set (n := Z.to_nat (L - line_at l1 (spos lst) - 1)).
    assert (Hn : n = 0%nat \/ Z.of_nat n < L).
    { unfold n. assert (0 <= line_at l1 (spos lst)) by (rewrite line_at_cnt; lia). lia. }
    destruct Hn as [Hn|Hn].
    + rewrite Hn. cbn [rparen_loop bind]. exists (concat rs'), l1, t. repeat split; auto.
    + destruct (rparen_loop_ok n l1 L T1 Hn) as (l2 & E2 & T2 & Sh2 & Le2 & P2); [apply line_at_le_len|].
      rewrite E2. cbn [bind]. exists (concat rs'), l2, (t + Z.of_nat n). repeat split; auto; try lia.
      intros q Hq. rewrite Sh2.
      * rewrite (Sh q Hq). lia.
      * unfold L. rewrite (Sh rp), (Sh q) by lia. lia.
Qed.

(* ------------------------------------------------------------------ the whole file *)
(* every processed block, in the current table: one spec per line on increasing lines, the closing
   parenthesis on a later line, everything after position lo; line fields = current lines + k *)
Fixpoint file_layout (lines : list Z) (k lo : Z) (ds : list ldecl) : Prop :=
  match ds with
  | [] => True
  | LOther :: _ => True
  | LImport false _ _ :: r => file_layout lines k lo r
  | LImport true rp sp :: r =>
    incr lines (map spos sp ++ [rp]) /\ lo <= rp /\
    (forall s, In s sp -> lo <= spos s /\ 1 <= line_at lines (spos s)) /\
    consistent lines k sp /\ file_layout lines k rp r
  end.

Lemma file_layout_shift lines lines' t : forall ds k lo,
  (forall q, lo <= q -> line_at lines' q = line_at lines q - t) ->
  (forall q, 1 <= line_at lines q -> 1 <= line_at lines' q) ->
  file_layout lines k lo ds -> file_layout lines' (k + t) lo ds.
Proof.
  induction ds as [|d r IH]; intros k lo Hsh Hp H; [exact I|].
  destruct d as [[|] rp sp|]; simpl in *; auto.
  destruct H as (Hi & Hlo & Hs & Hc & Hr).
  assert (Hge : forall a, In a (map spos sp ++ [rp]) -> lo <= a).
  { intros a Ha. apply in_app_or in Ha as [Ha|[<-|[]]]; auto. apply in_map_iff in Ha as (s & <- & Hin). apply Hs; auto. }
  repeat split.
  - apply (incr_shift lines lines' t); auto.
  - exact Hlo.
  - apply Hs; auto.
  - apply Hp, Hs; auto.
  - destruct (Hc s H) as (A1 & A2 & A3). rewrite Hsh by (apply Hs; auto). lia.
  - destruct (Hc s H) as (A1 & A2 & A3). destruct (Hs s H). rewrite Hsh by lia. lia.
  - apply Hc; auto.
  - apply IH; auto. intros q Hq. apply Hsh. lia.
Qed.

Lemma sort_imports_m_ok srt : sorter_ok srt -> forall ds lines k lo, tab_ok lines -> file_layout lines k lo ds ->
  exists ds' lines', sort_imports_m srt lines ds = Ok (ds', lines') /\
                     sort_imports srt (map to_decl ds) = Ok (map to_decl ds').
Proof.
  intros Hs. induction ds as [|d r IH]; intros lines k lo Ht H.
  - exists [], lines. simpl. auto.
  - destruct d as [[|] rp sp|].
    + simpl in H. destruct H as (Hi & Hlo & Hsp & Hc & Hr).
      destruct (sort_block_m_ok srt lines rp sp k Hs Ht Hi) as (out & l1 & t & B1 & B2 & T1 & Ht0 & Sh & P1); auto.
      { intros s Hin. apply Hsp; auto. }
      assert (Hr1 : file_layout l1 (k + t) rp r).
      { apply (file_layout_shift lines l1 t); auto. intros q Hq. apply Sh. now apply line_at_mono. }
      destruct (IH l1 (k + t) rp T1 Hr1) as (r' & l2 & R1 & R2).
      exists (LImport true rp out :: r'), l2. cbn [sort_imports_m sort_imports map to_decl].
      rewrite B2, B1. cbn [bind fst snd]. rewrite R1, R2. cbn [bind fst snd]. auto.
    + simpl in H. destruct (IH lines k lo Ht H) as (r' & l2 & R1 & R2).
      exists (LImport false rp sp :: r'), l2. cbn [sort_imports_m sort_imports map to_decl].
      rewrite R1, R2. cbn [bind fst snd]. auto.
    + exists (LOther :: r), lines. simpl. auto.
Qed.
