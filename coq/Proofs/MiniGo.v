(* Unfolding equations and basic facts about the MiniGo evaluator (Model/MiniGo.v). *)
From Coq Require Import List ZArith NArith Bool Lia.
Import ListNotations.
From V Require Import Base.Prelude Model.MiniGo.
Open Scope Z_scope.

(* ------------------------------------------------------------------ environments *)
Lemma name_eqb_refl x : name_eqb x x = true.
Proof. destruct x; simpl; auto using N.eqb_refl, Nat.eqb_refl. Qed.
Lemma name_eqb_eq x y : name_eqb x y = true -> x = y.
Proof. destruct x, y; simpl; try discriminate; intros H; try reflexivity.
  - apply N.eqb_eq in H. now subst.
  - apply Nat.eqb_eq in H. now subst.
  - apply Nat.eqb_eq in H. now subst. Qed.
Lemma name_eqb_sym x y : name_eqb x y = name_eqb y x.
Proof. destruct x, y; simpl; auto using N.eqb_sym, Nat.eqb_sym. Qed.

(* x is not bound in l *)
Definition fresh (x : name) (l : env) : Prop := Forall (fun p => name_eqb x (fst p) = false) l.
(* bindings of compiler-generated names only *)
Definition nonuser (l : env) : Prop := Forall (fun p => is_user (fst p) = false) l.

Lemma fresh_app x a b : fresh x (a ++ b) <-> fresh x a /\ fresh x b.
Proof. apply Forall_app. Qed.
Lemma fresh_rev x a : fresh x a -> fresh x (rev a).
Proof. apply Forall_rev. Qed.

Lemma lookup_app_fresh a b x : fresh x a -> lookup (a ++ b) x = lookup b x.
Proof. induction 1 as [|[y w] t Hy _ IH]; [reflexivity|]. cbn [app lookup]. cbn [fst] in Hy. now rewrite Hy. Qed.
Lemma lookup_here x v b : lookup ((x, v) :: b) x = Some v.
Proof. cbn [lookup]. now rewrite name_eqb_refl. Qed.
Lemma update_app_fresh a b x v : fresh x a ->
  update (a ++ b) x v = match update b x v with Some b' => Some (a ++ b') | None => None end.
Proof. induction 1 as [|[y w] t Hy _ IH]; [cbn [app]; destruct (update b x v); reflexivity|].
  cbn [app update]. cbn [fst] in Hy. rewrite Hy, IH. destruct (update b x v); reflexivity. Qed.
Lemma update_here x w v b : update ((x, w) :: b) x v = Some ((x, v) :: b).
Proof. cbn [update]. now rewrite name_eqb_refl. Qed.

Lemma lookup_user_nonuser loc en n : nonuser loc -> lookup (loc ++ en) (NUser n) = lookup en (NUser n).
Proof. intros H. apply lookup_app_fresh. eapply Forall_impl; [|exact H]. intros [y w]. cbn [fst]. destruct y; simpl; congruence. Qed.

(* pairwise distinct names *)
Fixpoint distinct (xs : list name) : Prop :=
  match xs with [] => True | x :: t => Forall (fun y => name_eqb y x = false) t /\ distinct t end.

Lemma fresh_combine x (xs : list name) (vs : list val) : Forall (fun y => name_eqb x y = false) xs -> fresh x (combine xs vs).
Proof. revert vs. induction xs as [|y t IH]; intros vs H; [constructor|]. destruct vs as [|v vs]; [constructor|].
  inversion H; subst. constructor; auto. apply IH; auto. Qed.

Lemma assign_all_app xs1 vs1 xs2 vs2 en : length xs1 = length vs1 ->
  assign_all (xs1 ++ xs2) (vs1 ++ vs2) en =
  match assign_all xs1 vs1 en with Some en' => assign_all xs2 vs2 en' | None => None end.
Proof. revert vs1 en. induction xs1 as [|x t IH]; intros [|v vs1] en H; try discriminate; [reflexivity|].
  cbn [app assign_all]. destruct (update en x v); [|reflexivity]. apply IH. now injection H. Qed.

(* assigning the named results of a closure, laid out as  pre ++ rev (combine xs ws) ++ en *)
Lemma assign_rev : forall (xs : list name) (ws vs : list val) (pre en : env),
  length ws = length xs -> length vs = length xs -> distinct xs -> Forall (fun x => fresh x pre) xs ->
  assign_all xs vs (pre ++ rev (combine xs ws) ++ en) = Some (pre ++ rev (combine xs vs) ++ en).
Proof.
  induction xs as [|x t IH]; intros ws vs pre en Hw Hv Hd Hf.
  - destruct vs; [reflexivity|discriminate].
  - destruct ws as [|w ws]; [discriminate|]. destruct vs as [|v vs]; [discriminate|].
    destruct Hd as [Hx Hd]. inversion Hf as [|? ? Hfx Hft]; subst.
    cbn [combine rev assign_all].
    replace (pre ++ (rev (combine t ws) ++ [(x, w)]) ++ en) with ((pre ++ rev (combine t ws)) ++ (x, w) :: en)
      by (rewrite <- !app_assoc; reflexivity).
    rewrite update_app_fresh, update_here.
    + replace ((pre ++ rev (combine t ws)) ++ (x, v) :: en) with (pre ++ rev (combine t ws) ++ ((x, v) :: en))
        by (rewrite <- !app_assoc; reflexivity).
      rewrite IH; auto; try (simpl in *; lia).
      rewrite <- !app_assoc. reflexivity.
    + apply fresh_app. split; auto. apply fresh_rev. apply fresh_combine.
      eapply Forall_impl; [|exact Hx]. intros y Hy. now rewrite name_eqb_sym.
Qed.

Lemma bind_all_rev : forall xs vs en, length xs = length vs -> bind_all xs vs en = Some (rev (combine xs vs) ++ en).
Proof. induction xs as [|x t IH]; intros [|v vs] en H; try discriminate; [reflexivity|].
  cbn [bind_all combine rev]. rewrite IH by (now injection H). rewrite <- app_assoc. reflexivity. Qed.

Section Facts.
  Variable err_text : err -> str.
  Variable self : stmt -> env -> trace -> sres.
  Notation ev := (ev err_text self).
  Notation ex := (ex err_text self).

  (* evaluation of a list of single-valued expressions, left to right *)
  Fixpoint ev_list (es : list expr) (en : env) (tr : trace) {struct es} : eres :=
    match es with
    | [] => (RVal [], en, tr)
    | e :: t => match ev e en tr with
                | (RVal vs, en', tr') =>
                  match one vs with
                  | Some v => match ev_list t en' tr' with
                              | (RVal r, en'', tr'') => (RVal (v :: r), en'', tr'')
                              | x => x
                              end
                  | None => (RStuck, en', tr')
                  end
                | (r, en', tr') => (cast r, en', tr')
                end
    end.

  (* evaluation of one single-valued operand, continuation style (the evaluator's ev1) *)
  Definition ev1 (e : expr) (en : env) (tr : trace) (k : val -> env -> trace -> eres) : eres :=
    match ev e en tr with
    | (RVal vs, en', tr') => match one vs with Some v => k v en' tr' | None => (RStuck, en', tr') end
    | (r, en', tr') => (cast r, en', tr')
    end.

  Lemma ev_EConst v en tr : ev (EConst v) en tr = (RVal [v], en, tr).
  Proof. reflexivity. Qed.
  Lemma ev_EVar x en tr : ev (EVar x) en tr = match lookup en x with Some v => (RVal [v], en, tr) | None => (RStuck, en, tr) end.
  Proof. reflexivity. Qed.
  Lemma ev_EProbe id a en tr : ev (EProbe id a) en tr = ev1 a en tr (fun v en' tr' => (RVal [v], en', tr' ++ [Ev id [v]])).
  Proof. reflexivity. Qed.
  Lemma ev_ECallP id rs en tr : ev (ECallP id rs) en tr = (RVal rs, en, tr ++ [Ev id []]).
  Proof. reflexivity. Qed.
  Lemma ev_ECallA id args rs en tr : ev (ECallA id args rs) en tr =
    match ev_list args en tr with
    | (RVal vs, en', tr') => (RVal rs, en', tr' ++ [Ev id vs])
    | x => x
    end.
  Proof. reflexivity. Qed.
  Lemma ev_EBin op a b en tr : ev (EBin op a b) en tr =
    ev1 a en tr (fun x en1 tr1 => ev1 b en1 tr1 (fun y en2 tr2 =>
      match bin_eval op x y with RVal v => (RVal [v], en2, tr2) | r => (cast r, en2, tr2) end)).
  Proof. reflexivity. Qed.
  Lemma ev_EToStr c a en tr : ev (EToStr c a) en tr =
    ev1 a en tr (fun v en' tr' => match conv_eval err_text c v with RVal s => (RVal [s], en', tr') | r => (cast r, en', tr') end).
  Proof. reflexivity. Qed.
  Lemma ev_EConcat es en tr : ev (EConcat es) en tr =
    match ev_list es en tr with
    | (RVal vs, en', tr') => match strs vs with Some s => (RVal [VStr s], en', tr') | None => (RStuck, en', tr') end
    | x => x
    end.
  Proof. reflexivity. Qed.
  Lemma ev_EList es en tr : ev (EList es) en tr =
    match ev_list es en tr with
    | (RVal vs, en', tr') => (RVal [VList vs], en', tr')
    | x => x
    end.
  Proof. reflexivity. Qed.
  Lemma ev_ENeNil a en tr : ev (ENeNil a) en tr = ev1 a en tr (fun v en' tr' =>
          match v with
          | VErr (Some _) => (RVal [VBool true], en', tr')
          | VErr None => (RVal [VBool false], en', tr')
          | _ => (RStuck, en', tr')
          end).
  Proof. reflexivity. Qed.
  Lemma ev_EFrameOf a en tr : ev (EFrameOf a) en tr = ev1 a en tr (fun v en' tr' =>
          match v with
          | VErr (Some x) => (RVal [VErr (Some (EFrame x))], en', tr')
          | _ => (RStuck, en', tr')
          end).
  Proof. reflexivity. Qed.
  Lemma ev_EAppend s x en tr : ev (EAppend s x) en tr =
    ev1 s en tr (fun a en1 tr1 => ev1 x en1 tr1 (fun b en2 tr2 =>
      match a with VList l => (RVal [VList (l ++ [b])], en2, tr2) | _ => (RStuck, en2, tr2) end)).
  Proof. reflexivity. Qed.

  Definition closure_results (rs : list (name * val)) (en' : env) : option (list val) :=
    (fix go (l : list (name * val)) : option (list val) :=
       match l with
       | [] => Some []
       | (x, _) :: t => match lookup en' x, go t with Some v, Some r => Some (v :: r) | _, _ => None end
       end) rs.
  Lemma ev_EClosure rs body en tr : ev (EClosure rs body) en tr =
    let n := length en in
    match ex body (rev rs ++ en) tr with
    | (RVal _, en', tr') | (RRet [], en', tr') =>
      match closure_results rs en' with
      | Some vs => (RVal vs, pop_to n en', tr')
      | None => (RStuck, pop_to n en', tr')
      end
    | (RRet vs, en', tr') => (RVal vs, pop_to n en', tr')
    | (r, en', tr') => (cast r, pop_to n en', tr')
    end.
  Proof. reflexivity. Qed.

  Lemma closure_results_cons x z t en' : closure_results ((x, z) :: t) en' =
    match lookup en' x, closure_results t en' with Some v, Some r => Some (v :: r) | _, _ => None end.
  Proof. reflexivity. Qed.

  Lemma results_rev : forall (xs : list name) (zs vs : list val) (pre en : env),
    length zs = length xs -> length vs = length xs -> distinct xs -> Forall (fun x => fresh x pre) xs ->
    closure_results (combine xs zs) (pre ++ rev (combine xs vs) ++ en) = Some vs.
  Proof.
    induction xs as [|x t IH]; intros zs vs pre en Hz Hv Hd Hf.
    - destruct vs; [reflexivity|discriminate].
    - destruct zs as [|z zs]; [discriminate|]. destruct vs as [|v vs]; [discriminate|].
      destruct Hd as [Hx Hd]. inversion Hf as [|? ? Hfx Hft]; subst.
      cbn [combine rev]. rewrite closure_results_cons.
      replace (pre ++ (rev (combine t vs) ++ [(x, v)]) ++ en) with ((pre ++ rev (combine t vs)) ++ (x, v) :: en)
        by (rewrite <- !app_assoc; reflexivity).
      rewrite lookup_app_fresh, lookup_here.
      + replace ((pre ++ rev (combine t vs)) ++ (x, v) :: en) with (pre ++ rev (combine t vs) ++ ((x, v) :: en))
          by (rewrite <- !app_assoc; reflexivity).
        rewrite IH; auto; simpl in *; lia.
      + apply fresh_app. split; auto. apply fresh_rev. apply fresh_combine.
        eapply Forall_impl; [|exact Hx]. intros y Hy. now rewrite name_eqb_sym.
  Qed.

  Definition rhs_eval (es : list expr) (en : env) (tr : trace) : eres :=
    match es with [e] => ev e en tr | _ => ev_list es en tr end.

  Lemma ex_SSkip en tr : ex SSkip en tr = (RVal tt, en, tr).
  Proof. reflexivity. Qed.
  Lemma ex_SSeq a b en tr : ex (SSeq a b) en tr = match ex a en tr with (RVal _, en', tr') => ex b en' tr' | x => x end.
  Proof. reflexivity. Qed.
  Lemma ex_SDefine xs es en tr : ex (SDefine xs es) en tr =
    match rhs_eval es en tr with
    | (RVal vs, en', tr') => match bind_all xs vs en' with Some en'' => (RVal tt, en'', tr') | None => (RStuck, en', tr') end
    | (r, en', tr') => (cast r, en', tr')
    end.
  Proof. destruct es as [|e [|e2 t]]; reflexivity. Qed.
  Lemma ex_SAssign xs es en tr : ex (SAssign xs es) en tr =
    match rhs_eval es en tr with
    | (RVal vs, en', tr') => match assign_all xs vs en' with Some en'' => (RVal tt, en'', tr') | None => (RStuck, en', tr') end
    | (r, en', tr') => (cast r, en', tr')
    end.
  Proof. destruct es as [|e [|e2 t]]; reflexivity. Qed.
  Lemma ex_SSetIndex m k v en tr : ex (SSetIndex m k v) en tr =
    match lookup en m with
    | Some (VMap l) =>
      match ev k en tr with
      | (RVal [kv], en1, tr1) =>
        match ev v en1 tr1 with
        | (RVal [vv], en2, tr2) =>
          match update en2 m (VMap (map_set l kv vv key_eqb)) with
          | Some en3 => (RVal tt, en3, tr2)
          | None => (RStuck, en2, tr2)
          end
        | (RVal _, en2, tr2) => (RStuck, en2, tr2)
        | (r, en2, tr2) => (cast r, en2, tr2)
        end
      | (RVal _, en1, tr1) => (RStuck, en1, tr1)
      | (r, en1, tr1) => (cast r, en1, tr1)
      end
    | _ => (RStuck, en, tr)
    end.
  Proof. reflexivity. Qed.
  Lemma ex_SIf c t f en tr : ex (SIf c t f) en tr =
    match ev c en tr with
    | (RVal [VBool b], en', tr') =>
      let n := length en' in
      match ex (if b then t else f) en' tr' with (r, en'', tr'') => (r, pop_to n en'', tr'') end
    | (RVal _, en', tr') => (RStuck, en', tr')
    | (r, en', tr') => (cast r, en', tr')
    end.
  Proof. reflexivity. Qed.
  Lemma ex_SReturn es en tr : ex (SReturn es) en tr =
    match ev_list es en tr with
    | (RVal vs, en', tr') => (RRet vs, en', tr')
    | (r, en', tr') => (cast r, en', tr')
    end.
  Proof. reflexivity. Qed.
  Lemma ex_SPanic e en tr : ex (SPanic e) en tr =
    match ev e en tr with
    | (RVal [v], en', tr') => (RPanic v, en', tr')
    | (RVal _, en', tr') => (RStuck, en', tr')
    | (r, en', tr') => (cast r, en', tr')
    end.
  Proof. reflexivity. Qed.
  Lemma ex_SExpr e en tr : ex (SExpr e) en tr =
    match ev e en tr with
    | (RVal _, en', tr') => (RVal tt, en', tr')
    | (r, en', tr') => (cast r, en', tr')
    end.
  Proof. reflexivity. Qed.
  Lemma ex_SBlock b en tr : ex (SBlock b) en tr =
    let n := length en in match ex b en tr with (r, en', tr') => (r, pop_to n en', tr') end.
  Proof. reflexivity. Qed.

  Definition range_go (k v : option name) (body : stmt) (n : nat) : list (val * val) -> env -> trace -> sres :=
    fix go (l : list (val * val)) (en : env) (tr : trace) {struct l} : sres :=
    match l with
    | [] => (RVal tt, en, tr)
    | (kv, vv) :: t =>
      match ex body (bind_opt v vv (bind_opt k kv en)) tr with
      | (RVal _, en1, tr1) => go t (pop_to n en1) tr1
      | (r, en1, tr1) => (r, pop_to n en1, tr1)
      end
    end.
  Lemma range_go_nil k v body n en tr : range_go k v body n [] en tr = (RVal tt, en, tr).
  Proof. reflexivity. Qed.
  Lemma range_go_cons k v body n kv vv t en tr : range_go k v body n ((kv, vv) :: t) en tr =
      match ex body (bind_opt v vv (bind_opt k kv en)) tr with
      | (RVal _, en1, tr1) => range_go k v body n t (pop_to n en1) tr1
      | (r, en1, tr1) => (r, pop_to n en1, tr1)
      end.
  Proof. reflexivity. Qed.
  Lemma ex_SRange k v x body en tr : ex (SRange k v x body) en tr =
    match ev x en tr with
    | (RVal [c], en', tr') =>
      match range_of c with
      | Items l => range_go k v body (length en') l en' tr'
      | ItemsPanic => (RPanic (VStr []), en', tr')
      | ItemsStuck => (RStuck, en', tr')
      end
    | (RVal _, en', tr') => (RStuck, en', tr')
    | (r, en', tr') => (cast r, en', tr')
    end.
  Proof. reflexivity. Qed.

  Lemma ex_SLoop c post body en tr : ex (SLoop c post body) en tr =
    match ev c en tr with
    | (RVal [VBool false], en', tr') => (RVal tt, en', tr')
    | (RVal [VBool true], en', tr') =>
      let n := length en' in
      match ex body en' tr' with
      | (RVal _, en1, tr1) =>
        match ex post (pop_to n en1) tr1 with
        | (RVal _, en2, tr2) => self (SLoop c post body) en2 tr2
        | x => x
        end
      | (r, en1, tr1) => (r, pop_to n en1, tr1)
      end
    | (RVal _, en', tr') => (RStuck, en', tr')
    | (r, en', tr') => (cast r, en', tr')
    end.
  Proof. reflexivity. Qed.

  Lemma pop_to_app (a b : env) : pop_to (length b) (a ++ b) = b.
  Proof. unfold pop_to. rewrite app_length. replace (length a + length b - length b)%nat with (length a) by lia.
    rewrite skipn_app. rewrite skipn_all. rewrite Nat.sub_diag. reflexivity. Qed.
  Lemma pop_to_eqlen (a b : env) : length a = length b -> pop_to (length a) b = b.
  Proof. intros H. unfold pop_to. rewrite H, Nat.sub_diag. reflexivity. Qed.
  Lemma pop_to_same (b : env) : pop_to (length b) b = b.
  Proof. apply (pop_to_app [] b). Qed.

  (* side-effect-free-on-the-environment expressions: constants, variables, probe calls, arithmetic.
     pure_eval en e v t : e denotes v in en and logs the events t *)
  Inductive pure_eval (en : env) : expr -> val -> trace -> Prop :=
    | PE_const v : pure_eval en (EConst v) v []
    | PE_var x v : lookup en x = Some v -> pure_eval en (EVar x) v []
    | PE_probe id a v t : pure_eval en a v t -> pure_eval en (EProbe id a) v (t ++ [Ev id [v]])
    | PE_bin op a b x y v ta tb : pure_eval en a x ta -> pure_eval en b y tb -> bin_eval op x y = RVal v ->
        pure_eval en (EBin op a b) v (ta ++ tb).

  Lemma pure_eval_sound en e v t : pure_eval en e v t -> forall tr, ev e en tr = (RVal [v], en, tr ++ t).
  Proof. induction 1 as [v|x v Hl|id a v t _ IH|op a b x y v ta tb _ IHa _ IHb Hop]; intros tr.
    - rewrite ev_EConst. now rewrite app_nil_r.
    - rewrite ev_EVar, Hl. now rewrite app_nil_r.
    - rewrite ev_EProbe. unfold ev1. rewrite IH. cbn [one]. now rewrite app_assoc.
    - rewrite ev_EBin. unfold ev1. rewrite IHa. cbn [one]. rewrite IHb. cbn [one]. rewrite Hop. now rewrite app_assoc.
  Qed.

  (* pure expressions over user variables do not see compiler-generated bindings *)
  Fixpoint user_only (e : expr) : bool :=
    match e with
    | EConst _ => true
    | EVar x => is_user x
    | EProbe _ a => user_only a
    | EBin _ a b => user_only a && user_only b
    | _ => false
    end.

  Lemma pure_eval_weaken en e v t : pure_eval en e v t -> user_only e = true ->
    forall loc, nonuser loc -> pure_eval (loc ++ en) e v t.
  Proof. induction 1 as [v|x v Hl|id a v t _ IH|op a b x y v ta tb _ IHa _ IHb Hop]; intros U loc Hn; cbn [user_only] in U.
    - constructor.
    - constructor. destruct x; try discriminate. now rewrite lookup_user_nonuser.
    - constructor. auto.
    - apply andb_prop in U as [U1 U2]. econstructor; eauto. Qed.
End Facts.
