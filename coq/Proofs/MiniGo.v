(* Unfolding equations and basic facts about the MiniGo evaluator (Model/MiniGo.v). *)
From Coq Require Import List ZArith NArith Bool Lia.
Import ListNotations.
From V Require Import Base.Prelude Model.MiniGo.
Open Scope Z_scope.

Section Facts.
  Variable err_text : err -> str.
  Variable self : stmt -> env -> trace -> sres.
  Notation ev := (ev err_text self).
  Notation ex := (ex err_text self).

  (* evaluation of a list of single-valued expressions, left to right *)
  Fixpoint ev_list (es : list expr) (en : env) (tr : trace) {struct es} : eres :=
    match es with
    | [] => (RVal [], en, tr)
    | e :: t => match ev e en tr with
                | (RVal vs, en', tr') =>
                  match one vs with
                  | Some v => match ev_list t en' tr' with
                              | (RVal r, en'', tr'') => (RVal (v :: r), en'', tr'')
                              | x => x
                              end
                  | None => (RStuck, en', tr')
                  end
                | (r, en', tr') => (cast r, en', tr')
                end
    end.

  (* evaluation of one single-valued operand, continuation style (the evaluator's ev1) *)
  Definition ev1 (e : expr) (en : env) (tr : trace) (k : val -> env -> trace -> eres) : eres :=
    match ev e en tr with
    | (RVal vs, en', tr') => match one vs with Some v => k v en' tr' | None => (RStuck, en', tr') end
    | (r, en', tr') => (cast r, en', tr')
    end.

  Lemma ev_EConst v en tr : ev (EConst v) en tr = (RVal [v], en, tr).
  Proof. reflexivity. Qed.
  Lemma ev_EVar x en tr : ev (EVar x) en tr = match lookup en x with Some v => (RVal [v], en, tr) | None => (RStuck, en, tr) end.
  Proof. reflexivity. Qed.
  Lemma ev_EProbe id a en tr : ev (EProbe id a) en tr = ev1 a en tr (fun v en' tr' => (RVal [v], en', tr' ++ [Ev id [v]])).
  Proof. reflexivity. Qed.
  Lemma ev_ECallP id rs en tr : ev (ECallP id rs) en tr = (RVal rs, en, tr ++ [Ev id []]).
  Proof. reflexivity. Qed.
  Lemma ev_EBin op a b en tr : ev (EBin op a b) en tr =
    ev1 a en tr (fun x en1 tr1 => ev1 b en1 tr1 (fun y en2 tr2 =>
      match bin_eval op x y with RVal v => (RVal [v], en2, tr2) | r => (cast r, en2, tr2) end)).
  Proof. reflexivity. Qed.
  Lemma ev_EToStr c a en tr : ev (EToStr c a) en tr =
    ev1 a en tr (fun v en' tr' => match conv_eval err_text c v with RVal s => (RVal [s], en', tr') | r => (cast r, en', tr') end).
  Proof. reflexivity. Qed.
  Lemma ev_EConcat es en tr : ev (EConcat es) en tr =
    match ev_list es en tr with
    | (RVal vs, en', tr') => match strs vs with Some s => (RVal [VStr s], en', tr') | None => (RStuck, en', tr') end
    | x => x
    end.
  Proof. reflexivity. Qed.
  Lemma ev_EList es en tr : ev (EList es) en tr =
    match ev_list es en tr with
    | (RVal vs, en', tr') => (RVal [VList vs], en', tr')
    | x => x
    end.
  Proof. reflexivity. Qed.
  Lemma ev_ENeNil a en tr : ev (ENeNil a) en tr = ev1 a en tr (fun v en' tr' =>
          match v with
          | VErr (Some _) => (RVal [VBool true], en', tr')
          | VErr None => (RVal [VBool false], en', tr')
          | _ => (RStuck, en', tr')
          end).
  Proof. reflexivity. Qed.
  Lemma ev_EFrameOf a en tr : ev (EFrameOf a) en tr = ev1 a en tr (fun v en' tr' =>
          match v with
          | VErr (Some x) => (RVal [VErr (Some (EFrame x))], en', tr')
          | _ => (RStuck, en', tr')
          end).
  Proof. reflexivity. Qed.
  Lemma ev_EAppend s x en tr : ev (EAppend s x) en tr =
    ev1 s en tr (fun a en1 tr1 => ev1 x en1 tr1 (fun b en2 tr2 =>
      match a with VList l => (RVal [VList (l ++ [b])], en2, tr2) | _ => (RStuck, en2, tr2) end)).
  Proof. reflexivity. Qed.

  Definition closure_results (rs : list (name * val)) (en' : env) : option (list val) :=
    (fix go (l : list (name * val)) : option (list val) :=
       match l with
       | [] => Some []
       | (x, _) :: t => match lookup en' x, go t with Some v, Some r => Some (v :: r) | _, _ => None end
       end) rs.
  Lemma ev_EClosure rs body en tr : ev (EClosure rs body) en tr =
    let n := length en in
    match ex body (rev rs ++ en) tr with
    | (RVal _, en', tr') | (RRet [], en', tr') =>
      match closure_results rs en' with
      | Some vs => (RVal vs, pop_to n en', tr')
      | None => (RStuck, pop_to n en', tr')
      end
    | (RRet vs, en', tr') => (RVal vs, pop_to n en', tr')
    | (r, en', tr') => (cast r, pop_to n en', tr')
    end.
  Proof. reflexivity. Qed.

  Definition rhs_eval (es : list expr) (en : env) (tr : trace) : eres :=
    match es with [e] => ev e en tr | _ => ev_list es en tr end.

  Lemma ex_SSkip en tr : ex SSkip en tr = (RVal tt, en, tr).
  Proof. reflexivity. Qed.
  Lemma ex_SSeq a b en tr : ex (SSeq a b) en tr = match ex a en tr with (RVal _, en', tr') => ex b en' tr' | x => x end.
  Proof. reflexivity. Qed.
  Lemma ex_SDefine xs es en tr : ex (SDefine xs es) en tr =
    match rhs_eval es en tr with
    | (RVal vs, en', tr') => match bind_all xs vs en' with Some en'' => (RVal tt, en'', tr') | None => (RStuck, en', tr') end
    | (r, en', tr') => (cast r, en', tr')
    end.
  Proof. destruct es as [|e [|e2 t]]; reflexivity. Qed.
  Lemma ex_SAssign xs es en tr : ex (SAssign xs es) en tr =
    match rhs_eval es en tr with
    | (RVal vs, en', tr') => match assign_all xs vs en' with Some en'' => (RVal tt, en'', tr') | None => (RStuck, en', tr') end
    | (r, en', tr') => (cast r, en', tr')
    end.
  Proof. destruct es as [|e [|e2 t]]; reflexivity. Qed.
  Lemma ex_SIf c t f en tr : ex (SIf c t f) en tr =
    match ev c en tr with
    | (RVal [VBool b], en', tr') =>
      let n := length en' in
      match ex (if b then t else f) en' tr' with (r, en'', tr'') => (r, pop_to n en'', tr'') end
    | (RVal _, en', tr') => (RStuck, en', tr')
    | (r, en', tr') => (cast r, en', tr')
    end.
  Proof. reflexivity. Qed.
  Lemma ex_SReturn es en tr : ex (SReturn es) en tr =
    match ev_list es en tr with
    | (RVal vs, en', tr') => (RRet vs, en', tr')
    | (r, en', tr') => (cast r, en', tr')
    end.
  Proof. reflexivity. Qed.
  Lemma ex_SPanic e en tr : ex (SPanic e) en tr =
    match ev e en tr with
    | (RVal [v], en', tr') => (RPanic v, en', tr')
    | (RVal _, en', tr') => (RStuck, en', tr')
    | (r, en', tr') => (cast r, en', tr')
    end.
  Proof. reflexivity. Qed.
  Lemma ex_SExpr e en tr : ex (SExpr e) en tr =
    match ev e en tr with
    | (RVal _, en', tr') => (RVal tt, en', tr')
    | (r, en', tr') => (cast r, en', tr')
    end.
  Proof. reflexivity. Qed.
  Lemma ex_SBlock b en tr : ex (SBlock b) en tr =
    let n := length en in match ex b en tr with (r, en', tr') => (r, pop_to n en', tr') end.
  Proof. reflexivity. Qed.

  Definition range_go (k v : option name) (body : stmt) (n : nat) : list (val * val) -> env -> trace -> sres :=
    fix go (l : list (val * val)) (en : env) (tr : trace) {struct l} : sres :=
    match l with
    | [] => (RVal tt, en, tr)
    | (kv, vv) :: t =>
      match ex body (bind_opt v vv (bind_opt k kv en)) tr with
      | (RVal _, en1, tr1) => go t (pop_to n en1) tr1
      | (r, en1, tr1) => (r, pop_to n en1, tr1)
      end
    end.
  Lemma range_go_nil k v body n en tr : range_go k v body n [] en tr = (RVal tt, en, tr).
  Proof. reflexivity. Qed.
  Lemma range_go_cons k v body n kv vv t en tr : range_go k v body n ((kv, vv) :: t) en tr =
      match ex body (bind_opt v vv (bind_opt k kv en)) tr with
      | (RVal _, en1, tr1) => range_go k v body n t (pop_to n en1) tr1
      | (r, en1, tr1) => (r, pop_to n en1, tr1)
      end.
  Proof. reflexivity. Qed.
  Lemma ex_SRange k v x body en tr : ex (SRange k v x body) en tr =
    match ev x en tr with
    | (RVal [c], en', tr') =>
      match range_of c with
      | Items l => range_go k v body (length en') l en' tr'
      | ItemsPanic => (RPanic (VStr []), en', tr')
      | ItemsStuck => (RStuck, en', tr')
      end
    | (RVal _, en', tr') => (RStuck, en', tr')
    | (r, en', tr') => (cast r, en', tr')
    end.
  Proof. reflexivity. Qed.

  Lemma ex_SLoop c post body en tr : ex (SLoop c post body) en tr =
    match ev c en tr with
    | (RVal [VBool false], en', tr') => (RVal tt, en', tr')
    | (RVal [VBool true], en', tr') =>
      let n := length en' in
      match ex body en' tr' with
      | (RVal _, en1, tr1) =>
        match ex post (pop_to n en1) tr1 with
        | (RVal _, en2, tr2) => self (SLoop c post body) en2 tr2
        | x => x
        end
      | (r, en1, tr1) => (r, pop_to n en1, tr1)
      end
    | (RVal _, en', tr') => (RStuck, en', tr')
    | (r, en', tr') => (cast r, en', tr')
    end.
  Proof. reflexivity. Qed.

  Lemma pop_to_app (a b : env) : pop_to (length b) (a ++ b) = b.
  Proof. unfold pop_to. rewrite app_length. replace (length a + length b - length b)%nat with (length a) by lia.
    rewrite skipn_app. rewrite skipn_all. rewrite Nat.sub_diag. reflexivity. Qed.
  Lemma pop_to_same (b : env) : pop_to (length b) b = b.
  Proof. apply (pop_to_app [] b). Qed.

  (* side-effect-free-on-the-environment expressions: constants, variables, probe calls, arithmetic.
     pure_eval en e v t : e denotes v in en and logs the events t *)
  Inductive pure_eval (en : env) : expr -> val -> trace -> Prop :=
    | PE_const v : pure_eval en (EConst v) v []
    | PE_var x v : lookup en x = Some v -> pure_eval en (EVar x) v []
    | PE_probe id a v t : pure_eval en a v t -> pure_eval en (EProbe id a) v (t ++ [Ev id [v]])
    | PE_bin op a b x y v ta tb : pure_eval en a x ta -> pure_eval en b y tb -> bin_eval op x y = RVal v ->
        pure_eval en (EBin op a b) v (ta ++ tb).

  Lemma pure_eval_sound en e v t : pure_eval en e v t -> forall tr, ev e en tr = (RVal [v], en, tr ++ t).
  Proof. induction 1 as [v|x v Hl|id a v t _ IH|op a b x y v ta tb _ IHa _ IHb Hop]; intros tr.
    - rewrite ev_EConst. now rewrite app_nil_r.
    - rewrite ev_EVar, Hl. now rewrite app_nil_r.
    - rewrite ev_EProbe. unfold ev1. rewrite IH. cbn [one]. now rewrite app_assoc.
    - rewrite ev_EBin. unfold ev1. rewrite IHa. cbn [one]. rewrite IHb. cbn [one]. rewrite Hop. now rewrite app_assoc.
  Qed.
End Facts.
