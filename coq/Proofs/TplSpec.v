(* C29: the README semantics as a fuel-free derivation relation, and the refinement theorem:
   the matcher model is sound and complete for it, and the relation is functional. *)
From Coq Require Import List NArith ZArith Bool Arith Lia.
Import ListNotations.
From V Require Import Base.Prelude Base.TplRes Gen.Tokens Model.Tpl Proofs.Tpl.
Local Open Scope nat_scope.

Inductive oc := OkR (n : nat) (t : res) | FailR (n : nat).
Definition oc_of (r : nat * res * bool) : oc := let '(n, x, e) := r in if e then FailR n else OkR n x.

Section Spec.
Variable env : list (option m).
Variable toks : list tokn.
Notation run := (run env toks).

(* basic tokens: one token of the given class / spelling; "" ; SPACE *)
Definition leaf (g : m) (i : nat) : option out :=
  let src0 := nth_error toks i in
  match g with
  | MTrue => Some (okr 0 RNil)
  | MWS => Some (match src0, i with
                 | Some t, S j =>
                     match nth_error toks j with
                     | Some p => e <- tok_end p ;; if negb (Z.eqb e (tpos t)) then okr 0 RNil else failr 0
                     | None => Panic
                     end
                 | _, _ => failr 0
                 end)
  | MStr q => Some (match src0 with
                    | None => failr 0
                    | Some t => if negb (Z.eqb (ttok t) STRING) then failr 0
                                else match tlit t with
                                     | c :: _ => if N.eqb c q then okr 1 (RTok i) else failr 0
                                     | [] => Panic
                                     end
                    end)
  | MTok k => Some (match src0 with
                    | None => failr 0
                    | Some t => if Z.eqb (ttok t) k then okr 1 (RTok i) else failr 0
                    end)
  | MLit k l => Some (match src0 with
                      | None => failr 0
                      | Some t => if Z.eqb (ttok t) k && str_eqb (tlit t) l then okr 1 (RTok i) else failr 0
                      end)
  | _ => None
  end.

(* The semantics of tpl/README.md (plus the commit rule of ordered choice), over the same states
   as the matcher's loops.  No fuel: a derivation exists or not. *)
Inductive Dst : rs -> oc -> Prop :=
(* tokens *)
| D_leaf g i r : leaf g i = Some (Ok r) -> Dst (SM g i) (oc_of r)
(* R1 | ... | Rn : ordered, first success wins; commit on consumed input unless a later option conflicts *)
| D_choice opts st i o : Dst (SCh opts st i 0) o -> Dst (SM (MChoice opts st) i) o
| DC_nil st i nm : Dst (SCh [] st i nm) (FailR nm)
| DC_ok o t st i nm n x : Dst (SM o i) (OkR n x) -> Dst (SCh (o :: t) st i nm) (OkR n x)
| DC_commit o t st i nm n : Dst (SM o i) (FailR n) -> 0 < n -> Dst (SCh (o :: t) (true :: st) i nm) (FailR n)
| DC_next o t s st i nm n o' : Dst (SM o i) (FailR n) -> n = 0 \/ s = false ->
    Dst (SCh t st i (Nat.max nm n)) o' -> Dst (SCh (o :: t) (s :: st) i nm) o'
(* R1 R2 ... Rn : all in order; result = list of the n results; first failure fails the sequence *)
| D_seq items i o : Dst (SSq items i 0 []) o -> Dst (SM (MSeq items) i) o
| DS_nil i n acc : Dst (SSq [] i n acc) (OkR n (RList (rev acc)))
| DS_fail it t i n acc n1 : Dst (SM it (i + n)) (FailR n1) -> Dst (SSq (it :: t) i n acc) (FailR (n + n1))
| DS_ok it t i n acc n1 x o : Dst (SM it (i + n)) (OkR n1 x) -> Dst (SSq t i (n + n1) (x :: acc)) o ->
    Dst (SSq (it :: t) i n acc) o
(* *R, +R : greedy, repeat until R fails; +R needs a first R *)
| D_rep0 r i o : Dst (SRp r i 0 []) o -> Dst (SM (MRep0 r) i) o
| D_rep1_fail r i n : Dst (SM r i) (FailR n) -> Dst (SM (MRep1 r) i) (FailR n)
| D_rep1_ok r i n0 x0 o : Dst (SM r i) (OkR n0 x0) -> Dst (SRp r i n0 [x0]) o -> Dst (SM (MRep1 r) i) o
| DR_stop r i n acc n1 : Dst (SM r (i + n)) (FailR n1) -> Dst (SRp r i n acc) (OkR n (RList (rev acc)))
| DR_more r i n acc n1 x o : Dst (SM r (i + n)) (OkR n1 x) -> Dst (SRp r i (n + n1) (x :: acc)) o -> Dst (SRp r i n acc) o
(* ?R : R's result, or nil *)
| D_opt_some r i n x : Dst (SM r i) (OkR n x) -> Dst (SM (MRep01 r) i) (OkR n x)
| D_opt_none r i n : Dst (SM r i) (FailR n) -> Dst (SM (MRep01 r) i) (OkR 0 RNil)
(* R1 ++ R2 : both non-empty and touching *)
| D_adj_afail a b i n : Dst (SM a i) (FailR n) -> Dst (SM (MAdj a b) i) (FailR n)
| D_adj_aempty a b i x : Dst (SM a i) (OkR 0 x) -> Dst (SM (MAdj a b) i) (FailR 0)
| D_adj_bfail a b i na x nb : Dst (SM a i) (OkR na x) -> na <> 0 -> Dst (SM b (i + na)) (FailR nb) ->
    Dst (SM (MAdj a b) i) (FailR na)
| D_adj_bempty a b i na x y : Dst (SM a i) (OkR na x) -> na <> 0 -> Dst (SM b (i + na)) (OkR 0 y) ->
    Dst (SM (MAdj a b) i) (FailR na)
| D_adj_touch a b i na x nb y p q : Dst (SM a i) (OkR na x) -> na <> 0 -> Dst (SM b (i + na)) (OkR nb y) -> nb <> 0 ->
    nth_error toks (i + na - 1) = Some p -> nth_error toks (i + na) = Some q -> tok_end p = Ok (tpos q) ->
    Dst (SM (MAdj a b) i) (OkR (na + nb) (RList [x; y]))
| D_adj_gap a b i na x nb y p q e : Dst (SM a i) (OkR na x) -> na <> 0 -> Dst (SM b (i + na)) (OkR nb y) -> nb <> 0 ->
    nth_error toks (i + na - 1) = Some p -> nth_error toks (i + na) = Some q -> tok_end p = Ok e -> e <> tpos q ->
    Dst (SM (MAdj a b) i) (FailR na)
(* references *)
| D_var v e i o : nth_error env v = Some (Some e) -> Dst (SM e i) o -> Dst (SM (MVar v) i) o
| D_var_unassigned v i : nth_error env v = Some None \/ nth_error env v = None -> Dst (SM (MVar v) i) (FailR 0).

Lemma leaf_run f g i x : leaf g i = Some x -> run (S f) (SM g i) = x.
Proof. destruct g; cbn [leaf]; intros H; try discriminate; injection H as <-; reflexivity. Qed.

Lemma leaf_none_cases g i : leaf g i = None ->
  match g with MTrue | MWS | MStr _ | MTok _ | MLit _ _ => False | _ => True end.
Proof. destruct g; cbn [leaf]; intros H; try discriminate; exact I. Qed.

(* ---------- soundness: every terminating, non-panicking run is a derivation ---------- *)
Theorem sound : forall f s r, run f s = Ok r -> Dst s (oc_of r).
Proof.
  induction f as [|f IH]; intros s r H; [discriminate|].
  destruct s as [g i|opts stops i nmax|items i n0 acc|g i n0 acc].
  - destruct (leaf g i) as [x|] eqn:El.
    { rewrite (leaf_run f g i x El) in H. subst x. apply D_leaf. exact El. }
    destruct g; try (exfalso; exact (leaf_none_cases _ _ El)); cbn [Tpl.run] in H.
    + apply D_choice. apply IH. exact H.
    + apply D_seq. apply IH. exact H.
    + apply D_rep0. apply IH. exact H.
    + destruct (run f (SM g i)) as [[[n1 x1] [|]]| |] eqn:E; try discriminate.
      * injection H as <-. apply (D_rep1_fail g i n1). exact (IH _ _ E).
      * eapply D_rep1_ok; [exact (IH _ _ E)|exact (IH _ _ H)].
    + destruct (run f (SM g i)) as [[[n1 x1] [|]]| |] eqn:E; try discriminate.
      * injection H as <-. exact (D_opt_none g i n1 (IH _ _ E)).
      * injection H as <-. exact (D_opt_some g i n1 x1 (IH _ _ E)).
    + destruct (run f (SM g1 i)) as [[[na x] [|]]| |] eqn:Ea; try discriminate.
      * injection H as <-. exact (D_adj_afail g1 g2 i na (IH _ _ Ea)).
      * destruct (Nat.eqb na 0) eqn:E0.
        { apply Nat.eqb_eq in E0. subst na. injection H as <-. exact (D_adj_aempty g1 g2 i x (IH _ _ Ea)). }
        apply Nat.eqb_neq in E0.
        destruct (run f (SM g2 (i + na))) as [[[nb y] [|]]| |] eqn:Eb; try discriminate.
        { injection H as <-. exact (D_adj_bfail g1 g2 i na x nb (IH _ _ Ea) E0 (IH _ _ Eb)). }
        destruct (Nat.eqb nb 0) eqn:E1.
        { apply Nat.eqb_eq in E1. subst nb. injection H as <-. exact (D_adj_bempty g1 g2 i na x y (IH _ _ Ea) E0 (IH _ _ Eb)). }
        apply Nat.eqb_neq in E1.
        destruct (nth_error toks (i + na - 1)) as [p|] eqn:Ep; [|discriminate].
        destruct (nth_error toks (i + na)) as [q|] eqn:Eq; [|discriminate].
        destruct (tok_end p) as [e| |] eqn:Ee; cbn [bind] in H; try discriminate.
        destruct (Z.eqb e (tpos q)) eqn:Ez.
        { apply Z.eqb_eq in Ez. subst e. injection H as <-.
          exact (D_adj_touch g1 g2 i na x nb y p q (IH _ _ Ea) E0 (IH _ _ Eb) E1 Ep Eq Ee). }
        apply Z.eqb_neq in Ez. injection H as <-.
        exact (D_adj_gap g1 g2 i na x nb y p q e (IH _ _ Ea) E0 (IH _ _ Eb) E1 Ep Eq Ee Ez).
    + destruct (nth_error env v) as [[e|]|] eqn:E.
      * eapply D_var; eauto.
      * injection H as <-. apply D_var_unassigned. auto.
      * injection H as <-. apply D_var_unassigned. auto.
  - cbn [Tpl.run] in H. destruct opts as [|o t]; [injection H as <-; apply DC_nil|].
    destruct (run f (SM o i)) as [[[n1 x1] [|]]| |] eqn:E; try discriminate.
    + destruct stops as [|s st]; [discriminate|]. destruct (Nat.ltb 0 n1) eqn:El; cbn [andb] in H.
      * destruct s.
        { injection H as <-. apply Nat.ltb_lt in El. exact (DC_commit o t st i nmax n1 (IH _ _ E) El). }
        eapply DC_next; [exact (IH _ _ E)|auto|exact (IH _ _ H)].
      * apply Nat.ltb_ge in El. eapply DC_next; [exact (IH _ _ E)|left; lia|exact (IH _ _ H)].
    + injection H as <-. exact (DC_ok o t stops i nmax n1 x1 (IH _ _ E)).
  - cbn [Tpl.run] in H. destruct items as [|it t]; [injection H as <-; apply DS_nil|].
    destruct (run f (SM it (i + n0))) as [[[n1 x1] [|]]| |] eqn:E; try discriminate.
    + injection H as <-. exact (DS_fail it t i n0 acc n1 (IH _ _ E)).
    + eapply DS_ok; [exact (IH _ _ E)|exact (IH _ _ H)].
  - cbn [Tpl.run] in H.
    destruct (run f (SM g (i + n0))) as [[[n1 x1] [|]]| |] eqn:E; try discriminate.
    + injection H as <-. exact (DR_stop g i n0 acc n1 (IH _ _ E)).
    + eapply DR_more; [exact (IH _ _ E)|exact (IH _ _ H)].
Qed.

(* ---------- completeness: every derivation is computed by the matcher with enough fuel ---------- *)
Definition computes (s : rs) (o : oc) : Prop := exists f r, run f s = Ok r /\ oc_of r = o.

Lemma lift f f' s r : f <= f' -> run f s = Ok r -> run f' s = Ok r.
Proof. intros Hle H. rewrite (run_mono_le env toks f f' s Hle); auto. rewrite H. reflexivity. Qed.

Ltac get H f r Hr Ho := destruct H as (f & r & Hr & Ho).
Ltac shape r n x e := destruct r as [[n x] e]; cbn [oc_of] in *.

Theorem complete : forall s o, Dst s o -> computes s o.
Proof.
  induction 1.
  - exists 1, r. split; auto. apply leaf_run. exact H.
  - get IHDst f rr Hr Ho. exists (S f), rr. split; auto.
  - exists 1, (nm, RNil, true). split; reflexivity.
  - get IHDst f rr Hr Ho. shape rr n1 x1 e. destruct e; [discriminate|]. injection Ho as -> ->.
    exists (S f), (n, x, false). split; auto. cbn [Tpl.run]. rewrite Hr. reflexivity.
  - get IHDst f rr Hr Ho. shape rr n1 x1 e. destruct e; [|discriminate]. injection Ho as ->.
    exists (S f), (n, x1, true). split; auto. cbn [Tpl.run]. rewrite Hr. apply Nat.ltb_lt in H0. rewrite H0. reflexivity.
  - get IHDst1 f1 rr1 Hr1 Ho1. get IHDst2 f2 rr2 Hr2 Ho2. shape rr1 n1 x1 e. destruct e; [|discriminate]. injection Ho1 as ->.
    exists (S (f1 + f2)), rr2. split; auto. cbn [Tpl.run]. rewrite (lift f1 (f1 + f2) _ _ ltac:(lia) Hr1).
    assert (E : Nat.ltb 0 n && s = false) by (destruct H0 as [->| ->]; [reflexivity|apply andb_false_r]). rewrite E.
    apply (lift f2); auto; lia.
  - get IHDst f rr Hr Ho. exists (S f), rr. split; auto.
  - exists 1, (n, RList (rev acc), false). split; reflexivity.
  - get IHDst f rr Hr Ho. shape rr n2 x1 e. destruct e; [|discriminate]. injection Ho as ->.
    exists (S f), (n + n1, RNil, true). split; auto. cbn [Tpl.run]. rewrite Hr. reflexivity.
  - get IHDst1 f1 rr1 Hr1 Ho1. get IHDst2 f2 rr2 Hr2 Ho2. shape rr1 n2 x1 e. destruct e; [discriminate|]. injection Ho1 as -> ->.
    exists (S (f1 + f2)), rr2. split; auto. cbn [Tpl.run]. rewrite (lift f1 (f1 + f2) _ _ ltac:(lia) Hr1).
    apply (lift f2); auto; lia.
  - get IHDst f rr Hr Ho. exists (S f), rr. split; auto.
  - get IHDst f rr Hr Ho. shape rr n1 x1 e. destruct e; [|discriminate]. injection Ho as ->.
    exists (S f), (n, x1, true). split; auto. cbn [Tpl.run]. rewrite Hr. reflexivity.
  - get IHDst1 f1 rr1 Hr1 Ho1. get IHDst2 f2 rr2 Hr2 Ho2. shape rr1 n1 x1 e. destruct e; [discriminate|]. injection Ho1 as -> ->.
    exists (S (f1 + f2)), rr2. split; auto. cbn [Tpl.run]. rewrite (lift f1 (f1 + f2) _ _ ltac:(lia) Hr1).
    apply (lift f2); auto; lia.
  - get IHDst f rr Hr Ho. shape rr n2 x1 e. destruct e; [|discriminate]. injection Ho as ->.
    exists (S f), (n, RList (rev acc), false). split; auto. cbn [Tpl.run]. rewrite Hr. reflexivity.
  - get IHDst1 f1 rr1 Hr1 Ho1. get IHDst2 f2 rr2 Hr2 Ho2. shape rr1 n2 x1 e. destruct e; [discriminate|]. injection Ho1 as -> ->.
    exists (S (f1 + f2)), rr2. split; auto. cbn [Tpl.run]. rewrite (lift f1 (f1 + f2) _ _ ltac:(lia) Hr1).
    apply (lift f2); auto; lia.
  - get IHDst f rr Hr Ho. shape rr n1 x1 e. destruct e; [discriminate|]. injection Ho as -> ->.
    exists (S f), (n, x, false). split; auto. cbn [Tpl.run]. rewrite Hr. reflexivity.
  - get IHDst f rr Hr Ho. shape rr n1 x1 e. destruct e; [|discriminate]. injection Ho as ->.
    exists (S f), (0, RNil, false). split; auto. cbn [Tpl.run]. rewrite Hr. reflexivity.
  - get IHDst f rr Hr Ho. shape rr n1 x1 e. destruct e; [|discriminate]. injection Ho as ->.
    exists (S f), (n, x1, true). split; auto. cbn [Tpl.run]. rewrite Hr. reflexivity.
  - get IHDst f rr Hr Ho. shape rr n1 x1 e. destruct e; [discriminate|]. injection Ho as -> ->.
    exists (S f), (0, RNil, true). split; auto. cbn [Tpl.run]. rewrite Hr. reflexivity.
  - get IHDst1 f1 rr1 Hr1 Ho1. get IHDst2 f2 rr2 Hr2 Ho2. shape rr1 n1 x1 e. destruct e; [discriminate|]. injection Ho1 as -> ->.
    shape rr2 n2 x2 e. destruct e; [|discriminate]. injection Ho2 as ->.
    exists (S (f1 + f2)), (na, RNil, true). split; auto. cbn [Tpl.run]. rewrite (lift f1 (f1 + f2) _ _ ltac:(lia) Hr1).
    apply Nat.eqb_neq in H0. rewrite H0. rewrite (lift f2 (f1 + f2) _ _ ltac:(lia) Hr2). reflexivity.
  - get IHDst1 f1 rr1 Hr1 Ho1. get IHDst2 f2 rr2 Hr2 Ho2. shape rr1 n1 x1 e. destruct e; [discriminate|]. injection Ho1 as -> ->.
    shape rr2 n2 x2 e. destruct e; [discriminate|]. injection Ho2 as -> ->.
    exists (S (f1 + f2)), (na, RNil, true). split; auto. cbn [Tpl.run]. rewrite (lift f1 (f1 + f2) _ _ ltac:(lia) Hr1).
    apply Nat.eqb_neq in H0. rewrite H0. rewrite (lift f2 (f1 + f2) _ _ ltac:(lia) Hr2). reflexivity.
  - get IHDst1 f1 rr1 Hr1 Ho1. get IHDst2 f2 rr2 Hr2 Ho2. shape rr1 n1 x1 e. destruct e; [discriminate|]. injection Ho1 as -> ->.
    shape rr2 n2 x2 e. destruct e; [discriminate|]. injection Ho2 as -> ->.
    exists (S (f1 + f2)), (na + nb, RList [x; y], false). split; auto. cbn [Tpl.run]. rewrite (lift f1 (f1 + f2) _ _ ltac:(lia) Hr1).
    apply Nat.eqb_neq in H0. rewrite H0. rewrite (lift f2 (f1 + f2) _ _ ltac:(lia) Hr2).
    apply Nat.eqb_neq in H2. rewrite H2. rewrite H3, H4, H5. cbn [bind]. rewrite Z.eqb_refl. reflexivity.
  - get IHDst1 f1 rr1 Hr1 Ho1. get IHDst2 f2 rr2 Hr2 Ho2. shape rr1 n1 x1 e0. destruct e0; [discriminate|]. injection Ho1 as -> ->.
    shape rr2 n2 x2 e0. destruct e0; [discriminate|]. injection Ho2 as -> ->.
    exists (S (f1 + f2)), (na, RNil, true). split; auto. cbn [Tpl.run]. rewrite (lift f1 (f1 + f2) _ _ ltac:(lia) Hr1).
    apply Nat.eqb_neq in H0. rewrite H0. rewrite (lift f2 (f1 + f2) _ _ ltac:(lia) Hr2).
    apply Nat.eqb_neq in H2. rewrite H2. rewrite H3, H4, H5. cbn [bind]. apply Z.eqb_neq in H6. rewrite H6. reflexivity.
  - get IHDst f rr Hr Ho. exists (S f), rr. split; auto. cbn [Tpl.run]. rewrite H. exact Hr.
  - exists 1, (0, RNil, true). split; auto. cbn [Tpl.run]. destruct H as [-> | ->]; reflexivity.
Qed.

(* ---------- the relation is functional: success/failure, n and the tree are determined ---------- *)
Theorem functional s o1 o2 : Dst s o1 -> Dst s o2 -> o1 = o2.
Proof.
  intros H1 H2. apply complete in H1 as (f1 & r1 & E1 & <-). apply complete in H2 as (f2 & r2 & E2 & <-).
  assert (E : run f1 s = run f2 s) by (apply run_det; [rewrite E1|rewrite E2]; reflexivity).
  rewrite E1, E2 in E. injection E as ->. reflexivity.
Qed.

(* refinement, in one statement *)
Corollary refines s o : Dst s o <-> exists f r, run f s = Ok r /\ oc_of r = o.
Proof. split; [apply complete|]. intros (f & r & H & <-). eapply sound; eauto. Qed.

End Spec.
