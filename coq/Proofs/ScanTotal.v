(* scan_total: every step of Scan strictly decreases
     2*|remaining bytes| + 2*[unit pending] + [insertSemi] + [nlPos pending]
   and scanComment never panics; hence the fuel 2*|src|+3 of [run] always suffices. *)
From Coq Require Import List NArith ZArith Bool Lia.
From Coq Require Import ZifyN ZifyNat ZifyBool.
Import ListNotations.
From V Require Import Base.Prelude Gen.ScanTok Model.Scan Proofs.ScanBase Proofs.ScanSub.
Open Scope Z_scope.

Section Total.
Variable ul ud : Z -> bool.
Variable d : dialect.

Definition cost (st : St) : nat :=
  ((match unit st with [] => 0 | _ => 2 end) + (if semi st then 1 else 0) + (if (nlpos st =? 0)%Z then 0 else 1))%nat.
Definition mu (st : St) : nat := (2 * sz (sc st) + cost st)%nat.

(* outcome o, produced from the scanner state s (after skipWhitespace) with insertSemi = b,
   makes progress *)
Definition dec (s : Sc) (b : bool) (o : M outcome) : Prop :=
  match o with
  | Ok (Emit t st') => ttok t = T_EOF \/ (2 * sz (sc st') + cost st' < 2 * sz s + (if b then 1 else 0))%nat
  | Ok (Again st') => (2 * sz (sc st') + cost st' < 2 * sz s + (if b then 1 else 0))%nat
  | _ => False
  end.

Lemma dec_emit s b pos t lit s' isemi np : sadv s s' -> dec s b (emit pos t lit s' isemi np []).
Proof.
  intros S. pose proof (sadv_sz _ _ S). unfold dec, emit, cost. cbn [sc unit semi nlpos]. right.
  cbn [Z.eqb]. destruct isemi, b; lia.
Qed.
Lemma dec_emit_nl s b pos s' np : sadv s s' -> dec s b (emit_nl pos s' np).
Proof.
  intros S. pose proof (sadv_sz _ _ S). unfold dec, emit_nl, cost. cbn [sc unit semi nlpos]. right.
  cbn [Z.eqb]. destruct b; lia.
Qed.
Lemma dec_emit_nl_same s pos s' np : sz s' = sz s -> dec s true (emit_nl pos s' np).
Proof.
  intros S. unfold dec, emit_nl, cost. cbn [sc unit semi nlpos]. right. cbn [Z.eqb]. lia.
Qed.
Lemma dec_comment_out s b cm pos np s2 lit : sadv s s2 -> dec s b (comment_out cm pos np s2 lit).
Proof.
  intros S. unfold comment_out. destruct cm; [apply dec_emit, S|].
  pose proof (sadv_sz _ _ S). unfold dec, cost. cbn [sc unit semi nlpos Z.eqb]. destruct b; lia.
Qed.

Lemma cur_cases s : cur s = -1 \/ 0 <= cur s.
Proof. destruct (rest s) eqn:E; [left; apply cur_nil, E|right; apply cur_nonneg; congruence]. Qed.

Hint Resolve adv_refl adv_nxt scan_string_adv scan_rune_adv scan_raw_adv scan_ident_adv : adv.
Lemma adv_nxt2 s : adv s (nxt (nxt s)).
Proof. eapply adv_trans; apply adv_nxt. Qed.
Hint Resolve adv_nxt2 : adv.

Ltac sadv_from S1 := first [exact S1 | eapply sadv_adv_trans; [exact S1|]; auto with adv].

Lemma lex_word_dec st s : is_letter ul (cur s) = true -> dec s (semi st) (lex_word ul ud d st s).
Proof.
  intros L. unfold lex_word.
  assert (S1 : sadv s (scan_ident ul ud (S (length (rest s))) s)) by (apply scan_ident_sadv; [exact L|lia]).
  set (s1 := scan_ident ul ud (S (length (rest s))) s) in *.
  destruct (is_tpl d); [apply dec_emit; exact S1|].
  destruct (Nat.ltb 1 _).
  - destruct (lookup d (slice s s1)); try (apply dec_emit; exact S1);
      (destruct (_ && _); apply dec_emit; sadv_from S1;
       eapply adv_trans; [apply adv_nxt|apply scan_string_adv]).
  - destruct (_ && _); apply dec_emit; sadv_from S1.
    eapply adv_trans; [apply adv_nxt|apply scan_string_adv].
Qed.

Lemma lex_number_dec st s :
  (is_decimal (cur s) = true \/ cur s = 46) -> dec s (semi st) (lex_number ul ud d st s).
Proof.
  intros H. unfold lex_number. destruct (scan_number ul ud d s) as [[t s1] u] eqn:E.
  destruct (scan_number_spec ul ud d _ _ _ _ E H) as (sm & S & A & U).
  pose proof (sadv_sz _ _ S). pose proof (adv_sz _ _ A).
  unfold dec, emit, cost. cbn [sc unit semi nlpos Z.eqb]. right.
  destruct U as [->|[U1 U2]].
  - cbn [Z.to_nat firstn]. destruct (semi st); lia.
  - (* a unit of u > 0 bytes was consumed after the number *)
    assert (sz s1 + 1 <= sz sm)%nat.
    { pose proof (adv_off_sz _ _ A). unfold sz, zlen in *. lia. }
    destruct (firstn _ _); destruct (semi st); lia.
Qed.

Lemma lex_sharp_dec cm st s : 0 <= cur s -> dec s (semi st) (lex_sharp d cm st s (nxt s)).
Proof.
  intros C. unfold lex_sharp. destruct (semi st) eqn:B.
  - apply dec_emit_nl_same. reflexivity.
  - destruct (is_tpl d).
    + pose proof (scan_sharp_tpl_sadv s C) as S. destruct (scan_sharp_tpl s) as [s2 lit]. apply dec_comment_out, S.
    + destruct (scan_comment_x_ok d s C) as (s2 & lit & nl & E & S). rewrite E. cbn [bind]. apply dec_comment_out, S.
Qed.

Lemma lex_slash_comment_dec cm st s : 0 <= cur s -> dec s (semi st) (lex_slash_comment d cm st s (nxt s)).
Proof.
  intros C. unfold lex_slash_comment. destruct (is_go d).
  - destruct (scan_comment_x_ok d s C) as (s2 & lit & nl & E & S). rewrite E. cbn [bind].
    pose proof (sadv_sz _ _ S).
    destruct (semi st && negb (nl =? 0)) eqn:B.
    + assert (nl <> 0) by lia. destruct cm; unfold dec, cost; cbn [sc unit semi nlpos ttok]; [right|];
        destruct (nl =? 0) eqn:Q; try lia; destruct (semi st); lia.
    + destruct cm; unfold dec, cost; cbn [sc unit semi nlpos ttok Z.eqb]; [right|]; destruct (semi st); lia.
  - destruct (if semi st then find_line_end (S (length (rest (nxt s)))) (nxt s) else (nxt s, false)) as [look le] eqn:F.
    set (s' := with_look s look).
    assert (R : rest s' = rest s /\ off s' = off s) by (split; reflexivity). destruct R as [R O].
    assert (C' : 0 <= cur s') by (unfold cur in *; rewrite R; exact C).
    assert (SZ : sz s' = sz s) by (unfold sz; rewrite R; reflexivity).
    assert (TR : forall x, sadv s' x -> sadv s x).
    { intros x (y & Ny & Ry & Oy). exists y. rewrite <- R, <- O. auto. }
    destruct (semi st && le) eqn:B.
    + assert (semi st = true) as -> by lia. apply dec_emit_nl_same, SZ.
    + destruct (is_tpl d).
      * pose proof (scan_comment_tpl_sadv s' C') as S. destruct (scan_comment_tpl s') as [s2 lit].
        apply dec_comment_out, TR, S.
      * destruct (scan_comment_x_ok d s' C') as (s2 & lit & nl & E & S). rewrite E. cbn [bind].
        apply dec_comment_out, TR, S.
Qed.

Ltac dlet_sw S1 :=
  match goal with
  | |- context[sw2 ?s ?a ?b] => pose proof (sw2_adv s a b) as A; destruct (sw2 s a b) as [?t ?s2]; cbn [snd] in A
  | |- context[sw3 ?s ?a ?b ?c ?e] => pose proof (sw3_adv s a b c e) as A; destruct (sw3 s a b c e) as [?t ?s2]; cbn [snd] in A
  | |- context[sw4 ?s ?a ?b ?c ?e ?g] => pose proof (sw4_adv s a b c e g) as A; destruct (sw4 s a b c e g) as [?t ?s2]; cbn [snd] in A
  end.

Lemma lex_punct_dec cm st s : dec s (semi st) (lex_punct d cm st s).
Proof.
  unfold lex_punct. cbv zeta.
  destruct (cur s =? -1) eqn:EOF.
  - (* end of input *)
    assert (rest s = []) by (apply cur_neg_nil; lia).
    destruct (semi st).
    + apply dec_emit_nl_same. unfold sz. rewrite nxt_rest, H. destruct (snd _); reflexivity.
    + unfold dec, emit. left. reflexivity.
  - assert (C : 0 <= cur s) by (destruct (cur_cases s); lia).
    assert (S1 : sadv s (nxt s)) by (apply sadv_nxt_cur, C).
    repeat match goal with
    | |- dec _ _ (lex_sharp _ _ _ _ _) => apply lex_sharp_dec, C
    | |- dec _ _ (lex_slash_comment _ _ _ _ _) => apply lex_slash_comment_dec, C
    | |- dec _ _ (emit_nl _ _ _) => apply dec_emit_nl; sadv_from S1
    | |- dec _ _ (emit _ _ _ _ _ _ _) => apply dec_emit; sadv_from S1
    | |- dec _ _ (let '(_, _) := _ in _) =>
        dlet_sw S1; apply dec_emit; eapply sadv_adv_trans; [exact S1|];
        first [exact A | eapply adv_trans; [apply adv_nxt|exact A]]
    | |- dec _ _ (if ?c then _ else _) => destruct c
    end.
    (* ILLEGAL *)
    all: destruct (cur s =? bom); [apply adv_refl|apply adv_err].
Qed.

Lemma lex_dec cm st s : dec s (semi st) (lex ul ud d cm st s).
Proof.
  unfold lex. destruct (is_letter ul (cur s)) eqn:L; [apply lex_word_dec, L|].
  destruct (is_decimal (cur s) || ((cur s =? 46) && is_decimal_b (peek s))) eqn:N; [|apply lex_punct_dec].
  apply lex_number_dec. destruct (is_decimal (cur s)); [left; reflexivity|right; lia].
Qed.

(* one step either ends the stream (EOF) or decreases mu; it never panics *)
Definition step_ok (st : St) (o : M outcome) : Prop :=
  match o with
  | Ok (Emit t st') => ttok t = T_EOF \/ (mu st' < mu st)%nat
  | Ok (Again st') => (mu st' < mu st)%nat
  | _ => False
  end.

Lemma step_progress cm st : step_ok st (step ul ud d cm st).
Proof.
  unfold step. destruct (is_go d && negb (nlpos st =? 0)) eqn:G.
  - unfold step_ok, mu, cost. cbn [sc unit semi nlpos ttok Z.eqb]. right.
    destruct (nlpos st =? 0) eqn:Q; [lia|]. lia.
  - destruct (unit st) as [|b u] eqn:U.
    + pose proof (lex_dec cm st (skip_ws (S (length (rest (sc st)))) (semi st) (sc st))) as D.
      pose proof (adv_sz _ _ (skip_ws_adv (S (length (rest (sc st)))) (semi st) (sc st))) as Z1.
      set (s := skip_ws _ _ _) in *.
      unfold dec in D. unfold step_ok, mu. destruct (lex ul ud d cm st s) as [[t st'|st']| |]; try exact D.
      * destruct D as [D|D]; [left; exact D|right]. unfold cost at 2. rewrite U. destruct (semi st), (nlpos st =? 0); lia.
      * unfold cost at 2. rewrite U. destruct (semi st), (nlpos st =? 0); lia.
    + unfold step_ok, mu, cost. cbn [sc unit semi nlpos ttok Z.eqb]. right. rewrite U.
      destruct (semi st), (nlpos st =? 0); lia.
Qed.

Lemma scan_all_total cm fuel st acc :
  (mu st < fuel)%nat -> exists r, scan_all ul ud d fuel cm st acc = Ok r.
Proof.
  revert st acc. induction fuel as [|f IH]; intros st acc H; [lia|]. cbn [scan_all].
  pose proof (step_progress cm st) as P. unfold step_ok in P.
  destruct (step ul ud d cm st) as [[t st'|st']| |]; try contradiction.
  - destruct (ttok t) eqn:T; try (eexists; reflexivity);
      (destruct P as [P|P]; [congruence|apply IH; lia]).
  - apply IH. lia.
Qed.

Lemma mu_init src : (mu (init src) <= 2 * length src)%nat.
Proof.
  unfold init, mu, cost. cbn [sc unit semi nlpos Z.eqb].
  match goal with |- context[if ?c then nxt ?x else ?x] =>
    assert (sz (if c then nxt x else x) <= sz x)%nat by (destruct c; [apply adv_sz, adv_nxt|lia]) end.
  unfold sz in *. cbn [rest] in *. lia.
Qed.

Theorem run_total cm src : exists toks errs, run ul ud d cm src = Ok (toks, errs).
Proof.
  unfold run. destruct (scan_all_total cm (fuel_of src) (init src) []) as [[toks errs] E].
  - pose proof (mu_init src). unfold fuel_of. lia.
  - exists toks, errs. exact E.
Qed.
End Total.
