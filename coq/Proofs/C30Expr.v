(* C30: BinaryExpr(true, …) on nested list results = the recursive left fold building BinaryExpr nodes. *)
From Coq Require Import List ZArith Bool Lia.
Import ListNotations.
From V Require Import Base.Prelude Base.TplRes Model.C30 Proofs.C30.

Fixpoint nx_exprs (e : nx) : bool :=
  match e with
  | NLeaf v => is_expr v
  | NNode x0 ps => nx_exprs x0 && forallb (fun p => nx_exprs (snd p)) ps
  end.

(* the tree BinaryExprR builds *)
Fixpoint nx_tree (e : nx) : res :=
  match e with
  | NLeaf v => v
  | NNode x0 ps => fold_left (fun a p => RApp (fst p) a (nx_tree (snd p))) ps (nx_tree x0)
  end.

Definition operand_r (y : res) : M res :=
  match y with RList _ => bexpr_r y | _ => if is_expr y then Ok y else Panic end.

Lemma bexpr_r_node x0 ps :
  bexpr_r (nx_res (NNode x0 ps)) =
  (x0' <- operand_r (nx_res x0) ;;
   (fix loop (next : list res) (acc : res) : M res :=
      match next with
      | [] => Ok acc
      | RList (RTok op :: y :: _) :: t => y' <- operand_r y ;; loop t (RApp op acc y')
      | _ => Panic
      end) (map (fun p => RList [RTok (fst p); nx_res (snd p)]) ps) x0').
Proof. reflexivity. Qed.

Lemma nx_tree_is_expr : forall n e, nx_size e <= n -> nx_exprs e = true -> is_expr (nx_tree e) = true.
Proof.
  induction n as [|n IH]; intros e Hs He. { destruct e; simpl in Hs; lia. }
  destruct e as [v|x0 ps]; [exact He|]. cbn [nx_exprs] in He. apply andb_prop in He as [H0 Hps].
  cbn [nx_tree nx_size] in *. assert (is_expr (nx_tree x0) = true) by (apply IH; auto; lia).
  revert H. generalize (nx_tree x0). clear H0 Hs. induction ps as [|[op y] t IHt]; intros a Ha; [exact Ha|].
  cbn [fold_left fst snd]. apply IHt; [|reflexivity]. cbn [forallb] in Hps. apply andb_prop in Hps as [_ Ht]. exact Ht.
Qed.

Lemma bexpr_r_nested : forall n e, nx_size e <= n -> nx_exprs e = true -> operand_r (nx_res e) = Ok (nx_tree e).
Proof.
  induction n as [|n IH]; intros e Hs He. { destruct e; simpl in Hs; lia. }
  destruct e as [v|x0 ps].
  - cbn [nx_res nx_tree nx_exprs] in *. unfold operand_r. destruct v; try discriminate; cbn [is_expr]; reflexivity.
  - change (operand_r (nx_res (NNode x0 ps))) with (bexpr_r (nx_res (NNode x0 ps))).
    rewrite bexpr_r_node. cbn [nx_exprs] in He. apply andb_prop in He as [H0 Hps]. cbn [nx_size] in Hs.
    rewrite (IH x0) by (auto; lia). cbn [bind nx_tree].
    assert (Hs' : fold_right (fun p a => nx_size (snd p) + a) 0 ps <= n) by lia. clear Hs H0.
    generalize (nx_tree x0). revert Hs' Hps. induction ps as [|[op y] t IHt]; intros Hs' Hps a; [reflexivity|].
    cbn [map fst snd fold_left]. cbn [forallb snd] in Hps. apply andb_prop in Hps as [Hy Ht]. cbn [fold_right snd] in Hs'.
    rewrite (IH y) by (auto; lia). cbn [bind]. apply IHt; auto. lia.
Qed.

Lemma bexpr_r_nested_node x0 ps : nx_exprs (NNode x0 ps) = true ->
  bexpr_r (nx_res (NNode x0 ps)) = Ok (nx_tree (NNode x0 ps)).
Proof. intros H. exact (bexpr_r_nested _ (NNode x0 ps) (le_n _) H). Qed.
