(* Termination of the parser model: the rest returned by a parser state is never longer than its input, and
   fuel 14 * |ts| + 14 suffices for every token list; hence closed forms of the round-trip theorems. *)
From Coq Require Import List ZArith Bool Lia Arith.
Import ListNotations.
From V Require Import Base.Prelude Gen.Tokens Model.Expr Proofs.ExprFuel Proofs.Expr Proofs.ExprImage.
Open Scope Z_scope.
(* ---- the parser never returns more input than it was given ---- *)
Definition Len (rec : st -> list tok -> res) : Prop :=
  forall s ts v r, rec s ts = ROk v r -> (length r <= length ts)%nat.

Ltac len_step HL :=
  repeat (first
    [ match goal with
      | H : ROk _ _ = ROk _ _ |- _ => injection H as <- <-
      | H : context[match ?g ?s ?t with _ => _ end] |- _ =>
          match type of HL with Len g =>
            let E := fresh "E" in
            destruct (g s t) as [[?|? ?] ?| | |] eqn:E; try discriminate H;
            try (apply HL in E)
          end
      | H : context[if ?b then _ else _] |- _ => destruct b eqn:?; try discriminate H
      | H : context[match ?x with _ => _ end] |- _ => destruct x eqn:?; try discriminate H
      end ]).

Lemma step_len rec : Len rec -> Len (step rec).
Proof.
  intros HL s ts v r H. destruct s; cbn [step] in H.
  all: try (destruct ts as [|[?|? ?|z] ts]; cbn [hd_is tl] in *; try discriminate H).
  all: len_step HL; subst; cbn [length tl] in *; try lia.
  all: try match goal with H : ?g _ _ = ROk _ _ |- _ => apply HL in H end; cbn [length tl] in *; try lia.
  all: repeat match goal with |- context[tl ?l] => destruct l; cbn [length tl] in * end; try lia.
  all: repeat match goal with H : context[tl ?l] |- _ => destruct l; cbn [length tl] in * end; try lia.
Qed.

(* ---- termination: fuel 14 * |ts| + 14 is enough ---- *)
Definition rk (s : st) : nat :=
  match s with
  | SExpr => 12 | SLam _ => 11 | SLamRhs _ => 13 | SBinary _ _ => 10 | SBinLoop _ _ => 9 | SUnary _ => 8
  | SErrWrap _ => 7 | SPrimary _ => 6 | SOperand _ => 5 | SPrimLoop _ => 4 | STuple _ => 13 | SArgs _ _ => 13
  end.
Definition ms (s : st) (ts : list tok) : nat := (14 * length ts + rk s)%nat.
Definition Tot (rec : st -> list tok -> res) (F : nat) : Prop :=
  forall s ts, (ms s ts < F)%nat -> rec s ts <> RFuel.

Ltac tot_meas :=
  unfold ms in *; cbn [rk length tl] in *;
  repeat (match goal with |- context[tl ?l] => destruct l; cbn [length tl hd_is] in *; try discriminate end);
  lia.

Ltac tot_step HL HT :=
  repeat (first
    [ discriminate
    | match goal with
      | |- ?g ?s ?t <> RFuel => match type of HL with Len g => apply HT; tot_meas end
      | |- context[match ?g ?s ?t with _ => _ end] =>
          match type of HL with Len g =>
            let N := fresh "N" in let E := fresh "E" in
            assert (N : g s t <> RFuel) by (apply HT; tot_meas);
            destruct (g s t) as [[?|? ?] ?| | |] eqn:E; [apply HL in E|apply HL in E| | |exfalso; apply N; reflexivity]
          end
      | |- context[if ?b then _ else _] => destruct b eqn:?
      | |- context[match ?x with _ => _ end] => destruct x eqn:?
      end ]).

Lemma step_tot rec F : Len rec -> Tot rec F -> Tot (step rec) (S F).
Proof.
  intros HL HT s ts Hm. destruct s; cbn [step].
  all: try (destruct ts as [|[?|? ?|z] ts]; cbn [hd_is tl] in *).
  all: tot_step HL HT.
Qed.

Lemma P_len f : Len (P f).
Proof. induction f as [|f IH]; [intros s ts v r H; discriminate H|]. exact (step_len (P f) IH). Qed.

Lemma P_tot f : Tot (P f) f.
Proof.
  induction f as [|f IH]; [intros s ts H; lia|]. exact (step_tot (P f) f (P_len f) IH).
Qed.

Theorem parse_total ts : parse ts <> RFuel.
Proof.
  unfold parse. rewrite parse_expr_fuel. apply P_tot. unfold ms, fuel_for. cbn [rk]. lia.
Qed.

(* an answer found with some fuel is the answer of parse *)
Lemma parse_closed f ts x : parse_expr f ts = x -> x <> RFuel -> parse ts = x.
Proof.
  intros H Hx. rewrite <- H. apply parse_expr_stable; [apply parse_total|]. now rewrite H.
Qed.

Theorem roundtrip_closed e : validb e = true -> posokb e = true -> parse (pr e) = ROk (PE (norm e)) [].
Proof. intros V K. destruct (roundtrip e V K) as [f Hf]. eapply parse_closed; eauto. discriminate. Qed.

Theorem parsed_roundtrip_closed ts e : parse ts = ROk (PE e) [] ->
  parse (pr e) = ROk (PE (dedup e)) [] /\ pr (dedup e) = pr e /\ strip (dedup e) = strip e.
Proof.
  intros H. destruct (parsed_roundtrip _ ts e H) as ((f & Hf) & A & B). repeat split; auto.
  eapply parse_closed; eauto. discriminate.
Qed.

(* after the printer repair: the only restriction left on a synthesised tree is lamokb *)
Theorem roundtrip_lamok_closed e : validb e = true -> lamokb e = true -> parse (pr e) = ROk (PE (norm e)) [].
Proof. intros V L. apply roundtrip_closed; auto. apply (lamok_posok (sz e)); auto. Qed.
