(* Lemmas for C27: Token.Len is total on the byte range and on the operator table; compileExpr /
   NewEx never panic on trees without nil operands whose CHAR literals have both quotes. *)
From Coq Require Import List NArith ZArith Bool Arith Lia.
Import ListNotations.
From V Require Import Base.Prelude Base.TplRes Gen.Tokens Gen.TplCl Model.C31 Model.Tpl Model.TplCl Proofs.C31.
Local Open Scope nat_scope.

(* ---- Token.Len (translated from tpl/token/token.go) over the finite domain a literal can reach ---- *)
Definition len_ok (z : Z) : bool := negb (is_panic (tpl_Len z)) && negb (match tpl_Len z with OutOfFuel => true | _ => false end).

Lemma len_ok_256 : forallb len_ok (zrange 0 256) = true.
Proof. vm_compute. reflexivity. Qed.

Lemma In_zrange : forall n lo z, (lo <= z < lo + Z.of_nat n)%Z -> In z (zrange lo n).
Proof.
  induction n as [|n IH]; intros lo z H; [lia|]. cbn [zrange].
  destruct (Z.eq_dec z lo) as [->|Hne]; [left; reflexivity|]. right. apply IH. lia.
Qed.

Lemma token_len_total : forall b, (0 <= b < 256)%Z -> exists n, tpl_Len b = Ok n.
Proof.
  intros b Hb. pose proof len_ok_256 as H. rewrite forallb_forall in H.
  specialize (H b (In_zrange 256 0 b ltac:(lia))). unfold len_ok in H.
  destruct (tpl_Len b); simpl in H; try discriminate. eauto.
Qed.

(* every token code checkToken can return is in the byte range *)
Lemma find_spelling_range : forall l v from t, find_spelling v from l = Some t ->
  (from <= t < from + Z.of_nat (length l))%Z.
Proof.
  induction l as [|s l IH]; intros v from t H; [discriminate|]. cbn [find_spelling] in H.
  destruct (negb (str_eqb s []) && str_eqb s v).
  - injection H as <-. cbn [length]. lia.
  - apply IH in H. cbn [length]. lia.
Qed.

Lemma for_each_find_range v t : for_each_find v = Some t -> (0 <= t < 256)%Z.
Proof.
  unfold for_each_find. intros H. apply find_spelling_range in H.
  rewrite firstn_length in H.
  assert (E1 : (tpl_operator_beg + 1 = 129)%Z) by reflexivity.
  assert (E2 : (tpl_operator_end = 158)%Z) by reflexivity.
  rewrite E1, E2 in H. lia.
Qed.

(* assumptions on strconv (not modelled): a rune reported as not multibyte is a byte; an unquoted
   Go string consists of bytes *)
Definition unq_ok (unq : bool -> str -> uq) : Prop :=
  (forall l v tail, unq true l = UqChar v false tail -> (0 <= v < 256)%Z) /\
  (forall l v, unq false l = UqStr v -> bytes_ok v = true).

Fixpoint ge_size (e : ge) : nat :=
  match e with
  | EUn _ x => S (ge_size x) | EBin _ x y => S (ge_size x + ge_size y)
  | ESeq l | EChoice l => S (fold_right (fun x a => ge_size x + a) 0 l)
  | _ => 1
  end.

(* no nil operand; every CHAR literal has at least its two quotes *)
Fixpoint compilable (e : ge) : bool :=
  match e with
  | EIdent _ => true
  | ELit k s => negb k || Nat.leb 2 (length s)
  | EUn _ x => compilable x
  | EBin _ x y => compilable x && compilable y
  | ESeq l | EChoice l => forallb compilable l
  | ENil => false
  end.

Definition no_panic {A} (x : M A) : Prop := exists a, x = Ok a.

Section NoPanic.
Variable unq : bool -> str -> uq.
Variable rules : list str.
Hypothesis Hunq : unq_ok unq.

Lemma token_expr_ok t : (0 <= t < 256)%Z -> no_panic (token_expr t).
Proof.
  intros H. destruct (token_len_total t H) as [n E]. unfold token_expr. rewrite E. cbn [bind].
  destruct (Z.ltb 0 n); unfold c_ok, c_fail; eexists; reflexivity.
Qed.

Lemma compile_ident_ok name : no_panic (compile_ident rules name).
Proof.
  unfold compile_ident.
  destruct (index_of name rules 0); [eexists; reflexivity|].
  destruct (sassoc name tplcl_idents); [eexists; reflexivity|].
  destruct (sassoc name tplcl_string_names); [eexists; reflexivity|].
  destruct (str_eqb name tplcl_space_name); eexists; reflexivity.
Qed.

Lemma compile_lit_ok k lit : compilable (ELit k lit) = true -> no_panic (compile_lit unq k lit).
Proof.
  destruct Hunq as [Hc Hs].
  unfold compile_lit. cbn [compilable]. intros H. destruct k.
  - cbn [negb orb] in H. apply Nat.leb_le in H.
    replace (Nat.ltb (length lit) 2) with false by (symmetry; apply Nat.ltb_ge; lia).
    destruct (unq true lit) as [|v mb tl|v] eqn:E; try (eexists; reflexivity).
    destruct tl; cbn [orb]; [eexists; reflexivity|]. destruct mb; [eexists; reflexivity|].
    apply token_expr_ok. eapply Hc; eauto.
  - destruct (unq false lit) as [|v mb tl|v] eqn:Eu; try (eexists; reflexivity).
    destruct v as [|c v']; [eexists; reflexivity|].
    destruct (is_ident_start c); [eexists; reflexivity|].
    destruct (check_token (c :: v')) as [t|] eqn:E; [|eexists; reflexivity].
    apply token_expr_ok. unfold check_token in E. destruct v' as [|c2 v''].
    + injection E as <-. apply Hs in Eu. cbn [bytes_ok forallb] in Eu.
      apply andb_prop in Eu as [Eu _]. apply N.ltb_lt in Eu. lia.
    + eapply for_each_find_range; eauto.
Qed.

Lemma compile_expr_ok : forall n e, ge_size e <= n -> compilable e = true -> no_panic (compile_expr unq rules e).
Proof.
  induction n as [|n IH]; intros e Hs Hc. { destruct e; simpl in Hs; lia. }
  destruct e; cbn [compile_expr].
  - apply compile_ident_ok.
  - apply compile_lit_ok. exact Hc.
  - cbn [ge_size compilable] in *. destruct (IH e ltac:(lia) Hc) as [[g k] E]. rewrite E.
    destruct g; eexists; reflexivity.
  - cbn [ge_size compilable] in *. apply andb_prop in Hc as [H1 H2].
    destruct (IH e1 ltac:(lia) H1) as [[g1 k1] E1]. destruct (IH e2 ltac:(lia) H2) as [[g2 k2] E2].
    rewrite E1, E2. destruct g1, g2; eexists; reflexivity.
  - cbn [ge_size compilable] in *.
    assert (G : forall l acc nerr, fold_right (fun x a => ge_size x + a) 0 l <= n -> forallb compilable l = true ->
      no_panic ((fix go (l : list ge) (acc : list m) (nerr : nat) : cres :=
         match l with
         | [] => Ok (Some (MSeq (rev acc)), nerr)
         | x :: t => match compile_expr unq rules x with
                     | Ok (Some g, n) => go t (g :: acc) (nerr + n)
                     | Ok (None, n) => Ok (None, nerr + n)
                     | Panic => Panic | OutOfFuel => OutOfFuel
                     end
         end) l acc nerr)).
    { induction l0 as [|x t IHl]; intros acc nerr Hz Hf; [eexists; reflexivity|].
      cbn [fold_right forallb] in *. apply andb_prop in Hf as [Hx Ht].
      destruct (IH x ltac:(lia) Hx) as [[g k] E]. rewrite E. destruct g; [|eexists; reflexivity].
      apply IHl; auto. lia. }
    apply G; auto. lia.
  - cbn [ge_size compilable] in *.
    assert (G : forall l acc nerr, fold_right (fun x a => ge_size x + a) 0 l <= n -> forallb compilable l = true ->
      no_panic ((fix go (l : list ge) (acc : list m) (nerr : nat) : cres :=
         match l with
         | [] => Ok (Some (MChoice (rev acc) []), nerr)
         | x :: t => match compile_expr unq rules x with
                     | Ok (Some g, n) => go t (g :: acc) (nerr + n)
                     | Ok (None, n) => Ok (None, nerr + n)
                     | Panic => Panic | OutOfFuel => OutOfFuel
                     end
         end) l acc nerr)).
    { induction l0 as [|x t IHl]; intros acc nerr Hz Hf; [eexists; reflexivity|].
      cbn [fold_right forallb] in *. apply andb_prop in Hf as [Hx Ht].
      destruct (IH x ltac:(lia) Hx) as [[g k] E]. rewrite E. destruct g; [|eexists; reflexivity].
      apply IHl; auto. lia. }
    apply G; auto. lia.
  - discriminate.
Qed.

Lemma compile_expr_no_panic e : compilable e = true -> no_panic (compile_expr unq rules e).
Proof. apply (compile_expr_ok (ge_size e)). lia. Qed.

End NoPanic.

(* NewEx *)
Definition rules_compilable (rs : list rule) : bool := forallb (fun r => compilable (snd r)) rs.

Lemma compile_rules_ok unq names rs : unq_ok unq -> rules_compilable rs = true ->
  no_panic (compile_rules unq names rs).
Proof.
  intros Hu. induction rs as [|[name e] rs IH]; intros H; [eexists; reflexivity|].
  cbn [rules_compilable forallb snd] in H. apply andb_prop in H as [He Hr].
  cbn [compile_rules]. destruct (compile_expr_no_panic unq names Hu e He) as [r E]. rewrite E. cbn [bind].
  destruct (IH Hr) as [r' E']. rewrite E'. eexists; reflexivity.
Qed.

Lemma compile_no_panic unq rs : unq_ok unq -> rules_compilable rs = true -> no_panic (compile unq rs).
Proof.
  intros Hu H. unfold compile. destruct (compile_rules_ok unq (map fst rs) rs Hu H) as [[bodies nerr] E].
  rewrite E. cbn [bind].
  destruct (negb (Nat.eqb (nerr + dup_count (map fst rs) []) 0)); [eexists; reflexivity|].
  destruct bodies; [eexists; reflexivity|].
  destruct (fill_env _ _ _); eexists; reflexivity.
Qed.

(* a tree the parser returned without error has no nil operand (C31_no_error_wf); together with
   "every CHAR token has its two quotes" (a property of the scanner's output) it is compilable *)
Fixpoint chars_ok (e : ge) : bool :=
  match e with
  | ELit k s => negb k || Nat.leb 2 (length s)
  | EUn _ x => chars_ok x
  | EBin _ x y => chars_ok x && chars_ok y
  | ESeq l | EChoice l => forallb chars_ok l
  | _ => true
  end.

Lemma wf_chars_compilable : forall n e, ge_size e <= n -> wf e -> chars_ok e = true -> compilable e = true.
Proof.
  induction n as [|n IH]; intros e Hs Hw Hc. { destruct e; simpl in Hs; lia. }
  assert (HL : forall l, fold_right (fun x a => ge_size x + a) 0 l <= n -> wfl l -> forallb chars_ok l = true ->
               forallb compilable l = true).
  { induction l as [|x t IHl]; intros Hz Hwl Hcl; [reflexivity|]. cbn [fold_right forallb wfl] in *.
    destruct Hwl as [Hx Ht]. apply andb_prop in Hcl as [Hcx Hct]. rewrite IH; auto; [|lia]. apply IHl; auto. lia. }
  destruct e; cbn [compilable chars_ok ge_size] in *; auto.
  - apply IH; auto. lia.
  - destruct Hw as [H1 H2]. apply andb_prop in Hc as [C1 C2]. rewrite !IH; auto; lia.
  - apply wf_seq in Hw as [_ Hw]. apply HL; auto. lia.
  - apply wf_choice in Hw as [_ Hw]. apply HL; auto. lia.
Qed.

Definition rules_chars_ok (rs : list rule) : bool := forallb (fun r => chars_ok (snd r)) rs.

(* tpl.New on any token stream: if the grammar parses without error, compilation does not panic *)
Lemma new_no_panic unq ts rs : unq_ok unq -> parse_file ts = Ok (rs, 0) -> rules_chars_ok rs = true ->
  no_panic (compile unq rs).
Proof.
  intros Hu Hp Hc. apply compile_no_panic; auto.
  apply parse_file_noerr_wf in Hp. unfold rules_wf in Hp. rewrite Forall_forall in Hp.
  unfold rules_compilable. apply forallb_forall. intros r Hr.
  unfold rules_chars_ok in Hc. rewrite forallb_forall in Hc.
  apply (wf_chars_compilable (ge_size (snd r))); auto.
Qed.

(* ---- the parser copies literal tokens into the tree: CHAR literals of the tree are CHAR tokens ---- *)
Definition tok_char_ok (t : tok) : bool := match t with TLit true s => Nat.leb 2 (length s) | _ => true end.
Definition toks_char_ok (ts : list tok) : Prop := Forall (fun t => tok_char_ok t = true) ts.

Definition acc_chars (s : st) : Prop :=
  match s with
  | SOrLoop acc | STermList acc => forallb chars_ok acc = true
  | SRemLoop x | SIncLoop x => chars_ok x = true
  | _ => True
  end.

Lemma forallb_app_true {A} (p : A -> bool) a b : forallb p a = true -> forallb p b = true -> forallb p (a ++ b) = true.
Proof. intros Ha Hb. rewrite forallb_app, Ha, Hb. reflexivity. Qed.

Lemma mkseq_chars acc : forallb chars_ok acc = true -> chars_ok (fst (mkseq acc)) = true.
Proof. destruct acc as [|a [|b t]]; simpl; auto. rewrite andb_true_r. auto. Qed.

Lemma Forall_tail {A} (p : A -> Prop) x l : Forall p (x :: l) -> Forall p l.
Proof. intros H. inversion H; auto. Qed.

Lemma P_chars : forall f s ts x r n, P f s ts = Some (x, r, n) -> toks_char_ok ts -> acc_chars s ->
  toks_char_ok r /\ (forall e, x = Some e -> chars_ok e = true).
Proof.
  induction f as [|f IH]; intros s ts x r n H Ht Ha; [discriminate|].
  destruct s; cbn [P] in H; cbn [acc_chars] in Ha.
  - (* SExpr *)
    destruct (P f (STermList []) ts) as [[[[t|] r1] n1]|] eqn:E; try discriminate.
    + destruct (IH _ _ _ _ _ E Ht eq_refl) as [Hr Hx].
      destruct r1 as [|t0 r0]; [injection H as <- <- <-; split; auto|].
      destruct t0; try (injection H as <- <- <-; split; auto; fail).
      destruct (P f (SOrLoop [t]) (TOr :: r0)) as [[[x' r'] m]|] eqn:E'; try discriminate.
      injection H as <- <- <-. apply (IH _ _ _ _ _ E' Hr). cbn [acc_chars forallb]. rewrite (Hx t eq_refl). reflexivity.
    + injection H as <- <- <-. destruct (IH _ _ _ _ _ E Ht eq_refl) as [Hr Hx]. split; auto.
  - (* SOrLoop *)
    destruct ts as [|t0 r0]; [injection H as <- <- <-; split; auto; intros e He; injection He as <-; exact Ha|].
    destruct t0; try (injection H as <- <- <-; split; auto; intros e He; injection He as <-; exact Ha).
    destruct (P f (STermList []) r0) as [[[[t|] r1] n1]|] eqn:E; try discriminate.
    + destruct (IH _ _ _ _ _ E (Forall_tail _ _ _ Ht) eq_refl) as [Hr Hx].
      destruct (P f (SOrLoop (acc ++ [t])) r1) as [[[x' r'] m]|] eqn:E'; try discriminate.
      injection H as <- <- <-. apply (IH _ _ _ _ _ E' Hr). cbn [acc_chars]. apply forallb_app_true; auto.
      cbn [forallb]. rewrite (Hx t eq_refl). reflexivity.
    + injection H as <- <- <-. destruct (IH _ _ _ _ _ E (Forall_tail _ _ _ Ht) eq_refl) as [Hr Hx]. split; auto.
  - (* STermList *)
    destruct (P f STerm ts) as [[[[t|] r1] n1]|] eqn:E; try discriminate.
    + destruct (IH _ _ _ _ _ E Ht I) as [Hr Hx].
      destruct (P f (STermList (acc ++ [t])) r1) as [[[x' r'] m]|] eqn:E'; try discriminate.
      injection H as <- <- <-. apply (IH _ _ _ _ _ E' Hr). cbn [acc_chars]. apply forallb_app_true; auto.
      cbn [forallb]. rewrite (Hx t eq_refl). reflexivity.
    + destruct (IH _ _ _ _ _ E Ht I) as [Hr _]. pose proof (mkseq_chars acc Ha) as Hm. destruct (mkseq acc) as [e m].
      injection H as <- <- <-. split; auto. intros e' He. injection He as <-. exact Hm.
  - (* STerm *)
    destruct (P f STerm2 ts) as [[[[t|] r1] n1]|] eqn:E; try discriminate.
    + destruct (IH _ _ _ _ _ E Ht I) as [Hr Hx].
      destruct (P f (SRemLoop t) r1) as [[[x' r'] m]|] eqn:E'; try discriminate.
      injection H as <- <- <-. apply (IH _ _ _ _ _ E' Hr). cbn [acc_chars]. auto.
    + injection H as <- <- <-. destruct (IH _ _ _ _ _ E Ht I) as [Hr Hx]. split; auto.
  - (* SRemLoop *)
    destruct ts as [|t0 r0]; [injection H as <- <- <-; split; auto; intros e He; injection He as <-; exact Ha|].
    destruct t0; try (injection H as <- <- <-; split; auto; intros e He; injection He as <-; exact Ha).
    destruct o; [|injection H as <- <- <-; split; auto; intros e He; injection He as <-; exact Ha].
    destruct (P f STerm2 r0) as [[[[y|] r1] n1]|] eqn:E; try discriminate.
    + destruct (IH _ _ _ _ _ E (Forall_tail _ _ _ Ht) I) as [Hr Hx].
      destruct (P f (SRemLoop (EBin BRem x0 y)) r1) as [[[x' r'] m]|] eqn:E'; try discriminate.
      injection H as <- <- <-. apply (IH _ _ _ _ _ E' Hr). cbn [acc_chars chars_ok]. rewrite Ha, (Hx y eq_refl). reflexivity.
    + injection H as <- <- <-. destruct (IH _ _ _ _ _ E (Forall_tail _ _ _ Ht) I) as [Hr Hx]. split; auto; try discriminate.
  - (* STerm2 *)
    destruct (P f SFactor ts) as [[[[t|] r1] n1]|] eqn:E; try discriminate.
    + destruct (IH _ _ _ _ _ E Ht I) as [Hr Hx].
      destruct (P f (SIncLoop t) r1) as [[[x' r'] m]|] eqn:E'; try discriminate.
      injection H as <- <- <-. apply (IH _ _ _ _ _ E' Hr). cbn [acc_chars]. auto.
    + injection H as <- <- <-. destruct (IH _ _ _ _ _ E Ht I) as [Hr Hx]. split; auto.
  - (* SIncLoop *)
    destruct ts as [|t0 r0]; [injection H as <- <- <-; split; auto; intros e He; injection He as <-; exact Ha|].
    destruct t0; try (injection H as <- <- <-; split; auto; intros e He; injection He as <-; exact Ha).
    destruct o; [injection H as <- <- <-; split; auto; intros e He; injection He as <-; exact Ha|].
    destruct (P f SFactor r0) as [[[[y|] r1] n1]|] eqn:E; try discriminate.
    + destruct (IH _ _ _ _ _ E (Forall_tail _ _ _ Ht) I) as [Hr Hx].
      destruct (P f (SIncLoop (EBin BInc x0 y)) r1) as [[[x' r'] m]|] eqn:E'; try discriminate.
      injection H as <- <- <-. apply (IH _ _ _ _ _ E' Hr). cbn [acc_chars chars_ok]. rewrite Ha, (Hx y eq_refl). reflexivity.
    + injection H as <- <- <-. destruct (IH _ _ _ _ _ E (Forall_tail _ _ _ Ht) I) as [Hr Hx]. split; auto; try discriminate.
  - (* SFactor *)
    destruct ts as [|t0 r0]; [injection H as <- <- <-; split; auto; try discriminate|].
    destruct t0; try solve [injection H as <- <- <-; split; auto; try discriminate].
    + injection H as <- <- <-. split; [eapply Forall_tail; eauto|]. intros e He. injection He as <-. reflexivity.
    + injection H as <- <- <-. split; [eapply Forall_tail; eauto|]. intros e He. injection He as <-.
      inversion Ht as [|? ? Hk _]; subst. cbn [tok_char_ok] in Hk. cbn [chars_ok]. destruct k; auto.
    + destruct (P f SFactor r0) as [[[[y|] r1] n1]|] eqn:E; try discriminate.
      * injection H as <- <- <-. destruct (IH _ _ _ _ _ E (Forall_tail _ _ _ Ht) I) as [Hr Hx]. split; auto.
        intros e He. injection He as <-. cbn [chars_ok]. auto.
      * injection H as <- <- <-. destruct (IH _ _ _ _ _ E (Forall_tail _ _ _ Ht) I) as [Hr Hx]. split; auto.
        intros e He. injection He as <-. reflexivity.
    + destruct (P f SExpr r0) as [[[[y|] r1] n1]|] eqn:E; try discriminate.
      * destruct (IH _ _ _ _ _ E (Forall_tail _ _ _ Ht) I) as [Hr Hx].
        destruct r1 as [|t1 r1]; [injection H as <- <- <-; split; auto|].
        destruct t1; injection H as <- <- <-; (split; [eapply Forall_tail; eauto|auto]).
      * injection H as <- <- <-. destruct (IH _ _ _ _ _ E (Forall_tail _ _ _ Ht) I) as [Hr Hx]. split; auto.
Qed.

Lemma lambda_loop_forall (p : tok -> Prop) : forall ts l, Forall p ts -> Forall p (fst (lambda_loop l ts)).
Proof.
  induction ts as [|t ts IH]; intros l H; [constructor|]. inversion H as [|? ? Ht Hts]; subst.
  destruct t; cbn [lambda_loop]; auto. destruct l as [|[|l]]; cbn [fst]; auto.
Qed.
Lemma expect_forall (p : tok -> Prop) want ts : Forall p ts -> Forall p (fst (expect want ts)).
Proof. intros H. destruct ts; cbn [expect fst]; auto. inversion H; auto. Qed.

Lemma rule_body_chars f ts e r n : parse_rule_body f ts = Some (e, r, n) -> toks_char_ok ts ->
  toks_char_ok r /\ chars_ok e = true.
Proof.
  unfold parse_rule_body. intros H Ht.
  pose proof (expect_forall _ is_assign ts Ht) as H1. destruct (expect is_assign ts) as [r1 n1]. cbn [fst] in H1.
  destruct (P f SExpr r1) as [[[[x|] r2] n2]|] eqn:E; try discriminate.
  destruct (P_chars _ _ _ _ _ _ E H1 I) as [H2 Hx].
  assert (H3 : toks_char_ok (fst (match r2 with
        | TArrow :: r => let '(r', n') := expect is_lb r in (fst (lambda_loop 1 r'), n')
        | _ => (r2, 0) end))).
  { destruct r2 as [|t r0]; auto. destruct t; auto.
    pose proof (expect_forall _ is_lb r0 (Forall_tail _ _ _ H2)) as H4. destruct (expect is_lb r0) as [r' n']. cbn [fst] in *.
    apply lambda_loop_forall. exact H4. }
  destruct (match r2 with TArrow :: r => let '(r', n') := expect is_lb r in (fst (lambda_loop 1 r'), n') | _ => (r2, 0) end) as [r3 n3].
  cbn [fst] in H3. pose proof (expect_forall _ is_semi r3 H3) as H4. destruct (expect is_semi r3) as [r4 n4]. cbn [fst] in H4.
  injection H as <- <- _. split; auto.
Qed.

Lemma file_loop_chars F : forall k ts acc n rs m, parse_file_loop k F ts acc n = Ok (rs, m) ->
  toks_char_ok ts -> forallb (fun r => chars_ok (snd r)) acc = true -> rules_chars_ok rs = true.
Proof.
  induction k as [|k IH]; intros ts acc n rs m H Ht Ha; [discriminate|]. cbn [parse_file_loop] in H.
  assert (Hrev : rules_chars_ok (rev acc) = true).
  { unfold rules_chars_ok. apply forallb_forall. intros x Hx. apply in_rev in Hx. rewrite forallb_forall in Ha. auto. }
  destruct ts as [|t r]; [injection H as <- _; exact Hrev|].
  destruct t; try (injection H as <- _; exact Hrev).
  destruct (parse_rule_body F r) as [[[e r'] n1]|] eqn:E; [|discriminate].
  destruct (rule_body_chars _ _ _ _ _ E (Forall_tail _ _ _ Ht)) as [Hr He].
  eapply IH; eauto. cbn [forallb snd]. rewrite He, Ha. reflexivity.
Qed.

Lemma parse_file_chars ts rs n : parse_file ts = Ok (rs, n) -> toks_char_ok ts -> rules_chars_ok rs = true.
Proof. unfold parse_file. intros H Ht. eapply file_loop_chars; eauto. Qed.

(* tpl.New on a token stream: parse without error  =>  NewEx does not panic, assuming only that the
   scanner's CHAR tokens carry both quotes *)
Lemma new_no_panic_tokens unq ts rs : unq_ok unq -> toks_char_ok ts -> parse_file ts = Ok (rs, 0) ->
  no_panic (compile unq rs).
Proof. intros Hu Ht Hp. eapply new_no_panic; eauto. eapply parse_file_chars; eauto. Qed.
