(* Lemmas for C27: Token.Len is total on the byte range and on the operator table; compileExpr /
   NewEx never panic on trees without nil operands whose CHAR literals have both quotes. *)
From Coq Require Import List NArith ZArith Bool Arith Lia.
Import ListNotations.
From V Require Import Base.Prelude Base.TplRes Gen.Tokens Gen.TplCl Model.C31 Model.Tpl Model.TplCl Proofs.C31.
Local Open Scope nat_scope.

(* ---- Token.Len (translated from tpl/token/token.go) over the finite domain a literal can reach ---- *)
Definition len_ok (z : Z) : bool := negb (is_panic (tpl_Len z)) && negb (match tpl_Len z with OutOfFuel => true | _ => false end).

Lemma len_ok_256 : forallb len_ok (zrange 0 256) = true.
Proof. vm_compute. reflexivity. Qed.

Lemma In_zrange : forall n lo z, (lo <= z < lo + Z.of_nat n)%Z -> In z (zrange lo n).
Proof.
  induction n as [|n IH]; intros lo z H; [lia|]. cbn [zrange].
  destruct (Z.eq_dec z lo) as [->|Hne]; [left; reflexivity|]. right. apply IH. lia.
Qed.

Lemma token_len_total : forall b, (0 <= b < 256)%Z -> exists n, tpl_Len b = Ok n.
Proof.
  intros b Hb. pose proof len_ok_256 as H. rewrite forallb_forall in H.
  specialize (H b (In_zrange 256 0 b ltac:(lia))). unfold len_ok in H.
  destruct (tpl_Len b); simpl in H; try discriminate. eauto.
Qed.

(* every token code checkToken can return is in the byte range *)
Lemma find_spelling_range : forall l v from t, find_spelling v from l = Some t ->
  (from <= t < from + Z.of_nat (length l))%Z.
Proof.
  induction l as [|s l IH]; intros v from t H; [discriminate|]. cbn [find_spelling] in H.
  destruct (negb (str_eqb s []) && str_eqb s v).
  - injection H as <-. cbn [length]. lia.
  - apply IH in H. cbn [length]. lia.
Qed.

Lemma for_each_find_range v t : for_each_find v = Some t -> (0 <= t < 256)%Z.
Proof.
  unfold for_each_find. intros H. apply find_spelling_range in H.
  rewrite firstn_length in H.
  assert (E1 : (tpl_operator_beg + 1 = 129)%Z) by reflexivity.
  assert (E2 : (tpl_operator_end = 158)%Z) by reflexivity.
  rewrite E1, E2 in H. lia.
Qed.

(* assumptions on strconv (not modelled): a rune reported as not multibyte is a byte; an unquoted
   Go string consists of bytes *)
Definition unq_ok (unq : bool -> str -> uq) : Prop :=
  (forall l v tail, unq true l = UqChar v false tail -> (0 <= v < 256)%Z) /\
  (forall l v, unq false l = UqStr v -> bytes_ok v = true).

Fixpoint ge_size (e : ge) : nat :=
  match e with
  | EUn _ x => S (ge_size x) | EBin _ x y => S (ge_size x + ge_size y)
  | ESeq l | EChoice l => S (fold_right (fun x a => ge_size x + a) 0 l)
  | _ => 1
  end.

(* no nil operand; every CHAR literal has at least its two quotes *)
Fixpoint compilable (e : ge) : bool :=
  match e with
  | EIdent _ => true
  | ELit k s => negb k || Nat.leb 2 (length s)
  | EUn _ x => compilable x
  | EBin _ x y => compilable x && compilable y
  | ESeq l | EChoice l => forallb compilable l
  | ENil => false
  end.

Definition no_panic {A} (x : M A) : Prop := exists a, x = Ok a.

Section NoPanic.
Variable unq : bool -> str -> uq.
Variable rules : list str.
Hypothesis Hunq : unq_ok unq.

Lemma token_expr_ok t : (0 <= t < 256)%Z -> no_panic (token_expr t).
Proof.
  intros H. destruct (token_len_total t H) as [n E]. unfold token_expr. rewrite E. cbn [bind].
  destruct (Z.ltb 0 n); unfold c_ok, c_fail; eexists; reflexivity.
Qed.

Lemma compile_ident_ok name : no_panic (compile_ident rules name).
Proof.
  unfold compile_ident.
  destruct (index_of name rules 0); [eexists; reflexivity|].
  destruct (sassoc name tplcl_idents); [eexists; reflexivity|].
  destruct (sassoc name tplcl_string_names); [eexists; reflexivity|].
  destruct (str_eqb name tplcl_space_name); eexists; reflexivity.
Qed.

Lemma compile_lit_ok k lit : compilable (ELit k lit) = true -> no_panic (compile_lit unq k lit).
Proof.
  destruct Hunq as [Hc Hs].
  unfold compile_lit. cbn [compilable]. intros H. destruct k.
  - cbn [negb orb] in H. apply Nat.leb_le in H.
    replace (Nat.ltb (length lit) 2) with false by (symmetry; apply Nat.ltb_ge; lia).
    destruct (unq true lit) as [|v mb tl|v] eqn:E; try (eexists; reflexivity).
    destruct tl; cbn [orb]; [eexists; reflexivity|]. destruct mb; [eexists; reflexivity|].
    apply token_expr_ok. eapply Hc; eauto.
  - destruct (unq false lit) as [|v mb tl|v] eqn:Eu; try (eexists; reflexivity).
    destruct v as [|c v']; [eexists; reflexivity|].
    destruct (is_ident_start c); [eexists; reflexivity|].
    destruct (check_token (c :: v')) as [t|] eqn:E; [|eexists; reflexivity].
    apply token_expr_ok. unfold check_token in E. destruct v' as [|c2 v''].
    + injection E as <-. apply Hs in Eu. cbn [bytes_ok forallb] in Eu.
      apply andb_prop in Eu as [Eu _]. apply N.ltb_lt in Eu. lia.
    + eapply for_each_find_range; eauto.
Qed.

Lemma compile_expr_ok : forall n e, ge_size e <= n -> compilable e = true -> no_panic (compile_expr unq rules e).
Proof.
  induction n as [|n IH]; intros e Hs Hc. { destruct e; simpl in Hs; lia. }
  destruct e; cbn [compile_expr].
  - apply compile_ident_ok.
  - apply compile_lit_ok. exact Hc.
  - cbn [ge_size compilable] in *. destruct (IH e ltac:(lia) Hc) as [[g k] E]. rewrite E.
    destruct g; eexists; reflexivity.
  - cbn [ge_size compilable] in *. apply andb_prop in Hc as [H1 H2].
    destruct (IH e1 ltac:(lia) H1) as [[g1 k1] E1]. destruct (IH e2 ltac:(lia) H2) as [[g2 k2] E2].
    rewrite E1, E2. destruct g1, g2; eexists; reflexivity.
  - cbn [ge_size compilable] in *.
    assert (G : forall l acc nerr, fold_right (fun x a => ge_size x + a) 0 l <= n -> forallb compilable l = true ->
      no_panic ((fix go (l : list ge) (acc : list m) (nerr : nat) : cres :=
         match l with
         | [] => Ok (Some (MSeq (rev acc)), nerr)
         | x :: t => match compile_expr unq rules x with
                     | Ok (Some g, n) => go t (g :: acc) (nerr + n)
                     | Ok (None, n) => Ok (None, nerr + n)
                     | Panic => Panic | OutOfFuel => OutOfFuel
                     end
         end) l acc nerr)).
    { induction l0 as [|x t IHl]; intros acc nerr Hz Hf; [eexists; reflexivity|].
      cbn [fold_right forallb] in *. apply andb_prop in Hf as [Hx Ht].
      destruct (IH x ltac:(lia) Hx) as [[g k] E]. rewrite E. destruct g; [|eexists; reflexivity].
      apply IHl; auto. lia. }
    apply G; auto. lia.
  - cbn [ge_size compilable] in *.
    assert (G : forall l acc nerr, fold_right (fun x a => ge_size x + a) 0 l <= n -> forallb compilable l = true ->
      no_panic ((fix go (l : list ge) (acc : list m) (nerr : nat) : cres :=
         match l with
         | [] => Ok (Some (MChoice (rev acc) []), nerr)
         | x :: t => match compile_expr unq rules x with
                     | Ok (Some g, n) => go t (g :: acc) (nerr + n)
                     | Ok (None, n) => Ok (None, nerr + n)
                     | Panic => Panic | OutOfFuel => OutOfFuel
                     end
         end) l acc nerr)).
    { induction l0 as [|x t IHl]; intros acc nerr Hz Hf; [eexists; reflexivity|].
      cbn [fold_right forallb] in *. apply andb_prop in Hf as [Hx Ht].
      destruct (IH x ltac:(lia) Hx) as [[g k] E]. rewrite E. destruct g; [|eexists; reflexivity].
      apply IHl; auto. lia. }
    apply G; auto. lia.
  - discriminate.
Qed.

Lemma compile_expr_no_panic e : compilable e = true -> no_panic (compile_expr unq rules e).
Proof. apply (compile_expr_ok (ge_size e)). lia. Qed.

End NoPanic.

(* NewEx *)
Definition rules_compilable (rs : list rule) : bool := forallb (fun r => compilable (snd r)) rs.

Lemma compile_rules_ok unq names rs : unq_ok unq -> rules_compilable rs = true ->
  no_panic (compile_rules unq names rs).
Proof.
  intros Hu. induction rs as [|[name e] rs IH]; intros H; [eexists; reflexivity|].
  cbn [rules_compilable forallb snd] in H. apply andb_prop in H as [He Hr].
  cbn [compile_rules]. destruct (compile_expr_no_panic unq names Hu e He) as [r E]. rewrite E. cbn [bind].
  destruct (IH Hr) as [r' E']. rewrite E'. eexists; reflexivity.
Qed.

Lemma compile_no_panic unq rs : unq_ok unq -> rules_compilable rs = true -> no_panic (compile unq rs).
Proof.
  intros Hu H. unfold compile. destruct (compile_rules_ok unq (map fst rs) rs Hu H) as [[bodies nerr] E].
  rewrite E. cbn [bind].
  destruct (negb (Nat.eqb (nerr + dup_count (map fst rs) []) 0)); [eexists; reflexivity|].
  destruct bodies; [eexists; reflexivity|].
  destruct (fill_env _ _ _); eexists; reflexivity.
Qed.

(* a tree the parser returned without error has no nil operand (C31_no_error_wf); together with
   "every CHAR token has its two quotes" (a property of the scanner's output) it is compilable *)
Fixpoint chars_ok (e : ge) : bool :=
  match e with
  | ELit k s => negb k || Nat.leb 2 (length s)
  | EUn _ x => chars_ok x
  | EBin _ x y => chars_ok x && chars_ok y
  | ESeq l | EChoice l => forallb chars_ok l
  | _ => true
  end.

Lemma wf_chars_compilable : forall n e, ge_size e <= n -> wf e -> chars_ok e = true -> compilable e = true.
Proof.
  induction n as [|n IH]; intros e Hs Hw Hc. { destruct e; simpl in Hs; lia. }
  assert (HL : forall l, fold_right (fun x a => ge_size x + a) 0 l <= n -> wfl l -> forallb chars_ok l = true ->
               forallb compilable l = true).
  { induction l as [|x t IHl]; intros Hz Hwl Hcl; [reflexivity|]. cbn [fold_right forallb wfl] in *.
    destruct Hwl as [Hx Ht]. apply andb_prop in Hcl as [Hcx Hct]. rewrite IH; auto; [|lia]. apply IHl; auto. lia. }
  destruct e; cbn [compilable chars_ok ge_size] in *; auto.
  - apply IH; auto. lia.
  - destruct Hw as [H1 H2]. apply andb_prop in Hc as [C1 C2]. rewrite !IH; auto; lia.
  - apply wf_seq in Hw as [_ Hw]. apply HL; auto. lia.
  - apply wf_choice in Hw as [_ Hw]. apply HL; auto. lia.
Qed.

Definition rules_chars_ok (rs : list rule) : bool := forallb (fun r => chars_ok (snd r)) rs.

(* tpl.New on any token stream: if the grammar parses without error, compilation does not panic *)
Lemma new_no_panic unq ts rs : unq_ok unq -> parse_file ts = Ok (rs, 0) -> rules_chars_ok rs = true ->
  no_panic (compile unq rs).
Proof.
  intros Hu Hp Hc. apply compile_no_panic; auto.
  apply parse_file_noerr_wf in Hp. unfold rules_wf in Hp. rewrite Forall_forall in Hp.
  unfold rules_compilable. apply forallb_forall. intros r Hr.
  unfold rules_chars_ok in Hc. rewrite forallb_forall in Hc.
  apply (wf_chars_compilable (ge_size (snd r))); auto.
Qed.
