(* totality of the C14 model: results only shrink the token list, and fuel_for is enough fuel *)
From Coq Require Import List NArith ZArith Bool Lia.
Import ListNotations.
From V Require Import Base.Prelude Gen.Tokens Model.C14 Proofs.C14Unf.
Local Open Scope nat_scope.

Definition strict (st : state) : bool :=
  match st with SExpr _ _ | SBinary _ _ _ _ | SUnary _ _ _ | SArgs _ _ | SExprList _ _ => true | _ => false end.

Definition LenAt (d : dialect) (f : nat) : Prop := forall st ts r rest,
  P d f st ts = POk r rest -> length rest <= length ts /\ (strict st = true -> length rest < length ts).

Ltac step IH H :=
  match type of H with
  | context [match P ?d ?f ?st ?ts with _ => _ end] =>
      let E := fresh "E" in destruct (P d f st ts) as [? ?| | |] eqn:E; try discriminate; [apply IH in E; cbn [strict] in E]
  | P _ _ _ _ = POk _ _ => apply IH in H; cbn [strict] in H
  | POk _ _ = POk _ _ => injection H as <- <-
  | context [match ?x with _ => _ end] => destruct x eqn:?; try discriminate
  | context [if ?b then _ else _] => destruct b eqn:?; try discriminate
  end.

Ltac finish :=
  repeat match goal with
         | H : match ?x with _ => _ end = (_, _) |- _ => destruct x eqn:?; try discriminate
         | H : (if ?b then _ else _) = (_, _) |- _ => destruct b eqn:?
         | H : (_, _) = (_, _) |- _ => apply pair_equal_spec in H; destruct H
         | H : _ :: _ = _ :: _ |- _ => injection H as ? ?
         end; subst;
  repeat match goal with H : _ /\ _ |- _ => destruct H end;
  repeat match goal with H : true = true -> _ |- _ => specialize (H eq_refl) end;
  cbn [length strict] in *; (split; [try lia|intros; try discriminate; try lia]).

Lemma len_step d f : LenAt d f -> LenAt d (S f).
Proof.
  intros IH st ts r rest H. destruct st.
  - rewrite unf_SExpr in H. repeat step IH H; finish.
  - rewrite unf_SBinary in H. repeat step IH H; finish.
  - rewrite unf_SBinLoop in H. cbv zeta in H. repeat step IH H; finish.
  - rewrite unf_SUnary in H. repeat step IH H; finish.
  - rewrite unf_SPrimLoop in H. cbv zeta in H. repeat step IH H; finish.
  - rewrite unf_SArgs in H. repeat step IH H; finish.
  - rewrite unf_SExprList in H. repeat step IH H; finish.
  - rewrite unf_SLhsMore in H. repeat step IH H; finish.
Qed.

Lemma P_len d : forall f, LenAt d f.
Proof. induction f; [intros st ts r rest H; discriminate|apply len_step; auto]. Qed.

Lemma P_len_le d f st ts r rest : P d f st ts = POk r rest -> length rest <= length ts.
Proof. intros H. now apply P_len in H. Qed.

(* ---------------------------------------------------------------- enough fuel *)
Definition rank (st : state) : nat :=
  match st with
  | SUnary _ _ _ => 0 | SBinary _ _ _ _ => 1 | SExpr _ _ => 2 | SArgs _ _ => 3 | SExprList _ _ => 3
  | SPrimLoop _ _ _ => 4 | SBinLoop _ _ _ => 0 | SLhsMore _ => 2
  end.
Definition need (st : state) (ts : list token) : nat := 6 * length ts + rank st + 1.

Definition FuelAt (d : dialect) (f : nat) : Prop := forall st ts, need st ts <= f -> P d f st ts <> PFuel.

Ltac prep :=
  repeat match goal with
         | H : match ?x with _ => _ end = (_, _) |- _ => destruct x eqn:?; try discriminate
         | H : (if ?b then _ else _) = (_, _) |- _ => destruct b eqn:?
         | H : (_, _) = (_, _) |- _ => apply pair_equal_spec in H; destruct H
         | H : _ :: _ = _ :: _ |- _ => injection H as ? ?
         end; subst;
  repeat match goal with H : _ /\ _ |- _ => destruct H end;
  repeat match goal with H : true = true -> _ |- _ => specialize (H eq_refl) end;
  unfold need in *; cbn [length strict rank] in *.

Ltac fstep IH :=
  match goal with
  | |- context [match P ?d ?f ?st ?ts with _ => _ end] =>
      let E := fresh "E" in
      destruct (P d f st ts) as [? ?| | |] eqn:E;
      [ pose proof (P_len _ _ _ _ _ _ E) | | | exfalso; revert E; apply IH; prep; lia ]
  | |- P ?d ?f ?st ?ts <> PFuel => apply IH; prep; lia
  | |- context [match ?x with _ => _ end] => destruct x eqn:?
  | |- context [if ?b then _ else _] => destruct b eqn:?
  | |- _ <> PFuel => discriminate
  end.

Lemma fuel_step d f : FuelAt d f -> FuelAt d (S f).
Proof.
  intros IH st ts Hn. destruct st.
  - rewrite unf_SExpr. repeat fstep IH.
  - rewrite unf_SBinary. repeat fstep IH.
  - rewrite unf_SBinLoop. cbv zeta. repeat fstep IH.
  - rewrite unf_SUnary. repeat fstep IH.
  - rewrite unf_SPrimLoop. cbv zeta. repeat fstep IH.
  - rewrite unf_SArgs. repeat fstep IH.
  - rewrite unf_SExprList. repeat fstep IH.
  - rewrite unf_SLhsMore. repeat fstep IH.
Qed.

Theorem enough_fuel d : forall f st ts, need st ts <= f -> P d f st ts <> PFuel.
Proof.
  induction f as [|f IH]; intros st ts Hn.
  - unfold need in Hn. lia.
  - apply fuel_step; auto.
Qed.

(* the model's parsers are total: fuel_for is always enough *)
Theorem parse_expr_total d ts : parse_expr d ts <> NoFuel.
Proof.
  unfold parse_expr.
  destruct (P d (fuel_for ts) (SExpr true false) ts) as [r rest| | |] eqn:E; try discriminate.
  - destruct r; try discriminate. destruct rest; discriminate.
  - exfalso. revert E. apply enough_fuel. unfold need, fuel_for. cbn [rank]. lia.
Qed.

Theorem parse_stmt_total d ts : parse_stmt d ts <> NoFuel.
Proof.
  unfold parse_stmt. set (fuel := fuel_for ts). set (cmd := match ts with t :: _ => is xgo_IDENT t | [] => false end).
  assert (Hfuel : forall st r, length r <= length ts -> P d fuel st r <> PFuel).
  { intros st r Hr. apply enough_fuel. unfold need, fuel, fuel_for. destruct st; cbn [rank]; lia. }
  destruct (P d fuel (SBinary 1 false false cmd) ts) as [q r1| | |] eqn:E1; try discriminate.
  2:{ exfalso. revert E1. apply Hfuel. lia. }
  pose proof (P_len_le _ _ _ _ _ _ E1) as L1.
  destruct q; try discriminate.
  destruct (P d fuel (SLhsMore [e]) r1) as [q r2| | |] eqn:E2; try discriminate.
  2:{ exfalso. revert E2. apply Hfuel. lia. }
  pose proof (P_len_le _ _ _ _ _ _ E2) as L2.
  destruct q; try discriminate.
  destruct r2 as [|t r3]; [destruct l as [|? [|? ?]]; discriminate|]. cbn [length] in L2.
  destruct (code_in assign_ops t).
  - destruct (P d fuel (SExprList true []) r3) as [q r4| | |] eqn:E3; try discriminate.
    2:{ exfalso. revert E3. apply Hfuel. lia. }
    destruct q; try discriminate. destruct r4; try discriminate.
    destruct (d_xgo d && is xgo_DEFINE t && negb (forallb is_ident l)); discriminate.
  - destruct l as [|x [|y l']]; try discriminate.
    destruct (is xgo_ARROW t).
    + destruct (P d fuel (SExpr true false) r3) as [q r4| | |] eqn:E3; try discriminate.
      2:{ exfalso. revert E3. apply Hfuel. lia. }
      destruct q; try (destruct r4; discriminate).
      destruct r4; [discriminate|]. destruct (d_xgo d && (is xgo_COMMA t0 || is xgo_ELLIPSIS t0)); discriminate.
    + destruct (is xgo_INC t || is xgo_DEC t); [destruct r3; discriminate|discriminate].
Qed.
