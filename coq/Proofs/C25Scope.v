(* C25, third part: preservation when `var` statements shadow an import (the shadowing that formatCtx
   tracks, with block scope entry / exit), directly against the program with the unused import deleted. *)
From Coq Require Import List NArith ZArith Bool Lia.
Import ListNotations.
From V Require Import Base.Prelude Gen.C25 Model.C25 Proofs.C25 Proofs.C25Del.

Lemma tr_block_stmts c b : tr_block c b = tr_stmts (push c) b.
Proof. destruct b; reflexivity. Qed.

Section SimS.
Variable im : list (name * str).
Variable U : list name.

Definition okp (x : name) : bool := (ni im x && negb (is_subst x))%bool.
Definition okv (x : name) : bool := negb (is_subst x).
Definition bound (x : name) (en : env) : bool := match sassoc x en with Some _ => true | None => false end.

(* the tracked scopes know exactly which import names are bound at run time *)
Definition inv (c : fctx) (en : env) : Prop :=
  imps c = im /\ forall x, ni im x = false -> in_scope x c = bound x en.

Inductive R : value -> value -> Prop :=
| R_int z : R (VInt z) (VInt z)
| R_str s : R (VStr s) (VStr s)
| R_unit : R VUnit VUnit
| R_obj t v v' : R v v' -> R (VObj t v) (VObj t v')
| R_clos ps b e e' c1 : forallb okp ps = true -> goodv_ss okp okv b = true -> Renv e e' -> inv c1 e ->
    incl (snd (tr_stmts c1 b)) U -> R (VClos ps b e) (VClos ps (fst (tr_stmts c1 b)) e')
with Renv : env -> env -> Prop :=
| Renv_nil : Renv [] []
| Renv_cons x v v' e e' : okv x = true -> R v v' -> Renv e e' -> Renv ((x, v) :: e) ((x, v') :: e').

Inductive Ropt : option value -> option value -> Prop :=
| Ropt_none : Ropt None None
| Ropt_some v v' : R v v' -> Ropt (Some v) (Some v').

Lemma okp_okv x : okp x = true -> okv x = true.
Proof. unfold okp, okv. intros H. apply andb_prop in H. tauto. Qed.

Lemma okp_ni x : okp x = true -> ni im x = true.
Proof. unfold okp. intros H. apply andb_prop in H. tauto. Qed.

Lemma Renv_lookup e e' x : Renv e e' ->
  match sassoc x e with
  | Some v => okv x = true /\ exists v', sassoc x e' = Some v' /\ R v v'
  | None => sassoc x e' = None
  end.
Proof.
  induction 1 as [|y v v' e e' Hy Hv He IH]; simpl; [reflexivity|].
  destruct (str_eqb x y) eqn:E.
  - apply str_eqb_eq in E. subst. split; [exact Hy|]. exists v'. auto.
  - exact IH.
Qed.

Lemma render_R v v' : R v v' -> render v = render v'.
Proof.
  revert v'. induction v; intros v' H; inversion H; subst; simpl; try reflexivity.
  f_equal. f_equal. f_equal. apply IHv. assumption.
Qed.

Lemma renders_R vs vs' : Forall2 R vs vs' -> renders vs = renders vs'.
Proof. induction 1; simpl; [reflexivity|]. rewrite (render_R _ _ H), IHForall2. reflexivity. Qed.

Lemma inv_push c en : inv c en -> inv (push c) en.
Proof. intros [H1 H2]. split; [exact H1 | exact H2]. Qed.

Lemma bound_cons x y v en : bound x ((y, v) :: en) = (str_eqb x y || bound x en)%bool.
Proof. unfold bound. simpl. destruct (str_eqb x y); reflexivity. Qed.

(* binding a name that is not an import does not change which imports are bound *)
Lemma inv_cons_ni c en y v : inv c en -> ni im y = true -> inv c ((y, v) :: en).
Proof.
  intros [H1 H2] Hy. split; [exact H1|]. intros x Hx. rewrite bound_cons, (H2 x Hx).
  destruct (str_eqb x y) eqn:E; [|reflexivity]. apply str_eqb_eq in E. subst. congruence.
Qed.

(* a tracked `var` *)
Lemma inv_insert c en y v : inv c en -> inv (insert y c) ((y, v) :: en).
Proof.
  intros [H1 H2]. split; [rewrite imps_insert; exact H1|]. intros x Hx.
  rewrite in_scope_insert, bound_cons, (H2 x Hx). reflexivity.
Qed.

Lemma bind_R ps : forall vs vs' ce ce' e1 c, Forall2 R vs vs' -> Renv ce ce' -> forallb okp ps = true -> inv c ce ->
  bind ps vs ce = Some e1 -> exists e1', bind ps vs' ce' = Some e1' /\ Renv e1 e1' /\ inv c e1.
Proof.
  induction ps as [|p ps IH]; intros vs vs' ce ce' e1 c Hv Hc Hok Hi Hb.
  - destruct vs; [|discriminate]. inversion Hv; subst. simpl in *. inversion Hb; subst. eauto.
  - destruct vs as [|v vs]; [discriminate|]. inversion Hv as [|? v' ? vs'' Hvv Hvs]; subst.
    simpl in Hok. apply andb_prop in Hok. destruct Hok as [Hp Hps].
    simpl in Hb. destruct (bind ps vs ce) as [e0|] eqn:E; [|discriminate]. inversion Hb; subst.
    destruct (IH _ _ _ _ _ _ Hvs Hc Hps Hi E) as [e0' [H1 [H2 H3]]].
    exists ((p, v') :: e0'). simpl. rewrite H1. split; [reflexivity|]. split.
    + constructor; [apply okp_okv; assumption | assumption | assumption].
    + apply inv_cons_ni; [assumption | apply okp_ni; assumption].
Qed.

(* what formatSelectorExpr does, in terms of the run-time environment *)
Lemma sel_action_bound c en x sel : inv c en -> bound x en = true -> sel_action c x sel = (None, []).
Proof.
  intros [H1 H2] Hb. unfold sel_action. destruct (in_scope x c) eqn:Es; [reflexivity|].
  rewrite H1. destruct (sassoc x im) as [path|] eqn:Ei; [|reflexivity].
  assert (Hni : ni im x = false) by (unfold ni; rewrite Ei; reflexivity).
  rewrite (H2 x Hni) in Es. congruence.
Qed.

Lemma sel_action_unbound c en x sel path : inv c en -> bound x en = false -> sassoc x im = Some path ->
  sel_action c x sel = match fmt_to_builtin path sel with Some b => (Some b, []) | None => (None, [x]) end.
Proof.
  intros [H1 H2] Hb Hi. unfold sel_action.
  assert (Hni : ni im x = false) by (unfold ni; rewrite Hi; reflexivity).
  rewrite (H2 x Hni), Hb, H1, Hi. reflexivity.
Qed.

Lemma used_agree x : In x U -> sassoc x (filter (keepf U) im) = sassoc x im.
Proof. intros H. apply sassoc_filter_keep. left. exact H. Qed.

(* ---------------------------------------------------------------- the worlds *)

Variable cfn : fctx.      (* the context under which function and method bodies were converted *)

Definition tfunS (fb : name * (list name * stmts)) : name * (list name * stmts) :=
  match fb with (f, (ps, b)) => (f, (ps, fst (tr_stmts cfn b))) end.
Definition tmethS (mb : name * (name * (name * (list name * stmts)))) : name * (name * (name * (list name * stmts))) :=
  match mb with (t, (m, (r, (ps, b)))) => (t, (m, (r, (ps, fst (tr_stmts cfn b))))) end.

Lemma sassoc_tfunS f l : sassoc f (map tfunS l) =
  match sassoc f l with Some (ps, b) => Some (ps, fst (tr_stmts cfn b)) | None => None end.
Proof.
  induction l as [|[g [ps b]] l IH]; simpl; [reflexivity|].
  destruct (str_eqb f g); [reflexivity | exact IH].
Qed.

Lemma find_method_tmethS t m l : find_method t m (map tmethS l) =
  match find_method t m l with Some (r, (ps, b)) => Some (r, (ps, fst (tr_stmts cfn b))) | None => None end.
Proof.
  induction l as [|[t' [m' [r [ps b]]]] l IH]; simpl; [reflexivity|].
  destruct (str_eqb t t' && str_eqb m m')%bool; [reflexivity | exact IH].
Qed.

Record wrel (W W' : world) : Prop := {
  wr_imps : w_imps W = im;
  wr_imps' : w_imps W' = filter (keepf U) im;
  wr_funcs : w_funcs W' = map tfunS (w_funcs W);
  wr_methods : w_methods W' = map tmethS (w_methods W);
  wr_genv : Renv (w_genv W) (w_genv W');
  wr_cfn : imps cfn = im /\ forall x, ni im x = false -> in_scope x cfn = false;
  wr_gni : forall x, ni im x = false -> bound x (w_genv W) = false;
  wr_fgood : forall f ps b, sassoc f (w_funcs W) = Some (ps, b) ->
             forallb okp ps = true /\ goodv_ss okp okv b = true /\ incl (snd (tr_stmts cfn b)) U;
  wr_fnames : forall f, is_subst f = true -> sassoc f (w_funcs W) = None;
  wr_mgood : forall t m r ps b, find_method t m (w_methods W) = Some (r, (ps, b)) ->
             okp r = true /\ forallb okp ps = true /\ goodv_ss okp okv b = true /\ incl (snd (tr_stmts cfn b)) U;
  wr_twin : forall t m rb, find_method t m (w_methods W) = Some rb -> exported m = true ->
            find_method t (lower_first m) (w_methods W) = None }.

Lemma inv_cfn_genv W W' : wrel W W' -> inv cfn (w_genv W).
Proof.
  intros HW. destruct (wr_cfn _ _ HW) as [H1 H2]. split; [exact H1|].
  intros x Hx. rewrite (H2 x Hx), (wr_gni _ _ HW x Hx). reflexivity.
Qed.

Definition sim_e (n : nat) (W W' : world) : Prop :=
  forall e c en en' v tr e' u, tr_expr c e = (e', u) -> incl u U -> inv c en -> Renv en en' ->
  goodv_e okp okv e = true -> eval_e n Go W en e = Ok (v, tr) ->
  exists v', eval_e n XGo W' en' e' = Ok (v', tr) /\ R v v'.
Definition sim_args (n : nat) (W W' : world) : Prop :=
  forall es c en en' vs tr es' u, tr_args c es = (es', u) -> incl u U -> inv c en -> Renv en en' ->
  goodv_es okp okv es = true -> eval_es n Go W en es = Ok (vs, tr) ->
  exists vs', eval_es n XGo W' en' es' = Ok (vs', tr) /\ Forall2 R vs vs'.
Definition sim_s (n : nat) (W W' : world) : Prop :=
  forall s c en en' r en1 tr s' c1 u, tr_stmt c s = (s', c1, u) -> incl u U -> inv c en -> Renv en en' ->
  goodv_s okp okv s = true -> eval_s n Go W en s = Ok (r, en1, tr) ->
  exists r' en1', eval_s n XGo W' en' s' = Ok (r', en1', tr) /\ Ropt r r' /\ Renv en1 en1' /\ inv c1 en1.
Definition sim_ss (n : nat) (W W' : world) : Prop :=
  forall ss c en en' r en1 tr ss' u, tr_stmts c ss = (ss', u) -> incl u U -> inv c en -> Renv en en' ->
  goodv_ss okp okv ss = true -> eval_ss n Go W en ss = Ok (r, en1, tr) ->
  exists r' en1', eval_ss n XGo W' en' ss' = Ok (r', en1', tr) /\ Ropt r r' /\ Renv en1 en1'.

Lemma ret1_R r r' : Ropt r r' -> R (ret1 r) (ret1 r').
Proof. destruct 1; simpl; [constructor | assumption]. Qed.

Lemma R_clos_inv ps b ce v' : R (VClos ps b ce) v' ->
  exists ce' c1, v' = VClos ps (fst (tr_stmts c1 b)) ce' /\ forallb okp ps = true /\ goodv_ss okp okv b = true /\
                 Renv ce ce' /\ inv c1 ce /\ incl (snd (tr_stmts c1 b)) U.
Proof. intros H. inversion H; subst. eexists. eexists. eauto 10. Qed.

Lemma R_obj_inv t v v' : R (VObj t v) v' -> exists w, v' = VObj t w /\ R v w.
Proof. intros H. inversion H; subst. eauto. Qed.

Lemma R_int_inv z v' : R (VInt z) v' -> v' = VInt z.
Proof. intros H. inversion H; subst. reflexivity. Qed.

Lemma subst_unbound b en en' : Renv en en' -> is_subst b = true -> sassoc b en = None /\ sassoc b en' = None.
Proof.
  intros Hen Hb. pose proof (Renv_lookup en en' b Hen) as H.
  destruct (sassoc b en); [|auto]. destruct H as [Hok _]. unfold okv in Hok. rewrite Hb in Hok. discriminate.
Qed.

Lemma lookup_method_lower W W' t sel r ps b : wrel W W' ->
  find_method t sel (w_methods W) = Some (r, (ps, b)) ->
  lookup_method XGo W' t (lower_first sel) = Some (r, (ps, fst (tr_stmts cfn b))).
Proof.
  intros HW Hf. unfold lookup_method. rewrite (wr_methods _ _ HW), !find_method_tmethS.
  destruct (exported sel) eqn:Ex.
  - rewrite (wr_twin _ _ HW _ _ _ Hf Ex). rewrite (upper_lower _ Ex), Hf. reflexivity.
  - rewrite (lower_id _ Ex), Hf. reflexivity.
Qed.

Lemma incl_app_l {A} (a b c : list A) : incl (a ++ b) c -> incl a c.
Proof. intros H x Hx. apply H. apply in_or_app. auto. Qed.
Lemma incl_app_r {A} (a b c : list A) : incl (a ++ b) c -> incl b c.
Proof. intros H x Hx. apply H. apply in_or_app. auto. Qed.

Ltac inv H := inversion H; subst; clear H.

Opaque c25_xgo_builtins c25_print_funcs c25_fmt_path.

(* a function literal / lambda evaluates to related closures, whichever form the converter chose *)
Lemma clos_of_block c en en' ps body b' u :
  tr_block c body = (b', u) -> incl u U -> inv c en -> Renv en en' ->
  forallb okp ps = true -> goodv_ss okp okv body = true ->
  R (VClos ps body en) (VClos ps b' en').
Proof.
  intros Ht Hu Hi Hen Hp Hg. rewrite tr_block_stmts in Ht.
  replace b' with (fst (tr_stmts (push c) body)) by (rewrite Ht; reflexivity).
  apply R_clos with (c1 := push c); auto using inv_push. rewrite Ht. exact Hu.
Qed.

Lemma clos_of_exprs c en en' ps rs r' u :
  tr_exprs c rs = (r', u) -> incl u U -> inv c en -> Renv en en' ->
  forallb okp ps = true -> goodv_es okp okv rs = true ->
  R (VClos ps (SCons (SReturn rs) SNil) en) (VClos ps (SCons (SReturn r') SNil) en').
Proof.
  intros Ht Hu Hi Hen Hp Hg.
  assert (Hs : tr_stmts c (SCons (SReturn rs) SNil) = (SCons (SReturn r') SNil, u ++ [])).
  { simpl. rewrite Ht. reflexivity. }
  replace (SCons (SReturn r') SNil) with (fst (tr_stmts c (SCons (SReturn rs) SNil))) by (rewrite Hs; reflexivity).
  apply R_clos with (c1 := c); auto.
  - simpl. rewrite Hg. reflexivity.
  - rewrite Hs. simpl. rewrite app_nil_r. exact Hu.
Qed.

Lemma sim_e_step n W W' : wrel W W' -> sim_e n W W' -> sim_args n W W' -> sim_ss n W W' -> sim_e (S n) W W'.
Proof.
  intros HW IHe IHa IHss e c en en' v tr e' u Htr Hu Hi Hen Hg Hev.
  destruct e.
  - (* EInt *) simpl in *. inv Htr. inv Hev. eexists. split; [reflexivity | constructor].
  - simpl in *. inv Htr. inv Hev. eexists. split; [reflexivity | constructor].
  - (* EVar *) simpl in Htr. inv Htr. simpl in Hev |- *. pose proof (Renv_lookup _ _ x Hen) as Hl.
    destruct (sassoc x en) as [v0|].
    + inv Hev. destruct Hl as [_ [v' [H1 H2]]]. rewrite H1. eauto.
    + rewrite Hl. destruct (sassoc x (w_funcs W)) as [[ps b]|] eqn:Ef; [|discriminate]. inv Hev.
      rewrite (wr_funcs _ _ HW), sassoc_tfunS, Ef.
      destruct (wr_fgood _ _ HW _ _ _ Ef) as [Hp [Hb Hub]].
      eexists. split; [reflexivity|].
      apply R_clos; auto; [exact (wr_genv _ _ HW) | exact (inv_cfn_genv _ _ HW)].
  - (* EAdd *) simpl in Hg. apply andb_prop in Hg. destruct Hg as [Hg1 Hg2]. simpl in Htr.
    destruct (tr_expr c e1) as [a' u1] eqn:T1. destruct (tr_expr c e2) as [b' u2] eqn:T2. inv Htr.
    simpl in Hev |- *.
    destruct (eval_e n Go W en e1) as [[va ta]| |] eqn:Ea; try discriminate. destruct va; try discriminate.
    destruct (eval_e n Go W en e2) as [[vb tb]| |] eqn:Eb; try discriminate. destruct vb; try discriminate. inv Hev.
    destruct (IHe _ _ _ _ _ _ _ _ T1 (incl_app_l _ _ _ Hu) Hi Hen Hg1 Ea) as [va' [Ha Ra]]. apply R_int_inv in Ra. subst va'.
    destruct (IHe _ _ _ _ _ _ _ _ T2 (incl_app_r _ _ _ Hu) Hi Hen Hg2 Eb) as [vb' [Hb Rb]]. apply R_int_inv in Rb. subst vb'.
    rewrite Ha, Hb. eexists. split; [reflexivity | constructor].
  - (* ECall *) simpl in Hg. simpl in Htr. destruct (tr_args c args) as [args' u1] eqn:Ta. inv Htr.
    simpl in Hev |- *.
    destruct (eval_es n Go W en args) as [[vs t1]| |] eqn:Ea; try discriminate.
    destruct (IHa _ _ _ _ _ _ _ _ Ta Hu Hi Hen Hg Ea) as [vs' [Ha Rvs]]. rewrite Ha.
    pose proof (Renv_lookup _ _ f Hen) as Hl.
    destruct (sassoc f en) as [v0|].
    + destruct Hl as [_ [v0' [H1 H2]]]. rewrite H1.
      destruct v0 as [ | | | |ps b ce]; try discriminate.
      apply R_clos_inv in H2. destruct H2 as [ce' [c1 [-> [Hps [Hgb [Hce [Hic Huc]]]]]]].
      destruct (bind ps vs ce) as [e1|] eqn:Eb; [|discriminate].
      destruct (bind_R _ _ _ _ _ _ _ Rvs Hce Hps Hic Eb) as [e1' [Hb' [Re1 Hi1]]]. rewrite Hb'.
      destruct (eval_ss n Go W e1 b) as [[[r e2] t2]| |] eqn:Es; try discriminate. inv Hev.
      destruct (tr_stmts c1 b) as [b1 ub] eqn:Tb. simpl in *.
      destruct (IHss _ _ _ _ _ _ _ _ _ Tb Huc Hi1 Re1 Hgb Es) as [r' [e2' [Hs [Rr _]]]]. rewrite Hs.
      eexists. split; [reflexivity | apply ret1_R; exact Rr].
    + rewrite Hl. destruct (sassoc f (w_funcs W)) as [[ps b]|] eqn:Ef; [|discriminate].
      rewrite (wr_funcs _ _ HW), sassoc_tfunS, Ef.
      destruct (wr_fgood _ _ HW _ _ _ Ef) as [Hp [Hb Hub]].
      destruct (bind ps vs (w_genv W)) as [e1|] eqn:Eb; [|discriminate].
      destruct (bind_R _ _ _ _ _ _ _ Rvs (wr_genv _ _ HW) Hp (inv_cfn_genv _ _ HW) Eb) as [e1' [Hb' [Re1 Hi1]]]. rewrite Hb'.
      destruct (eval_ss n Go W e1 b) as [[[r e2] t2]| |] eqn:Es; try discriminate. inv Hev.
      destruct (tr_stmts cfn b) as [b1 ub] eqn:Tb. simpl in *.
      destruct (IHss _ _ _ _ _ _ _ _ _ Tb Hub Hi1 Re1 Hb Es) as [r' [e2' [Hs [Rr _]]]]. rewrite Hs.
      eexists. split; [reflexivity | apply ret1_R; exact Rr].
  - (* ESel *) simpl in Hg. simpl in Htr.
    destruct (sel_action c x sel) as [act u1] eqn:Sa. destruct (tr_args c args) as [args' u2] eqn:Ta.
    simpl in Hev.
    destruct (eval_es n Go W en args) as [[vs t1]| |] eqn:Ea; try discriminate.
    assert (Hu2 : incl u2 U) by (destruct act; inv Htr; eapply incl_app_r; eauto).
    assert (Hu1 : incl u1 U) by (destruct act; inv Htr; eapply incl_app_l; eauto).
    destruct (IHa _ _ _ _ _ _ _ _ Ta Hu2 Hi Hen Hg Ea) as [vs' [Ha Rvs]].
    pose proof (Renv_lookup _ _ x Hen) as Hl.
    destruct (sassoc x en) as [v0|] eqn:Ex.
    + destruct Hl as [Hok [v0' [H1 H2]]].
      assert (Hbd : bound x en = true) by (unfold bound; rewrite Ex; reflexivity).
      rewrite (sel_action_bound _ _ _ sel Hi Hbd) in Sa. inv Sa. inv Htr.
      destruct v0 as [ | | |t pv| ]; try discriminate.
      apply R_obj_inv in H2. destruct H2 as [pv' [-> Rpv]].
      unfold lookup_method in Hev.
      destruct (find_method t sel (w_methods W)) as [[r [ps b]]|] eqn:Ef; [|discriminate].
      destruct (wr_mgood _ _ HW _ _ _ _ _ Ef) as [Hr [Hp [Hb Hub]]].
      destruct (bind ps vs (w_genv W)) as [e1|] eqn:Eb; [|discriminate].
      destruct (bind_R _ _ _ _ _ _ _ Rvs (wr_genv _ _ HW) Hp (inv_cfn_genv _ _ HW) Eb) as [e1' [Hb' [Re1 Hi1]]].
      destruct (eval_ss n Go W ((r, VObj t pv) :: e1) b) as [[[rv e2] t2]| |] eqn:Es; try discriminate. inv Hev.
      assert (Re : Renv ((r, VObj t pv) :: e1) ((r, VObj t pv') :: e1'))
        by (constructor; [apply okp_okv; assumption | constructor; assumption | assumption]).
      assert (Hi2 : inv cfn ((r, VObj t pv) :: e1)) by (apply inv_cons_ni; [assumption | apply okp_ni; assumption]).
      destruct (tr_stmts cfn b) as [b1 ub] eqn:Tb. simpl in *.
      destruct (IHss _ _ _ _ _ _ _ _ _ Tb Hub Hi2 Re Hb Es) as [r' [e2' [Hs [Rr _]]]].
      rewrite Ha, H1, (lookup_method_lower _ _ _ _ _ _ _ HW Ef), Tb, Hb'. simpl. rewrite Hs.
      eexists. split; [reflexivity | apply ret1_R; exact Rr].
    + rewrite (wr_imps _ _ HW) in Hev.
      destruct (sassoc x im) as [path|] eqn:Ei; [|discriminate].
      destruct (pkg_member Go sel) as [g|] eqn:Eg; [|discriminate].
      apply pkg_member_go in Eg. destruct Eg as [Hex ->].
      unfold ext_call, ext_event in Hev. rewrite (renders_R _ _ Rvs) in Hev. cbv zeta beta iota in Hev. inv Hev.
      assert (Hbd : bound x en = false) by (unfold bound; rewrite Ex; reflexivity).
      rewrite (sel_action_unbound _ _ _ sel _ Hi Hbd Ei) in Sa.
      destruct (fmt_to_builtin path sel) as [b|] eqn:Efb.
      * inv Sa. inv Htr.
        destruct (fmt_to_builtin_sound _ _ _ Efb Hex) as [Hpath [Hbt Hsub]]. subst path.
        destruct (subst_unbound _ _ _ Hen Hsub) as [_ Hb'].
        simpl. rewrite Ha, Hb', (wr_funcs _ _ HW), sassoc_tfunS, (wr_fnames _ _ HW _ Hsub), Hbt.
        unfold ext_call, ext_event. eexists. split; [reflexivity | constructor].
      * inv Sa. inv Htr.
        assert (Hxu : In x U) by (apply Hu1; simpl; auto).
        simpl. rewrite Ha, Hl, (wr_imps' _ _ HW), (used_agree _ Hxu), Ei, (pkg_member_xgo_lower _ Hex).
        unfold ext_call, ext_event. eexists. split; [reflexivity | constructor].
  - (* EField *) simpl in Htr. destruct (sel_action c x f) as [act u1] eqn:Sa. simpl in Hev.
    pose proof (Renv_lookup _ _ x Hen) as Hl.
    destruct (sassoc x en) as [v0|] eqn:Ex.
    + destruct Hl as [Hok [v0' [H1 H2]]].
      assert (Hbd : bound x en = true) by (unfold bound; rewrite Ex; reflexivity).
      rewrite (sel_action_bound _ _ _ f Hi Hbd) in Sa. inv Sa. inv Htr.
      destruct v0 as [ | | |t pv| ]; try discriminate. inv Hev.
      apply R_obj_inv in H2. destruct H2 as [pv' [-> Rpv]].
      simpl. rewrite H1. eauto.
    + rewrite (wr_imps _ _ HW) in Hev.
      destruct (sassoc x im) as [path|] eqn:Ei; [|discriminate].
      destruct (pkg_member Go f) as [g|] eqn:Eg; [|discriminate].
      apply pkg_member_go in Eg. destruct Eg as [Hex ->]. inv Hev.
      assert (Hbd : bound x en = false) by (unfold bound; rewrite Ex; reflexivity).
      rewrite (sel_action_unbound _ _ _ f _ Hi Hbd Ei) in Sa.
      destruct (fmt_to_builtin path f) as [b|] eqn:Efb.
      * inv Sa. inv Htr.
        destruct (fmt_to_builtin_sound _ _ _ Efb Hex) as [Hpath [Hbt Hsub]]. subst path.
        destruct (subst_unbound _ _ _ Hen Hsub) as [_ Hb'].
        simpl. rewrite Hb', (wr_funcs _ _ HW), sassoc_tfunS, (wr_fnames _ _ HW _ Hsub), Hbt.
        eexists. split; [reflexivity | constructor].
      * inv Sa. inv Htr.
        assert (Hxu : In x U) by (apply Hu; simpl; auto).
        simpl. rewrite Hl, (wr_imps' _ _ HW), (used_agree _ Hxu), Ei, (pkg_member_xgo_same _ Hex).
        eexists. split; [reflexivity | constructor].
  - (* EFuncLit *) simpl in Hg. apply andb_prop in Hg. destruct Hg as [Hp Hb]. simpl in Htr.
    destruct (tr_block c body) as [b' ub] eqn:Tb. inv Htr. simpl in Hev |- *. inv Hev.
    eexists. split; [reflexivity | eapply clos_of_block; eauto].
  - (* ELambda *) simpl in Hg. apply andb_prop in Hg. destruct Hg as [Hp Hb]. simpl in Htr.
    destruct (tr_exprs c rhs) as [r' ur] eqn:Tr. inv Htr. simpl in Hev |- *. inv Hev.
    eexists. split; [reflexivity | eapply clos_of_exprs; eauto].
  - (* ELambda2 *) simpl in Hg. apply andb_prop in Hg. destruct Hg as [Hp Hb]. simpl in Htr.
    destruct (tr_block c body) as [b' ub] eqn:Tb. inv Htr. simpl in Hev |- *. inv Hev.
    eexists. split; [reflexivity | eapply clos_of_block; eauto].
  - (* ENew *) simpl in Hg. simpl in Htr. destruct (tr_expr c e) as [e1' u1] eqn:T1. inv Htr.
    simpl in Hev |- *.
    destruct (eval_e n Go W en e) as [[v1 t1]| |] eqn:Ea; try discriminate. inv Hev.
    destruct (IHe _ _ _ _ _ _ _ _ T1 Hu Hi Hen Hg Ea) as [v1' [Ha Ra]]. rewrite Ha.
    eexists. split; [reflexivity | constructor; assumption].
Qed.

Lemma sim_args_step n W W' : sim_e n W W' -> sim_args n W W' -> sim_args (S n) W W'.
Proof.
  intros IHe IHa es c en en' vs tr es' u Htr Hu Hi Hen Hg Hev.
  destruct es as [|e t].
  - simpl in *. inv Htr. inv Hev. eexists. split; [reflexivity | constructor].
  - simpl in Hg. apply andb_prop in Hg. destruct Hg as [Hg1 Hg2]. simpl in Hev.
    destruct (eval_e n Go W en e) as [[v1 t1]| |] eqn:Ea; try discriminate.
    destruct (eval_es n Go W en t) as [[vs1 t2]| |] eqn:Eb; try discriminate. inv Hev.
    simpl in Htr.
    destruct (match e with
              | EFuncLit ps res body =>
                  match body with
                  | SCons (SReturn rs) SNil =>
                      if lam_ok res rs then let '(r', u0) := tr_exprs c rs in (ELambda ps r', u0)
                      else let '(b', u0) := tr_block c body in (ELambda2 ps b', u0)
                  | _ => let '(b', u0) := tr_block c body in (ELambda2 ps b', u0)
                  end
              | _ => tr_expr c e
              end) as [e1' u1] eqn:T1.
    destruct (tr_args c t) as [t' u2] eqn:T2. inv Htr.
    destruct (IHa _ _ _ _ _ _ _ _ T2 (incl_app_r _ _ _ Hu) Hi Hen Hg2 Eb) as [vs1' [Hb Rb]].
    assert (Hu1 : incl u1 U) by (eapply incl_app_l; eauto).
    assert (He : exists v1', eval_e n XGo W' en' e1' = Ok (v1', t1) /\ R v1 v1').
    { destruct e; try (eapply IHe; eauto; fail).
      (* a function literal argument *)
      destruct n as [|n']; [discriminate|]. simpl in Ea. inv Ea.
      simpl in Hg1. apply andb_prop in Hg1. destruct Hg1 as [Hp Hgb].
      assert (Hblock : forall b' u0, tr_block c body = (b', u0) -> (ELambda2 ps b', u0) = (e1', u1) ->
                exists v1', eval_e (S n') XGo W' en' e1' = Ok (v1', []) /\ R (VClos ps body en) v1').
      { intros b' u0 Tb Heq. inv Heq. eexists. split; [reflexivity | eapply clos_of_block; eauto]. }
      destruct body as [|s0 rest]; [destruct (tr_block c SNil) eqn:Tb; eapply Hblock; eauto|].
      destruct s0; try (destruct (tr_block c _) eqn:Tb; eapply Hblock; eauto; fail).
      destruct rest; [|destruct (tr_block c _) eqn:Tb; eapply Hblock; eauto].
      destruct (lam_ok res r); [|destruct (tr_block c _) eqn:Tb; eapply Hblock; eauto].
      destruct (tr_exprs c r) as [r' ur] eqn:Tr. inv T1.
      eexists. split; [reflexivity|]. eapply clos_of_exprs; eauto.
      simpl in Hgb. rewrite andb_true_r in Hgb. exact Hgb. }
    destruct He as [v1' [Ha Ra]].
    simpl. rewrite Ha, Hb. eexists. split; [reflexivity | constructor; assumption].
Qed.

Lemma sim_s_step n W W' : sim_e n W W' -> sim_ss n W W' -> sim_s (S n) W W'.
Proof.
  intros IHe IHss s c en en' r en1 tr s' c1 u Htr Hu Hi Hen Hg Hev.
  destruct s as [cmd e | x e | x e | cnd thn els | r0 | b].
  - (* SExpr *) simpl in Hg. simpl in Htr. destruct (tr_expr c e) as [e' u1] eqn:T1. inv Htr.
    simpl in Hev |- *.
    destruct (eval_e n Go W en e) as [[v1 t1]| |] eqn:Ea; try discriminate. inv Hev.
    destruct (IHe _ _ _ _ _ _ _ _ T1 Hu Hi Hen Hg Ea) as [v1' [Ha Ra]]. rewrite Ha.
    do 2 eexists. split; [reflexivity|]. split; [constructor|]. split; assumption.
  - (* SDefine *) simpl in Hg. apply andb_prop in Hg. destruct Hg as [Hx Hg]. simpl in Htr.
    destruct (tr_expr c e) as [e' u1] eqn:T1. inv Htr. simpl in Hev |- *.
    destruct (eval_e n Go W en e) as [[v1 t1]| |] eqn:Ea; try discriminate. inv Hev.
    destruct (IHe _ _ _ _ _ _ _ _ T1 Hu Hi Hen Hg Ea) as [v1' [Ha Ra]]. rewrite Ha.
    do 2 eexists. split; [reflexivity|]. split; [constructor|]. split.
    + constructor; [apply okp_okv; assumption | assumption | assumption].
    + apply inv_cons_ni; [assumption | apply okp_ni; assumption].
  - (* SVar *) simpl in Hg. apply andb_prop in Hg. destruct Hg as [Hx Hg]. simpl in Htr.
    destruct (tr_expr c e) as [e' u1] eqn:T1. inv Htr. simpl in Hev |- *.
    destruct (eval_e n Go W en e) as [[v1 t1]| |] eqn:Ea; try discriminate. inv Hev.
    destruct (IHe _ _ _ _ _ _ _ _ T1 Hu Hi Hen Hg Ea) as [v1' [Ha Ra]]. rewrite Ha.
    do 2 eexists. split; [reflexivity|]. split; [constructor|]. split.
    + constructor; assumption.
    + apply inv_insert. assumption.
  - (* SIf *) simpl in Hg. apply andb_prop in Hg. destruct Hg as [Hg Hg3]. apply andb_prop in Hg. destruct Hg as [Hg1 Hg2].
    simpl in Htr.
    destruct (tr_expr (push c) cnd) as [c' u1] eqn:T1.
    destruct (tr_block (push c) thn) as [thn' u2] eqn:T2.
    destruct (tr_block (push c) els) as [els' u3] eqn:T3. inv Htr.
    pose proof (inv_push _ _ Hi) as Hip.
    simpl in Hev |- *.
    destruct (eval_e n Go W en cnd) as [[v1 t1]| |] eqn:Ea; try discriminate.
    destruct v1 as [z| | | | ]; try discriminate.
    destruct (IHe _ _ _ _ _ _ _ _ T1 (incl_app_l _ _ _ Hu) Hip Hen Hg1 Ea) as [v1' [Ha Ra]]. apply R_int_inv in Ra. subst v1'. rewrite Ha.
    pose proof (incl_app_r _ _ _ Hu) as Hu23.
    destruct (eval_ss n Go W en (if Z.eqb z 0 then els else thn)) as [[[r1 e2] t2]| |] eqn:Es; try discriminate. inv Hev.
    rewrite tr_block_stmts in T2, T3.
    destruct (Z.eqb z 0).
    + destruct (IHss _ _ _ _ _ _ _ _ _ T3 (incl_app_r _ _ _ Hu23) (inv_push _ _ Hip) Hen Hg3 Es) as [r' [e2' [Hs [Rr _]]]].
      rewrite Hs. do 2 eexists. split; [reflexivity|]. split; [assumption|]. split; assumption.
    + destruct (IHss _ _ _ _ _ _ _ _ _ T2 (incl_app_l _ _ _ Hu23) (inv_push _ _ Hip) Hen Hg2 Es) as [r' [e2' [Hs [Rr _]]]].
      rewrite Hs. do 2 eexists. split; [reflexivity|]. split; [assumption|]. split; assumption.
  - (* SReturn *) simpl in Hg. simpl in Htr. destruct (tr_exprs c r0) as [r1 u1] eqn:T1. injection Htr as Es Ec Eu. subst s' c1 u. simpl in Hev.
    destruct r0 as [|e0 rest].
    + simpl in T1. inv T1. inv Hev. simpl. do 2 eexists. split; [reflexivity|]. split; [constructor; constructor|]. split; assumption.
    + destruct rest; [|discriminate]. simpl in Hg. rewrite andb_true_r in Hg.
      simpl in T1. destruct (tr_expr c e0) as [e0' u0] eqn:T0. inv T1.
      destruct (eval_e n Go W en e0) as [[v1 t1]| |] eqn:Ea; try discriminate. inv Hev.
      rewrite app_nil_r in Hu.
      destruct (IHe _ _ _ _ _ _ _ _ T0 Hu Hi Hen Hg Ea) as [v1' [Ha Ra]].
      simpl. rewrite Ha. do 2 eexists. split; [reflexivity|]. split; [constructor; assumption|]. split; assumption.
  - (* SBlock *) simpl in Hg. simpl in Htr. destruct (tr_block c b) as [b' u1] eqn:T1. inv Htr. simpl in Hev |- *.
    destruct (eval_ss n Go W en b) as [[[r1 e2] t2]| |] eqn:Es; try discriminate. inv Hev.
    rewrite tr_block_stmts in T1.
    destruct (IHss _ _ _ _ _ _ _ _ _ T1 Hu (inv_push _ _ Hi) Hen Hg Es) as [r' [e2' [Hs [Rr _]]]]. rewrite Hs.
    do 2 eexists. split; [reflexivity|]. split; [assumption|]. split; assumption.
Qed.

Lemma sim_ss_step n W W' : sim_s n W W' -> sim_ss n W W' -> sim_ss (S n) W W'.
Proof.
  intros IHs IHss ss c en en' r en1 tr ss' u Htr Hu Hi Hen Hg Hev.
  destruct ss as [|s t].
  - simpl in *. inv Htr. inv Hev. do 2 eexists. split; [reflexivity|]. split; [constructor | assumption].
  - simpl in Hg. apply andb_prop in Hg. destruct Hg as [Hg1 Hg2]. simpl in Htr.
    destruct (tr_stmt c s) as [[s' c1] u1] eqn:T1. destruct (tr_stmts c1 t) as [t' u2] eqn:T2. inv Htr.
    simpl in Hev |- *.
    destruct (eval_s n Go W en s) as [[[r1 e1] t1]| |] eqn:Ea; try discriminate.
    destruct (IHs _ _ _ _ _ _ _ _ _ _ T1 (incl_app_l _ _ _ Hu) Hi Hen Hg1 Ea) as [r1' [e1' [Ha [Rr [Re Hi1]]]]]. rewrite Ha.
    destruct r1 as [v1|].
    + inv Hev. inversion Rr; subst. do 2 eexists. split; [reflexivity|]. split; [constructor; assumption | assumption].
    + inversion Rr; subst.
      destruct (eval_ss n Go W e1 t) as [[[r2 e2] t2]| |] eqn:Eb; try discriminate. inv Hev.
      destruct (IHss _ _ _ _ _ _ _ _ _ T2 (incl_app_r _ _ _ Hu) Hi1 Re Hg2 Eb) as [r2' [e2' [Hb [Rr2 Re2]]]]. rewrite Hb.
      do 2 eexists. split; [reflexivity|]. split; assumption.
Qed.

Lemma sim_all n : forall W W', wrel W W' ->
  sim_e n W W' /\ sim_args n W W' /\ sim_s n W W' /\ sim_ss n W W'.
Proof.
  induction n as [|n IH]; intros W W' HW.
  - unfold sim_e, sim_args, sim_s, sim_ss. repeat split; intros; simpl in *; congruence.
  - destruct (IH W W' HW) as [He [Ha [Hs Hss]]].
    split; [apply sim_e_step; assumption|].
    split; [apply sim_args_step; assumption|].
    split; [apply sim_s_step; assumption | apply sim_ss_step; assumption].
Qed.

End SimS.
Transparent c25_xgo_builtins c25_print_funcs c25_fmt_path.

(* ================================================================ the two passes of formatFile, structurally *)

Lemma funcs_of_pass1 : forall ds c, funcs_of (fst (fst (pass1 c ds))) = funcs_of ds.
Proof.
  induction ds as [|d t IH]; intros c; [reflexivity|].
  destruct d as [nm path | x e | ty | f0 ps0 res0 body | ty r0 m0 ps0 res0 body]; simpl.
  - specialize (IH (Fctx (imps c ++ [(nm, path)]) (scopes c))). destruct (pass1 _ t) as [[t' c2] u]. simpl in *. exact IH.
  - destruct (tr_expr c e) as [e' u1]. specialize (IH (insert x c)). destruct (pass1 _ t) as [[t' c2] u]. simpl in *. exact IH.
  - specialize (IH c). destruct (pass1 c t) as [[t' c2] u]. simpl in *. exact IH.
  - specialize (IH c). destruct (pass1 c t) as [[t' c2] u]. simpl in *. rewrite IH. reflexivity.
  - specialize (IH c). destruct (pass1 c t) as [[t' c2] u]. simpl in *. exact IH.
Qed.

Lemma methods_of_pass1 : forall ds c, methods_of (fst (fst (pass1 c ds))) = methods_of ds.
Proof.
  induction ds as [|d t IH]; intros c; [reflexivity|].
  destruct d as [nm path | x e | ty | f0 ps0 res0 body | ty r0 m0 ps0 res0 body]; simpl.
  - specialize (IH (Fctx (imps c ++ [(nm, path)]) (scopes c))). destruct (pass1 _ t) as [[t' c2] u]. simpl in *. exact IH.
  - destruct (tr_expr c e) as [e' u1]. specialize (IH (insert x c)). destruct (pass1 _ t) as [[t' c2] u]. simpl in *. exact IH.
  - specialize (IH c). destruct (pass1 c t) as [[t' c2] u]. simpl in *. exact IH.
  - specialize (IH c). destruct (pass1 c t) as [[t' c2] u]. simpl in *. exact IH.
  - specialize (IH c). destruct (pass1 c t) as [[t' c2] u]. simpl in *. rewrite IH. reflexivity.
Qed.

Lemma imports_of_pass1 : forall ds c, imports_of (fst (fst (pass1 c ds))) = imports_of ds.
Proof.
  induction ds as [|d t IH]; intros c; [reflexivity|].
  destruct d as [nm path | x e | ty | f0 ps0 res0 body | ty r0 m0 ps0 res0 body]; simpl.
  - specialize (IH (Fctx (imps c ++ [(nm, path)]) (scopes c))). destruct (pass1 _ t) as [[t' c2] u]. simpl in *. rewrite IH. reflexivity.
  - destruct (tr_expr c e) as [e' u1]. specialize (IH (insert x c)). destruct (pass1 _ t) as [[t' c2] u]. simpl in *. exact IH.
  - specialize (IH c). destruct (pass1 c t) as [[t' c2] u]. simpl in *. exact IH.
  - specialize (IH c). destruct (pass1 c t) as [[t' c2] u]. simpl in *. exact IH.
  - specialize (IH c). destruct (pass1 c t) as [[t' c2] u]. simpl in *. exact IH.
Qed.

Lemma funcs_of_pass2 c : forall ds, funcs_of (fst (pass2 c ds)) = map (tfunS (push c)) (funcs_of ds).
Proof.
  induction ds as [|d t IH]; [reflexivity|]. simpl. destruct (pass2 c t) as [t' u2]. simpl in IH.
  destruct d as [nm path | x e | ty | f0 ps0 res0 body | ty r0 m0 ps0 res0 body]; simpl; try exact IH.
  rewrite tr_block_stmts. destruct (tr_stmts (push c) body) as [b' u]. simpl. rewrite IH. reflexivity.
  destruct (tr_block c body) as [b' u]. simpl. exact IH.
Qed.

Lemma methods_of_pass2 c : forall ds, methods_of (fst (pass2 c ds)) = map (tmethS (push c)) (methods_of ds).
Proof.
  induction ds as [|d t IH]; [reflexivity|]. simpl. destruct (pass2 c t) as [t' u2]. simpl in IH.
  destruct d as [nm path | x e | ty | f0 ps0 res0 body | ty r0 m0 ps0 res0 body]; simpl; try exact IH.
  destruct (tr_block c body) as [b' u]. simpl. exact IH.
  rewrite tr_block_stmts. destruct (tr_stmts (push c) body) as [b' u]. simpl. rewrite IH. reflexivity.
Qed.

Lemma imports_of_pass2 c : forall ds, imports_of (fst (pass2 c ds)) = imports_of ds.
Proof.
  induction ds as [|d t IH]; [reflexivity|]. simpl. destruct (pass2 c t) as [t' u2]. simpl in IH.
  destruct d as [nm path | x e | ty | f0 ps0 res0 body | ty r0 m0 ps0 res0 body]; simpl; rewrite ?IH; try reflexivity.
  destruct (tr_block c body); simpl; exact IH.
  destruct (tr_block c body); simpl; exact IH.
Qed.

Lemma pass2_used_func c f ps res b : forall ds, In (DFunc f ps res b) ds -> incl (snd (tr_stmts (push c) b)) (snd (pass2 c ds)).
Proof.
  induction ds as [|d t IH]; intros Hin; [destruct Hin|].
  simpl. destruct (pass2 c t) as [t' u2] eqn:E. destruct Hin as [-> | Hin].
  - rewrite tr_block_stmts. destruct (tr_stmts (push c) b) as [b' u]. simpl. apply incl_appl, incl_refl.
  - specialize (IH Hin). simpl in IH.
    destruct d as [nm path | x e | ty | f0 ps0 res0 body | ty r0 m0 ps0 res0 body]; simpl; try exact IH; try (apply incl_appr; exact IH).
    destruct (tr_block c body); simpl; apply incl_appr; exact IH.
    destruct (tr_block c body); simpl; apply incl_appr; exact IH.
Qed.

Lemma pass2_used_method c ty1 r m ps res b : forall ds, In (DMethod ty1 r m ps res b) ds -> incl (snd (tr_stmts (push c) b)) (snd (pass2 c ds)).
Proof.
  induction ds as [|d t IH]; intros Hin; [destruct Hin|].
  simpl. destruct (pass2 c t) as [t' u2] eqn:E. destruct Hin as [-> | Hin].
  - rewrite tr_block_stmts. destruct (tr_stmts (push c) b) as [b' u]. simpl. apply incl_appl, incl_refl.
  - specialize (IH Hin). simpl in IH.
    destruct d as [nm path | x e | ty | f0 ps0 res0 body | ty r0 m0 ps0 res0 body]; simpl; try exact IH; try (apply incl_appr; exact IH).
    destruct (tr_block c body); simpl; apply incl_appr; exact IH.
    destruct (tr_block c body); simpl; apply incl_appr; exact IH.
Qed.

Lemma in_pass1_func f ps res b : forall ds c, In (DFunc f ps res b) ds -> In (DFunc f ps res b) (fst (fst (pass1 c ds))).
Proof.
  induction ds as [|d t IH]; intros c Hin; [destruct Hin|].
  destruct d as [nm path | x e | ty | f0 ps0 res0 body | ty r0 m0 ps0 res0 body]; simpl.
  - specialize (IH (Fctx (imps c ++ [(nm, path)]) (scopes c))). destruct (pass1 _ t) as [[t' c2] u]. simpl in *.
    destruct Hin as [H | H]; [discriminate | auto].
  - destruct (tr_expr c e) as [e' u1]. specialize (IH (insert x c)). destruct (pass1 _ t) as [[t' c2] u]. simpl in *.
    destruct Hin as [H | H]; [discriminate | auto].
  - specialize (IH c). destruct (pass1 c t) as [[t' c2] u]. simpl in *. destruct Hin as [H | H]; [discriminate | auto].
  - specialize (IH c). destruct (pass1 c t) as [[t' c2] u]. simpl in *. destruct Hin as [H | H]; [left; exact H | auto].
  - specialize (IH c). destruct (pass1 c t) as [[t' c2] u]. simpl in *. destruct Hin as [H | H]; [discriminate | auto].
Qed.

Lemma in_pass1_method ty1 r m ps res b : forall ds c, In (DMethod ty1 r m ps res b) ds -> In (DMethod ty1 r m ps res b) (fst (fst (pass1 c ds))).
Proof.
  induction ds as [|d t IH]; intros c Hin; [destruct Hin|].
  destruct d as [nm path | x e | ty | f0 ps0 res0 body | ty r0 m0 ps0 res0 body]; simpl.
  - specialize (IH (Fctx (imps c ++ [(nm, path)]) (scopes c))). destruct (pass1 _ t) as [[t' c2] u]. simpl in *.
    destruct Hin as [H | H]; [discriminate | auto].
  - destruct (tr_expr c e) as [e' u1]. specialize (IH (insert x c)). destruct (pass1 _ t) as [[t' c2] u]. simpl in *.
    destruct Hin as [H | H]; [discriminate | auto].
  - specialize (IH c). destruct (pass1 c t) as [[t' c2] u]. simpl in *. destruct Hin as [H | H]; [discriminate | auto].
  - specialize (IH c). destruct (pass1 c t) as [[t' c2] u]. simpl in *. destruct Hin as [H | H]; [discriminate | auto].
  - specialize (IH c). destruct (pass1 c t) as [[t' c2] u]. simpl in *. destruct Hin as [H | H]; [left; exact H | auto].
Qed.

Lemma init_vars_pass2 n md c : forall l W g tr, init_vars n md W (fst (pass2 c l)) g tr = init_vars n md W l g tr.
Proof.
  induction l as [|d t IH]; intros W g tr; [reflexivity|].
  simpl. destruct (pass2 c t) as [t' u2] eqn:E. simpl in IH.
  destruct d as [nm path | x e | ty | f0 ps0 res0 body | ty r0 m0 ps0 res0 body]; simpl; try apply IH.
  - destruct (eval_e n md _ g e) as [[v t1]| |]; try reflexivity. apply IH.
  - destruct (tr_block c body); simpl; apply IH.
  - destruct (tr_block c body); simpl; apply IH.
Qed.

Lemma imports_first_rest d t : imports_first (d :: t) = true -> is_import d = false -> imports_first t = true.
Proof.
  intros Hi Hd. pose proof (imports_first_tail d t Hi Hd) as Hn. simpl in Hn. rewrite Hd in Hn. simpl in Hn.
  destruct t as [|d0 t0]; [reflexivity|].
  simpl in Hn. apply andb_prop in Hn. destruct Hn as [H0 Hn].
  destruct d0; simpl in *; try discriminate;
    (rewrite (forallb_eq _ (fun d => negb (is_import d))); [rewrite Hn; reflexivity | intros z; destruct z; reflexivity]).
Qed.

(* the final context of pass1: all imports, and only package variables (no import name) in scope *)
Lemma pass1_ctx im okv' okf : forall ds c, imports_first ds = true -> imps c ++ imports_of ds = im ->
  (forall x, ni im x = false -> in_scope x c = false) ->
  forallb (goodv_decl (okp im) okv' okf) ds = true ->
  imps (snd (fst (pass1 c ds))) = im /\ (forall x, ni im x = false -> in_scope x (snd (fst (pass1 c ds))) = false).
Proof.
  induction ds as [|d t IH]; intros c Hi Him Hs Hg.
  - simpl in *. rewrite app_nil_r in Him. auto.
  - simpl in Hg. apply andb_prop in Hg. destruct Hg as [Hgd Hg].
    destruct d as [nm path | x e | ty | f0 ps0 res0 body | ty r0 m0 ps0 res0 body]; simpl.
    + simpl in Hi, Him.
      set (c1 := Fctx (imps c ++ [(nm, path)]) (scopes c)).
      assert (Him1 : imps c1 ++ imports_of t = im) by (unfold c1; simpl; rewrite <- app_assoc; exact Him).
      destruct (IH c1 Hi Him1 Hs Hg) as [H1 H2]. destruct (pass1 c1 t) as [[t' c2] u]. simpl in *. auto.
    + assert (Hi' : imports_first t = true).
      { apply (imports_first_rest _ _ Hi). reflexivity. }
      simpl in Hgd. apply andb_prop in Hgd. destruct Hgd as [Hx _].
      destruct (tr_expr c e) as [e' u1].
      assert (Hs' : forall y, ni im y = false -> in_scope y (insert x c) = false).
      { intros y Hy. rewrite in_scope_insert, (Hs y Hy), orb_false_r.
        destruct (str_eqb y x) eqn:E; [|reflexivity]. apply str_eqb_eq in E. subst.
        apply okp_ni in Hx. congruence. }
      assert (Him' : imps (insert x c) ++ imports_of t = im) by (rewrite imps_insert; exact Him).
      destruct (IH (insert x c) Hi' Him' Hs' Hg) as [H1 H2]. destruct (pass1 (insert x c) t) as [[t' c2] u]. simpl in *. auto.
    + assert (Hi' : imports_first t = true).
      { apply (imports_first_rest _ _ Hi). reflexivity. }
      destruct (IH c Hi' Him Hs Hg) as [H1 H2]. destruct (pass1 c t) as [[t' c2] u]. simpl in *. auto.
    + assert (Hi' : imports_first t = true).
      { apply (imports_first_rest _ _ Hi). reflexivity. }
      destruct (IH c Hi' Him Hs Hg) as [H1 H2]. destruct (pass1 c t) as [[t' c2] u]. simpl in *. auto.
    + assert (Hi' : imports_first t = true).
      { apply (imports_first_rest _ _ Hi). reflexivity. }
      destruct (IH c Hi' Him Hs Hg) as [H1 H2]. destruct (pass1 c t) as [[t' c2] u]. simpl in *. auto.
Qed.

(* ================================================================ the program level *)

Definition gni (im : list (name * str)) (g : env) : Prop := forall x, ni im x = false -> bound x g = false.

Lemma scope_safe_in p d : scope_safe p = true -> In d (pdecls p) ->
  goodv_decl (okp (imports_of (pdecls p))) okv (fun f => negb (is_subst f)) d = true.
Proof. unfold scope_safe. intros H Hin. rewrite forallb_forall in H. exact (H d Hin). Qed.

Lemma wrel_prog p U cF g g' :
  scope_safe p = true -> no_case_twin p = true ->
  imps cF = imports_of (pdecls p) -> (forall x, ni (imports_of (pdecls p)) x = false -> in_scope x cF = false) ->
  (forall f ps res b, In (DFunc f ps res b) (pdecls p) -> incl (snd (tr_stmts (push cF) b)) U) ->
  (forall ty r m ps res b, In (DMethod ty r m ps res b) (pdecls p) -> incl (snd (tr_stmts (push cF) b)) U) ->
  Renv (imports_of (pdecls p)) U g g' -> gni (imports_of (pdecls p)) g ->
  wrel (imports_of (pdecls p)) U (push cF)
       (World (imports_of (pdecls p)) (funcs_of (pdecls p)) (methods_of (pdecls p)) g)
       (World (filter (keepf U) (imports_of (pdecls p))) (map (tfunS (push cF)) (funcs_of (pdecls p)))
              (map (tmethS (push cF)) (methods_of (pdecls p))) g').
Proof.
  intros Hs Ht Hc1 Hc2 HuF HuM Hg Hgn.
  constructor; simpl; try reflexivity; try assumption.
  - split; [exact Hc1 | exact Hc2].
  - intros f ps b Hf. apply sassoc_in in Hf. apply funcs_of_in in Hf. destruct Hf as [res Hin].
    pose proof (scope_safe_in _ _ Hs Hin) as Hd. simpl in Hd.
    apply andb_prop in Hd. destruct Hd as [Hd Hb]. apply andb_prop in Hd. destruct Hd as [_ Hp].
    split; [exact Hp|]. split; [exact Hb | eapply HuF; eauto].
  - intros f Hsub. destruct (sassoc f (funcs_of (pdecls p))) as [[ps b]|] eqn:Ef; [|reflexivity].
    apply sassoc_in in Ef. apply funcs_of_in in Ef. destruct Ef as [res Hin].
    pose proof (scope_safe_in _ _ Hs Hin) as Hd. simpl in Hd.
    apply andb_prop in Hd. destruct Hd as [Hd _]. apply andb_prop in Hd. destruct Hd as [Hf _].
    rewrite Hsub in Hf. discriminate.
  - intros t m r ps b Hf. apply find_method_in in Hf. apply methods_of_in in Hf. destruct Hf as [res Hin].
    pose proof (scope_safe_in _ _ Hs Hin) as Hd. simpl in Hd.
    apply andb_prop in Hd. destruct Hd as [Hd Hb]. apply andb_prop in Hd. destruct Hd as [Hr Hp].
    split; [exact Hr|]. split; [exact Hp|]. split; [exact Hb | eapply HuM; eauto].
  - intros t m [r [ps b]] Hf Hex. unfold no_case_twin in Ht. rewrite forallb_forall in Ht.
    apply find_method_in in Hf. specialize (Ht _ Hf). simpl in Ht. rewrite Hex in Ht. simpl in Ht.
    destruct (find_method t (lower_first m) (methods_of (pdecls p))); [discriminate | reflexivity].
Qed.

Lemma gni_cons im g x v : gni im g -> ni im x = true -> gni im ((x, v) :: g).
Proof.
  intros Hg Hx y Hy. rewrite bound_cons, (Hg y Hy), orb_false_r.
  destruct (str_eqb y x) eqn:E; [|reflexivity]. apply str_eqb_eq in E. subst. congruence.
Qed.

Lemma init_sim n p U cF :
  scope_safe p = true -> no_case_twin p = true ->
  imps cF = imports_of (pdecls p) -> (forall x, ni (imports_of (pdecls p)) x = false -> in_scope x cF = false) ->
  (forall f ps res b, In (DFunc f ps res b) (pdecls p) -> incl (snd (tr_stmts (push cF) b)) U) ->
  (forall ty r m ps res b, In (DMethod ty r m ps res b) (pdecls p) -> incl (snd (tr_stmts (push cF) b)) U) ->
  forall l c, imports_first l = true -> imps c ++ imports_of l = imports_of (pdecls p) ->
  (forall x, ni (imports_of (pdecls p)) x = false -> in_scope x c = false) ->
  (forall d, In d l -> In d (pdecls p)) -> incl (snd (pass1 c l)) U ->
  forall g g' tr0 g1 t1, Renv (imports_of (pdecls p)) U g g' -> gni (imports_of (pdecls p)) g ->
  init_vars n Go (World (imports_of (pdecls p)) (funcs_of (pdecls p)) (methods_of (pdecls p)) []) l g tr0 = Ok (g1, t1) ->
  exists g1', init_vars n XGo
      (World (filter (keepf U) (imports_of (pdecls p))) (map (tfunS (push cF)) (funcs_of (pdecls p)))
             (map (tmethS (push cF)) (methods_of (pdecls p))) [])
      (fst (fst (pass1 c l))) g' tr0 = Ok (g1', t1) /\ Renv (imports_of (pdecls p)) U g1 g1' /\ gni (imports_of (pdecls p)) g1.
Proof.
  intros Hs Ht Hc1 Hc2 HuF HuM.
  induction l as [|d l IH]; intros c Hi Him Hsc Hl Hu g g' tr0 g1 t1 Hg Hgn Hev.
  - simpl in *. inversion Hev; subst. eauto.
  - assert (Hl' : forall d0, In d0 l -> In d0 (pdecls p)) by (intros; apply Hl; simpl; auto).
    destruct d as [nm path | x e | ty | f ps res body | ty r m ps res body].
    + simpl in Hi, Him, Hev, Hu |- *.
      set (c1 := Fctx (imps c ++ [(nm, path)]) (scopes c)) in *.
      assert (Him1 : imps c1 ++ imports_of l = imports_of (pdecls p)) by (unfold c1; simpl; rewrite <- app_assoc; exact Him).
      assert (Hu1 : incl (snd (pass1 c1 l)) U) by (destruct (pass1 c1 l) as [[t' c2] u]; exact Hu).
      destruct (IH c1 Hi Him1 Hsc Hl' Hu1 g g' tr0 g1 t1 Hg Hgn Hev) as [g1' H].
      destruct (pass1 c1 l) as [[t' c2] u]. simpl in *. eauto.
    + pose proof (imports_first_tail _ _ Hi eq_refl) as Hn.
      pose proof (imports_first_rest _ _ Hi eq_refl) as Hi'.
      rewrite (imports_of_none _ Hn), app_nil_r in Him.
      assert (Hgd : In (DVar x e) (pdecls p)) by (apply Hl; simpl; auto).
      pose proof (scope_safe_in _ _ Hs Hgd) as Hd. simpl in Hd. apply andb_prop in Hd. destruct Hd as [Hx Hge].
      simpl in Hev, Hu |- *.
      destruct (tr_expr c e) as [e' u1] eqn:Te.
      assert (Hsc' : forall y, ni (imports_of (pdecls p)) y = false -> in_scope y (insert x c) = false).
      { intros y Hy. rewrite in_scope_insert, (Hsc y Hy), orb_false_r.
        destruct (str_eqb y x) eqn:E; [|reflexivity]. apply str_eqb_eq in E. subst.
        apply okp_ni in Hx. congruence. }
      assert (Him' : imps (insert x c) ++ imports_of l = imports_of (pdecls p)).
      { rewrite imps_insert. simpl in Hn. rewrite (imports_of_none l), app_nil_r; [exact Him|].
        simpl in Hn. exact Hn. }
      assert (Hu12 : incl u1 U /\ incl (snd (pass1 (insert x c) l)) U).
      { destruct (pass1 (insert x c) l) as [[t' c2] u2]. simpl in Hu |- *. split; [eapply incl_app_l | eapply incl_app_r]; eauto. }
      destruct Hu12 as [Hu1 Hu2].
      destruct (eval_e n Go _ g e) as [[v ta]| |] eqn:Ea; try discriminate.
      pose proof (wrel_prog p U cF g g' Hs Ht Hc1 Hc2 HuF HuM Hg Hgn) as HW.
      destruct (sim_all _ _ _ n _ _ HW) as [He _].
      assert (Hinv : inv (imports_of (pdecls p)) c g).
      { split; [exact Him|]. intros y Hy. rewrite (Hsc y Hy), (Hgn y Hy). reflexivity. }
      destruct (He _ _ _ _ _ _ _ _ Te Hu1 Hinv Hg Hge Ea) as [v' [Ha Rv]].
      assert (Hg1 : Renv (imports_of (pdecls p)) U ((x, v) :: g) ((x, v') :: g'))
        by (constructor; [apply okp_okv with (im := imports_of (pdecls p)); assumption | assumption | assumption]).
      assert (Hgn1 : gni (imports_of (pdecls p)) ((x, v) :: g)) by (apply gni_cons; [assumption | eapply okp_ni; eauto]).
      destruct (IH (insert x c) Hi' Him' Hsc' Hl' Hu2 _ _ _ g1 t1 Hg1 Hgn1 Hev) as [g1' H].
      destruct (pass1 (insert x c) l) as [[t' c2] u2]. simpl in *. rewrite Ha. eauto.
    + pose proof (imports_first_rest _ _ Hi eq_refl) as Hi'. simpl in Him, Hev, Hu |- *.
      assert (Hu1 : incl (snd (pass1 c l)) U) by (destruct (pass1 c l) as [[t' c2] u]; exact Hu).
      destruct (IH c Hi' Him Hsc Hl' Hu1 g g' tr0 g1 t1 Hg Hgn Hev) as [g1' H].
      destruct (pass1 c l) as [[t' c2] u]. simpl in *. eauto.
    + pose proof (imports_first_rest _ _ Hi eq_refl) as Hi'. simpl in Him, Hev, Hu |- *.
      assert (Hu1 : incl (snd (pass1 c l)) U) by (destruct (pass1 c l) as [[t' c2] u]; exact Hu).
      destruct (IH c Hi' Him Hsc Hl' Hu1 g g' tr0 g1 t1 Hg Hgn Hev) as [g1' H].
      destruct (pass1 c l) as [[t' c2] u]. simpl in *. eauto.
    + pose proof (imports_first_rest _ _ Hi eq_refl) as Hi'. simpl in Him, Hev, Hu |- *.
      assert (Hu1 : incl (snd (pass1 c l)) U) by (destruct (pass1 c l) as [[t' c2] u]; exact Hu).
      destruct (IH c Hi' Him Hsc Hl' Hu1 g g' tr0 g1 t1 Hg Hgn Hev) as [g1' H].
      destruct (pass1 c l) as [[t' c2] u]. simpl in *. eauto.
Qed.

(* C25: preservation, with `var` statements allowed to shadow imports *)
Theorem gopstyle_preserves_tracked p n tr :
  imports_first (pdecls p) = true -> scope_safe p = true -> no_case_twin p = true ->
  run n Go p = Ok tr -> run n XGo (gopstyle p) = Ok tr.
Proof.
  intros Hi Hs Ht Hrun.
  unfold run in *. unfold gopstyle, gopstyle_decls.
  set (ds := pdecls p) in *. set (im := imports_of ds) in *.
  assert (Hg0 : forallb (goodv_decl (okp (nil ++ im)) okv (fun f => negb (is_subst f))) ds = true) by exact Hs.
  destruct (pass1_ctx im okv (fun f => negb (is_subst f)) ds (Fctx [] [[]]) Hi eq_refl (fun x _ => eq_refl) Hs) as [Hc1 Hc2].
  pose proof (funcs_of_pass1 ds (Fctx [] [[]])) as HF1. pose proof (methods_of_pass1 ds (Fctx [] [[]])) as HM1.
  pose proof (imports_of_pass1 ds (Fctx [] [[]])) as HI1.
  pose proof (fun f ps res b => in_pass1_func f ps res b ds (Fctx [] [[]])) as HinF.
  pose proof (fun ty r m ps res b => in_pass1_method ty r m ps res b ds (Fctx [] [[]])) as HinM.
  pose proof (init_sim n p) as Hinit.
  destruct (pass1 (Fctx [] [[]]) ds) as [[ds1 cF] u1] eqn:E1. simpl in Hc1, Hc2, HF1, HM1, HI1, HinF, HinM.
  pose proof (funcs_of_pass2 cF ds1) as HF2. pose proof (methods_of_pass2 cF ds1) as HM2.
  pose proof (imports_of_pass2 cF ds1) as HI2.
  pose proof (fun f ps res b => pass2_used_func cF f ps res b ds1) as HuF.
  pose proof (fun ty r m ps res b => pass2_used_method cF ty r m ps res b ds1) as HuM.
  pose proof (fun W g t => init_vars_pass2 n XGo cF ds1 W g t) as HIV.
  destruct (pass2 cF ds1) as [ds2 u2] eqn:E2. simpl in HF2, HM2, HI2, HuF, HuM, HIV.
  cbn [pdecls].
  set (U := u1 ++ u2).
  rewrite imports_of_filter, funcs_of_filter, methods_of_filter, init_vars_filter.
  rewrite HI2, HI1, HF2, HF1, HM2, HM1. fold im.
  assert (HuF' : forall f ps res b, In (DFunc f ps res b) ds -> incl (snd (tr_stmts (push cF) b)) U).
  { intros f ps res b Hin. unfold U. apply incl_appr. apply (HuF f ps res b). apply HinF. exact Hin. }
  assert (HuM' : forall ty r m ps res b, In (DMethod ty r m ps res b) ds -> incl (snd (tr_stmts (push cF) b)) U).
  { intros ty r m ps res b Hin. unfold U. apply incl_appr. apply (HuM ty r m ps res b). apply HinM. exact Hin. }
  destruct (init_vars n Go (World im (funcs_of ds) (methods_of ds) []) ds [] []) as [[g t0]| |] eqn:Ei; try discriminate.
  assert (Hu1 : incl (snd (pass1 (Fctx [] [[]]) ds)) U) by (rewrite E1; simpl; unfold U; apply incl_appl, incl_refl).
  destruct (Hinit U cF Hs Ht Hc1 Hc2 HuF' HuM' ds (Fctx [] [[]]) Hi eq_refl (fun x _ => eq_refl) (fun d H => H) Hu1
              [] [] [] g t0 (Renv_nil im U) (fun x _ => eq_refl) Ei) as [g' [Hi' [Rg Hgn]]].
  rewrite E1 in Hi'. simpl in Hi'. rewrite HIV. fold ds im in Hi'. rewrite Hi'.
  rewrite sassoc_tfunS.
  destruct (sassoc main_name (funcs_of ds)) as [[ps b]|] eqn:Em; [|discriminate].
  destruct (eval_ss n Go (World im (funcs_of ds) (methods_of ds) g) g b) as [[[r e2] t1]| |] eqn:Es; try discriminate.
  inversion Hrun; subst tr.
  pose proof (wrel_prog p U cF g g' Hs Ht Hc1 Hc2 HuF' HuM' Rg Hgn) as HW. fold ds im in HW.
  destruct (sim_all _ _ _ n _ _ HW) as [_ [_ [_ Hss]]].
  destruct (wr_fgood _ _ _ _ _ HW _ _ _ Em) as [_ [Hgb Hub]].
  destruct (tr_stmts (push cF) b) as [b1 ub] eqn:Tb. simpl in *.
  destruct (Hss _ _ _ _ _ _ _ _ _ Tb Hub (inv_cfn_genv _ _ _ _ _ HW) Rg Hgb Es) as [r' [e2' [Hs' _]]].
  rewrite Hs'. reflexivity.
Qed.
