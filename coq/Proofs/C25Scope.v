(* C25, third part: preservation when `var` statements shadow an import (the shadowing that formatCtx
   tracks, with block scope entry / exit), directly against the program with the unused import deleted. *)
From Coq Require Import List NArith ZArith Bool Lia.
Import ListNotations.
From V Require Import Base.Prelude Gen.C25 Model.C25 Proofs.C25 Proofs.C25Del.

Lemma tr_block_stmts c b : tr_block c b = tr_stmts (push c) b.
Proof. destruct b; reflexivity. Qed.

Section SimS.
Variable im : list (name * str).
Variable U : list name.

Definition okp (x : name) : bool := (ni im x && negb (is_subst x))%bool.
Definition okv (x : name) : bool := negb (is_subst x).
Definition bound (x : name) (en : env) : bool := match sassoc x en with Some _ => true | None => false end.

(* the tracked scopes know exactly which import names are bound at run time *)
Definition inv (c : fctx) (en : env) : Prop :=
  imps c = im /\ forall x, ni im x = false -> in_scope x c = bound x en.

Inductive R : value -> value -> Prop :=
| R_int z : R (VInt z) (VInt z)
| R_str s : R (VStr s) (VStr s)
| R_unit : R VUnit VUnit
| R_obj t v v' : R v v' -> R (VObj t v) (VObj t v')
| R_clos ps b e e' c1 : forallb okp ps = true -> goodv_ss okp okv b = true -> Renv e e' -> inv c1 e ->
    incl (snd (tr_stmts c1 b)) U -> R (VClos ps b e) (VClos ps (fst (tr_stmts c1 b)) e')
with Renv : env -> env -> Prop :=
| Renv_nil : Renv [] []
| Renv_cons x v v' e e' : okv x = true -> R v v' -> Renv e e' -> Renv ((x, v) :: e) ((x, v') :: e').

Inductive Ropt : option value -> option value -> Prop :=
| Ropt_none : Ropt None None
| Ropt_some v v' : R v v' -> Ropt (Some v) (Some v').

Lemma okp_okv x : okp x = true -> okv x = true.
Proof. unfold okp, okv. intros H. apply andb_prop in H. tauto. Qed.

Lemma okp_ni x : okp x = true -> ni im x = true.
Proof. unfold okp. intros H. apply andb_prop in H. tauto. Qed.

Lemma Renv_lookup e e' x : Renv e e' ->
  match sassoc x e with
  | Some v => okv x = true /\ exists v', sassoc x e' = Some v' /\ R v v'
  | None => sassoc x e' = None
  end.
Proof.
  induction 1 as [|y v v' e e' Hy Hv He IH]; simpl; [reflexivity|].
  destruct (str_eqb x y) eqn:E.
  - apply str_eqb_eq in E. subst. split; [exact Hy|]. exists v'. auto.
  - exact IH.
Qed.

Lemma render_R v v' : R v v' -> render v = render v'.
Proof.
  revert v'. induction v; intros v' H; inversion H; subst; simpl; try reflexivity.
  f_equal. f_equal. f_equal. apply IHv. assumption.
Qed.

Lemma renders_R vs vs' : Forall2 R vs vs' -> renders vs = renders vs'.
Proof. induction 1; simpl; [reflexivity|]. rewrite (render_R _ _ H), IHForall2. reflexivity. Qed.

Lemma inv_push c en : inv c en -> inv (push c) en.
Proof. intros [H1 H2]. split; [exact H1 | exact H2]. Qed.

Lemma bound_cons x y v en : bound x ((y, v) :: en) = (str_eqb x y || bound x en)%bool.
Proof. unfold bound. simpl. destruct (str_eqb x y); reflexivity. Qed.

(* binding a name that is not an import does not change which imports are bound *)
Lemma inv_cons_ni c en y v : inv c en -> ni im y = true -> inv c ((y, v) :: en).
Proof.
  intros [H1 H2] Hy. split; [exact H1|]. intros x Hx. rewrite bound_cons, (H2 x Hx).
  destruct (str_eqb x y) eqn:E; [|reflexivity]. apply str_eqb_eq in E. subst. congruence.
Qed.

(* a tracked `var` *)
Lemma inv_insert c en y v : inv c en -> inv (insert y c) ((y, v) :: en).
Proof.
  intros [H1 H2]. split; [rewrite imps_insert; exact H1|]. intros x Hx.
  rewrite in_scope_insert, bound_cons, (H2 x Hx). reflexivity.
Qed.

Lemma bind_R ps : forall vs vs' ce ce' e1 c, Forall2 R vs vs' -> Renv ce ce' -> forallb okp ps = true -> inv c ce ->
  bind ps vs ce = Some e1 -> exists e1', bind ps vs' ce' = Some e1' /\ Renv e1 e1' /\ inv c e1.
Proof.
  induction ps as [|p ps IH]; intros vs vs' ce ce' e1 c Hv Hc Hok Hi Hb.
  - destruct vs; [|discriminate]. inversion Hv; subst. simpl in *. inversion Hb; subst. eauto.
  - destruct vs as [|v vs]; [discriminate|]. inversion Hv as [|? v' ? vs'' Hvv Hvs]; subst.
    simpl in Hok. apply andb_prop in Hok. destruct Hok as [Hp Hps].
    simpl in Hb. destruct (bind ps vs ce) as [e0|] eqn:E; [|discriminate]. inversion Hb; subst.
    destruct (IH _ _ _ _ _ _ Hvs Hc Hps Hi E) as [e0' [H1 [H2 H3]]].
    exists ((p, v') :: e0'). simpl. rewrite H1. split; [reflexivity|]. split.
    + constructor; [apply okp_okv; assumption | assumption | assumption].
    + apply inv_cons_ni; [assumption | apply okp_ni; assumption].
Qed.

(* what formatSelectorExpr does, in terms of the run-time environment *)
Lemma sel_action_bound c en x sel : inv c en -> bound x en = true -> sel_action c x sel = (None, []).
Proof.
  intros [H1 H2] Hb. unfold sel_action. destruct (in_scope x c) eqn:Es; [reflexivity|].
  rewrite H1. destruct (sassoc x im) as [path|] eqn:Ei; [|reflexivity].
  assert (Hni : ni im x = false) by (unfold ni; rewrite Ei; reflexivity).
  rewrite (H2 x Hni) in Es. congruence.
Qed.

Lemma sel_action_unbound c en x sel path : inv c en -> bound x en = false -> sassoc x im = Some path ->
  sel_action c x sel = match fmt_to_builtin path sel with Some b => (Some b, []) | None => (None, [x]) end.
Proof.
  intros [H1 H2] Hb Hi. unfold sel_action.
  assert (Hni : ni im x = false) by (unfold ni; rewrite Hi; reflexivity).
  rewrite (H2 x Hni), Hb, H1, Hi. reflexivity.
Qed.

Lemma used_agree x : In x U -> sassoc x (filter (keepf U) im) = sassoc x im.
Proof. intros H. apply sassoc_filter_keep. left. exact H. Qed.

(* ---------------------------------------------------------------- the worlds *)

Variable cfn : fctx.      (* the context under which function and method bodies were converted *)

Definition tfunS (fb : name * (list name * stmts)) : name * (list name * stmts) :=
  match fb with (f, (ps, b)) => (f, (ps, fst (tr_stmts cfn b))) end.
Definition tmethS (mb : name * (name * (name * (list name * stmts)))) : name * (name * (name * (list name * stmts))) :=
  match mb with (t, (m, (r, (ps, b)))) => (t, (m, (r, (ps, fst (tr_stmts cfn b))))) end.

Lemma sassoc_tfunS f l : sassoc f (map tfunS l) =
  match sassoc f l with Some (ps, b) => Some (ps, fst (tr_stmts cfn b)) | None => None end.
Proof.
  induction l as [|[g [ps b]] l IH]; simpl; [reflexivity|].
  destruct (str_eqb f g); [reflexivity | exact IH].
Qed.

Lemma find_method_tmethS t m l : find_method t m (map tmethS l) =
  match find_method t m l with Some (r, (ps, b)) => Some (r, (ps, fst (tr_stmts cfn b))) | None => None end.
Proof.
  induction l as [|[t' [m' [r [ps b]]]] l IH]; simpl; [reflexivity|].
  destruct (str_eqb t t' && str_eqb m m')%bool; [reflexivity | exact IH].
Qed.

Record wrel (W W' : world) : Prop := {
  wr_imps : w_imps W = im;
  wr_imps' : w_imps W' = filter (keepf U) im;
  wr_funcs : w_funcs W' = map tfunS (w_funcs W);
  wr_methods : w_methods W' = map tmethS (w_methods W);
  wr_genv : Renv (w_genv W) (w_genv W');
  wr_cfn : imps cfn = im /\ forall x, ni im x = false -> in_scope x cfn = false;
  wr_gni : forall x, ni im x = false -> bound x (w_genv W) = false;
  wr_fgood : forall f ps b, sassoc f (w_funcs W) = Some (ps, b) ->
             forallb okp ps = true /\ goodv_ss okp okv b = true /\ incl (snd (tr_stmts cfn b)) U;
  wr_fnames : forall f, is_subst f = true -> sassoc f (w_funcs W) = None;
  wr_mgood : forall t m r ps b, find_method t m (w_methods W) = Some (r, (ps, b)) ->
             okp r = true /\ forallb okp ps = true /\ goodv_ss okp okv b = true /\ incl (snd (tr_stmts cfn b)) U;
  wr_twin : forall t m rb, find_method t m (w_methods W) = Some rb -> exported m = true ->
            find_method t (lower_first m) (w_methods W) = None }.

Lemma inv_cfn_genv W W' : wrel W W' -> inv cfn (w_genv W).
Proof.
  intros HW. destruct (wr_cfn _ _ HW) as [H1 H2]. split; [exact H1|].
  intros x Hx. rewrite (H2 x Hx), (wr_gni _ _ HW x Hx). reflexivity.
Qed.

Definition sim_e (n : nat) (W W' : world) : Prop :=
  forall e c en en' v tr e' u, tr_expr c e = (e', u) -> incl u U -> inv c en -> Renv en en' ->
  goodv_e okp okv e = true -> eval_e n Go W en e = Ok (v, tr) ->
  exists v', eval_e n XGo W' en' e' = Ok (v', tr) /\ R v v'.
Definition sim_args (n : nat) (W W' : world) : Prop :=
  forall es c en en' vs tr es' u, tr_args c es = (es', u) -> incl u U -> inv c en -> Renv en en' ->
  goodv_es okp okv es = true -> eval_es n Go W en es = Ok (vs, tr) ->
  exists vs', eval_es n XGo W' en' es' = Ok (vs', tr) /\ Forall2 R vs vs'.
Definition sim_s (n : nat) (W W' : world) : Prop :=
  forall s c en en' r en1 tr s' c1 u, tr_stmt c s = (s', c1, u) -> incl u U -> inv c en -> Renv en en' ->
  goodv_s okp okv s = true -> eval_s n Go W en s = Ok (r, en1, tr) ->
  exists r' en1', eval_s n XGo W' en' s' = Ok (r', en1', tr) /\ Ropt r r' /\ Renv en1 en1' /\ inv c1 en1.
Definition sim_ss (n : nat) (W W' : world) : Prop :=
  forall ss c en en' r en1 tr ss' u, tr_stmts c ss = (ss', u) -> incl u U -> inv c en -> Renv en en' ->
  goodv_ss okp okv ss = true -> eval_ss n Go W en ss = Ok (r, en1, tr) ->
  exists r' en1', eval_ss n XGo W' en' ss' = Ok (r', en1', tr) /\ Ropt r r' /\ Renv en1 en1'.

Lemma ret1_R r r' : Ropt r r' -> R (ret1 r) (ret1 r').
Proof. destruct 1; simpl; [constructor | assumption]. Qed.

Lemma R_clos_inv ps b ce v' : R (VClos ps b ce) v' ->
  exists ce' c1, v' = VClos ps (fst (tr_stmts c1 b)) ce' /\ forallb okp ps = true /\ goodv_ss okp okv b = true /\
                 Renv ce ce' /\ inv c1 ce /\ incl (snd (tr_stmts c1 b)) U.
Proof. intros H. inversion H; subst. eexists. eexists. eauto 10. Qed.

Lemma R_obj_inv t v v' : R (VObj t v) v' -> exists w, v' = VObj t w /\ R v w.
Proof. intros H. inversion H; subst. eauto. Qed.

Lemma R_int_inv z v' : R (VInt z) v' -> v' = VInt z.
Proof. intros H. inversion H; subst. reflexivity. Qed.

Lemma subst_unbound b en en' : Renv en en' -> is_subst b = true -> sassoc b en = None /\ sassoc b en' = None.
Proof.
  intros Hen Hb. pose proof (Renv_lookup en en' b Hen) as H.
  destruct (sassoc b en); [|auto]. destruct H as [Hok _]. unfold okv in Hok. rewrite Hb in Hok. discriminate.
Qed.

Lemma lookup_method_lower W W' t sel r ps b : wrel W W' ->
  find_method t sel (w_methods W) = Some (r, (ps, b)) ->
  lookup_method XGo W' t (lower_first sel) = Some (r, (ps, fst (tr_stmts cfn b))).
Proof.
  intros HW Hf. unfold lookup_method. rewrite (wr_methods _ _ HW), !find_method_tmethS.
  destruct (exported sel) eqn:Ex.
  - rewrite (wr_twin _ _ HW _ _ _ Hf Ex). rewrite (upper_lower _ Ex), Hf. reflexivity.
  - rewrite (lower_id _ Ex), Hf. reflexivity.
Qed.

Lemma incl_app_l {A} (a b c : list A) : incl (a ++ b) c -> incl a c.
Proof. intros H x Hx. apply H. apply in_or_app. auto. Qed.
Lemma incl_app_r {A} (a b c : list A) : incl (a ++ b) c -> incl b c.
Proof. intros H x Hx. apply H. apply in_or_app. auto. Qed.

Ltac inv H := inversion H; subst; clear H.

Opaque c25_xgo_builtins c25_print_funcs c25_fmt_path.

(* a function literal / lambda evaluates to related closures, whichever form the converter chose *)
Lemma clos_of_block c en en' ps body b' u :
  tr_block c body = (b', u) -> incl u U -> inv c en -> Renv en en' ->
  forallb okp ps = true -> goodv_ss okp okv body = true ->
  R (VClos ps body en) (VClos ps b' en').
Proof.
  intros Ht Hu Hi Hen Hp Hg. rewrite tr_block_stmts in Ht.
  replace b' with (fst (tr_stmts (push c) body)) by (rewrite Ht; reflexivity).
  apply R_clos with (c1 := push c); auto using inv_push. rewrite Ht. exact Hu.
Qed.

Lemma clos_of_exprs c en en' ps rs r' u :
  tr_exprs c rs = (r', u) -> incl u U -> inv c en -> Renv en en' ->
  forallb okp ps = true -> goodv_es okp okv rs = true ->
  R (VClos ps (SCons (SReturn rs) SNil) en) (VClos ps (SCons (SReturn r') SNil) en').
Proof.
  intros Ht Hu Hi Hen Hp Hg.
  assert (Hs : tr_stmts c (SCons (SReturn rs) SNil) = (SCons (SReturn r') SNil, u ++ [])).
  { simpl. rewrite Ht. reflexivity. }
  replace (SCons (SReturn r') SNil) with (fst (tr_stmts c (SCons (SReturn rs) SNil))) by (rewrite Hs; reflexivity).
  apply R_clos with (c1 := c); auto.
  - simpl. rewrite Hg. reflexivity.
  - rewrite Hs. simpl. rewrite app_nil_r. exact Hu.
Qed.

Lemma sim_e_step n W W' : wrel W W' -> sim_e n W W' -> sim_args n W W' -> sim_ss n W W' -> sim_e (S n) W W'.
Proof.
  intros HW IHe IHa IHss e c en en' v tr e' u Htr Hu Hi Hen Hg Hev.
  destruct e.
  - (* EInt *) simpl in *. inv Htr. inv Hev. eexists. split; [reflexivity | constructor].
  - simpl in *. inv Htr. inv Hev. eexists. split; [reflexivity | constructor].
  - (* EVar *) simpl in Htr. inv Htr. simpl in Hev |- *. pose proof (Renv_lookup _ _ x Hen) as Hl.
    destruct (sassoc x en) as [v0|].
    + inv Hev. destruct Hl as [_ [v' [H1 H2]]]. rewrite H1. eauto.
    + rewrite Hl. destruct (sassoc x (w_funcs W)) as [[ps b]|] eqn:Ef; [|discriminate]. inv Hev.
      rewrite (wr_funcs _ _ HW), sassoc_tfunS, Ef.
      destruct (wr_fgood _ _ HW _ _ _ Ef) as [Hp [Hb Hub]].
      eexists. split; [reflexivity|].
      apply R_clos; auto; [exact (wr_genv _ _ HW) | exact (inv_cfn_genv _ _ HW)].
  - (* EAdd *) simpl in Hg. apply andb_prop in Hg. destruct Hg as [Hg1 Hg2]. simpl in Htr.
    destruct (tr_expr c e1) as [a' u1] eqn:T1. destruct (tr_expr c e2) as [b' u2] eqn:T2. inv Htr.
    simpl in Hev |- *.
    destruct (eval_e n Go W en e1) as [[va ta]| |] eqn:Ea; try discriminate. destruct va; try discriminate.
    destruct (eval_e n Go W en e2) as [[vb tb]| |] eqn:Eb; try discriminate. destruct vb; try discriminate. inv Hev.
    destruct (IHe _ _ _ _ _ _ _ _ T1 (incl_app_l _ _ _ Hu) Hi Hen Hg1 Ea) as [va' [Ha Ra]]. apply R_int_inv in Ra. subst va'.
    destruct (IHe _ _ _ _ _ _ _ _ T2 (incl_app_r _ _ _ Hu) Hi Hen Hg2 Eb) as [vb' [Hb Rb]]. apply R_int_inv in Rb. subst vb'.
    rewrite Ha, Hb. eexists. split; [reflexivity | constructor].
  - (* ECall *) simpl in Hg. simpl in Htr. destruct (tr_args c args) as [args' u1] eqn:Ta. inv Htr.
    simpl in Hev |- *.
    destruct (eval_es n Go W en args) as [[vs t1]| |] eqn:Ea; try discriminate.
    destruct (IHa _ _ _ _ _ _ _ _ Ta Hu Hi Hen Hg Ea) as [vs' [Ha Rvs]]. rewrite Ha.
    pose proof (Renv_lookup _ _ f Hen) as Hl.
    destruct (sassoc f en) as [v0|].
    + destruct Hl as [_ [v0' [H1 H2]]]. rewrite H1.
      destruct v0 as [ | | | |ps b ce]; try discriminate.
      apply R_clos_inv in H2. destruct H2 as [ce' [c1 [-> [Hps [Hgb [Hce [Hic Huc]]]]]]].
      destruct (bind ps vs ce) as [e1|] eqn:Eb; [|discriminate].
      destruct (bind_R _ _ _ _ _ _ _ Rvs Hce Hps Hic Eb) as [e1' [Hb' [Re1 Hi1]]]. rewrite Hb'.
      destruct (eval_ss n Go W e1 b) as [[[r e2] t2]| |] eqn:Es; try discriminate. inv Hev.
      destruct (tr_stmts c1 b) as [b1 ub] eqn:Tb. simpl in *.
      destruct (IHss _ _ _ _ _ _ _ _ _ Tb Huc Hi1 Re1 Hgb Es) as [r' [e2' [Hs [Rr _]]]]. rewrite Hs.
      eexists. split; [reflexivity | apply ret1_R; exact Rr].
    + rewrite Hl. destruct (sassoc f (w_funcs W)) as [[ps b]|] eqn:Ef; [|discriminate].
      rewrite (wr_funcs _ _ HW), sassoc_tfunS, Ef.
      destruct (wr_fgood _ _ HW _ _ _ Ef) as [Hp [Hb Hub]].
      destruct (bind ps vs (w_genv W)) as [e1|] eqn:Eb; [|discriminate].
      destruct (bind_R _ _ _ _ _ _ _ Rvs (wr_genv _ _ HW) Hp (inv_cfn_genv _ _ HW) Eb) as [e1' [Hb' [Re1 Hi1]]]. rewrite Hb'.
      destruct (eval_ss n Go W e1 b) as [[[r e2] t2]| |] eqn:Es; try discriminate. inv Hev.
      destruct (tr_stmts cfn b) as [b1 ub] eqn:Tb. simpl in *.
      destruct (IHss _ _ _ _ _ _ _ _ _ Tb Hub Hi1 Re1 Hb Es) as [r' [e2' [Hs [Rr _]]]]. rewrite Hs.
      eexists. split; [reflexivity | apply ret1_R; exact Rr].
  - (* ESel *) simpl in Hg. simpl in Htr.
    destruct (sel_action c x sel) as [act u1] eqn:Sa. destruct (tr_args c args) as [args' u2] eqn:Ta.
    simpl in Hev.
    destruct (eval_es n Go W en args) as [[vs t1]| |] eqn:Ea; try discriminate.
    assert (Hu2 : incl u2 U) by (destruct act; inv Htr; eapply incl_app_r; eauto).
    assert (Hu1 : incl u1 U) by (destruct act; inv Htr; eapply incl_app_l; eauto).
    destruct (IHa _ _ _ _ _ _ _ _ Ta Hu2 Hi Hen Hg Ea) as [vs' [Ha Rvs]].
    pose proof (Renv_lookup _ _ x Hen) as Hl.
    destruct (sassoc x en) as [v0|] eqn:Ex.
    + destruct Hl as [Hok [v0' [H1 H2]]].
      assert (Hbd : bound x en = true) by (unfold bound; rewrite Ex; reflexivity).
      rewrite (sel_action_bound _ _ _ sel Hi Hbd) in Sa. inv Sa. inv Htr.
      destruct v0 as [ | | |t pv| ]; try discriminate.
      apply R_obj_inv in H2. destruct H2 as [pv' [-> Rpv]].
      unfold lookup_method in Hev.
      destruct (find_method t sel (w_methods W)) as [[r [ps b]]|] eqn:Ef; [|discriminate].
      destruct (wr_mgood _ _ HW _ _ _ _ _ Ef) as [Hr [Hp [Hb Hub]]].
      destruct (bind ps vs (w_genv W)) as [e1|] eqn:Eb; [|discriminate].
      destruct (bind_R _ _ _ _ _ _ _ Rvs (wr_genv _ _ HW) Hp (inv_cfn_genv _ _ HW) Eb) as [e1' [Hb' [Re1 Hi1]]].
      destruct (eval_ss n Go W ((r, VObj t pv) :: e1) b) as [[[rv e2] t2]| |] eqn:Es; try discriminate. inv Hev.
      assert (Re : Renv ((r, VObj t pv) :: e1) ((r, VObj t pv') :: e1'))
        by (constructor; [apply okp_okv; assumption | constructor; assumption | assumption]).
      assert (Hi2 : inv cfn ((r, VObj t pv) :: e1)) by (apply inv_cons_ni; [assumption | apply okp_ni; assumption]).
      destruct (tr_stmts cfn b) as [b1 ub] eqn:Tb. simpl in *.
      destruct (IHss _ _ _ _ _ _ _ _ _ Tb Hub Hi2 Re Hb Es) as [r' [e2' [Hs [Rr _]]]].
      rewrite Ha, H1, (lookup_method_lower _ _ _ _ _ _ _ HW Ef), Tb, Hb'. simpl. rewrite Hs.
      eexists. split; [reflexivity | apply ret1_R; exact Rr].
    + rewrite (wr_imps _ _ HW) in Hev.
      destruct (sassoc x im) as [path|] eqn:Ei; [|discriminate].
      destruct (pkg_member Go sel) as [g|] eqn:Eg; [|discriminate].
      apply pkg_member_go in Eg. destruct Eg as [Hex ->].
      unfold ext_call, ext_event in Hev. rewrite (renders_R _ _ Rvs) in Hev. cbv zeta beta iota in Hev. inv Hev.
      assert (Hbd : bound x en = false) by (unfold bound; rewrite Ex; reflexivity).
      rewrite (sel_action_unbound _ _ _ sel _ Hi Hbd Ei) in Sa.
      destruct (fmt_to_builtin path sel) as [b|] eqn:Efb.
      * inv Sa. inv Htr.
        destruct (fmt_to_builtin_sound _ _ _ Efb Hex) as [Hpath [Hbt Hsub]]. subst path.
        destruct (subst_unbound _ _ _ Hen Hsub) as [_ Hb'].
        simpl. rewrite Ha, Hb', (wr_funcs _ _ HW), sassoc_tfunS, (wr_fnames _ _ HW _ Hsub), Hbt.
        unfold ext_call, ext_event. eexists. split; [reflexivity | constructor].
      * inv Sa. inv Htr.
        assert (Hxu : In x U) by (apply Hu1; simpl; auto).
        simpl. rewrite Ha, Hl, (wr_imps' _ _ HW), (used_agree _ Hxu), Ei, (pkg_member_xgo_lower _ Hex).
        unfold ext_call, ext_event. eexists. split; [reflexivity | constructor].
  - (* EField *) simpl in Htr. destruct (sel_action c x f) as [act u1] eqn:Sa. simpl in Hev.
    pose proof (Renv_lookup _ _ x Hen) as Hl.
    destruct (sassoc x en) as [v0|] eqn:Ex.
    + destruct Hl as [Hok [v0' [H1 H2]]].
      assert (Hbd : bound x en = true) by (unfold bound; rewrite Ex; reflexivity).
      rewrite (sel_action_bound _ _ _ f Hi Hbd) in Sa. inv Sa. inv Htr.
      destruct v0 as [ | | |t pv| ]; try discriminate. inv Hev.
      apply R_obj_inv in H2. destruct H2 as [pv' [-> Rpv]].
      simpl. rewrite H1. eauto.
    + rewrite (wr_imps _ _ HW) in Hev.
      destruct (sassoc x im) as [path|] eqn:Ei; [|discriminate].
      destruct (pkg_member Go f) as [g|] eqn:Eg; [|discriminate].
      apply pkg_member_go in Eg. destruct Eg as [Hex ->]. inv Hev.
      assert (Hbd : bound x en = false) by (unfold bound; rewrite Ex; reflexivity).
      rewrite (sel_action_unbound _ _ _ f _ Hi Hbd Ei) in Sa.
      destruct (fmt_to_builtin path f) as [b|] eqn:Efb.
      * inv Sa. inv Htr.
        destruct (fmt_to_builtin_sound _ _ _ Efb Hex) as [Hpath [Hbt Hsub]]. subst path.
        destruct (subst_unbound _ _ _ Hen Hsub) as [_ Hb'].
        simpl. rewrite Hb', (wr_funcs _ _ HW), sassoc_tfunS, (wr_fnames _ _ HW _ Hsub), Hbt.
        eexists. split; [reflexivity | constructor].
      * inv Sa. inv Htr.
        assert (Hxu : In x U) by (apply Hu; simpl; auto).
        simpl. rewrite Hl, (wr_imps' _ _ HW), (used_agree _ Hxu), Ei, (pkg_member_xgo_same _ Hex).
        eexists. split; [reflexivity | constructor].
  - (* EFuncLit *) simpl in Hg. apply andb_prop in Hg. destruct Hg as [Hp Hb]. simpl in Htr.
    destruct (tr_block c body) as [b' ub] eqn:Tb. inv Htr. simpl in Hev |- *. inv Hev.
    eexists. split; [reflexivity | eapply clos_of_block; eauto].
  - (* ELambda *) simpl in Hg. apply andb_prop in Hg. destruct Hg as [Hp Hb]. simpl in Htr.
    destruct (tr_exprs c rhs) as [r' ur] eqn:Tr. inv Htr. simpl in Hev |- *. inv Hev.
    eexists. split; [reflexivity | eapply clos_of_exprs; eauto].
  - (* ELambda2 *) simpl in Hg. apply andb_prop in Hg. destruct Hg as [Hp Hb]. simpl in Htr.
    destruct (tr_block c body) as [b' ub] eqn:Tb. inv Htr. simpl in Hev |- *. inv Hev.
    eexists. split; [reflexivity | eapply clos_of_block; eauto].
  - (* ENew *) simpl in Hg. simpl in Htr. destruct (tr_expr c e) as [e1' u1] eqn:T1. inv Htr.
    simpl in Hev |- *.
    destruct (eval_e n Go W en e) as [[v1 t1]| |] eqn:Ea; try discriminate. inv Hev.
    destruct (IHe _ _ _ _ _ _ _ _ T1 Hu Hi Hen Hg Ea) as [v1' [Ha Ra]]. rewrite Ha.
    eexists. split; [reflexivity | constructor; assumption].
Qed.

Lemma sim_args_step n W W' : sim_e n W W' -> sim_args n W W' -> sim_args (S n) W W'.
Proof.
  intros IHe IHa es c en en' vs tr es' u Htr Hu Hi Hen Hg Hev.
  destruct es as [|e t].
  - simpl in *. inv Htr. inv Hev. eexists. split; [reflexivity | constructor].
  - simpl in Hg. apply andb_prop in Hg. destruct Hg as [Hg1 Hg2]. simpl in Hev.
    destruct (eval_e n Go W en e) as [[v1 t1]| |] eqn:Ea; try discriminate.
    destruct (eval_es n Go W en t) as [[vs1 t2]| |] eqn:Eb; try discriminate. inv Hev.
    simpl in Htr.
    destruct (match e with
              | EFuncLit ps res body =>
                  match body with
                  | SCons (SReturn rs) SNil =>
                      if lam_ok res rs then let '(r', u0) := tr_exprs c rs in (ELambda ps r', u0)
                      else let '(b', u0) := tr_block c body in (ELambda2 ps b', u0)
                  | _ => let '(b', u0) := tr_block c body in (ELambda2 ps b', u0)
                  end
              | _ => tr_expr c e
              end) as [e1' u1] eqn:T1.
    destruct (tr_args c t) as [t' u2] eqn:T2. inv Htr.
    destruct (IHa _ _ _ _ _ _ _ _ T2 (incl_app_r _ _ _ Hu) Hi Hen Hg2 Eb) as [vs1' [Hb Rb]].
    assert (Hu1 : incl u1 U) by (eapply incl_app_l; eauto).
    assert (He : exists v1', eval_e n XGo W' en' e1' = Ok (v1', t1) /\ R v1 v1').
    { destruct e; try (eapply IHe; eauto; fail).
      (* a function literal argument *)
      destruct n as [|n']; [discriminate|]. simpl in Ea. inv Ea.
      simpl in Hg1. apply andb_prop in Hg1. destruct Hg1 as [Hp Hgb].
      assert (Hblock : forall b' u0, tr_block c body = (b', u0) -> (ELambda2 ps b', u0) = (e1', u1) ->
                exists v1', eval_e (S n') XGo W' en' e1' = Ok (v1', []) /\ R (VClos ps body en) v1').
      { intros b' u0 Tb Heq. inv Heq. eexists. split; [reflexivity | eapply clos_of_block; eauto]. }
      destruct body as [|s0 rest]; [destruct (tr_block c SNil) eqn:Tb; eapply Hblock; eauto|].
      destruct s0; try (destruct (tr_block c _) eqn:Tb; eapply Hblock; eauto; fail).
      destruct rest; [|destruct (tr_block c _) eqn:Tb; eapply Hblock; eauto].
      destruct (lam_ok res r); [|destruct (tr_block c _) eqn:Tb; eapply Hblock; eauto].
      destruct (tr_exprs c r) as [r' ur] eqn:Tr. inv T1.
      eexists. split; [reflexivity|]. eapply clos_of_exprs; eauto.
      simpl in Hgb. rewrite andb_true_r in Hgb. exact Hgb. }
    destruct He as [v1' [Ha Ra]].
    simpl. rewrite Ha, Hb. eexists. split; [reflexivity | constructor; assumption].
Qed.

Lemma sim_s_step n W W' : sim_e n W W' -> sim_ss n W W' -> sim_s (S n) W W'.
Proof.
  intros IHe IHss s c en en' r en1 tr s' c1 u Htr Hu Hi Hen Hg Hev.
  destruct s as [cmd e | x e | x e | cnd thn els | r0 | b].
  - (* SExpr *) simpl in Hg. simpl in Htr. destruct (tr_expr c e) as [e' u1] eqn:T1. inv Htr.
    simpl in Hev |- *.
    destruct (eval_e n Go W en e) as [[v1 t1]| |] eqn:Ea; try discriminate. inv Hev.
    destruct (IHe _ _ _ _ _ _ _ _ T1 Hu Hi Hen Hg Ea) as [v1' [Ha Ra]]. rewrite Ha.
    do 2 eexists. split; [reflexivity|]. split; [constructor|]. split; assumption.
  - (* SDefine *) simpl in Hg. apply andb_prop in Hg. destruct Hg as [Hx Hg]. simpl in Htr.
    destruct (tr_expr c e) as [e' u1] eqn:T1. inv Htr. simpl in Hev |- *.
    destruct (eval_e n Go W en e) as [[v1 t1]| |] eqn:Ea; try discriminate. inv Hev.
    destruct (IHe _ _ _ _ _ _ _ _ T1 Hu Hi Hen Hg Ea) as [v1' [Ha Ra]]. rewrite Ha.
    do 2 eexists. split; [reflexivity|]. split; [constructor|]. split.
    + constructor; [apply okp_okv; assumption | assumption | assumption].
    + apply inv_cons_ni; [assumption | apply okp_ni; assumption].
  - (* SVar *) simpl in Hg. apply andb_prop in Hg. destruct Hg as [Hx Hg]. simpl in Htr.
    destruct (tr_expr c e) as [e' u1] eqn:T1. inv Htr. simpl in Hev |- *.
    destruct (eval_e n Go W en e) as [[v1 t1]| |] eqn:Ea; try discriminate. inv Hev.
    destruct (IHe _ _ _ _ _ _ _ _ T1 Hu Hi Hen Hg Ea) as [v1' [Ha Ra]]. rewrite Ha.
    do 2 eexists. split; [reflexivity|]. split; [constructor|]. split.
    + constructor; assumption.
    + apply inv_insert. assumption.
  - (* SIf *) simpl in Hg. apply andb_prop in Hg. destruct Hg as [Hg Hg3]. apply andb_prop in Hg. destruct Hg as [Hg1 Hg2].
    simpl in Htr.
    destruct (tr_expr (push c) cnd) as [c' u1] eqn:T1.
    destruct (tr_block (push c) thn) as [thn' u2] eqn:T2.
    destruct (tr_block (push c) els) as [els' u3] eqn:T3. inv Htr.
    pose proof (inv_push _ _ Hi) as Hip.
    simpl in Hev |- *.
    destruct (eval_e n Go W en cnd) as [[v1 t1]| |] eqn:Ea; try discriminate.
    destruct v1 as [z| | | | ]; try discriminate.
    destruct (IHe _ _ _ _ _ _ _ _ T1 (incl_app_l _ _ _ Hu) Hip Hen Hg1 Ea) as [v1' [Ha Ra]]. apply R_int_inv in Ra. subst v1'. rewrite Ha.
    pose proof (incl_app_r _ _ _ Hu) as Hu23.
    destruct (eval_ss n Go W en (if Z.eqb z 0 then els else thn)) as [[[r1 e2] t2]| |] eqn:Es; try discriminate. inv Hev.
    rewrite tr_block_stmts in T2, T3.
    destruct (Z.eqb z 0).
    + destruct (IHss _ _ _ _ _ _ _ _ _ T3 (incl_app_r _ _ _ Hu23) (inv_push _ _ Hip) Hen Hg3 Es) as [r' [e2' [Hs [Rr _]]]].
      rewrite Hs. do 2 eexists. split; [reflexivity|]. split; [assumption|]. split; assumption.
    + destruct (IHss _ _ _ _ _ _ _ _ _ T2 (incl_app_l _ _ _ Hu23) (inv_push _ _ Hip) Hen Hg2 Es) as [r' [e2' [Hs [Rr _]]]].
      rewrite Hs. do 2 eexists. split; [reflexivity|]. split; [assumption|]. split; assumption.
  - (* SReturn *) simpl in Hg. simpl in Htr. destruct (tr_exprs c r0) as [r1 u1] eqn:T1. inv Htr. simpl in Hev.
    destruct r0 as [|e0 rest].
    + simpl in T1. inv T1. inv Hev. simpl. do 2 eexists. split; [reflexivity|]. split; [constructor; constructor|]. split; assumption.
    + destruct rest; [|discriminate]. simpl in Hg. rewrite andb_true_r in Hg.
      simpl in T1. destruct (tr_expr c e0) as [e0' u0] eqn:T0. inv T1.
      destruct (eval_e n Go W en e0) as [[v1 t1]| |] eqn:Ea; try discriminate. inv Hev.
      rewrite app_nil_r in Hu.
      destruct (IHe _ _ _ _ _ _ _ _ T0 Hu Hi Hen Hg Ea) as [v1' [Ha Ra]].
      simpl. rewrite Ha. do 2 eexists. split; [reflexivity|]. split; [constructor; assumption|]. split; assumption.
  - (* SBlock *) simpl in Hg. simpl in Htr. destruct (tr_block c b) as [b' u1] eqn:T1. inv Htr. simpl in Hev |- *.
    destruct (eval_ss n Go W en b) as [[[r1 e2] t2]| |] eqn:Es; try discriminate. inv Hev.
    rewrite tr_block_stmts in T1.
    destruct (IHss _ _ _ _ _ _ _ _ _ T1 Hu (inv_push _ _ Hi) Hen Hg Es) as [r' [e2' [Hs [Rr _]]]]. rewrite Hs.
    do 2 eexists. split; [reflexivity|]. split; [assumption|]. split; assumption.
Qed.

Lemma sim_ss_step n W W' : sim_s n W W' -> sim_ss n W W' -> sim_ss (S n) W W'.
Proof.
  intros IHs IHss ss c en en' r en1 tr ss' u Htr Hu Hi Hen Hg Hev.
  destruct ss as [|s t].
  - simpl in *. inv Htr. inv Hev. do 2 eexists. split; [reflexivity|]. split; [constructor | assumption].
  - simpl in Hg. apply andb_prop in Hg. destruct Hg as [Hg1 Hg2]. simpl in Htr.
    destruct (tr_stmt c s) as [[s' c1] u1] eqn:T1. destruct (tr_stmts c1 t) as [t' u2] eqn:T2. inv Htr.
    simpl in Hev |- *.
    destruct (eval_s n Go W en s) as [[[r1 e1] t1]| |] eqn:Ea; try discriminate.
    destruct (IHs _ _ _ _ _ _ _ _ _ _ T1 (incl_app_l _ _ _ Hu) Hi Hen Hg1 Ea) as [r1' [e1' [Ha [Rr [Re Hi1]]]]]. rewrite Ha.
    destruct r1 as [v1|].
    + inv Hev. inversion Rr; subst. do 2 eexists. split; [reflexivity|]. split; [constructor; assumption | assumption].
    + inversion Rr; subst.
      destruct (eval_ss n Go W e1 t) as [[[r2 e2] t2]| |] eqn:Eb; try discriminate. inv Hev.
      destruct (IHss _ _ _ _ _ _ _ _ _ T2 (incl_app_r _ _ _ Hu) Hi1 Re Hg2 Eb) as [r2' [e2' [Hb [Rr2 Re2]]]]. rewrite Hb.
      do 2 eexists. split; [reflexivity|]. split; assumption.
Qed.

Lemma sim_all n : forall W W', wrel W W' ->
  sim_e n W W' /\ sim_args n W W' /\ sim_s n W W' /\ sim_ss n W W'.
Proof.
  induction n as [|n IH]; intros W W' HW.
  - unfold sim_e, sim_args, sim_s, sim_ss. repeat split; intros; simpl in *; congruence.
  - destruct (IH W W' HW) as [He [Ha [Hs Hss]]].
    split; [apply sim_e_step; assumption|].
    split; [apply sim_args_step; assumption|].
    split; [apply sim_s_step; assumption | apply sim_ss_step; assumption].
Qed.

End SimS.
Transparent c25_xgo_builtins c25_print_funcs c25_fmt_path.
