From Coq Require Import List NArith Bool Lia ZifyN ZifyNat ZifyBool.
Import ListNotations.
From V Require Import Base.Prelude Model.C09.

(* ------------------------------------------------------------------ Go //line semantics *)

(* every tagged code line sits at the position its tag names, when the text is read from `cur` *)
Fixpoint chk (ls : list outline) (cur : option (N * N)) : Prop :=
  match ls with
  | [] => True
  | Dir f l _ :: r => chk r (Some (f, l))
  | Doc :: r => chk r (next_pos cur)
  | Code _ None :: r => chk r (next_pos cur)
  | Code _ (Some t) :: r => cur = Some t /\ chk r (next_pos cur)
  end.
Definition ok (ls : list outline) : Prop := chk ls None.

Lemma chk_None_any ls : chk ls None -> forall cur, chk ls cur.
Proof.
  induction ls as [|x r IH]; simpl; auto.
  destruct x as [f l c| |id [t|]]; simpl; intros H cur; auto.
  destruct H as [H _]. discriminate.
Qed.

Lemma chk_app a : forall cur b, chk a cur -> ok b -> chk (a ++ b) cur.
Proof.
  induction a as [|x r IH]; simpl; intros cur b Ha Hb.
  - apply chk_None_any. exact Hb.
  - destruct x as [f l c| |id [t|]]; simpl in *; auto.
    destruct Ha as [E Ha]. split; auto.
Qed.

Lemma ok_app a b : ok a -> ok b -> ok (a ++ b).
Proof. intros. apply chk_app; auto. Qed.

Lemma ok_nil : ok []. Proof. exact I. Qed.
Lemma ok_C0 : ok [C0]. Proof. exact I. Qed.
Lemma ok_cons_C0 ls : ok ls -> ok (C0 :: ls).
Proof. intros H. exact H. Qed.
Lemma ok_cons_untagged id ls : ok ls -> ok (Code id None :: ls).
Proof. intros H. exact H. Qed.

Lemma ok_dir_any c ls : ok ls -> ok (dir_line c ++ ls).
Proof. destruct c as [[f l]|]; simpl; auto. intros H. unfold ok. simpl. apply chk_None_any. exact H. Qed.

(* the central pattern: the directive of a statement immediately followed by its first code line *)
Lemma ok_dir_code (p : pos) id ls : ok ls -> ok (dir_line p ++ Code id p :: ls).
Proof.
  intros H. destruct p as [[f l]|]; unfold ok; simpl.
  - split; auto. apply chk_None_any. exact H.
  - exact H.
Qed.

Lemma chk_docs n : forall f l r, chk r (Some (f, l + N.of_nat n)%N) -> chk (docs n ++ r) (Some (f, l)).
Proof.
  induction n as [|n IH]; simpl; intros f l r H.
  - replace (l + 0)%N with l in H by lia. exact H.
  - apply IH. replace (N.succ l + N.of_nat n)%N with (l + N.pos (Pos.of_succ_nat n))%N by lia. exact H.
Qed.

Lemma ok_dir_docs_code f l k id ls :
  ok ls -> ok (Dir f l true :: docs (N.to_nat k) ++ Code id (Some (f, l + k)%N) :: ls).
Proof.
  intros H. unfold ok. simpl. apply chk_docs. rewrite N2Nat.id. simpl. split; auto.
  apply chk_None_any. exact H.
Qed.

Lemma chk_sound ls : forall cur i id t,
  chk ls cur -> nth_error ls i = Some (Code id (Some t)) -> go_line_from ls cur i = Some t.
Proof.
  induction ls as [|x r IH]; intros cur i id t Hc Hn.
  - destruct i; discriminate.
  - destruct i as [|j]; simpl in Hn.
    + inversion Hn; subst. simpl in *. destruct Hc as [E _]. exact E.
    + destruct x as [f l c| |k [t'|]]; simpl in *; eauto.
      destruct Hc as [_ Hc]. eauto.
Qed.

Lemma ok_sound ls i id t :
  ok ls -> nth_error ls i = Some (Code id (Some t)) -> go_line_of ls i = Some t.
Proof. apply chk_sound. Qed.

(* ------------------------------------------------------------------ the compiler keeps every tagged line anchored *)

Ltac bind_in H :=
  match type of H with
  | bind ?m _ = Ok _ =>
      let E := fresh "E" in
      destruct m as [[? ?]| |] eqn:E; cbn [bind] in H; [|discriminate H|discriminate H]
  end.

Ltac split_guard :=
  repeat match goal with
  | H : _ && _ = true |- _ => apply andb_prop in H; destruct H
  end.

Definition all_ok (o : list (N * list outline)) : Prop := forall g ls, In (g, ls) o -> ok ls.

Lemma all_ok_snoc o g ls : all_ok o -> ok ls -> all_ok (o ++ [(g, ls)]).
Proof.
  intros H1 H2 g' ls' Hin. apply in_app_or in Hin as [Hin|Hin]; [eauto|].
  destruct Hin as [E|[]]. inversion E; subst. exact H2.
Qed.

Lemma ok_print_func p dp hd dk sh bl :
  doc_ok p dp hd dk = true -> ok bl -> ok (print_func p dp hd dk sh bl).
Proof.
  intros Hd Hb. unfold print_func, doc_ok in *.
  assert (Hrest : ok (bl ++ [C0])) by (apply ok_app; [exact Hb|exact ok_C0]).
  destruct hd.
  - destruct p as [[pf pl]|]; [|discriminate]. destruct dp as [[df dl]|]; [|discriminate].
    apply andb_prop in Hd as [H1 H2]. apply N.eqb_eq in H1, H2. subst.
    unfold ok. simpl. apply chk_docs. rewrite N2Nat.id. simpl. split; auto. apply chk_None_any. exact Hrest.
  - apply N.eqb_eq in Hd. subst dk. simpl. destruct p as [[pf pl]|]; unfold ok; simpl.
    + split; auto. apply chk_None_any. exact Hrest.
    + exact Hrest.
Qed.

Lemma find_func_In pr g d : find_func pr g = Some d -> In d pr.
Proof.
  induction pr as [|x t IH]; simpl; [discriminate|].
  destruct x as [g' ? ? ? ? ? ?|? ? ? ? ? ?].
  - destruct (N.eqb g g'); [intros H; inversion H; auto|auto].
  - auto.
Qed.

Section Sound.
Variable pr : prog.
Hypothesis Hwf : wf_prog pr = true.

(* P: the emitted lines are anchored, the functions emitted on the way are anchored *)
Definition P_res (st : state) (ls : list outline) (st' : state) : Prop :=
  ok ls /\ all_ok (outf st').
Definition P_stmt (f : nat) : Prop := forall s st ls st',
  compile_stmt pr f s st = Ok (ls, st') -> wf_stmt s = true -> all_ok (outf st) -> P_res st ls st'.
Definition P_stmts (f : nat) : Prop := forall b st ls st',
  compile_stmts pr f b st = Ok (ls, st') -> wf_stmts b = true -> all_ok (outf st) -> P_res st ls st'.
Definition P_ostmt (f : nat) : Prop := forall o st ls st',
  compile_ostmt pr f o st = Ok (ls, st') -> wf_ostmt o = true -> all_ok (outf st) -> P_res st ls st'.
(* compiling the expressions of a header never changes cb.comments: function literals restore it
   (compileFuncLit) and so does a lazily loaded function body (loadFuncBody) *)
Definition P_parts (f : nat) : Prop := forall ps st ls st',
  compile_parts pr f ps st = Ok (ls, st') -> wf_parts ps = true -> all_ok (outf st) ->
  P_res st ls st' /\ cm st' = cm st.
Definition P_els (f : nat) : Prop := forall e st ls st',
  compile_els pr f e st = Ok (ls, st') -> wf_els e = true -> all_ok (outf st) -> P_res st ls st'.
Definition P_clauses (f : nat) : Prop := forall cs st ls st',
  compile_clauses pr f cs st = Ok (ls, st') -> wf_clauses cs = true -> all_ok (outf st) -> P_res st ls st'.
Definition P_load (f : nat) : Prop := forall g st st',
  load_func pr f g st = Ok st' -> all_ok (outf st) -> all_ok (outf st') /\ cm st' = cm st.

Definition P_all (f : nat) : Prop :=
  P_stmt f /\ P_stmts f /\ P_ostmt f /\ P_parts f /\ P_els f /\ P_clauses f /\ P_load f.

Lemma ok_dir_header (p : pos) id init il rest :
  ok il -> ok rest -> ok (dir_line p ++ header id p init il ++ rest).
Proof.
  intros Hi Hr. destruct init; simpl.
  - apply ok_dir_code. exact Hr.
  - apply ok_dir_any. apply ok_cons_C0. apply ok_app; auto.
Qed.

Ltac ih IH E :=
  apply IH in E;
  [ | assumption | unfold comment_stmt, comment_decl, set_cm, set_unl; cbn [unl cm outf]; assumption ];
  unfold P_res, comment_stmt, set_cm, set_unl in E; cbn [unl cm outf] in E.

Lemma P_step f : P_all f -> P_all (S f).
Proof.
  intros (IHs & IHss & IHo & IHp & IHe & IHc & IHl).
  unfold P_all. unfold P_stmt, P_stmts, P_ostmt, P_parts, P_els, P_clauses, P_load in *.
  refine (conj _ (conj _ (conj _ (conj _ (conj _ (conj _ _)))))).
  - (* compile_stmt *)
    intros s st ls st' H Hw Ha. unfold P_res. destruct s; cbn [compile_stmt wf_stmt] in H, Hw.
    + (* SSimple *)
      bind_in H. inversion H; subst; clear H.
      ih IHp E. destruct E as ((Hok & Ha1) & Hc).
      rewrite Hc. split; [apply ok_dir_code; exact Hok | exact Ha1].
    + (* SDecl *)
      bind_in H. inversion H; subst; clear H. split_guard.
      assert (Ho : outf (comment_decl p docp hasdoc st) = outf st) by (destruct p, hasdoc; reflexivity).
      apply IHp in E; [|assumption|rewrite Ho; assumption].
      destruct E as ((Hok & Ha1) & Hc). split; [|exact Ha1].
      rewrite Hc. unfold doc_ok in H. destruct hasdoc.
      * destruct p as [[pf pl]|]; [|discriminate]. destruct docp as [[df dl]|]; [|discriminate].
        apply andb_prop in H as [H1 H2]. apply N.eqb_eq in H1, H2. subst.
        cbn. apply chk_docs. rewrite N2Nat.id. simpl. split; auto. apply chk_None_any. exact Hok.
      * apply N.eqb_eq in H. subst docskip. simpl. destruct p as [[pf pl]|]; apply ok_dir_code; exact Hok.
    + (* SBlock *)
      bind_in H. inversion H; subst; clear H.
      ih IHss E. destruct E as (Hok & Ha1).
      split; [|exact Ha1]. apply ok_dir_any. apply ok_cons_C0. apply ok_app; [exact Hok|exact ok_C0].
    + (* SIf *)
      bind_in H. bind_in H. bind_in H. bind_in H. inversion H; subst; clear H. split_guard.
      ih IHo E. destruct E as (Ho1 & A1).
      ih IHp E0. destruct E0 as ((Ho2 & A2) & _).
      ih IHss E1. destruct E1 as (Ho3 & A3).
      ih IHe E2. destruct E2 as (Ho4 & A4).
      split; [|exact A4].
      unfold comment_stmt, set_cm; cbn [cm]. apply ok_dir_header; auto. repeat apply ok_app; auto.
    + (* SFor *)
      bind_in H. bind_in H. bind_in H. bind_in H. inversion H; subst; clear H. split_guard.
      ih IHo E. destruct E as (Ho1 & A1).
      ih IHp E0. destruct E0 as ((Ho2 & A2) & _).
      ih IHss E1. destruct E1 as (Ho3 & A3).
      ih IHo E2. destruct E2 as (Ho4 & A4).
      split; [|exact A4].
      unfold comment_stmt, set_cm; cbn [cm]. apply ok_dir_header; auto. repeat apply ok_app; auto. exact ok_C0.
    + (* SRange *)
      bind_in H. bind_in H. inversion H; subst; clear H. split_guard.
      ih IHp E. destruct E as ((Ho1 & A1) & _).
      ih IHss E0. destruct E0 as (Ho2 & A2).
      split; [|exact A2].
      unfold comment_stmt, set_cm; cbn [cm]. apply ok_cons_C0. apply ok_dir_code. repeat apply ok_app; auto. exact ok_C0.
    + (* SPhraseIf *)
      bind_in H. bind_in H. bind_in H. inversion H; subst; clear H. split_guard.
      ih IHp E. destruct E as ((Ho1 & A1) & _).
      ih IHp E0. destruct E0 as ((Ho2 & A2) & _).
      ih IHss E1. destruct E1 as (Ho3 & A3).
      split; [|exact A3].
      unfold comment_stmt, set_cm; cbn [cm]. apply ok_cons_C0. apply ok_dir_code.
      apply ok_app; auto. apply ok_app; [|exact ok_C0].
      apply ok_dir_any. apply ok_cons_untagged. repeat apply ok_app; auto. exact ok_C0.
    + (* SSwitch *)
      bind_in H. bind_in H. bind_in H. inversion H; subst; clear H. split_guard.
      ih IHo E. destruct E as (Ho1 & A1).
      ih IHp E0. destruct E0 as ((Ho2 & A2) & _).
      ih IHc E1. destruct E1 as (Ho3 & A3).
      split; [|exact A3].
      unfold comment_stmt, set_cm; cbn [cm]. apply ok_dir_header; auto. repeat apply ok_app; auto. exact ok_C0.
    + (* SSelect *)
      bind_in H. inversion H; subst; clear H.
      ih IHc E. destruct E as (Ho1 & A1).
      split; [|exact A1].
      apply ok_dir_any. apply ok_cons_C0. apply ok_app; auto. destruct cs; [exact ok_nil|exact ok_C0].
    + (* SLabeled *)
      bind_in H. inversion H; subst; clear H.
      ih IHs E. destruct E as (Ho1 & A1). split; [apply ok_cons_C0; exact Ho1|exact A1].
  - (* compile_stmts *)
    intros b st ls st' H Hw Ha. unfold P_res. destruct b; cbn [compile_stmts wf_stmts] in H, Hw.
    + inversion H; subst. split; [exact ok_nil|exact Ha].
    + bind_in H. bind_in H. inversion H; subst; clear H. split_guard.
      ih IHs E. destruct E as (Ho1 & A1).
      ih IHss E0. destruct E0 as (Ho2 & A2).
      split; [apply ok_app; auto|exact A2].
  - (* compile_ostmt *)
    intros o st ls st' H Hw Ha. unfold P_res. destruct o; cbn [compile_ostmt wf_ostmt] in H, Hw.
    + inversion H; subst. split; [exact ok_nil|exact Ha].
    + apply IHs in H; auto.
  - (* compile_parts *)
    intros ps st ls st' H Hw Ha. unfold P_res. destruct ps; cbn [compile_parts wf_parts] in H, Hw.
    + inversion H; subst. split; [split; [exact ok_nil|exact Ha]|reflexivity].
    + (* PRef: the referred function may be loaded right here *)
      destruct (memN g (unl st)) eqn:Em; rewrite ?Em in H; lazy beta match in H.
      * match type of H with bind ?m _ = _ => destruct m as [st1| |] eqn:El; cbn [bind] in H; try discriminate H end.
        apply IHl in El; [|unfold set_unl; cbn [outf]; exact Ha]. destruct El as (A1 & C1).
        unfold set_unl in C1. cbn [cm] in C1.
        apply IHp in H; auto. destruct H as (R & C2). split; [exact R|congruence].
      * cbn [bind] in H. apply IHp in H; auto.
    + bind_in H. bind_in H. inversion H; subst; clear H. split_guard.
      ih IHss E. destruct E as (Ho1 & A1).
      ih IHp E0. destruct E0 as ((Ho2 & A2) & Hc2).
      split; [split|].
      * apply ok_app; auto.
      * exact A2.
      * exact Hc2.
    + bind_in H. bind_in H. inversion H; subst; clear H. split_guard.
      ih IHp E. destruct E as ((Ho1 & A1) & Hc1).
      ih IHp E0. destruct E0 as ((Ho2 & A2) & Hc2).
      split; [split|].
      * apply ok_dir_any. apply ok_cons_untagged. apply ok_app; auto.
      * exact A2.
      * congruence.
  - (* compile_els *)
    intros e st ls st' H Hw Ha. unfold P_res. destruct e; cbn [compile_els wf_els] in H, Hw.
    + inversion H; subst. split; [exact ok_C0|exact Ha].
    + bind_in H. inversion H; subst; clear H. ih IHss E. destruct E as (Ho1 & A1).
      split; auto.
      assert (A : ok (C0 :: l)) by (apply ok_cons_C0; exact Ho1).
      assert (B : ok (C0 :: l ++ [C0])) by (apply ok_cons_C0; apply ok_app; auto; exact ok_C0).
      destruct b as [|[] []]; auto.
    + bind_in H. inversion H; subst; clear H. ih IHs E. destruct E as (Ho1 & A1).
      split; auto.
  - (* compile_clauses *)
    intros cs st ls st' H Hw Ha. unfold P_res. destruct cs; cbn [compile_clauses wf_clauses] in H, Hw.
    + inversion H; subst. split; [exact ok_nil|exact Ha].
    + bind_in H. bind_in H. bind_in H. bind_in H. inversion H; subst; clear H. split_guard.
      ih IHp E. destruct E as ((Ho1 & A1) & _).
      ih IHo E0. destruct E0 as (Ho2 & A2).
      ih IHss E1. destruct E1 as (Ho3 & A3).
      ih IHc E2. destruct E2 as (Ho4 & A4).
      split; [|exact A4].
      unfold comment_stmt, set_cm; cbn [cm].
      assert (Hrest : ok (l ++ l1 ++ (if ft then dir_line (cm s1) ++ [C0] else []) ++ l2)).
      { repeat apply ok_app; auto. destruct ft; [apply ok_dir_any; exact ok_C0|exact ok_nil]. }
      destruct comm; simpl.
      * apply ok_dir_code. exact Hrest.
      * apply ok_dir_any. apply ok_cons_C0. apply ok_app; auto.
  - (* load_func *)
    intros g st st' H Ha. cbn [load_func] in H.
    destruct (find_func pr g) as [[g' p dp hd dk sh body|g' p dp hd dk body]|] eqn:Ef;
      [|inversion H; subst; auto|inversion H; subst; auto].
    match type of H with bind ?m _ = _ => destruct m as [[bl st1]| |] eqn:E; cbn [bind] in H; try discriminate H end.
    inversion H; subst; clear H.
    assert (Hd : wf_decl (DFunc g' p dp hd dk sh body) = true).
    { unfold wf_prog in Hwf. rewrite forallb_forall in Hwf. apply Hwf. eapply find_func_In; eauto. }
    cbn [wf_decl] in Hd. apply andb_prop in Hd as [Hdoc Hbody].
    apply IHss in E; [|exact Hbody|unfold set_cm; cbn [outf]; exact Ha].
    destruct E as (Hbl & A1). unfold add_out, set_cm. cbn [outf cm]. split; [|reflexivity].
    apply all_ok_snoc; auto. apply ok_print_func; auto.
Qed.

Lemma P_zero : P_all 0.
Proof.
  unfold P_all. refine (conj _ (conj _ (conj _ (conj _ (conj _ (conj _ _))))));
    [intros x st ls st' H; discriminate H ..|intros g st st' H; discriminate H].
Qed.

Lemma P_any f : P_all f.
Proof. induction f; [exact P_zero|apply P_step; assumption]. Qed.

(* ---------------- whole packages ---------------- *)

Lemma load_decls_ok fuel : forall ds st st',
  all_ok (outf st) -> load_decls pr fuel ds st = Ok st' -> all_ok (outf st').
Proof.
  induction ds as [|d t IH]; intros st st' Ha H.
  - simpl in H. inversion H; subst. exact Ha.
  - destruct d as [g p dp hd dk sh body|g p dp hd dk body]; cbn [load_decls] in H; [|eauto].
    destruct (memN g (unl st)).
    + destruct (load_func pr fuel g (set_unl (removeN g (unl st)) st)) as [st1| |] eqn:El; cbn [bind] in H; try discriminate H.
      destruct (P_any fuel) as (_ & _ & _ & _ & _ & _ & Pl). unfold P_load in Pl. apply Pl in El; [|unfold set_unl; cbn [outf]; exact Ha].
      destruct El as [A1 _]. eauto.
    + cbn [bind] in H. eauto.
Qed.

Lemma load_methods_ok fuel : forall ds st st',
  (forall d, In d ds -> wf_decl d = true) -> all_ok (outf st) ->
  load_methods pr fuel ds st = Ok st' -> all_ok (outf st').
Proof.
  induction ds as [|d t IH]; intros st st' Hds Ha H.
  - simpl in H. inversion H; subst. exact Ha.
  - destruct d as [g p dp hd dk sh body|g p dp hd dk body]; cbn [load_methods] in H.
    + apply (IH st st'); auto. intros d Hd. apply Hds. right. exact Hd.
    + match type of H with bind ?m _ = _ => destruct m as [[bl st1]| |] eqn:E; cbn [bind] in H; try discriminate H end.
      assert (Hd : wf_decl (DMethod g p dp hd dk body) = true) by (apply Hds; left; reflexivity).
      cbn [wf_decl] in Hd. apply andb_prop in Hd as [Hdoc Hbody].
      destruct (P_any fuel) as (_ & Pss & _). unfold P_stmts, P_res in Pss. apply Pss in E; [|exact Hbody|unfold set_cm; cbn [outf]; exact Ha].
      destruct E as (Hbl & A1).
      refine (IH _ st' _ _ H).
      * intros d Hd. apply Hds. right. exact Hd.
      * unfold add_out. cbn [outf]. apply all_ok_snoc; auto. apply ok_print_func; auto.
Qed.

Lemma compile_prog_ok fuel out : compile_prog fuel pr = Ok out -> all_ok out.
Proof.
  intros H. unfold compile_prog in H.
  destruct (load_decls pr fuel pr _) as [st| |] eqn:E1; cbn [bind] in H; try discriminate H.
  destruct (load_methods pr fuel pr st) as [st'| |] eqn:E2; cbn [bind] in H; try discriminate H.
  inversion H; subst.
  apply load_decls_ok in E1; [|intros g ls []].
  eapply load_methods_ok in E2; eauto.
  intros d Hd. unfold wf_prog in Hwf. rewrite forallb_forall in Hwf. auto.
Qed.

End Sound.

(* the property: in the Go text emitted for every function, the line holding the first code of a source
   statement (and the header of the function) is attributed by Go to the XGo position of that statement *)
Lemma directive_maps_first_line pr fuel out g ls i id t :
  wf_prog pr = true ->
  compile_prog fuel pr = Ok out -> In (g, ls) out ->
  nth_error ls i = Some (Code id (Some t)) -> go_line_of ls i = Some t.
Proof.
  intros Hwf H Hin Hn. eapply ok_sound; eauto. eapply compile_prog_ok; eauto.
Qed.

Lemma stmts_anchored pr fuel b st ls st' :
  wf_prog pr = true -> wf_stmts b = true -> all_ok (outf st) ->
  compile_stmts pr fuel b st = Ok (ls, st') -> ok ls.
Proof.
  intros Hwf Hb Ha H. destruct (P_any pr Hwf fuel) as (_ & Pss & _).
  destruct (Pss _ _ _ _ H Hb Ha) as [A _]. exact A.
Qed.

(* lemmas about name lists used by the termination proof *)
Lemma memN_app x a b : memN x (a ++ b) = memN x a || memN x b.
Proof. induction a as [|y a IH]; simpl; auto. rewrite IH. now rewrite orb_assoc. Qed.

Lemma nodupb_app_cons a g b :
  nodupb (a ++ g :: b) = true -> memN g a = false /\ memN g b = false /\ nodupb (a ++ b) = true.
Proof.
  induction a as [|y a IH]; simpl.
  - intros H. apply andb_prop in H as [H1 H2]. apply negb_true_iff in H1. auto.
  - intros H. apply andb_prop in H as [H1 H2]. apply negb_true_iff in H1.
    rewrite memN_app in H1. simpl in H1. apply orb_false_iff in H1 as [H3 H4].
    apply orb_false_iff in H4 as [H4 H5].
    destruct (IH H2) as (A & B & C). repeat split; auto.
    + apply orb_false_iff. split; auto. rewrite N.eqb_sym. exact H4.
    + rewrite C. rewrite memN_app, H3, H5. reflexivity.
Qed.

Lemma func_names_app a b : func_names (a ++ b) = func_names a ++ func_names b.
Proof. unfold func_names. apply flat_map_app. Qed.

Lemma find_func_app pre g p dp hd dk sh body t :
  memN g (func_names pre) = false ->
  find_func (pre ++ DFunc g p dp hd dk sh body :: t) g = Some (DFunc g p dp hd dk sh body).
Proof.
  induction pre as [|d pre IH]; simpl.
  - intros _. now rewrite N.eqb_refl.
  - destruct d as [g' ? ? ? ? ? ?|? ? ? ? ? ?]; simpl; auto.
    intros H. apply orb_false_iff in H as [H1 H2]. rewrite H1. auto.
Qed.

(* ------------------------------------------------------------------ termination: the fuel prog_fuel suffices *)

Section Fuel.
Variable pr : prog.

Definition gsize (g : N) : nat := match find_func pr g with Some d => size_decl d | None => 0 end.
Fixpoint usize (u : list N) : nat := match u with [] => 0 | g :: t => gsize g + usize t end.

Lemma usize_remove g u : memN g u = true -> (usize (removeN g u) + gsize g <= usize u)%nat.
Proof.
  induction u as [|y t IH]; simpl; [discriminate|].
  destruct (N.eqb g y) eqn:E.
  - apply N.eqb_eq in E. subst y. intros _. destruct (memN g t) eqn:Et.
    + specialize (IH eq_refl). lia.
    + clear IH. assert (H : removeN g t = t).
      { clear -Et. induction t as [|z t IH]; simpl in *; auto. apply orb_false_iff in Et as [A B]. rewrite A. f_equal. auto. }
      rewrite H. lia.
  - simpl. intros H. specialize (IH H). simpl. lia.
Qed.

(* a call with enough fuel returns Ok and does not grow the set of unloaded functions *)
Definition T_res (st : state) (r : M R) : Prop :=
  exists ls st', r = Ok (ls, st') /\ (usize (unl st') <= usize (unl st))%nat.
Definition T_stmt (f : nat) : Prop := forall s st, (size_stmt s + usize (unl st) <= f)%nat -> T_res st (compile_stmt pr f s st).
Definition T_stmts (f : nat) : Prop := forall b st, (size_stmts b + usize (unl st) <= f)%nat -> T_res st (compile_stmts pr f b st).
Definition T_ostmt (f : nat) : Prop := forall o st, (size_ostmt o + usize (unl st) <= f)%nat -> T_res st (compile_ostmt pr f o st).
Definition T_parts (f : nat) : Prop := forall ps st, (size_parts ps + usize (unl st) <= f)%nat -> T_res st (compile_parts pr f ps st).
Definition T_els (f : nat) : Prop := forall e st, (size_els e + usize (unl st) <= f)%nat -> T_res st (compile_els pr f e st).
Definition T_clauses (f : nat) : Prop := forall cs st, (size_clauses cs + usize (unl st) <= f)%nat -> T_res st (compile_clauses pr f cs st).
Definition T_load (f : nat) : Prop := forall g st, (1 + gsize g + usize (unl st) <= f)%nat ->
  exists st', load_func pr f g st = Ok st' /\ (usize (unl st') <= usize (unl st))%nat.
Definition T_all (f : nat) : Prop :=
  T_stmt f /\ T_stmts f /\ T_ostmt f /\ T_parts f /\ T_els f /\ T_clauses f /\ T_load f.

(* run one sub-call: obtain its result and the bound on the new state *)
Ltac use_eq E :=
  match goal with
  | |- context [bind ?m _] =>
      match type of E with _ = ?r => replace m with r by (symmetry; exact E) end
  end; cbn [bind].
Ltac sub IH x st0 :=
  let ls := fresh "l" in let s1 := fresh "s" in let E := fresh "E" in let U := fresh "U" in
  destruct (IH x st0) as (ls & s1 & E & U);
  [ unfold comment_stmt, comment_decl, set_cm, set_unl in *; cbn [unl cm outf] in *; try lia
  | use_eq E ].

Lemma size_parts_pos ps : (1 <= size_parts ps)%nat.
Proof. destruct ps; simpl; lia. Qed.

Ltac fin := unfold comment_stmt, comment_decl, set_cm, set_unl, add_out in *; cbn [unl] in *; lia.

Lemma T_step f : T_all f -> T_all (S f).
Proof.
  intros (Is & Iss & Io & Ip & Ie & Ic & Il).
  unfold T_all, T_stmt, T_stmts, T_ostmt, T_parts, T_els, T_clauses, T_load, T_res in *.
  refine (conj _ (conj _ (conj _ (conj _ (conj _ (conj _ _)))))).
  - intros s st H. destruct s; cbn [compile_stmt compile_stmts compile_ostmt compile_parts compile_els compile_clauses load_func size_stmt] in *.
    + sub Ip ps (comment_stmt p st). eexists. eexists. split; [reflexivity|fin].
    + assert (Hu : unl (comment_decl p docp hasdoc st) = unl st) by (destruct p, hasdoc; reflexivity).
      destruct (Ip ps (comment_decl p docp hasdoc st)) as (l & s1 & E & U); [rewrite Hu; lia|].
      use_eq E. eexists. eexists. split; [reflexivity|rewrite Hu in U; exact U].
    + sub Iss b (comment_stmt p st). eexists. eexists. split; [reflexivity|fin].
    + sub Io init (comment_stmt p st). sub Ip ps s. sub Iss b s0. sub Ie e s1.
      eexists. eexists. split; [reflexivity|fin].
    + sub Io init (comment_stmt p st). sub Ip ps s. sub Iss b s0. sub Io post s1.
      eexists. eexists. split; [reflexivity|fin].
    + sub Ip ps (comment_stmt p st). sub Iss b s.
      eexists. eexists. split; [reflexivity|fin].
    + sub Ip ps (comment_stmt p st). sub Ip cps s. sub Iss b s0.
      eexists. eexists. split; [reflexivity|fin].
    + sub Io init (comment_stmt p st). sub Ip ps s. sub Ic cs s0.
      eexists. eexists. split; [reflexivity|fin].
    + sub Ic cs (comment_stmt p st).
      eexists. eexists. split; [reflexivity|fin].
    + sub Is s (comment_stmt p st). eexists. eexists. split; [reflexivity|fin].
  - intros b st H. destruct b; cbn [compile_stmt compile_stmts compile_ostmt compile_parts compile_els compile_clauses load_func size_stmts] in *.
    + eexists. eexists. split; [reflexivity|fin].
    + sub Is s st. sub Iss b s0. eexists. eexists. split; [reflexivity|fin].
  - intros o st H. destruct o; cbn [compile_stmt compile_stmts compile_ostmt compile_parts compile_els compile_clauses load_func size_ostmt] in *.
    + eexists. eexists. split; [reflexivity|fin].
    + destruct (Is s st) as (l & s1 & E & U); [lia|]. eauto.
  - intros ps st H. destruct ps; cbn [compile_stmt compile_stmts compile_ostmt compile_parts compile_els compile_clauses load_func size_parts] in *.
    + eexists. eexists. split; [reflexivity|fin].
    + destruct (memN g (unl st)) eqn:Em.
      * pose proof (usize_remove g (unl st) Em) as Hr. pose proof (size_parts_pos ps) as Hpos.
        destruct (Il g (set_unl (removeN g (unl st)) st)) as (s1 & E & U); [unfold set_unl; cbn [unl]; lia|].
        use_eq E. unfold set_unl in U. cbn [unl] in U.
        destruct (Ip ps s1) as (l & s2 & E2 & U2); [lia|]. exists l, s2. split; [exact E2|fin].
      * cbn [bind]. destruct (Ip ps st) as (l & s2 & E2 & U2); [lia|]. exists l, s2. split; [exact E2|fin].
    + sub Iss b (set_cm None st). sub Ip ps (set_cm (cm st) s).
      eexists. eexists. split; [reflexivity|fin].
    + sub Ip ps1 st. sub Ip ps2 s. eexists. eexists. split; [reflexivity|fin].
  - intros e st H. destruct e; cbn [compile_stmt compile_stmts compile_ostmt compile_parts compile_els compile_clauses load_func size_els] in *.
    + eexists. eexists. split; [reflexivity|fin].
    + sub Iss b st. eexists. eexists. split; [reflexivity|fin].
    + sub Is s st. eexists. eexists. split; [reflexivity|fin].
  - intros cs st H. destruct cs; cbn [compile_stmt compile_stmts compile_ostmt compile_parts compile_els compile_clauses load_func size_clauses] in *.
    + eexists. eexists. split; [reflexivity|fin].
    + sub Ip ps st. sub Io comm s. sub Iss b s0. sub Ic cs (comment_stmt p s1).
      eexists. eexists. split; [reflexivity|fin].
  - intros g st H. cbn [compile_stmt compile_stmts compile_ostmt compile_parts compile_els compile_clauses load_func]. unfold gsize in H.
    destruct (find_func pr g) as [[g' p dp hd dk sh body|g' p dp hd dk body]|] eqn:Ef.
    + simpl size_decl in H. destruct (Iss body (set_cm None st)) as (l & s1 & E & U); [unfold set_cm; cbn [unl]; lia|].
      use_eq E. eexists. split; [reflexivity|]. unfold add_out, set_cm in *. cbn [unl] in *. lia.
    + eexists. split; [reflexivity|fin].
    + eexists. split; [reflexivity|fin].
Qed.

Lemma T_zero : T_all 0.
Proof.
  unfold T_all, T_stmt, T_stmts, T_ostmt, T_parts, T_els, T_clauses, T_load.
  refine (conj _ (conj _ (conj _ (conj _ (conj _ (conj _ _)))))).
  - intros s st H. destruct s; simpl in H; lia.
  - intros b st H. destruct b; simpl in H; lia.
  - intros o st H. destruct o; simpl in H; lia.
  - intros ps st H. destruct ps; simpl in H; lia.
  - intros e st H. destruct e; simpl in H; lia.
  - intros cs st H. destruct cs; simpl in H; lia.
  - intros g st H. lia.
Qed.

Lemma T_any f : T_all f.
Proof. induction f; [exact T_zero|apply T_step; assumption]. Qed.

End Fuel.

Section FuelTop.
Variable pr : prog.

Definition funcs_total (ds : list decl) : nat :=
  fold_right (fun d n => match d with DFunc _ _ _ _ _ _ _ => size_decl d + n | _ => n end) 0%nat ds.
Definition meths_total (ds : list decl) : nat :=
  fold_right (fun d n => match d with DMethod _ _ _ _ _ _ => size_decl d + n | _ => n end) 0%nat ds.

Lemma totals_sum ds : (funcs_total ds + meths_total ds = fold_right (fun d n => size_decl d + n) 0 ds)%nat.
Proof. induction ds as [|d t IH]; simpl; auto. destruct d; simpl in *; lia. Qed.

Lemma usize_le_total : forall ds pre,
  pr = pre ++ ds -> nodupb (func_names pr) = true -> (usize pr (func_names ds) <= funcs_total ds)%nat.
Proof.
  induction ds as [|d t IH]; intros pre Hpr Hnd; simpl; auto.
  destruct d as [g p dp hd dk sh body|g p dp hd dk body].
  - change (func_names (DFunc g p dp hd dk sh body :: t)) with (g :: func_names t). cbn [usize funcs_total fold_right].
    pose proof Hnd as Hnd0. rewrite Hpr, func_names_app in Hnd.
    change (func_names (DFunc g p dp hd dk sh body :: t)) with (g :: func_names t) in Hnd.
    apply nodupb_app_cons in Hnd as (Hg1 & _ & _).
    assert (Hff : find_func pr g = Some (DFunc g p dp hd dk sh body)) by (rewrite Hpr; apply find_func_app; exact Hg1).
    change (usize pr ([g] ++ func_names t)) with (gsize pr g + usize pr (func_names t))%nat.
    unfold gsize. rewrite Hff.
    specialize (IH (pre ++ [DFunc g p dp hd dk sh body])). rewrite <- app_assoc in IH. specialize (IH Hpr Hnd0).
    fold (funcs_total t). lia.
  - change (func_names (DMethod g p dp hd dk body :: t)) with (func_names t). cbn [funcs_total fold_right].
    specialize (IH (pre ++ [DMethod g p dp hd dk body])). rewrite <- app_assoc in IH. exact (IH Hpr Hnd).
Qed.

Lemma load_decls_total fuel : forall ds st,
  (1 + usize pr (unl st) <= fuel)%nat ->
  exists st', load_decls pr fuel ds st = Ok st' /\ (usize pr (unl st') <= usize pr (unl st))%nat.
Proof.
  induction ds as [|d t IH]; intros st H; simpl.
  - eauto.
  - destruct d as [g p dp hd dk sh body|g p dp hd dk body]; [|apply IH; exact H].
    destruct (memN g (unl st)) eqn:Em.
    + pose proof (usize_remove pr g (unl st) Em) as Hr.
      destruct (T_any pr fuel) as (_ & _ & _ & _ & _ & _ & Tl). unfold T_load in Tl.
      destruct (Tl g (set_unl (removeN g (unl st)) st)) as (s1 & E & U); [unfold set_unl; cbn [unl]; lia|].
      rewrite E. cbn [bind]. unfold set_unl in U. cbn [unl] in U.
      destruct (IH s1) as (s2 & E2 & U2); [lia|]. exists s2. split; [exact E2|lia].
    + cbn [bind]. apply IH. exact H.
Qed.

Lemma load_methods_total fuel : forall ds st,
  (meths_total ds + usize pr (unl st) <= fuel)%nat ->
  exists st', load_methods pr fuel ds st = Ok st'.
Proof.
  induction ds as [|d t IH]; intros st H; simpl.
  - eauto.
  - destruct d as [g p dp hd dk sh body|g p dp hd dk body]; cbn [meths_total fold_right] in H; [apply IH; exact H|].
    fold (meths_total t) in H. simpl size_decl in H.
    destruct (T_any pr fuel) as (_ & Tss & _). unfold T_stmts, T_res in Tss.
    destruct (Tss body (set_cm None st)) as (l & s1 & E & U); [unfold set_cm; cbn [unl]; lia|].
    rewrite E. cbn [bind]. apply IH. unfold add_out, set_cm in *. cbn [unl] in *. lia.
Qed.

(* the model always terminates within prog_fuel, and never panics *)
Lemma compile_prog_total :
  nodupb (func_names pr) = true -> exists out, compile_prog (prog_fuel pr) pr = Ok out.
Proof.
  intros Hnd. unfold compile_prog.
  pose proof (usize_le_total pr [] eq_refl Hnd) as Hu.
  pose proof (totals_sum pr) as Hs.
  assert (Hf : prog_fuel pr = (1 + fold_right (fun d n => size_decl d + n) 0 pr)%nat) by reflexivity.
  destruct (load_decls_total (prog_fuel pr) pr (mkst None (func_names pr) [])) as (st & E & U); [cbn [unl]; lia|].
  rewrite E. cbn [bind]. cbn [unl] in U.
  destruct (load_methods_total (prog_fuel pr) pr st) as (st' & E'); [lia|].
  rewrite E'. cbn [bind]. eauto.
Qed.

End FuelTop.


(* ------------------------------------------------------------------ every statement is emitted, in order, and nothing else is tagged *)

Lemma line_tags_app a b : line_tags (a ++ b) = line_tags a ++ line_tags b.
Proof. unfold line_tags. apply flat_map_app. Qed.
Lemma somes_app a b : somes (a ++ b) = somes a ++ somes b.
Proof. unfold somes. apply flat_map_app. Qed.
Lemma line_tags_dir c : line_tags (dir_line c) = [].
Proof. destruct c as [[f l]|]; reflexivity. Qed.
Lemma line_tags_docs n : line_tags (docs n) = [].
Proof. induction n; simpl; auto. Qed.
Lemma line_tags_code id p ls : line_tags (Code id p :: ls) = somes [p] ++ line_tags ls.
Proof. destruct p; reflexivity. Qed.
Lemma line_tags_C0 ls : line_tags (C0 :: ls) = line_tags ls.
Proof. reflexivity. Qed.
Lemma somes_cons p l : somes (p :: l) = somes [p] ++ somes l.
Proof. destruct p; reflexivity. Qed.
Lemma line_tags_header id p init il :
  line_tags (header id p init il) = somes (hdr_tag p init) ++ (match init with ONone => [] | OSome _ => line_tags il end).
Proof. destruct init; cbn [header hdr_tag]; [rewrite line_tags_code; reflexivity|reflexivity]. Qed.

Section Complete.
Variable pr : prog.

Definition C_stmt (f : nat) : Prop := forall s st ls st', compile_stmt pr f s st = Ok (ls, st') -> line_tags ls = somes (tags_stmt s).
Definition C_stmts (f : nat) : Prop := forall b st ls st', compile_stmts pr f b st = Ok (ls, st') -> line_tags ls = somes (tags_stmts b).
Definition C_ostmt (f : nat) : Prop := forall o st ls st', compile_ostmt pr f o st = Ok (ls, st') -> line_tags ls = somes (tags_ostmt o).
Definition C_parts (f : nat) : Prop := forall ps st ls st', compile_parts pr f ps st = Ok (ls, st') -> line_tags ls = somes (tags_parts ps).
Definition C_els (f : nat) : Prop := forall e st ls st', compile_els pr f e st = Ok (ls, st') -> line_tags ls = somes (tags_els e).
Definition C_clauses (f : nat) : Prop := forall cs st ls st', compile_clauses pr f cs st = Ok (ls, st') -> line_tags ls = somes (tags_clauses cs).
Definition C_all (f : nat) : Prop := C_stmt f /\ C_stmts f /\ C_ostmt f /\ C_parts f /\ C_els f /\ C_clauses f.

Ltac tagnorm :=
  repeat first [ rewrite line_tags_app | rewrite line_tags_dir | rewrite line_tags_docs | rewrite line_tags_C0
               | rewrite line_tags_code | rewrite line_tags_header | rewrite somes_app | rewrite (somes_cons _ (_ ++ _))
               | rewrite (somes_cons _ (tags_parts _)) ];
  cbn [app]; rewrite ?app_nil_r, <- ?app_assoc.

Lemma C_step f : C_all f -> C_all (S f).
Proof.
  intros (Is & Iss & Io & Ip & Ie & Ic).
  unfold C_all, C_stmt, C_stmts, C_ostmt, C_parts, C_els, C_clauses in *.
  refine (conj _ (conj _ (conj _ (conj _ (conj _ _))))).
  - intros s st ls st' H. destruct s; cbn [compile_stmt tags_stmt] in H |- *.
    + bind_in H. inversion H; subst; clear H. apply Ip in E. tagnorm. rewrite E. reflexivity.
    + bind_in H. inversion H; subst; clear H. apply Ip in E. tagnorm. rewrite E. reflexivity.
    + bind_in H. inversion H; subst; clear H. apply Iss in E. tagnorm. rewrite E. reflexivity.
    + bind_in H. bind_in H. bind_in H. bind_in H. inversion H; subst; clear H.
      apply Io in E. apply Ip in E0. apply Iss in E1. apply Ie in E2.
      tagnorm. rewrite E0, E1, E2. destruct init; cbn [tags_ostmt app somes flat_map] in *; rewrite ?E; reflexivity.
    + bind_in H. bind_in H. bind_in H. bind_in H. inversion H; subst; clear H.
      apply Io in E. apply Ip in E0. apply Iss in E1. apply Io in E2.
      tagnorm. rewrite E0, E1, E2. destruct init; cbn [tags_ostmt app somes flat_map] in *; rewrite ?E; reflexivity.
    + bind_in H. bind_in H. inversion H; subst; clear H. apply Ip in E. apply Iss in E0.
      tagnorm. rewrite E, E0. reflexivity.
    + bind_in H. bind_in H. bind_in H. inversion H; subst; clear H. apply Ip in E. apply Ip in E0. apply Iss in E1.
      tagnorm. rewrite E, E0, E1. reflexivity.
    + bind_in H. bind_in H. bind_in H. inversion H; subst; clear H. apply Io in E. apply Ip in E0. apply Ic in E1.
      tagnorm. rewrite E0, E1. destruct init; cbn [tags_ostmt app somes flat_map] in *; rewrite ?E; reflexivity.
    + bind_in H. inversion H; subst; clear H. apply Ic in E. tagnorm. rewrite E. destruct cs; tagnorm; reflexivity.
    + bind_in H. inversion H; subst; clear H. apply Is in E. tagnorm. exact E.
  - intros b st ls st' H. destruct b; cbn [compile_stmts tags_stmts] in H |- *.
    + inversion H; subst. reflexivity.
    + bind_in H. bind_in H. inversion H; subst; clear H. apply Is in E. apply Iss in E0. tagnorm. rewrite E, E0. reflexivity.
  - intros o st ls st' H. destruct o; cbn [compile_ostmt tags_ostmt] in H |- *.
    + inversion H; subst. reflexivity.
    + exact (Is _ _ _ _ H).
  - intros ps st ls st' H. destruct ps; cbn [compile_parts tags_parts] in H |- *.
    + inversion H; subst. reflexivity.
    + match type of H with bind ?m _ = _ => destruct m as [x| |]; cbn [bind] in H; try discriminate H end.
      exact (Ip _ _ _ _ H).
    + bind_in H. bind_in H. inversion H; subst; clear H. apply Iss in E. apply Ip in E0. tagnorm. rewrite E, E0. reflexivity.
    + bind_in H. bind_in H. inversion H; subst; clear H. apply Ip in E. apply Ip in E0. tagnorm. rewrite E, E0. reflexivity.
  - intros e st ls st' H. destruct e; cbn [compile_els tags_els] in H |- *.
    + inversion H; subst. reflexivity.
    + bind_in H. inversion H; subst; clear H. apply Iss in E. destruct b as [|[] []]; tagnorm; rewrite ?app_nil_r; exact E.
    + bind_in H. inversion H; subst; clear H. apply Is in E. tagnorm. exact E.
  - intros cs st ls st' H. destruct cs; cbn [compile_clauses tags_clauses] in H |- *.
    + inversion H; subst. reflexivity.
    + bind_in H. bind_in H. bind_in H. bind_in H. inversion H; subst; clear H.
      apply Ip in E. apply Io in E0. apply Iss in E1. apply Ic in E2.
      destruct comm; cbn [hdr_tag tags_ostmt] in *; destruct ft; tagnorm; rewrite ?E, ?E0, ?E1, ?E2; reflexivity.
Qed.

Lemma C_zero : C_all 0.
Proof. unfold C_all. refine (conj _ (conj _ (conj _ (conj _ (conj _ _))))); intros x st ls st' H; discriminate H. Qed.
Lemma C_any f : C_all f.
Proof. induction f; [exact C_zero|apply C_step; assumption]. Qed.

End Complete.

Lemma in_line_tags ls t : In (Some t) (line_tags ls) <-> exists i id, nth_error ls i = Some (Code id (Some t)).
Proof.
  unfold line_tags. rewrite in_flat_map. split.
  - intros (x & Hin & Hx). destruct x as [| |id [t'|]]; simpl in Hx; try tauto.
    destruct Hx as [E|[]]. inversion E; subst. apply In_nth_error in Hin as [i Hi]. eauto.
  - intros (i & id & H). exists (Code id (Some t)). split; [eapply nth_error_In; eauto|simpl; auto].
Qed.

Lemma in_somes l t : In (Some t) (somes l) <-> In (Some t) l.
Proof.
  unfold somes. rewrite in_flat_map. split.
  - intros (x & Hin & Hx). destruct x as [t'|]; simpl in Hx; [|tauto]. destruct Hx as [E|[]]. congruence.
  - intros H. exists (Some t). split; simpl; auto.
Qed.

(* the tagged lines of a compiled statement list are exactly its positioned statements, in source order *)
Lemma stmts_tags_exact pr fuel b st ls st' :
  compile_stmts pr fuel b st = Ok (ls, st') -> line_tags ls = somes (tags_stmts b).
Proof. intros H. destruct (C_any pr fuel) as (_ & Css & _). exact (Css _ _ _ _ H). Qed.

Lemma stmts_emitted pr fuel b st ls st' t :
  compile_stmts pr fuel b st = Ok (ls, st') ->
  (In (Some t) (tags_stmts b) <-> exists i id, nth_error ls i = Some (Code id (Some t))).
Proof. intros H. rewrite <- in_line_tags, (stmts_tags_exact _ _ _ _ _ _ H). symmetry. apply in_somes. Qed.

(* ------------------------------------------------------------------ the file name of a directive resolves to the source file *)

Lemma str_eqb_refl x : str_eqb x x = true.
Proof. apply str_eqb_eq. reflexivity. Qed.

Lemma resolve_plain t : forall acc, forallb plain_comp t = true -> resolve_path acc t = rev acc ++ t.
Proof.
  induction t as [|c t IH]; intros acc H; simpl.
  - now rewrite app_nil_r.
  - simpl in H. apply andb_prop in H as [Hc Ht]. unfold plain_comp in Hc.
    apply andb_prop in Hc as [Hc _]. apply andb_prop in Hc as [H1 H2].
    apply negb_true_iff in H1, H2. rewrite H1, H2. rewrite IH by assumption. simpl. now rewrite <- app_assoc.
Qed.

Lemma resolve_ups b : forall acc t, forallb plain_comp t = true ->
  resolve_path (rev b ++ acc) (map (fun _ => dotdot) b ++ t) = rev acc ++ t.
Proof.
  induction b as [|x b IH] using rev_ind; intros acc t Ht.
  - simpl. apply resolve_plain. exact Ht.
  - rewrite rev_app_distr. simpl rev. cbn [app]. rewrite map_app. cbn [map]. rewrite <- app_assoc. cbn [app].
    (* peel the LAST "..": it pops x, the head of the reversed base *)
    replace (map (fun _ : str => dotdot) b ++ dotdot :: t) with (dotdot :: map (fun _ : str => dotdot) b ++ t).
    + cbn [resolve_path]. rewrite str_eqb_refl. cbn [tl]. apply IH. exact Ht.
    + clear. induction b as [|y b IHb]; simpl; auto. now rewrite IHb.
Qed.

Lemma strip_common_spec b : forall t b' t',
  strip_common b t = (b', t') -> exists pre, b = pre ++ b' /\ t = pre ++ t'.
Proof.
  induction b as [|x b IH]; intros t b' t' H.
  - simpl in H. inversion H; subst. exists []. auto.
  - destruct t as [|y t]; simpl in H.
    + inversion H; subst. exists []. auto.
    + destruct (str_eqb x y) eqn:E.
      * apply str_eqb_eq in E. subst y. apply IH in H as (pre & A & B). exists (x :: pre). simpl. now rewrite <- A, <- B.
      * inversion H; subst. exists []. auto.
Qed.

(* the name written in the directive, read against RelativeBase, is the XGo source file *)
Lemma rel_path_resolves base targ :
  forallb plain_comp base = true -> forallb plain_comp targ = true -> targ <> [] ->
  resolve_against base (rel_path base targ) = targ.
Proof.
  intros Hb Ht Hne. unfold rel_path, resolve_against.
  destruct (strip_common base targ) as [b' t'] eqn:E.
  apply strip_common_spec in E as (pre & A & B).
  assert (Ht' : forallb plain_comp t' = true) by (rewrite B, forallb_app in Ht; apply andb_prop in Ht; tauto).
  assert (Hres : resolve_path (rev base) (map (fun _ => dotdot) b' ++ t') = targ).
  { rewrite A, rev_app_distr. rewrite resolve_ups by assumption. rewrite rev_involutive. now rewrite B. }
  destruct (map (fun _ => dotdot) b' ++ t') as [|c l] eqn:El; [|exact Hres].
  (* base = targ: the name is "." and denotes the base itself *)
  apply app_eq_nil in El as [E1 E2]. apply map_eq_nil in E1. subst b' t'. rewrite app_nil_r in A, B. subst.
  cbn [resolve_path]. unfold dot1, dotdot. cbn. now rewrite rev_involutive.
Qed.

(* ------------------------------------------------------------------ every function of the package is emitted *)

Section Emitted.
Variable pr : prog.

Definition emitted (g : N) (st : state) : Prop := In g (map fst (outf st)).
(* every function that is no longer unloaded has been emitted, or is being compiled right now (pending) *)
Definition E_inv (pending : list N) (st : state) : Prop :=
  forall g, In g (func_names pr) -> memN g (unl st) = false -> emitted g st \/ In g pending.
Definition grows (st st' : state) : Prop := forall x, In x (outf st) -> In x (outf st').

Definition E_post (pending : list N) (st st' : state) : Prop := E_inv pending st' /\ grows st st'.
Definition E_stmt (f : nat) : Prop := forall s st ls st' pd, compile_stmt pr f s st = Ok (ls, st') -> E_inv pd st -> E_post pd st st'.
Definition E_stmts (f : nat) : Prop := forall b st ls st' pd, compile_stmts pr f b st = Ok (ls, st') -> E_inv pd st -> E_post pd st st'.
Definition E_ostmt (f : nat) : Prop := forall o st ls st' pd, compile_ostmt pr f o st = Ok (ls, st') -> E_inv pd st -> E_post pd st st'.
Definition E_parts (f : nat) : Prop := forall ps st ls st' pd, compile_parts pr f ps st = Ok (ls, st') -> E_inv pd st -> E_post pd st st'.
Definition E_els (f : nat) : Prop := forall e st ls st' pd, compile_els pr f e st = Ok (ls, st') -> E_inv pd st -> E_post pd st st'.
Definition E_clauses (f : nat) : Prop := forall cs st ls st' pd, compile_clauses pr f cs st = Ok (ls, st') -> E_inv pd st -> E_post pd st st'.
(* load_func g is entered with g already taken out of unl: g is pending during the call and emitted after it *)
Definition E_load (f : nat) : Prop := forall g st st' pd,
  load_func pr f g st = Ok st' -> In g (func_names pr) -> E_inv (g :: pd) st -> E_post pd st st'.
Definition E_all (f : nat) : Prop := E_stmt f /\ E_stmts f /\ E_ostmt f /\ E_parts f /\ E_els f /\ E_clauses f /\ E_load f.

Lemma E_inv_cm pd c st : E_inv pd st -> E_inv pd (set_cm c st).
Proof. intros H. exact H. Qed.
Lemma grows_refl st : grows st st. Proof. intros x H. exact H. Qed.
Lemma grows_trans a b c : grows a b -> grows b c -> grows a c.
Proof. intros H1 H2 x Hx. auto. Qed.
Lemma E_post_refl pd st : E_inv pd st -> E_post pd st st.
Proof. intros H. split; [exact H|apply grows_refl]. Qed.
Lemma E_post_trans pd a b c : E_post pd a b -> E_post pd b c -> E_post pd a c.
Proof. intros [_ G1] [I2 G2]. split; [exact I2|eapply grows_trans; eauto]. Qed.

Lemma memN_removeN x g l : memN x (removeN g l) = false -> x <> g -> memN x l = false.
Proof.
  induction l as [|y t IH]; simpl; auto. destruct (N.eqb g y) eqn:E.
  - apply N.eqb_eq in E. subst y. intros H Hne. rewrite (IH H Hne).
    destruct (N.eqb x g) eqn:E2; [apply N.eqb_eq in E2; congruence|reflexivity].
  - simpl. intros H Hne. apply orb_false_iff in H as [H1 H2]. rewrite H1. simpl. auto.
Qed.

Lemma find_func_names g : In g (func_names pr) -> exists p dp hd dk sh body, find_func pr g = Some (DFunc g p dp hd dk sh body).
Proof.
  unfold func_names. induction pr as [|d t IH]; simpl; [tauto|].
  destruct d as [g' p dp hd dk sh body|g' p dp hd dk body]; simpl.
  - intros [H|H].
    + subst g'. rewrite N.eqb_refl. eauto 10.
    + destruct (N.eqb g g') eqn:E; [apply N.eqb_eq in E; subst; eauto 10|auto].
  - auto.
Qed.

Lemma find_func_not_name g : ~ In g (func_names pr) -> find_func pr g = None.
Proof.
  unfold func_names. induction pr as [|x t IH]; simpl; auto.
  destruct x as [g' ? ? ? ? ? ?|? ? ? ? ? ?]; simpl; auto.
  intros H. destruct (N.eqb g g') eqn:E; [apply N.eqb_eq in E; subst; tauto|]. apply IH. tauto.
Qed.

Lemma load_func_noop f g st st' : load_func pr f g st = Ok st' -> ~ In g (func_names pr) -> st' = st.
Proof.
  intros H Hn. destruct f as [|f]; [discriminate H|]. cbn [load_func] in H.
  rewrite (find_func_not_name g Hn) in H. inversion H. reflexivity.
Qed.

Lemma E_step f : E_all f -> E_all (S f).
Proof.
  intros (Is & Iss & Io & Ip & Ie & Ic & Il).
  unfold E_all, E_stmt, E_stmts, E_ostmt, E_parts, E_els, E_clauses, E_load in *.
  refine (conj _ (conj _ (conj _ (conj _ (conj _ (conj _ _)))))).
  - intros s st ls st' pd H I. destruct s; cbn [compile_stmt] in H.
    + bind_in H. inversion H; subst; clear H. exact (Ip _ _ _ _ _ E I).
    + bind_in H. inversion H; subst; clear H. destruct p, hasdoc; exact (Ip _ _ _ _ _ E I).
    + bind_in H. inversion H; subst; clear H. exact (Iss _ _ _ _ _ E I).
    + bind_in H. bind_in H. bind_in H. bind_in H. inversion H; subst; clear H.
      pose proof (Io _ _ _ _ _ E I) as P1. pose proof (Ip _ _ _ _ _ E0 (proj1 P1)) as P2.
      pose proof (Iss _ _ _ _ _ E1 (proj1 P2)) as P3. pose proof (Ie _ _ _ _ _ E2 (proj1 P3)) as P4.
      exact (E_post_trans _ _ _ _ (E_post_trans _ _ _ _ (E_post_trans _ _ _ _ P1 P2) P3) P4).
    + bind_in H. bind_in H. bind_in H. bind_in H. inversion H; subst; clear H.
      pose proof (Io _ _ _ _ _ E I) as P1. pose proof (Ip _ _ _ _ _ E0 (proj1 P1)) as P2.
      pose proof (Iss _ _ _ _ _ E1 (proj1 P2)) as P3. pose proof (Io _ _ _ _ _ E2 (proj1 P3)) as P4.
      exact (E_post_trans _ _ _ _ (E_post_trans _ _ _ _ (E_post_trans _ _ _ _ P1 P2) P3) P4).
    + bind_in H. bind_in H. inversion H; subst; clear H.
      pose proof (Ip _ _ _ _ _ E I) as P1. pose proof (Iss _ _ _ _ _ E0 (proj1 P1)) as P2.
      exact (E_post_trans _ _ _ _ P1 P2).
    + bind_in H. bind_in H. bind_in H. inversion H; subst; clear H.
      pose proof (Ip _ _ _ _ _ E I) as P1. pose proof (Ip _ _ _ _ _ E0 (proj1 P1)) as P2.
      pose proof (Iss _ _ _ _ _ E1 (proj1 P2)) as P3.
      exact (E_post_trans _ _ _ _ (E_post_trans _ _ _ _ P1 P2) P3).
    + bind_in H. bind_in H. bind_in H. inversion H; subst; clear H.
      pose proof (Io _ _ _ _ _ E I) as P1. pose proof (Ip _ _ _ _ _ E0 (proj1 P1)) as P2.
      pose proof (Ic _ _ _ _ _ E1 (proj1 P2)) as P3.
      exact (E_post_trans _ _ _ _ (E_post_trans _ _ _ _ P1 P2) P3).
    + bind_in H. inversion H; subst; clear H. exact (Ic _ _ _ _ _ E I).
    + bind_in H. inversion H; subst; clear H. exact (Is _ _ _ _ _ E I).
  - intros b st ls st' pd H I. destruct b; cbn [compile_stmts] in H.
    + inversion H; subst. apply E_post_refl. exact I.
    + bind_in H. bind_in H. inversion H; subst; clear H.
      pose proof (Is _ _ _ _ _ E I) as P1. pose proof (Iss _ _ _ _ _ E0 (proj1 P1)) as P2.
      exact (E_post_trans _ _ _ _ P1 P2).
  - intros o st ls st' pd H I. destruct o; cbn [compile_ostmt] in H.
    + inversion H; subst. apply E_post_refl. exact I.
    + exact (Is _ _ _ _ _ H I).
  - intros ps st ls st' pd H I. destruct ps; cbn [compile_parts] in H.
    + inversion H; subst. apply E_post_refl. exact I.
    + destruct (memN g (unl st)) eqn:Em; rewrite ?Em in H; lazy beta match in H.
      * match type of H with bind ?m _ = _ => destruct m as [st1| |] eqn:El; cbn [bind] in H; try discriminate H end.
        destruct (in_dec N.eq_dec g (func_names pr)) as [Hin|Hnin].
        -- assert (I1 : E_inv (g :: pd) (set_unl (removeN g (unl st)) st)).
           { intros x Hx Hm. unfold set_unl in Hm. cbn [unl] in Hm.
             destruct (N.eq_dec x g) as [->|Hne]; [right; left; reflexivity|].
             destruct (I x Hx (memN_removeN _ _ _ Hm Hne)) as [A|A]; [left; exact A|right; right; exact A]. }
           pose proof (Il _ _ _ _ El Hin I1) as P1. unfold E_post, grows, set_unl in P1. cbn [outf] in P1.
           pose proof (Ip _ _ _ _ _ H (proj1 P1)) as P2.
           split; [exact (proj1 P2)|]. intros x Hx. apply (proj2 P2). apply (proj2 P1). exact Hx.
        -- (* a name that is not a function of the package: find_func finds nothing, the state is unchanged but for unl *)
           assert (Hst : st1 = set_unl (removeN g (unl st)) st) by (eapply load_func_noop; eauto).
           subst st1.
           assert (I1 : E_inv pd (set_unl (removeN g (unl st)) st)).
           { intros x Hx Hm. unfold set_unl in Hm. cbn [unl] in Hm.
             assert (Hne : x <> g) by (intros ->; contradiction).
             exact (I x Hx (memN_removeN _ _ _ Hm Hne)). }
           exact (Ip _ _ _ _ _ H I1).
      * cbn [bind] in H. exact (Ip _ _ _ _ _ H I).
    + bind_in H. bind_in H. inversion H; subst; clear H.
      pose proof (Iss _ _ _ _ _ E (E_inv_cm pd None st I)) as P1.
      pose proof (Ip _ _ _ _ _ E0 (E_inv_cm pd (cm st) s (proj1 P1))) as P2.
      split; [exact (proj1 P2)|]. intros x Hx. apply (proj2 P2). apply (proj2 P1). exact Hx.
    + bind_in H. bind_in H. inversion H; subst; clear H.
      pose proof (Ip _ _ _ _ _ E I) as P1. pose proof (Ip _ _ _ _ _ E0 (proj1 P1)) as P2.
      exact (E_post_trans _ _ _ _ P1 P2).
  - intros e st ls st' pd H I. destruct e; cbn [compile_els] in H.
    + inversion H; subst. apply E_post_refl. exact I.
    + bind_in H. inversion H; subst; clear H. exact (Iss _ _ _ _ _ E I).
    + bind_in H. inversion H; subst; clear H. exact (Is _ _ _ _ _ E I).
  - intros cs st ls st' pd H I. destruct cs; cbn [compile_clauses] in H.
    + inversion H; subst. apply E_post_refl. exact I.
    + bind_in H. bind_in H. bind_in H. bind_in H. inversion H; subst; clear H.
      pose proof (Ip _ _ _ _ _ E I) as P1. pose proof (Io _ _ _ _ _ E0 (proj1 P1)) as P2.
      pose proof (Iss _ _ _ _ _ E1 (proj1 P2)) as P3.
      pose proof (Ic _ _ _ _ _ E2 (E_inv_cm pd p s1 (proj1 P3))) as P4.
      split; [exact (proj1 P4)|]. intros x Hx. apply (proj2 P4). apply (proj2 P3). apply (proj2 P2). apply (proj2 P1). exact Hx.
  - intros g st st' pd H Hin I. cbn [load_func] in H.
    destruct (find_func_names g Hin) as (p & dp & hd & dk & sh & body & Ef). rewrite Ef in H.
    match type of H with bind ?m _ = _ => destruct m as [[bl st1]| |] eqn:E; cbn [bind] in H; try discriminate H end.
    inversion H; subst; clear H.
    pose proof (Iss _ _ _ _ _ E (E_inv_cm (g :: pd) None st I)) as P1. destruct P1 as [I1 G1].
    split.
    + intros x Hx Hm. unfold add_out, set_cm in Hm. cbn [unl] in Hm.
      unfold emitted, add_out, set_cm. cbn [outf]. rewrite map_app. cbn [map fst].
      destruct (I1 x Hx Hm) as [A|[A|A]].
      * left. apply in_or_app. left. exact A.
      * subst x. left. apply in_or_app. right. left. reflexivity.
      * right. exact A.
    + intros x Hx. unfold add_out, set_cm. cbn [outf]. apply in_or_app. left. apply G1. exact Hx.
Qed.

Lemma E_zero : E_all 0.
Proof.
  unfold E_all. refine (conj _ (conj _ (conj _ (conj _ (conj _ (conj _ _))))));
    [intros x st ls st' pd H; discriminate H ..|intros g st st' pd H; discriminate H].
Qed.
Lemma E_any f : E_all f.
Proof. induction f; [exact E_zero|apply E_step; assumption]. Qed.

Lemma load_decls_emitted fuel : forall ds st st',
  (forall d, In d ds -> In d pr) ->
  E_inv [] st -> load_decls pr fuel ds st = Ok st' ->
  E_inv [] st' /\ grows st st' /\ (forall g, In g (func_names ds) -> emitted g st').
Proof.
  induction ds as [|d t IH]; intros st st' Hsub I H.
  - simpl in H. inversion H; subst. split; [exact I|]. split; [apply grows_refl|]. intros g [].
  - assert (Hsub' : forall d0, In d0 t -> In d0 pr) by (intros d0 Hd; apply Hsub; right; exact Hd).
    destruct d as [g p dp hd dk sh body|g p dp hd dk body]; cbn [load_decls] in H.
    + assert (Hg : In g (func_names pr)).
      { unfold func_names. apply in_flat_map. exists (DFunc g p dp hd dk sh body). split; [apply Hsub; left; reflexivity|left; reflexivity]. }
      destruct (memN g (unl st)) eqn:Em.
      * match type of H with bind ?m _ = _ => destruct m as [st1| |] eqn:El; cbn [bind] in H; try discriminate H end.
        destruct (E_any fuel) as (_ & _ & _ & _ & _ & _ & Tl). unfold E_load in Tl.
        assert (I1 : E_inv [g] (set_unl (removeN g (unl st)) st)).
        { intros x Hx Hm. unfold set_unl in Hm. cbn [unl] in Hm.
          destruct (N.eq_dec x g) as [->|Hne]; [right; left; reflexivity|].
          destruct (I x Hx (memN_removeN _ _ _ Hm Hne)) as [A|[]]. left. exact A. }
        destruct (Tl _ _ _ _ El Hg I1) as [I2 G2].
        destruct (IH _ _ Hsub' I2 H) as (I3 & G3 & Em3).
        split; [exact I3|]. split; [intros x Hx; apply G3; apply G2; exact Hx|].
        intros x [Hx|Hx].
        -- subst x. (* g was emitted by this very load *)
           assert (Eg : emitted g st1).
           { clear -El Hg. cbn [load_func] in El. destruct fuel as [|f]; [discriminate El|]. cbn [load_func] in El.
             destruct (find_func_names g Hg) as (p & dp & hd & dk & sh & body & Ef). rewrite Ef in El.
             match type of El with bind ?m _ = _ => destruct m as [[bl s1]| |]; cbn [bind] in El; try discriminate El end.
             inversion El; subst. unfold emitted, add_out, set_cm. cbn [outf]. rewrite map_app. apply in_or_app. right. left. reflexivity. }
           unfold emitted in *. apply in_map_iff in Eg as ([g' ls] & Eg1 & Eg2). apply in_map_iff. exists (g', ls). split; auto.
        -- apply Em3. exact Hx.
      * cbn [bind] in H. destruct (IH _ _ Hsub' I H) as (I3 & G3 & Em3).
        split; [exact I3|]. split; [exact G3|]. intros x [Hx|Hx]; [|apply Em3; exact Hx].
        subst x. destruct (I g Hg Em) as [A|[]].
        unfold emitted in *. apply in_map_iff in A as ([g' ls] & A1 & A2). apply in_map_iff. exists (g', ls). split; auto.
    + destruct (IH _ _ Hsub' I H) as (I3 & G3 & Em3). auto.
Qed.

Lemma load_methods_emitted fuel : forall ds st st',
  load_methods pr fuel ds st = Ok st' -> E_inv [] st ->
  grows st st' /\ (forall g p dp hd dk body, In (DMethod g p dp hd dk body) ds -> emitted g st').
Proof.
  induction ds as [|d t IH]; intros st st' H I.
  - simpl in H. inversion H; subst. split; [apply grows_refl|]. intros g p dp hd dk body [].
  - destruct d as [g p dp hd dk sh body|g p dp hd dk body]; cbn [load_methods] in H.
    + destruct (IH _ _ H I) as [G Em]. split; [exact G|]. intros g0 p0 dp0 hd0 dk0 body0 [Hd|Hd]; [discriminate Hd|eauto].
    + match type of H with bind ?m _ = _ => destruct m as [[bl st1]| |] eqn:E; cbn [bind] in H; try discriminate H end.
      destruct (E_any fuel) as (_ & Tss & _). unfold E_stmts in Tss.
      destruct (Tss _ _ _ _ [] E (E_inv_cm [] None st I)) as [I1 G1].
      assert (I2 : E_inv [] (add_out g (print_func p dp hd dk false bl) st1)).
      { intros x Hx Hm. unfold add_out in Hm. cbn [unl] in Hm. destruct (I1 x Hx Hm) as [A|[]].
        left. unfold emitted, add_out. cbn [outf]. rewrite map_app. apply in_or_app. left. exact A. }
      destruct (IH _ _ H I2) as [G Em]. split.
      * intros x Hx. apply G. unfold add_out. cbn [outf]. apply in_or_app. left. apply G1. exact Hx.
      * intros g0 p0 dp0 hd0 dk0 body0 [Hd|Hd]; [|eauto].
        inversion Hd; subst. unfold emitted. apply in_map_iff. exists (g0, print_func p0 dp0 hd0 dk0 false bl). split; [reflexivity|].
        apply G. unfold add_out. cbn [outf]. apply in_or_app. right. left. reflexivity.
Qed.

(* every top-level function and every method of the package has its Go function in the output *)
Lemma all_functions_emitted fuel out :
  compile_prog fuel pr = Ok out ->
  (forall g, In g (func_names pr) -> In g (map fst out)) /\
  (forall g p dp hd dk body, In (DMethod g p dp hd dk body) pr -> In g (map fst out)).
Proof.
  intros H. unfold compile_prog in H.
  destruct (load_decls pr fuel pr _) as [st| |] eqn:E1; cbn [bind] in H; try discriminate H.
  destruct (load_methods pr fuel pr st) as [st'| |] eqn:E2; cbn [bind] in H; try discriminate H.
  inversion H; subst.
  assert (I0 : E_inv [] (mkst None (func_names pr) [])).
  { intros g Hg Hm. cbn [unl] in Hm. exfalso. clear -Hg Hm. induction (func_names pr) as [|y t IH]; simpl in *; [tauto|].
    apply orb_false_iff in Hm as [A B]. destruct Hg as [->|Hg]; [rewrite N.eqb_refl in A; discriminate|auto]. }
  destruct (load_decls_emitted fuel pr _ _ (fun d Hd => Hd) I0 E1) as (I1 & G1 & Em1).
  destruct (load_methods_emitted fuel pr _ _ E2 I1) as (G2 & Em2).
  split.
  - intros g Hg. specialize (Em1 g Hg). unfold emitted in Em1.
    apply in_map_iff in Em1 as ([g' ls] & A1 & A2). apply in_map_iff. exists (g', ls). split; auto.
  - intros g p dp hd dk body Hd. exact (Em2 _ _ _ _ _ _ Hd).
Qed.

End Emitted.
