(* C07 — obligations over the regenerated audit of the recover sites (Gen/RecoverSites.v):
   every entry point has a top-level deferred recover that precedes everything that can panic,
   its handler reports the panic as an error, and nothing but the reviewed calls runs before
   (or is deferred before) it.  All by computation on the generated data. *)
From Coq Require Import List String Bool NArith ZArith.
Import ListNotations.
From V Require Import Base.Prelude Gen.RecoverSites Model.C07.
Open Scope string_scope.

Definition mem (x : string) (l : list string) : bool := existsb (String.eqb x) l.
Definition subset (a b : list string) : bool := forallb (fun x => mem x b) a.

(* calls allowed before the recover is registered: allocation only.  newRecorder only builds three
   maps and a struct (cl/recorder.go).  [pkg.Files] / [conf.*] field reads before the defer are
   the args_ok precondition of the model. *)
Definition allowed_before : list string := ["make"; "newRecorder"].

(* how the handler must turn the panic into an error, per entry point *)
Definition handler_ok (s : recover_site) : bool :=
  negb (rs_repanics s) &&
  (if String.eqb (rs_dir s) "cl" then
     mem "ctx.handleRecover" (rs_handler_calls s) || mem "p.handleRecover" (rs_handler_calls s)
   else
     mem "fmt.Errorf" (rs_handler_calls s) && mem "err" (rs_handler_sets s) && rs_named_err s) &&
  (* NewPackage also has to set its result err *)
  (if String.eqb (rs_func s) "NewPackage" then mem "err" (rs_handler_sets s) && rs_named_err s else true).

(* defers registered before the recover run after it, unprotected: only NewPackage's
   rec.Complete(p.Types.Scope()) — modelled as rec_complete/has_rec in Model/C07.v *)
Definition defers_ok (s : recover_site) : bool :=
  if String.eqb (rs_func s) "NewPackage" then subset (rs_defers_before s) ["p.Types.Scope"; "rec.Complete"]
  else match rs_defers_before s with [] => true | _ => false end.

Definition site_ok (s : recover_site) : bool :=
  rs_has_defer s && subset (rs_calls_before s) allowed_before && handler_ok s && defers_ok s &&
  (* the x/build helpers recover unconditionally; the cl sites under enableRecover *)
  (if String.eqb (rs_dir s) "cl" then rs_guarded s else negb (rs_guarded s)).

Definition expected_sites : list string :=
  ["NewPackage"; "pkgCtx.loadSymbol"; "loadImport"; "compileStmt";
   "Context.BuildFile"; "Context.BuildFSDir"; "Context.BuildDir"].

Lemma recover_sites_ok : forallb site_ok recover_sites = true.
Proof. vm_compute. reflexivity. Qed.

Lemma recover_sites_complete : map rs_func recover_sites = expected_sites.
Proof. vm_compute. reflexivity. Qed.

Lemma enable_recover_is_default : enable_recover_default = true.
Proof. vm_compute. reflexivity. Qed.

Lemma recover_sites_spec : forall s, In s recover_sites -> site_ok s = true.
Proof. apply forallb_forall. exact recover_sites_ok. Qed.

(* the overload index table: 36 entries; index 36 panics, all smaller ones do not *)
Lemma index_table_len : zlen index_table = 36%Z.
Proof. vm_compute. reflexivity. Qed.

Lemma overload_name_in_range_ok :
  forallb (fun i => is_ok (overload_func_name index_table [102]%N i)) (zrange 0 36) = true.
Proof. vm_compute. reflexivity. Qed.

Lemma overload_name_36_panics : overload_func_name index_table [102]%N 36 = Panic.
Proof. vm_compute. reflexivity. Qed.
