From Coq Require Import List NArith ZArith Bool Lia.
Import ListNotations.
From V Require Import Base.Prelude Gen.Tokens Model.C14 Proofs.C14Tables Proofs.C14Unf.
Local Open Scope Z_scope.

Definition op_of (i : bool) (t : token) : Z := if i && is xgo_ASSIGN t then xgo_EQL else tcode t.

Lemma unf_SBinLoop' d f x p i ts : P d (S f) (SBinLoop x p i) ts =
  match ts with
  | [] => POk (RExpr x) []
  | t :: r =>
      match d_prec d (op_of i t) with
      | Ok oprec =>
          if Z.ltb oprec p then POk (RExpr x) ts
          else if negb (Z.eqb (tcode t) (op_of i t)) then PErr
          else
            match P d f (SBinary (oprec + 1) i false false) r with
            | POk (RExpr y) r2 => P d f (SBinLoop (EBinary (op_of i t) x y) p i) r2
            | o => o
            end
      | _ => PErr
      end
  end.
Proof. exact (unf_SBinLoop d f x p i ts). Qed.

(* ---- facts about the five continuation tokens *)
Lemma cont_codes t : cont_tok t = true ->
  forall i, op_of i t = tcode t /\ go_Precedence (tcode t) = Ok 0 /\
            is xgo_PERIOD t = false /\ is xgo_LBRACK t = false /\ is xgo_LPAREN t = false /\ is xgo_LBRACE t = false /\
            is xgo_COMMA t = false /\ is xgo_RPAREN t = false /\ is xgo_ELLIPSIS t = false /\ is xgo_RBRACK t = false /\
            code_in assign_ops t = false /\ is xgo_ARROW t = false /\ is xgo_INC t = false /\ is xgo_DEC t = false.
Proof.
  intros H i. apply cont_tok_cases in H. unfold op_of, is, code_in.
  destruct H as [E|[E|[E|[E|E]]]]; rewrite E; destruct i; vm_compute; repeat split; reflexivity.
Qed.

Definition operand_start (t : token) : bool :=
  (code_in unary_ops t || is xgo_MUL t) || is xgo_IDENT t || is xgo_INT t || is xgo_LPAREN t.

Lemma operand_start_basic t : operand_start t = true -> is xgo_RPAREN t = false /\ is xgo_DRARROW t = false.
Proof.
  unfold operand_start, code_in, unary_ops, existsb, is. intros H.
  repeat (apply orb_prop in H as [H|H]); try discriminate; apply Z.eqb_eq in H; rewrite H; vm_compute; auto.
Qed.

Lemma unary_head d f i tu c t r res rest : P d f (SUnary i tu c) (t :: r) = POk res rest -> operand_start t = true.
Proof.
  destruct f; [discriminate|]. rewrite unf_SUnary. unfold operand_start.
  destruct (code_in unary_ops t || is xgo_MUL t); [reflexivity|].
  destruct (is xgo_IDENT t); [reflexivity|]. destruct (is xgo_INT t); [reflexivity|].
  destruct (is xgo_LPAREN t); [reflexivity|]. destruct (code_in unsup_operand t); discriminate.
Qed.

Lemma binary_head d f p i tu c t r res rest : P d f (SBinary p i tu c) (t :: r) = POk res rest -> operand_start t = true.
Proof.
  destruct f; [discriminate|]. rewrite unf_SBinary.
  destruct (P d f (SUnary i tu c) (t :: r)) eqn:E; try discriminate. intros _. eapply unary_head; eauto.
Qed.

Lemma expr_head d f i c t r res rest : P d f (SExpr i c) (t :: r) = POk res rest -> operand_start t = true.
Proof.
  destruct f; [discriminate|]. rewrite unf_SExpr.
  destruct (d_xgo d && is xgo_DRARROW t); [discriminate|].
  destruct (P d f (SBinary 1 i true c) (t :: r)) eqn:E; try discriminate. intros _. eapply binary_head; eauto.
Qed.

Notation G := go_dialect.

(* where Go's loops stop, the next token is the one they return *)
Lemma binloop_follow f x p i r1 r0 rest :
  1 <= p -> P G f (SBinLoop x p i) r1 = POk r0 rest -> follow_ok rest -> follow_ok r1.
Proof.
  destruct f; [discriminate|]. rewrite unf_SBinLoop'. destruct r1 as [|t r]; [simpl; auto|].
  intros Hp H Hf. simpl. destruct (cont_tok t) eqn:Ec; auto. exfalso.
  destruct (cont_codes t Ec i) as (Eo & Eg & _). rewrite Eo in H. change (d_prec G) with go_Precedence in H.
  rewrite Eg in H. replace (Z.ltb 0 p) with true in H by lia. injection H as _ <-. simpl in Hf. congruence.
Qed.

Lemma primloop_follow f x i c r1 r0 rest :
  P G f (SPrimLoop x i c) r1 = POk r0 rest -> follow_ok rest -> follow_ok r1.
Proof.
  destruct f; [discriminate|]. rewrite unf_SPrimLoop. destruct r1 as [|t r]; [simpl; auto|].
  intros H Hf. simpl. destruct (cont_tok t) eqn:Ec; auto. exfalso.
  destruct (cont_codes t Ec false) as (_ & _ & E1 & E2 & E3 & E4 & _).
  cbv zeta in H. rewrite E1, E2, E3, E4 in H. cbn [d_xgo d_cmd go_dialect andb] in H.
  injection H as _ <-. simpl in Hf. congruence.
Qed.
