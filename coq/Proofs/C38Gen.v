(* Obligations over the literals regenerated from x/jsonrpc2/frame.go (Gen/C38.v). By computation only. *)
From Coq Require Import List NArith ZArith Bool.
Import ListNotations.
From V Require Import Base.Prelude Base.Radix Base.Fmt Model.C38 Gen.C38.

Definition src (l : list N) : str := l.

Lemma reader_tables :
  reader_header_names = [[content_length]]
  /\ reader_line_delim = LF /\ reader_name_sep = COLON
  /\ reader_parseint_base = 10%Z /\ reader_parseint_bits = 32%Z
  /\ reader_int_tests = [src [61;61;48]; src [60;48]; src [60;61;48]; src [61;61;48]]   (* total == 0; colon < 0; length <= 0; length == 0 *)
  /\ reader_trimspace_calls = 2%Z.
Proof. vm_compute. repeat split; reflexivity. Qed.

(* fmt.Fprintf(w.out, "Content-Length: %v\r\n\r\n", len(data)) followed by data is write_frame *)
Lemma write_frame_is_source_format p :
  match fmt_apply writer_format [FDec (nlen p)] with Some h => h ++ p = write_frame p | None => False end.
Proof.
  cbn. unfold write_frame, header_prefix, content_length, COLON, CR, LF. cbn [app].
  rewrite <- app_assoc. reflexivity.
Qed.

Lemma writer_args : writer_format_args = [src [108;101;110;40;95;41]].    (* len(_) : the length of one variable *)
Proof. vm_compute. reflexivity. Qed.

(* the int32 bound of parse_int32 is the bit size the source passes to ParseInt *)
Lemma parse_int32_bound : (2 ^ (reader_parseint_bits - 1) = 2147483648)%Z.
Proof. reflexivity. Qed.
