(* The local fuel of every sub-scanner loop is sufficient: with more than |rest| units of fuel
   the result does not depend on the fuel, i.e. no loop of the model ever stops because its
   fuel ran out (the model gives each loop S |rest| units). *)
From Coq Require Import List NArith ZArith Bool Lia.
From Coq Require Import ZifyN ZifyNat ZifyBool.
Import ListNotations.
From V Require Import Base.Prelude Gen.ScanTok Model.Scan Proofs.ScanBase.
Open Scope Z_scope.

Lemma nxt_sz_lt s : 0 <= cur s -> (sz (nxt s) < sz s)%nat.
Proof. intros H. apply sadv_sz, sadv_nxt_cur, H. Qed.

(* one-step unfoldings *)
Lemma skip_ws_S f b s : skip_ws (S f) b s =
  if (cur s =? 32) || (cur s =? 9) || ((cur s =? 10) && negb b) || (cur s =? 13) then skip_ws f b (nxt s) else s.
Proof. reflexivity. Qed.
Lemma scan_ident_S ul ud f s : scan_ident ul ud (S f) s =
  if is_letter ul (cur s) || is_digit ud (cur s) then scan_ident ul ud f (nxt s) else s.
Proof. reflexivity. Qed.
Lemma until_nl_S f s n : until_nl (S f) s n =
  if (cur s =? 10) || (cur s <? 0) then (s, n) else until_nl f (nxt s) (if cur s =? 13 then n + 1 else n).
Proof. reflexivity. Qed.
Lemma scan_raw_S f offs s : scan_raw (S f) offs s =
  if cur s <? 0 then err s offs E_RAW else if cur s =? 96 then nxt s else scan_raw f offs (nxt s).
Proof. reflexivity. Qed.
Lemma scan_string_S f offs s : scan_string (S f) offs s =
  if (cur s =? 10) || (cur s <? 0) then err s offs E_STRING
  else if cur s =? 34 then nxt s
  else if cur s =? 92 then scan_string f offs (snd (scan_escape 34 (nxt s)))
  else scan_string f offs (nxt s).
Proof. reflexivity. Qed.

Lemma skip_ws_stable fuel b s : (sz s < fuel)%nat -> skip_ws (S fuel) b s = skip_ws fuel b s.
Proof.
  revert s; induction fuel as [|f IH]; intros s H; [lia|].
  rewrite (skip_ws_S (S f) b s), (skip_ws_S f b s).
  destruct ((cur s =? 32) || (cur s =? 9) || ((cur s =? 10) && negb b) || (cur s =? 13)) eqn:C; [|reflexivity].
  assert (0 <= cur s) by lia. pose proof (nxt_sz_lt s H0). apply IH. lia.
Qed.

Lemma is_digit_nonneg ud c : is_digit ud c = true -> 0 <= c.
Proof. unfold is_digit, is_decimal. lia. Qed.

Lemma scan_ident_stable ul ud fuel s : (sz s < fuel)%nat -> scan_ident ul ud (S fuel) s = scan_ident ul ud fuel s.
Proof.
  revert s; induction fuel as [|f IH]; intros s H; [lia|].
  rewrite (scan_ident_S ul ud (S f) s), (scan_ident_S ul ud f s).
  destruct (is_letter ul (cur s) || is_digit ud (cur s)) eqn:C; [|reflexivity].
  assert (0 <= cur s).
  { apply orb_prop in C as [C|C]; [apply (is_letter_nonneg ul ud), C|apply (is_digit_nonneg ud), C]. }
  pose proof (nxt_sz_lt s H0). apply IH. lia.
Qed.

Lemma is_hex_nonneg c : is_hex c = true -> 0 <= c.
Proof.
  unfold is_hex, is_decimal, lower. intros C. destruct (Z.ltb_spec c 0); [|assumption].
  assert (Z.lor 32 c < 0) by (apply Z.lor_neg; lia). lia.
Qed.

Lemma digits_stable fuel base s inv ds : (sz s < fuel)%nat -> digits (S fuel) base s inv ds = digits fuel base s inv ds.
Proof.
  revert s inv ds; induction fuel as [|f IH]; intros s inv ds H; [lia|].
  change (digits (S (S f)) base s inv ds) with
    (if base <=? 10 then
       if is_decimal (cur s) || (cur s =? 95) then
         digits (S f) base (nxt s) (if negb (cur s =? 95) && (48 + base <=? cur s) && (inv <? 0) then off s else inv)
                (Z.lor ds (if cur s =? 95 then 2 else 1))
       else (ds, s, inv)
     else if is_hex (cur s) || (cur s =? 95) then digits (S f) base (nxt s) inv (Z.lor ds (if cur s =? 95 then 2 else 1))
          else (ds, s, inv)).
  change (digits (S f) base s inv ds) with
    (if base <=? 10 then
       if is_decimal (cur s) || (cur s =? 95) then
         digits f base (nxt s) (if negb (cur s =? 95) && (48 + base <=? cur s) && (inv <? 0) then off s else inv)
                (Z.lor ds (if cur s =? 95 then 2 else 1))
       else (ds, s, inv)
     else if is_hex (cur s) || (cur s =? 95) then digits f base (nxt s) inv (Z.lor ds (if cur s =? 95 then 2 else 1))
          else (ds, s, inv)).
  destruct (base <=? 10).
  - destruct (is_decimal (cur s) || (cur s =? 95)) eqn:C; [|reflexivity].
    assert (0 <= cur s) by (unfold is_decimal in C; lia). pose proof (nxt_sz_lt s H0). apply IH. lia.
  - destruct (is_hex (cur s) || (cur s =? 95)) eqn:C; [|reflexivity].
    assert (0 <= cur s) by (apply orb_prop in C as [C|C]; [apply is_hex_nonneg, C|lia]).
    pose proof (nxt_sz_lt s H0). apply IH. lia.
Qed.

Lemma until_nl_stable fuel s n : (sz s < fuel)%nat -> until_nl (S fuel) s n = until_nl fuel s n.
Proof.
  revert s n; induction fuel as [|f IH]; intros s n H; [lia|].
  rewrite (until_nl_S (S f) s n), (until_nl_S f s n).
  destruct ((cur s =? 10) || (cur s <? 0)) eqn:C; [reflexivity|].
  assert (0 <= cur s) by lia. pose proof (nxt_sz_lt s H0). apply IH. lia.
Qed.

Lemma block_body_stable fuel s n nl : (sz s < fuel)%nat -> block_body (S fuel) s n nl = block_body fuel s n nl.
Proof.
  revert s n nl; induction fuel as [|f IH]; intros s n nl H; [lia|].
  change (block_body (S (S f)) s n nl) with
    (if cur s <? 0 then (s, n, false, nl)
     else if (cur s =? 42) && (cur (nxt s) =? 47)
          then (nxt (nxt s), (if cur s =? 13 then n + 1 else n), true, (if negb (cur s =? 13) && (cur s =? 10) && (nl =? 0) then off s else nl))
          else block_body (S f) (nxt s) (if cur s =? 13 then n + 1 else n) (if negb (cur s =? 13) && (cur s =? 10) && (nl =? 0) then off s else nl)).
  change (block_body (S f) s n nl) with
    (if cur s <? 0 then (s, n, false, nl)
     else if (cur s =? 42) && (cur (nxt s) =? 47)
          then (nxt (nxt s), (if cur s =? 13 then n + 1 else n), true, (if negb (cur s =? 13) && (cur s =? 10) && (nl =? 0) then off s else nl))
          else block_body f (nxt s) (if cur s =? 13 then n + 1 else n) (if negb (cur s =? 13) && (cur s =? 10) && (nl =? 0) then off s else nl)).
  destruct (cur s <? 0) eqn:C; [reflexivity|].
  assert (0 <= cur s) by lia. pose proof (nxt_sz_lt s H0).
  destruct ((cur s =? 42) && (cur (nxt s) =? 47)); [reflexivity|]. apply IH. lia.
Qed.

Lemma scan_string_stable fuel offs s : (sz s < fuel)%nat -> scan_string (S fuel) offs s = scan_string fuel offs s.
Proof.
  revert s; induction fuel as [|f IH]; intros s H; [lia|].
  rewrite (scan_string_S (S f) offs s), (scan_string_S f offs s).
  destruct ((cur s =? 10) || (cur s <? 0)) eqn:C; [reflexivity|].
  assert (0 <= cur s) by lia. pose proof (nxt_sz_lt s H0).
  destruct (cur s =? 34); [reflexivity|]. destruct (cur s =? 92).
  - pose proof (adv_sz _ _ (scan_escape_adv 34 (nxt s))). apply IH. lia.
  - apply IH. lia.
Qed.

Lemma scan_rune_stable fuel offs s v n : (sz s < fuel)%nat -> scan_rune (S fuel) offs s v n = scan_rune fuel offs s v n.
Proof.
  revert s v n; induction fuel as [|f IH]; intros s v n H; [lia|].
  change (scan_rune (S (S f)) offs s v n) with
    (if (cur s =? 10) || (cur s <? 0) then (if v then err s offs E_RUNE_EOF else s)
     else if cur s =? 39 then (if v && negb (n =? 1) then err (nxt s) offs E_RUNE_BAD else nxt s)
     else if cur s =? 92 then let '(ok, s2) := scan_escape 39 (nxt s) in scan_rune (S f) offs s2 (v && ok) (n + 1)
     else scan_rune (S f) offs (nxt s) v (n + 1)).
  change (scan_rune (S f) offs s v n) with
    (if (cur s =? 10) || (cur s <? 0) then (if v then err s offs E_RUNE_EOF else s)
     else if cur s =? 39 then (if v && negb (n =? 1) then err (nxt s) offs E_RUNE_BAD else nxt s)
     else if cur s =? 92 then let '(ok, s2) := scan_escape 39 (nxt s) in scan_rune f offs s2 (v && ok) (n + 1)
     else scan_rune f offs (nxt s) v (n + 1)).
  destruct ((cur s =? 10) || (cur s <? 0)) eqn:C; [reflexivity|].
  assert (0 <= cur s) by lia. pose proof (nxt_sz_lt s H0).
  destruct (cur s =? 39); [reflexivity|]. destruct (cur s =? 92).
  - pose proof (adv_sz _ _ (scan_escape_adv 39 (nxt s))). destruct (scan_escape 39 (nxt s)) as [ok s2]. cbn [snd] in *. apply IH. lia.
  - apply IH. lia.
Qed.

Lemma scan_raw_stable fuel offs s : (sz s < fuel)%nat -> scan_raw (S fuel) offs s = scan_raw fuel offs s.
Proof.
  revert s; induction fuel as [|f IH]; intros s H; [lia|].
  rewrite (scan_raw_S (S f) offs s), (scan_raw_S f offs s).
  destruct (cur s <? 0) eqn:C; [reflexivity|].
  assert (0 <= cur s) by lia. pose proof (nxt_sz_lt s H0).
  destruct (cur s =? 96); [reflexivity|]. apply IH. lia.
Qed.

Lemma fle_block_S f s : fle_block (S f) s =
  if cur s <? 0 then (s, false) else if cur s =? 10 then (s, true)
  else if (cur s =? 42) && (cur (nxt s) =? 47) then (nxt (nxt s), false) else fle_block f (nxt s).
Proof. reflexivity. Qed.
Lemma fle_block_stable fuel s : (sz s < fuel)%nat -> fle_block (S fuel) s = fle_block fuel s.
Proof.
  revert s; induction fuel as [|f IH]; intros s H; [lia|].
  rewrite (fle_block_S (S f) s), (fle_block_S f s).
  destruct (cur s <? 0) eqn:C; [reflexivity|]. destruct (cur s =? 10); [reflexivity|].
  assert (0 <= cur s) by lia. pose proof (nxt_sz_lt s H0).
  destruct ((cur s =? 42) && (cur (nxt s) =? 47)); [reflexivity|]. apply IH. lia.
Qed.
Lemma fle_block_adv fuel s : adv s (fst (fle_block fuel s)).
Proof.
  revert s; induction fuel as [|f IH]; intros s; [apply adv_refl|]. rewrite fle_block_S.
  destruct (cur s <? 0); cbn [fst]; [apply adv_refl|]. destruct (cur s =? 10); cbn [fst]; [apply adv_refl|].
  destruct (_ && _); cbn [fst]; [eapply adv_trans; apply adv_nxt|eapply adv_trans; [apply adv_nxt|apply IH]].
Qed.

Lemma find_line_end_S f s : find_line_end (S f) s =
  if cur s =? 47 then (s, true)
  else if cur s =? 42 then
    let '(s1, nl) := fle_block (S (length (rest s))) (nxt s) in
    if nl then (s1, true)
    else let s2 := skip_ws (S (length (rest s1))) true s1 in
         if (cur s2 <? 0) || (cur s2 =? 10) then (s2, true)
         else if negb (cur s2 =? 47) then (s2, false) else find_line_end f (nxt s2)
  else (s, false).
Proof. reflexivity. Qed.
Lemma find_line_end_stable fuel s : (sz s < fuel)%nat -> find_line_end (S fuel) s = find_line_end fuel s.
Proof.
  revert s; induction fuel as [|f IH]; intros s H; [lia|].
  rewrite (find_line_end_S (S f) s), (find_line_end_S f s).
  destruct (cur s =? 47); [reflexivity|]. destruct (cur s =? 42) eqn:C; [|reflexivity].
  assert (0 <= cur s) by lia. pose proof (nxt_sz_lt s H0).
  pose proof (adv_sz _ _ (fle_block_adv (S (length (rest s))) (nxt s))) as A1.
  destruct (fle_block (S (length (rest s))) (nxt s)) as [s1 nl]. cbn [fst] in A1.
  destruct nl; [reflexivity|]. cbv zeta.
  pose proof (adv_sz _ _ (skip_ws_adv (S (length (rest s1))) true s1)) as A2.
  set (s2 := skip_ws (S (length (rest s1))) true s1) in *.
  destruct ((cur s2 <? 0) || (cur s2 =? 10)) eqn:C2; [reflexivity|].
  destruct (negb (cur s2 =? 47)); [reflexivity|].
  pose proof (adv_sz _ _ (adv_nxt s2)). apply IH. lia.
Qed.

(* hence: any fuel above |rest| gives the result the model computes with S |rest| *)
Lemma stable_from {A} (F : nat -> A) (k : nat) :
  (forall fuel, (k < fuel)%nat -> F (S fuel) = F fuel) -> forall fuel, (k < fuel)%nat -> F fuel = F (S k).
Proof.
  intros H fuel L. induction fuel as [|f IH]; [lia|].
  destruct (Nat.eq_dec f k) as [->|N]; [reflexivity|]. rewrite H by lia. apply IH. lia.
Qed.


(* the top-level loop: more fuel never changes a result *)
Section Top.
Variable ul ud : Z -> bool.
Variable d : dialect.
Lemma scan_all_S f cm st acc : scan_all ul ud d (S f) cm st acc =
  match step ul ud d cm st with
  | Panic => Panic
  | OutOfFuel => OutOfFuel
  | Ok (Again st') => scan_all ul ud d f cm st' acc
  | Ok (Emit t st') =>
    match ttok t with
    | T_EOF => Ok (rev (t :: acc), rev (errs (sc st')))
    | _ => scan_all ul ud d f cm st' (t :: acc)
    end
  end.
Proof. reflexivity. Qed.
Lemma scan_all_more f cm st acc r : scan_all ul ud d f cm st acc = Ok r -> scan_all ul ud d (S f) cm st acc = Ok r.
Proof.
  revert st acc; induction f as [|f IH]; intros st acc; [discriminate|].
  rewrite (scan_all_S (S f) cm st acc), (scan_all_S f cm st acc).
  destruct (step ul ud d cm st) as [[t st'|st']| |]; auto.
  destruct (ttok t); auto.
Qed.
Lemma scan_all_ge f f' cm st acc r : (f <= f')%nat -> scan_all ul ud d f cm st acc = Ok r -> scan_all ul ud d f' cm st acc = Ok r.
Proof. induction 1; auto using scan_all_more. Qed.
End Top.

(* summary: every loop, given any fuel above |rest|, returns what it returns with the S |rest|
   units the model gives it *)
Theorem local_fuel_sufficient ul ud :
  (forall fuel b s, (sz s < fuel)%nat -> skip_ws fuel b s = skip_ws (S (sz s)) b s)
  /\ (forall fuel s, (sz s < fuel)%nat -> scan_ident ul ud fuel s = scan_ident ul ud (S (sz s)) s)
  /\ (forall fuel base s inv ds, (sz s < fuel)%nat -> digits fuel base s inv ds = digits (S (sz s)) base s inv ds)
  /\ (forall fuel s n, (sz s < fuel)%nat -> until_nl fuel s n = until_nl (S (sz s)) s n)
  /\ (forall fuel s n nl, (sz s < fuel)%nat -> block_body fuel s n nl = block_body (S (sz s)) s n nl)
  /\ (forall fuel offs s, (sz s < fuel)%nat -> scan_string fuel offs s = scan_string (S (sz s)) offs s)
  /\ (forall fuel offs s v n, (sz s < fuel)%nat -> scan_rune fuel offs s v n = scan_rune (S (sz s)) offs s v n)
  /\ (forall fuel offs s, (sz s < fuel)%nat -> scan_raw fuel offs s = scan_raw (S (sz s)) offs s)
  /\ (forall fuel s, (sz s < fuel)%nat -> fle_block fuel s = fle_block (S (sz s)) s)
  /\ (forall fuel s, (sz s < fuel)%nat -> find_line_end fuel s = find_line_end (S (sz s)) s).
Proof.
  repeat split; intros.
  - apply (stable_from (fun f => skip_ws f b s) (sz s)); [intros; apply skip_ws_stable|]; assumption.
  - apply (stable_from (fun f => scan_ident ul ud f s) (sz s)); [intros; apply scan_ident_stable|]; assumption.
  - apply (stable_from (fun f => digits f base s inv ds) (sz s)); [intros; apply digits_stable|]; assumption.
  - apply (stable_from (fun f => until_nl f s n) (sz s)); [intros; apply until_nl_stable|]; assumption.
  - apply (stable_from (fun f => block_body f s n nl) (sz s)); [intros; apply block_body_stable|]; assumption.
  - apply (stable_from (fun f => scan_string f offs s) (sz s)); [intros; apply scan_string_stable|]; assumption.
  - apply (stable_from (fun f => scan_rune f offs s v n) (sz s)); [intros; apply scan_rune_stable|]; assumption.
  - apply (stable_from (fun f => scan_raw f offs s) (sz s)); [intros; apply scan_raw_stable|]; assumption.
  - apply (stable_from (fun f => fle_block f s) (sz s)); [intros; apply fle_block_stable|]; assumption.
  - apply (stable_from (fun f => find_line_end f s) (sz s)); [intros; apply find_line_end_stable|]; assumption.
Qed.
