(* C08 — the REVIEWED list of `for ... range <map>` sites of cl/*.go and x/build/*.go.
   Each entry: (package dir, enclosing function, ranged expression, hash of the normalised
   statement as printed by the translator) with the justification why the iteration order of
   the map cannot reach the output bytes or the error list — or the statement that it CAN
   (OrderDependent, with the key of the known finding; none at present).  Gen/MapRanges.v is regenerated from
   /repo on every run; the obligation  generated ⊆ reviewed  (by computation) fails as soon as
   a map range is added or its statement is edited, until the new statement has been reviewed
   here.  Each tag names the lemma of Proofs/C08.v that covers the loop shape. *)
From Coq Require Import List String Bool.
Import ListNotations.
From V Require Import Gen.MapRanges.
Open Scope string_scope.

Inductive tag :=
| SortedAfter      (* keys/values only collected into a slice that is sorted by the (unique) key
                      before any use: sort_perm_invariant / sorted_files_perm_invariant *)
| SetBuild         (* body only inserts the key into a set observed by lookup: set_build_perm *)
| UniqueMatch      (* search returning the entry satisfying a predicate that at most one entry
                      satisfies: find_unique_perm *)
| AtMostOneMatch   (* one error per matching entry, and an invariant guarantees <= 1 match:
                      errs_per_match_perm, ts_cases_perm *)
| KeyedEvents      (* body reports one event per DISTINCT key to the user's Recorder, nothing to
                      the output or the error list; only run when Config.Recorder != nil *)
| OrderDependent (finding : string).   (* the order IS observable: log_loop_refuted /
                      pick_any_refuted; a known finding with this key *)

Definition reviewed : list (string * string * string * string * tag) :=
  [ (* gopSyms := the set of names declared by the XGo files (before the Go files are preloaded) *)
    ("cl", "NewPackage", "ctx.syms", "c31203be9df4c093", SetBuild);
    (* sfiles = append(...) then sort.Slice(sfiles, path<): paths are map keys, hence distinct *)
    ("cl", "NewPackage", "files", "0e5ed42ab49ed545", SortedAfter);
    (* gopaths = append(...) then sort.Strings(gopaths)  (repair 7d9588c) *)
    ("cl", "NewPackage", "pkg.GoFiles", "516b8b20e3208238", SortedAfter);
    (* duplicate-case errors: an identical type is never inserted twice into seen (if !haserr),
       so at most one entry is types.Identical to the case type: ts_cases_perm *)
    ("cl", "compileTypeSwitchStmt", "seen", "e69fdafca2fc9082", AtMostOneMatch);
    (* repaired (sorted keys): the range only collects the project extensions, sort.Strings(exts) follows,
       and the per-project work (first-seen main / no-main project, `if ld.typ == nil` of gmxProjMain) is
       done in a second loop over the SORTED extensions: first_wins_sorted_perm *)
    ("cl", "gmxCheckProjs", "ctx.projs", "73d872360358c80a", SortedAfter);
    (* rec.Def / rec.Implicit / recordFuncLit per distinct *ast.Ident key *)
    ("cl", "goxRecorder.Complete", "p.referDefs", "c174eb508b2b9a9c", KeyedEvents);
    (* rec.Use per distinct name key *)
    ("cl", "goxRecorder.Complete", "p.referUses", "622b81c1770e20dd", KeyedEvents);
    (* repaired: the range only collects the names that are not XGo symbols, sort.Strings(names) follows, and
       loadType / loadSymbol run in a second loop over the SORTED names (membership in ctx.syms re-checked, a
       load may delete or add symbols): log_loop_sorted_perm *)
    ("cl", "initGopPkg", "ctx.syms", "1ce40c634cba7601", SortedAfter);
    (* class file by clsfile name: at most one class file of a package has a given base name
       per project (a second project file panics "multiple project files found" in loadClass) *)
    ("cl", "pkgCtx.lookupClassNode", "p.classes", "311cdd4adef26611", UniqueMatch);
    (* repaired: no package "main": the names are collected, sorted, and the first SORTED name is compiled
       (an empty map is an error): pick_any_sorted_perm *)
    ("x/build", "Context.loadPackage", "pkgs", "52fc1ce5add0db05", SortedAfter)
  ].

Definition site_eqb (g : string * string * string * string) (r : string * string * string * string * tag) : bool :=
  let '(d, f, x, h) := g in
  let '(d', f', x', h', _) := r in
  String.eqb d d' && String.eqb f f' && String.eqb x x' && String.eqb h h'.

Definition all_reviewed : bool := forallb (fun g => existsb (site_eqb g) reviewed) map_ranges.

(* every generated site is in the reviewed list *)
Lemma map_ranges_reviewed : all_reviewed = true.
Proof. vm_compute. reflexivity. Qed.

Lemma map_ranges_reviewed_spec :
  forall g, In g map_ranges -> exists r, In r reviewed /\ site_eqb g r = true.
Proof.
  intros g Hg. pose proof map_ranges_reviewed as H. unfold all_reviewed in H.
  rewrite forallb_forall in H. specialize (H g Hg). apply existsb_exists in H. exact H.
Qed.

(* after the repairs e5e5314 and its two predecessors in cl there is NO order-dependent site left *)
Definition order_dependent_sites : list string :=
  flat_map (fun r => match r with (_, _, _, _, OrderDependent k) => [k] | _ => [] end) reviewed.
Lemma order_dependent_are_listed :
  order_dependent_sites = [].
Proof. vm_compute. reflexivity. Qed.
