(* C08 — the REVIEWED list of `for ... range <map>` sites of cl/*.go and x/build/*.go.
   Each entry: (package dir, enclosing function, ranged expression, hash of the normalised
   statement as printed by the translator) with the justification why the iteration order of
   the map cannot reach the output bytes or the error list — or the statement that it CAN
   (OrderDependent, with the key of the known finding).  Gen/MapRanges.v is regenerated from
   /repo on every run; the obligation  generated ⊆ reviewed  (by computation) fails as soon as
   a map range is added or its statement is edited, until the new statement has been reviewed
   here.  Each tag names the lemma of Proofs/C08.v that covers the loop shape. *)
From Coq Require Import List String Bool.
Import ListNotations.
From V Require Import Gen.MapRanges.
Open Scope string_scope.

Inductive tag :=
| SortedAfter      (* keys/values only collected into a slice that is sorted by the (unique) key
                      before any use: sort_perm_invariant / sorted_files_perm_invariant *)
| SetBuild         (* body only inserts the key into a set observed by lookup: set_build_perm *)
| UniqueMatch      (* search returning the entry satisfying a predicate that at most one entry
                      satisfies: find_unique_perm *)
| AtMostOneMatch   (* one error per matching entry, and an invariant guarantees <= 1 match:
                      errs_per_match_perm, ts_cases_perm *)
| KeyedEvents      (* body reports one event per DISTINCT key to the user's Recorder, nothing to
                      the output or the error list; only run when Config.Recorder != nil *)
| OrderDependent (finding : string).   (* the order IS observable: log_loop_refuted /
                      pick_any_refuted; a known finding with this key *)

Definition reviewed : list (string * string * string * string * tag) :=
  [ (* gopSyms := the set of names declared by the XGo files (before the Go files are preloaded) *)
    ("cl", "NewPackage", "ctx.syms", "c31203be9df4c093", SetBuild);
    (* sfiles = append(...) then sort.Slice(sfiles, path<): paths are map keys, hence distinct *)
    ("cl", "NewPackage", "files", "0e5ed42ab49ed545", SortedAfter);
    (* gopaths = append(...) then sort.Strings(gopaths)  (repair 7d9588c) *)
    ("cl", "NewPackage", "pkg.GoFiles", "516b8b20e3208238", SortedAfter);
    (* duplicate-case errors: an identical type is never inserted twice into seen (if !haserr),
       so at most one entry is types.Identical to the case type: ts_cases_perm *)
    ("cl", "compileTypeSwitchStmt", "seen", "e69fdafca2fc9082", AtMostOneMatch);
    (* per project: first-seen main / no-main project + multi flags (only (proj,multi) with
       multi=false is used, and then the project of that class is unique) — symmetric; but
       gmxProjMain(v) installs ld.typ on the type loader of v's game class only `if ld.typ == nil`:
       two projects WITHOUT project file whose default class has the same name (getGameClass
       disambiguates only when nproj > 1, and nproj counts project files) share one loader and the
       first project in map order wins *)
    ("cl", "gmxCheckProjs", "ctx.projs", "e2c7fbf032a8756d", OrderDependent "projs-default-class-collision");
    (* rec.Def / rec.Implicit / recordFuncLit per distinct *ast.Ident key *)
    ("cl", "goxRecorder.Complete", "p.referDefs", "c174eb508b2b9a9c", KeyedEvents);
    (* rec.Use per distinct name key *)
    ("cl", "goxRecorder.Complete", "p.referUses", "622b81c1770e20dd", KeyedEvents);
    (* loadType / loadSymbol of every Go-file symbol in MAP ORDER; each load appends its own
       errors to ctx.errs: two Go-file types with an error each give two error-list orders *)
    ("cl", "initGopPkg", "ctx.syms", "caa75b6ae9a965bd", OrderDependent "gofile-type-errors-order");
    (* class file by clsfile name: at most one class file of a package has a given base name
       per project (a second project file panics "multiple project files found" in loadClass) *)
    ("cl", "pkgCtx.lookupClassNode", "p.classes", "311cdd4adef26611", UniqueMatch);
    (* no package "main": the FIRST package of the map is compiled — any of them *)
    ("x/build", "Context.loadPackage", "pkgs", "12b0380aaff8bc3c", OrderDependent "builddir-two-packages")
  ].

Definition site_eqb (g : string * string * string * string) (r : string * string * string * string * tag) : bool :=
  let '(d, f, x, h) := g in
  let '(d', f', x', h', _) := r in
  String.eqb d d' && String.eqb f f' && String.eqb x x' && String.eqb h h'.

Definition all_reviewed : bool := forallb (fun g => existsb (site_eqb g) reviewed) map_ranges.

(* every generated site is in the reviewed list *)
Lemma map_ranges_reviewed : all_reviewed = true.
Proof. vm_compute. reflexivity. Qed.

Lemma map_ranges_reviewed_spec :
  forall g, In g map_ranges -> exists r, In r reviewed /\ site_eqb g r = true.
Proof.
  intros g Hg. pose proof map_ranges_reviewed as H. unfold all_reviewed in H.
  rewrite forallb_forall in H. specialize (H g Hg). apply existsb_exists in H. exact H.
Qed.

(* the order-dependent sites are exactly the three known findings *)
Definition order_dependent_sites : list string :=
  flat_map (fun r => match r with (_, _, _, _, OrderDependent k) => [k] | _ => [] end) reviewed.
Lemma order_dependent_are_listed :
  order_dependent_sites = ["projs-default-class-collision"; "gofile-type-errors-order"; "builddir-two-packages"].
Proof. vm_compute. reflexivity. Qed.
