(* Basic facts of the scanner model: UTF-8 decoding widths, next() as "consume a non-empty
   prefix", and the advance relation [adv] that every sub-scanner satisfies. *)
From Coq Require Import List NArith ZArith Bool Lia.
From Coq Require Import ZifyN ZifyNat ZifyBool.
Import ListNotations.
From V Require Import Base.Prelude Gen.ScanTok Model.Scan.
Open Scope Z_scope.

Lemma zlen_app {A} (a b : list A) : zlen (a ++ b) = zlen a + zlen b.
Proof. unfold zlen. rewrite app_length. lia. Qed.
Lemma zlen_nonneg {A} (a : list A) : 0 <= zlen a.
Proof. unfold zlen. lia. Qed.
Lemma zlen_cons {A} (x : A) (a : list A) : zlen (x :: a) = 1 + zlen a.
Proof. unfold zlen. simpl length. lia. Qed.
Lemma zlen_nil {A} : zlen (@nil A) = 0.
Proof. reflexivity. Qed.
Lemma zlen_firstn_skipn {A} n (l : list A) : zlen (firstn n l) + zlen (skipn n l) = zlen l.
Proof. rewrite <- zlen_app, firstn_skipn. reflexivity. Qed.

(* ---- decode ---- *)
Ltac break_decode :=
  repeat match goal with
  | |- context[if ?c then _ else _] => destruct c eqn:?
  | |- context[match ?l with [] => _ | _ :: _ => _ end] => destruct l
  end.

Lemma decode_w_le r : (snd (decode r) <= length r)%nat.
Proof. destruct r as [|b0 t]; cbn [decode]; [simpl; lia|]. break_decode; simpl; lia. Qed.

Lemma decode_w_pos r : r <> [] -> (0 < snd (decode r))%nat.
Proof. destruct r as [|b0 t]; [congruence|]; intros _; cbn [decode]. break_decode; simpl; lia. Qed.

Lemma decode_w_le4 r : (snd (decode r) <= 4)%nat.
Proof. destruct r as [|b0 t]; cbn [decode]; [simpl; lia|]. break_decode; simpl; lia. Qed.

Lemma decode_nil : decode [] = (-1, O).
Proof. reflexivity. Qed.

Lemma decode_nonneg r : r <> [] -> 0 <= fst (decode r).
Proof.
  destruct r as [|b0 t]; [congruence|]; intros _; cbn [decode]. unfold contb, RuneError.
  break_decode; cbn [fst]; try lia.
Qed.

(* an ASCII rune is its byte, width one *)
Lemma decode_ascii r c : fst (decode r) = c -> 0 <= c < 128 ->
  exists t, r = Z.to_N c :: t /\ snd (decode r) = 1%nat.
Proof.
  destruct r as [|b0 t]; cbn [decode]; [simpl; lia|]. unfold contb, RuneError.
  break_decode; cbn [fst snd]; intros E H; try lia.
  exists t. split; [|reflexivity]. f_equal. lia.
Qed.

(* ---- scanner state ---- *)
Definition sz (s : Sc) : nat := length (rest s).

Lemma cur_nil s : rest s = [] -> cur s = -1.
Proof. unfold cur. intros ->. reflexivity. Qed.
Lemma cur_nonneg s : rest s <> [] -> 0 <= cur s.
Proof. apply decode_nonneg. Qed.
Lemma cur_neg_nil s : cur s < 0 -> rest s = [].
Proof. intros H. destruct (rest s) eqn:E; [reflexivity|]. pose proof (cur_nonneg s). rewrite E in H0. assert (0 <= cur s) by (apply H0; congruence). lia. Qed.
Lemma cur_nonneg_rest s : 0 <= cur s -> rest s <> [].
Proof. intros H E. rewrite (cur_nil s E) in H. lia. Qed.

(* [adv s s']: s' is s after consuming a prefix [span] of the remaining input *)
Definition adv (s s' : Sc) : Prop := exists span, rest s = span ++ rest s' /\ off s' = off s + zlen span.
(* strictly *)
Definition sadv (s s' : Sc) : Prop :=
  exists span, span <> [] /\ rest s = span ++ rest s' /\ off s' = off s + zlen span.

Lemma adv_refl s : adv s s.
Proof. exists []. split; [reflexivity|]. rewrite zlen_nil. lia. Qed.
Lemma adv_trans a b c : adv a b -> adv b c -> adv a c.
Proof.
  intros (x & Hx & Ox) (y & Hy & Oy). exists (x ++ y). split.
  - rewrite Hx, Hy, app_assoc. reflexivity.
  - rewrite zlen_app. lia.
Qed.
Lemma sadv_adv a b : sadv a b -> adv a b.
Proof. intros (x & _ & H). exists x. exact H. Qed.
Lemma sadv_adv_trans a b c : sadv a b -> adv b c -> sadv a c.
Proof.
  intros (x & Nx & Hx & Ox) (y & Hy & Oy). exists (x ++ y). split; [|split].
  - destruct x; [congruence|discriminate].
  - rewrite Hx, Hy, app_assoc. reflexivity.
  - rewrite zlen_app. lia.
Qed.
Lemma adv_sadv_trans a b c : adv a b -> sadv b c -> sadv a c.
Proof.
  intros (x & Hx & Ox) (y & Ny & Hy & Oy). exists (x ++ y). split; [|split].
  - destruct x; simpl; [assumption|discriminate].
  - rewrite Hx, Hy, app_assoc. reflexivity.
  - rewrite zlen_app. lia.
Qed.
Lemma adv_err s o c : adv s (err s o c).
Proof. exists []. split; [reflexivity|]. simpl. rewrite zlen_nil. lia. Qed.
Lemma adv_err_r a s o c : adv a s -> adv a (err s o c).
Proof. intros H. eapply adv_trans; [exact H|apply adv_err]. Qed.
Lemma adv_of_eq a s s' : rest s' = rest s -> off s' = off s -> adv a s -> adv a s'.
Proof. intros R O (x & Hx & Ox). exists x. rewrite R, O. auto. Qed.

Lemma nxt_rest s : rest (nxt s) = skipn (snd (decode (rest s))) (rest s).
Proof. unfold nxt. destruct (decode (rest s)). reflexivity. Qed.
Lemma nxt_off s : off (nxt s) = off s + Z.of_nat (snd (decode (rest s))).
Proof. unfold nxt. destruct (decode (rest s)). reflexivity. Qed.

Lemma adv_nxt s : adv s (nxt s).
Proof.
  exists (firstn (snd (decode (rest s))) (rest s)). rewrite nxt_rest, nxt_off. split.
  - symmetry. apply firstn_skipn.
  - unfold zlen. rewrite firstn_length_le by apply decode_w_le. reflexivity.
Qed.
Lemma sadv_nxt s : rest s <> [] -> sadv s (nxt s).
Proof.
  intros H. exists (firstn (snd (decode (rest s))) (rest s)). rewrite nxt_rest, nxt_off. split; [|split].
  - pose proof (decode_w_pos _ H). intros E. apply (f_equal (@length N)) in E.
    rewrite firstn_length_le in E by apply decode_w_le. simpl in E. lia.
  - symmetry. apply firstn_skipn.
  - unfold zlen. rewrite firstn_length_le by apply decode_w_le. reflexivity.
Qed.
Lemma sadv_nxt_cur s : 0 <= cur s -> sadv s (nxt s).
Proof. intros H. apply sadv_nxt, cur_nonneg_rest, H. Qed.

Lemma adv_sz a b : adv a b -> (sz b <= sz a)%nat.
Proof. intros (x & Hx & _). unfold sz. rewrite Hx, app_length. lia. Qed.
Lemma sadv_sz a b : sadv a b -> (sz b < sz a)%nat.
Proof. intros (x & Nx & Hx & _). unfold sz. rewrite Hx, app_length. destruct x; [congruence|simpl; lia]. Qed.
Lemma adv_off a b : adv a b -> off a <= off b.
Proof. intros (x & _ & O). pose proof (zlen_nonneg x). lia. Qed.
Lemma sadv_off a b : sadv a b -> off a < off b.
Proof. intros (x & Nx & _ & O). destruct x; [congruence|]. rewrite zlen_cons in O. pose proof (zlen_nonneg x). lia. Qed.
Lemma adv_off_sz a b : adv a b -> off b + zlen (rest b) = off a + zlen (rest a).
Proof. intros (x & Hx & O). rewrite Hx, zlen_app. lia. Qed.

(* the consumed prefix is the slice *)
Lemma adv_slice a b : adv a b -> rest a = slice a b ++ rest b /\ zlen (slice a b) = off b - off a.
Proof.
  intros (x & Hx & O). unfold slice. rewrite O.
  replace (off a + zlen x - off a) with (zlen x) by lia. unfold zlen. rewrite Nat2Z.id.
  rewrite Hx, firstn_app, Nat.sub_diag, firstn_all. simpl. rewrite app_nil_r. split; [reflexivity|lia].
Qed.
Lemma adv_span_unique a b x : rest a = x ++ rest b -> off b = off a + zlen x -> slice a b = x.
Proof.
  intros Hx O. unfold slice. rewrite O. replace (off a + zlen x - off a) with (zlen x) by lia.
  unfold zlen. rewrite Nat2Z.id, Hx, firstn_app, Nat.sub_diag, firstn_all. simpl. apply app_nil_r.
Qed.

(* reading an ASCII character *)
Lemma nxt_ascii s c : cur s = c -> 0 <= c < 128 ->
  exists t, rest s = Z.to_N c :: t /\ rest (nxt s) = t /\ off (nxt s) = off s + 1.
Proof.
  intros E H. destruct (decode_ascii (rest s) c E H) as (t & R & W). exists t.
  rewrite nxt_rest, nxt_off, W, R. simpl. auto.
Qed.

(* ---- the loops ---- *)
Section Loops.
Variable ul ud : Z -> bool.
Variable d : dialect.

Lemma skip_ws_adv fuel b s : adv s (skip_ws fuel b s).
Proof.
  revert s; induction fuel as [|f IH]; intros s; cbn [skip_ws]; [apply adv_refl|].
  destruct (_ || _); [|apply adv_refl]. eapply adv_trans; [apply adv_nxt|apply IH].
Qed.

Lemma scan_ident_adv fuel s : adv s (scan_ident ul ud fuel s).
Proof.
  revert s; induction fuel as [|f IH]; intros s; cbn [scan_ident]; [apply adv_refl|].
  destruct (_ || _); [|apply adv_refl]. eapply adv_trans; [apply adv_nxt|apply IH].
Qed.

Lemma is_letter_nonneg c : is_letter ul c = true -> 0 <= c.
Proof.
  unfold is_letter, lower. intros H.
  destruct (Z.ltb_spec c 0); [|assumption]. exfalso.
  assert (Z.lor 32 c < 0) by (apply Z.lor_neg; lia).
  lia.
Qed.

Lemma scan_ident_sadv fuel s : is_letter ul (cur s) = true -> (0 < fuel)%nat -> sadv s (scan_ident ul ud fuel s).
Proof.
  intros H Hf. destruct fuel as [|f]; [lia|]. cbn [scan_ident]. rewrite H. simpl orb. cbv iota.
  eapply sadv_adv_trans; [apply sadv_nxt_cur, (is_letter_nonneg _ H)|apply scan_ident_adv].
Qed.

Lemma digits_adv fuel base s inv ds : adv s (snd (fst (digits fuel base s inv ds))).
Proof.
  revert s inv ds; induction fuel as [|f IH]; intros s inv ds; cbn [digits]; [apply adv_refl|].
  destruct (base <=? 10).
  - destruct (_ || _); [|apply adv_refl]. eapply adv_trans; [apply adv_nxt|apply IH].
  - destruct (_ || _); [|apply adv_refl]. eapply adv_trans; [apply adv_nxt|apply IH].
Qed.

Lemma esc_loop_adv n base mx offs s x : adv s (snd (esc_loop n base mx offs s x)).
Proof.
  revert s x; induction n as [|n IH]; intros s x; cbn [esc_loop].
  - destruct (esc_invalid mx x); cbn [snd]; [apply adv_err|apply adv_refl].
  - destruct (base <=? _); cbn [snd]; [apply adv_err|]. eapply adv_trans; [apply adv_nxt|apply IH].
Qed.

Lemma scan_escape_adv q s : adv s (snd (scan_escape q s)).
Proof.
  unfold scan_escape. destruct (esc_simple q (cur s)); cbn [snd]; [apply adv_nxt|].
  destruct (esc_numeric (cur s)) as [[[[n base] mx] [|]]|]; cbn [snd].
  - eapply adv_trans; [apply adv_nxt|apply esc_loop_adv].
  - apply esc_loop_adv.
  - apply adv_err.
Qed.

Lemma scan_string_adv fuel offs s : adv s (scan_string fuel offs s).
Proof.
  revert s; induction fuel as [|f IH]; intros s; cbn [scan_string]; [apply adv_refl|].
  destruct (_ || _); [apply adv_err|].
  destruct (cur s =? 34); [apply adv_nxt|].
  destruct (cur s =? 92).
  - eapply adv_trans; [apply adv_nxt|]. eapply adv_trans; [apply scan_escape_adv|apply IH].
  - eapply adv_trans; [apply adv_nxt|apply IH].
Qed.

Lemma scan_rune_adv fuel offs s v n : adv s (scan_rune fuel offs s v n).
Proof.
  revert s v n; induction fuel as [|f IH]; intros s v n; cbn [scan_rune]; [apply adv_refl|].
  destruct (_ || _); [destruct v; [apply adv_err|apply adv_refl]|].
  destruct (cur s =? 39); [destruct (_ && _); [apply adv_err_r|]; apply adv_nxt|].
  destruct (cur s =? 92).
  - pose proof (scan_escape_adv 39 (nxt s)) as E. destruct (scan_escape 39 (nxt s)) as [ok s2]. cbn [snd] in E.
    eapply adv_trans; [apply adv_nxt|]. eapply adv_trans; [exact E|apply IH].
  - eapply adv_trans; [apply adv_nxt|apply IH].
Qed.

Lemma scan_raw_adv fuel offs s : adv s (scan_raw fuel offs s).
Proof.
  revert s; induction fuel as [|f IH]; intros s; cbn [scan_raw]; [apply adv_refl|].
  destruct (cur s <? 0); [apply adv_err|].
  destruct (cur s =? 96); [apply adv_nxt|]. eapply adv_trans; [apply adv_nxt|apply IH].
Qed.

Lemma until_nl_adv fuel s n : adv s (fst (until_nl fuel s n)).
Proof.
  revert s n; induction fuel as [|f IH]; intros s n; cbn [until_nl]; [apply adv_refl|].
  destruct (_ || _); cbn [fst]; [apply adv_refl|]. eapply adv_trans; [apply adv_nxt|apply IH].
Qed.

Lemma block_body_adv fuel s n nl :
  adv s (fst (fst (fst (block_body fuel s n nl)))).
Proof.
  revert s n nl; induction fuel as [|f IH]; intros s n nl; cbn [block_body]; [apply adv_refl|].
  destruct (cur s <? 0); cbn [fst]; [apply adv_refl|].
  destruct (_ && _); cbn [fst].
  - eapply adv_trans; apply adv_nxt.
  - eapply adv_trans; [apply adv_nxt|apply IH].
Qed.

Lemma sw2_adv s a b : adv s (snd (sw2 s a b)).
Proof. unfold sw2. destruct (_ =? _); cbn [snd]; [apply adv_nxt|apply adv_refl]. Qed.
Lemma sw3_adv s a b c e : adv s (snd (sw3 s a b c e)).
Proof. unfold sw3. repeat destruct (_ =? _); cbn [snd]; try apply adv_nxt; apply adv_refl. Qed.
Lemma sw4_adv s a b c e g : adv s (snd (sw4 s a b c e g)).
Proof.
  unfold sw4. repeat destruct (_ =? _); cbn [snd]; try apply adv_nxt; try apply adv_refl;
  (eapply adv_trans; apply adv_nxt).
Qed.

End Loops.
