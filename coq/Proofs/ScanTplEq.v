(* C32: on shared input the TPL dialect and the XGo dialect produce the same result. *)
From Coq Require Import List NArith ZArith Bool Lia.
From Coq Require Import ZifyN ZifyNat ZifyBool.
Import ListNotations.
From V Require Import Base.Prelude Gen.ScanTok Model.Scan Model.ScanRel Proofs.ScanBase.
Open Scope Z_scope.

Lemma errs_eqb_eq a b : errs_eqb a b = true -> a = b.
Proof.
  revert b; induction a as [|[o1 c1] a IH]; destruct b as [|[o2 c2] b]; cbn [errs_eqb]; try discriminate; auto.
  intros H. apply andb_prop in H as [H H3]. apply andb_prop in H as [H1 H2].
  apply Z.eqb_eq in H1, H2. subst. f_equal. apply IH, H3.
Qed.
Lemma sc_eqb_eq a b : sc_eqb a b = true -> a = b.
Proof.
  unfold sc_eqb. intros H. apply andb_prop in H as [H H4]. apply andb_prop in H as [H H3]. apply andb_prop in H as [H1 H2].
  apply Z.eqb_eq in H1, H4. apply str_eqb_eq in H2. apply errs_eqb_eq in H3.
  destruct a, b. cbn in *. subst. reflexivity.
Qed.

Section Eq.
Variable ul ud : Z -> bool.

Lemma scan_number_tpl_xgo s : scan_number ul ud Tpl s = scan_number ul ud XGo s.
Proof. reflexivity. Qed.

Lemma sw3_as_sw2 s t0 t1 c2 t2 : (cur s =? c2) = false -> sw3 s t0 t1 c2 t2 = sw2 s t0 t1.
Proof. intros H. unfold sw3, sw2. rewrite H. destruct (cur s =? 61); reflexivity. Qed.

Lemma lex_punct_tpl_xgo cm st s :
  (cur s =? 126) = false -> (cur s =? 64) = false -> ((cur s =? 42) && (cur (nxt s) =? 42)) = false ->
  (if (cur s =? 35) && negb (semi st) then sharp_agree s else true) = true ->
  (if (cur s =? 47) && ((cur (nxt s) =? 47) || (cur (nxt s) =? 42)) then slash_agree st s else true) = true ->
  lex_punct Tpl cm st s = lex_punct XGo cm st s.
Proof.
  intros N126 N64 NPOW SH SL. unfold lex_punct. cbv zeta. cbn [is_go is_xgo is_tpl negb andb np_reset].
  rewrite N126, N64.
  repeat match goal with
  | |- (if (cur s =? ?k) then _ else _) = (if (cur s =? ?k) then _ else _) =>
    destruct (cur s =? k) eqn:?; [try reflexivity|]
  end.
  all: try reflexivity.
  - (* '*' *) cbn [andb] in NPOW. rewrite (sw3_as_sw2 _ _ _ _ _ NPOW). reflexivity.
  - (* '#' *) unfold lex_sharp. cbn [is_tpl]. destruct (semi st); [reflexivity|]. cbn [negb andb] in SH.
    unfold sharp_agree in SH. destruct (scan_comment_x XGo s) as [[[s2 lit] nl]| |]; try discriminate.
    apply andb_prop in SH as [S1 S2]. apply sc_eqb_eq in S1. apply str_eqb_eq in S2.
    destruct (scan_sharp_tpl s) as [s2' lit']. cbn [fst snd] in *. subst. reflexivity.
  - (* '/' *) cbn [andb] in SL.
    destruct ((cur (nxt s) =? 47) || (cur (nxt s) =? 42)) eqn:CM; [|reflexivity].
    unfold lex_slash_comment. cbn [is_go is_tpl]. unfold slash_agree in SL.
    destruct (if semi st then find_line_end (S (length (rest (nxt s)))) (nxt s) else (nxt s, false)) as [look le].
    destruct (semi st && le); [reflexivity|].
    unfold comment_agree in SL. destruct (scan_comment_x XGo (with_look s look)) as [[[s2 lit] nl]| |]; try discriminate.
    apply andb_prop in SL as [S1 S2]. apply sc_eqb_eq in S1. apply str_eqb_eq in S2.
    destruct (scan_comment_tpl (with_look s look)) as [s2' lit']. cbn [fst snd] in *. subst. reflexivity.
Qed.

Lemma step_tpl_xgo cm st : xt_plain ul ud st = true -> step ul ud Tpl cm st = step ul ud XGo cm st.
Proof.
  unfold xt_plain, step. cbn [is_go is_xgo andb]. destruct (unit st) as [|b u].
  - cbv zeta. set (s := skip_ws _ _ _). unfold lex. destruct (is_letter ul (cur s)) eqn:L.
    + (* identifiers *)
      unfold lex_word. cbv zeta. cbn [is_tpl is_xgo andb]. set (s1 := scan_ident _ _ _ _). 
      destruct (Nat.ltb 1 (length (slice s s1))).
      * destruct (lookup XGo (slice s s1)); try discriminate; intros H; apply negb_true_iff in H; rewrite H; reflexivity.
      * intros H; apply negb_true_iff in H; rewrite H; reflexivity.
    + destruct (is_decimal (cur s) || ((cur s =? 46) && is_decimal_b (peek s))).
      * intros _. unfold lex_number. rewrite scan_number_tpl_xgo. reflexivity.
      * intros H. apply andb_prop in H as [H H5]. apply andb_prop in H as [H H4]. apply andb_prop in H as [H H3].
        apply andb_prop in H as [H1 H2]. apply negb_true_iff in H1, H2, H3.
        apply lex_punct_tpl_xgo; assumption.
  - intros _. reflexivity.
Qed.

Lemma scan_all_tpl_xgo cm fuel st acc :
  all_steps (xt_plain ul ud) ul ud XGo fuel cm st = true ->
  scan_all ul ud Tpl fuel cm st acc = scan_all ul ud XGo fuel cm st acc.
Proof.
  revert st acc; induction fuel as [|f IH]; intros st acc; [reflexivity|]. cbn [all_steps scan_all].
  intros H. apply andb_prop in H as [P H]. rewrite (step_tpl_xgo cm st P).
  destruct (step ul ud XGo cm st) as [[t st'|st']| |].
  - destruct (ttok t) eqn:T; try (apply IH, H). reflexivity.
  - apply IH, H.
  - reflexivity.
  - reflexivity.
Qed.

Theorem run_tpl_xgo cm src : shared ul ud cm src = true -> run ul ud Tpl cm src = run ul ud XGo cm src.
Proof. unfold shared, run. apply scan_all_tpl_xgo. Qed.
End Eq.

(* the two packages spell every common token the same way (the abstract token kind used to
   compare the streams is the spelling / class name in both `tokens` arrays) *)
Lemma spell_tpl_xgo t : code Tpl t <> -1 -> code XGo t <> -1 -> spell_of Tpl t = spell_of XGo t.
Proof. destruct t; intros H1 H2; try reflexivity; exfalso; first [apply H1; reflexivity|apply H2; reflexivity]. Qed.
