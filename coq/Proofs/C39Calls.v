(* C39 — invariant of the outgoing calls: outgoingCalls holds exactly the registered, not yet retired calls *)
From Coq Require Import List NArith ZArith Bool Arith Lia.
Import ListNotations.
From V Require Import Base.ConnView Gen.ConnSites Model.C39 Proofs.C39Base Proofs.C39Measure.

Definition pre_reg (p : cpc) := match p with CNew | CReg | CRetire _ => true | _ => false end.
Definition post_reg (p : cpc) := match p with CWrite | CWErr | CWFailed _ => true | _ => false end.
Definition returned_pc (p : cpc) := match p with CRet | CReturned => true | _ => false end.

Record call_ok (out : list (id * nat)) (seq : Z) (c : nat) (cr : callrec) : Prop := {
  ck_id : forall i, c_id cr = Some i -> exists z, i = IInt z /\ (1 <= z <= seq)%Z;
  ck_new : c_pc cr = CNew <-> c_id cr = None;
  ck_resp : forall r, c_resp cr = Some r -> c_id cr = Some (rs_id r);
  ck_pre : pre_reg (c_pc cr) = true -> c_resp cr = None /\ c_reg cr = false;
  ck_post : post_reg (c_pc cr) = true -> c_reg cr = true;
  ck_ret : returned_pc (c_pc cr) = true -> c_resp cr <> None \/ c_reg cr = true;
  ck_reg : c_reg cr = true -> c_resp cr = None -> exists i, c_id cr = Some i /\ In (i, c) out }.

Record InvC' (calls : list callrec) (out : list (id * nat)) (seq : Z) : Prop := {
  ic_calls : forall c cr, nth_error calls c = Some cr -> call_ok out seq c cr;
  ic_out : forall i c, In (i, c) out ->
           exists cr, nth_error calls c = Some cr /\ c_id cr = Some i /\ c_resp cr = None /\ c_reg cr = true;
  ic_nd1 : NoDup (map fst out);
  ic_nd2 : NoDup (map snd out);
  ic_uniq : forall c c' cr cr' i, nth_error calls c = Some cr -> nth_error calls c' = Some cr' ->
            c_id cr = Some i -> c_id cr' = Some i -> c = c';
  ic_seq : (0 <= seq)%Z }.
Definition InvC (s : state) := InvC' (s_calls s) (s_outgoing s) (s_seq s).

Lemma InvC_init p : InvC (init p).
Proof. constructor; simpl; intros; try (destruct c; discriminate); try tauto; try lia; constructor. Qed.

(* replacing the record of call c by one with the same id, response and registration *)
Lemma invC_upd_pc calls out seq c cr cr' :
  InvC' calls out seq -> nth_error calls c = Some cr ->
  c_id cr' = c_id cr -> c_resp cr' = c_resp cr -> c_reg cr' = c_reg cr ->
  (c_pc cr' = CNew <-> c_id cr = None) ->
  (pre_reg (c_pc cr') = true -> c_resp cr = None /\ c_reg cr = false) ->
  (post_reg (c_pc cr') = true -> c_reg cr = true) ->
  (returned_pc (c_pc cr') = true -> c_resp cr <> None \/ c_reg cr = true) ->
  InvC' (upd c cr' calls) out seq.
Proof.
  intros I E Hid Hresp Hreg Hnew Hpre Hpost Hret. destruct I as [Ic Io N1 N2 Iu Sq].
  constructor; auto.
  - intros c1 cr1. rewrite nth_error_upd. destruct (Nat.eqb_spec c c1).
    + subst c1. rewrite E. intros H; injection H as <-. destruct (Ic _ _ E).
      constructor; rewrite ?Hid, ?Hresp, ?Hreg; auto.
    + apply Ic.
  - intros i c1 Hin. destruct (Io _ _ Hin) as (cr1 & E1 & A & B & C).
    rewrite nth_error_upd. destruct (Nat.eqb_spec c c1).
    + subst c1. rewrite E1. rewrite E in E1; injection E1 as <-. exists cr'. rewrite Hid, Hresp, Hreg. auto.
    + eauto.
  - intros c1 c2 cr1 cr2 i. rewrite !nth_error_upd.
    destruct (Nat.eqb_spec c c1), (Nat.eqb_spec c c2); subst; try rewrite E; intros H1 H2 A B;
      try (injection H1 as <-); try (injection H2 as <-); try rewrite Hid in *; eauto.
Qed.

Lemma invC_snoc calls out seq bad : InvC' calls out seq -> InvC' (calls ++ [new_call bad]) out seq.
Proof.
  intros [Ic Io N1 N2 Iu Sq]. constructor; auto.
  - intros c cr. rewrite nth_error_snoc. destruct (Nat.ltb_spec c (length calls)); [apply Ic|].
    destruct (Nat.eqb_spec c (length calls)); [|discriminate]. intros H0; injection H0 as <-.
    constructor; simpl; try tauto; try discriminate.
  - intros i c Hin. destruct (Io _ _ Hin) as (cr & E & H). exists cr. split; [|exact H].
    rewrite nth_error_snoc. pose proof (nth_error_lt _ _ _ E). destruct (Nat.ltb_spec c (length calls)); [assumption | lia].
  - intros c c' cr cr' i. rewrite !nth_error_snoc.
    destruct (Nat.ltb_spec c (length calls)), (Nat.ltb_spec c' (length calls)).
    + apply Iu.
    + destruct (Nat.eqb c' (length calls)); [|discriminate]. intros _ Hx _ A; injection Hx as <-; discriminate.
    + destruct (Nat.eqb c (length calls)); [|discriminate]. intros Hx _ A; injection Hx as <-; discriminate.
    + destruct (Nat.eqb c (length calls)); [|discriminate]. intros Hx _ A; injection Hx as <-; discriminate.
Qed.

Lemma upd_upd {A} i (x y : A) l : upd i x (upd i y l) = upd i x l.
Proof. revert i; induction l as [|a l IH]; intros [|i]; simpl; auto. f_equal; apply IH. Qed.

(* call c gets its response; it is not (or no longer) in the map *)
Lemma invC_retire calls out out' seq c cr cr' r :
  InvC' calls out seq -> nth_error calls c = Some cr ->
  c_id cr = Some (rs_id r) -> c_id cr' = c_id cr -> c_resp cr' = Some r -> c_reg cr' = c_reg cr ->
  pre_reg (c_pc cr') = false -> (post_reg (c_pc cr') = true -> c_reg cr = true) ->
  (forall x, In x out' -> In x out /\ snd x <> c) -> (forall x, In x out -> snd x <> c -> In x out') ->
  NoDup (map fst out') -> NoDup (map snd out') ->
  InvC' (upd c cr' calls) out' seq.
Proof.
  intros [Ic Io N1 N2 Iu Sq] E Hid Hid' Hresp Hreg Hpre Hpost Hsub Hsup M1 M2.
  constructor; auto.
  - intros c1 cr1. rewrite nth_error_upd. destruct (Nat.eqb_spec c c1).
    + subst c1. rewrite E. intros H; injection H as <-. destruct (Ic _ _ E).
      constructor; rewrite ?Hid', ?Hresp, ?Hreg; auto.
      * split; intros H; [rewrite H in Hpre; discriminate | rewrite Hid in H; discriminate].
      * intros r0 H; injection H as <-. assumption.
      * rewrite Hpre; discriminate.
      * intros _; left; discriminate.
      * intros _ H; discriminate.
    + intros H. destruct (Ic _ _ H). constructor; auto.
      intros R1 R2. destruct (ck_reg0 R1 R2) as (i & A & B). exists i; split; auto.
  - intros i c1 Hin. destruct (Hsub _ Hin) as [Hin0 Hne]. simpl in Hne.
    destruct (Io _ _ Hin0) as (cr1 & E1 & H). exists cr1; split; auto.
    rewrite nth_error_upd_other; auto.
  - intros c1 c2 cr1 cr2 i. rewrite !nth_error_upd.
    destruct (Nat.eqb_spec c c1), (Nat.eqb_spec c c2); subst; try rewrite E; intros H1 H2 A B;
      try (injection H1 as <-); try (injection H2 as <-); try rewrite Hid' in *; eauto.
Qed.

Lemma retire_all_inv seq out : forall calls, InvC' calls out seq ->
  exists calls', retire_all out calls = Some calls' /\ InvC' calls' [] seq.
Proof.
  induction out as [|[i c] t IH]; intros calls I; simpl.
  - eauto.
  - destruct (ic_out _ _ _ I i c) as (cr & E & Hid & Hr & Hg); [left; reflexivity|].
    unfold retire. rewrite E, Hr. apply IH.
    pose proof (ic_nd1 _ _ _ I) as N1. pose proof (ic_nd2 _ _ _ I) as N2. simpl in N1, N2.
    inversion N1; inversion N2; subst.
    apply (invC_retire calls ((i, c) :: t) t seq c cr (set_c_resp {| rs_id := i; rs_body := BErr e_read |} cr)
             {| rs_id := i; rs_body := BErr e_read |} I E); simpl; auto.
    + destruct (pre_reg (c_pc cr)) eqn:P; [|reflexivity].
      destruct (ck_pre _ _ _ _ (ic_calls _ _ _ I _ _ E) P). congruence.
    + intros x Hx. split; [right; assumption|]. intros Hc. apply H5. rewrite <- Hc. apply in_map; assumption.
    + intros x [<-|Hx] Hc; [simpl in Hc; congruence | assumption].
Qed.

(* id := Int64ID(atomic.AddInt64(&c.seq, 1)) *)
Lemma invC_alloc calls out seq c cr pc' :
  InvC' calls out seq -> nth_error calls c = Some cr -> c_pc cr = CNew -> pc' <> CNew -> pre_reg pc' = true ->
  InvC' (upd c (set_c_pc pc' (set_c_id (IInt (seq + 1)) cr)) calls) out (seq + 1).
Proof.
  intros [Ic Io N1 N2 Iu Sq] E Hpc Hne Hpre. pose proof (Ic _ _ E) as K.
  assert (Hid : c_id cr = None) by (apply (ck_new _ _ _ _ K); assumption).
  assert (Hrr : c_resp cr = None /\ c_reg cr = false) by (apply (ck_pre _ _ _ _ K); rewrite Hpc; reflexivity).
  destruct Hrr as [Hr Hg].
  constructor; auto; try lia.
  - intros c1 cr1. rewrite nth_error_upd. destruct (Nat.eqb_spec c c1).
    + subst c1. rewrite E. intros H; injection H as <-.
      constructor; simpl.
      * intros i H; injection H as <-. exists (seq + 1)%Z. split; [reflexivity|].
        lia.
      * split; [intros; contradiction | discriminate].
      * rewrite Hr; discriminate.
      * auto.
      * destruct pc'; simpl in *; try discriminate; auto.
      * destruct pc'; simpl in *; discriminate.
      * rewrite Hg; discriminate.
    + intros H. destruct (Ic _ _ H). constructor; auto.
      intros i Hi. destruct (ck_id0 _ Hi) as (z & -> & Hz). exists z; split; [reflexivity | lia].
  - intros i c1 Hin. destruct (Io _ _ Hin) as (cr1 & E1 & A & B & C).
    rewrite nth_error_upd. destruct (Nat.eqb_spec c c1).
    + subst c1. rewrite E in E1; injection E1 as <-. congruence.
    + eauto.
  - intros c1 c2 cr1 cr2 i. rewrite !nth_error_upd.
    destruct (Nat.eqb_spec c c1), (Nat.eqb_spec c c2); subst; try rewrite E; intros H1 H2 A B;
      try (injection H1 as <-); try (injection H2 as <-); simpl in *; eauto.
    + injection A as <-. destruct (ck_id _ _ _ _ (Ic _ _ H2) _ B) as (z & Hz & Hb). injection Hz as <-. lia.
    + injection B as <-. destruct (ck_id _ _ _ _ (Ic _ _ H1) _ A) as (z & Hz & Hb). injection Hz as <-. lia.
Qed.

Lemma invC_register calls out seq c cr i :
  InvC' calls out seq -> nth_error calls c = Some cr -> c_pc cr = CReg -> c_id cr = Some i ->
  InvC' (upd c (set_c_pc CWrite (set_c_reg cr)) calls) ((i, c) :: adelete out i) seq.
Proof.
  intros I E Hpc Hid. pose proof I as [Ic Io N1 N2 Iu Sq]. pose proof (Ic _ _ E) as K.
  assert (Hrr : c_resp cr = None /\ c_reg cr = false) by (apply (ck_pre _ _ _ _ K); rewrite Hpc; reflexivity).
  destruct Hrr as [Hr Hg].
  assert (Hnotin : forall x, In x out -> snd x <> c).
  { intros [i1 c1] Hin Hc; simpl in Hc; subst c1. destruct (Io _ _ Hin) as (cr1 & E1 & _ & _ & G). congruence. }
  constructor; auto.
  - intros c1 cr1. rewrite nth_error_upd. destruct (Nat.eqb_spec c c1).
    + subst c1. rewrite E. intros H; injection H as <-. destruct K.
      constructor; simpl; auto; try discriminate.
      * split; [discriminate | congruence].
      * intros _ _. exists i; split; [assumption | left; reflexivity].
    + intros H. destruct (Ic _ _ H). constructor; auto.
      intros R1 R2. destruct (ck_reg0 R1 R2) as (i1 & A & B). exists i1; split; auto. right.
      apply adelete_in; auto. simpl. intros ->. apply n. symmetry. eapply Iu; eauto.
  - intros i1 c1 [H|H].
    + injection H as <- <-. exists (set_c_pc CWrite (set_c_reg cr)). rewrite (nth_error_upd_same _ _ _ _ E). simpl. auto.
    + apply in_adelete in H as [H _]. destruct (Io _ _ H) as (cr1 & E1 & A). exists cr1; split; auto.
      rewrite nth_error_upd_other; auto. intros ->. apply (Hnotin _ H); reflexivity.
  - simpl. constructor; [apply adelete_notin_fst | apply NoDup_adelete_fst; assumption].
  - simpl. constructor; [|apply NoDup_adelete_snd; assumption].
    intros H. apply in_map_iff in H as (x & Hx & Hin). apply in_adelete in Hin as [Hin _]. apply (Hnotin _ Hin); assumption.
  - intros c1 c2 cr1 cr2 i1. rewrite !nth_error_upd.
    destruct (Nat.eqb_spec c c1), (Nat.eqb_spec c c2); subst; try rewrite E; intros H1 H2 A B;
      try (injection H1 as <-); try (injection H2 as <-); simpl in *; eauto.
Qed.

Ltac simp_state :=
  unfold upd_call, upd_notif, set_pr, finish_pr, write_err_body in *;
  try match goal with |- context [if s_writeErr ?s then _ else _] => let EW := fresh "EW" in destruct (s_writeErr s) eqn:EW end;
  cbn [s_connClosing s_reading s_readErr s_writeErr s_closer s_outgoing s_outNotifs s_incoming s_byID s_queue
       s_handlerRunning s_done s_seq s_calls s_reqs s_asyncs s_notifs s_reader s_handler s_resps s_cancels s_closers
       s_main s_preempter s_rwc_closes s_ondones s_rwc_acked s_ondone_acked
       set_connClosing set_reading set_readErr set_writeErr set_closer set_outgoing set_outNotifs set_incoming
       set_byID set_queue set_handlerRunning set_done set_seq set_calls set_reqs set_asyncs set_notifs set_reader
       set_handler set_resps set_cancels set_closers set_main set_rwc_closes set_ondones set_rwc_acked set_ondone_acked] in *.

Lemma invC_retire_delete calls out seq c cr cr' r :
  InvC' calls out seq -> nth_error calls c = Some cr -> In (rs_id r, c) out ->
  c_id cr' = c_id cr -> c_resp cr' = Some r -> c_reg cr' = c_reg cr -> (c_pc cr' = c_pc cr \/ c_pc cr' = CRet) ->
  InvC' (upd c cr' calls) (adelete out (rs_id r)) seq.
Proof.
  intros I E Hin Hid Hresp Hreg Hpc. pose proof I as [Ic Io N1 N2 Iu Sq].
  destruct (Io _ _ Hin) as (cr0 & E0 & A & B & C). rewrite E in E0; injection E0 as <-.
  apply (invC_retire calls out (adelete out (rs_id r)) seq c cr cr' r I E); auto.
  - destruct Hpc as [-> | ->]; [|reflexivity]. destruct (pre_reg (c_pc cr)) eqn:P; [|reflexivity].
    destruct (ck_pre _ _ _ _ (Ic _ _ E) P). congruence.
  - intros [i1 c1] H. apply in_adelete in H as [H Hne]. split; [assumption|]. simpl in *. intros ->.
    destruct (Io _ _ H) as (cr1 & E1 & A1 & _). rewrite E in E1; injection E1 as <-. congruence.
  - intros [i1 c1] H Hne. apply adelete_in; [assumption|]. simpl in *. intros ->.
    apply Hne. pose proof (in_alookup _ _ _ N1 H). pose proof (in_alookup _ _ _ N1 Hin). congruence.
  - apply NoDup_adelete_fst; assumption.
  - apply NoDup_adelete_snd; assumption.
Qed.

Ltac pc_only I E :=
  let K := fresh "K" in pose proof (ic_calls _ _ _ I _ _ E) as K; destruct K as [K1 K2 K3 K4 K5 K6 K7];
  apply (invC_upd_pc _ _ _ _ _ _ I E); simpl; auto;
  repeat match goal with E0 : c_pc _ = _ |- _ => rewrite E0 in *; clear E0 end; simpl in *;
  try solve [intuition (try discriminate; try congruence)].

Lemma InvC_body s l s1 : InvC s -> body_step s l = Ok s1 -> InvC s1.
Proof.
  intros I H. destruct l; inv_body H; unfold InvC in *; simp_state; try assumption.
  all: try (pc_only I E; fail).
  - apply invC_snoc; assumption.
  - apply invC_alloc; auto; discriminate.
  - apply invC_alloc; auto; discriminate.
  - (* retire outside a section: the call is not registered *)
    apply retire_nth in E2 as (cr & E' & Hr & ->). rewrite E in E'; injection E' as <-. rewrite upd_upd.
    pose proof (ic_calls _ _ _ I _ _ E) as K. destruct (ck_pre _ _ _ _ K) as [_ Hg]; [rewrite E0; reflexivity|].
    assert (Hnotin : forall x, In x (s_outgoing s) -> snd x <> c).
    { intros [i1 c1] Hin Hc; simpl in Hc; subst c1. destruct (ic_out _ _ _ I _ _ Hin) as (cr1 & E1' & _ & _ & G). congruence. }
    apply (invC_retire _ (s_outgoing s) (s_outgoing s) _ c c0 _ {| rs_id := i; rs_body := BErr e |} I E); simpl; auto.
    + discriminate.
    + apply (ic_nd1 _ _ _ I).
    + apply (ic_nd2 _ _ _ I).
  - apply invC_register; assumption.
  - apply retire_nth in E4 as (cr & E' & Hr & ->). rewrite E in E'; injection E' as <-. rewrite upd_upd.
    apply Nat.eqb_eq in E3; subst n.
    apply (invC_retire_delete _ _ _ c c0 _ {| rs_id := i; rs_body := BErr e |} I E); simpl; auto.
    apply alookup_in; assumption.
  - apply retire_nth in E1 as (cr & E' & Hr & ->).
    apply (invC_retire_delete _ _ _ n cr _ r I E'); simpl; auto.
    apply alookup_in; assumption.
  - destruct (retire_all_inv _ _ _ I) as (l' & R & I'). rewrite R in E0; injection E0 as <-. assumption.
Qed.

Lemma InvC_epi s s' : InvC s -> epi s = Ok s' -> InvC s'.
Proof. unfold epi, InvC. intros I H. break_match H; injection H as <-; simp_state; assumption. Qed.

Lemma retire_some c r calls cr : nth_error calls c = Some cr -> c_resp cr = None -> retire c r calls <> None.
Proof. unfold retire. intros -> ->. discriminate. Qed.

(* the retire panics cannot happen *)
Lemma no_retire_panic s l p : InvC s -> body_step s l = Panic p -> p <> PRetireTwice.
Proof.
  intros I H. destruct l; unfold body_step, get_pr in H; break_match H; try discriminate H; injection H as <-; try discriminate.
  all: exfalso; unfold InvC in I.
  - destruct (ck_pre _ _ _ _ (ic_calls _ _ _ I _ _ E)) as [Hr _]; [rewrite E0; reflexivity|].
    eapply retire_some; eauto.
  - apply alookup_in in E2. apply Nat.eqb_eq in E3; subst n.
    destruct (ic_out _ _ _ I _ _ E2) as (cr & E' & _ & Hr & _). eapply retire_some; eauto.
  - apply alookup_in in E0. destruct (ic_out _ _ _ I _ _ E0) as (cr & E' & _ & Hr & _). eapply retire_some; eauto.
  - destruct (retire_all_inv _ _ _ I) as (l' & R & _). congruence.
Qed.

(* a response, once set, is never changed (a second Await sees the same answer) *)
Lemma retire_keeps c r calls calls' c1 cr1 r1 : retire c r calls = Some calls' ->
  nth_error calls c1 = Some cr1 -> c_resp cr1 = Some r1 -> nth_error calls' c1 = Some cr1.
Proof.
  intros H E R. apply retire_nth in H as (cr & E' & Hn & ->). rewrite nth_error_upd.
  destruct (Nat.eqb_spec c c1); [subst; congruence | assumption].
Qed.
Lemma retire_all_keeps l : forall calls calls' c1 cr1 r1, retire_all l calls = Some calls' ->
  nth_error calls c1 = Some cr1 -> c_resp cr1 = Some r1 -> nth_error calls' c1 = Some cr1.
Proof.
  induction l as [|[i c] l IH]; simpl; intros calls calls' c1 cr1 r1 H E R.
  - injection H as <-; assumption.
  - destruct (retire c _ calls) eqn:X; [|discriminate]. eapply IH; eauto. eapply retire_keeps; eauto.
Qed.
Lemma upd_keeps_resp calls c cr r c0 cr0 cr0' :
  nth_error calls c = Some cr -> c_resp cr = Some r -> nth_error calls c0 = Some cr0 ->
  (c_resp cr0 = Some r -> c_resp cr0' = Some r) -> c_id cr0' = c_id cr0 ->
  exists cr', nth_error (upd c0 cr0' calls) c = Some cr' /\ c_resp cr' = Some r /\ c_id cr' = c_id cr.
Proof.
  intros E R E0 HR HI. rewrite nth_error_upd. destruct (Nat.eqb_spec c0 c).
  - subst c0. rewrite E. rewrite E in E0; injection E0 as <-. eauto.
  - eauto.
Qed.
Lemma resp_stable_body s l s1 c cr r : InvC s -> body_step s l = Ok s1 -> nth_error (s_calls s) c = Some cr -> c_resp cr = Some r ->
  exists cr', nth_error (s_calls s1) c = Some cr' /\ c_resp cr' = Some r /\ c_id cr' = c_id cr.
Proof.
  intros I H E R. destruct l; inv_body H; simp_state; eauto.
  all: try (eapply upd_keeps_resp; eauto; fail).
  - exists cr. rewrite nth_error_app1 by (eapply nth_error_lt; eauto). auto.
  - assert (c0 <> c).
    { intros ->. rewrite E in E0; injection E0 as <-.
      destruct (ck_pre _ _ _ _ (ic_calls _ _ _ I _ _ E)) as [X _]; [rewrite E1; reflexivity | congruence]. }
    exists cr. rewrite nth_error_upd_other; auto.
  - assert (c0 <> c).
    { intros ->. rewrite E in E0; injection E0 as <-.
      destruct (ck_pre _ _ _ _ (ic_calls _ _ _ I _ _ E)) as [X _]; [rewrite E1; reflexivity | congruence]. }
    exists cr. rewrite nth_error_upd_other; auto.
  - pose proof (retire_keeps _ _ _ _ _ _ _ E3 E R) as K. apply retire_nth in E3 as (cr0 & X & Y & ->).
    assert (c0 <> c) by (intros ->; congruence).
    exists cr. rewrite nth_error_upd_other; auto.
  - pose proof (retire_keeps _ _ _ _ _ _ _ E5 E R) as K. apply retire_nth in E5 as (cr0 & X & Y & ->).
    assert (c0 <> c) by (intros ->; congruence).
    exists cr. rewrite nth_error_upd_other; auto.
  - exists cr. split; [eapply retire_keeps; eauto | auto].
  - exists cr. split; [eapply retire_all_keeps; eauto | auto].
Qed.
