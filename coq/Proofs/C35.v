From Coq Require Import List NArith Bool Lia.
Import ListNotations.
From V Require Import Model.C35.

Lemma span_files_app l : fst (span_files l) ++ snd (span_files l) = l.
Proof. induction l as [|a t IH]; simpl; auto. destruct (is_file a); simpl; auto.
  destruct (span_files t) as [x y]. simpl in *. now rewrite IH. Qed.

Lemma span_files_len l : length (snd (span_files l)) <= length l.
Proof. induction l as [|a t IH]; simpl; auto. destruct (is_file a); simpl; auto.
  destruct (span_files t) as [x y]. simpl in *. lia. Qed.

Lemma span_files_all l : forallb is_file (fst (span_files l)) = true.
Proof. induction l as [|a t IH]; simpl; auto. destruct (is_file a) eqn:E; simpl; auto.
  destruct (span_files t) as [x y]. simpl in *. now rewrite E, IH. Qed.

(* the rest after a files run does not start with a file: the run is maximal *)
Definition head_not_file (l : list str) : Prop :=
  match l with [] => True | a :: _ => is_file a = false end.

Lemma span_files_max l : head_not_file (snd (span_files l)).
Proof. induction l as [|a t IH]; simpl; auto. destruct (is_file a) eqn:E; simpl; auto.
  destruct (span_files t) as [x y]. simpl in *. exact IH. Qed.

Lemma parse_one_spec args p next : parse_one args = Some (p, next) ->
  length next < length args /\ args_of p ++ next = args.
Proof.
  destruct args as [|a t]; simpl; [discriminate|].
  destruct (is_file a) eqn:Hf.
  - pose proof (span_files_app t) as Ha. pose proof (span_files_len t) as Hl.
    destruct (span_files t) as [x y]. simpl in *. intros H; injection H as <- <-. simpl. split; [lia|now rewrite Ha].
  - destruct (is_local a); intros H; inversion H; subst; simpl; split; auto.
Qed.

Lemma parse_one_none args : parse_one args = None -> args = [].
Proof. destruct args as [|a t]; auto. simpl. destruct (is_file a).
  - destruct (span_files t); discriminate.
  - destruct (is_local a); discriminate. Qed.

(* shape of a single project *)
Definition proj_ok (p : proj) : Prop :=
  match p with
  | Files l => l <> [] /\ forallb is_file l = true
  | Dir d => is_file d = false /\ is_local d = true
  | Pkg x => is_file x = false /\ is_local x = false
  end.

Lemma parse_one_ok args p next : parse_one args = Some (p, next) ->
  proj_ok p /\ (is_files p = true -> head_not_file next).
Proof.
  destruct args as [|a t]; simpl; [discriminate|].
  destruct (is_file a) eqn:Hf.
  - pose proof (span_files_all t) as Ha. pose proof (span_files_max t) as Hm.
    destruct (span_files t) as [x y]. simpl in *. intros H; injection H as <- <-. simpl.
    repeat split; auto; [discriminate| now rewrite Hf, Ha].
  - destruct (is_local a) eqn:Hl; intros H; inversion H; subst; simpl; repeat split; auto; discriminate.
Qed.

Lemma loop_concat : forall fuel args acc hf hn ps,
  parse_all_loop fuel args acc hf hn = Ok ps ->
  concat (map args_of ps) = concat (map args_of (rev acc)) ++ args.
Proof.
  induction fuel as [|f IH]; simpl; intros args acc hf hn ps H; [discriminate|].
  destruct (parse_one args) as [[p next]|] eqn:Hp.
  - apply parse_one_spec in Hp as [_ Happ].
    assert (E: concat (map args_of ps) = concat (map args_of (rev (p :: acc))) ++ next)
      by (destruct p; eapply IH; eauto).
    rewrite E. simpl. rewrite map_app, concat_app. simpl. rewrite app_nil_r, <- app_assoc. now rewrite Happ.
  - apply parse_one_none in Hp. subst. destruct (hf && hn); inversion H; subst. now rewrite app_nil_r.
Qed.

Lemma loop_total : forall fuel args acc hf hn,
  length args < fuel -> parse_all_loop fuel args acc hf hn <> OutOfFuel.
Proof.
  induction fuel as [|f IH]; simpl; intros args acc hf hn Hl; [lia|].
  destruct (parse_one args) as [[p next]|] eqn:Hp.
  - apply parse_one_spec in Hp as [Hlt _]. destruct p; apply IH; lia.
  - destruct (hf && hn); discriminate.
Qed.

(* structure of the project list: every project well-shaped, and a Files project is never
   directly followed by another Files project (runs are maximal) *)
Fixpoint runs_ok (ps : list proj) : Prop :=
  match ps with
  | [] => True
  | p :: rest => proj_ok p /\
                 match rest with q :: _ => is_files p = true -> is_files q = false | [] => True end /\
                 runs_ok rest
  end.

Lemma runs_ok_snoc ps p : runs_ok ps -> proj_ok p ->
  (forall q, last ps p = q -> ps <> [] -> is_files q = true -> is_files p = false) -> runs_ok (ps ++ [p]).
Proof.
  induction ps as [|a t IH]; simpl; intros H Hp Hl; [tauto|].
  destruct H as (Ha & Hn & Ht). split; [exact Ha|]. destruct t as [|b t'].
  - simpl. repeat split; auto. intros Hf. apply (Hl a); auto. discriminate.
  - simpl in *. split; [exact Hn|]. apply IH; auto. intros q Hq _ Hqf. apply (Hl q); auto. discriminate.
Qed.

(* loop invariant: acc (reversed) is well-formed and, if its last project is a Files project,
   the remaining args do not start with a file *)
Definition acc_inv (acc : list proj) (args : list str) : Prop :=
  runs_ok (rev acc) /\ match acc with p :: _ => is_files p = true -> head_not_file args | [] => True end.

Lemma last_rev_cons {A} (x : A) l d : last (rev (x :: l)) d = x.
Proof. simpl. induction (rev l) as [|a t IH]; simpl; auto. destruct (t ++ [x]) eqn:E; auto.
  destruct t; discriminate. Qed.

Lemma loop_runs : forall fuel args acc hf hn ps,
  acc_inv acc args -> parse_all_loop fuel args acc hf hn = Ok ps -> runs_ok ps.
Proof.
  induction fuel as [|f IH]; simpl; intros args acc hf hn ps Hinv H; [discriminate|].
  destruct (parse_one args) as [[p next]|] eqn:Hp.
  - pose proof (parse_one_ok _ _ _ Hp) as [Hok Hmax].
    assert (Hinv' : acc_inv (p :: acc) next).
    { destruct Hinv as [Hr Hh]. split; [|exact Hmax]. simpl. apply runs_ok_snoc; auto.
      intros q Hq Hne Hqf. destruct acc as [|a acc']; [simpl in Hne; congruence|].
      rewrite last_rev_cons in Hq. subst q. specialize (Hh Hqf).
      destruct args as [|x xs]; [discriminate|]. simpl in Hh. simpl in Hp. rewrite Hh in Hp.
      destruct (is_local x); inversion Hp; reflexivity. }
    destruct p; eapply IH; eauto.
  - destruct (hf && hn); inversion H; subst. apply Hinv.
Qed.

(* the flags: hasFiles <-> some Files project so far; hasNotFiles likewise *)
Lemma loop_mixed : forall fuel args acc hf hn,
  length args < fuel ->
  (parse_all_loop fuel args acc hf hn = ErrMixed <->
   (hf = true \/ existsb is_file args = true) /\ (hn = true \/ existsb (fun a => negb (is_file a)) args = true)).
Proof.
  induction fuel as [|f IH]; simpl; intros args acc hf hn Hl; [lia|].
  destruct (parse_one args) as [[p next]|] eqn:Hp.
  - pose proof (parse_one_spec _ _ _ Hp) as [Hlt Happ].
    pose proof (parse_one_ok _ _ _ Hp) as [Hok _].
    assert (Hex : forall g, existsb g args = existsb g (args_of p) || existsb g next)
      by (intros g; rewrite <- Happ; apply existsb_app).
    destruct p as [l|d|x]; simpl in *.
    + rewrite IH by lia. rewrite !Hex. destruct Hok as [Hne Hall].
      assert (E1 : existsb is_file l = true) by (destruct l as [|a l']; [congruence|]; simpl in *; apply andb_prop in Hall as [-> _]; reflexivity).
      assert (E2 : existsb (fun a => negb (is_file a)) l = false).
      { clear -Hall. induction l as [|a l' IHl]; simpl in *; auto. apply andb_prop in Hall as [-> H]. simpl. auto. }
      rewrite E1, E2. simpl. intuition.
    + rewrite IH by lia. rewrite !Hex. simpl. destruct Hok as [-> _]. simpl. intuition.
    + rewrite IH by lia. rewrite !Hex. simpl. destruct Hok as [-> _]. simpl. intuition.
  - apply parse_one_none in Hp. subst. simpl. destruct hf, hn; simpl; intuition congruence.
Qed.

Lemma parse_all_concat args ps : parse_all args = Ok ps -> concat (map args_of ps) = args.
Proof. intros H. apply loop_concat in H. exact H. Qed.

Lemma parse_all_total args : parse_all args <> OutOfFuel.
Proof. apply loop_total. lia. Qed.

Lemma parse_all_runs args ps : parse_all args = Ok ps -> runs_ok ps.
Proof. apply loop_runs. split; simpl; auto. Qed.

Lemma parse_all_mixed args :
  parse_all args = ErrMixed <->
  existsb is_file args = true /\ existsb (fun a => negb (is_file a)) args = true.
Proof. unfold parse_all. rewrite loop_mixed by lia. intuition congruence. Qed.

Lemma parse_all_ok_or_mixed args : parse_all args = ErrMixed \/ exists ps, parse_all args = Ok ps.
Proof. destruct (parse_all args) eqn:E; eauto. exfalso. eapply parse_all_total; eauto. Qed.
