(* C31: after an error-free parse the remaining input cannot continue the expression, hence
   re-parsing the minimal print of the result in the same context gives the same result:
   the parser normalises its input to [pr e]. *)
From Coq Require Import List NArith Lia Bool Arith.
Import ListNotations.
From V Require Import Base.Prelude Model.C31 Proofs.C31 Proofs.C31Sound.

Definition not_start (r : list tok) : Prop :=
  match r with (TIdent _ | TLit _ _ | TU _ | TLP) :: _ => False | _ => True end.

(* what is known about the rest when a state returns without error *)
Definition post (s : st) (r : list tok) : Prop :=
  match s with
  | SFactor => True
  | STerm2 | SIncLoop _ => no_inc r
  | STerm | SRemLoop _ => no_bin r
  | STermList _ => stop1 r
  | SExpr | SOrLoop _ => stop0 r
  end.
(* what must be known about the input of a loop state *)
Definition pre (s : st) (ts : list tok) : Prop :=
  match s with
  | SRemLoop _ => no_inc ts
  | SOrLoop _ => stop1 ts
  | STermList (_ :: _) => no_bin ts
  | _ => True
  end.

Lemma stop1_iff r : stop1 r <-> no_bin r /\ not_start r.
Proof. dtok r; simpl; tauto. Qed.
Lemma stop0_iff r : stop0 r <-> stop1 r /\ match r with TOr :: _ => False | _ => True end.
Proof. dtok r; simpl; tauto. Qed.

Lemma factor_none_not_start f ts r n : P f SFactor ts = Some (None, r, n) -> not_start ts.
Proof.
  destruct f; [discriminate|]. cbn [P]. destruct ts as [|t0 r0]; [intros _; exact I|].
  destruct t0; try (intros _; exact I); try discriminate.
  - destruct (P f SFactor r0) as [[[[y|] r4] n4]|]; discriminate.
  - destruct (P f SExpr r0) as [[[[y|] r4] n4]|] eqn:E4; try discriminate.
    + destruct r4 as [|t1 r4]; [discriminate|]. destruct t1; discriminate.
    + intros _. exfalso. eapply expr_some; eauto.
Qed.
Lemma term2_none_not_start f ts r : P f STerm2 ts = Some (None, r, 0) -> not_start ts.
Proof.
  destruct f; [discriminate|]. cbn [P]. destruct (P f SFactor ts) as [[[[x|] r3] n3]|] eqn:E3; try discriminate.
  - destruct (P f (SIncLoop x) r3) as [[[y r4] m4]|] eqn:E4; try discriminate.
    intros H. injection H as -> -> Hn. apply incloop_none in E4. lia.
  - intros _. eapply factor_none_not_start; eauto.
Qed.
Lemma term_none_not_start f ts r : P f STerm ts = Some (None, r, 0) -> not_start ts.
Proof.
  destruct f; [discriminate|]. cbn [P]. destruct (P f STerm2 ts) as [[[[x|] r3] n3]|] eqn:E3; try discriminate.
  - destruct (P f (SRemLoop x) r3) as [[[y r4] m4]|] eqn:E4; try discriminate.
    intros H. injection H as -> -> Hn. apply remloop_none in E4. lia.
  - intros H. injection H as -> ->. eapply term2_none_not_start; eauto.
Qed.

Lemma P_post : forall f s ts e r, P f s ts = Some (Some e, r, 0) -> pre s ts -> post s r.
Proof.
  induction f as [|f IH]; intros s ts e r H Hpre; [discriminate|].
  destruct s; cbn [P] in H; cbn [post pre] in *.
  - (* SExpr *)
    destruct (P f (STermList []) ts) as [[[[t|] r1] n]|] eqn:E; try discriminate.
    destruct r1 as [|t0 r0].
    { injection H as <- <- ->. exact I. }
    destruct t0; try (injection H as <- <- ->; apply (IH _ _ _ _ E) in Hpre; revert Hpre; simpl; tauto).
    destruct (P f (SOrLoop [t]) (TOr :: r0)) as [[[x' r'] m]|] eqn:E'; try discriminate.
    injection H as -> -> Hn. assert (n = 0 /\ m = 0) as [-> ->] by lia.
    apply (IH _ _ _ _ E'). exact I.
  - (* SOrLoop *)
    destruct ts as [|t0 r0]; [injection H as <- <-; exact I|].
    destruct t0; try (injection H as <- <-; revert Hpre; simpl; tauto).
    destruct (P f (STermList []) r0) as [[[[t|] r1] n]|] eqn:E; try discriminate.
    destruct (P f (SOrLoop (acc ++ [t])) r1) as [[[x' r'] m]|] eqn:E'; try discriminate.
    injection H as -> -> Hn. assert (n = 0 /\ m = 0) as [-> ->] by lia.
    apply (IH _ _ _ _ E'). apply (IH _ _ _ _ E). exact I.
  - (* STermList *)
    destruct (P f STerm ts) as [[[[t|] r1] n]|] eqn:E; try discriminate.
    + destruct (P f (STermList (acc ++ [t])) r1) as [[[x' r'] m]|] eqn:E'; try discriminate.
      injection H as -> -> Hn. assert (n = 0 /\ m = 0) as [-> ->] by lia.
      apply (IH _ _ _ _ E'). cbn [pre]. destruct (acc ++ [t]) eqn:Ea; [destruct acc; discriminate|].
      apply (IH _ _ _ _ E). exact I.
    + destruct (mkseq acc) as [e0 m] eqn:Em. injection H as <- <- Hn. assert (n = 0 /\ m = 0) as [-> ->] by lia.
      pose proof (term_none _ _ _ E) as ->. apply term_none_not_start in E.
      destruct acc as [|a acc']; [simpl in Em; injection Em as _ Hm; discriminate|].
      apply stop1_iff. split; auto.
  - (* STerm *)
    destruct (P f STerm2 ts) as [[[[t|] r1] n]|] eqn:E; try discriminate.
    destruct (P f (SRemLoop t) r1) as [[[x' r'] m]|] eqn:E'; try discriminate.
    injection H as -> -> Hn. assert (n = 0 /\ m = 0) as [-> ->] by lia.
    apply (IH _ _ _ _ E'). cbn [pre]. apply (IH _ _ _ _ E). exact I.
  - (* SRemLoop *)
    destruct ts as [|t0 r0]; [injection H as <- <-; exact I|].
    destruct t0; try (injection H as <- <-; exact I).
    destruct o; [|injection H as <- <-; exact Hpre].
    destruct (P f STerm2 r0) as [[[[y|] r1] n]|] eqn:E; try discriminate.
    destruct (P f (SRemLoop (EBin BRem x y)) r1) as [[[x' r'] m]|] eqn:E'; try discriminate.
    injection H as -> -> Hn. assert (n = 0 /\ m = 0) as [-> ->] by lia.
    apply (IH _ _ _ _ E'). cbn [pre]. apply (IH _ _ _ _ E). exact I.
  - (* STerm2 *)
    destruct (P f SFactor ts) as [[[[t|] r1] n]|] eqn:E; try discriminate.
    destruct (P f (SIncLoop t) r1) as [[[x' r'] m]|] eqn:E'; try discriminate.
    injection H as -> -> Hn. assert (n = 0 /\ m = 0) as [-> ->] by lia.
    apply (IH _ _ _ _ E'). exact I.
  - (* SIncLoop *)
    destruct ts as [|t0 r0]; [injection H as <- <-; exact I|].
    destruct t0; try (injection H as <- <-; exact I).
    destruct o; [injection H as <- <-; exact I|].
    destruct (P f SFactor r0) as [[[[y|] r1] n]|] eqn:E; try discriminate.
    destruct (P f (SIncLoop (EBin BInc x y)) r1) as [[[x' r'] m]|] eqn:E'; try discriminate.
    injection H as -> -> Hn. assert (n = 0 /\ m = 0) as [-> ->] by lia.
    apply (IH _ _ _ _ E'). exact I.
  - exact I.
Qed.

(* the parser is idempotent through the printer: an error-free parse of ANY input equals the
   parse of the minimal print of its result in the same right context *)
Theorem parse_normalises f ts e r : P f SExpr ts = Some (Some e, r, 0) ->
  P (fuel_of (pr e ++ r)) SExpr (pr e ++ r) = Some (Some e, r, 0).
Proof.
  intros H. apply parse_print_expr.
  - eapply parse_expr_noerr_wf; eauto.
  - exact (P_post _ _ _ _ _ H I).
Qed.
