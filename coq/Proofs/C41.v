(* C41 — invariants of the fakeConn transition system over ALL reachable states. *)
From Coq Require Import List NArith Bool Arith Lia.
Import ListNotations.
From V Require Import Base.LtsLists Base.C41Ops Gen.FeederSelects Model.C41.

Definition mstep := step model_conn_close model_feeder_close.

(* which feeder statement ip of fakeConn.Close closes *)
Definition kf (ip : nat) : option fid := match ip with 0 => Some FR | 1 => Some FW | _ => None end.
Definition ks (ip : nat) : option fid := match ip with 2 => Some FR | 3 => Some FW | _ => None end.

Definition not_W0W (w : wpc) : Prop := w <> W0W.
Definition not_W1W (w : wpc) : Prop := forall o r, w <> W1W o r.

(* one constructor per transition of the modelled programs *)
Inductive Step : st -> label -> st -> Prop :=
| SCall s i f b : nth_error (thr s) i = Some Idle ->
    Step s (LCall i f b) (mkS (upd i (D1 f b) (thr s)) (fr s) (fw s))
| SPollDone1 s i f b : nth_error (thr s) i = Some (D1 f b) -> done (getf s f) = true ->
    Step s (LPollDone i) (mkS (upd i (DRet f REof) (thr s)) (fr s) (fw s))
| SPollDone2 s i f : nth_error (thr s) i = Some (D2 f) -> done (getf s f) = true ->
    Step s (LPollDone i) (mkS (upd i (DRet f REof) (thr s)) (fr s) (fw s))
| SPollChan1 s i f b : nth_error (thr s) i = Some (D1 f b) -> wk (getf s f) = W0W ->
    Step s (LPollChan i) (setf s f (w_accept (getf s f) i b) (upd i (D2 f) (thr s)))
| SPollChan2 s i f o r : nth_error (thr s) i = Some (D2 f) -> wk (getf s f) = W1W o r ->
    Step s (LPollChan i) (setf s f (w_deliver (getf s f) i r) (upd i (DRet f r) (thr s)))
| SPark1 s i f b : nth_error (thr s) i = Some (D1 f b) -> done (getf s f) = false -> not_W0W (wk (getf s f)) ->
    Step s (LPark i) (mkS (upd i (D1W f b) (thr s)) (fr s) (fw s))
| SPark2 s i f : nth_error (thr s) i = Some (D2 f) -> done (getf s f) = false -> not_W1W (wk (getf s f)) ->
    Step s (LPark i) (mkS (upd i (D2W f) (thr s)) (fr s) (fw s))
| SRetD s i f r : nth_error (thr s) i = Some (DRet f r) ->
    Step s (LRet i) (mkS (upd i Idle (thr s)) (fr s) (fw s))
| SRetK s i : nth_error (thr s) i = Some (K 4 0) ->
    Step s (LRet i) (mkS (upd i Idle (thr s)) (fr s) (fw s))
| SCallClose s i : nth_error (thr s) i = Some Idle ->
    Step s (LCallClose i) (mkS (upd i (K 0 0) (thr s)) (fr s) (fw s))
| SKlock s i ip f : nth_error (thr s) i = Some (K ip 0) -> kf ip = Some f -> mu (getf s f) = false ->
    Step s (LK i) (setf s f (w_mu (getf s f) true) (upd i (K ip 1) (thr s)))
| SKnoop s i ip f : nth_error (thr s) i = Some (K ip 1) -> kf ip = Some f -> fclosed (getf s f) = true ->
    Step s (LK i) (setf s f (getf s f) (upd i (K ip 2) (thr s)))
| SKmark s i ip f : nth_error (thr s) i = Some (K ip 1) -> kf ip = Some f ->
    fclosed (getf s f) = false -> done (getf s f) = false ->
    Step s (LK i) (setf s f (w_closedone (getf s f) true) (upd i (K ip 2) (map (wake_done f) (thr s))))
| SKunlock s i ip f : nth_error (thr s) i = Some (K ip 2) -> kf ip = Some f -> mu (getf s f) = true ->
    Step s (LK i) (setf s f (w_mu (getf s f) false) (upd i (K ip 3) (thr s)))
| SKret s i ip sub f : nth_error (thr s) i = Some (K ip sub) -> kf ip = Some f -> 3 <= sub ->
    Step s (LK i) (mkS (upd i (K (S ip) 0) (thr s)) (fr s) (fw s))
| SKstream s i ip sub f : nth_error (thr s) i = Some (K ip sub) -> ks ip = Some f ->
    Step s (LK i) (setf s f (w_sclosed (getf s f)) (upd i (K (S ip) 0) (thr s)))
| SWPollDone0 s f : done (getf s f) = true -> wk (getf s f) = W0 ->
    Step s (LWPollDone f) (setf s f (w_wk (getf s f) WX) (thr s))
| SWPollDone1 s f o r : done (getf s f) = true -> wk (getf s f) = W1 o r ->
    Step s (LWPollDone f) (setf s f (w_wk (getf s f) WX) (thr s))
| SWPollChan0 s f j b : wk (getf s f) = W0 -> nth_error (thr s) j = Some (D1W f b) ->
    Step s (LWPollChan f j) (setf s f (w_accept (getf s f) j b) (upd j (D2 f) (thr s)))
| SWPollChan1 s f j o r : wk (getf s f) = W1 o r -> nth_error (thr s) j = Some (D2W f) ->
    Step s (LWPollChan f j) (setf s f (w_deliver (getf s f) j r) (upd j (DRet f r) (thr s)))
| SWPark0 s f : done (getf s f) = false -> wk (getf s f) = W0 -> existsb (parked1 f) (thr s) = false ->
    Step s (LWPark f) (setf s f (w_wk (getf s f) W0W) (thr s))
| SWPark1 s f o r : done (getf s f) = false -> wk (getf s f) = W1 o r -> existsb (parked2 f) (thr s) = false ->
    Step s (LWPark f) (setf s f (w_wk (getf s f) (W1W o r)) (thr s))
| SWCall s f o b : wk (getf s f) = WC o b ->
    Step s (LWCall f) (setf s f (w_call (getf s f) o b) (thr s))
| SSrc s f o b r : wk (getf s f) = WS o b -> r <> REof -> (r = RClosed -> sclosed (getf s f) = true) ->
    Step s (LSrc f r) (setf s f (w_srcret (getf s f) o b r) (thr s)).

Lemma fid_eqb_eq a b : fid_eqb a b = true <-> a = b.
Proof. destruct a, b; simpl; split; congruence. Qed.

Lemma step_Step s l s' : mstep s l = Some s' -> Step s l s'.
Proof.
  unfold mstep, step. destruct l as [i f b|i|i|i|i|i|i|f|f j|f|f|f r].
  - destruct (nth_error (thr s) i) as [[]|] eqn:E; try discriminate. intros H; injection H as <-. now constructor.
  - destruct (nth_error (thr s) i) as [[]|] eqn:E; try discriminate;
      (destruct (done (getf s f)) eqn:D; [|discriminate]); intros H; injection H as <-.
    + eapply SPollDone1; eauto.
    + eapply SPollDone2; eauto.
  - destruct (nth_error (thr s) i) as [[]|] eqn:E; try discriminate.
    + destruct (wk (getf s f)) eqn:W; try discriminate. intros H; injection H as <-. eapply SPollChan1; eauto.
    + destruct (wk (getf s f)) eqn:W; try discriminate. intros H; injection H as <-. eapply SPollChan2; eauto.
  - destruct (nth_error (thr s) i) as [[]|] eqn:E; try discriminate.
    + destruct (done (getf s f)) eqn:D; [discriminate|].
      destruct (wk (getf s f)) eqn:W; try discriminate; intros H; injection H as <-;
        eapply SPark1; eauto; unfold not_W0W; congruence.
    + destruct (done (getf s f)) eqn:D; [discriminate|].
      destruct (wk (getf s f)) eqn:W; try discriminate; intros H; injection H as <-;
        eapply SPark2; eauto; unfold not_W1W; congruence.
  - destruct (nth_error (thr s) i) as [[]|] eqn:E; try discriminate.
    + intros H; injection H as <-. eapply SRetD; eauto.
    + destruct (Nat.eqb_spec ip (length model_conn_close)); [|discriminate].
      destruct (Nat.eqb_spec sub 0); [|discriminate]. subst. intros H; injection H as <-. eapply SRetK; eauto.
  - destruct (nth_error (thr s) i) as [[]|] eqn:E; try discriminate. intros H; injection H as <-. now constructor.
  - destruct (nth_error (thr s) i) as [[]|] eqn:E; try discriminate.
    unfold step_k, model_conn_close, model_feeder_close.
    destruct ip as [|[|[|[|ip]]]]; cbn [nth_error].
    + destruct sub as [|[|[|[|sub]]]]; cbn [nth_error].
      * destruct (mu (getf s FR)) eqn:M; [discriminate|]. intros H; injection H as <-. eapply (SKlock _ _ 0 FR); eauto.
      * destruct (fclosed (getf s FR)) eqn:C.
        -- intros H; injection H as <-. eapply (SKnoop _ _ 0 FR); eauto.
        -- destruct (done (getf s FR)) eqn:D; [discriminate|]. intros H; injection H as <-. eapply (SKmark _ _ 0 FR); eauto.
      * destruct (mu (getf s FR)) eqn:M; [|discriminate]. intros H; injection H as <-. eapply (SKunlock _ _ 0 FR); eauto.
      * intros H; injection H as <-. eapply (SKret _ _ 0 _ FR); eauto.
      * destruct sub; intros H; injection H as <-; eapply (SKret _ _ 0 _ FR); eauto; lia.
    + destruct sub as [|[|[|[|sub]]]]; cbn [nth_error].
      * destruct (mu (getf s FW)) eqn:M; [discriminate|]. intros H; injection H as <-. eapply (SKlock _ _ 1 FW); eauto.
      * destruct (fclosed (getf s FW)) eqn:C.
        -- intros H; injection H as <-. eapply (SKnoop _ _ 1 FW); eauto.
        -- destruct (done (getf s FW)) eqn:D; [discriminate|]. intros H; injection H as <-. eapply (SKmark _ _ 1 FW); eauto.
      * destruct (mu (getf s FW)) eqn:M; [|discriminate]. intros H; injection H as <-. eapply (SKunlock _ _ 1 FW); eauto.
      * intros H; injection H as <-. eapply (SKret _ _ 1 _ FW); eauto.
      * destruct sub; intros H; injection H as <-; eapply (SKret _ _ 1 _ FW); eauto; lia.
    + intros H; injection H as <-. eapply (SKstream _ _ 2 _ FR); eauto.
    + intros H; injection H as <-. eapply (SKstream _ _ 3 _ FW); eauto.
    + destruct ip; discriminate.
  - destruct (done (getf s f)) eqn:D; [|discriminate].
    destruct (wk (getf s f)) eqn:W; try discriminate; intros H; injection H as <-.
    + eapply SWPollDone0; eauto.
    + eapply SWPollDone1; eauto.
  - destruct (wk (getf s f)) eqn:W; try discriminate.
    + destruct (nth_error (thr s) j) as [[]|] eqn:E; try discriminate.
      destruct (fid_eqb f f0) eqn:Q; [|discriminate]. apply fid_eqb_eq in Q. subst f0.
      intros H; injection H as <-. eapply SWPollChan0; eauto.
    + destruct (nth_error (thr s) j) as [[]|] eqn:E; try discriminate.
      destruct (fid_eqb f f0) eqn:Q; [|discriminate]. apply fid_eqb_eq in Q. subst f0.
      intros H; injection H as <-. eapply SWPollChan1; eauto.
  - destruct (done (getf s f)) eqn:D; [discriminate|].
    destruct (wk (getf s f)) eqn:W; try discriminate.
    + destruct (existsb (parked1 f) (thr s)) eqn:P; [discriminate|]. intros H; injection H as <-. eapply SWPark0; eauto.
    + destruct (existsb (parked2 f) (thr s)) eqn:P; [discriminate|]. intros H; injection H as <-. eapply SWPark1; eauto.
  - destruct (wk (getf s f)) eqn:W; try discriminate. intros H; injection H as <-. eapply SWCall; eauto.
  - destruct (wk (getf s f)) eqn:W; try discriminate.
    destruct r; simpl; try discriminate.
    + intros H; injection H as <-. eapply SSrc; eauto; congruence.
    + destruct (sclosed (getf s f)) eqn:C; simpl; [|discriminate]. intros H; injection H as <-. eapply SSrc; eauto; congruence.
Qed.

Inductive reach (n : nat) : st -> Prop :=
| reach0 : reach n (init n)
| reachS s l s' : reach n s -> mstep s l = Some s' -> reach n s'.

(* ------------------------------------------------------------------ invariants *)
(* a closer at K ip sub has executed close(f.done) *)
Definition past (f : fid) (ip sub : nat) : bool :=
  match f with
  | FR => (Nat.eqb ip 0 && Nat.leb 2 sub) || Nat.leb 1 ip
  | FW => (Nat.eqb ip 1 && Nat.leb 2 sub) || Nat.leb 2 ip
  end.
Definition holds_mu (f : fid) (p : tpc) : bool :=
  match p with
  | K ip sub => (match f with FR => Nat.eqb ip 0 | FW => Nat.eqb ip 1 end) && (Nat.eqb sub 1 || Nat.eqb sub 2)
  | _ => false end.
Definition wfK (p : tpc) : Prop :=
  match p with K ip sub => ip <= 4 /\ sub <= 3 /\ (2 <= ip -> sub = 0) | _ => True end.
Definition owner (w : wpc) : option nat :=
  match w with WC o _ | WS o _ | W1 o _ | W1W o _ => Some o | _ => None end.

Definition prov (F : fstate) : Prop :=
  (forall j r, In (j, r) (delivered F) -> exists b, In (j, b, r) (produced F)) /\
  (forall o b r, In (o, b, r) (produced F) -> In (o, b) (sent F) /\ In b (sourced F)) /\
  match wk F with
  | WC o b => In (o, b) (sent F)
  | WS o b => In (o, b) (sent F) /\ In b (sourced F)
  | W1 o r | W1W o r => exists b, In (o, b, r) (produced F)
  | _ => True end.

Record Inv (s : st) : Prop := {
  i_wf : forall p, In p (thr s) -> wfK p;
  i_flag : forall f, done (getf s f) = fclosed (getf s f);
  i_nopark : forall f, done (getf s f) = true ->
       (forall p, In p (thr s) -> parked1 f p = false /\ parked2 f p = false) /\ is_parked_w (wk (getf s f)) = false;
  i_sclosed : forall f, sclosed (getf s f) = true -> done (getf s f) = true;
  i_past : forall f ip sub, In (K ip sub) (thr s) -> past f ip sub = true -> done (getf s f) = true;
  i_mut : forall f, count (holds_mu f) (thr s) = b2n (mu (getf s f));
  i_w1 : forall f o r, wk (getf s f) = W1 o r -> r <> REof /\ (r = RClosed -> done (getf s f) = true);
  i_w1w : forall f o r, wk (getf s f) = W1W o r -> r <> RClosed /\ r <> REof;
  i_retc : forall f r, In (DRet f r) (thr s) -> r <> RClosed;
  i_deliv : forall f j r, In (j, r) (delivered (getf s f)) -> r <> RClosed /\ r <> REof;
  i_flight : forall f j, (nth_error (thr s) j = Some (D2 f) \/ nth_error (thr s) j = Some (D2W f)) ->
             done (getf s f) = true \/ owner (wk (getf s f)) = Some j;
  i_order : forall f, map snd (sent (getf s f)) = pending_buf (wk (getf s f)) ++ sourced (getf s f);
  i_prov : forall f, prov (getf s f) }.

Lemma init_inv n : Inv (init n).
Proof.
  constructor; simpl.
  - intros p H. apply repeat_spec in H. now subst.
  - intros []; reflexivity.
  - intros []; discriminate.
  - intros []; discriminate.
  - intros f ip sub H. apply repeat_spec in H. discriminate.
  - intros f. assert (E : forall m, count (holds_mu f) (repeat Idle m) = 0) by (induction m; simpl; auto).
    rewrite E. destruct f; reflexivity.
  - intros []; discriminate.
  - intros []; discriminate.
  - intros f r H. apply repeat_spec in H. discriminate.
  - intros [] j r [].
  - intros f j [H|H]; apply nth_In, repeat_spec in H; discriminate.
  - intros []; reflexivity.
  - intros []; repeat split; simpl; try tauto; intros; contradiction.
Qed.

Lemma wake_done_K f p ip sub : wake_done f p = K ip sub -> p = K ip sub.
Proof. destruct p; simpl; try congruence; destruct (fid_eqb f f0); congruence. Qed.

Lemma In_map_wake f y l : In y (map (wake_done f) l) -> exists p, In p l /\ y = wake_done f p.
Proof. intros H. apply in_map_iff in H as (p & E & Hp). eauto. Qed.

Lemma nth_map_wake f l i a : nth_error l i = Some a -> nth_error (map (wake_done f) l) i = Some (wake_done f a).
Proof. apply map_nth_error. Qed.

Ltac inv_in Hp :=
  match type of Hp with
  | In _ (upd ?j _ (map (wake_done _) (thr ?s))) =>
      match goal with H : nth_error (thr s) j = Some _ |- _ =>
      let E := fresh "E" in let k := fresh "k" in let Hn := fresh "Hn" in
      destruct (In_upd_nth _ _ _ _ _ (nth_map_wake _ _ _ _ H) Hp) as [E|(k & _ & Hn)];
      [|apply nth_In in Hn; apply In_map_wake in Hn as (?p & Hn & ?E)] end
  | In _ (upd ?j _ (thr ?s)) =>
      match goal with H : nth_error (thr s) j = Some _ |- _ =>
      let E := fresh "E" in let k := fresh "k" in let Hn := fresh "Hn" in
      destruct (In_upd_nth _ _ _ _ _ H Hp) as [E|(k & _ & Hn)]; [|apply nth_In in Hn] end
  end.

Lemma kf_inv ip f : kf ip = Some f -> (ip = 0 /\ f = FR) \/ (ip = 1 /\ f = FW).
Proof. destruct ip as [|[|ip]]; simpl; intros H; inversion H; auto. Qed.
Lemma ks_inv ip f : ks ip = Some f -> (ip = 2 /\ f = FR) \/ (ip = 3 /\ f = FW).
Proof. destruct ip as [|[|[|[|ip]]]]; simpl; intros H; inversion H; auto. Qed.

Ltac kinv := repeat match goal with
  | H : kf _ = Some _ |- _ => apply kf_inv in H as [[-> ->]|[-> ->]]
  | H : ks _ = Some _ |- _ => apply ks_inv in H as [[-> ->]|[-> ->]] end.

Lemma wfK_wake f p : wfK p -> wfK (wake_done f p).
Proof. destruct p; simpl; auto; destruct (fid_eqb f f0); simpl; auto. Qed.

Lemma wf_pres s l s' : Inv s -> Step s l s' -> forall p, In p (thr s') -> wfK p.
Proof.
  intros I H; destruct H; kinv; try (destruct f); simpl; intros p Hp;
    try match goal with H : nth_error (thr s) _ = Some _ |- _ =>
          pose proof (i_wf _ I _ (nth_In _ _ _ H)) as Hold; simpl in Hold end.
  all: try (inv_in Hp; [subst; simpl; auto; try lia | try (apply (i_wf _ I _ Hn))]).
  all: try (apply (i_wf _ I _ Hp)).
  all: try (subst p; apply wfK_wake, (i_wf _ I _ Hn)).
Qed.

Lemma flag_pres s l s' : Inv s -> Step s l s' -> forall f, done (getf s' f) = fclosed (getf s' f).
Proof.
  intros I H f'. pose proof (i_flag _ I FR) as FlR. pose proof (i_flag _ I FW) as FlW.
  destruct H; kinv; try (destruct f); destruct f'; simpl in *; auto; congruence.
Qed.

Lemma sclosed_pres s l s' : Inv s -> Step s l s' -> forall f, sclosed (getf s' f) = true -> done (getf s' f) = true.
Proof.
  intros I H f'. pose proof (i_sclosed _ I FR) as ScR. pose proof (i_sclosed _ I FW) as ScW.
  destruct H; kinv; try (destruct f); destruct f'; simpl in *; auto.
  - intros _. apply (i_past _ I FR 2 sub (nth_In _ _ _ H)). reflexivity.
  - intros _. apply (i_past _ I FW 3 sub (nth_In _ _ _ H)). reflexivity.
Qed.

Lemma done_mono s l s' f : Step s l s' -> done (getf s f) = true -> done (getf s' f) = true.
Proof. intros H; destruct H; kinv; try (destruct f0); destruct f; simpl; auto. Qed.

Lemma past_pres s l s' : Inv s -> Step s l s' ->
  forall f ip sub, In (K ip sub) (thr s') -> past f ip sub = true -> done (getf s' f) = true.
Proof.
  intros I H f' ip' sub' Hp Hpast. pose proof (i_past _ I f') as P. pose proof (done_mono _ _ _ f' H) as M.
  pose proof (i_flag _ I f') as Fl.
  destruct H; kinv; try (destruct f); simpl in Hp.
  all: try (inv_in Hp; [try discriminate; try (injection E as -> ->) | ]).
  all: try (subst; match goal with E : K _ _ = wake_done _ _ |- _ => symmetry in E; apply wake_done_K in E; subst end).
  all: try (apply M; eapply P; eauto; fail).
  all: try match goal with H : nth_error (thr _) _ = Some (K _ _) |- _ => apply nth_In in H end.
  all: try (apply M; eapply P; [eassumption|]; destruct f'; simpl in *; auto; fail).
  - destruct f'; discriminate.
  - destruct f'; simpl in *; [congruence|]. discriminate.
  - destruct f'; simpl in *; [|congruence]. eapply P; eauto.
  - destruct f'; simpl in *; [reflexivity|discriminate].
  - destruct f'; simpl in *; [|reflexivity]. eapply P; eauto.
  - destruct f'; simpl in *; [|discriminate]. eapply P; [eassumption|]. simpl.
    destruct sub as [|[|sub]]; try lia; reflexivity.
  - destruct f'; simpl in *; eapply P; try eassumption; simpl; auto.
    destruct sub as [|[|sub]]; try lia; reflexivity.
Qed.

Lemma b2n_le1 b : b2n b <= 1.
Proof. destruct b; simpl; lia. Qed.

Lemma holds_mu_wake f g p : holds_mu f (wake_done g p) = holds_mu f p.
Proof. destruct p; simpl; auto; destruct (fid_eqb g f0); reflexivity. Qed.

Lemma mut_pres s l s' : Inv s -> Step s l s' -> forall f, count (holds_mu f) (thr s') = b2n (mu (getf s' f)).
Proof.
  intros I H f'. pose proof (i_mut _ I f') as M. pose proof (b2n_le1 (mu (getf s f'))) as B.
  destruct H; kinv; try (destruct f); simpl.
  all: try match goal with
       | H : nth_error (thr ?s) ?i = Some _ |- context[count _ (upd ?i ?x (map (wake_done ?g) (thr ?s)))] =>
           pose proof (count_upd (holds_mu f') i x _ _ (nth_map_wake g _ _ _ H)) as C;
           rewrite (count_map_ext (holds_mu f') (wake_done g)) in C by (intros; apply holds_mu_wake); simpl in C
       | H : nth_error (thr ?s) ?i = Some _ |- context[count _ (upd ?i ?x (thr ?s))] =>
           pose proof (count_upd (holds_mu f') i x _ _ H) as C; simpl in C
       end.
  all: destruct f'; simpl in *; try lia.
  all: try (rewrite ?H1, ?H2 in *; simpl in *; lia).
  all: destruct sub as [|[|[|sub]]]; try lia; simpl in C; lia.
Qed.

(* nobody stays parked on a closed done *)
Lemma parked_wake_same f p : parked1 f (wake_done f p) = false /\ parked2 f (wake_done f p) = false.
Proof. destruct p; simpl; auto; destruct (fid_eqb f f0) eqn:E; simpl; auto; rewrite E; auto. Qed.
Lemma parked_wake_other f g p : parked1 f p = false /\ parked2 f p = false ->
  parked1 f (wake_done g p) = false /\ parked2 f (wake_done g p) = false.
Proof. destruct p; simpl; auto; destruct (fid_eqb g f0); simpl; auto. Qed.

Lemma nopark_pres s l s' : Inv s -> Step s l s' -> forall f, done (getf s' f) = true ->
  (forall p, In p (thr s') -> parked1 f p = false /\ parked2 f p = false) /\ is_parked_w (wk (getf s' f)) = false.
Proof.
  intros I H f' D. pose proof (i_nopark _ I f') as N.
  destruct H; kinv; try (destruct f); destruct f'; simpl in *.
  all: try congruence.
  all: try (destruct (N D) as [N1 N2]; split;
            [intros p Hp; try (inv_in Hp; [subst; simpl; auto|]); try (apply N1; assumption) | try assumption;
             try (rewrite ?H, ?H0, ?H1 in N2; simpl in N2; simpl; congruence)]; fail).
  - split; [|destruct (wk (fr s)); reflexivity].
    intros p Hp. inv_in Hp; [subst; simpl; auto|]. subst. apply parked_wake_same.
  - destruct (N D) as [N1 N2]. split; [|assumption].
    intros p Hp. inv_in Hp; [subst; simpl; auto|]. subst. apply parked_wake_other. auto.
  - destruct (N D) as [N1 N2]. split; [|assumption].
    intros p Hp. inv_in Hp; [subst; simpl; auto|]. subst. apply parked_wake_other. auto.
  - split; [|destruct (wk (fw s)); reflexivity].
    intros p Hp. inv_in Hp; [subst; simpl; auto|]. subst. apply parked_wake_same.
Qed.

Lemma w1_pres s l s' : Inv s -> Step s l s' ->
  forall f o r, wk (getf s' f) = W1 o r -> r <> REof /\ (r = RClosed -> done (getf s' f) = true).
Proof.
  intros I H f' o' r' W. pose proof (i_w1 _ I f' o' r') as P. pose proof (done_mono _ _ _ f' H) as M.
  pose proof (i_sclosed _ I f') as Sc.
  destruct H; kinv; try (destruct f); destruct f'; simpl in *; try discriminate.
  all: try (destruct (P W) as [P1 P2]; split; auto; fail).
  - destruct (wk (fr s)) eqn:E; simpl in W; try discriminate. destruct (P W). split; auto.
  - destruct (wk (fw s)) eqn:E; simpl in W; try discriminate. destruct (P W). split; auto.
  - injection W as <- <-. split; auto.
  - injection W as <- <-. split; auto.
Qed.

Lemma w1w_pres s l s' : Inv s -> Step s l s' ->
  forall f o r, wk (getf s' f) = W1W o r -> r <> RClosed /\ r <> REof.
Proof.
  intros I H f' o' r' W. pose proof (i_w1w _ I f' o' r') as P.
  destruct H; kinv; try (destruct f); destruct f'; simpl in *; try discriminate; auto.
  - destruct (wk (fr s)); simpl in W; discriminate.
  - destruct (wk (fw s)); simpl in W; discriminate.
  - injection W as <- <-. destruct (i_w1 _ I FR _ _ H0) as [A B]. split; auto.
    intros ->. specialize (B eq_refl). simpl in B. congruence.
  - injection W as <- <-. destruct (i_w1 _ I FW _ _ H0) as [A B]. split; auto.
    intros ->. specialize (B eq_refl). simpl in B. congruence.
Qed.

Lemma wake_done_DRet g p f r : wake_done g p = DRet f r -> p = DRet f r \/ r = REof.
Proof. destruct p; simpl; try congruence; try (left; congruence); destruct (fid_eqb g f0); intros H; inversion H; auto. Qed.

Lemma retc_pres s l s' : Inv s -> Step s l s' -> forall f r, In (DRet f r) (thr s') -> r <> RClosed.
Proof.
  intros I H f' r' Hp. pose proof (i_retc _ I f' r') as P.
  destruct H; kinv; try (destruct f); simpl in Hp.
  all: try (inv_in Hp; [try discriminate; try (injection E as E1 E2; subst; try discriminate) | try (apply P; assumption)]).
  all: try (apply P; assumption).
  - apply (i_w1w _ I FR _ _ H0).
  - apply (i_w1w _ I FW _ _ H0).
  - symmetry in E. apply wake_done_DRet in E as [->| ->]; [apply (i_retc _ I _ _ Hn)|discriminate].
  - symmetry in E. apply wake_done_DRet in E as [->| ->]; [apply (i_retc _ I _ _ Hn)|discriminate].
  - destruct (i_w1 _ I FR _ _ H) as [A B]. intros ->. specialize (B eq_refl).
    destruct (i_nopark _ I FR B) as [N1 _]. destruct (N1 _ (nth_In _ _ _ H0)) as [_ N2]. discriminate.
  - destruct (i_w1 _ I FW _ _ H) as [A B]. intros ->. specialize (B eq_refl).
    destruct (i_nopark _ I FW B) as [N1 _]. destruct (N1 _ (nth_In _ _ _ H0)) as [_ N2]. discriminate.
Qed.

Lemma deliv_pres s l s' : Inv s -> Step s l s' ->
  forall f j r, In (j, r) (delivered (getf s' f)) -> r <> RClosed /\ r <> REof.
Proof.
  intros I H f' j' r' Hd. pose proof (i_deliv _ I f' j' r') as P.
  destruct H; kinv; try (destruct f); destruct f'; simpl in *; auto.
  all: destruct Hd as [E|Hd]; auto; injection E as <- <-.
  - apply (i_w1w _ I FR _ _ H0).
  - apply (i_w1w _ I FW _ _ H0).
  - destruct (i_w1 _ I FR _ _ H) as [A B]. split; auto. intros ->. specialize (B eq_refl).
    destruct (i_nopark _ I FR B) as [N1 _]. destruct (N1 _ (nth_In _ _ _ H0)) as [_ N2]. discriminate.
  - destruct (i_w1 _ I FW _ _ H) as [A B]. split; auto. intros ->. specialize (B eq_refl).
    destruct (i_nopark _ I FW B) as [N1 _]. destruct (N1 _ (nth_In _ _ _ H0)) as [_ N2]. discriminate.
Qed.

Lemma order_pres s l s' : Inv s -> Step s l s' ->
  forall f, map snd (sent (getf s' f)) = pending_buf (wk (getf s' f)) ++ sourced (getf s' f).
Proof.
  intros I H f'. pose proof (i_order _ I f') as P.
  destruct H; kinv; try (destruct f); destruct f'; simpl in *; auto.
  all: try (rewrite ?H, ?H0, ?H1 in P; simpl in P; rewrite P; reflexivity).
  - rewrite P. destruct (wk (fr s)); reflexivity.
  - rewrite P. destruct (wk (fw s)); reflexivity.
Qed.

Lemma owner_wake w : owner (wake_w w) = owner w \/ owner (wake_w w) = None.
Proof. destruct w; simpl; auto. Qed.

Lemma nth_upd_cases {A} i j (x y a : A) l : nth_error l i = Some a -> nth_error (upd i x l) j = Some y ->
  (j = i /\ y = x) \/ (j <> i /\ nth_error l j = Some y).
Proof.
  intros Hi Hj. destruct (Nat.eq_dec i j) as [->|Hne].
  - rewrite (nth_upd_same _ _ _ _ Hi) in Hj. left; split; congruence.
  - rewrite nth_upd_other in Hj by auto. right; split; auto.
Qed.

Lemma wake_done_D2 g p f : (wake_done g p = D2 f -> p = D2 f) /\ (wake_done g p = D2W f -> p = D2W f).
Proof. destruct p; simpl; split; try congruence; destruct (fid_eqb g f0); congruence. Qed.

(* position j of the new thread list holds D2 f / D2W f: it is the moved thread, or it held it before *)
Ltac flight_split Hj :=
  match type of Hj with
  | nth_error (upd ?i ?x (map (wake_done ?g) (thr ?s))) ?j = Some ?y \/ nth_error (upd ?i ?x (map (wake_done ?g) (thr ?s))) ?j = Some ?z =>
      match goal with H : nth_error (thr s) i = Some _ |- _ =>
        destruct Hj as [Hj|Hj];
        destruct (nth_upd_cases _ _ _ _ _ _ (nth_map_wake g _ _ _ H) Hj) as [[-> Hj']|[Hne Hj']] end
  | nth_error (upd ?i ?x (thr ?s)) ?j = Some ?y \/ nth_error (upd ?i ?x (thr ?s)) ?j = Some ?z =>
      match goal with H : nth_error (thr s) i = Some _ |- _ =>
        destruct Hj as [Hj|Hj];
        destruct (nth_upd_cases _ _ _ _ _ _ H Hj) as [[-> Hj']|[Hne Hj']] end
  end.

Lemma nth_map_inv {A B} (w : A -> B) l j y : nth_error (map w l) j = Some y -> exists p, nth_error l j = Some p /\ w p = y.
Proof. revert j; induction l as [|a l IH]; intros [|j] H; simpl in *; try discriminate; eauto. injection H as <-. eauto. Qed.

Lemma flight_pres s l s' : Inv s -> Step s l s' ->
  forall f j, (nth_error (thr s') j = Some (D2 f) \/ nth_error (thr s') j = Some (D2W f)) ->
  done (getf s' f) = true \/ owner (wk (getf s' f)) = Some j.
Proof.
  intros I H f' j' Hj. pose proof (i_flight _ I f' j') as P. pose proof (done_mono _ _ _ f' H) as M.
  destruct H; kinv; try (destruct f); simpl in Hj.
  all: try (flight_split Hj; try discriminate).
  (* the moved thread itself *)
  all: try (injection Hj' as ->; simpl; right; reflexivity).
  all: try (injection Hj' as ->;
            match goal with H : nth_error (thr ?s) ?i = Some (D2 ?f) |- _ =>
              destruct (i_flight _ I f i (or_introl H)) as [D|O]; [left|right]; simpl in *; auto end; fail).
  (* another thread: it was in flight before *)
  all: try (apply wake_done_D2 in Hj').
  all: try (destruct (P ltac:(eauto)) as [D|O]; [left; apply M; exact D|]).
  all: destruct f'; simpl in *; try (rewrite ?H, ?H0, ?H1 in O; simpl in O); try discriminate; try (right; exact O).
  all: try (left; reflexivity).
  (* a result is handed over: the receiver is the only thread in flight *)
  all: try (exfalso; injection O as ->;
            match goal with
            | H : nth_error (thr ?s) ?i = Some (D2 ?f), W : wk _ = W1W _ _ |- _ =>
                destruct (i_flight _ I f i (or_introl H)) as [D|O'];
                [destruct (i_nopark _ I f D) as [_ N2]; simpl in N2; rewrite W in N2; discriminate
                |simpl in O'; rewrite W in O'; simpl in O'; congruence]
            | H : nth_error (thr ?s) ?j = Some (D2W ?f), W : wk _ = W1 _ _ |- _ =>
                destruct (i_flight _ I f j (or_intror H)) as [D|O'];
                [destruct (i_nopark _ I f D) as [N1 _]; destruct (N1 _ (nth_In _ _ _ H)) as [_ N2]; discriminate
                |simpl in O'; rewrite W in O'; simpl in O'; congruence]
            end).
  all: try (apply nth_map_inv in Hj' as (p0 & Hp0 & Ew); apply wake_done_D2 in Ew; subst p0; apply P; auto; fail).
  all: left; assumption.
Qed.

Lemma poll_recv_owner s f i o r : Inv s -> nth_error (thr s) i = Some (D2 f) -> wk (getf s f) = W1W o r -> o = i.
Proof.
  intros I H W. destruct (i_flight _ I f i (or_introl H)) as [D|O].
  - destruct (i_nopark _ I f D) as [_ N2]. rewrite W in N2. discriminate.
  - rewrite W in O. simpl in O. congruence.
Qed.
Lemma park_recv_owner s f j o r : Inv s -> nth_error (thr s) j = Some (D2W f) -> wk (getf s f) = W1 o r -> o = j.
Proof.
  intros I H W. destruct (i_flight _ I f j (or_intror H)) as [D|O].
  - destruct (i_nopark _ I f D) as [N1 _]. destruct (N1 _ (nth_In _ _ _ H)) as [_ N2].
    simpl in N2. destruct f; discriminate.
  - rewrite W in O. simpl in O. congruence.
Qed.

Lemma prov_pres s l s' : Inv s -> Step s l s' -> forall f, prov (getf s' f).
Proof.
  intros I H f'. pose proof (i_prov _ I f') as P. unfold prov in *.
  destruct H; kinv; try (destruct f); destruct f'; simpl in *; auto.
  all: destruct P as (P1 & P2 & P3).
  all: try (rewrite ?H, ?H0, ?H1 in P3; simpl in P3).
  all: try (repeat split; intros; try (destruct (P2 _ _ _ ltac:(eassumption))); simpl; eauto; fail).
  - pose proof (poll_recv_owner s FR _ _ _ I H H0). subst o.
    repeat split; auto; try (intros; apply (P2 _ _ _ ltac:(eassumption))). intros j0 r0 [E|Hd]; [injection E as <- <-; exact P3|eauto].
  - pose proof (poll_recv_owner s FW _ _ _ I H H0). subst o.
    repeat split; auto; try (intros; apply (P2 _ _ _ ltac:(eassumption))). intros j0 r0 [E|Hd]; [injection E as <- <-; exact P3|eauto].
  - split; [exact P1|split; [exact P2|]]. destruct (wk (fr s)); simpl in *; auto.
  - split; [exact P1|split; [exact P2|]]. destruct (wk (fw s)); simpl in *; auto.
  - pose proof (park_recv_owner s FR _ _ _ I H0 H). subst o.
    repeat split; auto; try (intros; apply (P2 _ _ _ ltac:(eassumption))). intros j0 r0 [E|Hd]; [injection E as <- <-; exact P3|eauto].
  - pose proof (park_recv_owner s FW _ _ _ I H0 H). subst o.
    repeat split; auto; try (intros; apply (P2 _ _ _ ltac:(eassumption))). intros j0 r0 [E|Hd]; [injection E as <- <-; exact P3|eauto].
  - destruct P3 as [S1 S2]. split; [|split].
    + intros j r0 Hd. destruct (P1 _ _ Hd) as [b0 Hb]. eauto.
    + intros o0 b0 r0 [E|Hp]; [injection E as <- <- <-; auto|apply (P2 _ _ _ Hp)].
    + eauto.
  - destruct P3 as [S1 S2]. split; [|split].
    + intros j r0 Hd. destruct (P1 _ _ Hd) as [b0 Hb]. eauto.
    + intros o0 b0 r0 [E|Hp]; [injection E as <- <- <-; auto|apply (P2 _ _ _ Hp)].
    + eauto.
Qed.

Lemma inv_step s l s' : Inv s -> mstep s l = Some s' -> Inv s'.
Proof.
  intros I H. apply step_Step in H. constructor.
  - eapply wf_pres; eauto.
  - eapply flag_pres; eauto.
  - eapply nopark_pres; eauto.
  - eapply sclosed_pres; eauto.
  - eapply past_pres; eauto.
  - eapply mut_pres; eauto.
  - eapply w1_pres; eauto.
  - eapply w1w_pres; eauto.
  - eapply retc_pres; eauto.
  - eapply deliv_pres; eauto.
  - eapply flight_pres; eauto.
  - eapply order_pres; eauto.
  - eapply prov_pres; eauto.
Qed.

Theorem reach_inv n s : reach n s -> Inv s.
Proof. induction 1; [apply init_inv|eapply inv_step; eauto]. Qed.

(* ------------------------------------------------------------------ consequences *)
Lemma Step_step s l s' : Step s l s' -> mstep s l = Some s'.
Proof.
  intros H; destruct H.
  24: { unfold mstep, step. rewrite H. destruct r; simpl; try congruence. rewrite (H1 eq_refl). reflexivity. }
  all: kinv; unfold mstep, step, step_k, model_conn_close, model_feeder_close.
  all: rewrite ?H; cbn [nth_error]; rewrite ?H0, ?H1, ?H2; try reflexivity.
  all: try (destruct (wk (getf s f)) eqn:W; try reflexivity; exfalso; first [apply H1; reflexivity | eapply H1; reflexivity]).
  all: try (destruct f; simpl; rewrite ?H, ?H0; simpl; try reflexivity).
  all: try (destruct sub as [|[|[|sub]]]; try lia; cbn [nth_error]; destruct sub; reflexivity).
Qed.

Lemma thr_setf s f x t : thr (setf s f x t) = t.
Proof. destruct f; reflexivity. Qed.

(* who acts in a transition *)
Definition actor (l : label) : option nat :=
  match l with
  | LCall i _ _ | LPollDone i | LPollChan i | LPark i | LRet i | LCallClose i | LK i => Some i
  | _ => None end.

(* done stays closed *)
Lemma done_stable s l s' f : mstep s l = Some s' -> done (getf s f) = true -> done (getf s' f) = true.
Proof. intros H. apply step_Step in H. eapply done_mono; eauto. Qed.

(* data: the source is called with exactly the accepted buffers, in order, each once
   (newest first; the buffer accepted last may not have been handed to the source yet) *)
Theorem data_in_order n s f : reach n s ->
  map snd (sent (getf s f)) = pending_buf (wk (getf s f)) ++ sourced (getf s f).
Proof. intros R. apply reach_inv in R. apply (i_order _ R). Qed.

(* every result handed to a caller was produced by the source for a buffer this same caller sent;
   it is neither the done-EOF nor an error caused by closing the stream *)
Theorem result_provenance n s f j r : reach n s -> In (j, r) (delivered (getf s f)) ->
  (exists b, In (j, b, r) (produced (getf s f)) /\ In (j, b) (sent (getf s f)) /\ In b (sourced (getf s f))) /\
  r <> RClosed /\ r <> REof.
Proof.
  intros R H. apply reach_inv in R. destruct (i_prov _ R f) as (P1 & P2 & _).
  destruct (P1 _ _ H) as [b Hb]. destruct (P2 _ _ _ Hb). split; [eauto|]. apply (i_deliv _ R _ _ _ H).
Qed.

(* no caller ever returns the error caused by closing the underlying stream *)
Theorem no_close_error_returned n s f r : reach n s -> In (DRet f r) (thr s) -> r <> RClosed.
Proof. intros R. apply reach_inv in R. apply (i_retc _ R). Qed.

(* closing a stream happens after its feeder has been closed *)
Theorem stream_closed_after_feeder n s f : reach n s -> sclosed (getf s f) = true -> done (getf s f) = true.
Proof. intros R. apply reach_inv in R. apply (i_sclosed _ R). Qed.

(* once done is closed nobody is parked on the feeder's channels *)
Theorem closed_nobody_parked n s f : reach n s -> done (getf s f) = true ->
  (forall p, In p (thr s) -> parked1 f p = false /\ parked2 f p = false) /\ is_parked_w (wk (getf s f)) = false.
Proof. intros R. apply reach_inv in R. apply (i_nopark _ R). Qed.

(* a closer that is past the two feeder closes (in particular one about to return) has closed both *)
Theorem close_returns_closed n s i ip sub : reach n s -> nth_error (thr s) i = Some (K ip sub) -> 2 <= ip ->
  done (getf s FR) = true /\ done (getf s FW) = true.
Proof.
  intros R H Hip. apply reach_inv in R. apply nth_In in H.
  split.
  - apply (i_past _ R FR _ _ H). destruct ip as [|ip]; [lia|]. reflexivity.
  - apply (i_past _ R FW _ _ H). destruct ip as [|[|ip]]; try lia. reflexivity.
Qed.

(* a do that starts (or is at its first select) when done is closed: whatever it does next, it is
   committed to EOF, and neither the worker nor the source see its buffer *)
Theorem after_close_eof n s f i b l s' : reach n s -> done (getf s f) = true ->
  nth_error (thr s) i = Some (D1 f b) -> actor l = Some i -> mstep s l = Some s' ->
  nth_error (thr s') i = Some (DRet f REof) /\ getf s' f = getf s f /\ getf s' (match f with FR => FW | FW => FR end) = getf s (match f with FR => FW | FW => FR end).
Proof.
  intros R D H A Hs. apply reach_inv in R. apply step_Step in Hs.
  destruct (i_nopark _ R f D) as [_ NW].
  destruct Hs; simpl in A; try discriminate; injection A as ->; rewrite H in *;
    match goal with E : Some _ = Some _ |- _ => inversion E; subst | _ => idtac end.
  - simpl. split; [eapply nth_upd_same; eauto|]. destruct f0; auto.
  - rewrite H1 in NW. discriminate.
  - congruence.
Qed.

Theorem after_close_eof2 n s f i l s' : reach n s -> done (getf s f) = true ->
  nth_error (thr s) i = Some (D2 f) -> actor l = Some i -> mstep s l = Some s' ->
  nth_error (thr s') i = Some (DRet f REof).
Proof.
  intros R D H A Hs. apply reach_inv in R. apply step_Step in Hs.
  destruct (i_nopark _ R f D) as [_ NW].
  destruct Hs; simpl in A; try discriminate; injection A as ->; rewrite H in *;
    match goal with E : Some _ = Some _ |- _ => inversion E; subst | _ => idtac end.
  - simpl. eapply nth_upd_same; eauto.
  - rewrite H1 in NW. discriminate.
  - congruence.
Qed.

(* pending calls: once done is closed every thread inside do can itself take a step towards returning,
   whatever the source does (it is never parked), in at most two own steps ... *)
Definition rank (p : tpc) : nat := match p with D1 _ _ | D2 _ => 2 | DRet _ _ => 1 | _ => 0 end.

Theorem pending_returns n s f i p : reach n s -> done (getf s f) = true ->
  nth_error (thr s) i = Some p -> in_do f p = true ->
  is_parked_t p = false /\
  exists l s', actor l = Some i /\ mstep s l = Some s' /\
               exists p', nth_error (thr s') i = Some p' /\ rank p' < rank p.
Proof.
  intros R D H Hin. apply reach_inv in R.
  destruct (i_nopark _ R f D) as [NP _]. destruct (NP _ (nth_In _ _ _ H)) as [N1 N2].
  destruct p; simpl in Hin; try discriminate; apply fid_eqb_eq in Hin; subst f0; simpl in N1, N2.
  - split; auto. exists (LPollDone i). eexists. split; [reflexivity|]. split.
    + apply Step_step. eapply SPollDone1; eauto.
    + simpl. eexists. split; [eapply nth_upd_same; eauto|]. simpl. lia.
  - destruct f; discriminate.
  - split; auto. exists (LPollDone i). eexists. split; [reflexivity|]. split.
    + apply Step_step. eapply SPollDone2; eauto.
    + simpl. eexists. split; [eapply nth_upd_same; eauto|]. simpl. lia.
  - destruct f; discriminate.
  - split; auto. exists (LRet i). eexists. split; [reflexivity|]. split.
    + apply Step_step. eapply SRetD; eauto.
    + simpl. eexists. split; [eapply nth_upd_same; eauto|]. simpl. lia.
Qed.

(* ... and nobody else can move it backwards: a thread that is not parked is only moved by itself *)
Theorem only_self_moves n s i p l s' : reach n s -> nth_error (thr s) i = Some p -> is_parked_t p = false ->
  actor l <> Some i -> mstep s l = Some s' -> nth_error (thr s') i = Some p.
Proof.
  intros R H NP A Hs. apply step_Step in Hs.
  assert (W : forall g, wake_done g p = p) by (intros g; destruct p; simpl in *; auto; discriminate).
  destruct Hs; kinv; simpl in A; simpl; rewrite ?thr_setf;
    try (rewrite nth_upd_other by congruence; auto; fail); auto.
  all: try (rewrite nth_upd_other by congruence; erewrite map_nth_error by eauto; rewrite W; reflexivity).
  all: try (destruct (Nat.eq_dec j i) as [->|Hne]; [rewrite H in *; match goal with E : Some _ = Some _ |- _ => inversion E; subst; discriminate end
                                                  | rewrite nth_upd_other by auto; auto]).
Qed.

(* the worker after close: never parked; at a select it can return; with a buffer in hand it can
   call the source; only inside the source does it wait for the environment *)
Theorem worker_after_close n s f : reach n s -> done (getf s f) = true ->
  match wk (getf s f) with
  | W0 | W1 _ _ => exists s', mstep s (LWPollDone f) = Some s' /\ wk (getf s' f) = WX
  | WC _ _ => exists s', mstep s (LWCall f) = Some s'
  | WS _ _ | WX => True
  | W0W | W1W _ _ => False
  end.
Proof.
  intros R D. apply reach_inv in R. destruct (i_nopark _ R f D) as [_ NW].
  destruct (wk (getf s f)) eqn:W; simpl in NW; try discriminate; auto.
  - eexists. split; [apply Step_step; eapply SWPollDone0; eauto|]. destruct f; reflexivity.
  - eexists. apply Step_step. eapply SWCall; eauto.
  - eexists. split; [apply Step_step; eapply SWPollDone1; eauto|]. destruct f; reflexivity.
Qed.

(* fakeConn.Close: the feeder mutexes exclude, close(done) is never executed on a closed channel,
   and a closer can always move unless it waits for a mutex that another closer holds *)
Theorem close_mutex n s f i j a b : reach n s -> nth_error (thr s) i = Some a -> nth_error (thr s) j = Some b ->
  holds_mu f a = true -> holds_mu f b = true -> i = j.
Proof.
  intros R Hi Hj Ha Hb. apply reach_inv in R. destruct (Nat.eq_dec i j); auto. exfalso.
  pose proof (count_two (holds_mu f) _ _ _ _ _ n0 Hi Hj Ha Hb) as C. rewrite (i_mut _ R f) in C.
  pose proof (b2n_le1 (mu (getf s f))). lia.
Qed.

Theorem closer_progress n s i ip sub : reach n s -> nth_error (thr s) i = Some (K ip sub) ->
  (exists l s', actor l = Some i /\ mstep s l = Some s') \/
  (sub = 0 /\ exists f, kf ip = Some f /\ mu (getf s f) = true).
Proof.
  intros R H. apply reach_inv in R. pose proof (i_wf _ R _ (nth_In _ _ _ H)) as (W1 & W2 & W3).
  destruct ip as [|[|[|[|[|ip]]]]]; try lia.
  - destruct sub as [|[|[|[|sub]]]]; try lia.
    + destruct (mu (getf s FR)) eqn:M; [right; split; auto; exists FR; auto|].
      left. exists (LK i). eexists. split; [reflexivity|]. apply Step_step. eapply (SKlock _ _ 0 FR); eauto.
    + left. exists (LK i). destruct (fclosed (getf s FR)) eqn:C.
      * eexists. split; [reflexivity|]. apply Step_step. eapply (SKnoop _ _ 0 FR); eauto.
      * eexists. split; [reflexivity|]. apply Step_step. eapply (SKmark _ _ 0 FR); eauto.
        rewrite (i_flag _ R FR). exact C.
    + left. exists (LK i). eexists. split; [reflexivity|]. apply Step_step. eapply (SKunlock _ _ 0 FR); eauto.
      pose proof (i_mut _ R FR) as M. destruct (mu (getf s FR)); auto. simpl in M.
      pose proof (count_zero_all _ _ _ M (nth_In _ _ _ H)). discriminate.
    + left. exists (LK i). eexists. split; [reflexivity|]. apply Step_step. eapply (SKret _ _ 0 3 FR); eauto.
  - destruct sub as [|[|[|[|sub]]]]; try lia.
    + destruct (mu (getf s FW)) eqn:M; [right; split; auto; exists FW; auto|].
      left. exists (LK i). eexists. split; [reflexivity|]. apply Step_step. eapply (SKlock _ _ 1 FW); eauto.
    + left. exists (LK i). destruct (fclosed (getf s FW)) eqn:C.
      * eexists. split; [reflexivity|]. apply Step_step. eapply (SKnoop _ _ 1 FW); eauto.
      * eexists. split; [reflexivity|]. apply Step_step. eapply (SKmark _ _ 1 FW); eauto.
        rewrite (i_flag _ R FW). exact C.
    + left. exists (LK i). eexists. split; [reflexivity|]. apply Step_step. eapply (SKunlock _ _ 1 FW); eauto.
      pose proof (i_mut _ R FW) as M. destruct (mu (getf s FW)); auto. simpl in M.
      pose proof (count_zero_all _ _ _ M (nth_In _ _ _ H)). discriminate.
    + left. exists (LK i). eexists. split; [reflexivity|]. apply Step_step. eapply (SKret _ _ 1 3 FW); eauto.
  - left. exists (LK i). eexists. split; [reflexivity|]. apply Step_step. eapply (SKstream _ _ 2 _ FR); eauto.
  - left. exists (LK i). eexists. split; [reflexivity|]. apply Step_step. eapply (SKstream _ _ 3 _ FW); eauto.
  - left. exists (LRet i). eexists. split; [reflexivity|]. apply Step_step.
    rewrite (W3 ltac:(lia)) in H. eapply SRetK; eauto.
Qed.

(* the mutex a waiting closer needs is held by a closer that can move *)
Theorem mutex_holder_moves n s f : reach n s -> mu (getf s f) = true ->
  exists j ip sub l s', nth_error (thr s) j = Some (K ip sub) /\ holds_mu f (K ip sub) = true /\
                        actor l = Some j /\ mstep s l = Some s'.
Proof.
  intros R M. pose proof R as R'. apply reach_inv in R. pose proof (i_mut _ R f) as C. rewrite M in C. simpl in C.
  destruct (count_pos_ex (holds_mu f) (thr s) ltac:(lia)) as (j & a & Hj & Ha).
  destruct a; simpl in Ha; try discriminate.
  destruct (closer_progress _ _ _ _ _ R' Hj) as [(l & s' & A & S)|(E & _)].
  - exists j, ip, sub, l, s'. repeat split; auto.
  - subst sub. rewrite andb_false_r in Ha. discriminate.
Qed.

(* ------------------------------------------------------------------ transport to the generated programs *)
Lemma gen_is_model : gen_conn_close = model_conn_close /\ gen_feeder_close = model_feeder_close.
Proof. vm_compute. split; reflexivity. Qed.

Lemma gen_tables : gen_do = model_do /\ gen_run = model_run /\ gen_chan_caps = model_chan_caps /\
  gen_read_feeder = FR /\ gen_write_feeder = FW /\ gen_sources_ok = true /\ gen_workers_started = true.
Proof. vm_compute. repeat split; reflexivity. Qed.

Lemma gstep_mstep : gstep = mstep.
Proof. unfold gstep, mstep. destruct gen_is_model as [-> ->]. reflexivity. Qed.

Lemma greach_reach n s : greach n s <-> reach n s.
Proof.
  split; induction 1; try (constructor; fail).
  - eapply reachS; [eassumption|]. rewrite <- gstep_mstep. eassumption.
  - eapply greachS; [eassumption|]. rewrite gstep_mstep. eassumption.
Qed.

Lemma grun_greach n ls : forall s s', greach n s -> grun s ls = Some s' -> greach n s'.
Proof.
  induction ls as [|l ls IH]; unfold grun; simpl; intros s s' R H.
  - injection H as <-. exact R.
  - destruct (step gen_conn_close gen_feeder_close s l) as [s1|] eqn:E; [|discriminate].
    eapply IH; [|exact H]. eapply greachS; eauto.
Qed.

Lemma g_data_in_order n s f : greach n s ->
  map snd (sent (getf s f)) = pending_buf (wk (getf s f)) ++ sourced (getf s f).
Proof. intros R. apply greach_reach in R. eapply data_in_order; eauto. Qed.

Lemma g_result_provenance n s f j r : greach n s -> In (j, r) (delivered (getf s f)) ->
  (exists b, In (j, b, r) (produced (getf s f)) /\ In (j, b) (sent (getf s f)) /\ In b (sourced (getf s f))) /\
  r <> RClosed /\ r <> REof.
Proof. intros R. apply greach_reach in R. eapply result_provenance; eauto. Qed.

Lemma g_no_close_error_returned n s f r : greach n s -> In (DRet f r) (thr s) -> r <> RClosed.
Proof. intros R. apply greach_reach in R. eapply no_close_error_returned; eauto. Qed.

Lemma g_stream_closed_after_feeder n s f : greach n s -> sclosed (getf s f) = true -> done (getf s f) = true.
Proof. intros R. apply greach_reach in R. eapply stream_closed_after_feeder; eauto. Qed.

Lemma g_closed_nobody_parked n s f : greach n s -> done (getf s f) = true ->
  (forall p, In p (thr s) -> parked1 f p = false /\ parked2 f p = false) /\ is_parked_w (wk (getf s f)) = false.
Proof. intros R. apply greach_reach in R. eapply closed_nobody_parked; eauto. Qed.

Lemma g_close_returns_closed n s i ip sub : greach n s -> nth_error (thr s) i = Some (K ip sub) -> 2 <= ip ->
  done (getf s FR) = true /\ done (getf s FW) = true.
Proof. intros R. apply greach_reach in R. eapply close_returns_closed; eauto. Qed.

Lemma g_done_stable s l s' f : gstep s l = Some s' -> done (getf s f) = true -> done (getf s' f) = true.
Proof. rewrite gstep_mstep. apply done_stable. Qed.

Lemma g_after_close_eof n s f i b l s' : greach n s -> done (getf s f) = true ->
  nth_error (thr s) i = Some (D1 f b) -> actor l = Some i -> gstep s l = Some s' ->
  nth_error (thr s') i = Some (DRet f REof) /\ getf s' f = getf s f /\
  getf s' (match f with FR => FW | FW => FR end) = getf s (match f with FR => FW | FW => FR end).
Proof. intros R. apply greach_reach in R. rewrite gstep_mstep. eapply after_close_eof; eauto. Qed.

Lemma g_after_close_eof2 n s f i l s' : greach n s -> done (getf s f) = true ->
  nth_error (thr s) i = Some (D2 f) -> actor l = Some i -> gstep s l = Some s' ->
  nth_error (thr s') i = Some (DRet f REof).
Proof. intros R. apply greach_reach in R. rewrite gstep_mstep. eapply after_close_eof2; eauto. Qed.

Lemma g_pending_returns n s f i p : greach n s -> done (getf s f) = true ->
  nth_error (thr s) i = Some p -> in_do f p = true ->
  is_parked_t p = false /\
  exists l s', actor l = Some i /\ gstep s l = Some s' /\
               exists p', nth_error (thr s') i = Some p' /\ rank p' < rank p.
Proof. intros R. apply greach_reach in R. rewrite gstep_mstep. eapply pending_returns; eauto. Qed.

Lemma g_only_self_moves n s i p l s' : greach n s -> nth_error (thr s) i = Some p -> is_parked_t p = false ->
  actor l <> Some i -> gstep s l = Some s' -> nth_error (thr s') i = Some p.
Proof. intros R. apply greach_reach in R. rewrite gstep_mstep. eapply only_self_moves; eauto. Qed.

Lemma g_worker_after_close n s f : greach n s -> done (getf s f) = true ->
  match wk (getf s f) with
  | W0 | W1 _ _ => exists s', gstep s (LWPollDone f) = Some s' /\ wk (getf s' f) = WX
  | WC _ _ => exists s', gstep s (LWCall f) = Some s'
  | WS _ _ | WX => True
  | W0W | W1W _ _ => False
  end.
Proof. intros R. apply greach_reach in R. rewrite gstep_mstep. eapply worker_after_close; eauto. Qed.

Lemma g_close_mutex n s f i j a b : greach n s -> nth_error (thr s) i = Some a -> nth_error (thr s) j = Some b ->
  holds_mu f a = true -> holds_mu f b = true -> i = j.
Proof. intros R. apply greach_reach in R. eapply close_mutex; eauto. Qed.

Lemma g_closer_progress n s i ip sub : greach n s -> nth_error (thr s) i = Some (K ip sub) ->
  (exists l s', actor l = Some i /\ gstep s l = Some s') \/
  (sub = 0 /\ exists f, kf ip = Some f /\ mu (getf s f) = true).
Proof. intros R. apply greach_reach in R. rewrite gstep_mstep. eapply closer_progress; eauto. Qed.

Lemma g_mutex_holder_moves n s f : greach n s -> mu (getf s f) = true ->
  exists j ip sub l s', nth_error (thr s) j = Some (K ip sub) /\ holds_mu f (K ip sub) = true /\
                        actor l = Some j /\ gstep s l = Some s'.
Proof. intros R. apply greach_reach in R. rewrite gstep_mstep. eapply mutex_holder_moves; eauto. Qed.
