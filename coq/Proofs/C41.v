(* C41 — invariants of the fakeConn transition system over ALL reachable states. *)
From Coq Require Import List NArith Bool Arith Lia.
Import ListNotations.
From V Require Import Base.LtsLists Base.C41Ops Gen.FeederSelects Model.C41.

Definition mstep := step model_conn_close model_feeder_close.

(* which feeder statement ip of fakeConn.Close closes *)
Definition kf (ip : nat) : option fid := match ip with 0 => Some FR | 1 => Some FW | _ => None end.
Definition ks (ip : nat) : option fid := match ip with 2 => Some FR | 3 => Some FW | _ => None end.

Definition not_W0W (w : wpc) : Prop := w <> W0W.
Definition not_W1W (w : wpc) : Prop := forall o r, w <> W1W o r.

(* one constructor per transition of the modelled programs *)
Inductive Step : st -> label -> st -> Prop :=
| SCall s i f b : nth_error (thr s) i = Some Idle ->
    Step s (LCall i f b) (mkS (upd i (D1 f b) (thr s)) (fr s) (fw s))
| SPollDone1 s i f b : nth_error (thr s) i = Some (D1 f b) -> done (getf s f) = true ->
    Step s (LPollDone i) (mkS (upd i (DRet f REof) (thr s)) (fr s) (fw s))
| SPollDone2 s i f : nth_error (thr s) i = Some (D2 f) -> done (getf s f) = true ->
    Step s (LPollDone i) (mkS (upd i (DRet f REof) (thr s)) (fr s) (fw s))
| SPollChan1 s i f b : nth_error (thr s) i = Some (D1 f b) -> wk (getf s f) = W0W ->
    Step s (LPollChan i) (setf s f (w_accept (getf s f) i b) (upd i (D2 f) (thr s)))
| SPollChan2 s i f o r : nth_error (thr s) i = Some (D2 f) -> wk (getf s f) = W1W o r ->
    Step s (LPollChan i) (setf s f (w_deliver (getf s f) i r) (upd i (DRet f r) (thr s)))
| SPark1 s i f b : nth_error (thr s) i = Some (D1 f b) -> done (getf s f) = false -> not_W0W (wk (getf s f)) ->
    Step s (LPark i) (mkS (upd i (D1W f b) (thr s)) (fr s) (fw s))
| SPark2 s i f : nth_error (thr s) i = Some (D2 f) -> done (getf s f) = false -> not_W1W (wk (getf s f)) ->
    Step s (LPark i) (mkS (upd i (D2W f) (thr s)) (fr s) (fw s))
| SRetD s i f r : nth_error (thr s) i = Some (DRet f r) ->
    Step s (LRet i) (mkS (upd i Idle (thr s)) (fr s) (fw s))
| SRetK s i : nth_error (thr s) i = Some (K 4 0) ->
    Step s (LRet i) (mkS (upd i Idle (thr s)) (fr s) (fw s))
| SCallClose s i : nth_error (thr s) i = Some Idle ->
    Step s (LCallClose i) (mkS (upd i (K 0 0) (thr s)) (fr s) (fw s))
| SKlock s i ip f : nth_error (thr s) i = Some (K ip 0) -> kf ip = Some f -> mu (getf s f) = false ->
    Step s (LK i) (setf s f (w_mu (getf s f) true) (upd i (K ip 1) (thr s)))
| SKnoop s i ip f : nth_error (thr s) i = Some (K ip 1) -> kf ip = Some f -> fclosed (getf s f) = true ->
    Step s (LK i) (setf s f (getf s f) (upd i (K ip 2) (thr s)))
| SKmark s i ip f : nth_error (thr s) i = Some (K ip 1) -> kf ip = Some f ->
    fclosed (getf s f) = false -> done (getf s f) = false ->
    Step s (LK i) (setf s f (w_closedone (getf s f) true) (upd i (K ip 2) (map (wake_done f) (thr s))))
| SKunlock s i ip f : nth_error (thr s) i = Some (K ip 2) -> kf ip = Some f -> mu (getf s f) = true ->
    Step s (LK i) (setf s f (w_mu (getf s f) false) (upd i (K ip 3) (thr s)))
| SKret s i ip sub f : nth_error (thr s) i = Some (K ip sub) -> kf ip = Some f -> 3 <= sub ->
    Step s (LK i) (mkS (upd i (K (S ip) 0) (thr s)) (fr s) (fw s))
| SKstream s i ip sub f : nth_error (thr s) i = Some (K ip sub) -> ks ip = Some f ->
    Step s (LK i) (setf s f (w_sclosed (getf s f)) (upd i (K (S ip) 0) (thr s)))
| SWPollDone0 s f : done (getf s f) = true -> wk (getf s f) = W0 ->
    Step s (LWPollDone f) (setf s f (w_wk (getf s f) WX) (thr s))
| SWPollDone1 s f o r : done (getf s f) = true -> wk (getf s f) = W1 o r ->
    Step s (LWPollDone f) (setf s f (w_wk (getf s f) WX) (thr s))
| SWPollChan0 s f j b : wk (getf s f) = W0 -> nth_error (thr s) j = Some (D1W f b) ->
    Step s (LWPollChan f j) (setf s f (w_accept (getf s f) j b) (upd j (D2 f) (thr s)))
| SWPollChan1 s f j o r : wk (getf s f) = W1 o r -> nth_error (thr s) j = Some (D2W f) ->
    Step s (LWPollChan f j) (setf s f (w_deliver (getf s f) j r) (upd j (DRet f r) (thr s)))
| SWPark0 s f : done (getf s f) = false -> wk (getf s f) = W0 -> existsb (parked1 f) (thr s) = false ->
    Step s (LWPark f) (setf s f (w_wk (getf s f) W0W) (thr s))
| SWPark1 s f o r : done (getf s f) = false -> wk (getf s f) = W1 o r -> existsb (parked2 f) (thr s) = false ->
    Step s (LWPark f) (setf s f (w_wk (getf s f) (W1W o r)) (thr s))
| SWCall s f o b : wk (getf s f) = WC o b ->
    Step s (LWCall f) (setf s f (w_call (getf s f) o b) (thr s))
| SSrc s f o b r : wk (getf s f) = WS o b -> r <> REof -> (r = RClosed -> sclosed (getf s f) = true) ->
    Step s (LSrc f r) (setf s f (w_srcret (getf s f) o b r) (thr s)).

Lemma fid_eqb_eq a b : fid_eqb a b = true <-> a = b.
Proof. destruct a, b; simpl; split; congruence. Qed.

Lemma step_Step s l s' : mstep s l = Some s' -> Step s l s'.
Proof.
  unfold mstep, step. destruct l as [i f b|i|i|i|i|i|i|f|f j|f|f|f r].
  - destruct (nth_error (thr s) i) as [[]|] eqn:E; try discriminate. intros H; injection H as <-. now constructor.
  - destruct (nth_error (thr s) i) as [[]|] eqn:E; try discriminate;
      (destruct (done (getf s f)) eqn:D; [|discriminate]); intros H; injection H as <-.
    + eapply SPollDone1; eauto.
    + eapply SPollDone2; eauto.
  - destruct (nth_error (thr s) i) as [[]|] eqn:E; try discriminate.
    + destruct (wk (getf s f)) eqn:W; try discriminate. intros H; injection H as <-. eapply SPollChan1; eauto.
    + destruct (wk (getf s f)) eqn:W; try discriminate. intros H; injection H as <-. eapply SPollChan2; eauto.
  - destruct (nth_error (thr s) i) as [[]|] eqn:E; try discriminate.
    + destruct (done (getf s f)) eqn:D; [discriminate|].
      destruct (wk (getf s f)) eqn:W; try discriminate; intros H; injection H as <-;
        eapply SPark1; eauto; unfold not_W0W; congruence.
    + destruct (done (getf s f)) eqn:D; [discriminate|].
      destruct (wk (getf s f)) eqn:W; try discriminate; intros H; injection H as <-;
        eapply SPark2; eauto; unfold not_W1W; congruence.
  - destruct (nth_error (thr s) i) as [[]|] eqn:E; try discriminate.
    + intros H; injection H as <-. eapply SRetD; eauto.
    + destruct (Nat.eqb_spec ip (length model_conn_close)); [|discriminate].
      destruct (Nat.eqb_spec sub 0); [|discriminate]. subst. intros H; injection H as <-. eapply SRetK; eauto.
  - destruct (nth_error (thr s) i) as [[]|] eqn:E; try discriminate. intros H; injection H as <-. now constructor.
  - destruct (nth_error (thr s) i) as [[]|] eqn:E; try discriminate.
    unfold step_k, model_conn_close, model_feeder_close.
    destruct ip as [|[|[|[|ip]]]]; cbn [nth_error].
    + destruct sub as [|[|[|[|sub]]]]; cbn [nth_error].
      * destruct (mu (getf s FR)) eqn:M; [discriminate|]. intros H; injection H as <-. eapply (SKlock _ _ 0 FR); eauto.
      * destruct (fclosed (getf s FR)) eqn:C.
        -- intros H; injection H as <-. eapply (SKnoop _ _ 0 FR); eauto.
        -- destruct (done (getf s FR)) eqn:D; [discriminate|]. intros H; injection H as <-. eapply (SKmark _ _ 0 FR); eauto.
      * destruct (mu (getf s FR)) eqn:M; [|discriminate]. intros H; injection H as <-. eapply (SKunlock _ _ 0 FR); eauto.
      * intros H; injection H as <-. eapply (SKret _ _ 0 _ FR); eauto.
      * destruct sub; intros H; injection H as <-; eapply (SKret _ _ 0 _ FR); eauto; lia.
    + destruct sub as [|[|[|[|sub]]]]; cbn [nth_error].
      * destruct (mu (getf s FW)) eqn:M; [discriminate|]. intros H; injection H as <-. eapply (SKlock _ _ 1 FW); eauto.
      * destruct (fclosed (getf s FW)) eqn:C.
        -- intros H; injection H as <-. eapply (SKnoop _ _ 1 FW); eauto.
        -- destruct (done (getf s FW)) eqn:D; [discriminate|]. intros H; injection H as <-. eapply (SKmark _ _ 1 FW); eauto.
      * destruct (mu (getf s FW)) eqn:M; [|discriminate]. intros H; injection H as <-. eapply (SKunlock _ _ 1 FW); eauto.
      * intros H; injection H as <-. eapply (SKret _ _ 1 _ FW); eauto.
      * destruct sub; intros H; injection H as <-; eapply (SKret _ _ 1 _ FW); eauto; lia.
    + intros H; injection H as <-. eapply (SKstream _ _ 2 _ FR); eauto.
    + intros H; injection H as <-. eapply (SKstream _ _ 3 _ FW); eauto.
    + destruct ip; discriminate.
  - destruct (done (getf s f)) eqn:D; [|discriminate].
    destruct (wk (getf s f)) eqn:W; try discriminate; intros H; injection H as <-.
    + eapply SWPollDone0; eauto.
    + eapply SWPollDone1; eauto.
  - destruct (wk (getf s f)) eqn:W; try discriminate.
    + destruct (nth_error (thr s) j) as [[]|] eqn:E; try discriminate.
      destruct (fid_eqb f f0) eqn:Q; [|discriminate]. apply fid_eqb_eq in Q. subst f0.
      intros H; injection H as <-. eapply SWPollChan0; eauto.
    + destruct (nth_error (thr s) j) as [[]|] eqn:E; try discriminate.
      destruct (fid_eqb f f0) eqn:Q; [|discriminate]. apply fid_eqb_eq in Q. subst f0.
      intros H; injection H as <-. eapply SWPollChan1; eauto.
  - destruct (done (getf s f)) eqn:D; [discriminate|].
    destruct (wk (getf s f)) eqn:W; try discriminate.
    + destruct (existsb (parked1 f) (thr s)) eqn:P; [discriminate|]. intros H; injection H as <-. eapply SWPark0; eauto.
    + destruct (existsb (parked2 f) (thr s)) eqn:P; [discriminate|]. intros H; injection H as <-. eapply SWPark1; eauto.
  - destruct (wk (getf s f)) eqn:W; try discriminate. intros H; injection H as <-. eapply SWCall; eauto.
  - destruct (wk (getf s f)) eqn:W; try discriminate.
    destruct r; simpl; try discriminate.
    + intros H; injection H as <-. eapply SSrc; eauto; congruence.
    + destruct (sclosed (getf s f)) eqn:C; simpl; [|discriminate]. intros H; injection H as <-. eapply SSrc; eauto; congruence.
Qed.

Inductive reach (n : nat) : st -> Prop :=
| reach0 : reach n (init n)
| reachS s l s' : reach n s -> mstep s l = Some s' -> reach n s'.
