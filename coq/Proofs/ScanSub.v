(* Sub-scanner facts: how much each consumes (adv / sadv), scanComment never panics. *)
From Coq Require Import List NArith ZArith Bool Lia.
From Coq Require Import ZifyN ZifyNat ZifyBool.
Import ListNotations.
From V Require Import Base.Prelude Gen.ScanTok Model.Scan Proofs.ScanBase.
Open Scope Z_scope.


(* ---- numbers ---- *)
Lemma is_decimal_nonneg c : is_decimal c = true -> 0 <= c.
Proof. unfold is_decimal. lia. Qed.

Lemma digits_sadv fuel base s inv ds :
  (0 < fuel)%nat -> is_decimal (cur s) = true -> base <= 10 ->
  sadv s (snd (fst (digits fuel base s inv ds))).
Proof.
  intros Hf Hd Hb. destruct fuel as [|f]; [lia|]. cbn [digits].
  destruct (base <=? 10) eqn:B; [|lia]. rewrite Hd. cbn [orb].
  eapply sadv_adv_trans; [apply sadv_nxt_cur, is_decimal_nonneg, Hd|apply digits_adv].
Qed.

Ltac with_digits k :=
  match goal with |- context[digits ?f ?b ?s ?i ?x] =>
    pose proof (digits_adv f b s i x) as D; destruct (digits f b s i x) as [[?ds' ?s3] ?inv']; cbn [fst snd] in D; k s
  end.

Lemma num_int_adv fuel s0 : adv s0 (snd (num_int fuel s0)).
Proof.
  unfold num_int. destruct (negb _); cbn [snd]; [|apply adv_refl].
  destruct (cur s0 =? 48).
  - repeat (match goal with |- context[if ?c then _ else _] => destruct c end); cbv beta iota;
    with_digits ltac:(fun s => idtac); cbn [snd];
    (eapply adv_trans; [|exact D]); try (eapply adv_trans; apply adv_nxt); apply adv_nxt.
  - with_digits ltac:(fun s => idtac). cbn [snd]. exact D.
Qed.
(* when the number starts with a decimal digit the integer part is not empty *)
Lemma num_int_sadv fuel s0 : (0 < fuel)%nat -> is_decimal (cur s0) = true -> sadv s0 (snd (num_int fuel s0)).
Proof.
  intros Hf Hd. unfold num_int.
  assert (N46 : (cur s0 =? 46) = false) by (unfold is_decimal in Hd; lia). rewrite N46. cbn [negb].
  pose proof (sadv_nxt_cur s0 (is_decimal_nonneg _ Hd)) as S0.
  destruct (cur s0 =? 48).
  - repeat (match goal with |- context[if ?c then _ else _] => destruct c end); cbv beta iota;
    with_digits ltac:(fun s => idtac); cbn [snd];
    (eapply sadv_adv_trans; [|exact D]); try (eapply sadv_adv_trans; [exact S0|apply adv_nxt]); exact S0.
  - pose proof (digits_sadv fuel 10 s0 (-1) 0 Hf Hd ltac:(lia)) as D.
    destruct (digits fuel 10 s0 (-1) 0) as [[ds' s3] inv]. exact D.
Qed.

Lemma adv_if_err (c : bool) s o e : adv s (if c then err s o e else s).
Proof. destruct c; [apply adv_err|apply adv_refl]. Qed.
Lemma adv_if_err_r a (c : bool) s o e : adv a s -> adv a (if c then err s o e else s).
Proof. intros H. eapply adv_trans; [exact H|apply adv_if_err]. Qed.
Lemma sadv_if_err_r a (c : bool) s o e : sadv a s -> sadv a (if c then err s o e else s).
Proof. intros H. eapply sadv_adv_trans; [exact H|apply adv_if_err]. Qed.
Lemma cur_if_err (c : bool) s o e : cur (if c then err s o e else s) = cur s.
Proof. destruct c; reflexivity. Qed.

Lemma num_frac_adv fuel tok base prefix digsep inv s : adv s (snd (num_frac fuel tok base prefix digsep inv s)).
Proof.
  unfold num_frac. destruct (cur s =? 46).
  - with_digits ltac:(fun s => idtac). cbn [snd]. apply adv_if_err_r.
    eapply adv_trans; [|exact D]. eapply adv_trans; [apply adv_if_err|apply adv_nxt].
  - cbn [snd]. apply adv_if_err.
Qed.
Lemma num_frac_sadv fuel tok base prefix digsep inv s :
  cur s = 46 -> sadv s (snd (num_frac fuel tok base prefix digsep inv s)).
Proof.
  intros C. unfold num_frac. rewrite C. cbn [Z.eqb Pos.eqb].
  with_digits ltac:(fun s => idtac). cbn [snd]. apply sadv_if_err_r.
  eapply sadv_adv_trans; [|exact D]. eapply adv_sadv_trans; [apply adv_if_err|].
  apply sadv_nxt_cur. rewrite cur_if_err. lia.
Qed.

Lemma num_exp_adv fuel tok prefix digsep s : adv s (snd (num_exp fuel tok prefix digsep s)).
Proof.
  unfold num_exp. destruct (_ || _).
  - with_digits ltac:(fun s => idtac). cbn [snd]. apply adv_if_err_r.
    eapply adv_trans; [|exact D].
    match goal with |- adv _ (if ?c then nxt ?x else ?x) => assert (A : adv x (if c then nxt x else x)) by (destruct c; [apply adv_nxt|apply adv_refl]) end.
    eapply adv_trans; [|exact A]. eapply adv_trans; [|apply adv_nxt].
    destruct (_ && _); [apply adv_err|apply adv_if_err].
  - destruct (_ && _); cbn [snd]; [apply adv_err|apply adv_refl].
Qed.

Section WithUni.
Variable ul ud : Z -> bool.
Variable d : dialect.

(* the suffix: either no unit (u = 0), or a non-empty identifier of u bytes right before the end *)
Lemma num_suffix_spec fuel tok s t s' u :
  (0 < fuel)%nat -> num_suffix ul ud d fuel tok s = (t, s', u) ->
  adv s s' /\ (u = 0 \/ (0 < u /\ u = off s' - off s)).
Proof.
  intros Hf. unfold num_suffix. destruct (is_go d).
  - destruct (cur s =? 105); intros E; inversion E; subst; split; auto using adv_nxt, adv_refl.
  - destruct (is_letter ul (cur s)) eqn:L.
    + pose proof (scan_ident_sadv ul ud fuel s L Hf) as S. pose proof (sadv_off _ _ S).
      cbv zeta. destruct (str_eqb _ [105%N]); [|destruct (str_eqb _ [114%N])]; intros E; inversion E; subst;
        (split; [apply sadv_adv, S|]); auto; right; lia.
    + intros E; inversion E; subst. split; [apply adv_refl|left; reflexivity].
Qed.

Lemma scan_number_spec s0 t s1 u :
  scan_number ul ud d s0 = (t, s1, u) ->
  (is_decimal (cur s0) = true \/ cur s0 = 46) ->
  exists sm, sadv s0 sm /\ adv sm s1 /\ (u = 0 \/ (0 < u /\ u = off s1 - off sm)).
Proof.
  unfold scan_number. set (fuel := S (length (rest s0))). assert (Hf : (0 < fuel)%nat) by (subst fuel; lia).
  pose proof (num_int_adv fuel s0) as A1. pose proof (num_int_sadv fuel s0 Hf) as S1.
  destruct (num_int fuel s0) as [[[[[tok base] prefix] digsep] inv] sa] eqn:E1. cbn [snd] in *.
  pose proof (num_frac_adv fuel tok base prefix digsep inv sa) as A2.
  pose proof (num_frac_sadv fuel tok base prefix digsep inv sa) as S2.
  destruct (num_frac fuel tok base prefix digsep inv sa) as [[[tok2 digsep2] inv2] sb] eqn:E2. cbn [snd] in *.
  pose proof (num_exp_adv fuel tok2 prefix digsep2 sb) as A3.
  destruct (num_exp fuel tok2 prefix digsep2 sb) as [[tok3 digsep3] sc0] eqn:E3. cbn [snd] in *.
  destruct (num_suffix ul ud d fuel tok3 sc0) as [[tok4 sd] un] eqn:E4.
  destruct (num_suffix_spec _ _ _ _ _ _ Hf E4) as [A4 U].
  intros E H. injection E as Et Es Eu. subst t u.
  assert (OFF : off s1 = off sd /\ rest s1 = rest sd).
  { rewrite <- Es. repeat match goal with |- context[if ?c then _ else _] => destruct c end; cbn [off rest err]; auto. }
  destruct OFF as [O1 R1].
  assert (SM : sadv s0 sc0).
  { destruct H as [H|H].
    - eapply sadv_adv_trans; [apply S1, H|]. eapply adv_trans; eassumption.
    - assert (sa = s0).
      { unfold num_int in E1. rewrite H in E1. cbn in E1. inversion E1. reflexivity. }
      subst sa. eapply sadv_adv_trans; [apply S2, H|exact A3]. }
  exists sc0. split; [exact SM|]. split.
  - eapply adv_of_eq; [exact R1|exact O1|exact A4].
  - rewrite O1. exact U.
Qed.

End WithUni.

(* ---- comments ---- *)
Lemma until_nl_count fuel s n :
  let r := until_nl fuel s n in adv s (fst r) /\ n <= snd r /\ snd r - n <= off (fst r) - off s.
Proof.
  revert s n; induction fuel as [|f IH]; intros s n; cbn [until_nl]; cbv zeta.
  - cbn [fst snd]. split; [apply adv_refl|lia].
  - destruct ((cur s =? 10) || (cur s <? 0)) eqn:C; cbn [fst snd]; [split; [apply adv_refl|lia]|].
    specialize (IH (nxt s) (if cur s =? 13 then n + 1 else n)). cbv zeta in IH. destruct IH as (A & L & U).
    assert (S : sadv s (nxt s)) by (apply sadv_nxt_cur; lia). pose proof (sadv_off _ _ S).
    split; [eapply adv_trans; [apply adv_nxt|exact A]|]. destruct (cur s =? 13); lia.
Qed.

Lemma block_body_count fuel s n nl :
  let r := block_body fuel s n nl in
  adv s (fst (fst (fst r))) /\ n <= snd (fst (fst r)) /\ snd (fst (fst r)) - n <= off (fst (fst (fst r))) - off s.
Proof.
  revert s n nl; induction fuel as [|f IH]; intros s n nl; cbn [block_body]; cbv zeta.
  - cbn [fst snd]. split; [apply adv_refl|lia].
  - destruct (cur s <? 0) eqn:C; cbn [fst snd]; [split; [apply adv_refl|lia]|].
    assert (S : sadv s (nxt s)) by (apply sadv_nxt_cur; lia). pose proof (sadv_off _ _ S).
    destruct ((cur s =? 42) && (cur (nxt s) =? 47)); cbn [fst snd].
    + pose proof (adv_nxt (nxt s)) as A2. pose proof (adv_off _ _ A2).
      split; [eapply adv_trans; [apply adv_nxt|exact A2]|]. destruct (cur s =? 13); lia.
    + match goal with |- context[block_body f (nxt s) ?a ?b] => specialize (IH (nxt s) a b) end.
      cbv zeta in IH. destruct IH as (A & L & U).
      split; [eapply adv_trans; [apply adv_nxt|exact A]|]. destruct (cur s =? 13); lia.
Qed.

Section WithD.
Variable d : dialect.

Lemma comment_scan_spec s0 s1 ncr valid nl :
  0 <= cur s0 -> comment_scan d s0 = (s1, ncr, valid, nl) ->
  sadv s0 s1 /\ 0 <= ncr /\ ncr + 1 <= off s1 - off s0.
Proof.
  intros C. unfold comment_scan. set (fuel := S (length (rest s0))).
  assert (S0 : sadv s0 (nxt s0)) by (apply sadv_nxt_cur, C). pose proof (sadv_off _ _ S0) as O0.
  destruct (cur (nxt s0) =? 47).
  - pose proof (until_nl_count fuel (nxt (nxt s0)) 0) as U. cbv zeta in U.
    destruct (until_nl fuel (nxt (nxt s0)) 0) as [s' n]. cbn [fst snd] in U. destruct U as (A & L & U).
    intros E; inversion E; subst. pose proof (adv_off _ _ (adv_nxt (nxt s0))).
    split; [eapply sadv_adv_trans; [exact S0|eapply adv_trans; [apply adv_nxt|exact A]]|lia].
  - destruct (is_go d || (cur (nxt s0) =? 42)).
    + pose proof (block_body_count fuel (nxt (nxt s0)) 0 0) as U. cbv zeta in U.
      destruct (block_body fuel (nxt (nxt s0)) 0 0) as [[[s' n] term] nl']. cbn [fst snd] in U. destruct U as (A & L & U).
      pose proof (adv_off _ _ (adv_nxt (nxt s0))).
      destruct term; intros E; inversion E; subst; cbn [off err];
        (split; [eapply sadv_adv_trans; [exact S0|eapply adv_trans; [apply adv_nxt|]]; try apply adv_err_r; exact A|lia]).
    + pose proof (until_nl_count fuel (nxt s0) 0) as U. cbv zeta in U.
      destruct (until_nl fuel (nxt s0) 0) as [s' n]. cbn [fst snd] in U. destruct U as (A & L & U).
      intros E; inversion E; subst. split; [eapply sadv_adv_trans; [exact S0|exact A]|lia].
Qed.

Lemma zlen_removelast (l : str) : l <> [] -> zlen (removelast l) = zlen l - 1.
Proof.
  intros H. destruct (exists_last H) as (l' & a & ->). rewrite removelast_last, zlen_app, zlen_cons, zlen_nil. lia.
Qed.

(* scanComment never panics: the literal has at least 1 + numCR bytes *)
Lemma scan_comment_x_ok s0 :
  0 <= cur s0 -> exists s2 lit nl, scan_comment_x d s0 = Ok (s2, lit, nl) /\ sadv s0 s2.
Proof.
  intros C. unfold scan_comment_x.
  destruct (comment_scan d s0) as [[[s1 ncr] valid] nl] eqn:E.
  destruct (comment_scan_spec _ _ _ _ _ C E) as (S & N0 & N1).
  pose proof (adv_slice _ _ (sadv_adv _ _ S)) as [_ LEN].
  unfold comment_trim.
  set (lit0 := slice s0 s1) in *.
  match goal with |- context[if ?c then (removelast lit0, _) else _] => destruct c eqn:T end.
  - (* trailing \r removed *)
    assert (lit0 <> []) by (intros Z0; rewrite Z0, zlen_nil in LEN; lia).
    pose proof (zlen_removelast lit0 H) as ZR.
    match goal with |- context[if ?c then mkS (off s1) (rest s1) ?e (lineoff s1) else s1] => set (s2 := if c then mkS (off s1) (rest s1) e (lineoff s1) else s1) end.
    assert (S2 : sadv s0 s2).
    { subst s2. match goal with |- sadv _ (if ?c then _ else _) => destruct c end; [|exact S]. destruct S as (x & Nx & Rx & Ox). exists x. cbn [rest off]. auto. }
    destruct (0 <? ncr - 1) eqn:P.
    + destruct (zlen (removelast lit0) <? 2) eqn:Q; [lia|]. eexists _, _, _. split; [reflexivity|exact S2].
    + eexists _, _, _. split; [reflexivity|exact S2].
  - match goal with |- context[if ?c then mkS (off s1) (rest s1) ?e (lineoff s1) else s1] => set (s2 := if c then mkS (off s1) (rest s1) e (lineoff s1) else s1) end.
    assert (S2 : sadv s0 s2).
    { subst s2. match goal with |- sadv _ (if ?c then _ else _) => destruct c end; [|exact S]. destruct S as (x & Nx & Rx & Ox). exists x. cbn [rest off]. auto. }
    destruct (0 <? ncr) eqn:P.
    + destruct (zlen lit0 <? 2) eqn:Q; [lia|]. eexists _, _, _. split; [reflexivity|exact S2].
    + eexists _, _, _. split; [reflexivity|exact S2].
Qed.

Lemma scan_comment_tpl_sadv s0 : 0 <= cur s0 -> sadv s0 (fst (scan_comment_tpl s0)).
Proof.
  intros C. unfold scan_comment_tpl. set (fuel := S (length (rest s0))). cbn [fst].
  assert (S0 : sadv s0 (nxt s0)) by (apply sadv_nxt_cur, C).
  destruct (cur (nxt s0) =? 47).
  - eapply sadv_adv_trans; [exact S0|]. eapply adv_trans; [apply adv_nxt|apply until_nl_adv].
  - pose proof (block_body_adv fuel (nxt (nxt s0)) 0 0) as A.
    destruct (block_body fuel (nxt (nxt s0)) 0 0) as [[[s' n] term] nl']. cbn [fst] in A.
    eapply sadv_adv_trans; [exact S0|]. eapply adv_trans; [apply adv_nxt|].
    destruct term; [exact A|apply adv_err_r, A].
Qed.
Lemma scan_sharp_tpl_sadv s0 : 0 <= cur s0 -> sadv s0 (fst (scan_sharp_tpl s0)).
Proof.
  intros C. unfold scan_sharp_tpl. cbn [fst].
  eapply sadv_adv_trans; [apply sadv_nxt_cur, C|apply until_nl_adv].
Qed.
End WithD.
