(* K-gen obligations over Gen/ScanConst.v: the numeric comparisons of the three scanner sources
   (translated from the source on every run) are the comparisons of the model, for ALL values -
   a changed bound or comparison operator in scanEscape / digitVal / isLetter / isDigit / isHex /
   isDecimal / lower / skipWhitespace breaks one of these lemmas without any input. *)
From Coq Require Import List NArith ZArith Bool Lia.
Import ListNotations.
From V Require Import Base.Prelude Gen.ScanConst Model.Scan Model.ScanRel.
Open Scope Z_scope.

Ltac bsplit := repeat match goal with
  | |- context[Z.leb ?a ?b] => destruct (Z.leb_spec a b)
  | |- context[Z.ltb ?a ?b] => destruct (Z.ltb_spec a b)
  | |- context[Z.eqb ?a ?b] => destruct (Z.eqb_spec a b)
  end.
Ltac bfin := cbn [andb orb negb]; first [reflexivity | lia | (exfalso; lia)].
(* equal on each constant the chain tests (by computation), then compare the remaining ranges *)
Ltac by_cases c :=
  repeat match goal with |- context[Z.eqb c (Zpos ?k)] => destruct (Z.eqb_spec c (Zpos k)); [subst c; vm_compute; reflexivity|] end.

Lemma lor32_ge128 c : 128 <= c -> 128 <= Z.lor 32 c.
Proof.
  intros H. pose proof (Z.log2_lor 32 c ltac:(lia) ltac:(lia)) as L.
  assert (7 <= Z.log2 c) by (change 7 with (Z.log2 128); apply Z.log2_le_mono, H).
  pose proof (Z.le_max_r (Z.log2 32) (Z.log2 c)) as MR.
  assert (7 <= Z.log2 (Z.lor 32 c)) by (rewrite L; lia).
  destruct (Z_le_gt_dec (Z.lor 32 c) 0) as [N|P]; [rewrite (Z.log2_nonpos _ N) in H1; lia|].
  pose proof (Z.log2_spec (Z.lor 32 c) ltac:(lia)) as [S _].
  assert (2 ^ 7 <= 2 ^ Z.log2 (Z.lor 32 c)) by (apply Z.pow_le_mono_r; lia). change (2 ^ 7) with 128 in H2. lia.
Qed.
Lemma lor32_neg c : c < 0 -> Z.lor 32 c < 0.
Proof. intros H. apply Z.lor_neg. right. exact H. Qed.
Lemma In_zrange' lo n c : lo <= c < lo + Z.of_nat n -> In c (zrange lo n).
Proof.
  revert lo; induction n as [|n IH]; intros lo H; [lia|]. cbn [zrange].
  destruct (Z.eq_dec c lo); [left; congruence|right]. apply IH. lia.
Qed.

(* ---- scanner/scanner.go ---- *)
Lemma xgo_lower c : xgo_sc_lower c = lower c.
Proof. reflexivity. Qed.
Lemma xgo_isDecimal c : xgo_sc_isDecimal c = is_decimal c.
Proof. unfold xgo_sc_isDecimal, is_decimal. bsplit; bfin. Qed.
Lemma xgo_isHex c : xgo_sc_isHex c = is_hex c.
Proof. unfold xgo_sc_isHex, is_hex, is_decimal, xgo_sc_lower, lower. bsplit; bfin. Qed.
Lemma xgo_digitVal c : xgo_sc_digitVal c = digit_val c.
Proof. unfold xgo_sc_digitVal, digit_val, is_decimal, xgo_sc_lower, lower. bsplit; bfin. Qed.
Lemma xgo_isLetter ul ud c : xgo_sc_isLetter ul ud c = is_letter ul c.
Proof. unfold xgo_sc_isLetter, is_letter, xgo_sc_lower, lower. bsplit; cbn [andb orb]; try reflexivity; try (exfalso; lia). Qed.
Lemma xgo_isDigit ul ud c : xgo_sc_isDigit ul ud c = is_digit ud c.
Proof. unfold xgo_sc_isDigit, is_digit, xgo_sc_isDecimal, is_decimal. bsplit; cbn [andb orb]; try reflexivity; try (exfalso; lia). Qed.
Lemma xgo_skipCond semi c : xgo_sc_skipCond semi c = is_blank_rune semi c.
Proof. unfold xgo_sc_skipCond, is_blank_rune. bsplit; bfin. Qed.
Lemma xgo_escInvalid mx x : xgo_sc_escInvalid mx x = esc_invalid mx x.
Proof. unfold xgo_sc_escInvalid, esc_invalid. bsplit; bfin. Qed.
Lemma xgo_escSimple q c : existsb (Z.eqb c) xgo_sc_escSimple || (c =? q) = esc_simple q c.
Proof. unfold esc_simple. cbn [existsb xgo_sc_escSimple]. by_cases c. bsplit; bfin. Qed.
Lemma xgo_escNumeric c : zassoc c xgo_sc_escNumeric = esc_numeric c.
Proof. unfold esc_numeric. cbn [zassoc xgo_sc_escNumeric]. by_cases c. bsplit; bfin. Qed.
Lemma xgo_bom : xgo_sc_bom = bom.
Proof. reflexivity. Qed.

(* ---- tpl/scanner/scanner.go ---- *)
Lemma tpl_lower c : tpl_sc_lower c = lower c.
Proof. reflexivity. Qed.
Lemma tpl_isDecimal c : tpl_sc_isDecimal c = is_decimal c.
Proof. unfold tpl_sc_isDecimal, is_decimal. bsplit; bfin. Qed.
Lemma tpl_isHex c : tpl_sc_isHex c = is_hex c.
Proof. unfold tpl_sc_isHex, is_hex, is_decimal, tpl_sc_lower, lower. bsplit; bfin. Qed.
Lemma tpl_digitVal c : tpl_sc_digitVal c = digit_val c.
Proof. unfold tpl_sc_digitVal, digit_val, is_decimal, tpl_sc_lower, lower. bsplit; bfin. Qed.
(* tpl/scanner spells the letter test with two ranges instead of lower(): equal on ASCII by
   enumeration, outside ASCII because 0x20|ch stays outside 'a'..'z' *)
Lemma tpl_isLetter_ascii ul ud :
  forallb (fun c => Bool.eqb (tpl_sc_isLetter ul ud c) (is_letter ul c)) (zrange 0 128) = true.
Proof. vm_compute. reflexivity. Qed.
Lemma tpl_isLetter ul ud c : tpl_sc_isLetter ul ud c = is_letter ul c.
Proof.
  destruct (Z_lt_dec c 0) as [N|N].
  - pose proof (lor32_neg c N). unfold tpl_sc_isLetter, is_letter, lower. bsplit; cbn [andb orb]; try reflexivity; exfalso; lia.
  - destruct (Z_lt_dec c 128) as [A|A].
    + pose proof (proj1 (forallb_forall _ _) (tpl_isLetter_ascii ul ud) c (In_zrange' 0 128 c ltac:(lia))) as E.
      apply Bool.eqb_prop in E. exact E.
    + pose proof (lor32_ge128 c ltac:(lia)). unfold tpl_sc_isLetter, is_letter, lower. bsplit; cbn [andb orb]; try reflexivity; exfalso; lia.
Qed.
Lemma tpl_isDigit ul ud c : tpl_sc_isDigit ul ud c = is_digit ud c.
Proof. unfold tpl_sc_isDigit, is_digit, is_decimal. bsplit; cbn [andb orb]; try reflexivity; try (exfalso; lia). Qed.
Lemma tpl_skipCond semi c : tpl_sc_skipCond semi c = is_blank_rune semi c.
Proof. unfold tpl_sc_skipCond, is_blank_rune. bsplit; bfin. Qed.
Lemma tpl_escInvalid mx x : tpl_sc_escInvalid mx x = esc_invalid mx x.
Proof. unfold tpl_sc_escInvalid, esc_invalid. bsplit; bfin. Qed.
Lemma tpl_escSimple q c : existsb (Z.eqb c) tpl_sc_escSimple || (c =? q) = esc_simple q c.
Proof. unfold esc_simple. cbn [existsb tpl_sc_escSimple]. by_cases c. bsplit; bfin. Qed.
Lemma tpl_escNumeric c : zassoc c tpl_sc_escNumeric = esc_numeric c.
Proof. unfold esc_numeric. cbn [zassoc tpl_sc_escNumeric]. by_cases c. bsplit; bfin. Qed.
Lemma tpl_bom : tpl_sc_bom = bom.
Proof. reflexivity. Qed.

(* ---- $GOROOT/src/go/scanner/scanner.go ---- *)
Lemma go_lower c : go_sc_lower c = lower c.
Proof. reflexivity. Qed.
Lemma go_isDecimal c : go_sc_isDecimal c = is_decimal c.
Proof. unfold go_sc_isDecimal, is_decimal. bsplit; bfin. Qed.
Lemma go_isHex c : go_sc_isHex c = is_hex c.
Proof. unfold go_sc_isHex, is_hex, is_decimal, go_sc_lower, lower. bsplit; bfin. Qed.
Lemma go_digitVal c : go_sc_digitVal c = digit_val c.
Proof. unfold go_sc_digitVal, digit_val, is_decimal, go_sc_lower, lower. bsplit; bfin. Qed.
Lemma go_isLetter ul ud c : go_sc_isLetter ul ud c = is_letter ul c.
Proof. unfold go_sc_isLetter, is_letter, go_sc_lower, lower. bsplit; cbn [andb orb]; try reflexivity; try (exfalso; lia). Qed.
Lemma go_isDigit ul ud c : go_sc_isDigit ul ud c = is_digit ud c.
Proof. unfold go_sc_isDigit, is_digit, go_sc_isDecimal, is_decimal. bsplit; cbn [andb orb]; try reflexivity; try (exfalso; lia). Qed.
Lemma go_skipCond semi c : go_sc_skipCond semi c = is_blank_rune semi c.
Proof. unfold go_sc_skipCond, is_blank_rune. bsplit; bfin. Qed.
Lemma go_escInvalid mx x : go_sc_escInvalid mx x = esc_invalid mx x.
Proof. unfold go_sc_escInvalid, esc_invalid. bsplit; bfin. Qed.
Lemma go_escSimple q c : existsb (Z.eqb c) go_sc_escSimple || (c =? q) = esc_simple q c.
Proof. unfold esc_simple. cbn [existsb go_sc_escSimple]. by_cases c. bsplit; bfin. Qed.
Lemma go_escNumeric c : zassoc c go_sc_escNumeric = esc_numeric c.
Proof. unfold esc_numeric. cbn [zassoc go_sc_escNumeric]. by_cases c. bsplit; bfin. Qed.
Lemma go_bom : go_sc_bom = bom.
Proof. reflexivity. Qed.
Lemma go_maxLineCol : go_sc_maxLineCol = max_line_col.
Proof. reflexivity. Qed.
