(* Proofs about the dirHash text model (Model/C36.v). *)
From Coq Require Import List NArith ZArith Lia Bool ZifyN ZifyNat ZifyBool Sorted.
Import ListNotations.
From V Require Import Base.Prelude Base.Radix Model.C36.
Open Scope N_scope.

(* ------------------------------------------------------------------ the text is a function of the view *)
Definition line3 (x : str * Z * Z) : str :=
  let '(n, s, m) := x in file_kw ++ [TAB] ++ n ++ [TAB] ++ to_hex_z s ++ [TAB] ++ to_hex_z m ++ [NL].
Definition text (v : list (str * Z * Z)) : str := concat (map line3 v).

Lemma dir_text_view classes l : dir_text classes l = text (view classes l).
Proof.
  unfold text, view. induction l as [|e t IH]; [reflexivity|].
  cbn [dir_text filter]. unfold relevant at 1.
  destruct (e_dir e); cbn [negb andb]; [exact IH|].
  destruct (us_prefix (e_name e)); cbn [negb andb orb]; [exact IH|].
  destruct (can_cl classes (e_name e)); cbn [negb andb orb]; [|exact IH].
  destruct (e_info_ok e); [|exact IH].
  cbn [map concat]. rewrite IH. reflexivity.
Qed.

Theorem fingerprint_view classes self l : fingerprint classes self l = self_text self ++ text (view classes l).
Proof. unfold fingerprint. rewrite dir_text_view. reflexivity. Qed.

Theorem fingerprint_irrelevant_invariant classes self l1 l2 :
  view classes l1 = view classes l2 -> fingerprint classes self l1 = fingerprint classes self l2.
Proof. intros E. rewrite !fingerprint_view, E. reflexivity. Qed.

(* entries that are directories, underscore-prefixed, not compilable, or whose Info() failed can be
   added, removed or changed anywhere in the listing without any effect *)
Theorem view_drop_irrelevant classes l1 e l2 : relevant classes e = false ->
  view classes (l1 ++ e :: l2) = view classes (l1 ++ l2).
Proof. intros H. unfold view. rewrite !filter_app. cbn [filter]. rewrite H. reflexivity. Qed.

(* ------------------------------------------------------------------ the text determines the view *)
Lemma split_at_sep {A} (c : A) : forall a1 a2 r1 r2, ~ In c a1 -> ~ In c a2 ->
  a1 ++ c :: r1 = a2 ++ c :: r2 -> a1 = a2 /\ r1 = r2.
Proof.
  induction a1 as [|x a1 IH]; intros a2 r1 r2 N1 N2 E; destruct a2 as [|y a2]; cbn [app] in E.
  - injection E as E. auto.
  - injection E as E1 E2. exfalso. apply N2. left. congruence.
  - injection E as E1 E2. exfalso. apply N1. left. congruence.
  - injection E as E1 E2. subst y.
    destruct (IH a2 r1 r2) as [-> ->]; auto; intros I; [apply N1|apply N2]; right; exact I.
Qed.

Lemma hexz_no c z : c = TAB \/ c = NL -> ~ In c (to_hex_z z).
Proof.
  intros Hc I. pose proof (to_hex_z_chars z) as F. rewrite Forall_forall in F. apply F in I.
  unfold is_hex_char, TAB, NL in *. destruct Hc; subst c; lia.
Qed.

Definition name_plain (n : str) : Prop := ~ In TAB n.
Definition names_plain (v : list (str * Z * Z)) : Prop := Forall (fun x => name_plain (fst (fst x))) v.

Lemma line3_inj x1 x2 r1 r2 : name_plain (fst (fst x1)) -> name_plain (fst (fst x2)) ->
  line3 x1 ++ r1 = line3 x2 ++ r2 -> x1 = x2 /\ r1 = r2.
Proof.
  destruct x1 as [[n1 s1] m1], x2 as [[n2 s2] m2]. cbn [fst]. intros P1 P2 E.
  unfold line3, file_kw in E. cbn [app] in E. injection E as E.
  repeat (rewrite <- app_assoc in E; cbn [app] in E).
  apply split_at_sep in E as [-> E]; [|assumption|assumption].
  apply split_at_sep in E as [E1 E]; [|apply hexz_no; auto|apply hexz_no; auto].
  apply split_at_sep in E as [E2 E]; [|apply hexz_no; auto|apply hexz_no; auto].
  apply to_hex_z_inj in E1. apply to_hex_z_inj in E2. subst. auto.
Qed.

Lemma line3_nonempty x r : line3 x ++ r <> [].
Proof. destruct x as [[n s] m]. unfold line3, file_kw. cbn [app]. discriminate. Qed.

Theorem text_injective : forall v1 v2, names_plain v1 -> names_plain v2 -> text v1 = text v2 -> v1 = v2.
Proof.
  unfold text. induction v1 as [|x1 t1 IH]; intros v2 P1 P2 E; destruct v2 as [|x2 t2]; cbn [map concat] in E.
  - reflexivity.
  - symmetry in E. apply line3_nonempty in E. contradiction.
  - apply line3_nonempty in E. contradiction.
  - inversion P1; inversion P2; subst.
    apply line3_inj in E as [-> E]; [|assumption|assumption]. f_equal. apply IH; assumption.
Qed.

Theorem fingerprint_injective classes self l1 l2 :
  names_plain (view classes l1) -> names_plain (view classes l2) ->
  fingerprint classes self l1 = fingerprint classes self l2 -> view classes l1 = view classes l2.
Proof.
  intros P1 P2 E. rewrite !fingerprint_view in E. apply app_inv_head in E. apply text_injective; assumption.
Qed.

(* without the guard the text is ambiguous: one file named  a.go<TAB>1<TAB>2<LF>file<TAB>b.go  of size 3
   and mtime 4  versus  a.go (1,2) and b.go (3,4) *)
Definition tab_name : str := [97;46;103;111;9;49;9;50;10;102;105;108;101;9;98;46;103;111].
Definition coll_l1 : list entry := [mkE tab_name false true 3 4].
Definition coll_l2 : list entry := [mkE [97;46;103;111] false true 1 2; mkE [98;46;103;111] false true 3 4].
Theorem fingerprint_collision :
  view [] coll_l1 <> view [] coll_l2 /\ fingerprint [] None coll_l1 = fingerprint [] None coll_l2.
Proof. split; [vm_compute; discriminate|vm_compute; reflexivity]. Qed.

(* ------------------------------------------------------------------ the digest *)
Section Hash.
  Variable digest : Type.
  Variable H : str -> digest.             (* base64 . SHA-256 *)
  Variable classes : list str.
  Variable self : option (str * str).

  Definition pkg_hash (l : list entry) : digest := H (fingerprint classes self l).
  Definition plain_listing (l : list entry) : Prop := names_plain (view classes l).
  (* H does not collide on the texts of these two listings *)
  Definition no_collision (l1 l2 : list entry) : Prop :=
    H (fingerprint classes self l1) = H (fingerprint classes self l2) ->
    fingerprint classes self l1 = fingerprint classes self l2.

  Theorem hash_changes_iff l1 l2 : plain_listing l1 -> plain_listing l2 -> no_collision l1 l2 ->
    (pkg_hash l1 <> pkg_hash l2 <-> view classes l1 <> view classes l2).
  Proof.
    intros P1 P2 NC. unfold pkg_hash. split.
    - intros Hne E. apply Hne. f_equal. apply fingerprint_irrelevant_invariant. exact E.
    - intros Vne E. apply Vne. apply fingerprint_injective with (self := self); auto.
  Qed.

  (* over a whole history: every two consecutive states *)
  Inductive consec {A} (R : A -> A -> Prop) : list A -> Prop :=
  | consec_nil : consec R []
  | consec_one a : consec R [a]
  | consec_cons a b t : R a b -> consec R (b :: t) -> consec R (a :: b :: t).

  Definition step_ok (d1 d2 : list entry) : Prop :=
    pkg_hash d1 <> pkg_hash d2 <-> view classes d1 <> view classes d2.

  Lemma run_head ops d : exists t, run ops d = d :: t.
  Proof. destruct ops; cbn [run]; eauto. Qed.

  Theorem hash_changes_iff_history : forall ops d,
    Forall plain_listing (run ops d) ->
    (forall d1 d2, In d1 (run ops d) -> In d2 (run ops d) -> no_collision d1 d2) ->
    consec step_ok (run ops d).
  Proof.
    induction ops as [|o ops IH]; intros d P NC; cbn [run] in *; [constructor|].
    destruct (run_head ops (apply_op o d)) as [t E]. rewrite E in *.
    constructor.
    - inversion P as [|? ? P1 P']; inversion P' as [|? ? P2 _]; subst.
      apply hash_changes_iff; auto. apply NC; [left; reflexivity|right; left; reflexivity].
    - rewrite <- E. apply IH; rewrite E.
      + inversion P; assumption.
      + intros d1 d2 I1 I2. apply NC; right; assumption.
  Qed.

  (* and any two states of the history, not only neighbours *)
  Theorem hash_equal_iff_history ops d d1 d2 :
    Forall plain_listing (run ops d) ->
    (forall a b, In a (run ops d) -> In b (run ops d) -> no_collision a b) ->
    In d1 (run ops d) -> In d2 (run ops d) ->
    (pkg_hash d1 = pkg_hash d2 <-> view classes d1 = view classes d2).
  Proof.
    intros P NC I1 I2. rewrite Forall_forall in P. split.
    - intros E. apply fingerprint_injective with (self := self); [apply P; assumption|apply P; assumption|].
      apply NC; assumption.
    - intros E. unfold pkg_hash. f_equal. apply fingerprint_irrelevant_invariant. exact E.
  Qed.
End Hash.

(* ------------------------------------------------------------------ operations that touch only irrelevant entries *)
Definition irrelevant_name (classes : list str) (n : str) : Prop :=
  us_prefix n || negb (can_cl classes n) = true.

Lemma irrelevant_name_entry classes e : irrelevant_name classes (e_name e) -> relevant classes e = false.
Proof.
  unfold irrelevant_name, relevant. intros H. destruct (e_dir e); [reflexivity|].
  destruct (us_prefix (e_name e)); [reflexivity|]. cbn [orb negb andb] in *.
  destruct (can_cl classes (e_name e)); [discriminate|reflexivity].
Qed.

Definition old_irrelevant (classes : list str) (n : str) (d : list entry) : Prop :=
  forall x, In x d -> e_name x = n -> relevant classes x = false.

Lemma view_cons classes x t : view classes (x :: t) =
  if relevant classes x then (e_name x, e_size x, e_mtime x) :: view classes t else view classes t.
Proof. unfold view. cbn [filter]. destruct (relevant classes x); reflexivity. Qed.

Lemma view_put classes e : relevant classes e = false -> forall d, old_irrelevant classes (e_name e) d ->
  view classes (put e d) = view classes d.
Proof.
  intros He. induction d as [|x t IH]; intros Old.
  - cbn [put]. rewrite view_cons, He. reflexivity.
  - cbn [put]. destruct (str_eqb (e_name e) (e_name x)) eqn:E.
    + apply str_eqb_eq in E. rewrite !view_cons, He, (Old x) by (auto; left; reflexivity). reflexivity.
    + destruct (str_ltb (e_name e) (e_name x)).
      * rewrite view_cons, He. reflexivity.
      * rewrite !view_cons, IH; [reflexivity|]. intros y I. apply Old. right. exact I.
Qed.

Lemma view_del classes n : forall d, old_irrelevant classes n d -> view classes (del n d) = view classes d.
Proof.
  induction d as [|x t IH]; intros Old; [reflexivity|].
  cbn [del]. destruct (str_eqb n (e_name x)) eqn:E.
  - apply str_eqb_eq in E. rewrite view_cons, (Old x) by (auto; left; reflexivity). reflexivity.
  - rewrite !view_cons, IH; [reflexivity|]. intros y I. apply Old. right. exact I.
Qed.

Lemma irrelevant_old classes n d : irrelevant_name classes n -> old_irrelevant classes n d.
Proof. intros H x _ E. apply irrelevant_name_entry. rewrite E. exact H. Qed.

Lemma find_name n : forall d x, find n d = Some x -> e_name x = n /\ In x d.
Proof.
  induction d as [|y t IH]; intros x H; cbn [find] in H; [discriminate|].
  destruct (str_eqb n (e_name y)) eqn:E.
  - injection H as <-. apply str_eqb_eq in E. split; [auto|left; reflexivity].
  - destruct (IH _ H). split; [assumption|right; assumption].
Qed.

Definition op_names (o : op) : list str :=
  match o with OPut e => [e_name e] | ODel n => [n] | ORename a b => [a; b] end.

(* creating, editing, touching, renaming or deleting files whose names are underscore-prefixed or not
   compilable never changes the view, hence never the hash *)
Theorem op_irrelevant_invariant classes o d :
  Forall (irrelevant_name classes) (op_names o) -> view classes (apply_op o d) = view classes d.
Proof.
  intros F. destruct o as [e|n|a b]; cbn [apply_op op_names] in *.
  - inversion F as [|? ? H _]; subst. apply view_put; [apply irrelevant_name_entry; assumption|apply irrelevant_old; assumption].
  - inversion F as [|? ? H _]; subst. apply view_del, irrelevant_old. assumption.
  - inversion F as [|? ? Ha F']; subst. inversion F' as [|? ? Hb _]; subst.
    destruct (find a d) as [x|] eqn:Fa; [|reflexivity].
    rewrite view_put; [apply view_del, irrelevant_old; assumption| |apply irrelevant_old; assumption].
    apply irrelevant_name_entry. exact Hb.
Qed.

(* mkdir (any name not yet used by a relevant file) is invisible as well *)
Theorem mkdir_invariant classes e d : e_dir e = true -> old_irrelevant classes (e_name e) d ->
  view classes (apply_op (OPut e) d) = view classes d.
Proof. intros H Old. apply view_put; [unfold relevant; rewrite H; reflexivity|assumption]. Qed.

(* ------------------------------------------------------------------ list view = set of relevant files (sorted listings) *)
Lemma str_ltb_irrefl : forall a, str_ltb a a = false.
Proof. induction a as [|x a IH]; [reflexivity|]. cbn [str_ltb]. rewrite N.ltb_irrefl. exact IH. Qed.

Lemma str_ltb_trans : forall a b c, str_ltb a b = true -> str_ltb b c = true -> str_ltb a c = true.
Proof.
  induction a as [|x a IH]; intros [|y b] [|z c] H1 H2; cbn [str_ltb] in *; try discriminate; try reflexivity.
  destruct (N.ltb_spec x y), (N.ltb_spec y x), (N.ltb_spec y z), (N.ltb_spec z y), (N.ltb_spec x z), (N.ltb_spec z x);
    try discriminate; try reflexivity; try lia.
  eapply IH; eassumption.
Qed.

Lemma str_ltb_tri : forall a b, str_ltb a b = false -> str_ltb b a = false -> a = b.
Proof.
  induction a as [|x a IH]; intros [|y b] H1 H2; cbn [str_ltb] in *; try discriminate; try reflexivity.
  destruct (N.ltb_spec x y), (N.ltb_spec y x); try discriminate; try lia.
  assert (x = y) by lia. subst. f_equal. apply IH; assumption.
Qed.

Definition name_lt (x y : entry) : Prop := str_ltb (e_name x) (e_name y) = true.
Definition listing_sorted (d : list entry) : Prop := StronglySorted name_lt d.   (* os.ReadDir: sorted by name, names unique *)

Definition key_lt (x y : str * Z * Z) : Prop := str_ltb (fst (fst x)) (fst (fst y)) = true.

Lemma view_sorted classes d : listing_sorted d -> StronglySorted key_lt (view classes d).
Proof.
  induction 1 as [|x t S IH F]; [constructor|].
  rewrite view_cons. destruct (relevant classes x); [|exact IH].
  constructor; [exact IH|]. unfold view. rewrite Forall_forall in *. intros y I.
  apply in_map_iff in I as (e & <- & I). apply filter_In in I as [I _]. apply F in I. exact I.
Qed.

Lemma sorted_set_ext : forall v1 v2, StronglySorted key_lt v1 -> StronglySorted key_lt v2 ->
  (forall x, In x v1 <-> In x v2) -> v1 = v2.
Proof.
  assert (Irr : forall x, ~ key_lt x x) by (intros x H; unfold key_lt in H; rewrite str_ltb_irrefl in H; discriminate).
  assert (Asym : forall x y, key_lt x y -> key_lt y x -> False).
  { intros x y H1 H2. apply (Irr x). unfold key_lt in *. eapply str_ltb_trans; eassumption. }
  induction v1 as [|x1 t1 IH]; intros v2 S1 S2 E.
  - destruct v2 as [|x2 t2]; [reflexivity|]. exfalso. apply (E x2). left. reflexivity.
  - destruct v2 as [|x2 t2]; [exfalso; apply (E x1); left; reflexivity|].
    apply StronglySorted_inv in S1 as [S1 F1]. apply StronglySorted_inv in S2 as [S2 F2].
    rewrite Forall_forall in F1, F2.
    assert (x1 = x2).
    { destruct (proj1 (E x1) (or_introl eq_refl)) as [->|I1]; [reflexivity|].
      destruct (proj2 (E x2) (or_introl eq_refl)) as [->|I2]; [reflexivity|].
      exfalso. eapply Asym; [apply F2; exact I1|apply F1; exact I2]. }
    subst x2. f_equal. apply IH; auto. intros y. split; intros I.
    + destruct (proj1 (E y) (or_intror I)) as [<-|I']; [|exact I']. exfalso. apply (Irr x1). apply F1. exact I.
    + destruct (proj2 (E y) (or_intror I)) as [<-|I']; [|exact I']. exfalso. apply (Irr x1). apply F2. exact I.
Qed.

(* for name-sorted listings "the view changed" is "the SET {(name,size,mtime)} of relevant files changed" *)
Theorem view_eq_iff_same_set classes l1 l2 : listing_sorted l1 -> listing_sorted l2 ->
  (view classes l1 = view classes l2 <-> forall x, In x (view classes l1) <-> In x (view classes l2)).
Proof.
  intros S1 S2. split; [intros ->; reflexivity|].
  apply sorted_set_ext; apply view_sorted; assumption.
Qed.

(* the directory operations keep the listing sorted with unique names *)
Lemma put_sorted e : forall d, listing_sorted d -> listing_sorted (put e d).
Proof.
  induction d as [|x t IH]; intros S; cbn [put]; [repeat constructor|].
  apply StronglySorted_inv in S as [S F].
  destruct (str_eqb (e_name e) (e_name x)) eqn:E.
  - apply str_eqb_eq in E. constructor; [assumption|]. unfold name_lt in *. rewrite E. exact F.
  - destruct (str_ltb (e_name e) (e_name x)) eqn:L.
    + constructor; [constructor; assumption|]. constructor; [exact L|].
      rewrite Forall_forall in *. intros y I. unfold name_lt in *. eapply str_ltb_trans; [exact L|apply F; exact I].
    + constructor; [apply IH; assumption|].
      assert (G : name_lt x e).
      { unfold name_lt. destruct (str_ltb (e_name x) (e_name e)) eqn:L2; [reflexivity|].
        rewrite (str_ltb_tri _ _ L L2), (proj2 (str_eqb_eq _ _) eq_refl) in E. discriminate. }
      clear IH S. induction t as [|y t IHt]; cbn [put].
      * constructor; [exact G|constructor].
      * inversion F as [|? ? Fy Ft]; subst.
        destruct (str_eqb (e_name e) (e_name y)); [constructor; [exact G|exact Ft]|].
        destruct (str_ltb (e_name e) (e_name y)); [constructor; [exact G|exact F]|].
        constructor; [exact Fy|apply IHt; exact Ft].
Qed.

Lemma del_sorted n : forall d, listing_sorted d -> listing_sorted (del n d).
Proof.
  induction d as [|x t IH]; intros S; cbn [del]; [constructor|].
  apply StronglySorted_inv in S as [S F].
  destruct (str_eqb n (e_name x)); [assumption|].
  constructor; [apply IH; assumption|].
  clear IH S. induction t as [|y t IHt]; cbn [del]; [constructor|].
  inversion F as [|? ? Fy Ft]; subst. destruct (str_eqb n (e_name y)); [exact Ft|constructor; [exact Fy|apply IHt; exact Ft]].
Qed.

Lemma apply_op_sorted o d : listing_sorted d -> listing_sorted (apply_op o d).
Proof.
  intros S. destruct o as [e|n|a b]; cbn [apply_op].
  - apply put_sorted; assumption.
  - apply del_sorted; assumption.
  - destruct (find a d); [apply put_sorted, del_sorted; assumption|assumption].
Qed.

Theorem run_sorted : forall ops d, listing_sorted d -> Forall listing_sorted (run ops d).
Proof.
  induction ops as [|o ops IH]; intros d S; cbn [run]; constructor; auto.
  apply IH, apply_op_sorted; assumption.
Qed.

(* TAB-freeness is preserved along a history whose operations introduce only TAB-free names *)
Definition dir_plain (d : list entry) : Prop := Forall (fun x => name_plain (e_name x)) d.
Definition op_plain (o : op) : Prop :=
  match o with OPut e => name_plain (e_name e) | ODel _ => True | ORename _ b => name_plain b end.

Lemma put_plain e : forall d, name_plain (e_name e) -> dir_plain d -> dir_plain (put e d).
Proof.
  induction d as [|x t IH]; intros He P; cbn [put]; [repeat constructor; assumption|].
  inversion P; subst. destruct (str_eqb (e_name e) (e_name x)); [constructor; assumption|].
  destruct (str_ltb (e_name e) (e_name x)); [constructor; assumption|]. constructor; [assumption|apply IH; assumption].
Qed.
Lemma del_plain n : forall d, dir_plain d -> dir_plain (del n d).
Proof.
  induction d as [|x t IH]; intros P; cbn [del]; [constructor|]. inversion P; subst.
  destruct (str_eqb n (e_name x)); [assumption|constructor; [assumption|apply IH; assumption]].
Qed.
Lemma dir_plain_view classes d : dir_plain d -> names_plain (view classes d).
Proof.
  unfold dir_plain, names_plain, view. rewrite !Forall_forall. intros P y I.
  apply in_map_iff in I as (e & <- & I). apply filter_In in I as [I _]. cbn [fst]. apply P. exact I.
Qed.
Theorem run_plain classes : forall ops d, dir_plain d -> Forall op_plain ops ->
  Forall (fun s => names_plain (view classes s)) (run ops d).
Proof.
  induction ops as [|o ops IH]; intros d P F; cbn [run]; constructor; try (apply dir_plain_view; assumption).
  - constructor.
  - inversion F as [|? ? Ho F']; subst. apply IH; [|assumption].
    destruct o as [e|n|a b]; cbn [apply_op op_plain] in *.
    + apply put_plain; assumption.
    + apply del_plain; assumption.
    + destruct (find a d); [|assumption]. apply put_plain; [exact Ho|apply del_plain; assumption].
Qed.

(* ------------------------------------------------------------------ "compilable" made explicit *)
(* in canCl's default branch modfile.ClassExt is just path.Ext (its "_suffix.gox" rule only fires for .gox,
   which canCl has already accepted), so a file is compilable iff its extension is one of the four source
   extensions or is registered as a class extension of the module *)
Lemma class_ext_not_gox n : path_ext n <> ext_gox -> class_ext n = path_ext n.
Proof.
  intros H. unfold class_ext. destruct (str_eqb (path_ext n) ext_gox) eqn:E; [|reflexivity].
  apply str_eqb_eq in E. contradiction.
Qed.

Theorem can_cl_spec classes n : can_cl classes n = true <->
  (path_ext n = ext_go \/ path_ext n = ext_xgo \/ path_ext n = ext_gop \/ path_ext n = ext_gox)
  \/ In (path_ext n) classes.
Proof.
  unfold can_cl. cbv zeta.
  destruct (str_eqb (path_ext n) ext_go) eqn:E1; [apply str_eqb_eq in E1; cbn [orb]; intuition|].
  destruct (str_eqb (path_ext n) ext_xgo) eqn:E2; [apply str_eqb_eq in E2; cbn [orb]; intuition|].
  destruct (str_eqb (path_ext n) ext_gop) eqn:E3; [apply str_eqb_eq in E3; cbn [orb]; intuition|].
  destruct (str_eqb (path_ext n) ext_gox) eqn:E4; [apply str_eqb_eq in E4; cbn [orb]; intuition|].
  cbn [orb].
  assert (N1 : path_ext n <> ext_go) by (intros E; rewrite E in E1; discriminate).
  assert (N2 : path_ext n <> ext_xgo) by (intros E; rewrite E in E2; discriminate).
  assert (N3 : path_ext n <> ext_gop) by (intros E; rewrite E in E3; discriminate).
  assert (N4 : path_ext n <> ext_gox) by (intros E; rewrite E in E4; discriminate).
  rewrite class_ext_not_gox by assumption. rewrite existsb_exists. split.
  - intros (x & I & E). apply str_eqb_eq in E. subst x. right. exact I.
  - intros [[E|[E|[E|E]]]|I]; try contradiction. exists (path_ext n). split; [exact I|apply str_eqb_eq; reflexivity].
Qed.

(* the relevant entries, declaratively *)
Theorem relevant_spec classes e : relevant classes e = true <->
  e_dir e = false /\ us_prefix (e_name e) = false /\ can_cl classes (e_name e) = true /\ e_info_ok e = true.
Proof.
  unfold relevant. destruct (e_dir e), (us_prefix (e_name e)), (can_cl classes (e_name e)), (e_info_ok e); cbn; intuition congruence.
Qed.
