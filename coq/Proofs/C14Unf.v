From Coq Require Import List NArith ZArith Bool Lia.
Import ListNotations.
From V Require Import Base.Prelude Gen.Tokens Model.C14.
Local Open Scope Z_scope.

(* tokens on which the XGo parser goes on where Go's parser stops *)
Definition cont_tok (t : token) : bool :=
  is xgo_NOT t || is xgo_QUESTION t || is xgo_DRARROW t || is xgo_SRARROW t || is xgo_BIDIARROW t.
Definition follow_ok (rest : list token) : Prop :=
  match rest with t :: _ => cont_tok t = false | [] => True end.

Lemma cont_tok_cases t : cont_tok t = true ->
  tcode t = xgo_NOT \/ tcode t = xgo_QUESTION \/ tcode t = xgo_DRARROW \/ tcode t = xgo_SRARROW \/ tcode t = xgo_BIDIARROW.
Proof. unfold cont_tok, is. intros H. repeat (apply orb_prop in H as [H|H]); apply Z.eqb_eq in H; auto 10. Qed.

Lemma cont_tok_false t : cont_tok t = false ->
  is xgo_NOT t = false /\ is xgo_QUESTION t = false /\ is xgo_DRARROW t = false /\ is xgo_SRARROW t = false /\ is xgo_BIDIARROW t = false.
Proof. unfold cont_tok. intros H. repeat (apply orb_false_elim in H as [H ?]). auto. Qed.

(* a dialect that extends Go: XGo's precedence table, XGo extensions on, command calls on or off *)
Definition xdialect (xd : dialect) : Prop := d_xgo xd = true /\ d_prec xd = xgo_Precedence.

Definition cmd_of (st : state) : bool :=
  match st with
  | SExpr _ c | SBinary _ _ _ c | SUnary _ _ c | SPrimLoop _ _ c => c
  | SArgs c _ => c
  | _ => false
  end.
Definition prec_ok (st : state) : Prop :=
  match st with SBinary p _ _ _ | SBinLoop _ p _ => 1 <= p | _ => True end.
Definition st_ok (xd : dialect) (st : state) : Prop :=
  prec_ok st /\ (d_cmd xd = false \/ cmd_of st = false) /\ (match st with SArgs c _ => c = false | _ => True end).

(* one-step unfolding equations (never cbn/simpl on P with concrete fuel) *)
Lemma unf_SExpr d f i c ts : P d (S f) (SExpr i c) ts =
  match ts with
  | t :: _ =>
      if d_xgo d && is xgo_DRARROW t then PUnsup
      else
        match P d f (SBinary 1 i true c) ts with
        | POk (RExpr x) (t2 :: r2) =>
            if d_xgo d && is xgo_DRARROW t2 then
              match r2 with
              | t3 :: _ =>
                  if is xgo_LPAREN t3 || is xgo_LBRACE t3 then PUnsup
                  else
                    let '(x0, paren) := strip_parens x in
                    if is_ident x0 then
                      match P d f (SExpr i false) r2 with
                      | POk (RExpr b) r3 => POk (RExpr (ELambda paren b)) r3
                      | o => o
                      end
                    else match P d f (SExpr i false) r2 with PUnsup => PUnsup | PFuel => PFuel | _ => PErr end
              | [] => PErr
              end
            else POk (RExpr x) (t2 :: r2)
        | o => o
        end
  | [] => P d f (SBinary 1 i true c) ts
  end.
Proof. reflexivity. Qed.

Lemma unf_SBinary d f p i tu c ts : P d (S f) (SBinary p i tu c) ts =
  match P d f (SUnary i tu c) ts with
  | POk (RExpr x) r => P d f (SBinLoop x p i) r
  | o => o
  end.
Proof. reflexivity. Qed.

Lemma unf_SBinLoop d f x p i ts : P d (S f) (SBinLoop x p i) ts =
  match ts with
  | [] => POk (RExpr x) []
  | t :: r =>
      let op := if i && is xgo_ASSIGN t then xgo_EQL else tcode t in
      match d_prec d op with
      | Ok oprec =>
          if Z.ltb oprec p then POk (RExpr x) ts
          else if negb (Z.eqb (tcode t) op) then PErr
          else
            match P d f (SBinary (oprec + 1) i false false) r with
            | POk (RExpr y) r2 => P d f (SBinLoop (EBinary op x y) p i) r2
            | o => o
            end
      | _ => PErr
      end
  end.
Proof. reflexivity. Qed.

Lemma unf_SUnary d f i tu c ts : P d (S f) (SUnary i tu c) ts =
  match ts with
  | [] => PErr
  | t :: r =>
      if code_in unary_ops t || is xgo_MUL t then
        match P d f (SUnary i false false) r with
        | POk (RExpr x) r2 => POk (RExpr (EUnary (tcode t) x)) r2
        | o => o
        end
      else if is xgo_IDENT t then P d f (SPrimLoop EIdent i c) r
      else if is xgo_INT t then P d f (SPrimLoop ELit i c) r
      else if is xgo_LPAREN t then
        match r with
        | [] => PErr
        | t1 :: _ =>
            if d_xgo d && tu && is xgo_RPAREN t1 then PUnsup
            else
              match P d f (SExpr true false) r with
              | POk (RExpr x) (t2 :: r2) =>
                  if d_xgo d && tu && (is xgo_COMMA t2 || is xgo_ELLIPSIS t2) then PUnsup
                  else if is xgo_RPAREN t2 then P d f (SPrimLoop (EParen x) i c) r2
                  else PErr
              | POk _ _ => PErr
              | o => o
              end
        end
      else if code_in unsup_operand t then PUnsup
      else PErr
  end.
Proof. reflexivity. Qed.

Lemma unf_SPrimLoop d f x i c ts : P d (S f) (SPrimLoop x i c) ts =
  match ts with
  | [] => POk (RExpr x) []
  | t :: r =>
      let isc := d_cmd d && c && is_cmd_head x && tblank t in
      let cmdcall :=
        match P d f (SArgs true []) ts with
        | POk (RArgs l ell) r2 => P d f (SPrimLoop (ECmd x l ell) i c) r2
        | o => o
        end in
      if is xgo_PERIOD t then
        match r with
        | t2 :: r2 =>
            if is xgo_IDENT t2 then P d f (SPrimLoop (ESel x) i c) r2
            else if is xgo_LPAREN t2 then PUnsup
            else PErr
        | [] => PErr
        end
      else if is xgo_LBRACK t then
        if isc then PUnsup
        else
          match r with
          | t1 :: _ =>
              if is xgo_COLON t1 then PUnsup
              else
                match P d f (SExpr true false) r with
                | POk (RExpr i0) (t2 :: r2) =>
                    if is xgo_RBRACK t2 then P d f (SPrimLoop (EIndex x i0) i c) r2
                    else if is xgo_COMMA t2 || is xgo_COLON t2 then PUnsup
                    else PErr
                | POk _ _ => PErr
                | o => o
                end
          | [] => PErr
          end
      else if is xgo_LPAREN t then
        if isc then cmdcall
        else
          match P d f (SArgs false []) r with
          | POk (RArgs l ell) r2 => P d f (SPrimLoop (ECall x l ell) i c) r2
          | o => o
          end
      else if is xgo_LBRACE t then PUnsup
      else if d_xgo d && is xgo_NOT t then
        if isc then cmdcall else P d f (SPrimLoop (EErrWrap x xgo_NOT) i c) r
      else if d_xgo d && is xgo_QUESTION t then P d f (SPrimLoop (EErrWrap x xgo_QUESTION) i c) r
      else if isc && check_cmd t r then cmdcall
      else POk (RExpr x) ts
  end.
Proof. reflexivity. Qed.

Lemma unf_SArgs d f c acc ts : P d (S f) (SArgs c acc) ts =
  match ts with
  | [] => PErr
  | t :: r =>
      if negb c && is xgo_RPAREN t then POk (RArgs (rev acc) false) r
      else
        match P d f (SExpr true false) ts with
        | POk (RExpr e) r1 =>
            let '(ell, r2) := match r1 with
                              | t1 :: r1' => if is xgo_ELLIPSIS t1 then (true, r1') else (false, r1)
                              | [] => (false, r1)
                              end in
            match r2 with
            | [] => if c then POk (RArgs (rev (e :: acc)) ell) [] else PErr
            | t2 :: r3 =>
                if is xgo_COMMA t2 then
                  if ell then
                    if c then POk (RArgs (rev (e :: acc)) true) r3
                    else match r3 with
                         | t3 :: r4 => if is xgo_RPAREN t3 then POk (RArgs (rev (e :: acc)) true) r4 else PErr
                         | [] => PErr
                         end
                  else P d f (SArgs c (e :: acc)) r3
                else if negb c && is xgo_RPAREN t2 then POk (RArgs (rev (e :: acc)) ell) r3
                else PErr
            end
        | POk _ _ => PErr
        | o => o
        end
  end.
Proof. reflexivity. Qed.

Lemma unf_SExprList d f i acc ts : P d (S f) (SExprList i acc) ts =
  match P d f (SExpr i false) ts with
  | POk (RExpr e) (t :: r) =>
      if is xgo_COMMA t then P d f (SExprList i (e :: acc)) r else POk (RList (rev (e :: acc))) (t :: r)
  | POk (RExpr e) [] => POk (RList (rev (e :: acc))) []
  | POk _ _ => PErr
  | o => o
  end.
Proof. reflexivity. Qed.

Lemma unf_SLhsMore d f acc ts : P d (S f) (SLhsMore acc) ts =
  match ts with
  | t :: r =>
      if is xgo_COMMA t then
        match P d f (SBinary 1 false false false) r with
        | POk (RExpr e) r2 => P d f (SLhsMore (e :: acc)) r2
        | POk _ _ => PErr
        | o => o
        end
      else POk (RList (rev acc)) ts
  | [] => POk (RList (rev acc)) []
  end.
Proof. reflexivity. Qed.
