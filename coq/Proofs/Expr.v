(* The print/parse round trip of Model/Expr.v.
   Scheme (validated on the TPL grammar): one statement per grammar level, the left-recursive
   loops (postfix chain, binary operators of one precedence-climbing loop) in continuation
   form; derivation lemmas between levels; strong induction on the size of the tree. *)
From Coq Require Import List ZArith Bool Lia Arith.
Import ListNotations.
From V Require Import Base.Prelude Gen.Tokens Model.Expr Proofs.ExprFuel.
Open Scope Z_scope.

(* evaluate comparisons of token constants *)
Ltac eqbs :=
  repeat match goal with
  | |- context[Z.eqb ?a ?b] =>
      let v := eval vm_compute in (Z.eqb a b) in
      match v with
      | true => change (Z.eqb a b) with true
      | false => change (Z.eqb a b) with false
      end
  end.
Ltac ev := cbn [P step hd_is tl app is_unop unsup_operand kw_as_ident]; eqbs; cbn [andb orb negb].
Ltac zl := unfold UnaryPrec, HighestPrec, LowestPrec in *; lia.

(* ------------------------------------------------------------------ printed forms *)
Lemma pr_bin op x y : pr (EBin op x y) = at_ (prec op) x ++ TOp op :: at_ (prec op + 1) y. Proof. reflexivity. Qed.
Lemma pr_un op x : pr (EUn op x) = TOp op :: at_ UnaryPrec x. Proof. reflexivity. Qed.
Lemma pr_star x : pr (EStar x) = TOp xgo_MUL :: at_ UnaryPrec x. Proof. reflexivity. Qed.
Lemma pr_sel x s : pr (ESel x s) = at_ HighestPrec x ++ [TOp xgo_PERIOD; TId s]. Proof. reflexivity. Qed.
Lemma pr_idx x i : pr (EIdx x i) = at_ HighestPrec x ++ TOp xgo_LBRACK :: pr i ++ [TOp xgo_RBRACK]. Proof. reflexivity. Qed.
Lemma pr_call f args ell : pr (ECall f args ell) =
  at_ HighestPrec f ++ LP :: prl args ++ (if ell then [TOp xgo_ELLIPSIS; RP] else [RP]). Proof. reflexivity. Qed.
Lemma pr_ew t x : pr (EEw t x) = at_ HighestPrec x ++ [TOp t]. Proof. reflexivity. Qed.
Lemma pr_ewd t x d : pr (EEwd t x d) = at_ HighestPrec x ++ TOp t :: TOp xgo_COLON :: at_ UnaryPrec d. Proof. reflexivity. Qed.
Lemma pr_par x : pr (EPar x) = match x with EPar _ => pr x | _ => LP :: pr x ++ [RP] end. Proof. destruct x; reflexivity. Qed.

Lemma norm_bin op x y : norm (EBin op x y) = EBin op (nat_ (prec op) x) (nat_ (prec op + 1) y). Proof. reflexivity. Qed.
Lemma norm_un op x : norm (EUn op x) = EUn op (nat_ UnaryPrec x). Proof. reflexivity. Qed.
Lemma norm_star x : norm (EStar x) = EStar (nat_ UnaryPrec x). Proof. reflexivity. Qed.
Lemma norm_ew t x : norm (EEw t x) = EEw t (nat_ HighestPrec x). Proof. reflexivity. Qed.
Lemma norm_ewd t x d : norm (EEwd t x d) = EEwd t (nat_ HighestPrec x) (nat_ UnaryPrec d). Proof. reflexivity. Qed.
Lemma norm_sel x s : norm (ESel x s) = ESel (nat_ HighestPrec x) s. Proof. reflexivity. Qed.
Lemma norm_idx x i : norm (EIdx x i) = EIdx (nat_ HighestPrec x) (norm i). Proof. reflexivity. Qed.
Lemma norm_call f args ell : norm (ECall f args ell) = ECall (nat_ HighestPrec f) (map norm args) ell. Proof. reflexivity. Qed.
Lemma norm_par x : norm (EPar x) = match x with EPar _ => norm x | _ => EPar (norm x) end. Proof. destruct x; reflexivity. Qed.

Lemma at_lt p e : (plev e <? p) = true -> at_ p e = LP :: pr e ++ [RP] /\ nat_ p e = EPar (norm e).
Proof. unfold at_, nat_. intros ->. auto. Qed.
Lemma at_ge p e : (plev e <? p) = false -> at_ p e = pr e /\ nat_ p e = norm e.
Proof. unfold at_, nat_. intros ->. auto. Qed.

(* ------------------------------------------------------------------ sizes, side conditions *)
Fixpoint sz (e : expr) : nat :=
  match e with
  | EId _ | ELit _ _ => 1
  | EUn _ x | EStar x | EPar x | ESel x _ | EEw _ x => S (sz x)
  | EBin _ x y | EIdx x y | EEwd _ x y => S (sz x + sz y)
  | ECall f args _ => S (sz f + fold_right (fun a n => sz a + n) 0 args)%nat
  | ELam _ _ rhs _ => S (fold_right (fun a n => sz a + n) 0 rhs)%nat
  end.
Definition szl (l : list expr) : nat := fold_right (fun a n => sz a + n)%nat 0%nat l.
Lemma In_szl x l : In x l -> (sz x <= szl l)%nat.
Proof.
  induction l as [|a l IH]; cbn [In]; [tauto|]. change (szl (a :: l)) with (sz a + szl l)%nat.
  intros [->|H]; [lia|]. apply IH in H. lia.
Qed.

(* wf e: well-formed, lambda-free, every operand position readable *)
Definition wf (e : expr) : Prop := validb e = true /\ posokb e = true.

Lemma un_ok_cases op : un_ok op = true ->
  op = xgo_ADD \/ op = xgo_SUB \/ op = xgo_NOT \/ op = xgo_XOR \/ op = xgo_AND \/ op = xgo_ARROW.
Proof.
  unfold un_ok, is_unop. rewrite !orb_true_iff, !Z.eqb_eq. tauto.
Qed.
Lemma ew_ok_cases t : ew_ok t = true -> t = xgo_NOT \/ t = xgo_QUESTION.
Proof. unfold ew_ok. rewrite orb_true_iff, !Z.eqb_eq. tauto. Qed.

Lemma binop_prec op : is_binop op = true -> 1 <= prec op <= 5.
Proof.
  intros H. apply binop_facts in H. unfold binop_ok in H.
  repeat (apply andb_prop in H as [H ?]). unfold UnaryPrec in *. lia.
Qed.

Lemma plev_pos e : validb e = true -> (match e with ELam _ _ _ _ => false | _ => true end) = true -> 1 <= plev e.
Proof.
  destruct e; cbn [plev validb]; intros H L; try zl; try discriminate.
  apply andb_prop in H as [H _]. apply andb_prop in H as [H _]. apply binop_prec in H. lia.
Qed.
Lemma tlev_le e : validb e = true -> tlev e <= 8.
Proof.
  destruct e; cbn [tlev validb]; intros H; try zl.
  apply andb_prop in H as [H _]. apply andb_prop in H as [H _]. apply binop_prec in H. lia.
Qed.
(* for lambda-free trees the printer's level is the parser's level, except for "x ?: d" *)
Lemma tlev_eq_plev e : tlev e = plev e.
Proof. destruct e; reflexivity. Qed.
Lemma tlev_plev e : validb e = true -> 6 <= tlev e -> 6 <= plev e.
Proof. intros _. rewrite tlev_eq_plev. auto. Qed.
Lemma tlev8_plev e : validb e = true -> 8 <= tlev e -> plev e = 8.
Proof.
  destruct e; cbn [tlev plev validb]; intros H ?; try zl.
  apply andb_prop in H as [H _]. apply andb_prop in H as [H _]. apply binop_prec in H. lia.
Qed.

(* ------------------------------------------------------------------ what may follow *)
Definition stop7 (r : list tok) : bool :=     (* the token after a unary-level expression does not continue it *)
  match r with
  | TOp z :: _ => negb (Z.eqb z xgo_PERIOD || Z.eqb z xgo_LBRACK || Z.eqb z xgo_LPAREN || Z.eqb z xgo_LBRACE ||
                        Z.eqb z xgo_NOT || Z.eqb z xgo_QUESTION || Z.eqb z xgo_COLON)
  | _ => true
  end.
Definition hprec (r : list tok) : Z := match r with TOp z :: _ => prec (tok_op z) | _ => 0 end.
Definition stop0 (r : list tok) : bool := stop7 r && (hprec r <? 1) && negb (hd_is xgo_DRARROW r).
Definition startok (ts : list tok) : bool :=
  match ts with
  | TId _ :: _ | TLit _ _ :: _ => true
  | TOp z :: _ => negb (Z.eqb z xgo_RPAREN || Z.eqb z xgo_COLON || Z.eqb z xgo_LBRACE)
  | [] => false
  end.
Definition is_lam (e : expr) : bool := match e with ELam _ _ _ _ => true | _ => false end.
Definition primstart (ts : list tok) : bool :=
  match ts with TId _ :: _ | TLit _ _ :: _ => true | TOp z :: _ => Z.eqb z xgo_LPAREN | [] => false end.

Lemma pr_start e : validb e = true -> forall r, startok (pr e ++ r) = true.
Proof.
  induction e; cbn [validb]; intros V r;
    repeat match goal with H : _ && _ = true |- _ => apply andb_prop in H as [? ?] end.
  - reflexivity.
  - reflexivity.
  - rewrite pr_un. cbn [app startok].
    destruct (un_ok_cases op) as [ -> | [ -> | [ -> | [ -> | [ -> | -> ] ] ] ] ]; auto; reflexivity.
  - rewrite pr_star. reflexivity.
  - rewrite pr_bin, <- app_assoc. unfold at_ at 1. destruct (plev e1 <? prec op); [reflexivity|auto].
  - rewrite pr_par. destruct e; try reflexivity. auto.
  - rewrite pr_call, <- app_assoc. unfold at_ at 1. destruct (plev e <? HighestPrec); [reflexivity|auto].
  - rewrite pr_idx, <- app_assoc. unfold at_ at 1. destruct (plev e1 <? HighestPrec); [reflexivity|auto].
  - rewrite pr_sel, <- app_assoc. unfold at_ at 1. destruct (plev e <? HighestPrec); [reflexivity|auto].
  - rewrite pr_ew, <- app_assoc. unfold at_ at 1. destruct (plev e <? HighestPrec); [reflexivity|auto].
  - rewrite pr_ewd, <- app_assoc. unfold at_ at 1. destruct (plev e1 <? HighestPrec); [reflexivity|auto].
  - destruct lp; [reflexivity|]. destruct lhs; reflexivity.
Qed.

Ltac bsplit := repeat match goal with H : _ && _ = true |- _ => apply andb_prop in H as [? ?] end.

Lemma ok_at_inv p req x : ok_at p req x = true -> (plev x <? p) = true \/ ((plev x <? p) = false /\ req <= tlev x).
Proof. unfold ok_at. destruct (plev x <? p); cbn [orb]; intros H; [left; auto|right; split; auto; lia]. Qed.

Lemma prim_start e : validb e = true -> posokb e = true -> 8 <= tlev e ->
  forall r, primstart (pr e ++ r) = true.
Proof.
  induction e; cbn [validb posokb tlev]; intros V K T r; bsplit; try (exfalso; zl).
  - reflexivity.
  - reflexivity.
  - match goal with H : is_binop _ = true |- _ => apply binop_prec in H end. lia.
  - rewrite pr_par. destruct e; try reflexivity. apply IHe; auto; cbn [tlev]; lia.
  - rewrite pr_call, <- app_assoc. unfold at_ at 1. destruct (plev e <? HighestPrec) eqn:E; [reflexivity|].
    apply IHe; auto. match goal with H : ok_at _ _ _ = true |- _ => apply ok_at_inv in H as [H|[_ H]] end; [congruence|auto].
  - rewrite pr_idx, <- app_assoc. unfold at_ at 1. destruct (plev e1 <? HighestPrec) eqn:E; [reflexivity|].
    apply IHe1; auto. match goal with H : ok_at _ _ _ = true |- _ => apply ok_at_inv in H as [H|[_ H]] end; [congruence|auto].
  - rewrite pr_sel, <- app_assoc. unfold at_ at 1. destruct (plev e <? HighestPrec) eqn:E; [reflexivity|].
    apply IHe; auto. match goal with H : ok_at _ _ _ = true |- _ => apply ok_at_inv in H as [H|[_ H]] end; [congruence|auto].
  - rewrite pr_ew, <- app_assoc. unfold at_ at 1. destruct (plev e <? HighestPrec) eqn:E; [reflexivity|].
    apply IHe; auto. match goal with H : ok_at _ _ _ = true |- _ => apply ok_at_inv in H as [H|[_ H]] end; [congruence|auto].
Qed.

Lemma startok_heads ts : startok ts = true ->
  hd_is xgo_RPAREN ts = false /\ hd_is xgo_LBRACE ts = false /\ hd_is xgo_COLON ts = false /\ ts <> [].
Proof.
  destruct ts as [|[s|k s|z] ts]; cbn [startok hd_is]; intros H; try discriminate; repeat split; try discriminate.
  all: apply negb_true_iff in H; repeat (apply orb_false_iff in H as [H ?]); auto.
Qed.

(* a tree that is not itself a lambda does not start with "=>" *)
Lemma ok_not_lam p req x : ok_at p req x = true -> (plev x <? p) = false -> 1 <= req -> is_lam x = false.
Proof.
  intros H E R. apply ok_at_inv in H as [H|[_ H]]; [congruence|]. destruct x; try reflexivity. cbn [tlev] in H. lia.
Qed.

Lemma noarrow e : validb e = true -> posokb e = true -> is_lam e = false -> forall r, hd_is xgo_DRARROW (pr e ++ r) = false.
Proof.
  induction e; cbn [validb posokb is_lam]; intros V K L r; bsplit; try discriminate.
  - reflexivity.
  - reflexivity.
  - rewrite pr_un. cbn [app hd_is].
    destruct (un_ok_cases op) as [ -> | [ -> | [ -> | [ -> | [ -> | -> ] ] ] ] ]; auto; reflexivity.
  - rewrite pr_star. reflexivity.
  - match goal with B : is_binop _ = true |- _ => pose proof (binop_prec _ B) end.
    rewrite pr_bin, <- app_assoc. unfold at_ at 1. destruct (plev e1 <? prec op) eqn:E; [reflexivity|].
    apply IHe1; auto. eapply ok_not_lam; eauto. lia.
  - rewrite pr_par. destruct e; try reflexivity. apply IHe; auto.
  - rewrite pr_call, <- app_assoc. unfold at_ at 1. destruct (plev e <? HighestPrec) eqn:E; [reflexivity|].
    apply IHe; auto. eapply ok_not_lam; eauto. lia.
  - rewrite pr_idx, <- app_assoc. unfold at_ at 1. destruct (plev e1 <? HighestPrec) eqn:E; [reflexivity|].
    apply IHe1; auto. eapply ok_not_lam; eauto. lia.
  - rewrite pr_sel, <- app_assoc. unfold at_ at 1. destruct (plev e <? HighestPrec) eqn:E; [reflexivity|].
    apply IHe; auto. eapply ok_not_lam; eauto. lia.
  - rewrite pr_ew, <- app_assoc. unfold at_ at 1. destruct (plev e <? HighestPrec) eqn:E; [reflexivity|].
    apply IHe; auto. eapply ok_not_lam; eauto. lia.
  - rewrite pr_ewd, <- app_assoc. unfold at_ at 1. destruct (plev e1 <? HighestPrec) eqn:E; [reflexivity|].
    apply IHe1; auto. eapply ok_not_lam; eauto. lia.
Qed.

Lemma stop0_rp r : stop0 (RP :: r) = true.
Proof. unfold stop0, RP. cbn [stop7 hprec hd_is]. destruct delim_prec as (_&_&_&_&_&->&_). reflexivity. Qed.
Lemma stop0_rbrack r : stop0 (TOp xgo_RBRACK :: r) = true.
Proof. unfold stop0. cbn [stop7 hprec hd_is]. destruct delim_prec as (_&_&_&_&_&_&->&_). reflexivity. Qed.
Lemma stop0_comma r : stop0 (COMMA :: r) = true.
Proof. unfold stop0, COMMA. cbn [stop7 hprec hd_is]. destruct delim_prec as (_&_&_&_&_&_&_&->&_). reflexivity. Qed.
Lemma stop0_ellipsis r : stop0 (TOp xgo_ELLIPSIS :: r) = true.
Proof. unfold stop0. cbn [stop7 hprec hd_is]. destruct delim_prec as (_&_&_&_&_&_&_&_&->). reflexivity. Qed.

Lemma stop0_inv r : stop0 r = true -> stop7 r = true /\ hprec r < 1 /\ hd_is xgo_DRARROW r = false.
Proof. unfold stop0. intros H. bsplit. repeat split; auto; [lia|]. now apply negb_true_iff. Qed.

(* ------------------------------------------------------------------ one-step equations *)
Lemma primloop_stop f x r : stop7 r = true -> P (S f) (SPrimLoop x) r = ROk (PE x) r.
Proof.
  destruct r as [|[s|k s|z] r]; try reflexivity. cbn [stop7]. intros H.
  apply negb_true_iff in H. repeat (apply orb_false_iff in H as [H ?]).
  cbn [P step]. repeat match goal with E : Z.eqb _ _ = false |- _ => rewrite E; clear E end. reflexivity.
Qed.

Lemma binloop_stop f p1 x r : 1 <= p1 -> hprec r < p1 -> P (S f) (SBinLoop p1 x) r = ROk (PE x) r.
Proof.
  intros Hp H. destruct r as [|[s|k s|z] r]; cbn [P step hprec] in *.
  1-3: rewrite (proj2 (Z.ltb_lt 0 p1)) by lia; reflexivity.
  rewrite (proj2 (Z.ltb_lt _ p1)) by lia. reflexivity.
Qed.

Lemma binloop_op f p1 x op r : is_binop op = true -> p1 <= prec op ->
  P (S f) (SBinLoop p1 x) (TOp op :: r) =
  match P f (SBinary (prec op + 1) false) r with
  | ROk (PE y) r' => P f (SBinLoop p1 (EBin op x y)) r'
  | ROk (PT _ _) _ => RErr
  | y => y
  end.
Proof.
  intros B Hp. apply binop_facts in B. unfold binop_ok in B. bsplit.
  match goal with H : Z.eqb (tok_op op) op = true |- _ => apply Z.eqb_eq in H; rename H into T end.
  cbn [P step]. rewrite T, Z.eqb_refl. rewrite (proj2 (Z.ltb_ge _ _)) by lia. reflexivity.
Qed.

Lemma binop_follow op r : is_binop op = true -> stop7 (TOp op :: r) = true /\ hprec (TOp op :: r) = prec op.
Proof.
  intros B. apply binop_facts in B. unfold binop_ok in B. bsplit.
  match goal with H : Z.eqb (tok_op op) op = true |- _ => apply Z.eqb_eq in H; rename H into T end.
  cbn [stop7 hprec]. rewrite T. split; auto.
  match goal with H : negb _ = true |- _ => apply negb_true_iff in H; repeat (apply orb_false_iff in H as [H ?]) end.
  repeat match goal with E : Z.eqb _ _ = false |- _ => rewrite E; clear E end. reflexivity.
Qed.

Lemma unf_primary f atp ts : P (S f) (SPrimary atp) ts =
  match P f (SOperand atp) ts with ROk (PE x) r => P f (SPrimLoop x) r | y => y end.
Proof. reflexivity. Qed.
Lemma unf_binary f p1 atp ts : P (S f) (SBinary p1 atp) ts =
  match P f (SUnary atp) ts with ROk (PE x) r => P f (SBinLoop p1 x) r | y => y end.
Proof. reflexivity. Qed.

Lemma operand_paren f atp ts x r : startok ts = true -> P f SExpr ts = ROk (PE x) (RP :: r) ->
  P (S f) (SOperand atp) (LP :: ts) = ROk (PE (EPar x)) r.
Proof.
  intros Hs H. apply startok_heads in Hs as (H1 & _). unfold LP. ev. rewrite H1, andb_false_r, H.
  unfold RP. ev. rewrite andb_false_r. reflexivity.
Qed.

(* SUnary on a token that is not a prefix operator goes to the error-wrap level *)
Lemma unary_prim f atp ts : primstart ts = true -> P (S f) (SUnary atp) ts = P f (SErrWrap atp) ts.
Proof.
  destruct ts as [|[s|k s|z] ts]; cbn [primstart]; intros H; try discriminate; try reflexivity.
  apply Z.eqb_eq in H. subst z. ev. reflexivity.
Qed.

(* ------------------------------------------------------------------ the statements *)
Definition PG (e : expr) : Prop :=
  (plev e <? HighestPrec) = true \/ 8 <= tlev e ->
  forall atp r v r', (exists f, P f (SPrimLoop (nat_ HighestPrec e)) r = ROk v r') ->
  exists f, P f (SPrimary atp) (at_ HighestPrec e ++ r) = ROk v r'.
Definition UG (e : expr) : Prop :=
  (plev e <? UnaryPrec) = true \/ UnaryPrec <= tlev e ->
  forall atp r, stop7 r = true ->
  exists f, P f (SUnary atp) (at_ UnaryPrec e ++ r) = ROk (PE (nat_ UnaryPrec e)) r.
Definition lowfol (q : Z) (e : expr) (r : list tok) : Prop :=
  stop7 r = true /\ (q <= plev e < UnaryPrec -> hprec r <= plev e).
Definition BG (e : expr) : Prop :=
  forall p1 q atp r v r', 1 <= p1 <= q -> q <= UnaryPrec -> ok_at q q e = true -> lowfol q e r ->
  (exists f, P f (SBinLoop p1 (nat_ q e)) r = ROk v r') ->
  exists f, P f (SBinary p1 atp) (at_ q e ++ r) = ROk v r'.
Definition E0 (e : expr) : Prop :=
  forall r, stop0 r = true -> exists f, P f SExpr (pr e ++ r) = ROk (PE (norm e)) r.

(* ------------------------------------------------------------------ derivations between levels *)
Ltac red_match := cbv beta iota.

Lemma stop7_colon r : stop7 r = true -> hd_is xgo_COLON r = false.
Proof.
  destruct r as [|[s|k s|z] r]; try reflexivity. cbn [stop7 hd_is]. intros H.
  apply negb_true_iff in H. repeat (apply orb_false_iff in H as [H ?]). assumption.
Qed.

(* an expression in parentheses is a primary expression *)
Lemma paren_PG e : validb e = true -> E0 e ->
  forall atp r v r', (exists f, P f (SPrimLoop (EPar (norm e))) r = ROk v r') ->
  exists f, P f (SPrimary atp) (LP :: pr e ++ RP :: r) = ROk v r'.
Proof.
  intros V HE atp r v r' [f2 H2].
  destruct (HE (RP :: r) (stop0_rp r)) as [f1 H1].
  exists (S (S (f1 + f2))). rewrite unf_primary.
  up (f1 + f2)%nat H1. rewrite (operand_paren _ _ _ (norm e) r); [| apply pr_start; auto | exact H1].
  red_match. up (S (f1 + f2)) H2. exact H2.
Qed.

Lemma PG_paren e : validb e = true -> E0 e -> (plev e <? HighestPrec) = true -> PG e.
Proof.
  intros V HE Hlt _ atp r v r' H. destruct (at_lt _ _ Hlt) as [-> E]. rewrite E in H.
  cbn [app]. rewrite <- app_assoc. cbn [app]. eapply paren_PG; eauto.
Qed.

Lemma at67 e r : validb e = true -> posokb e = true ->
  (plev e <? UnaryPrec) = true \/ 8 <= tlev e ->
  at_ UnaryPrec e = at_ HighestPrec e /\ nat_ UnaryPrec e = nat_ HighestPrec e /\
  primstart (at_ HighestPrec e ++ r) = true /\ ((plev e <? HighestPrec) = true \/ 8 <= tlev e).
Proof.
  intros V K [H|H].
  - assert (H7 : (plev e <? HighestPrec) = true) by (apply Z.ltb_lt in H; apply Z.ltb_lt; zl).
    destruct (at_lt _ _ H) as [-> ->]. destruct (at_lt _ _ H7) as [-> ->]. repeat split; auto.
  - pose proof (tlev8_plev e V H) as E.
    assert (H6 : (plev e <? UnaryPrec) = false) by (apply Z.ltb_ge; zl).
    assert (H7 : (plev e <? HighestPrec) = false) by (apply Z.ltb_ge; zl).
    destruct (at_ge _ _ H6) as [-> ->]. destruct (at_ge _ _ H7) as [-> ->]. repeat split; auto.
    apply prim_start; auto.
Qed.

Lemma D_PU e : validb e = true -> posokb e = true -> PG e ->
  (plev e <? UnaryPrec) = true \/ 8 <= tlev e ->
  forall atp r, stop7 r = true ->
  exists f, P f (SUnary atp) (at_ UnaryPrec e ++ r) = ROk (PE (nat_ UnaryPrec e)) r.
Proof.
  intros V K HP A atp r Hs. destruct (at67 e r V K A) as (-> & -> & Hst & Hpre).
  destruct (HP Hpre atp r (PE (nat_ HighestPrec e)) r) as [f Hf].
  { exists 1%nat. now apply primloop_stop. }
  exists (S (S f)). rewrite unary_prim by exact Hst. cbn [P step]. rewrite Hf.
  destruct (nat_ HighestPrec e); try reflexivity. rewrite (stop7_colon _ Hs). reflexivity.
Qed.

Lemma D_UB e p1 q atp r v r' : UG e -> 1 <= p1 <= q -> q <= UnaryPrec ->
  (plev e <? q) = true \/ (UnaryPrec <= plev e /\ UnaryPrec <= tlev e) -> stop7 r = true ->
  (exists f, P f (SBinLoop p1 (nat_ q e)) r = ROk v r') ->
  exists f, P f (SBinary p1 atp) (at_ q e ++ r) = ROk v r'.
Proof.
  intros HU Hp Hq A Hs [f2 H2].
  assert (X : at_ q e = at_ UnaryPrec e /\ nat_ q e = nat_ UnaryPrec e /\
              ((plev e <? UnaryPrec) = true \/ UnaryPrec <= tlev e)).
  { destruct A as [A|[A1 A2]].
    - assert (H6 : (plev e <? UnaryPrec) = true) by (apply Z.ltb_lt in A; apply Z.ltb_lt; lia).
      destruct (at_lt _ _ A) as [-> ->]. destruct (at_lt _ _ H6) as [-> ->]. auto.
    - assert (Hq' : (plev e <? q) = false) by (apply Z.ltb_ge; lia).
      assert (H6 : (plev e <? UnaryPrec) = false) by (apply Z.ltb_ge; lia).
      destruct (at_ge _ _ Hq') as [-> ->]. destruct (at_ge _ _ H6) as [-> ->]. auto. }
  destruct X as (E1 & E2 & Hpre). rewrite E1. rewrite E2 in H2.
  destruct (HU Hpre atp r Hs) as [f1 H1].
  exists (S (f1 + f2)). rewrite unf_binary. up (f1 + f2)%nat H1. rewrite H1. red_match.
  up (f1 + f2)%nat H2. exact H2.
Qed.

Lemma D_BE e : validb e = true -> posokb e = true -> is_lam e = false ->
  (forall atp r v r', lowfol 1 e r -> (exists f, P f (SBinLoop 1 (norm e)) r = ROk v r') ->
                      exists f, P f (SBinary 1 atp) (pr e ++ r) = ROk v r') -> E0 e.
Proof.
  intros V K L H r Hs. apply stop0_inv in Hs as (H7 & Hp & Hd).
  destruct (H true r (PE (norm e)) r) as [f Hf].
  { split; auto. pose proof (plev_pos e V). lia. }
  { exists 1%nat. apply binloop_stop; lia. }
  exists (S f). cbn [P step]. rewrite (noarrow e V K L r).
  change (LowestPrec + 1) with 1. rewrite Hf, Hd. reflexivity.
Qed.

(* ------------------------------------------------------------------ native level of each constructor *)
Lemma at7_prim e : plev e = 8 -> at_ HighestPrec e = pr e /\ nat_ HighestPrec e = norm e.
Proof. intros H. apply at_ge. apply Z.ltb_ge. zl. Qed.

Lemma N_id s : PG (EId s).
Proof.
  intros _ atp r v r' [f H]. exists (S (S f)). change (at_ HighestPrec (EId s)) with [TId s].
  change (nat_ HighestPrec (EId s)) with (EId s) in H. cbn [app]. rewrite unf_primary.
  change (P (S f) (SOperand atp) (TId s :: r)) with (ROk (PE (EId s)) r). red_match. up (S f) H. exact H.
Qed.
Lemma N_lit k s : PG (ELit k s).
Proof.
  intros _ atp r v r' [f H]. exists (S (S f)). change (at_ HighestPrec (ELit k s)) with [TLit k s].
  change (nat_ HighestPrec (ELit k s)) with (ELit k s) in H. cbn [app]. rewrite unf_primary.
  change (P (S f) (SOperand atp) (TLit k s :: r)) with (ROk (PE (ELit k s)) r). red_match. up (S f) H. exact H.
Qed.

Lemma ok78 x : ok_at HighestPrec 8 x = true -> (plev x <? HighestPrec) = true \/ 8 <= tlev x.
Proof. intros H. apply ok_at_inv in H as [H|[_ H]]; auto. Qed.

Lemma N_sel x s : PG x -> ok_at HighestPrec 8 x = true -> PG (ESel x s).
Proof.
  intros HX K _ atp r v r' [f H].
  change (at_ HighestPrec (ESel x s)) with (pr (ESel x s)).
  change (nat_ HighestPrec (ESel x s)) with (ESel (nat_ HighestPrec x) s) in H.
  rewrite pr_sel, <- app_assoc. cbn [app]. apply (HX (ok78 _ K)).
  exists (S f). ev. exact H.
Qed.

Lemma N_idx x i : PG x -> ok_at HighestPrec 8 x = true -> validb i = true -> E0 i -> PG (EIdx x i).
Proof.
  intros HX K V HI _ atp r v r' [f H].
  change (at_ HighestPrec (EIdx x i)) with (pr (EIdx x i)).
  change (nat_ HighestPrec (EIdx x i)) with (EIdx (nat_ HighestPrec x) (norm i)) in H.
  rewrite pr_idx, <- app_assoc. cbn [app]. rewrite <- app_assoc. cbn [app]. apply (HX (ok78 _ K)).
  destruct (HI (TOp xgo_RBRACK :: r) (stop0_rbrack r)) as [f1 H1].
  exists (S (f + f1)). ev. destruct (startok_heads _ (pr_start i V (TOp xgo_RBRACK :: r))) as (_ & _ & -> & _).
  up (f + f1)%nat H1. rewrite H1. ev. up (f + f1)%nat H. exact H.
Qed.

Lemma N_ew t x : PG x -> ew_ok t = true -> ok_at HighestPrec 8 x = true -> PG (EEw t x).
Proof.
  intros HX T K _ atp r v r' [f H].
  change (at_ HighestPrec (EEw t x)) with (pr (EEw t x)).
  change (nat_ HighestPrec (EEw t x)) with (EEw t (nat_ HighestPrec x)) in H.
  rewrite pr_ew, <- app_assoc. cbn [app]. apply (HX (ok78 _ K)).
  exists (S f). destruct (ew_ok_cases t T) as [-> | ->]; ev; exact H.
Qed.

Lemma N_par x : validb x = true -> PG x -> E0 x -> PG (EPar x).
Proof.
  intros V HP HE _ atp r v r' Hc.
  change (at_ HighestPrec (EPar x)) with (pr (EPar x)).
  change (nat_ HighestPrec (EPar x)) with (norm (EPar x)) in Hc.
  rewrite pr_par. rewrite norm_par in Hc.
  destruct x; try (cbn [app]; rewrite <- app_assoc; cbn [app]; eapply paren_PG; eauto; fail).
  (* a doubled parenthesis prints and reads as the inner one *)
  apply (HP (or_intror (Z.le_refl 8)) atp r v r'). exact Hc.
Qed.

(* the argument loop of a call *)
Lemma prl_one a : prl [a] = pr a.
Proof. unfold prl. cbn [flat_map]. apply app_nil_r. Qed.
Lemma prl_cons2 a b t : prl (a :: b :: t) = pr a ++ COMMA :: prl (b :: t).
Proof. unfold prl. cbn [flat_map app]. reflexivity. Qed.

Lemma sargs_comma f fn acc ts a r1 : startok ts = true -> P f SExpr ts = ROk (PE a) (COMMA :: r1) ->
  P (S f) (SArgs fn acc) ts = P f (SArgs fn (acc ++ [a])) r1.
Proof.
  intros Hs H. destruct ts as [|[s|k s|z] ts]; cbn [startok] in Hs; try discriminate; cbn [P step]; rewrite ?H; unfold COMMA; ev; try reflexivity.
  apply negb_true_iff in Hs. repeat (apply orb_false_iff in Hs as [Hs ?]). rewrite Hs. ev. reflexivity.
Qed.
Lemma sargs_rp f fn acc ts a r1 : startok ts = true -> P f SExpr ts = ROk (PE a) (RP :: r1) ->
  P (S f) (SArgs fn acc) ts = P f (SPrimLoop (ECall fn (acc ++ [a]) false)) r1.
Proof.
  intros Hs H. destruct ts as [|[s|k s|z] ts]; cbn [startok] in Hs; try discriminate; cbn [P step]; rewrite ?H; unfold RP; ev; try reflexivity.
  apply negb_true_iff in Hs. repeat (apply orb_false_iff in Hs as [Hs ?]). rewrite Hs. ev. reflexivity.
Qed.
Lemma sargs_ell f fn acc ts a r2 : startok ts = true -> P f SExpr ts = ROk (PE a) (TOp xgo_ELLIPSIS :: RP :: r2) ->
  P (S f) (SArgs fn acc) ts = P f (SPrimLoop (ECall fn (acc ++ [a]) true)) r2.
Proof.
  intros Hs H. destruct ts as [|[s|k s|z] ts]; cbn [startok] in Hs; try discriminate; cbn [P step]; rewrite ?H; unfold RP; ev; try reflexivity.
  apply negb_true_iff in Hs. repeat (apply orb_false_iff in Hs as [Hs ?]). rewrite Hs. ev. reflexivity.
Qed.

Lemma args_loop fn ell : forall args acc r v r',
  (forall a, In a args -> validb a = true /\ E0 a) ->
  (ell = true -> args <> []) ->
  (exists f, P f (SPrimLoop (ECall fn (acc ++ map norm args) ell)) r = ROk v r') ->
  exists f, P f (SArgs fn acc) (prl args ++ (if ell then [TOp xgo_ELLIPSIS; RP] else [RP]) ++ r) = ROk v r'.
Proof.
  induction args as [|a t IH]; intros acc r v r' HA Hell [f H].
  - destruct ell; [exfalso; now apply Hell|]. cbn [map] in H. rewrite app_nil_r in H.
    exists (S f). unfold prl, RP. ev. exact H.
  - destruct (HA a (or_introl eq_refl)) as (Va & Ea).
    destruct t as [|b t'].
    + rewrite prl_one. cbn [map] in H.
      destruct ell; cbn [app].
      * destruct (Ea (TOp xgo_ELLIPSIS :: RP :: r) (stop0_ellipsis _)) as [f1 H1].
        exists (S (f + f1)). up (f + f1)%nat H1. rewrite (sargs_ell _ _ _ _ _ _ (pr_start a Va _) H1).
        up (f + f1)%nat H. exact H.
      * destruct (Ea (RP :: r) (stop0_rp _)) as [f1 H1].
        exists (S (f + f1)). up (f + f1)%nat H1. rewrite (sargs_rp _ _ _ _ _ _ (pr_start a Va _) H1).
        up (f + f1)%nat H. exact H.
    + rewrite prl_cons2, <- app_assoc. cbn [app].
      destruct (IH (acc ++ [norm a]) r v r') as [f2 H2].
      { intros x Hx. apply HA. now right. }
      { intros _. discriminate. }
      { exists f. rewrite <- app_assoc. exact H. }
      destruct (Ea (COMMA :: prl (b :: t') ++ (if ell then [TOp xgo_ELLIPSIS; RP] else [RP]) ++ r) (stop0_comma _)) as [f1 H1].
      exists (S (f1 + f2)). up (f1 + f2)%nat H1. rewrite (sargs_comma _ _ _ _ _ _ (pr_start a Va _) H1).
      up (f1 + f2)%nat H2. exact H2.
Qed.

Lemma N_call fn args ell : PG fn -> ok_at HighestPrec 8 fn = true ->
  (forall a, In a args -> validb a = true /\ E0 a) -> (ell = true -> args <> []) ->
  PG (ECall fn args ell).
Proof.
  intros HF K HA Hell _ atp r v r' [f H].
  change (at_ HighestPrec (ECall fn args ell)) with (pr (ECall fn args ell)).
  change (nat_ HighestPrec (ECall fn args ell)) with (ECall (nat_ HighestPrec fn) (map norm args) ell) in H.
  rewrite pr_call, <- app_assoc. cbn [app]. rewrite <- app_assoc. apply (HF (ok78 _ K)).
  destruct (args_loop (nat_ HighestPrec fn) ell args [] r v r' HA Hell) as [f1 H1].
  { exists f. exact H. }
  exists (S f1). unfold LP. ev. exact H1.
Qed.

Lemma ok66 x : ok_at UnaryPrec UnaryPrec x = true -> (plev x <? UnaryPrec) = true \/ UnaryPrec <= tlev x.
Proof. intros H. apply ok_at_inv in H as [H|[_ H]]; auto. Qed.

Lemma N_un op x : UG x -> un_ok op = true -> ok_at UnaryPrec UnaryPrec x = true ->
  forall atp r, stop7 r = true ->
  exists f, P f (SUnary atp) (pr (EUn op x) ++ r) = ROk (PE (norm (EUn op x))) r.
Proof.
  intros HX O K atp r Hs. destruct (HX (ok66 _ K) false r Hs) as [f Hf].
  exists (S f). rewrite pr_un, norm_un. cbn [app].
  destruct (un_ok_cases op O) as [ -> | [ -> | [ -> | [ -> | [ -> | -> ] ] ] ] ]; ev; rewrite Hf; reflexivity.
Qed.

Lemma N_star x : UG x -> ok_at UnaryPrec UnaryPrec x = true ->
  forall atp r, stop7 r = true ->
  exists f, P f (SUnary atp) (pr (EStar x) ++ r) = ROk (PE (norm (EStar x))) r.
Proof.
  intros HX K atp r Hs. destruct (HX (ok66 _ K) false r Hs) as [f Hf].
  exists (S f). rewrite pr_star, norm_star. cbn [app]. ev. rewrite Hf. reflexivity.
Qed.

Lemma N_ewd t x d : PG x -> UG d -> ew_ok t = true ->
  validb x = true -> posokb x = true ->
  ok_at HighestPrec 8 x = true -> ok_at UnaryPrec UnaryPrec d = true ->
  forall atp r, stop7 r = true ->
  exists f, P f (SUnary atp) (pr (EEwd t x d) ++ r) = ROk (PE (norm (EEwd t x d))) r.
Proof.
  intros HX HD T Vx Kx K8 K6 atp r Hs.
  destruct (HD (ok66 _ K6) false r Hs) as [f1 H1].
  destruct (HX (ok78 _ K8) atp (TOp t :: TOp xgo_COLON :: at_ UnaryPrec d ++ r) (PE (EEw t (nat_ HighestPrec x)))
               (TOp xgo_COLON :: at_ UnaryPrec d ++ r)) as [f2 H2].
  { exists 2%nat. destruct (ew_ok_cases t T) as [-> | ->]; reflexivity. }
  exists (S (S (f1 + f2))). rewrite pr_ewd, norm_ewd, <- app_assoc. cbn [app].
  assert (Hst : primstart (at_ HighestPrec x ++ TOp t :: TOp xgo_COLON :: at_ UnaryPrec d ++ r) = true).
  { apply ok_at_inv in K8 as [K8|[K8 T8]].
    - destruct (at_lt _ _ K8) as [-> _]. reflexivity.
    - destruct (at_ge _ _ K8) as [-> _]. apply prim_start; auto. }
  rewrite unary_prim by exact Hst.
  cbn [P step]. up (f1 + f2)%nat H2. rewrite H2. cbn [hd_is tl]. eqbs.
  up (f1 + f2)%nat H1. rewrite H1. reflexivity.
Qed.

Lemma N_bin op x y : is_binop op = true -> BG x -> BG y ->
  ok_at (prec op) (prec op) x = true -> ok_at (prec op + 1) (prec op + 1) y = true ->
  forall p1 q atp r v r', 1 <= p1 <= q -> q <= prec op -> lowfol q (EBin op x y) r ->
  (exists f, P f (SBinLoop p1 (norm (EBin op x y))) r = ROk v r') ->
  exists f, P f (SBinary p1 atp) (pr (EBin op x y) ++ r) = ROk v r'.
Proof.
  intros B HX HY Kx Ky p1 q atp r v r' Hp Hq [Hs Hf] [f2 H2].
  pose proof (binop_prec op B) as Hk. cbn [plev] in Hf.
  assert (Hr : hprec r <= prec op) by (apply Hf; zl).
  rewrite pr_bin, <- app_assoc. cbn [app].
  apply (HX p1 (prec op) atp _ v r'); [lia | zl | exact Kx | |].
  { destruct (binop_follow op (at_ (prec op + 1) y ++ r) B) as [S7 HP]. split; auto. rewrite HP. lia. }
  destruct (HY (prec op + 1) (prec op + 1) false r (PE (nat_ (prec op + 1) y)) r) as [f1 H1]; [lia | zl | exact Ky | | |].
  { split; auto. intros. lia. }
  { exists 1%nat. apply binloop_stop; lia. }
  exists (S (f1 + f2)). rewrite binloop_op by (auto; lia).
  up (f1 + f2)%nat H1. rewrite H1. red_match. rewrite norm_bin in H2. up (f1 + f2)%nat H2. exact H2.
Qed.


(* ------------------------------------------------------------------ lambda expressions *)
Lemma pr_lam lhs lp rhs rp : pr (ELam lhs lp rhs rp) =
  (if lp then LP :: match lhs with [] => [] | a :: t => TId a :: flat_map (fun s => [COMMA; TId s]) t end ++ [RP]
   else match lhs with [] => [] | a :: _ => [TId a] end) ++
  TOp xgo_DRARROW :: (if rp then LP :: prl rhs ++ [RP] else match rhs with a :: _ => pr a | [] => [] end).
Proof. reflexivity. Qed.

Lemma nolp e : validb e = true -> starts_lp e = false -> forall r, hd_is xgo_LPAREN (pr e ++ r) = false.
Proof.
  induction e; cbn [validb starts_lp]; intros V S r; bsplit; try discriminate.
  - reflexivity.
  - reflexivity.
  - rewrite pr_un. cbn [app hd_is].
    destruct (un_ok_cases op) as [ -> | [ -> | [ -> | [ -> | [ -> | -> ] ] ] ] ]; auto; reflexivity.
  - rewrite pr_star. reflexivity.
  - apply orb_false_iff in S as [S1 S2]. rewrite pr_bin, <- app_assoc. unfold at_ at 1. rewrite S1. auto.
  - apply orb_false_iff in S as [S1 S2]. rewrite pr_call, <- app_assoc. unfold at_ at 1. rewrite S1. auto.
  - apply orb_false_iff in S as [S1 S2]. rewrite pr_idx, <- app_assoc. unfold at_ at 1. rewrite S1. auto.
  - apply orb_false_iff in S as [S1 S2]. rewrite pr_sel, <- app_assoc. unfold at_ at 1. rewrite S1. auto.
  - apply orb_false_iff in S as [S1 S2]. rewrite pr_ew, <- app_assoc. unfold at_ at 1. rewrite S1. auto.
  - apply orb_false_iff in S as [S1 S2]. rewrite pr_ewd, <- app_assoc. unfold at_ at 1. rewrite S1. auto.
  - subst lp. rewrite pr_lam. destruct lhs; reflexivity.
Qed.

(* the "( e, e, ... )" result list *)
Lemma lamrhs_loop : forall rhs acc r, rhs <> [] ->
  (forall a, In a rhs -> validb a = true /\ E0 a) ->
  exists f, P f (SLamRhs acc) (prl rhs ++ RP :: r) = ROk (PT (acc ++ map norm rhs) false) r.
Proof.
  induction rhs as [|a t IH]; intros acc r Hne HA; [congruence|].
  destruct (HA a (or_introl eq_refl)) as (Va & Ea).
  destruct t as [|b t'].
  - rewrite prl_one. destruct (Ea (RP :: r) (stop0_rp _)) as [f1 H1].
    exists (S f1). cbn [P step]. rewrite H1. unfold RP. ev. reflexivity.
  - rewrite prl_cons2, <- app_assoc. cbn [app].
    destruct (IH (acc ++ [norm a]) r) as [f2 H2]; [discriminate|intros x Hx; apply HA; now right|].
    destruct (Ea (COMMA :: prl (b :: t') ++ RP :: r) (stop0_comma _)) as [f1 H1].
    exists (S (f1 + f2)). cbn [P step]. up (f1 + f2)%nat H1. rewrite H1. unfold COMMA. ev.
    up (f1 + f2)%nat H2. rewrite H2. rewrite <- app_assoc. reflexivity.
Qed.

Definition rhs_toks (rhs : list expr) (rp : bool) : list tok :=
  if rp then LP :: prl rhs ++ [RP] else match rhs with a :: _ => pr a | [] => [] end.

(* from "=>" on *)
Lemma lam_tail x lhs lp rhs rp r : lam_lhs x = Some (lhs, lp) ->
  rhs <> [] -> (rp = false -> length rhs = 1%nat) ->
  (forall a, In a rhs -> validb a = true /\ E0 a) ->
  (rp = false -> match rhs with a :: _ => starts_lp a = false | [] => True end) ->
  stop0 r = true ->
  exists f, P f (SLam x) (TOp xgo_DRARROW :: rhs_toks rhs rp ++ r) = ROk (PE (ELam lhs lp (map norm rhs) rp)) r.
Proof.
  intros HL Hne Hlen HA Hs Hr. unfold rhs_toks. destruct rp.
  - destruct (lamrhs_loop rhs [] r Hne HA) as [f Hf]. exists (S f).
    cbn [app]. rewrite <- app_assoc. cbn [app]. cbn [P step]. unfold LP. cbn [hd_is tl]. eqbs. rewrite Hf, HL. reflexivity.
  - specialize (Hlen eq_refl). destruct rhs as [|a [|b t]]; cbn [length] in Hlen; try discriminate. clear Hlen.
    destruct (HA a (or_introl eq_refl)) as (Va & Ea). specialize (Hs eq_refl).
    destruct (Ea r Hr) as [f Hf]. exists (S f). cbn [P step].
    destruct (startok_heads _ (pr_start a Va r)) as (_ & -> & _). rewrite (nolp a Va Hs r), Hf, HL. reflexivity.
Qed.

Lemma idents_map l : idents (map EId l) = Some l.
Proof. induction l as [|a l IH]; cbn [map idents]; [reflexivity|]. now rewrite IH. Qed.

(* the identifiers of "(x, y, ...)" after the first *)
Lemma tuple_loop : forall t acc r, (forall s, E0 (EId s)) ->
  exists f, P f (STuple acc) (flat_map (fun s => [COMMA; TId s]) t ++ RP :: r) = ROk (PT (acc ++ map EId t) false) r.
Proof.
  induction t as [|s t IH]; intros acc r HI.
  - exists 1%nat. cbn [flat_map app map]. rewrite app_nil_r. unfold RP. ev. reflexivity.
  - cbn [flat_map app]. destruct (IH (acc ++ [EId s]) r HI) as [f2 H2].
    assert (St : stop0 (flat_map (fun s => [COMMA; TId s]) t ++ RP :: r) = true).
    { destruct t; cbn [flat_map app]; [apply stop0_rp|apply stop0_comma]. }
    destruct (HI s _ St) as [f1 H1]. change (pr (EId s)) with [TId s] in H1. cbn [app] in H1. change (norm (EId s)) with (EId s) in H1.
    exists (S (f1 + f2)). up (f1 + f2)%nat H1. up (f1 + f2)%nat H2. unfold COMMA in *. ev. rewrite H1, H2.
    cbn [map]. rewrite <- app_assoc. reflexivity.
Qed.

(* a tuple travels up from parseOperand to parseBinaryExpr unchanged *)
Lemma tuple_up f p1 ts items ell r : P f (SOperand true) (LP :: ts) = ROk (PT items ell) r ->
  P (S (S (S (S f)))) (SBinary p1 true) (LP :: ts) = ROk (PT items ell) r.
Proof.
  intros H. rewrite unf_binary, unary_prim by reflexivity. cbn [P step]. rewrite H. reflexivity.
Qed.

(* ------------------------------------------------------------------ all levels, by size *)
Definition All (e : expr) : Prop := PG e /\ UG e /\ BG e /\ E0 e.

(* a primary expression: from its native level to all levels *)
Lemma from_PG e : validb e = true -> posokb e = true -> plev e = 8 -> 8 <= tlev e -> PG e -> All e.
Proof.
  intros V K P8 T8 HP.
  assert (L : is_lam e = false) by (destruct e; try reflexivity; cbn [tlev] in T8; lia).
  assert (HU : UG e). { intros _. apply D_PU; auto. }
  assert (HB : BG e).
  { intros p1 q atp r v r' Hp Hq _ [Hs _] Hc. eapply D_UB; eauto; right; zl. }
  assert (HE : E0 e).
  { apply D_BE; auto. intros atp r v r' Hl Hc.
    destruct (at_ge 1 e) as [Ea En]; [apply Z.ltb_ge; lia|]. rewrite <- Ea. rewrite <- En in Hc.
    apply (HB 1 1); auto; try lia; try zl. unfold ok_at. apply orb_true_iff. right. apply Z.leb_le. lia. }
  repeat split; auto.
Qed.

(* a unary-level expression (prefix operator, star, "x ?: d") *)
Lemma from_UG e : validb e = true -> posokb e = true ->
  UnaryPrec <= plev e -> UnaryPrec <= tlev e < 8 ->
  (forall atp r, stop7 r = true -> exists f, P f (SUnary atp) (pr e ++ r) = ROk (PE (norm e)) r) -> All e.
Proof.
  intros V K P6 T6 HN.
  assert (L : is_lam e = false) by (destruct e; try reflexivity; cbn [tlev] in T6; zl).
  destruct (at_ge UnaryPrec e) as [Ea6 En6]; [apply Z.ltb_ge; lia|].
  assert (HU : UG e). { intros _ atp r Hs. rewrite Ea6, En6. auto. }
  assert (HB : BG e).
  { intros p1 q atp r v r' Hp Hq _ [Hs _] Hc. eapply D_UB; eauto; right; lia. }
  assert (HE : E0 e).
  { apply D_BE; auto. intros atp r v r' Hl Hc.
    destruct (at_ge 1 e) as [Ea En]; [apply Z.ltb_ge; zl|]. rewrite <- Ea. rewrite <- En in Hc.
    apply (HB 1 1); auto; try lia; try zl. unfold ok_at. apply orb_true_iff. right. apply Z.leb_le. zl. }
  assert (HP : PG e).
  { intros [Hlt|Hge]; [|lia]. apply PG_paren; auto. }
  repeat split; auto.
Qed.

(* a binary expression *)
Lemma from_BG op x y : let e := EBin op x y in
  validb e = true -> posokb e = true -> is_binop op = true ->
  (forall p1 q atp r v r', 1 <= p1 <= q -> q <= prec op -> lowfol q e r ->
     (exists f, P f (SBinLoop p1 (norm e)) r = ROk v r') ->
     exists f, P f (SBinary p1 atp) (pr e ++ r) = ROk v r') -> All e.
Proof.
  intros e V K B HN. pose proof (binop_prec op B) as Hk.
  assert (L : is_lam e = false) by reflexivity.
  assert (PL : plev e = prec op) by reflexivity.
  assert (HE : E0 e).
  { apply D_BE; auto. intros atp r v r' Hl Hc. apply (HN 1 1); auto; lia. }
  assert (HP : PG e). { apply PG_paren; auto. apply Z.ltb_lt. zl. }
  assert (HU : UG e).
  { intros _. apply D_PU; auto. left. apply Z.ltb_lt. zl. }
  assert (HB : BG e).
  { intros p1 q atp r v r' Hp Hq Hok Hl Hc.
    destruct (Z_le_gt_dec q (prec op)) as [Hle|Hgt].
    - destruct (at_ge q e) as [Ea En]; [apply Z.ltb_ge; lia|]. rewrite Ea. rewrite En in Hc. apply (HN p1 q); auto.
    - destruct Hl as [Hs _]. eapply D_UB; eauto. left. apply Z.ltb_lt. lia. }
  repeat split; auto.
Qed.

Lemma forallb_In {A} (f : A -> bool) l x : forallb f l = true -> In x l -> f x = true.
Proof. intros H. rewrite forallb_forall in H. auto. Qed.

Lemma All_id s : All (EId s).
Proof. apply from_PG; try reflexivity; try (cbn [tlev]; lia). apply N_id. Qed.
Lemma All_par_id s : All (EPar (EId s)).
Proof.
  destruct (All_id s) as (HP & _ & _ & HE).
  apply from_PG; try reflexivity; try (cbn [tlev]; lia). apply N_par; auto.
Qed.

Lemma sexpr_lam f ts v r' : hd_is xgo_DRARROW ts = false -> P f (SBinary 1 true) ts = ROk v r' ->
  hd_is xgo_DRARROW r' = true -> P (S f) SExpr ts = P f (SLam (Some v)) r'.
Proof. intros H1 H2 H3. cbn [P step]. change (LowestPrec + 1) with 1. rewrite H1, H2, H3. reflexivity. Qed.

Lemma arrow_follow rest : stop7 (TOp xgo_DRARROW :: rest) = true /\ hprec (TOp xgo_DRARROW :: rest) < 1.
Proof. split; [reflexivity|]. cbn [hprec]. rewrite arrow_prec. lia. Qed.

(* a lambda expression, from its result expressions *)
Lemma N_lam lhs lp rhs rp : validb (ELam lhs lp rhs rp) = true -> posokb (ELam lhs lp rhs rp) = true ->
  (forall a, In a rhs -> validb a = true /\ E0 a) -> E0 (ELam lhs lp rhs rp).
Proof.
  intros V K HA r Hr. cbn [validb posokb] in V, K. bsplit.
  assert (Hne : rhs <> []) by (destruct rhs; [discriminate|discriminate]).
  assert (Hlen : rp = false -> length rhs = 1%nat).
  { intros ->. match goal with H : false || _ = true |- _ => cbn [orb] in H; now apply Nat.eqb_eq in H end. }
  assert (Hs : rp = false -> match rhs with a :: _ => starts_lp a = false | [] => True end).
  { intros ->. match goal with H : false || negb _ = true |- _ => cbn [orb] in H; apply negb_true_iff in H end.
    destruct rhs; auto. }
  change (norm (ELam lhs lp rhs rp)) with (ELam lhs lp (map norm rhs) rp).
  rewrite pr_lam, <- app_assoc. cbn [app]. fold (rhs_toks rhs rp).
  set (rest := rhs_toks rhs rp ++ r).
  destruct (arrow_follow rest) as [A7 Ap].
  destruct lp.
  - destruct lhs as [|s1 [|s2 t]].
    + (* () => ... *)
      destruct (lam_tail (Some (PT [] false)) [] true rhs rp r eq_refl Hne Hlen HA Hs Hr) as [f Hqf]. fold rest in Hqf.
      exists (S (5 + f)). cbn [app].
      rewrite (sexpr_lam _ _ (PT [] false) (TOp xgo_DRARROW :: rest)); [|reflexivity| |reflexivity].
      * up (5 + f)%nat Hqf. exact Hqf.
      * apply (P_mono_le 5); [lia|]. apply (tuple_up 1 1). reflexivity.
    + (* (x) => ... *)
      destruct (lam_tail (Some (PE (EPar (EId s1)))) [s1] true rhs rp r eq_refl Hne Hlen HA Hs Hr) as [f Hqf]. fold rest in Hqf.
      destruct (All_par_id s1) as (_ & _ & HB & _).
      destruct (HB 1 1 true (TOp xgo_DRARROW :: rest) (PE (EPar (EId s1))) (TOp xgo_DRARROW :: rest)) as [f1 Hq1];
        [lia|zl|reflexivity|split; [exact A7|intros; cbn [plev] in *; zl]| |].
      { exists 1%nat. apply binloop_stop; [lia|exact Ap]. }
      change (at_ 1 (EPar (EId s1)) ++ TOp xgo_DRARROW :: rest) with (LP :: TId s1 :: RP :: TOp xgo_DRARROW :: rest) in Hq1.
      exists (S (f + f1)). cbn [app].
      rewrite (sexpr_lam _ _ (PE (EPar (EId s1))) (TOp xgo_DRARROW :: rest)); [|reflexivity| |reflexivity].
      * up (f + f1)%nat Hqf. exact Hqf.
      * up (f + f1)%nat Hq1. exact Hq1.
    + (* (x, y, ...) => ... *)
      destruct (lam_tail (Some (PT (map EId (s1 :: s2 :: t)) false)) (s1 :: s2 :: t) true rhs rp r) as [f Hqf]; auto.
      { cbn [lam_lhs]. now rewrite idents_map. }
      fold rest in Hqf.
      destruct (tuple_loop (s2 :: t) [EId s1] (TOp xgo_DRARROW :: rest) (fun s => proj2 (proj2 (proj2 (All_id s))))) as [f2 Hq2].
      destruct (All_id s1) as (_ & _ & _ & HE1).
      destruct (HE1 (flat_map (fun s => [COMMA; TId s]) (s2 :: t) ++ RP :: TOp xgo_DRARROW :: rest)) as [f1 Hq1].
      { cbn [flat_map app]. apply stop0_comma. }
      change (pr (EId s1)) with [TId s1] in Hq1. change (norm (EId s1)) with (EId s1) in Hq1. cbn [app] in Hq1.
      assert (HO : P (S (f1 + f2)) (SOperand true) (LP :: TId s1 :: flat_map (fun s => [COMMA; TId s]) (s2 :: t) ++ RP :: TOp xgo_DRARROW :: rest)
                   = ROk (PT (map EId (s1 :: s2 :: t)) false) (TOp xgo_DRARROW :: rest)).
      { up (f1 + f2)%nat Hq1. up (f1 + f2)%nat Hq2. unfold LP. cbn [P step hd_is]. eqbs. cbn [andb]. rewrite Hq1.
        cbn [flat_map app hd_is]. unfold COMMA at 1. eqbs. cbn [orb andb].
        exact Hq2. }
      apply (tuple_up _ 1) in HO.
      exists (S (f + (4 + S (f1 + f2)))). cbn [app]. rewrite <- app_assoc. cbn [app].
      rewrite (sexpr_lam _ _ (PT (map EId (s1 :: s2 :: t)) false) (TOp xgo_DRARROW :: rest)); [|reflexivity| |reflexivity].
      * up (f + (4 + S (f1 + f2)))%nat Hqf. exact Hqf.
      * eapply P_mono_le; [|exact HO]. lia.
  - destruct lhs as [|s [|s' t]].
    + (* => ... *)
      destruct (lam_tail None [] false rhs rp r eq_refl Hne Hlen HA Hs Hr) as [f Hqf]. fold rest in Hqf.
      exists (S f). cbn [app P step hd_is]. eqbs. exact Hqf.
    + (* x => ... *)
      destruct (lam_tail (Some (PE (EId s))) [s] false rhs rp r eq_refl Hne Hlen HA Hs Hr) as [f Hqf]. fold rest in Hqf.
      destruct (All_id s) as (_ & _ & HB & _).
      destruct (HB 1 1 true (TOp xgo_DRARROW :: rest) (PE (EId s)) (TOp xgo_DRARROW :: rest)) as [f1 Hq1];
        [lia|zl|reflexivity|split; [exact A7|intros; cbn [plev] in *; zl]| |].
      { exists 1%nat. apply binloop_stop; [lia|exact Ap]. }
      change (at_ 1 (EId s) ++ TOp xgo_DRARROW :: rest) with (TId s :: TOp xgo_DRARROW :: rest) in Hq1.
      exists (S (f + f1)). cbn [app].
      rewrite (sexpr_lam _ _ (PE (EId s)) (TOp xgo_DRARROW :: rest)); [|reflexivity| |reflexivity].
      * up (f + f1)%nat Hqf. exact Hqf.
      * up (f + f1)%nat Hq1. exact Hq1.
    + exfalso. match goal with H : false || _ = true |- _ => cbn [orb length] in H; discriminate H end.
Qed.

Theorem all_levels : forall n e, (sz e <= n)%nat -> validb e = true -> posokb e = true -> All e.
Proof.
  induction n as [|n IH]; intros e Hs V K. { destruct e; cbn [sz] in Hs; lia. }
  destruct e; cbn [sz] in Hs; pose proof V as V0; pose proof K as K0;
    cbn [validb posokb] in V, K; bsplit.
  - (* EId *) apply All_id.
  - (* ELit *) apply from_PG; auto; try reflexivity; try (cbn [tlev]; lia). apply N_lit.
  - (* EUn *) destruct (IH e) as (_ & HU & _); auto; try lia.
    apply from_UG; auto; try (cbn [plev tlev]; zl). intros. now apply N_un.
  - (* EStar *) destruct (IH e) as (_ & HU & _); auto; try lia.
    apply from_UG; auto; try (cbn [plev tlev]; zl). intros. now apply N_star.
  - (* EBin *) destruct (IH e1) as (_ & _ & HB1 & _); auto; try lia.
    destruct (IH e2) as (_ & _ & HB2 & _); auto; try lia.
    apply from_BG; auto. intros. eapply N_bin; eauto.
  - (* EPar *) destruct (IH e) as (HPe & _ & _ & HEe); auto; try lia.
    apply from_PG; auto; try reflexivity; try (cbn [tlev]; lia).
    now apply N_par.
  - (* ECall *) destruct (IH e) as (HPf & _); auto; try lia.
    apply from_PG; auto; try reflexivity; try (cbn [tlev]; lia).
    apply N_call; auto.
    + intros a Ha. pose proof (In_szl a args Ha). unfold szl in *.
      assert (Va : validb a = true) by (eapply forallb_In; eauto).
      assert (Ka : posokb a = true) by (eapply forallb_In; eauto).
      destruct (IH a) as (_ & _ & _ & HEa); auto; lia.
    + intros ->. match goal with H : negb true || negb (is_nil args) = true |- _ => destruct args; [discriminate H|discriminate] end.
  - (* EIdx *) destruct (IH e1) as (HP1 & _); auto; try lia.
    destruct (IH e2) as (_ & _ & _ & HE2); auto; try lia.
    apply from_PG; auto; try reflexivity; try (cbn [tlev]; lia). now apply N_idx.
  - (* ESel *) destruct (IH e) as (HP1 & _); auto; try lia.
    apply from_PG; auto; try reflexivity; try (cbn [tlev]; lia). now apply N_sel.
  - (* EEw *) destruct (IH e) as (HP1 & _); auto; try lia.
    apply from_PG; auto; try reflexivity; try (cbn [tlev]; lia). now apply N_ew.
  - (* EEwd *) destruct (IH e1) as (HP1 & _); auto; try lia.
    destruct (IH e2) as (_ & HU2 & _); auto; try lia.
    apply from_UG; auto; try (cbn [plev tlev]; zl). intros. now apply N_ewd.
  - (* ELam: read at the expression level; as an operand the printer now parenthesises it (plev = LowestPrec) *)
    assert (HE : E0 (ELam lhs lp rhs rp)).
    { apply N_lam; auto. intros a Ha. pose proof (In_szl a rhs Ha). unfold szl in *.
      assert (Va : validb a = true) by (eapply forallb_In; eauto).
      assert (Ka : posokb a = true) by (eapply forallb_In; eauto).
      destruct (IH a) as (_ & _ & _ & HEa); auto; lia. }
    assert (HP : PG (ELam lhs lp rhs rp)) by (apply PG_paren; auto).
    assert (HU : UG (ELam lhs lp rhs rp)).
    { intros _. apply D_PU; auto. }
    assert (HB : BG (ELam lhs lp rhs rp)).
    { intros p1 q atp r v r' Hp Hq _ [Hs7 _] Hc. eapply D_UB; eauto. left. apply Z.ltb_lt. cbn [plev]. zl. }
    repeat split; auto.
Qed.

(* ------------------------------------------------------------------ the round trip *)
Theorem roundtrip_exists e : validb e = true -> posokb e = true ->
  exists f, P f SExpr (pr e) = ROk (PE (norm e)) [].
Proof.
  intros V K. destruct (all_levels (sz e) e (le_n _) V K) as (_ & _ & _ & HE).
  destruct (HE [] eq_refl) as [f Hf]. rewrite app_nil_r in Hf. eauto.
Qed.

(* ------------------------------------------------------------------ norm, strip, printing again *)
Lemma norm_head : forall n e, (sz e <= n)%nat -> plev (norm e) = plev e /\ is_par (norm e) = is_par e.
Proof.
  induction n as [|n IH]; intros e Hs. { destruct e; cbn [sz] in Hs; lia. }
  destruct e; try (split; reflexivity).
  cbn [sz] in Hs. rewrite norm_par. destruct e; try (split; reflexivity).
  destruct (IH (EPar e)) as [A B]; [cbn [sz] in *; lia|]. split; auto.
Qed.

Lemma strip_nat p x : strip (nat_ p x) = strip (norm x).
Proof. unfold nat_. destruct (plev x <? p); reflexivity. Qed.

Lemma strip_norm : forall n e, (sz e <= n)%nat -> strip (norm e) = strip e.
Proof.
  induction n as [|n IH]; intros e Hs. { destruct e; cbn [sz] in Hs; lia. }
  destruct e; cbn [sz] in Hs; try reflexivity.
  - rewrite norm_un. cbn [strip]. rewrite strip_nat, IH by lia. reflexivity.
  - rewrite norm_star. cbn [strip]. rewrite strip_nat, IH by lia. reflexivity.
  - rewrite norm_bin. cbn [strip]. rewrite !strip_nat, !IH by lia. reflexivity.
  - rewrite norm_par. destruct e; cbn [strip]; try (rewrite IH by (cbn [sz] in *; lia); reflexivity).
  - rewrite norm_call. cbn [strip]. rewrite strip_nat, IH by lia. f_equal.
    rewrite map_map. apply map_ext_in. intros a Ha. apply IH. pose proof (In_szl a args Ha). unfold szl in *. lia.
  - rewrite norm_idx. cbn [strip]. rewrite strip_nat, !IH by lia. reflexivity.
  - rewrite norm_sel. cbn [strip]. rewrite strip_nat, IH by lia. reflexivity.
  - rewrite norm_ew. cbn [strip]. rewrite strip_nat, IH by lia. reflexivity.
  - rewrite norm_ewd. cbn [strip]. rewrite !strip_nat, !IH by lia. reflexivity.
  - change (norm (ELam lhs lp rhs rp)) with (ELam lhs lp (map norm rhs) rp). cbn [strip]. f_equal.
    rewrite map_map. apply map_ext_in. intros a Ha. apply IH. pose proof (In_szl a rhs Ha). unfold szl in *. lia.
Qed.

Lemma map_id_in {A} (f : A -> A) l : (forall a, In a l -> f a = a) -> map f l = l.
Proof. induction l as [|a l IH]; cbn [map]; intros H; [reflexivity|]. rewrite H, IH; auto; [intros; apply H; now right|now left]. Qed.

Lemma strip_id : forall n e, (sz e <= n)%nat -> noparb e = true -> strip e = e.
Proof.
  induction n as [|n IH]; intros e Hs N. { destruct e; cbn [sz] in Hs; lia. }
  destruct e; cbn [sz] in Hs; cbn [noparb] in N; bsplit; try reflexivity; try discriminate; cbn [strip];
    rewrite ?IH by (auto; lia); try reflexivity.
  - f_equal. apply map_id_in. intros a Ha. apply IH; [pose proof (In_szl a args Ha); unfold szl in *; lia|].
    eapply forallb_In; eauto.
  - f_equal. apply map_id_in. intros a Ha. apply IH; [pose proof (In_szl a rhs Ha); unfold szl in *; lia|].
    eapply forallb_In; eauto.
Qed.

(* a tree without parentheses is recovered from the re-parsed one by dropping the printer's parentheses *)
Lemma strip_norm_nopar e : noparb e = true -> strip (norm e) = e.
Proof. intros N. rewrite (strip_norm (sz e)) by lia. apply (strip_id (sz e)); auto. Qed.

Lemma nat_tight p x : tight p x = true -> nat_ p x = norm x.
Proof. unfold tight, nat_. destruct (plev x <? p); [discriminate|reflexivity]. Qed.

(* a tree that already has its parentheses (what the parser returns) is re-read as it is *)
Lemma norm_id : forall n e, (sz e <= n)%nat -> noaddb e = true -> norm e = e.
Proof.
  induction n as [|n IH]; intros e Hs N. { destruct e; cbn [sz] in Hs; lia. }
  destruct e; cbn [sz] in Hs; cbn [noaddb] in N; bsplit; try reflexivity.
  - rewrite norm_un, nat_tight, IH by (auto; lia). reflexivity.
  - rewrite norm_star, nat_tight, IH by (auto; lia). reflexivity.
  - rewrite norm_bin, !nat_tight, !IH by (auto; lia). reflexivity.
  - rewrite norm_par. destruct e; try discriminate; rewrite IH by (auto; cbn [sz] in *; lia); reflexivity.
  - rewrite norm_call, nat_tight, IH by (auto; lia). f_equal. apply map_id_in. intros a Ha.
    apply IH; [pose proof (In_szl a args Ha); unfold szl in *; lia|]. eapply forallb_In; eauto.
  - rewrite norm_idx, nat_tight, !IH by (auto; lia). reflexivity.
  - rewrite norm_sel, nat_tight, IH by (auto; lia). reflexivity.
  - rewrite norm_ew, nat_tight, IH by (auto; lia). reflexivity.
  - rewrite norm_ewd, !nat_tight, !IH by (auto; lia). reflexivity.
  - change (norm (ELam lhs lp rhs rp)) with (ELam lhs lp (map norm rhs) rp). f_equal. apply map_id_in. intros a Ha.
    apply IH; [pose proof (In_szl a rhs Ha); unfold szl in *; lia|]. eapply forallb_In; eauto.
Qed.

(* printing the re-read tree gives the same tokens again *)
Lemma pr_par_not x : is_par x = false -> pr (EPar x) = LP :: pr x ++ [RP].
Proof. destruct x; cbn [is_par]; intros; try discriminate; reflexivity. Qed.

Lemma at_nat p x : p <= 8 -> pr (norm x) = pr x -> at_ p (nat_ p x) = at_ p x.
Proof.
  intros Hp H. destruct (norm_head (sz x) x (le_n _)) as [Hl Hi].
  unfold nat_, at_ at 2. destruct (plev x <? p) eqn:E.
  - unfold at_. change (plev (EPar (norm x))) with (HighestPrec + 1).
    rewrite (proj2 (Z.ltb_ge (HighestPrec + 1) p)) by zl.
    rewrite pr_par_not, H; [reflexivity|]. rewrite Hi.
    destruct x; try reflexivity. cbn [plev] in E. apply Z.ltb_lt in E. zl.
  - unfold at_. rewrite Hl, E. exact H.
Qed.

Lemma flat_map_ext_in {A B} (f g : A -> list B) l : (forall a, In a l -> f a = g a) -> flat_map f l = flat_map g l.
Proof. induction l as [|a l IH]; cbn [flat_map]; intros H; [reflexivity|]. rewrite H, IH; auto; [intros; apply H; now right|now left]. Qed.

Lemma prl_map (g : expr -> expr) l : (forall a, In a l -> pr (g a) = pr a) -> prl (map g l) = prl l.
Proof.
  destruct l as [|a l]; [reflexivity|]. intros H. unfold prl. cbn [map]. rewrite H by now left. f_equal.
  rewrite flat_map_concat_map, map_map, <- flat_map_concat_map. apply flat_map_ext_in.
  intros x Hx. rewrite H; auto. now right.
Qed.

Theorem pr_norm : forall n e, (sz e <= n)%nat -> validb e = true -> pr (norm e) = pr e.
Proof.
  induction n as [|n IH]; intros e Hs V. { destruct e; cbn [sz] in Hs; lia. }
  destruct e; cbn [sz] in Hs; cbn [validb] in V; bsplit; try reflexivity.
  - rewrite norm_un, !pr_un, at_nat; auto; try zl. apply IH; auto; lia.
  - rewrite norm_star, !pr_star, at_nat; auto; try zl. apply IH; auto; lia.
  - match goal with H : is_binop _ = true |- _ => apply binop_prec in H end.
    rewrite norm_bin, !pr_bin, !at_nat; auto; try lia; apply IH; auto; lia.
  - rewrite norm_par. destruct (is_par e) eqn:Ep.
    + destruct e; try discriminate. rewrite IH by (auto; cbn [sz] in *; lia). reflexivity.
    + assert (En : norm (EPar e) = EPar (norm e)) by (destruct e; try discriminate; reflexivity).
      destruct e; try discriminate; rewrite !pr_par_not, IH; auto; try (cbn [sz] in *; lia);
        destruct (norm_head (sz _) _ (le_n _)) as [_ ->]; reflexivity.
  - rewrite norm_call, !pr_call, at_nat, prl_map; auto; try zl; [|apply IH; auto; lia].
    intros a Ha. apply IH; [pose proof (In_szl a args Ha); unfold szl in *; lia|]. eapply forallb_In; eauto.
  - rewrite norm_idx, !pr_idx, at_nat, (IH e2); auto; try zl; try lia. apply IH; auto; lia.
  - rewrite norm_sel, !pr_sel, at_nat; auto; try zl. apply IH; auto; lia.
  - rewrite norm_ew, !pr_ew, at_nat; auto; try zl. apply IH; auto; lia.
  - rewrite norm_ewd, !pr_ewd, !at_nat; auto; try zl; apply IH; auto; lia.
  - change (norm (ELam lhs lp rhs rp)) with (ELam lhs lp (map norm rhs) rp).
    assert (HR : forall a, In a rhs -> pr (norm a) = pr a).
    { intros a Ha. apply IH; [pose proof (In_szl a rhs Ha); unfold szl in *; lia|]. eapply forallb_In; eauto. }
    assert (E1 : prl (map norm rhs) = prl rhs) by (apply prl_map; auto).
    assert (E2 : match map norm rhs with a :: _ => pr a | [] => [] end = match rhs with a :: _ => pr a | [] => [] end).
    { destruct rhs as [|a t]; [reflexivity|]. cbn [map]. apply HR. now left. }
    change (pr (ELam lhs lp (map norm rhs) rp)) with
      ((if lp then LP :: match lhs with [] => [] | a :: t => TId a :: flat_map (fun s => [COMMA; TId s]) t end ++ [RP]
        else match lhs with [] => [] | a :: _ => [TId a] end) ++
       TOp xgo_DRARROW :: (if rp then LP :: prl (map norm rhs) ++ [RP] else match map norm rhs with a :: _ => pr a | [] => [] end)).
    rewrite E1, E2. reflexivity.
Qed.

(* ------------------------------------------------------------------ the result does not depend on the fuel *)
Lemma P_stable f f' s ts : (f <= f')%nat -> P f s ts <> RFuel -> P f' s ts = P f s ts.
Proof. induction 1; auto. intros H0. rewrite P_mono; auto. rewrite IHle; auto. Qed.

Lemma parse_expr_fuel f ts : parse_expr f ts = RFuel <-> P f SExpr ts = RFuel.
Proof.
  unfold parse_expr. destruct (P f SExpr ts) as [[e|? ?] [|? ?]| | |]; split; intros; try discriminate; auto.
Qed.

Lemma parse_expr_stable f f' ts : parse_expr f ts <> RFuel -> parse_expr f' ts <> RFuel -> parse_expr f ts = parse_expr f' ts.
Proof.
  intros H H'. rewrite parse_expr_fuel in H, H'. unfold parse_expr.
  destruct (Nat.le_ge_cases f f') as [L|L].
  - rewrite (P_stable f f'); auto.
  - rewrite (P_stable f' f); auto.
Qed.

Theorem roundtrip e : validb e = true -> posokb e = true ->
  exists f, parse_expr f (pr e) = ROk (PE (norm e)) [].
Proof.
  intros V K. destruct (roundtrip_exists e V K) as [f Hf]. exists f. unfold parse_expr. rewrite Hf. reflexivity.
Qed.

(* a witness computed with one amount of fuel decides the question for every amount *)
Lemma refute_by_witness F ts e0 x :
  parse_expr F ts = x -> x <> RFuel ->
  (forall e', x = ROk (PE e') [] -> strip e' <> e0) ->
  forall f e', parse_expr f ts = ROk (PE e') [] -> strip e' <> e0.
Proof.
  intros HF Hx Hn f e' Hf. apply Hn. rewrite <- HF, <- Hf. symmetry. apply parse_expr_stable.
  - rewrite Hf. discriminate.
  - rewrite HF. exact Hx.
Qed.

(* norm keeps well-formedness, hence printing is stable under a second normalisation *)
Lemma validb_nat p x : validb (norm x) = true -> validb (nat_ p x) = true.
Proof. unfold nat_. destruct (plev x <? p); auto. Qed.

Lemma validb_norm : forall n x, (sz x <= n)%nat -> validb x = true -> validb (norm x) = true.
Proof.
  induction n as [|n IH]; intros x Hs Vx. { destruct x; cbn [sz] in Hs; lia. }
  destruct x; cbn [sz] in Hs; cbn [validb] in Vx; bsplit; try reflexivity.
  - rewrite norm_un. cbn [validb]. rewrite validb_nat by (apply IH; auto; lia).
    match goal with B : un_ok op = true |- _ => rewrite B end. reflexivity.
  - rewrite norm_star. cbn [validb]. apply validb_nat. apply IH; auto; lia.
  - rewrite norm_bin. cbn [validb]. rewrite !validb_nat by (apply IH; auto; lia).
    match goal with B : is_binop op = true |- _ => rewrite B end. reflexivity.
  - rewrite norm_par. destruct x; cbn [validb]; try (apply IH; auto; cbn [sz] in *; lia).
  - rewrite norm_call. cbn [validb]. rewrite validb_nat by (apply IH; auto; lia). cbn [andb].
    assert (Q : forallb validb (map norm args) = true).
    { rewrite forallb_forall. intros a Ha. apply in_map_iff in Ha as (a0 & <- & Ha0).
      apply IH; [pose proof (In_szl a0 args Ha0); unfold szl in *; lia|eapply forallb_In; eauto]. }
    rewrite Q. cbn [andb]. destruct args; cbn [map is_nil] in *; auto.
  - rewrite norm_idx. cbn [validb]. rewrite validb_nat by (apply IH; auto; lia). rewrite IH by (auto; lia). reflexivity.
  - rewrite norm_sel. cbn [validb]. apply validb_nat. apply IH; auto; lia.
  - rewrite norm_ew. cbn [validb]. rewrite validb_nat by (apply IH; auto; lia).
    match goal with B : ew_ok t = true |- _ => rewrite B end. reflexivity.
  - rewrite norm_ewd. cbn [validb]. rewrite !validb_nat by (apply IH; auto; lia).
    match goal with B : ew_ok t = true |- _ => rewrite B end. reflexivity.
  - change (norm (ELam lhs lp rhs rp)) with (ELam lhs lp (map norm rhs) rp). cbn [validb]. rewrite map_length.
    assert (Q : forallb validb (map norm rhs) = true).
    { rewrite forallb_forall. intros a Ha. apply in_map_iff in Ha as (a0 & <- & Ha0).
      apply IH; [pose proof (In_szl a0 rhs Ha0); unfold szl in *; lia|eapply forallb_In; eauto]. }
    rewrite Q. destruct rhs; cbn [map is_nil negb] in *; try discriminate.
    repeat match goal with B : _ = true |- _ => rewrite B; clear B end. reflexivity.
Qed.

Theorem norm_print_stable e : validb e = true -> pr (norm (norm e)) = pr (norm e) /\ pr (norm e) = pr e.
Proof.
  intros V. split; [|apply (pr_norm (sz e)); auto].
  apply (pr_norm (sz (norm e))); auto. apply (validb_norm (sz e)); auto.
Qed.

(* ------------------------------------------------------------------ posokb after the printer repair
   The printer now parenthesises every operand whose level is below the level at which the parser reads its
   position, so every operand-position clause of posokb holds by itself; what is left is lamokb: a lambda body
   that starts with "(" is still read as a parenthesised result list. *)
Lemma ok_pp p x : ok_at p p x = true.
Proof.
  unfold ok_at. pose proof (tlev_eq_plev x) as Q. destruct (plev x <? p) eqn:E; [reflexivity|]. apply Z.ltb_ge in E.
  cbn [orb]. apply Z.leb_le. lia.
Qed.
Lemma ok_78 x : validb x = true -> ok_at HighestPrec 8 x = true.
Proof.
  intros V. unfold ok_at.
  destruct x; cbn [plev tlev validb] in *; try reflexivity.
  bsplit. match goal with B : is_binop _ = true |- _ => apply binop_prec in B end.
  rewrite (proj2 (Z.ltb_lt (prec op) HighestPrec)) by zl. reflexivity.
Qed.

Lemma lamok_posok : forall n e, (sz e <= n)%nat -> validb e = true -> lamokb e = true -> posokb e = true.
Proof.
  induction n as [|n IH]; intros e Hs V L. { destruct e; cbn [sz] in Hs; lia. }
  destruct e; cbn [sz] in Hs; cbn [validb lamokb] in V, L; bsplit; cbn [posokb]; try reflexivity;
    repeat match goal with |- (_ && _) = true => apply andb_true_intro; split end;
    try apply ok_pp; try (apply ok_78; assumption); try (apply IH; auto; lia); try assumption.
  - apply forallb_forall. intros a Ha. apply IH; [pose proof (In_szl a args Ha); unfold szl in *; lia| |];
      eapply forallb_In; eauto.
  - apply forallb_forall. intros a Ha. apply IH; [pose proof (In_szl a rhs Ha); unfold szl in *; lia| |];
      eapply forallb_In; eauto.
Qed.

Theorem roundtrip_lamok e : validb e = true -> lamokb e = true -> exists f, parse_expr f (pr e) = ROk (PE (norm e)) [].
Proof. intros V L. apply roundtrip; auto. apply (lamok_posok (sz e)); auto. Qed.
