(* K-gen obligation for First: the combination rule of every Matcher.First method, as regenerated
   from tpl/matcher/match.go (Gen/TplFirst.v), is the rule the model's [first] implements. *)
From Coq Require Import List NArith ZArith Bool Arith.
Import ListNotations.
From V Require Import Base.Prelude Base.TplRes Gen.Tokens Gen.TplFirst Model.Tpl.
Local Open Scope nat_scope.

(* the rule codes Model/Tpl.v [first] was written for, per Go receiver type
   1 ANY  2 PREFIX  3 TRUE  4 SAME  5 AFALSE  6 EMPTY  7 TOKEN  8 VAR *)
Definition model_first_rules : list (str * Z) :=
  [([67;104;111;105;99;101;115]%N, 1%Z);                     (* Choices   -> MChoice *)
   ([86;97;114]%N, 8%Z);                                     (* Var       -> MVar *)
   ([103;65;100;106;111;105;110]%N, 5%Z);                    (* gAdjoin   -> MAdj *)
   ([103;76;105;116;101;114;97;108]%N, 7%Z);                 (* gLiteral  -> MLit *)
   ([103;82;101;112;101;97;116;48]%N, 3%Z);                  (* gRepeat0  -> MRep0 *)
   ([103;82;101;112;101;97;116;48;49]%N, 3%Z);               (* gRepeat01 -> MRep01 *)
   ([103;82;101;112;101;97;116;49]%N, 4%Z);                  (* gRepeat1  -> MRep1 *)
   ([103;83;101;113;117;101;110;99;101]%N, 2%Z);             (* gSequence -> MSeq *)
   ([103;83;116;114;105;110;103]%N, 7%Z);                    (* gString   -> MStr *)
   ([103;84;111;107;101;110]%N, 7%Z);                        (* gToken    -> MTok *)
   ([103;84;114;117;101]%N, 6%Z);                            (* gTrue     -> MTrue *)
   ([103;87;83]%N, 6%Z)].                                    (* gWS       -> MWS *)

Lemma first_rules_match_source : tplfirst_rules = model_first_rules.
Proof. vm_compute. reflexivity. Qed.

Section Rules.
Variable env : list (option m).

(* the loops of Choices.First and gSequence.First as stand-alone functions *)
Fixpoint first_opts (f : nat) (vis : list nat) (os : list m) (acc : list fi) (me : bool) : fres :=
  match os with
  | [] => FOk acc me
  | o :: t => match first env f vis o acc with FOk a e => first_opts f vis t a (me || e) | x => x end
  end.
Fixpoint first_items (f : nat) (vis : list nat) (is : list m) (acc : list fi) : fres :=
  match is with
  | [] => FOk acc false
  | i :: t => match first env f vis i acc with
              | FOk a true => match t with [] => FOk a true | _ => first_items f vis t a end
              | x => x end
  end.

Lemma first_choice_unfold f vis opts st acc :
  first env (S f) vis (MChoice opts st) acc = first_opts f vis opts acc false.
Proof. cbn [first]. generalize false. revert acc. induction opts as [|o t IH]; intros acc me; [reflexivity|].
  cbn [first_opts]. destruct (first env f vis o acc); auto. Qed.
Lemma first_seq_unfold f vis items acc :
  first env (S f) vis (MSeq items) acc = first_items f vis items acc.
Proof. cbn [first]. revert acc. induction items as [|i t IH]; intros acc; [reflexivity|].
  cbn [first_items]. destruct (first env f vis i acc) as [a [|]| |]; auto. destruct t; auto. Qed.

(* rule 1 ANY: every option contributes its first set; mayEmpty is the DISJUNCTION over the options *)
Lemma rule_any_step f vis o t acc me a e : first env f vis o acc = FOk a e ->
  first_opts f vis (o :: t) acc me = first_opts f vis t a (me || e).
Proof. intros H. cbn [first_opts]. rewrite H. reflexivity. Qed.
Lemma rule_any_sticky : forall f vis os acc a me', first_opts f vis os acc true = FOk a me' -> me' = true.
Proof.
  induction os as [|o t IH]; intros acc a me' H; cbn [first_opts] in H; [injection H as _ <-; reflexivity|].
  destruct (first env f vis o acc) as [a0 e| |]; try discriminate. cbn [orb] in H. eapply IH; eauto.
Qed.
(* in particular a nullable option at ANY index makes the choice nullable *)
Lemma rule_any_nullable_option : forall f vis pre o post acc a me' accp mep ao,
  first_opts f vis pre acc false = FOk accp mep ->
  first env f vis o accp = FOk ao true ->
  first_opts f vis (pre ++ o :: post) acc false = FOk a me' -> me' = true.
Proof.
  intros f vis pre. generalize false.
  induction pre as [|p t IH]; intros me0 o post acc a me' accp mep ao Hpre Ho H.
  - cbn [first_opts app] in *. injection Hpre as <- <-. rewrite Ho in H. rewrite orb_true_r in H.
    eapply rule_any_sticky; eauto.
  - cbn [first_opts app] in *. destruct (first env f vis p acc) as [a0 e| |]; try discriminate.
    eapply IH; eauto.
Qed.

(* rule 2 PREFIX: items are visited while they may be empty; the first non-nullable item stops the scan *)
Lemma rule_prefix_stop f vis i t acc a : first env f vis i acc = FOk a false ->
  first_items f vis (i :: t) acc = FOk a false.
Proof. intros H. cbn [first_items]. rewrite H. reflexivity. Qed.
Lemma rule_prefix_continue f vis i j t acc a : first env f vis i acc = FOk a true ->
  first_items f vis (i :: j :: t) acc = first_items f vis (j :: t) a.
Proof. intros H. cbn [first_items]. rewrite H. reflexivity. Qed.

(* rules 3-7 *)
Lemma rule_true_rep0 f vis r acc a e : first env f vis r acc = FOk a e -> first env (S f) vis (MRep0 r) acc = FOk a true.
Proof. intros H. cbn [first]. rewrite H. reflexivity. Qed.
Lemma rule_true_rep01 f vis r acc a e : first env f vis r acc = FOk a e -> first env (S f) vis (MRep01 r) acc = FOk a true.
Proof. intros H. cbn [first]. rewrite H. reflexivity. Qed.
Lemma rule_same_rep1 f vis r acc : first env (S f) vis (MRep1 r) acc = first env f vis r acc.
Proof. reflexivity. Qed.
Lemma rule_afalse_adj f vis a b acc x e : first env f vis a acc = FOk x e -> first env (S f) vis (MAdj a b) acc = FOk x false.
Proof. intros H. cbn [first]. rewrite H. reflexivity. Qed.
Lemma rule_empty f vis acc : first env (S f) vis MTrue acc = FOk acc true /\ first env (S f) vis MWS acc = FOk acc true.
Proof. split; reflexivity. Qed.
Lemma rule_token f vis acc q k l :
  first env (S f) vis (MStr q) acc = FOk (acc ++ [FTok STRING]) false /\
  first env (S f) vis (MTok k) acc = FOk (acc ++ [FTok k]) false /\
  first env (S f) vis (MLit k l) acc = FOk (acc ++ [FLit k l]) false.
Proof. repeat split; reflexivity. Qed.
(* rule 8 VAR: a rule met again while its own First is being computed is a RecursiveError *)
Lemma rule_var_recursive f vis v acc : existsb (Nat.eqb v) vis = true -> first env (S f) vis (MVar v) acc = FRec v.
Proof. intros H. cbn [first]. rewrite H. reflexivity. Qed.
End Rules.
