(* C15: the statements of the property, derived from [run_chain] (Proofs/ScanSpec.v). *)
From Coq Require Import List NArith ZArith Bool Lia.
From Coq Require Import ZifyN ZifyNat ZifyBool.
Import ListNotations.
From V Require Import Base.Prelude Gen.ScanTok Model.Scan Model.ScanRel Proofs.ScanBase Proofs.ScanSpec.
Open Scope Z_scope.

Lemma zlen_sub_le src a b : a <= b -> zlen (sub src a b) <= b - a.
Proof. intros H. unfold sub, zlen. pose proof (firstn_le_length (Z.to_nat (b - a)) (skipn (Z.to_nat a) src)). lia. Qed.

Lemma nth_firstn_lt {A} (l : list A) n k d : (k < n)%nat -> nth k (firstn n l) d = nth k l d.
Proof.
  revert n k; induction l as [|x l IH]; intros n k H; [rewrite firstn_nil; reflexivity|].
  destruct n; [lia|]. destruct k; [reflexivity|]. cbn [firstn nth]. apply IH. lia.
Qed.
Lemma nth_skipn_add {A} (l : list A) a k d : nth k (skipn a l) d = nth (a + k) l d.
Proof.
  revert l; induction a as [|a IH]; intros l; [reflexivity|]. destruct l; [destruct k; reflexivity|]. cbn [skipn plus nth]. apply IH.
Qed.
Lemma nth_sub src a b i : 0 <= a <= i -> i < b ->
  nth (Z.to_nat (i - a)) (sub src a b) 0%N = nth (Z.to_nat i) src 0%N.
Proof.
  intros H1 H2. unfold sub. rewrite nth_firstn_lt by lia. rewrite nth_skipn_add. f_equal. lia.
Qed.
Lemma blank_run_nth g k : blank_run g -> (k < length g)%nat -> is_blank (nth k g 0%N) = true.
Proof.
  intros B. revert k. induction B as [|x g Hx B IH]; intros k H; [cbn in H; lia|].
  destruct k; [exact Hx|]. cbn [nth]. apply IH. cbn [length] in H. lia.
Qed.
Lemma length_sub src a b : 0 <= a -> a <= b <= zlen src -> zlen (sub src a b) = b - a.
Proof.
  intros H1 H2. unfold sub, zlen in *. rewrite firstn_length, skipn_length. lia.
Qed.

(* a token that is neither an inserted semicolon nor EOF has a non-empty source text *)
Lemma kw_find_nil : kw_find xgo_keywords [] = None.
Proof. vm_compute. reflexivity. Qed.
Lemma lit_ok_nonempty t body :
  lit_ok XGo t body -> is_auto_semi_tok t = false -> is_eof_tok t = false -> body <> [].
Proof.
  unfold lit_ok, is_auto_semi_tok, is_eof_tok. destruct (ttok t) eqn:T; intros L A E;
    try discriminate E;
    lazymatch type of L with
    | _ = [] /\ spell_of _ _ = Some _ => destruct L as [_ L]; vm_compute in L; inversion L; discriminate
    | _ /\ _ <> [] => exact (proj2 L)
    | _ <> [] /\ _ => exact (proj1 L)
    | _ => idtac
    end.
  - (* c"" *) destruct L as (c & _ & ->). discriminate.
  - (* py"" *) rewrite L. discriminate.
  - (* keyword *) destruct L as [_ L]. intros ->. cbn [keywords_of] in L. rewrite kw_find_nil in L. discriminate.
  - (* ; *) destruct L as [[_ ->]|[L _]]; [discriminate|]. rewrite L in A. discriminate.
Qed.

Definition counted (t : Tok) : bool := negb (is_auto_semi_tok t) && negb (is_eof_tok t).

Section Cor.
Variable src : str.
Variable cm : bool.

Lemma chain_bounds f l : chain XGo src cm f l -> Forall (fun t => f <= tpos t /\ tpos t <= tend t /\ tend t <= zlen src) l.
Proof.
  induction 1 as [|f t ts F1 F2 F3 B L C IH]; constructor; [lia|].
  eapply Forall_impl; [|exact IH]. cbn. intros a Ha. lia.
Qed.

Lemma chain_ordered f l : chain XGo src cm f l ->
  forall pre t1 mid t2 post, l = pre ++ t1 :: mid ++ t2 :: post -> tend t1 <= tpos t2.
Proof.
  induction 1 as [|f t ts F1 F2 F3 B L C IH]; intros pre t1 mid t2 post E.
  - destruct pre; discriminate.
  - destruct pre as [|p pre]; cbn [app] in E; injection E as -> E.
    + pose proof (chain_bounds _ _ C) as FB. rewrite Forall_forall in FB.
      assert (In t2 ts) by (rewrite E; apply in_or_app; right; left; reflexivity).
      specialize (FB _ H). lia.
    + eapply IH. exact E.
Qed.

Lemma chain_lit f l : chain XGo src cm f l -> Forall (fun t => lit_ok XGo t (sub src (tpos t) (tend t))) l.
Proof. induction 1; constructor; assumption. Qed.

Lemma chain_count f l : f <= zlen src -> chain XGo src cm f l ->
  Z.of_nat (length (filter counted l)) <= zlen src - f.
Proof.
  intros Hf C. induction C as [|f t ts F1 F2 F3 B L C IH]; [cbn; lia|].
  specialize (IH F3). cbn [filter]. destruct (counted t) eqn:K; [|lia].
  unfold counted in K. apply andb_prop in K as [K1 K2].
  pose proof (lit_ok_nonempty _ _ L ltac:(destruct (is_auto_semi_tok t); [discriminate|reflexivity])
                                   ltac:(destruct (is_eof_tok t); [discriminate|reflexivity])) as NE.
  pose proof (zlen_sub_le src _ _ F2) as ZL.
  assert (1 <= zlen (sub src (tpos t) (tend t))) by (destruct (sub src (tpos t) (tend t)) as [|x0 l0]; [congruence|rewrite zlen_cons; pose proof (zlen_nonneg l0); lia]).
  cbn [length]. lia.
Qed.

Lemma ends_eof_tail t ts : ends_eof src (t :: ts) -> ts <> [] -> ends_eof src ts.
Proof.
  intros (l & e & E & TE & PE & FA) N. destruct l as [|x l]; cbn [app] in E; injection E as -> E; [congruence|].
  exists l, e. inversion FA; subst. auto.
Qed.

Lemma chain_tiles f l : cm = true -> 0 <= f -> chain XGo src cm f l -> ends_eof src l ->
  forall i, f <= i < zlen src ->
  (exists t, In t l /\ tpos t <= i < tend t) \/ is_blank (nth (Z.to_nat i) src 0%N) = true.
Proof.
  intros CM Hf C. induction C as [|f t ts F1 F2 F3 B L C IH]; intros EE i Hi.
  - destruct EE as (l & e & E & _). destruct l; discriminate.
  - destruct (Z_lt_dec i (tpos t)) as [G|G].
    + (* in the gap before t *)
      right. specialize (B CM). rewrite <- (nth_sub src f (tpos t) i) by lia. apply blank_run_nth; [exact B|].
      pose proof (length_sub src f (tpos t) Hf ltac:(lia)). unfold zlen in H. lia.
    + destruct (Z_lt_dec i (tend t)) as [T|T]; [left; exists t; split; [left; reflexivity|lia]|].
      destruct ts as [|t' ts'].
      * (* t is the EOF token at the end of the source *)
        destruct EE as (l & e & E & TE & PE & _). destruct l as [|x [|y l]]; cbn [app] in E; try discriminate.
        injection E as ->. lia.
      * destruct (IH ltac:(lia) (ends_eof_tail _ _ EE ltac:(discriminate)) i ltac:(lia)) as [(x & I & R)|R]; [left|right; exact R].
        exists x. split; [right; exact I|exact R].
Qed.
End Cor.

Lemma bom_len_range src : 0 <= bom_len src <= zlen src.
Proof.
  unfold bom_len, zlen. destruct src as [|b0 [|b1 [|b2 t]]]; cbn [length]; try lia.
  destruct (_ && _); lia.
Qed.

Section Run.
Variable ul ud : Z -> bool.

Theorem run_ends_eof cm src toks errs : run ul ud XGo cm src = Ok (toks, errs) -> ends_eof src toks.
Proof. intros H. apply (run_chain ul ud cm src toks errs H). Qed.

Theorem run_token_count cm src toks errs :
  run ul ud XGo cm src = Ok (toks, errs) -> (length (filter counted toks) <= length src)%nat.
Proof.
  intros H. destruct (run_chain ul ud cm src toks errs H) as [C _].
  pose proof (bom_len_range src). pose proof (chain_count src cm (bom_len src) toks ltac:(lia) C). unfold zlen in *. lia.
Qed.

Theorem run_offsets cm src toks errs :
  run ul ud XGo cm src = Ok (toks, errs) ->
  Forall (fun t => bom_len src <= tpos t /\ tpos t <= tend t /\ tend t <= zlen src) toks
  /\ (forall pre t1 mid t2 post, toks = pre ++ t1 :: mid ++ t2 :: post -> tend t1 <= tpos t2)
  /\ Forall (fun t => counted t = true -> tpos t < tend t) toks.
Proof.
  intros H. destruct (run_chain ul ud cm src toks errs H) as [C _].
  pose proof (chain_bounds src cm _ _ C) as B. split; [exact B|]. split; [exact (chain_ordered src cm _ _ C)|].
  pose proof (chain_lit src cm _ _ C) as L. rewrite Forall_forall in *. intros t I K.
  specialize (B t I). specialize (L t I). unfold counted in K. apply andb_prop in K as [K1 K2].
  pose proof (lit_ok_nonempty _ _ L ltac:(destruct (is_auto_semi_tok t); [discriminate|reflexivity])
                                   ltac:(destruct (is_eof_tok t); [discriminate|reflexivity])) as NE.
  pose proof (bom_len_range src).
  pose proof (length_sub src (tpos t) (tend t) ltac:(lia) ltac:(lia)) as LS.
  destruct (sub src (tpos t) (tend t)) as [|x0 l0]; [congruence|]. rewrite zlen_cons in LS. pose proof (zlen_nonneg l0). lia.
Qed.

Theorem run_lit_is_slice cm src toks errs :
  run ul ud XGo cm src = Ok (toks, errs) -> Forall (fun t => lit_ok XGo t (sub src (tpos t) (tend t))) toks.
Proof. intros H. destruct (run_chain ul ud cm src toks errs H) as [C _]. exact (chain_lit src cm _ _ C). Qed.

Theorem run_tiles src toks errs :
  run ul ud XGo true src = Ok (toks, errs) ->
  forall i, bom_len src <= i < zlen src ->
  (exists t, In t toks /\ tpos t <= i < tend t) \/ is_blank (nth (Z.to_nat i) src 0%N) = true.
Proof.
  intros H. destruct (run_chain ul ud true src toks errs H) as [C E]. pose proof (bom_len_range src).
  apply (chain_tiles src true (bom_len src) toks eq_refl ltac:(lia) C E).
Qed.
End Run.
