From Coq Require Import List ZArith NArith Bool Lia.
Import ListNotations.
From V Require Import Base.Prelude Model.MiniGo Model.ErrWrap Proofs.MiniGo.
Open Scope Z_scope.

Lemma distinct_map_NRet : forall n a, distinct (map NRet (seq a n)).
Proof. induction n as [|n IH]; intros a; [exact I|]. cbn [seq map distinct]. split; [|apply IH].
  apply Forall_forall. intros y Hy. apply in_map_iff in Hy as (j & <- & Hj). apply in_seq in Hj.
  cbn [name_eqb]. apply Nat.eqb_neq. lia. Qed.
Lemma distinct_map_NAuto : forall n a, distinct (map NAuto (seq a n)).
Proof. induction n as [|n IH]; intros a; [exact I|]. cbn [seq map distinct]. split; [|apply IH].
  apply Forall_forall. intros y Hy. apply in_map_iff in Hy as (j & <- & Hj). apply in_seq in Hj.
  cbn [name_eqb]. apply Nat.eqb_neq. lia. Qed.
Lemma rets_distinct n : distinct (rets n).
Proof. apply distinct_map_NRet. Qed.
Lemma autos_distinct b n : distinct (autos b n).
Proof. apply distinct_map_NAuto. Qed.
Lemma rets_length n : length (rets n) = n.
Proof. unfold rets. now rewrite map_length, seq_length. Qed.
Lemma autos_length b n : length (autos b n) = n.
Proof. unfold autos. now rewrite map_length, seq_length. Qed.
Lemma rets_fresh_err n v : Forall (fun x => fresh x [(NErr, v)]) (rets n).
Proof. apply Forall_forall. intros x Hx. apply in_map_iff in Hx as (j & <- & _). constructor; [reflexivity|constructor]. Qed.
Lemma autos_fresh_err b n v : Forall (fun x => fresh x [(NErr, v)]) (autos b n).
Proof. apply Forall_forall. intros x Hx. apply in_map_iff in Hx as (j & <- & _). constructor; [reflexivity|constructor]. Qed.
Lemma nonuser_rets n (vs : list val) : nonuser (rev (combine (rets n) vs)).
Proof. apply Forall_rev. apply Forall_forall. intros [x v] Hin. apply in_combine_l in Hin.
  apply in_map_iff in Hin as (j & <- & _). reflexivity. Qed.
Lemma nonuser_autos b n (vs : list val) : nonuser (rev (combine (autos b n) vs)).
Proof. apply Forall_rev. apply Forall_forall. intros [x v] Hin. apply in_combine_l in Hin.
  apply in_map_iff in Hin as (j & <- & _). reflexivity. Qed.

Section C03.
  Variable err_text : err -> str.
  Variable self : stmt -> env -> trace -> sres.
  Notation ev := (ev err_text self).
  Notation ex := (ex err_text self).

  (* the wrapped call: evaluates to the tuple r with the events tx, whatever compiler-generated
     names are in scope around it, and leaves the environment alone *)
  Definition stable (en : env) (x : expr) (r : list val) (tx : trace) : Prop :=
    forall loc tr, nonuser loc -> ev x (loc ++ en) tr = (RVal r, loc ++ en, tr ++ tx).

  Lemma stable_callp en id rs : stable en (ECallP id rs) rs [Ev id []].
  Proof. intros loc tr _. apply ev_ECallP. Qed.

  (* a call with arguments f_id(a1, ..., an): if every argument is stable and single-valued, the call is
     stable; the callee's event records exactly the argument values, in order *)
  Inductive stable_args (en : env) : list expr -> list val -> trace -> Prop :=
    | SA_nil : stable_args en [] [] []
    | SA_cons a v ta t vs tt : stable en a [v] ta -> stable_args en t vs tt -> stable_args en (a :: t) (v :: vs) (ta ++ tt).

  Lemma stable_args_list en args vs targs : stable_args en args vs targs ->
    forall loc tr, nonuser loc -> ev_list err_text self args (loc ++ en) tr = (RVal vs, loc ++ en, tr ++ targs).
  Proof. induction 1 as [|a v ta t vs tt Ha _ IH]; intros loc tr Hn.
    - cbn [ev_list]. now rewrite app_nil_r.
    - cbn [ev_list]. rewrite (Ha loc tr Hn). cbn [one]. rewrite (IH loc _ Hn). now rewrite <- app_assoc. Qed.

  Lemma stable_calla en id args rs vs targs : stable_args en args vs targs ->
    stable en (ECallA id args rs) rs (targs ++ [Ev id vs]).
  Proof. intros Ha loc tr Hn. rewrite ev_ECallA. rewrite (stable_args_list en args vs targs Ha loc tr Hn).
    now rewrite <- app_assoc. Qed.

  (* --- the common prefix of both lowerings:  var _gop_err error; targets..., _gop_err = X --- *)
  Lemma assign_prefix (targets : list name) (ws vs : list val) (x : expr) (eo : option err) tx en tr rest :
    length ws = length targets -> length vs = length targets -> distinct targets ->
    Forall (fun y => fresh y [(NErr, VErr None)]) targets -> nonuser (rev (combine targets ws)) ->
    stable en x (vs ++ [VErr eo]) tx ->
    ex (SSeq (SDefine [NErr] [nil_err]) (SSeq (SAssign (targets ++ [NErr]) [x]) rest)) (rev (combine targets ws) ++ en) tr
    = ex rest ((NErr, VErr eo) :: rev (combine targets vs) ++ en) (tr ++ tx).
  Proof.
    intros Hw Hv Hd Hf Hn Hst.
    rewrite ex_SSeq, ex_SDefine. cbn [rhs_eval]. unfold nil_err. rewrite ev_EConst. cbn [bind_all].
    rewrite ex_SSeq, ex_SAssign. cbn [rhs_eval].
    change ((NErr, VErr None) :: rev (combine targets ws) ++ en) with (((NErr, VErr None) :: rev (combine targets ws)) ++ en).
    rewrite Hst by (constructor; [reflexivity|exact Hn]).
    rewrite assign_all_app by lia.
    change (((NErr, VErr None) :: rev (combine targets ws)) ++ en) with ([(NErr, VErr None)] ++ rev (combine targets ws) ++ en).
    rewrite assign_rev by auto. cbn [app assign_all]. rewrite update_here. reflexivity.
  Qed.

  Lemma nenil_err eo (E : env) tr :
    ev (ENeNil (EVar NErr)) ((NErr, VErr eo) :: E) tr
    = (RVal [VBool (match eo with Some _ => true | None => false end)], (NErr, VErr eo) :: E, tr).
  Proof. rewrite ev_ENeNil. unfold ev1. rewrite ev_EVar, lookup_here. cbn [one]. destruct eo; reflexivity. Qed.

  Lemma frame_assign e (E : env) tr rest :
    ex (SSeq (SAssign [NErr] [EFrameOf (EVar NErr)]) rest) ((NErr, VErr (Some e)) :: E) tr
    = ex rest ((NErr, VErr (Some (EFrame e))) :: E) tr.
  Proof. rewrite ex_SSeq, ex_SAssign. cbn [rhs_eval]. rewrite ev_EFrameOf. unfold ev1. rewrite ev_EVar, lookup_here. cbn [one].
    cbn [assign_all]. rewrite update_here. reflexivity. Qed.

  Lemma pop_cons_app (b : name * val) (loc en : env) : pop_to (length en) (b :: loc ++ en) = en.
  Proof. apply (pop_to_app (b :: loc) en). Qed.

  (* ---------------------------------------------------------------- expr! *)
  Lemma bang_eval en x zs vs eo tx tr : length vs = length zs -> stable en x (vs ++ [VErr eo]) tx ->
    ev (lower_closure KBang x zs) en tr =
    match eo with
    | None => (RVal vs, en, tr ++ tx)
    | Some e => (RPanic (VErr (Some (EFrame e))), en, tr ++ tx)
    end.
  Proof.
    intros Hl Hst. unfold lower_closure. rewrite ev_EClosure. cbv zeta. unfold closure_body.
    rewrite (assign_prefix (rets (length zs)) zs vs x eo tx en tr); auto using rets_length, rets_distinct, rets_fresh_err, nonuser_rets;
      try (rewrite rets_length; lia).
    rewrite ex_SSeq, ex_SIf, nenil_err. cbv zeta. destruct eo as [e|].
    - rewrite frame_assign, ex_SPanic, ev_EVar, lookup_here. cbn [cast].
      f_equal. f_equal. rewrite (pop_to_eqlen ((NErr, VErr (Some e)) :: _) ((NErr, VErr (Some (EFrame e))) :: _)) by reflexivity.
      apply pop_cons_app.
    - rewrite ex_SSkip. rewrite pop_to_same. rewrite ex_SReturn. cbn [ev_list].
      change ((NErr, VErr None) :: rev (combine (rets (length zs)) vs) ++ en)
        with ([(NErr, VErr None)] ++ rev (combine (rets (length zs)) vs) ++ en) at 1.
      rewrite results_rev; auto using rets_length, rets_distinct, rets_fresh_err; try (rewrite rets_length; lia).
      f_equal. f_equal. apply pop_cons_app.
  Qed.

  (* ---------------------------------------------------------------- expr?:d *)
  Lemma default_eval en x d zs vs eo tx dv td tr : length vs = length zs ->
    stable en x (vs ++ [VErr eo]) tx -> stable en d [dv] td ->
    ev (lower_closure (KDefault d) x zs) en tr =
    match eo with
    | None => (RVal vs, en, tr ++ tx)                       (* d is not evaluated *)
    | Some _ => (RVal [dv], en, (tr ++ tx) ++ td)
    end.
  Proof.
    intros Hl Hst Hd. unfold lower_closure. rewrite ev_EClosure. cbv zeta. unfold closure_body.
    rewrite (assign_prefix (rets (length zs)) zs vs x eo tx en tr); auto using rets_length, rets_distinct, rets_fresh_err, nonuser_rets;
      try (rewrite rets_length; lia).
    rewrite ex_SSeq, ex_SIf, nenil_err. cbv zeta. destruct eo as [e|].
    - rewrite ex_SReturn. cbn [ev_list].
      change ((NErr, VErr (Some e)) :: rev (combine (rets (length zs)) vs) ++ en)
        with (((NErr, VErr (Some e)) :: rev (combine (rets (length zs)) vs)) ++ en).
      rewrite Hd by (constructor; [reflexivity|apply nonuser_rets]). cbn [one].
      f_equal. f_equal. rewrite pop_to_same. apply (pop_to_app ((NErr, VErr (Some e)) :: rev (combine (rets (length zs)) vs)) en).
    - rewrite ex_SSkip. rewrite pop_to_same. rewrite ex_SReturn. cbn [ev_list].
      change ((NErr, VErr None) :: rev (combine (rets (length zs)) vs) ++ en)
        with ([(NErr, VErr None)] ++ rev (combine (rets (length zs)) vs) ++ en) at 1.
      rewrite results_rev; auto using rets_length, rets_distinct, rets_fresh_err; try (rewrite rets_length; lia).
      f_equal. f_equal. apply pop_cons_app.
  Qed.

  (* ---------------------------------------------------------------- expr? *)
  Lemma ev_list_consts (vs : list val) en tr : ev_list err_text self (map EConst vs) en tr = (RVal vs, en, tr).
  Proof. induction vs as [|v t IH]; [reflexivity|]. cbn [map ev_list]. rewrite ev_EConst. cbn [one]. now rewrite IH. Qed.

  Lemma rhs_consts (vs : list val) en tr : rhs_eval err_text self (map EConst vs) en tr = (RVal vs, en, tr).
  Proof. destruct vs as [|v [|w t]]; try reflexivity. apply (ev_list_consts (v :: w :: t)). Qed.

  Lemma ev_list_vars : forall (xs : list name) (ws vs : list val) E tr, length ws = length xs ->
    closure_results (combine xs ws) E = Some vs -> ev_list err_text self (map EVar xs) E tr = (RVal vs, E, tr).
  Proof. induction xs as [|x t IH]; intros ws vs E tr Hl H.
    - cbn in H. injection H as <-. reflexivity.
    - destruct ws as [|w ws]; [discriminate|]. cbn [combine] in H. rewrite closure_results_cons in H.
      destruct (lookup E x) as [v|] eqn:Lx; [|discriminate].
      destruct (closure_results (combine t ws) E) as [r|] eqn:R; [|discriminate]. injection H as <-.
      assert (Hl' : length ws = length t) by (now injection Hl).
      cbn [map ev_list]. rewrite ev_EVar, Lx. cbn [one]. rewrite (IH ws r E tr Hl' R). reflexivity. Qed.

  (* success: the hoisted block binds _autoGo_N to the values and execution continues *)
  Lemma quest_ok en x zs vs encl base tx tr rest : length vs = length zs ->
    stable en x (vs ++ [VErr None]) tx ->
    ex (SSeq (quest_prelude x zs encl base) rest) en tr
      = ex rest (rev (combine (autos base (length zs)) vs) ++ en) (tr ++ tx)
    /\ forall tr', ev_list err_text self (quest_value zs base) (rev (combine (autos base (length zs)) vs) ++ en) tr'
                   = (RVal vs, rev (combine (autos base (length zs)) vs) ++ en, tr').
  Proof.
    intros Hl Hst. split.
    - unfold quest_prelude. rewrite !ex_SSeq, ex_SDefine, rhs_consts.
      rewrite bind_all_rev by (rewrite autos_length; reflexivity).
      rewrite ex_SBlock. cbv zeta.
      rewrite (assign_prefix (autos base (length zs)) zs vs x None tx en tr); auto using autos_length, autos_distinct, autos_fresh_err, nonuser_autos;
        try (rewrite autos_length; lia).
      rewrite ex_SIf, nenil_err. cbv zeta. rewrite ex_SSkip, pop_to_same.
      set (L := rev (combine (autos base (length zs)) vs) ++ en).
      replace (pop_to (length (rev (combine (autos base (length zs)) zs) ++ en)) ((NErr, VErr None) :: L)) with L; [reflexivity|].
      unfold pop_to. cbn [length]. unfold L. rewrite !app_length, !rev_length, !combine_length, !autos_length.
      rewrite Hl. replace (S (Nat.min (length zs) (length zs) + length en) - (Nat.min (length zs) (length zs) + length en))%nat with 1%nat by lia.
      reflexivity.
    - intros tr'. unfold quest_value. apply (ev_list_vars _ zs); [now rewrite autos_length|].
      apply (results_rev (autos base (length zs)) zs vs [] en); auto using autos_distinct; try (rewrite autos_length; lia).
      apply Forall_forall. intros; constructor.
  Qed.

  (* failure: the enclosing function returns its zero values and the wrapped error; nothing after
     the wrapped call runs *)
  Lemma quest_err_env en x zs vs e encl base tx tr rest : length vs = length zs ->
    stable en x (vs ++ [VErr (Some e)]) tx ->
    ex (SSeq (quest_prelude x zs encl base) rest) en tr
    = (RRet (encl ++ [VErr (Some (EFrame e))]), rev (combine (autos base (length zs)) vs) ++ en, tr ++ tx).
  Proof.
    intros Hl Hst. unfold quest_prelude. rewrite !ex_SSeq, ex_SDefine, rhs_consts.
    rewrite bind_all_rev by (rewrite autos_length; reflexivity).
    rewrite ex_SBlock. cbv zeta.
    rewrite (assign_prefix (autos base (length zs)) zs vs x (Some e) tx en tr); auto using autos_length, autos_distinct, autos_fresh_err, nonuser_autos;
      try (rewrite autos_length; lia).
    rewrite ex_SIf, nenil_err. cbv zeta. rewrite frame_assign, ex_SReturn.
    assert (EL : forall E tr0, ev_list err_text self (map EConst encl ++ [EVar NErr]) ((NErr, VErr (Some (EFrame e))) :: E) tr0
                 = (RVal (encl ++ [VErr (Some (EFrame e))]), (NErr, VErr (Some (EFrame e))) :: E, tr0)).
    { intros E tr0. induction encl as [|v t IH]; cbn [map app ev_list].
      - rewrite ev_EVar, lookup_here. reflexivity.
      - rewrite ev_EConst. cbn [one]. now rewrite IH. }
    rewrite EL. f_equal. f_equal.
    set (L := rev (combine (autos base (length zs)) vs) ++ en).
    rewrite (pop_to_eqlen ((NErr, VErr (Some e)) :: L) ((NErr, VErr (Some (EFrame e))) :: L)) by reflexivity.
    unfold pop_to. cbn [length]. unfold L. rewrite !app_length, !rev_length, !combine_length, !autos_length.
    rewrite Hl. replace (S (Nat.min (length zs) (length zs) + length en) - (Nat.min (length zs) (length zs) + length en))%nat with 1%nat by lia.
    reflexivity.
  Qed.

  Lemma quest_err en x zs vs e encl base tx tr rest : length vs = length zs ->
    stable en x (vs ++ [VErr (Some e)]) tx ->
    exists en', ex (SSeq (quest_prelude x zs encl base) rest) en tr
                = (RRet (encl ++ [VErr (Some (EFrame e))]), en', tr ++ tx).
  Proof. intros Hl Hst. eexists. exact (quest_err_env en x zs vs e encl base tx tr rest Hl Hst). Qed.

  (* inside its enclosing function  func() (rs...) { <hoisted block>; rest }  : on failure the function's
     result is its zero values + the wrapped error, the environment around the call is unchanged, and only
     the wrapped call has run *)
  Lemma quest_err_function en rs x zs vs e encl base tx tr rest : length vs = length zs ->
    stable (rev rs ++ en) x (vs ++ [VErr (Some e)]) tx ->
    ev (EClosure rs (SSeq (quest_prelude x zs encl base) rest)) en tr
    = (RVal (encl ++ [VErr (Some (EFrame e))]), en, tr ++ tx).
  Proof.
    intros Hl Hst. rewrite ev_EClosure. cbv zeta. rewrite (quest_err_env (rev rs ++ en) x zs vs e encl base tx tr rest Hl Hst).
    destruct (encl ++ [VErr (Some (EFrame e))]) as [|v0 r] eqn:E; [destruct encl; discriminate|].
    f_equal. f_equal. rewrite app_assoc. apply pop_to_app.
  Qed.

  Lemma stable_pure en e v t : pure_eval en e v t -> user_only e = true -> stable en e [v] t.
  Proof. intros H U loc tr Hn. apply (pure_eval_sound err_text self). now apply pure_eval_weaken. Qed.

  (* the wrapped call is evaluated exactly once: with an opaque callee f_id the number of calls of
     f_id in the trace grows by one, in every lowering and every outcome *)
  Definition is_call (id : N) (e : event) : bool := match e with Ev i _ => N.eqb i id end.
  Definition calls (id : N) (tr : trace) : nat := length (filter (is_call id) tr).
  Lemma calls_app id a b : calls id (a ++ b) = (calls id a + calls id b)%nat.
  Proof. unfold calls. now rewrite filter_app, app_length. Qed.

  Lemma eval_once_closure id rs k zs vs eo en tr dv td :
    rs = vs ++ [VErr eo] -> length vs = length zs ->
    match k with KDefault d => stable en d [dv] td /\ calls id td = 0%nat | _ => True end ->
    k <> KQuest ->
    calls id (snd (ev (lower_closure k (ECallP id rs) zs) en tr)) = S (calls id tr).
  Proof. intros -> Hl Hk Hq. destruct k as [| |d]; [|congruence|].
    - rewrite (bang_eval en _ zs vs eo [Ev id []] tr Hl (stable_callp en id _)).
      destruct eo; cbn [snd]; rewrite calls_app; unfold calls; cbn; rewrite N.eqb_refl; cbn; lia.
    - destruct Hk as [Hd Hc]. rewrite (default_eval en _ d zs vs eo [Ev id []] dv td tr Hl (stable_callp en id _) Hd).
      destruct eo; cbn [snd]; rewrite !calls_app, ?Hc; unfold calls; cbn; rewrite N.eqb_refl; cbn; lia. Qed.
End C03.
