(* Model of overload declarations: what cl/compile.go preloadFile (OverloadFuncDecl branch) builds — the
   name__k functions of literal candidates, the `onames` list and the Gopo_ constant — with the two decision
   functions overloadFuncName / overloadName taken from Gen/C10.v (translated from the source on every run);
   what gogen's InitThisGopPkgEx reads back from that constant (checkOverloads, checkTypeMethod, the
   reconstruction of literal names: hand-written from gogen's import.go, outside /repo); and first-match
   dispatch (gogen matchFuncCall over TyOverloadFunc/TyOverloadMethod).  No proofs here. *)
From Coq Require Import List NArith ZArith Bool.
Import ListNotations.
From V Require Import Base.Prelude Base.C10Prelude Gen.C10.
Open Scope Z_scope.

(* one candidate of `func name = ( ... )` *)
Inductive style :=
| Lit                 (* *ast.FuncLit *)
| Named (n : str)     (* *ast.Ident *)
| Meth (n : str).     (* *ast.SelectorExpr  (T).n  — the receiver type was checked against the decl's *)

Record cand := mkcand { cstyle : style ; ptypes : list N ; cid : N }.

Record odecl := mkodecl {
  oname : str ;            (* d.Name.Name: identifier, or the operator symbol *)
  orecv : identp ;         (* d.Recv type identifier, None = no receiver *)
  oisop : bool ;           (* d.Operator *)
  oisclass : bool ;        (* d.IsClass *)
  ocands : list cand }.

Definition dot : N := 46.
Definition comma : N := 44.
Definition uscore : N := 95.

(* result of the preload: None = a compile error was reported (handleErrorf) *)
Record pre := mkpre {
  p_const : option (str * str) ;   (* the Gopo_ constant: (name, value), when some candidate is not a literal *)
  p_lits : list (Z * str) }.        (* (idx, name__k) of the functions declared for the literal candidates *)

Fixpoint join_comma (l : list str) : str :=
  match l with
  | [] => []
  | [x] => x
  | x :: t => x ++ comma :: join_comma t
  end.

(* the loop  for idx, fn := range d.Funcs  *)
Fixpoint preload_loop (d : odecl) (idx : Z) (cs : list cand) (onames : list str) (lits : list (Z * str)) (exov : bool)
  : M (option (list str * list (Z * str) * bool)) :=
  match cs with
  | [] => Ok (Some (rev onames, rev lits, exov))
  | c :: t =>
    match cstyle c with
    | Named n =>
        if not_nil (orecv d) && negb (oisop d) && negb (oisclass d) then Ok None        (* "invalid method" *)
        else preload_loop d (idx + 1) t ((if oisclass d then dot :: n else n) :: onames) lits true
    | Meth n =>
        if negb (not_nil (orecv d)) || oisclass d then Ok None                          (* "invalid func" *)
        else preload_loop d (idx + 1) t ((dot :: n) :: onames) lits true
    | Lit =>
        if not_nil (orecv d) && negb (oisop d) && negb (oisclass d) then Ok None        (* "invalid method" *)
        else
          name1 <- gen_overloadFuncName (oname d) idx ;;                                 (* may panic: idx >= 36 *)
          preload_loop d (idx + 1) t ([] :: onames) ((idx, name1) :: lits) exov
    end
  end.

Definition preload_overload (d : odecl) : M (option pre) :=
  r <- preload_loop d 0 (ocands d) [] [] false ;;
  match r with
  | None => Ok None
  | Some (onames, lits, exov) =>
      if exov then
        o <- gen_overloadName (orecv d) (oname d) (oisop d) ;;
        match o with
        | RErr => Ok None                                                                (* "invalid overload operator" *)
        | RVal cname => Ok (Some (mkpre (Some (cname, join_comma onames)) lits))
        end
      else Ok (Some (mkpre None lits))
  end.

(* ---------------- gogen side (import.go) ---------------- *)

(* strings.Split(s, ",") *)
Fixpoint split_comma_aux (s : str) (cur : str) : list str :=
  match s with
  | [] => [rev cur]
  | c :: t => if N.eqb c comma then rev cur :: split_comma_aux t [] else split_comma_aux t (c :: cur)
  end.
Definition split_comma (s : str) : list str := split_comma_aux s [].

(* strings.IndexByte(s, '_') *)
Fixpoint index_uscore (s : str) : option nat :=
  match s with
  | [] => None
  | c :: t => if N.eqb c uscore then Some O else option_map S (index_uscore t)
  end.
(* strings.Index(s, "__") *)
Fixpoint index_dunder (s : str) : option nat :=
  match s with
  | c :: ((c' :: _) as t) => if N.eqb c uscore && N.eqb c' uscore then Some O else option_map S (index_dunder t)
  | _ => None
  end.

(* what scope.Lookup(tname) finds *)
Inductive sobj := SNone | SNamedType | SOther.

Section Scope.
Variable lookup : str -> sobj.

(* checkTypeMethod(scope, name): (receiver type name if a method, method/function name); Panic = log.Panicf *)
Definition check_type_method (name : str) : M (option str * str) :=
  match index_uscore name with
  | None => Ok (None, name)
  | Some pos =>
    let cont (name : str) (pos : nat) (nsep : nat) : M (option str * str) :=
      let tname := firstn pos name in
      let mname := skipn (pos + nsep) name in
      match lookup tname with
      | SNamedType => Ok (Some tname, mname)
      | SOther => Panic
      | SNone => if Nat.eqb nsep 2 then Panic else Ok (None, name)
      end in
    match pos with
    | O =>
        let t := tl name in
        match index_dunder t with
        | None => Ok (None, t)
        | Some O => Ok (None, t)
        | Some p => cont t p 2%nat
        end
    | _ => cont name pos 1%nat
    end
  end.

(* the names InitThisGopPkgEx looks up, entry by entry:  ""  ->  [.]mname__k *)
Fixpoint entries_from (mname : str) (ismethod : bool) (i : Z) (names : list str) : M (list str) :=
  match names with
  | [] => Ok []
  | n :: t =>
      x <- (match n with
            | [] => s <- slice_str gogen_indexTable i (i + 1) ;;
                    Ok ((if ismethod then [dot] else []) ++ mname ++ [uscore; uscore] ++ s)
            | _ => Ok n
            end) ;;
      r <- entries_from mname ismethod (i + 1) t ;;
      Ok (x :: r)
  end.

(* for one Gopo_ constant: (receiver type, overload name, looked-up candidate names in order) *)
Definition decode_gopo (cname cval : str) : M (option str * str * list str) :=
  let key := skipn (length gogen_gopoPrefix) cname in
  tm <- check_type_method key ;;
  let '(tn, mname) := tm in
  es <- entries_from mname (match tn with Some _ => true | None => false end) 0 (split_comma cval) ;;
  Ok (tn, mname, es).

End Scope.

(* ---------------- dispatch: gogen matchFuncCall tries the candidates in order ---------------- *)
Section Resolve.
Context {C A : Type}.
Variable accepts : C -> A -> bool.
Definition resolve (cs : list C) (a : A) : option C := find (fun c => accepts c a) cs.
End Resolve.

(* the instance used by the differential run: typed arguments, a parameter accepts exactly its own type *)
Fixpoint types_eqb (a b : list N) : bool :=
  match a, b with
  | [], [] => true
  | x :: a', y :: b' => N.eqb x y && types_eqb a' b'
  | _, _ => false
  end.
Definition accepts_exact (c : cand) (args : list N) : bool := types_eqb (ptypes c) args.
Definition resolve_exact (cs : list cand) (args : list N) : option N :=
  option_map cid (resolve accepts_exact cs args).

(* name under which candidate k of declaration d must be found by the decoding side *)
Definition expected_entry (d : odecl) (k : Z) (c : cand) : M str :=
  match cstyle c with
  | Named n => Ok (if oisclass d then dot :: n else n)
  | Meth n => Ok (dot :: n)
  | Lit => gen_overloadFuncName (oname d) k
  end.
