(* Model of the mechanisms behind C13 (parser/parser.go, parser/interface.go).  No proofs here.

   (a) parser.error            -> p_error        (same-line discard, bailout above the limit)
       scanner error handler   -> scan_error     (p.errors.Add, no filtering)
       stringLitExpr / tplLit  -> append of a sub-parser's error list
   (b) parser.advance          -> advance        (syncPos / syncCnt)
   (c) parseFile / ParseExprFrom / ParseExprEx  -> file_wrapper / expr_wrapper / exprex_wrapper
       over an ARBITRARY body in the exception monad  outcome
   (d) scanner.ErrorList.Sort  -> sort_errs      (order: line, column, message)

   The limits and comparison operators come from Gen/C13Parser.v (regenerated from the source). *)
From Coq Require Import List NArith ZArith Bool.
Import ListNotations.
From V Require Import Base.Prelude Gen.C13Parser.

(* ------------------------------------------------------------------ (a) errors *)
Record perr := mkErr { e_line : N; e_col : N; e_msg : N }.

(* p.errors[n-1].Pos.Line, n = len(p.errors) *)
Fixpoint last_line (l : list perr) : option N :=
  match l with
  | [] => None
  | [e] => Some (e_line e)
  | _ :: t => last_line t
  end.

(* how a Go function body ends: normal return, panic(bailout{}), any other panic *)
Inductive outcome (A : Type) : Type := Ret (a : A) | Bailout | Raise (v : N).
Arguments Ret {A} a. Arguments Bailout {A}. Arguments Raise {A} v.

(* func (p *parser) error(pos, msg) ; all_errors = (p.mode&AllErrors != 0) *)
Definition p_error (all_errors : bool) (errs : list perr) (e : perr) : outcome unit * list perr :=
  if all_errors then (Ret tt, errs ++ [e])
  else
    let n := zlen errs in
    if Z.gtb n 0 && (match last_line errs with Some l => N.eqb l (e_line e) | None => false end)
    then (Ret tt, errs)                       (* discard - likely a spurious error *)
    else if error_bails n then (Bailout, errs) (* panic(bailout{}) *)
    else (Ret tt, errs ++ [e]).

(* eh := func(pos, msg) { p.errors.Add(pos, msg) } *)
Definition scan_error (errs : list perr) (e : perr) : list perr := errs ++ [e].

(* what a parse does, as far as p.errors and Bad nodes are concerned *)
Inductive event :=
| EvP (e : perr)            (* a call of p.error *)
| EvS (e : perr)            (* a scanner error *)
| EvApp (es : list perr)    (* if err != nil { p.errors = append(p.errors, err...) } of stringLitExpr / tplLit *)
| EvBad                     (* construction of an ast.Bad* node *)
| EvDrop (es : list perr).  (* a sub-parser whose errors are NOT merged (domainTextLitEx) *)

(* run a trace: result = how it ended, p.errors, number of Bad nodes constructed *)
Fixpoint run_events (all_errors : bool) (evs : list event) (errs : list perr) (bad : nat)
  : outcome unit * list perr * nat :=
  match evs with
  | [] => (Ret tt, errs, bad)
  | EvP e :: r =>
      match p_error all_errors errs e with
      | (Ret _, errs') => run_events all_errors r errs' bad
      | (o, errs') => (o, errs', bad)
      end
  | EvS e :: r => run_events all_errors r (scan_error errs e) bad
  | EvApp es :: r => run_events all_errors r (errs ++ es) bad
  | EvBad :: r => run_events all_errors r errs (S bad)
  | EvDrop _ :: r => run_events all_errors r errs bad
  end.

(* ------------------------------------------------------------------ (d) Sort *)
(* ErrorList.Less: Filename (one file here), Line, Column, Msg *)
Definition err_le (a b : perr) : bool :=
  if N.ltb (e_line a) (e_line b) then true else
  if N.ltb (e_line b) (e_line a) then false else
  if N.ltb (e_col a) (e_col b) then true else
  if N.ltb (e_col b) (e_col a) then false else
  N.leb (e_msg a) (e_msg b).

Fixpoint insert_err (e : perr) (l : list perr) : list perr :=
  match l with
  | [] => [e]
  | x :: t => if err_le e x then e :: l else x :: insert_err e t
  end.
Fixpoint sort_errs (l : list perr) : list perr :=
  match l with [] => [] | e :: t => insert_err e (sort_errs t) end.

(* ------------------------------------------------------------------ (c) wrappers *)
(* a body is any function from the initial error list to an outcome and the final error list *)
Definition body (A : Type) := list perr -> outcome A * list perr.

Inductive wres (A : Type) : Type :=
| WRet (a : A) (errs : list perr)   (* normal return: value, error list (err = nil iff errs = []) *)
| WPanic (v : N).                   (* the panic is re-raised to the caller *)
Arguments WRet {A} a errs. Arguments WPanic {A} v.

(* parseFile: var p parser; defer func(){ recover; re-raise non-bailout; if f == nil {f = empty};
   p.errors.Sort(); err = p.errors.Err() }(); p.init; f = p.parseFile() *)
Definition file_wrapper {F : Type} (empty : F) (b : body (option F)) : wres F :=
  match b [] with
  | (Ret (Some f), es) => WRet f (sort_errs es)
  | (Ret None, es) => WRet empty (sort_errs es)
  | (Bailout, es) => WRet empty (sort_errs es)
  | (Raise v, _) => WPanic v
  end.

(* ParseExprFrom: same closure without the nil-file part; expr stays nil on bailout *)
Definition expr_wrapper {E : Type} (b : body E) : wres (option E) :=
  match b [] with
  | (Ret x, es) => WRet (Some x) (sort_errs es)
  | (Bailout, es) => WRet None (sort_errs es)
  | (Raise v, _) => WPanic v
  end.

(* ParseExprEx: p.errors.Sort(); err = p.errors  (the ErrorList itself instead of an error) *)
Definition exprex_wrapper {E : Type} (b : body E) : wres (option E) :=
  match b [] with
  | (Ret x, es) => WRet (Some x) (sort_errs es)
  | (Bailout, es) => WRet None (sort_errs es)
  | (Raise v, _) => WPanic v
  end.

Definition err_is_nil (es : list perr) : bool := match es with [] => true | _ => false end.

(* the body that plays a trace *)
Definition trace_body (all_errors : bool) (evs : list event) : body nat :=
  fun errs0 => match run_events all_errors evs errs0 0 with
               | (Ret _, es, bad) => (Ret bad, es)
               | (Bailout, es, _) => (Bailout, es)
               | (Raise v, es, _) => (Raise v, es)
               end.

(* ------------------------------------------------------------------ (b) advance *)
Record tok := mkTok { t_pos : Z; t_kind : Z }.
Definition in_set (to : list Z) (k : Z) : bool := existsb (Z.eqb k) to.

(* for ; p.tok != token.EOF; p.next() { if to[p.tok] { ... } } ; the stream ends in EOF
   result: remaining stream (head = p.tok), syncPos, syncCnt *)
Fixpoint advance (to : list Z) (ts : list tok) (sp sc : Z) : list tok * Z * Z :=
  match ts with
  | [] => ([], sp, sc)
  | t :: r =>
      if in_set to (t_kind t) then
        if Z.eqb (t_pos t) sp && advance_cnt_ok sc then (ts, sp, sc + 1)
        else if advance_pos_progress (t_pos t) sp then (ts, t_pos t, 0)
        else advance to r sp sc
      else advance to r sp sc
  end.

(* one recovery step of ANY caller: it consumes s_drop tokens itself, then calls advance(s_to) *)
Record step := mkStep { s_drop : nat; s_to : list Z }.
Fixpoint run_steps (steps : list step) (ts : list tok) (sp sc : Z) : list tok * Z * Z :=
  match steps with
  | [] => (ts, sp, sc)
  | s :: r => let '(ts', sp', sc') := advance (s_to s) (skipn (s_drop s) ts) sp sc in run_steps r ts' sp' sc'
  end.

(* observable used by the differential run: position of p.tok after every step (-1 = EOF) *)
Fixpoint run_steps_obs (steps : list step) (ts : list tok) (sp sc : Z) : list Z :=
  match steps with
  | [] => []
  | s :: r => let '(ts', sp', sc') := advance (s_to s) (skipn (s_drop s) ts) sp sc in
              (match ts' with t :: _ => t_pos t | [] => (-1)%Z end) :: run_steps_obs r ts' sp' sc'
  end.

(* the largest number of advance calls that can return without consuming a token *)
Definition advance_slack : nat := Z.to_nat advance_limit + 1.
Definition sync_fuel (ntokens : nat) : nat := (advance_slack + 1) * (ntokens + 1).

(* ------------------------------------------------------------------ (e) if / for-phrase headers
   control skeleton of parser.parseIfHeader and parser.parseForPhraseCond (bodies pinned by hash in
   Gen/C13Parser.v: pinned_bodies).  tokens are abstracted to the classes the code tests; t0 = p.tok
   on entry, t1 = p.tok after the init statement (if any), t2 = p.tok after the separator.
   `stop` is token.LBRACE for the if header, RBRACK / RBRACE / FOR for the for-phrase condition.
   result: (cond == nil before the final "make sure we have a valid AST" fix-up, p.error was called) *)
Inductive tclass := KStop | KSemi | KVar | KOther.
Definition tclass_eqb (a b : tclass) : bool :=
  match a, b with KStop, KStop | KSemi, KSemi | KVar, KVar | KOther, KOther => true | _, _ => false end.

Definition header_skeleton (t0 t1' t2 : tclass) : bool * bool :=
  if tclass_eqb t0 KStop then (false, true)                    (* p.error("missing condition"); cond = Bad; return *)
  else
    let has_init := negb (tclass_eqb t0 KSemi) in               (* if p.tok != SEMICOLON { ... init = parseSimpleStmt } *)
    let err0 := tclass_eqb t0 KVar in                           (* "var declaration not allowed" *)
    let t1 := if has_init then t1' else t0 in                   (* no init statement: the token is still t0 *)
    if negb (tclass_eqb t1 KStop) then
      let semi_valid := tclass_eqb t1 KSemi in
      let err1 := negb semi_valid in                            (* p.expect(token.SEMICOLON) on another token *)
      let has_cond := negb (tclass_eqb t2 KStop) in             (* condStmt = parseSimpleStmt *)
      let err2 := negb has_cond && semi_valid in                (* "missing condition" / "unexpected newline" *)
      (negb has_cond, err0 || err1 || err2)
    else
      (* condStmt = init; init = nil *)
      (negb has_init, err0).
