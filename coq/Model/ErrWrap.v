(* C03 model.  No proofs here.
   lower_closure : cl/expr.go compileErrWrapExpr for `expr!` and `expr?:d`  (closure form)
   lower_quest   : the same function for `expr?` (gogen's CallInlineClosureStart: the closure body
                   is emitted as a block hoisted in front of the enclosing statement, its results
                   are _autoGo_N variables, ReturnErr(true) returns zero values + the error from
                   the enclosing function)
   into MiniGo.  errors.NewFrame(err, ...) is EFrameOf (the err type records the wrapping; its
   root is the original error). *)
From Coq Require Import List ZArith NArith Bool.
Import ListNotations.
From V Require Import Base.Prelude Model.MiniGo.
Open Scope Z_scope.

Inductive ewkind := KBang | KQuest | KDefault (d : expr).

Definition rets (n : nat) : list name := map NRet (seq 0 n).
Definition autos (base n : nat) : list name := map NAuto (seq base n).
Definition nil_err : expr := EConst (VErr None).

(* func() (_gop_ret T1, _gop_ret2 T2, ...) {
     var _gop_err error
     _gop_ret, ..., _gop_err = X
     if _gop_err != nil { [_gop_err = errors.NewFrame(_gop_err, ...); panic(_gop_err)] | [return d] }
     return
   }()                    zs: zero values of T1.. (n = length zs) *)
Definition closure_body (k : ewkind) (x : expr) (n : nat) : stmt :=
  SSeq (SDefine [NErr] [nil_err])
  (SSeq (SAssign (rets n ++ [NErr]) [x])
  (SSeq (SIf (ENeNil (EVar NErr))
             match k with
             | KDefault d => SReturn [d]
             | _ => SSeq (SAssign [NErr] [EFrameOf (EVar NErr)]) (SPanic (EVar NErr))
             end
             SSkip)
        (SReturn []))).

Definition lower_closure (k : ewkind) (x : expr) (zs : list val) : expr :=
  EClosure (combine (rets (length zs)) zs) (closure_body k x (length zs)).

(* var _autoGo_b T1 ...
   { var _gop_err error
     _autoGo_b, ..., _gop_err = X
     if _gop_err != nil { _gop_err = errors.NewFrame(_gop_err, ...); return <zero values of the enclosing function>, _gop_err }
   }
   value: _autoGo_b, ...        encl: zero values of the enclosing function's non-error results *)
Definition quest_prelude (x : expr) (zs : list val) (encl : list val) (base : nat) : stmt :=
  let n := length zs in
  SSeq (SDefine (autos base n) (map EConst zs))
       (SBlock (SSeq (SDefine [NErr] [nil_err])
               (SSeq (SAssign (autos base n ++ [NErr]) [x])
                     (SIf (ENeNil (EVar NErr))
                          (SSeq (SAssign [NErr] [EFrameOf (EVar NErr)])
                                (SReturn (map EConst encl ++ [EVar NErr])))
                          SSkip)))).
Definition quest_value (zs : list val) (base : nat) : list expr := map EVar (autos base (length zs)).

(* what the toolchain accepts (observed; the limits are gogen's, outside /repo):
   `?:d` needs exactly one value; `?` works for zero or one value and is rejected for two or more
   ("assignment mismatch: 2 variables but 1 values") *)
Definition accepted (k : ewkind) (n : nat) : bool :=
  match k with
  | KBang => true
  | KQuest => Nat.leb n 1
  | KDefault _ => Nat.eqb n 1
  end.

(* ---- the programs of the differential run: an enclosing function  func() (int, error)  using the
   wrapped call at one position ---- *)
Inductive position := PStmt | PDefine | PAssign | PArg | PNested | PIfCond.

Definition uname (n : N) : name := NUser n.
(* observation of the values: probe 100+i logs value i *)
Fixpoint observe (i : N) (es : list expr) : stmt :=
  match es with [] => SSkip | e :: t => SSeq (SExpr (EProbe (100 + i) e)) (observe (i + 1) t) end.

Definition first_or_zero (es : list expr) : expr :=
  match es with e :: _ => e | [] => EConst (VInt 0) end.

(* the statement(s) using the values `vals` of the wrapped call at the position *)
Definition use_at (pos : position) (zs : list val) (vals : list expr) : stmt :=
  match pos with
  | PStmt => SExpr (EProbe 90 (EConst (VInt 0)))                    (* f()K  ;  after() *)
  | PDefine => SSeq (SDefine (map uname (map N.of_nat (seq 0 (length zs)))) vals)      (* x, y := f()K *)
                    (observe 0 (map (fun i => EVar (uname (N.of_nat i))) (seq 0 (length zs))))
  | PAssign => SSeq (SDefine (map uname (map N.of_nat (seq 0 (length zs)))) (map EConst zs))   (* var x T; x = f()K *)
               (SSeq (SAssign (map uname (map N.of_nat (seq 0 (length zs)))) vals)
                     (observe 0 (map (fun i => EVar (uname (N.of_nat i))) (seq 0 (length zs)))))
  | PArg => observe 0 vals                                           (* g(f()K) : g logs its arguments *)
  | PNested => SExpr (EProbe 80 (EBin BAdd (EProbe 81 (EConst (VInt 1))) (first_or_zero vals)))   (* h(g(1) + f()K) *)
  | PIfCond => SIf (EBin BGt (first_or_zero vals) (EConst (VInt 0))) (SExpr (EProbe 90 (EConst (VInt 1)))) SSkip   (* if f()K > 0 { after(1) } *)
  end.

(* values of a closure-form errwrap at a position: one multi-valued closure call *)
Definition case_body (k : ewkind) (x : expr) (zs : list val) (pos : position) : stmt :=
  match k with
  | KQuest =>
      SSeq (quest_prelude x zs [VInt 0] 1)
      (SSeq (use_at pos zs (quest_value zs 1))
            (SReturn [EConst (VInt 7); nil_err]))
  | _ =>
      let c := lower_closure k x zs in
      SSeq (match pos, zs with
            | PStmt, _ => SSeq (SExpr c) (SExpr (EProbe 90 (EConst (VInt 0))))
            | PNested, _ => SExpr (EProbe 80 (EBin BAdd (EProbe 81 (EConst (VInt 1))) c))
            | PIfCond, _ => SIf (EBin BGt c (EConst (VInt 0))) (SExpr (EProbe 90 (EConst (VInt 1)))) SSkip
            | PArg, _ =>
                (* g(f()!) with several values: the tuple is spread over g's parameters *)
                SSeq (SDefine (map uname (map N.of_nat (seq 0 (length zs)))) [c])
                     (observe 0 (map (fun i => EVar (uname (N.of_nat i))) (seq 0 (length zs))))
            | PDefine, _ => SSeq (SDefine (map uname (map N.of_nat (seq 0 (length zs)))) [c])
                                 (observe 0 (map (fun i => EVar (uname (N.of_nat i))) (seq 0 (length zs))))
            | PAssign, _ => SSeq (SDefine (map uname (map N.of_nat (seq 0 (length zs)))) (map EConst zs))
                            (SSeq (SAssign (map uname (map N.of_nat (seq 0 (length zs)))) [c])
                                  (observe 0 (map (fun i => EVar (uname (N.of_nat i))) (seq 0 (length zs)))))
            end)
           (SReturn [EConst (VInt 7); nil_err])
  end.

(* the enclosing function  func() (r int, err error) { body }()  ; None = rejected by the compiler *)
(* `if f()? > 0 {...}`: the hoisted block lands in the if statement's init clause and the compiler reports
   "if statement has too many init statements"; `f1()?` as a statement leaves the bare expression statement
   `_autoGo_N`, which the Go compiler rejects ("is not used")  (both observed) *)
Definition accepted_at (k : ewkind) (n : nat) (pos : position) : bool :=
  match k, pos with
  | KQuest, PIfCond => false
  | KQuest, PStmt => Nat.eqb n 0
  | _, _ => true
  end.

Definition case_prog (k : ewkind) (x : expr) (zs : list val) (pos : position) : option expr :=
  if accepted k (length zs) && accepted_at k (length zs) pos then
    Some (EClosure [(uname 1000, VInt 0); (uname 1001, VErr None)] (case_body k x zs pos))
  else None.

(* the wrapped call as an operand of other operators:  x := <tree>; observe(x)  inside func() (int, error);
   pre = the hoisted block of an `expr?` leaf (SSkip if none) *)
Definition opctx_prog (pre : stmt) (tree : expr) (probe : N) : expr :=
  EClosure [(uname 1000, VInt 0); (uname 1001, VErr None)]
    (SSeq pre (SSeq (SDefine [uname 1] [tree])
              (SSeq (SExpr (EProbe probe (EVar (uname 1)))) (SReturn [EConst (VInt 7); nil_err])))).
