(* C18 — model of ast.Walk / ast.Inspect (ast/walk.go) over the generic tree.
   The per-kind behaviour of the type switch is DATA (a table of steps, regenerated from the
   source into Gen/AstWalk.v); this file is the interpreter of such a table, the specification
   it is compared with, and the decidable obligation on tables.  No proofs here. *)
From Coq Require Import List String ZArith NArith Bool.
Import ListNotations.
From V Require Import Base.Prelude Base.AstTree.
Open Scope string_scope.
Open Scope list_scope.

(* ------------------------------------------------------------------ the interpreter *)

(* Walk(v, x): x must be a node; a nil interface reaches the panicking default case, a nil
   pointer is dereferenced by its case *)
Definition node_of (v : value) : M node := match v with VNode n => Ok n | _ => Panic end.

Fixpoint nodes_of (l : list value) : M (list node) :=
  match l with
  | [] => Ok []
  | x :: t => n <- node_of x ;; r <- nodes_of t ;; Ok (n :: r)
  end.

Fixpoint rows_of (l : list value) : M (list node) :=
  match l with
  | [] => Ok []
  | VList row :: t => a <- nodes_of row ;; r <- rows_of t ;; Ok (a ++ r)
  | _ :: _ => Panic
  end.

(* for _, part := range Parts { if e, ok := part.(Expr); ok { Walk(v, e) } } *)
Fixpoint parts_of (l : list value) : list node :=
  match l with
  | [] => []
  | VNode n :: t => n :: parts_of t
  | _ :: t => parts_of t
  end.

(* the nodes one step hands to Walk, in order; h is the struct whose field is read *)
Definition shape_children (h : node) (sh : shape) (f : string) (guard : bool) : M (list node) :=
  match sh with
  | SNode => match get f h with
             | VNode c => Ok [c]
             | VNil => if guard then Ok [] else Panic
             | _ => Panic
             end
  | SList | SMap => match get f h with VList l => nodes_of l | VNil => Ok [] | _ => Panic end
  | SListList => match get f h with VList l => rows_of l | VNil => Ok [] | _ => Panic end
  | SParts => match get f h with VList l => Ok (parts_of l) | VNil => Ok [] | _ => Panic end
  end.

Definition flag_set (o : option string) (n : node) : bool :=
  match o with Some b => get_bool b n | None => false end.

Definition step_children (n : node) (s : wstep) : M (list node) :=
  if flag_set (w_unless s) n then Ok [] else
  match w_via s with
  | None => shape_children n (w_shape s) (w_field s) (w_guard s)
  | Some (rf, rk, g) =>
      match get rf n with
      | VRec r => if String.eqb (kind r) rk
                  then shape_children r (w_shape s) (w_field s) (w_guard s)
                  else Ok []                       (* another case of the inner type switch *)
      | VNil => if g then Ok [] else Panic          (* n.Extra.Parts with n.Extra == nil *)
      | VOther => Ok []                             (* an `any` holding a foreign value: no case matches *)
      | _ => Panic
      end
  end.

Fixpoint mapcat {A B} (f : A -> M (list B)) (l : list A) : M (list B) :=
  match l with
  | [] => Ok []
  | x :: t => a <- f x ;; r <- mapcat f t ;; Ok (a ++ r)
  end.

Definition walk_table_t := list (string * list wstep).

(* the children the switch of Walk walks for n, in order; no case = the panicking default *)
Definition table_children (T : walk_table_t) (n : node) : M (list node) :=
  match assoc (kind n) T with
  | None => Panic
  | Some steps => mapcat (step_children n) steps
  end.

Section Walk.
  Context {V : Type}.                      (* visitor states *)
  Context (visit : V -> node -> option V). (* v.Visit(node): None = returned nil *)

  Inductive event := EVisit (v : V) (n : node) | ENil (v : V).

  (* func Walk(v Visitor, node Node): recursion depth <= depth of the tree, fuel makes it explicit *)
  Fixpoint walk (fuel : nat) (T : walk_table_t) (v : V) (n : node) : M (list event) :=
    match fuel with
    | O => OutOfFuel
    | S f =>
        match visit v n with
        | None => Ok [EVisit v n]
        | Some w =>
            cs <- table_children T n ;;
            es <- mapcat (walk f T w) cs ;;
            Ok (EVisit v n :: es ++ [ENil w])
        end
    end.

  Definition walk_tree (T : walk_table_t) (v : V) (t : node) : M (list event) := walk (nsize t) T v t.

  Definition enters (es : list event) : list node :=
    flat_map (fun e => match e with EVisit _ n => [n] | ENil _ => [] end) es.
End Walk.
Arguments EVisit {V}. Arguments ENil {V}.

(* ast.Inspect(node, f): the visitor is f itself, it continues where f returns true *)
Definition inspect_visit (f : node -> bool) (_ : unit) (n : node) : option unit :=
  if f n then Some tt else None.
Definition inspect (T : walk_table_t) (f : node -> bool) (t : node) : M (list (@event unit)) :=
  walk_tree (inspect_visit f) T tt t.

(* ------------------------------------------------------------------ the specification *)

(* Source order of the children of every node kind, written from the grammar comments of
   ast/ast.go and ast/ast_gop.go (NOT from the struct declaration order, NOT from walk.go):
   e.g.  ForPhrase ::= "for" [Key ","] Value "in" X ["if" [Init ";"] Cond]. *)
Record titem := TItem {
  t_unless : option string;           (* not a source child when this flag of the node is set *)
  t_via : option (string * string);   (* the child hangs below the record in field f when it has kind k *)
  t_field : string
}.
Definition C (f : string) := TItem None None f.
Definition U (flag f : string) := TItem (Some flag) None f.
Definition R (rf rk f : string) := TItem None (Some (rf, rk)) f.

Definition src_template : list (string * list titem) :=
  [ ("Comment", []);
    ("CommentGroup", [C "List"]);
    ("Field", [C "Doc"; C "Names"; C "Type"; C "Tag"; C "Comment"]);
    ("FieldList", [C "List"]);
    ("BadExpr", []); ("Ident", []); ("NumberUnitLit", []);
    (* "..${expr}.." : the interpolated expressions, left to right *)
    ("BasicLit", [R "Extra" "StringLitEx" "Parts"]);
    (* domain`> arg1, arg2 \n text` *)
    ("DomainTextLit", [C "Domain"; R "Extra" "StringLitEx" "Parts"; R "Extra" "DomainTextLitEx" "Args"]);
    ("Ellipsis", [C "Elt"]);
    ("FuncLit", [C "Type"; C "Body"]);
    ("CompositeLit", [C "Type"; C "Elts"]);
    ("ParenExpr", [C "X"]);
    ("SelectorExpr", [C "X"; C "Sel"]);
    ("IndexExpr", [C "X"; C "Index"]);
    ("IndexListExpr", [C "X"; C "Indices"]);
    ("SliceExpr", [C "X"; C "Low"; C "High"; C "Max"]);
    ("TypeAssertExpr", [C "X"; C "Type"]);
    ("CallExpr", [C "Fun"; C "Args"]);
    ("StarExpr", [C "X"]);
    ("UnaryExpr", [C "X"]);
    ("BinaryExpr", [C "X"; C "Y"]);
    ("KeyValueExpr", [C "Key"; C "Value"]);
    ("ArrayType", [C "Len"; C "Elt"]);
    ("StructType", [C "Fields"]);
    (* func [TypeParams] (Params) Results *)
    ("FuncType", [C "TypeParams"; C "Params"; C "Results"]);
    ("InterfaceType", [C "Methods"]);
    ("MapType", [C "Key"; C "Value"]);
    ("ChanType", [C "Value"]);
    ("BadStmt", []);
    ("DeclStmt", [C "Decl"]);
    ("EmptyStmt", []);
    ("LabeledStmt", [C "Label"; C "Stmt"]);
    ("ExprStmt", [C "X"]);
    ("SendStmt", [C "Chan"; C "Values"]);
    ("IncDecStmt", [C "X"]);
    ("AssignStmt", [C "Lhs"; C "Rhs"]);
    ("GoStmt", [C "Call"]);
    ("DeferStmt", [C "Call"]);
    ("ReturnStmt", [C "Results"]);
    ("BranchStmt", [C "Label"]);
    ("BlockStmt", [C "List"]);
    ("IfStmt", [C "Init"; C "Cond"; C "Body"; C "Else"]);
    ("CaseClause", [C "List"; C "Body"]);
    ("SwitchStmt", [C "Init"; C "Tag"; C "Body"]);
    ("TypeSwitchStmt", [C "Init"; C "Assign"; C "Body"]);
    ("CommClause", [C "Comm"; C "Body"]);
    ("SelectStmt", [C "Body"]);
    ("ForStmt", [C "Init"; C "Cond"; C "Post"; C "Body"]);
    (* for Key, Value := range X Body *)
    ("RangeStmt", [C "Key"; C "Value"; C "X"; C "Body"]);
    ("ImportSpec", [C "Doc"; C "Name"; C "Path"; C "Comment"]);
    (* Names Type "tag" = Values *)
    ("ValueSpec", [C "Doc"; C "Names"; C "Type"; C "Tag"; C "Values"; C "Comment"]);
    ("TypeSpec", [C "Doc"; C "Name"; C "TypeParams"; C "Type"; C "Comment"]);
    ("BadDecl", []);
    ("GenDecl", [C "Doc"; C "Specs"]);
    (* the synthesised entry of a script-style file (Shadow) has no header in the source *)
    ("FuncDecl", [U "Shadow" "Doc"; U "Shadow" "Recv"; U "Shadow" "Name"; U "Shadow" "Type"; C "Body"]);
    (* a file without package clause carries a synthesised Name *)
    ("File", [C "Doc"; U "NoPkgDecl" "Name"; C "Decls"]);
    ("Package", [C "Files"]);
    ("SliceLit", [C "Elts"]);
    ("MatrixLit", [C "Elts"]);
    ("ElemEllipsis", [C "Elt"]);
    ("LambdaExpr", [C "Lhs"; C "Rhs"]);
    ("LambdaExpr2", [C "Lhs"; C "Body"]);
    (* for Key, Value in X if Init; Cond *)
    ("ForPhrase", [C "Key"; C "Value"; C "X"; C "Init"; C "Cond"]);
    ("ComprehensionExpr", [C "Elt"; C "Fors"]);
    ("ForPhraseStmt", [C "ForPhrase"; C "Body"]);
    ("RangeExpr", [C "First"; C "Last"; C "Expr3"]);
    ("ErrWrapExpr", [C "X"; C "Default"]);
    (* func (Recv) Name = ( Funcs ) *)
    ("OverloadFuncDecl", [C "Doc"; C "Recv"; C "Name"; C "Funcs"]);
    ("EnvExpr", [C "Name"]) ].

(* fields that hold nodes but are not children (the Reading of C18 says so):
   File.Imports / File.Comments / File.ShadowEntry alias nodes reachable through Decls;
   the header of a Shadow FuncDecl and the Name of a file without package clause are synthesised *)
Definition always_excluded : list (string * string) :=
  [("File", "Imports"); ("File", "Comments"); ("File", "ShadowEntry")].
Definition excluded_when : list (string * string * string) :=
  [("File", "Name", "NoPkgDecl");
   ("FuncDecl", "Doc", "Shadow"); ("FuncDecl", "Recv", "Shadow");
   ("FuncDecl", "Name", "Shadow"); ("FuncDecl", "Type", "Shadow")].

Definition always_excl (k f : string) : bool :=
  existsb (fun kf => String.eqb (fst kf) k && String.eqb (snd kf) f) always_excluded.

Definition cond_of (k f : string) : option string :=
  match find (fun kfb => match kfb with (k', g, _) => String.eqb k k' && String.eqb f g end) excluded_when with
  | Some (_, _, b) => Some b
  | None => None
  end.

Definition excluded (n : node) (f : string) : bool :=
  always_excl (kind n) f || flag_set (cond_of (kind n) f) n.

Definition item_nodes (n : node) (it : titem) : list node :=
  if flag_set (t_unless it) n then [] else
  match t_via it with
  | None => value_nodes (get (t_field it) n)
  | Some (rf, rk) =>
      match get rf n with
      | VRec r => if String.eqb (kind r) rk then value_nodes (get (t_field it) r) else []
      | _ => []
      end
  end.

(* the children of n in source order *)
Definition src_children (n : node) : list node :=
  match assoc (kind n) src_template with
  | Some its => flat_map (item_nodes n) its
  | None => []
  end.

(* every node held by a non-excluded field, in declaration order: the template-free notion of "child" *)
Definition all_children (n : node) : list node :=
  fields_nodes (filter (fun fx => negb (excluded n (fst fx))) (fields n)).

(* everything below t through non-excluded fields, t included *)
Fixpoint reach (n : node) : list node :=
  match n with
  | Node i k fs =>
      n :: (fix go (l : list (string * value)) : list node :=
              match l with
              | [] => []
              | (f, x) :: t => (if excluded n f then [] else reach_v x) ++ go t
              end) fs
  end
with reach_v (v : value) : list node :=
  match v with
  | VNode n => reach n
  | VRec (Node _ _ fs) =>
      (fix go (l : list (string * value)) : list node :=
         match l with [] => [] | (_, x) :: t => reach_v x ++ go t end) fs
  | VList l =>
      (fix go (l : list value) : list node :=
         match l with [] => [] | x :: t => reach_v x ++ go t end) l
  | _ => []
  end.

Section Spec.
  Context {V : Type} (visit : V -> node -> option V).

  (* the visitor call sequence the property demands: the node, then (unless the visitor returned
     nil) each child in source order with the returned visitor, then Visit(nil) *)
  Inductive walks : V -> node -> list (@event V) -> Prop :=
  | walks_prune v n : visit v n = None -> walks v n [EVisit v n]
  | walks_desc v w n ess :
      visit v n = Some w ->
      Forall2 (walks w) (src_children n) ess ->
      walks v n (EVisit v n :: List.concat ess ++ [ENil w]).
End Spec.

(* ------------------------------------------------------------------ well-formed trees *)

Definition is_vnode (v : value) : bool := match v with VNode _ => true | _ => false end.
Definition is_atom (v : value) : bool :=
  match v with VNode _ | VRec _ | VList _ => false | _ => true end.

(* a field value has the shape its declared class allows (records excluded) *)
Definition conforms0 (c : fclass) (v : value) : bool :=
  match c with
  | FNode opt => match v with VNode _ => true | VNil => opt | _ => false end
  | FList | FMap => match v with VList l => forallb is_vnode l | _ => false end
  | FListList => match v with
                 | VList l => forallb (fun r => match r with VList row => forallb is_vnode row | _ => false end) l
                 | _ => false
                 end
  | FParts => match v with
              | VList l => forallb (fun x => match x with VNode _ | VStr _ => true | _ => false end) l
              | _ => false
              end
  | FRec _ _ => false
  | _ => is_atom v
  end.

Fixpoint conforms_fields (cv : fclass -> value -> bool) (sf : list (string * fclass)) (fs : list (string * value)) : bool :=
  match sf, fs with
  | [], [] => true
  | (f, c) :: sf', (g, v) :: fs' => String.eqb f g && cv c v && conforms_fields cv sf' fs'
  | _, _ => false
  end.

Definition struct_table := list (string * list (string * fclass)).

Definition conforms (Rs : struct_table) (c : fclass) (v : value) : bool :=
  match c with
  | FRec opt kinds =>
      match v with
      | VNil | VOther => opt
      | VRec r => existsb (String.eqb (kind r)) kinds &&
                  match assoc (kind r) Rs with
                  | Some rsf => conforms_fields conforms0 rsf (fields r)
                  | None => false
                  end
      | _ => false
      end
  | _ => conforms0 c v
  end.

(* the node has exactly the fields of its struct, each of the documented shape; in particular
   every child not documented "or nil" is present *)
(* the fields the Reading excludes from "child" (aliases) are not required to be present *)
Definition relax (k : string) (fc : string * fclass) : string * fclass :=
  if always_excl k (fst fc)
  then (fst fc, match snd fc with FNode _ => FNode true | c => c end)
  else fc.
Definition eff_struct (k : string) (sf : list (string * fclass)) : list (string * fclass) := map (relax k) sf.

Definition wf_node (S Rs : struct_table) (n : node) : bool :=
  match assoc (kind n) S with
  | Some sf => conforms_fields (conforms Rs) (eff_struct (kind n) sf) (fields n)
  | None => false
  end.

Definition wf_tree (S Rs : struct_table) (t : node) : bool := forallb (wf_node S Rs) (subnodes t).

(* ------------------------------------------------------------------ the obligation on tables *)

Definition opt_str_eqb (a b : option string) : bool :=
  match a, b with
  | None, None => true
  | Some x, Some y => String.eqb x y
  | _, _ => false
  end.

(* step s of the code is template item it, guards forgotten *)
Definition step_matches (s : wstep) (it : titem) : bool :=
  opt_str_eqb (w_unless s) (t_unless it) &&
  match w_via s, t_via it with
  | None, None => true
  | Some (rf, rk, _), Some (rf', rk') => String.eqb rf rf' && String.eqb rk rk'
  | _, _ => false
  end &&
  String.eqb (w_field s) (t_field it).

Fixpoint forall2b {A B} (p : A -> B -> bool) (l : list A) (m : list B) : bool :=
  match l, m with
  | [], [] => true
  | x :: l', y :: m' => p x y && forall2b p l' m'
  | _, _ => false
  end.

(* the shape a step walks fits the declared class, and an optional child is guarded *)
Definition shape_class_ok (sh : shape) (guard : bool) (c : fclass) : bool :=
  match sh, c with
  | SNode, FNode opt => implb opt guard
  | SList, FList => true
  | SMap, FMap => true
  | SListList, FListList => true
  | SParts, FParts => true
  | _, _ => false
  end.

Definition step_ok (Rs : struct_table) (sf : list (string * fclass)) (s : wstep) : bool :=
  match w_via s with
  | None => match assoc (w_field s) sf with
            | Some c => shape_class_ok (w_shape s) (w_guard s) c
            | None => false
            end
  | Some (rf, rk, g) =>
      match assoc rf sf with
      | Some (FRec opt kinds) =>
          implb opt g && existsb (String.eqb rk) kinds &&
          match assoc rk Rs with
          | Some rsf => match assoc (w_field s) rsf with
                        | Some c => shape_class_ok (w_shape s) (w_guard s) c
                        | None => false
                        end
          | None => false
          end
      | _ => false
      end
  end.

Definition bearing (c : fclass) : bool :=
  match c with FNode _ | FList | FListList | FMap | FParts | FRec _ _ => true | _ => false end.

Definition mem (x : string) (l : list string) : bool := existsb (String.eqb x) l.
Fixpoint nodupb (l : list string) : bool :=
  match l with [] => true | x :: t => negb (mem x t) && nodupb t end.
Definition same_set (a b : list string) : bool :=
  nodupb a && nodupb b && forallb (fun x => mem x b) a && forallb (fun x => mem x a) b.

Fixpoint dedup (l : list string) : list string :=
  match l with [] => [] | x :: t => if mem x t then dedup t else x :: dedup t end.

Definition is_direct (it : titem) : bool := match t_via it with None => true | Some _ => false end.
Definition via_is (rf rk : string) (it : titem) : bool :=
  match t_via it with Some (a, b) => String.eqb a rf && String.eqb b rk | None => false end.
Definition keep (k : string) (fc : string * fclass) : bool :=
  bearing (snd fc) && negb (always_excl k (fst fc)).

(* the items below record field rf for record kind rk name every node-bearing field of that record once *)
Definition rec_complete (Rs : struct_table) (rf rk : string) (its : list titem) : bool :=
  match assoc rk Rs with
  | Some rsf => nodupb (map fst rsf) &&
                same_set (map t_field (filter (via_is rf rk) its)) (map fst (filter (fun fc => bearing (snd fc)) rsf))
  | None => false
  end.

(* the template names every node-bearing field of the struct exactly once (through the record
   for an FRec field; at most one such field per kind), except the fields the Reading excludes,
   and with exactly the stated conditions *)
Definition template_complete (Rs : struct_table) (k : string) (sf : list (string * fclass)) (its : list titem) : bool :=
  let directs := map t_field (filter is_direct its) in
  let vias := dedup (flat_map (fun it => match t_via it with Some (rf, _) => [rf] | None => [] end) its) in
  nodupb (map fst sf) &&
  same_set (directs ++ vias) (map fst (filter (keep k) sf)) &&
  forallb (fun it => if is_direct it then opt_str_eqb (t_unless it) (cond_of k (t_field it))
                     else opt_str_eqb (t_unless it) None) its &&
  match vias with
  | [] => true
  | [rf] =>
      opt_str_eqb (cond_of k rf) None &&
      match assoc rf sf with
      | Some (FRec _ kinds) =>
          forallb (fun rk => rec_complete Rs rf rk its) kinds &&
          forallb (fun it => is_direct it || existsb (fun rk => via_is rf rk it) kinds) its
      | _ => false
      end
  | _ => false
  end.

(* everything the theorems need from the regenerated tables: T = walk table, S = node structs,
   Rs = record structs.  Decidable, discharged by vm_compute on Gen/*. *)
Definition kind_ok (T : walk_table_t) (Rs : struct_table) (ksf : string * list (string * fclass)) : bool :=
  let (k, sf0) := ksf in
  let sf := eff_struct k sf0 in
  match assoc k T, assoc k src_template with
  | Some steps, Some its =>
      forall2b step_matches steps its && forallb (step_ok Rs sf) steps && template_complete Rs k sf its
  | _, _ => false
  end.

Definition table_ok (T : walk_table_t) (S Rs : struct_table) : bool :=
  forallb (kind_ok T Rs) S.
