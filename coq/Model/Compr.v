(* C02 model.  No proofs here.
   lower_comprehension : cl/expr.go compileComprehensionExpr  (closure with _gop_ret / _gop_ok, the
                         for-phrases pushed in REVERSE so that the last one is the outermost loop,
                         an `if` per filter, append / index-assign / return elt[,true], trailing return)
   lower_forphrase     : cl/stmt.go compileForPhraseStmt (container form)
   lower_send          : cl/stmt.go compileSendStmt + isAppendable (slice target: a = append(a, v...))
   spec_*              : the documented meaning, as a definitional interpreter of the sugar: nested
                         loops, outermost = last phrase, filter after binding, results accumulated in
                         iteration order, first match for select/exists.

   An operand (container, filter, element) is a MiniGo expression together with its meaning, a function
   of the USER-visible environment (compiler-generated names are stripped) and the trace so far:
     pure_op e          constants, user variables, probe calls, arithmetic (pev)
     comp_op k zero ps  a NESTED comprehension (or a func literal with a for-in loop building the same
                        value) used as an operand: its expression is its own lowering, its meaning its own
                        spec_comprehension -- to any depth, since ps may again contain comp_op operands. *)
From Coq Require Import List ZArith NArith Bool.
Import ListNotations.
From V Require Import Base.Prelude Model.MiniGo.
Open Scope Z_scope.

Record operand := { op_e : expr; op_f : env -> trace -> option (val * trace) }.

(* for k, v <- x if cond     (k optional; v = None is the blank identifier `_`) *)
Record phrase := { ph_key : option name; ph_val : option name; ph_x : operand; ph_cond : option operand }.

Inductive ckind :=
  | CList (elt : operand)                    (* [elt for ...]            *)
  | CMap (k v : operand)                     (* {k: v for ...}           *)
  | CSelect (elt : operand) (two : bool)     (* {elt for ...}  / v, ok := {elt for ...} *)
  | CExists.                                 (* {for ...}                *)

Definition wrap (p : phrase) (inner : stmt) : stmt :=
  SRange (ph_key p) (ph_val p) (op_e (ph_x p))
         match ph_cond p with Some c => SIf (op_e c) inner SSkip | None => inner end.

(* phrases in source order: the first is the innermost loop *)
Fixpoint nest (ps : list phrase) (inner : stmt) : stmt :=
  match ps with [] => inner | p :: t => nest t (wrap p inner) end.

Definition results_of (k : ckind) (zero : val) : list (name * val) :=
  match k with
  | CList _ => [(NRet 0, VList [])]
  | CMap _ _ => [(NRet 0, VMap [])]            (* nil map; `_gop_ret = map[K]V{}` is the first statement *)
  | CSelect _ false => [(NRet 0, zero)]
  | CSelect _ true => [(NRet 0, zero); (NOk, VBool false)]
  | CExists => [(NOk, VBool false)]
  end.

Definition innermost (k : ckind) : stmt :=
  match k with
  | CList elt => SAssign [NRet 0] [EAppend (EVar (NRet 0)) (op_e elt)]
  | CMap ke ve => SSetIndex (NRet 0) (op_e ke) (op_e ve)
  | CSelect elt two => SReturn (op_e elt :: if two then [EConst (VBool true)] else [])
  | CExists => SReturn [EConst (VBool true)]
  end.

Definition prologue (k : ckind) : stmt :=
  match k with CMap _ _ => SAssign [NRet 0] [EConst (VMap [])] | _ => SSkip end.

(* a blank value variable without a key (`for _ <- x`) is emitted as `for range x` (names = nil in
   compileComprehensionExpr / compileForPhraseStmt): SRange None None *)
Definition lower_comprehension (k : ckind) (zero : val) (ps : list phrase) : expr :=
  EClosure (results_of k zero) (SSeq (prologue k) (SSeq (nest ps (innermost k)) (SReturn []))).

(* for k, v <- x if cond { body } *)
Definition lower_forphrase (p : phrase) (body : stmt) : stmt := wrap p body.

(* a <- v1, v2, ...   with a a slice variable:  a = append(a, v1, v2, ...) *)
Definition lower_send (a : name) (vs : list expr) : stmt :=
  SAssign [a] [fold_left EAppend vs (EVar a)].
(* a <- b...  :  a = append(a, b...) *)
Definition lower_send_all (a : name) (b : expr) : stmt := SAssign [a] [EAppendAll (EVar a) b].

(* ---------------------------------------------------------------- pure operand expressions *)
Fixpoint pev (en : env) (e : expr) : option (val * trace) :=
  match e with
  | EConst v => Some (v, [])
  | EVar x => if is_user x then match lookup en x with Some v => Some (v, []) | None => None end else None
  | EProbe id a => match pev en a with Some (v, t) => Some (v, t ++ [Ev id [v]]) | None => None end
  | EBin op a b =>
    match pev en a with
    | Some (x, ta) =>
      match pev en b with
      | Some (y, tb) => match bin_eval op x y with RVal v => Some (v, ta ++ tb) | _ => None end
      | None => None
      end
    | None => None
    end
  | _ => None
  end.

Definition pure_op (e : expr) : operand :=
  {| op_e := e; op_f := fun en tr => match pev en e with Some (v, t) => Some (v, tr ++ t) | None => None end |}.

(* the user-visible part of an environment *)
Definition strip (en : env) : env := filter (fun p => is_user (fst p)) en.

(* ---------------------------------------------------------------- the documented meaning *)
(* state of a comprehension: the accumulated value; a body either continues with a new state or
   returns (select / exists) *)
Inductive step := Cont (acc : val) | Done (vs : list val).
Definition body_fn := env -> val -> trace -> option (step * trace).

Definition bind_kv (p : phrase) (kv vv : val) (en : env) : env :=
  bind_opt (ph_val p) vv (bind_opt (ph_key p) kv en).

(* one for-phrase around a body: evaluate the container once, then for each item in order bind the
   variables, evaluate the filter, run the body; stop at the first Done *)
Definition spec_items (p : phrase) (F : body_fn) (en : env) : list (val * val) -> val -> trace -> option (step * trace) :=
  fix go (l : list (val * val)) (acc : val) (tr : trace) : option (step * trace) :=
    match l with
    | [] => Some (Cont acc, tr)
    | (kv, vv) :: t =>
      let en' := bind_kv p kv vv en in
      let run := match ph_cond p with
                 | None => F en' acc tr
                 | Some c => match op_f c en' tr with
                             | Some (VBool true, tr1) => F en' acc tr1
                             | Some (VBool false, tr1) => Some (Cont acc, tr1)
                             | _ => None
                             end
                 end in
      match run with
      | Some (Cont acc', tr') => go t acc' tr'
      | r => r
      end
    end.

Definition spec_wrap (p : phrase) (F : body_fn) : body_fn :=
  fun en acc tr =>
    match op_f (ph_x p) en tr with
    | Some (c, tr1) =>
      match range_of c with
      | Items l => spec_items p F en l acc tr1
      | _ => None
      end
    | None => None
    end.

(* phrases in source order (first = innermost), exactly like `nest` *)
Fixpoint spec_nest (ps : list phrase) (F : body_fn) : body_fn :=
  match ps with [] => F | p :: t => spec_nest t (spec_wrap p F) end.

Definition spec_inner (k : ckind) : body_fn :=
  fun en acc tr =>
    match k with
    | CList elt =>
      match acc, op_f elt en tr with
      | VList l, Some (v, tr1) => Some (Cont (VList (l ++ [v])), tr1)
      | _, _ => None
      end
    | CMap ke ve =>
      match acc, op_f ke en tr with
      | VMap l, Some (kv, tr1) =>
        match op_f ve en tr1 with
        | Some (vv, tr2) => Some (Cont (VMap (map_set l kv vv key_eqb)), tr2)
        | None => None
        end
      | _, _ => None
      end
    | CSelect elt two =>
      match op_f elt en tr with
      | Some (v, tr1) => Some (Done (v :: if two then [VBool true] else []), tr1)
      | None => None
      end
    | CExists => Some (Done [VBool true], tr)
    end.

Definition spec_init (k : ckind) (zero : val) : val :=
  match k with CList _ => VList [] | CMap _ _ => VMap [] | CSelect _ _ => zero | CExists => VBool false end.

(* the value(s) of the comprehension, in the user-visible environment en *)
Definition spec_comprehension (k : ckind) (zero : val) (ps : list phrase) (en : env) (tr : trace) : option (list val * trace) :=
  match spec_nest ps (spec_inner k) en (spec_init k zero) tr with
  | Some (Cont acc, tr') =>
    Some (match k with
          | CSelect _ true => [acc; VBool false]      (* acc is still the zero value: nothing matched *)
          | _ => [acc]
          end, tr')
  | Some (Done vs, tr') => Some (vs, tr')
  | None => None
  end.

(* a (single-valued) comprehension used as an operand of another phrase / comprehension *)
Definition comp_op (k : ckind) (zero : val) (ps : list phrase) : operand :=
  {| op_e := lower_comprehension k zero ps;
     op_f := fun en tr => match spec_comprehension k zero ps en tr with
                          | Some ([v], tr') => Some (v, tr')
                          | _ => None
                          end |}.
