(* C14 — expression / simple-statement core of the parser under two dialects.  No proofs here.

   One fuel-indexed function P models parser.go's
     parseLambdaExpr / parseBinaryExpr (+ its loop, tokPrec) / parseUnaryExpr / parseErrWrapExpr /
     parsePrimaryExpr (+ isCmd, checkCmd) / parseOperand / parseCallOrConversion (+ atComma) /
     parseIndexOrSlice / parseExprList / parseSimpleStmtEx
   over token lists; tokens carry their token code (the numeric codes of token/token.go, which
   Gen/Tokens.v shows to coincide with go/token's for every Go token) and a "preceded by white
   space" bit (what isCmd / checkCmd test through positions).  The dialect record switches
   exactly the XGo extensions: the precedence table (Gen: xgo_Precedence / go_Precedence), and
   lambda `=>`, postfix `!` `?`, command-style calls, tuples.  The model is strict: any parse
   error is PErr; constructs outside the core (types, slice/composite literals, slices, type
   assertions, tuples, multi-parameter lambdas) are PUnsup and are not compared.  *)
From Coq Require Import List NArith ZArith Bool.
Import ListNotations.
From V Require Import Base.Prelude Gen.Tokens.
Local Open Scope Z_scope.

Record token := mkT { tcode : Z; tblank : bool }.

Inductive expr :=
| EIdent | ELit
| EParen (e : expr)
| EUnary (op : Z) (e : expr)            (* + - ! ^ & <-  and  * (StarExpr) *)
| EBinary (op : Z) (x y : expr)
| ESel (x : expr)
| EIndex (x i : expr)
| ECall (f : expr) (args : list expr) (ell : bool)
(* XGo only *)
| ECmd (f : expr) (args : list expr) (ell : bool)   (* command-style call: no parentheses *)
| EErrWrap (x : expr) (tok : Z)                      (* x!  x? *)
| ELambda (paren : bool) (body : expr).              (* x => e   (x) => e *)

Inductive stmt :=
| SExprStmt (e : expr)
| SAssign (tok : Z) (lhs rhs : list expr)
| SIncDec (tok : Z) (e : expr)
| SSend (ch v : expr).

(* d_xgo: lambda, postfix ! ?, tuples, XGo's := check;  d_cmd: command-style calls (isCmd/checkCmd) *)
Record dialect := mkD { d_xgo : bool; d_cmd : bool; d_prec : Z -> M Z }.
Definition go_dialect : dialect := mkD false false go_Precedence.
Definition xgo_dialect : dialect := mkD true true xgo_Precedence.
(* XGo without the command-call rule: not a dialect that exists, the object of C14_stmt_conservative_nocmd *)
Definition xgo_nocmd_dialect : dialect := mkD true false xgo_Precedence.

Inductive res := RExpr (e : expr) | RArgs (l : list expr) (ell : bool) | RList (l : list expr).
Inductive pres := POk (r : res) (rest : list token) | PErr | PUnsup | PFuel.

Inductive state :=
| SExpr (inrhs cmd : bool)                    (* parseExprEx(lhs=false,..): parseLambdaExpr *)
| SBinary (prec1 : Z) (inrhs tuple cmd : bool)
| SBinLoop (x : expr) (prec1 : Z) (inrhs : bool)
| SUnary (inrhs tuple cmd : bool)
| SPrimLoop (x : expr) (inrhs cmd : bool)
| SArgs (iscmd : bool) (acc : list expr)
| SExprList (inrhs : bool) (acc : list expr)  (* parseExprList(lhs=false, allowCmd=false) *)
| SLhsMore (acc : list expr).                 (* the rest of parseExprList(lhs=true, ..) after the first *)

Definition is (c : Z) (t : token) : bool := Z.eqb (tcode t) c.
Definition code_in (l : list Z) (t : token) : bool := existsb (Z.eqb (tcode t)) l.

Definition unary_ops : list Z := [xgo_ADD; xgo_SUB; xgo_NOT; xgo_XOR; xgo_AND; xgo_ARROW].
Definition cmd_sign_ops : list Z := [xgo_SUB; xgo_AND; xgo_MUL; xgo_ARROW; xgo_XOR; xgo_ADD].
Definition assign_ops : list Z :=
  [xgo_DEFINE; xgo_ASSIGN; xgo_ADD_ASSIGN; xgo_SUB_ASSIGN; xgo_MUL_ASSIGN; xgo_QUO_ASSIGN; xgo_REM_ASSIGN;
   xgo_AND_ASSIGN; xgo_OR_ASSIGN; xgo_XOR_ASSIGN; xgo_SHL_ASSIGN; xgo_SHR_ASSIGN; xgo_AND_NOT_ASSIGN].
(* tokens that start an operand outside the core *)
Definition unsup_operand : list Z :=
  [xgo_LBRACK; xgo_LBRACE; xgo_FUNC; xgo_MAP; xgo_STRUCT; xgo_CHAN; xgo_INTERFACE; xgo_ENV; xgo_STRING; xgo_CHAR;
   xgo_FLOAT; xgo_IMAG; xgo_RAT; xgo_CSTRING; xgo_GOTO; xgo_TYPE; xgo_BREAK; xgo_CONTINUE; xgo_FALLTHROUGH].

(* isCmd(x): *ast.Ident, *ast.SelectorExpr, *ast.ErrWrapExpr (and x.End() != p.pos = blank bit of p.tok) *)
Definition is_cmd_head (x : expr) : bool :=
  match x with EIdent | ESel _ | EErrWrap _ _ => true | _ => false end.

(* checkCmd() at p.tok = t, following tokens r *)
Definition check_cmd (t : token) (r : list token) : bool :=
  if is xgo_IDENT t || is xgo_INT t || is xgo_DRARROW t then true
  else if code_in cmd_sign_ops t then
    match r with t2 :: _ => negb (tblank t2) | [] => false end      (* x -y *)
  else false.

Fixpoint strip_parens (x : expr) : expr * bool :=
  match x with EParen y => (fst (strip_parens y), true) | _ => (x, false) end.

Definition is_ident (x : expr) : bool := match x with EIdent => true | _ => false end.

Fixpoint P (d : dialect) (fuel : nat) (st : state) (ts : list token) : pres :=
  match fuel with
  | O => PFuel
  | S f =>
    match st with
    | SExpr inrhs cmd =>
        (* parseLambdaExpr (XGo; always passes allowTuple = true down) / parseExpr (Go: the flags are ignored) *)
        match ts with
        | t :: _ =>
            if d_xgo d && is xgo_DRARROW t then PUnsup                 (* `=> e`: lambda without parameters *)
            else
              match P d f (SBinary 1 inrhs true cmd) ts with
              | POk (RExpr x) (t2 :: r2) =>
                  if d_xgo d && is xgo_DRARROW t2 then
                    match r2 with
                    | t3 :: _ =>
                        if is xgo_LPAREN t3 || is xgo_LBRACE t3 then PUnsup     (* x => (a, b)  /  x => { ... } *)
                        else
                          let '(x0, paren) := strip_parens x in
                          if is_ident x0 then
                            match P d f (SExpr inrhs false) r2 with
                            | POk (RExpr b) r3 => POk (RExpr (ELambda paren b)) r3
                            | o => o
                            end
                          else match P d f (SExpr inrhs false) r2 with PUnsup => PUnsup | PFuel => PFuel | _ => PErr end
                    | [] => PErr
                    end
                  else POk (RExpr x) (t2 :: r2)
              | o => o
              end
        | [] => P d f (SBinary 1 inrhs true cmd) ts
        end
    | SBinary prec1 inrhs tuple cmd =>
        match P d f (SUnary inrhs tuple cmd) ts with
        | POk (RExpr x) r => P d f (SBinLoop x prec1 inrhs) r
        | o => o
        end
    | SBinLoop x prec1 inrhs =>
        match ts with
        | [] => POk (RExpr x) []
        | t :: r =>
            (* tokPrec: in a right-hand side '=' is taken for '==' (better error message) *)
            let op := if inrhs && is xgo_ASSIGN t then xgo_EQL else tcode t in
            match d_prec d op with
            | Ok oprec =>
                if Z.ltb oprec prec1 then POk (RExpr x) ts
                else if negb (Z.eqb (tcode t) op) then PErr            (* p.expect(op) *)
                else
                  match P d f (SBinary (oprec + 1) inrhs false false) r with
                  | POk (RExpr y) r2 => P d f (SBinLoop (EBinary op x y) prec1 inrhs) r2
                  | o => o
                  end
            | _ => PErr
            end
        end
    | SUnary inrhs tuple cmd =>
        match ts with
        | [] => PErr
        | t :: r =>
            if code_in unary_ops t || is xgo_MUL t then
              match P d f (SUnary inrhs false false) r with
              | POk (RExpr x) r2 => POk (RExpr (EUnary (tcode t) x)) r2
              | o => o
              end
            else if is xgo_IDENT t then P d f (SPrimLoop EIdent inrhs cmd) r
            else if is xgo_INT t then P d f (SPrimLoop ELit inrhs cmd) r
            else if is xgo_LPAREN t then
              match r with
              | [] => PErr
              | t1 :: _ =>
                  if d_xgo d && tuple && is xgo_RPAREN t1 then PUnsup       (* () => ... *)
                  else
                    match P d f (SExpr true false) r with                   (* parseRHSOrType *)
                    | POk (RExpr x) (t2 :: r2) =>
                        if d_xgo d && tuple && (is xgo_COMMA t2 || is xgo_ELLIPSIS t2) then PUnsup   (* (x, y) => ... *)
                        else if is xgo_RPAREN t2 then P d f (SPrimLoop (EParen x) inrhs cmd) r2
                        else PErr
                    | POk _ _ => PErr
                    | o => o
                    end
              end
            else if code_in unsup_operand t then PUnsup
            else PErr                                                       (* expected operand *)
        end
    | SPrimLoop x inrhs cmd =>
        match ts with
        | [] => POk (RExpr x) []
        | t :: r =>
            let isc := d_cmd d && cmd && is_cmd_head x && tblank t in
            let cmdcall :=
              match P d f (SArgs true []) ts with
              | POk (RArgs l ell) r2 => P d f (SPrimLoop (ECmd x l ell) inrhs cmd) r2
              | o => o
              end in
            if is xgo_PERIOD t then
              match r with
              | t2 :: r2 =>
                  if is xgo_IDENT t2 then P d f (SPrimLoop (ESel x) inrhs cmd) r2
                  else if is xgo_LPAREN t2 then PUnsup                      (* type assertion *)
                  else PErr
              | [] => PErr
              end
            else if is xgo_LBRACK t then
              if isc then PUnsup                                            (* println [...]: slice literal argument *)
              else
                match r with
                | t1 :: _ =>
                    if is xgo_COLON t1 then PUnsup
                    else
                      match P d f (SExpr true false) r with                 (* parseRHS *)
                      | POk (RExpr i) (t2 :: r2) =>
                          if is xgo_RBRACK t2 then P d f (SPrimLoop (EIndex x i) inrhs cmd) r2
                          else if is xgo_COMMA t2 || is xgo_COLON t2 then PUnsup
                          else PErr
                      | POk _ _ => PErr
                      | o => o
                      end
                | [] => PErr
                end
            else if is xgo_LPAREN t then
              if isc then cmdcall
              else
                match P d f (SArgs false []) r with
                | POk (RArgs l ell) r2 => P d f (SPrimLoop (ECall x l ell) inrhs cmd) r2
                | o => o
                end
            else if is xgo_LBRACE t then PUnsup
            else if d_xgo d && is xgo_NOT t then
              if isc then cmdcall else P d f (SPrimLoop (EErrWrap x xgo_NOT) inrhs cmd) r
            else if d_xgo d && is xgo_QUESTION t then P d f (SPrimLoop (EErrWrap x xgo_QUESTION) inrhs cmd) r
            else if isc && check_cmd t r then cmdcall
            else POk (RExpr x) ts
        end
    | SArgs iscmd acc =>
        match ts with
        | [] => PErr          (* call: ')' missing; command: only reached after a trailing ',' - no ';' is inserted after ',' *)
        | t :: r =>
            if negb iscmd && is xgo_RPAREN t then POk (RArgs (rev acc) false) r
            else
              match P d f (SExpr true false) ts with                        (* parseRHSOrTypeEx *)
              | POk (RExpr e) r1 =>
                  let '(ell, r2) := match r1 with
                                    | t1 :: r1' => if is xgo_ELLIPSIS t1 then (true, r1') else (false, r1)
                                    | [] => (false, r1)
                                    end in
                  match r2 with
                  | [] => if iscmd then POk (RArgs (rev (e :: acc)) ell) [] else PErr
                  | t2 :: r3 =>
                      if is xgo_COMMA t2 then
                        if ell then
                          if iscmd then POk (RArgs (rev (e :: acc)) true) r3
                          else match r3 with
                               | t3 :: r4 => if is xgo_RPAREN t3 then POk (RArgs (rev (e :: acc)) true) r4 else PErr
                               | [] => PErr
                               end
                        else P d f (SArgs iscmd (e :: acc)) r3
                      else if negb iscmd && is xgo_RPAREN t2 then POk (RArgs (rev (e :: acc)) ell) r3
                      else PErr                                             (* missing ',' in argument list *)
                  end
              | POk _ _ => PErr
              | o => o
              end
        end
    | SExprList inrhs acc =>
        match P d f (SExpr inrhs false) ts with
        | POk (RExpr e) (t :: r) =>
            if is xgo_COMMA t then P d f (SExprList inrhs (e :: acc)) r else POk (RList (rev (e :: acc))) (t :: r)
        | POk (RExpr e) [] => POk (RList (rev (e :: acc))) []
        | POk _ _ => PErr
        | o => o
        end
    | SLhsMore acc =>
        match ts with
        | t :: r =>
            if is xgo_COMMA t then
              match P d f (SBinary 1 false false false) r with
              | POk (RExpr e) r2 => P d f (SLhsMore (e :: acc)) r2
              | POk _ _ => PErr
              | o => o
              end
            else POk (RList (rev acc)) ts
        | [] => POk (RList (rev acc)) []
        end
    end
  end.

Definition fuel_for (ts : list token) : nat := 8 * length ts + 16.

Inductive result (A : Type) := Parsed (a : A) | Err | Unsup | NoFuel.
Arguments Parsed {A} a. Arguments Err {A}. Arguments Unsup {A}. Arguments NoFuel {A}.

(* ParseExpr: expr = p.parseRHS(); p.expect(token.EOF) *)
Definition parse_expr (d : dialect) (ts : list token) : result expr :=
  match P d (fuel_for ts) (SExpr true false) ts with
  | POk (RExpr e) [] => Parsed e
  | POk _ _ => Err
  | PErr => Err | PUnsup => Unsup | PFuel => NoFuel
  end.

(* one simple statement followed by ';' : parseStmt -> parseSimpleStmtEx(labelOk, allowCmd) ; expectSemi *)
Definition parse_stmt (d : dialect) (ts : list token) : result stmt :=
  let fuel := fuel_for ts in
  let cmd := match ts with t :: _ => is xgo_IDENT t | [] => false end in
  match P d fuel (SBinary 1 false false cmd) ts with
  | POk (RExpr x1) r1 =>
      match P d fuel (SLhsMore [x1]) r1 with
      | POk (RList lhs) r2 =>
          match r2 with
          | [] => match lhs with [x] => Parsed (SExprStmt x) | _ => Err end
          | t :: r3 =>
              if code_in assign_ops t then
                match P d fuel (SExprList true []) r3 with
                | POk (RList rhs) [] =>
                    (* shortVarDecl: "expected identifier on left side of :=" (go/parser leaves this to its resolver) *)
                    if d_xgo d && is xgo_DEFINE t && negb (forallb is_ident lhs) then Err else Parsed (SAssign (tcode t) lhs rhs)
                | POk _ _ => Err
                | PErr => Err | PUnsup => Unsup | PFuel => NoFuel
                end
              else
                match lhs with
                | [x] =>
                    if is xgo_ARROW t then
                      match P d fuel (SExpr true false) r3 with
                      | POk (RExpr v) [] => Parsed (SSend x v)
                      | POk (RExpr v) (t4 :: _) => if d_xgo d && (is xgo_COMMA t4 || is xgo_ELLIPSIS t4) then Unsup else Err
                      | POk _ _ => Err
                      | PErr => Err | PUnsup => Unsup | PFuel => NoFuel
                      end
                    else if is xgo_INC t || is xgo_DEC t then
                      match r3 with [] => Parsed (SIncDec (tcode t) x) | _ => Err end
                    else Err
                | _ => Err
                end
          end
      | POk _ _ => Err
      | PErr => Err | PUnsup => Unsup | PFuel => NoFuel
      end
  | POk _ _ => Err
  | PErr => Err | PUnsup => Unsup | PFuel => NoFuel
  end.

(* the tokens of the Go language in the core alphabet (no XGo-only token) *)
Definition xgo_only : list Z := [xgo_DRARROW; xgo_QUESTION; xgo_SRARROW; xgo_BIDIARROW; xgo_ENV; xgo_UNIT; xgo_TILDE].
Definition go_token (t : token) : bool := negb (code_in xgo_only t).
