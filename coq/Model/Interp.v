(* C05 model.  No proofs here.
   split_lit    : parser/parser.go  stringLitEx + hasExtra, line by line (Go slicing / indexing that
                  can panic goes through sl_from / sl_to / idx and returns Panic)
   lower_interp : cl/expr.go  compileStringLitEx  (literal pieces re-quoted, `$$`-suffixed pieces
                  lose one `$`, non-string operands converted through `.string`, n != 1 parts ->
                  stringutil.Concat) into MiniGo *)
From Coq Require Import List ZArith NArith Bool.
Import ListNotations.
From V Require Import Base.Prelude Model.MiniGo.
Open Scope Z_scope.

Definition dollar : N := 36. Definition lbrace : N := 123. Definition rbrace : N := 125.

(* strings.IndexByte *)
Fixpoint index_byte (s : str) (c : N) : Z :=
  match s with
  | [] => -1
  | b :: t => if N.eqb b c then 0 else let r := index_byte t c in if r <? 0 then -1 else r + 1
  end.
(* s[i:]  and  s[:i] *)
Definition sl_from (s : str) (i : Z) : M str :=
  if (i <? 0) || (zlen s <? i) then Panic else Ok (skipn (Z.to_nat i) s).
Definition sl_to (s : str) (i : Z) : M str :=
  if (i <? 0) || (zlen s <? i) then Panic else Ok (firstn (Z.to_nat i) s).
Definition is_empty (s : str) : bool := match s with [] => true | _ => false end.

(* a part of ast.StringLitEx.Parts: a string, or an expression given by its source span
   [from, to) in offsets from the start of the literal's text *)
Inductive part := PStr (s : str) | PExpr (from to : Z).
(* p.error(pos, ...) calls: which message, at which offset *)
Inductive serr := ErrNoClose (off : Z) | ErrBadDollar (off : Z).

Fixpoint has_extra (fuel : nat) (text : str) : M bool :=
  match fuel with
  | O => OutOfFuel
  | S f =>
    let at_ := index_byte text dollar in
    if (at_ <? 0) || (at_ + 1 =? zlen text) then Ok false else
    ch <- idx text (at_ + 1) ;;
    if N.eqb ch lbrace || N.eqb ch dollar then Ok true else
    t' <- sl_from text (at_ + 2) ;;
    has_extra f t'
  end.

(* result: (parts or nil, the error reported if any) *)
Definition split_res := (option (list part) * option serr)%type.

Fixpoint split_loop (fuel : nat) (parts : list part) (pos : Z) (text : str) (extra : bool) : M split_res :=
  match fuel with
  | O => OutOfFuel
  | S f =>
    let normal := Ok (Some (parts ++ [PStr text]), None) in
    let again (parts : list part) (pos : Z) (text : str) : M split_res :=
      if is_empty text then Ok (Some parts, None) else split_loop f parts pos text true in
    let at_ := index_byte text dollar in
    if (at_ <? 0) || (at_ + 1 =? zlen text) then          (* no '$' or end with '$' *)
      if extra then normal else Ok (None, None)
    else
    ch <- idx text (at_ + 1) ;;
    if N.eqb ch lbrace then                                 (* ${ *)
      let from := at_ + 2 in
      left <- sl_from text from ;;
      if is_empty left then normal else
      let en := index_byte left rbrace in
      if en <? 0 then Ok (Some (parts ++ [PStr text]), Some (ErrNoClose (pos + (at_ + 1)))) else
      pre <- sl_to text at_ ;;
      let parts1 := if at_ =? 0 then parts else parts ++ [PStr pre] in
      let to := pos + (from + en) in
      let parts2 := parts1 ++ [PExpr (pos + from) to] in
      text' <- sl_from left (en + 1) ;;
      again parts2 (to + 1) text'
    else if N.eqb ch dollar then                            (* $$ *)
      pre <- sl_to text (at_ + 2) ;;
      text' <- sl_from text (at_ + 2) ;;
      again (parts ++ [PStr pre]) (pos + (at_ + 2)) text'
    else
      he <- (if extra then Ok true else t1 <- sl_from text (at_ + 1) ;; has_extra (S (length text)) t1) ;;
      Ok (None, if he then Some (ErrBadDollar (pos + at_)) else None)
  end.

(* stringLit: the text between the quotes, positions counted from its first byte *)
Definition split_lit (text : str) : M split_res := split_loop (S (length text)) [] 0 text false.

(* ---------------------------------------------------------------- compileStringLitEx *)
(* the parts after the embedded expressions have been parsed and type-checked: the static type of
   an embedded expression decides what `.string` resolves to *)
Inductive ty := TInt | TStr | TFloat | TErr | TBool.
Inductive cpart := CStr (s : str) | CExpr (t : ty) (e : expr).

(* cb.Member("string") on a non-string operand, then the `error` fallback of compileStringLitEx.
   gogen's BuiltinTI table (outside /repo) has `string` for int (strconv.Itoa) and float64
   (strconv.FormatFloat(f,'g',-1,64)); there is none for bool: compile error *)
Inductive sconv := SCid | SCconv (c : conv) | SCnone.
Definition string_conv (t : ty) : sconv :=
  match t with
  | TStr => SCid
  | TInt => SCconv CItoa
  | TFloat => SCconv CFloat
  | TErr => SCconv CError
  | TBool => SCnone
  end.

Fixpoint has_suffix_dd (s : str) : bool :=      (* strings.HasSuffix(v, "$$") *)
  match s with
  | [] => false
  | [a; b] => N.eqb a dollar && N.eqb b dollar
  | _ :: t => has_suffix_dd t
  end.
Definition strip_dd (s : str) : str := if has_suffix_dd s then removelast s else s.

Section Lower.
  Variable lit_val : str -> str.    (* value of the Go string literal  quote ++ body ++ quote *)

  (* None = the compiler reports an error *)
  Definition lower_part (p : cpart) : option expr :=
    match p with
    | CStr v => Some (EConst (VStr (lit_val (strip_dd v))))
    | CExpr t e => match string_conv t with
                   | SCid => Some e
                   | SCconv c => Some (EToStr c e)
                   | SCnone => None
                   end
    end.

  Fixpoint lower_parts (ps : list cpart) : option (list expr) :=
    match ps with
    | [] => Some []
    | p :: t => match lower_part p, lower_parts t with Some e, Some r => Some (e :: r) | _, _ => None end
    end.

  (* n != 1 -> stringutil.Concat(parts...) ; n == 1 -> the part itself *)
  Definition lower_interp (ps : list cpart) : option expr :=
    match lower_parts ps with
    | Some [e] => Some e
    | Some es => Some (EConcat es)
    | None => None
    end.
End Lower.
