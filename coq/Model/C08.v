(* C08 — model of the ordering logic of cl.NewPackage (cl/compile.go) and of the map-range
   loop shapes found in cl/*.go and x/build/*.go.  No proofs here.

   NewPackage:   sfiles := files of the map pkg.Files; sort.Slice(sfiles, path <)      (l.563-569)
                 for f in sfiles: preloadGopFile                                         (l.581-593)
                 gopaths := keys of pkg.GoFiles; sort.Strings(gopaths)                   (l.602-607)
                 for p in gopaths: preloadFile(go file)                                  (l.608-616)
                 for f in sfiles: loadFile                                               (l.644-648)
   initLoader:   a name already in ctx.syms -> error "redeclared ... previous at"; else insert (l.249-264) *)
From Coq Require Import List NArith Bool.
Import ListNotations.
From V Require Import Base.Prelude.

(* Go's string comparison s < t : lexicographic on bytes *)
Fixpoint str_ltb (a b : str) : bool :=
  match a, b with
  | [], [] => false
  | [], _ :: _ => true
  | _ :: _, [] => false
  | x :: a', y :: b' => if N.ltb x y then true else if N.eqb x y then str_ltb a' b' else false
  end.

Section Sorting.
  Context {A : Type}.
  (* sort.Slice(sfiles, func(i,j) bool { return sfiles[i].path < sfiles[j].path }) and
     sort.Strings(gopaths): modelled as insertion sort; Proofs/C08.v shows that ANY sorting
     algorithm returns this list when the paths are distinct (sort_unique), so the choice of
     algorithm (pdqsort in the Go runtime, not stable) is immaterial. *)
  Fixpoint insert_by_path (x : str * A) (l : list (str * A)) : list (str * A) :=
    match l with
    | [] => [x]
    | y :: t => if str_ltb (fst y) (fst x) then y :: insert_by_path x t else x :: l
    end.
  Fixpoint sort_by_path (l : list (str * A)) : list (str * A) :=
    match l with [] => [] | x :: t => insert_by_path x (sort_by_path t) end.

  (* compile_files: the compiler as a fold of an ARBITRARY per-file step over the sorted files *)
  Definition compile_files {St : Type} (step : St -> str * A -> St) (init : St) (fs : list (str * A)) : St :=
    fold_left step (sort_by_path fs) init.
End Sorting.

(* ---- a concrete instance that is compared with the implementation (K-diff) ---- *)

(* a source file = its path and the names of its top-level funcs in source order *)
Definition srcfile := (str * list str)%type.

(* ctx.syms as an association list name -> path of the declaring file *)
Fixpoint sym_lookup (n : str) (tab : list (str * str)) : option str :=
  match tab with [] => None | (k, v) :: t => if str_eqb n k then Some v else sym_lookup n t end.

Definition is_init (n : str) : bool := str_eqb n [105;110;105;116]%N.       (* "init" *)
Definition is_blank (n : str) : bool := str_eqb n [95]%N.                     (* "_" *)

(* redeclaration error: (name, file reporting it, file of the previous declaration) *)
Definition redecl := (str * str * str)%type.

(* initLoader for one func name of file p *)
Definition preload_name (p : str) (st : list (str * str) * list redecl) (n : str) : list (str * str) * list redecl :=
  let '(tab, errs) := st in
  if is_init n || is_blank n then st else
  match sym_lookup n tab with
  | Some prev => (tab, errs ++ [(n, p, prev)])
  | None => ((n, p) :: tab, errs)
  end.

Definition preload_file (st : list (str * str) * list redecl) (f : srcfile) :=
  fold_left (preload_name (fst f)) (snd f) st.

(* names emitted for one XGo file by loadFile: every non-init, non-blank func whose loader is
   still the one this file registered (a redeclared name is loaded by its first declarer only) *)
Fixpoint emit_file (tab : list (str * str)) (p : str) (ns : list str) : list str :=
  match ns with
  | [] => []
  | n :: t =>
    if is_init n || is_blank n then emit_file tab p t
    else match sym_lookup n tab with
         | Some q => if str_eqb q p then n :: emit_file tab p t else emit_file tab p t
         | None => emit_file tab p t
         end
  end.

(* init and blank funcs are queued on ctx.inits during preload (initLoader, preloadFuncDecl) and
   loaded after every file:  for _, load := range ctx.inits { load() }  (l.657-659) *)
Definition emit_inits (ns : list str) : list str := filter (fun n => is_init n || is_blank n) ns.

(* package main without a func main (in the XGo or the Go files): an empty one is generated last
   (genMain, l.620-626 and l.664-668; Config.NoAutoGenMain = false) *)
Definition name_main : str := [109;97;105;110]%N.

(* result: the redeclaration errors in report order, and (when there is none) the emission order
   of the funcs of the XGo files.  Go files are preloaded (after the XGo files) but not emitted. *)
Definition new_package (xgo gof : list srcfile) : list redecl * list str :=
  let xs := sort_by_path xgo in
  let gs := sort_by_path gof in
  let '(tab, errs) := fold_left preload_file (xs ++ gs) ([], []) in
  (errs, match errs with
         | [] => flat_map (fun f => emit_file tab (fst f) (snd f)) xs ++ flat_map (fun f => emit_inits (snd f)) xs
                 ++ (match sym_lookup name_main tab with Some _ => [] | None => [name_main] end)
         | _ => [] end).

(* ---- shapes of the map-range loops (reviewed in Proofs/MapRanges.v) ---- *)

Section Shapes.
  Context {K V : Type}.
  (* set-build:  for k := range m { set[k] = true } ; the set is observed by lookup only *)
  Variable keqb : K -> K -> bool.
  Definition set_add (s : list K) (k : K) : list K := k :: s.
  Definition set_mem (k : K) (s : list K) : bool := existsb (keqb k) s.
  Definition set_build (keys : list K) : list K := fold_left set_add keys [].

  (* unique-match:  for k, v := range m { if p(k,v) { return v } } ; return zero *)
  Definition find_first (p : K * V -> bool) (m : list (K * V)) : option (K * V) := find p m.

  (* pick-any:  for _, v := range m { x = v; break } *)
  Definition pick_any (m : list (K * V)) : option (K * V) := hd_error m.

  (* first-writer-wins:  for _, v := range m { if slot == nil { slot = v } } *)
  Definition first_wins (m : list (K * V)) : option (K * V) :=
    fold_left (fun o x => match o with None => Some x | Some _ => o end) m None.

  (* error-per-match:  for k, v := range seen { if match(k) { errs = append(errs, e(k,v)) } } *)
  Definition errs_per_match {E} (mt : K * V -> bool) (e : K * V -> E) (seen : list (K * V)) : list E :=
    map e (filter mt seen).

  (* effect-log loop:  for k, v := range m { body(k,v) } where the observable effect of body is
     the list of errors it appends to ctx.errs *)
  Definition log_loop {E} (body : K * V -> list E) (m : list (K * V)) : list E := flat_map body m.
End Shapes.

(* compileTypeSwitchStmt's bookkeeping of `seen` over the case items of a type switch:
   a case type identical to an entry of seen -> one error per identical entry, not inserted;
   otherwise inserted.  ident = types.Identical. *)
Section TypeSwitch.
  Context {T P : Type}.
  Variable ident : T -> T -> bool.
  (* [perm] stands for the iteration order Go picks for the map on each range: an arbitrary
     function that permutes its argument (the theorems quantify over it) *)
  Variable perm : list (T * P) -> list (T * P).
  Definition ts_item (st : list (T * P) * list (T * P * P)) (c : T * P) : list (T * P) * list (T * P * P) :=
    let '(seen, errs) := st in
    let hits := filter (fun s => ident (fst c) (fst s)) (perm seen) in
    match hits with
    | [] => (c :: seen, errs)
    | _ => (seen, errs ++ map (fun s => (fst c, snd c, snd s)) hits)
    end.
  Definition ts_cases (cs : list (T * P)) := fold_left ts_item cs ([], []).
End TypeSwitch.
