(* C17 — model of the Pos()/End() methods of /repo/ast over the generic tree, and the layout
   specification (concrete-syntax templates) they are compared with.
   The method bodies are DATA (Gen/AstPos.v, regenerated from ast/ast.go + ast/ast_gop.go and, for
   the aliased Comment/CommentGroup, from GOROOT go/ast); this file is their interpreter.  No proofs. *)
From Coq Require Import List String ZArith NArith Bool.
Import ListNotations.
From V Require Import Base.Prelude Base.AstTree Base.AstPos.
Open Scope string_scope.
Open Scope list_scope.
Open Scope Z_scope.

(* ------------------------------------------------------------------ the interpreter of the bodies *)

Definition slen (v : value) : Z :=
  match v with VStr s => Z.of_nat (String.length s) | _ => 0 end.

Definition vpos (v : value) : M Z := match v with VPos p => Ok p | _ => Panic end.

Fixpoint last_opt {A} (l : list A) : option A :=
  match l with [] => None | [x] => Some x | _ :: t => last_opt t end.

(* number of decimal digits of a non-negative number (for "token(N)") *)
Fixpoint digits_fuel (fuel : nat) (z : Z) : Z :=
  match fuel with
  | O => 1
  | S f => if z <? 10 then 1 else 1 + digits_fuel f (z / 10)
  end.

Section PosEnd.
  Context (T : pos_table).       (* Gen.AstPos.pos_table *)
  Context (tokens : list str).   (* Gen.Tokens.xgo_tokens: Token.String() *)
  Context (ibase : Z).           (* Gen.AstPos.implicit_base *)

  (* len(tok.String()) *)
  Definition tok_len (v : value) : M Z :=
    match v with
    | VTok t =>
        if t <? 0 then Panic else     (* negative token numbers do not occur; not modelled *)
        match nth_error tokens (Z.to_nat t) with
        | Some ((_ :: _) as s) => Ok (Z.of_nat (List.length s))
        | _ => Ok (7 + digits_fuel 20 t)       (* "token(" + itoa + ")" *)
        end
    | _ => Panic
    end.

  Fixpoint eval_cond (n : node) (c : pcond) : bool :=
    match c with
    | CNonNil f => match get f n with VNil => false | _ => true end
    | CLenPos f => match get f n with VList (_ :: _) => true | _ => false end
    | CValid f => match get f n with VPos p => negb (p =? 0) | _ => false end
    | CFlag f => get_bool f n
    | CImplicit => match get "Obj" n with VTok k => ibase <=? k | _ => false end
    | CNot a => negb (eval_cond n a)
    | COr a b => eval_cond n a || eval_cond n b
    | CAnd a b => eval_cond n a && eval_cond n b
    end.

  Definition eval_expr (rp re : node -> M Z) (n : node) (e : pexpr) : M Z :=
    match e with
    | PField f k => p <- vpos (get f n) ;; Ok (p + k)
    | PFieldStr f gs => p <- vpos (get f n) ;; Ok (fold_left (fun a g => a + slen (get g n)) gs p)
    | PFieldTok f g => p <- vpos (get f n) ;; l <- tok_len (get g n) ;; Ok (p + l)
    | PChildPos f => match get f n with VNode c => rp c | _ => Panic end          (* nil dereference *)
    | PChildEnd f => match get f n with VNode c => re c | _ => Panic end
    | PListFirstPos f => match get f n with VList (VNode c :: _) => rp c | _ => Panic end   (* index out of range *)
    | PListFirstEnd f => match get f n with VList (VNode c :: _) => re c | _ => Panic end
    | PListLastEnd f => match get f n with
                        | VList l => match last_opt l with Some (VNode c) => re c | _ => Panic end
                        | _ => Panic
                        end
    | PChildField f g => match get f n with VNode c => vpos (get g c) | _ => Panic end
    | PNoPos => Ok 0
    end.

  (* File.End is outside the translated fragment (a loop over Decls): modelled by hand —
       if f.ShadowEntry != nil { return f.ShadowEntry.End() }
       for n := len(f.Decls) - 1; n >= 0; n-- { d := f.Decls[n]
         if fn, ok := d.( *FuncDecl); ok && fn.Shadow { continue }; return d.End() }
       if f.Package != token.NoPos { return f.Name.End() }
       return f.Name.Pos()                                                              *)
  Fixpoint last_nonshadow (l : list value) : option value :=
    match l with
    | [] => None
    | x :: t => match last_nonshadow t with
                | Some y => Some y
                | None => match x with
                          | VNode d => if String.eqb (kind d) "FuncDecl" && get_bool "Shadow" d then None else Some x
                          | _ => Some x
                          end
                end
    end.

  Definition file_end (rp re : node -> M Z) (n : node) : M Z :=
    match get "ShadowEntry" n with
    | VNode s => re s
    | _ =>
        match get "Decls" n with
        | VList l =>
            match last_nonshadow l with
            | Some (VNode d) => re d
            | Some _ => Panic
            | None => match get "Name" n with
                      | VNode nm => if eval_cond n (CValid "Package") then re nm else rp nm
                      | _ => Panic
                      end
            end
        | _ => Panic
        end
    end.

  Fixpoint eval_body (rp re : node -> M Z) (n : node) (b : pbody) : M Z :=
    match b with
    | PRet e => eval_expr rp re n e
    | PIf c t e => if eval_cond n c then eval_body rp re n t else eval_body rp re n e
    | POpaque => Panic
    end.

  (* w = true: Pos(), w = false: End().  The recursion follows one child per level. *)
  Fixpoint pe (fuel : nat) (w : bool) (n : node) : M Z :=
    match fuel with
    | O => OutOfFuel
    | S f =>
        match assoc (kind n) T with
        | None => Panic
        | Some (bp, be) =>
            match (if w then bp else be) with
            | POpaque => if String.eqb (kind n) "File" && negb w then file_end (pe f true) (pe f false) n else Panic
            | b => eval_body (pe f true) (pe f false) n b
            end
        end
    end.

  Definition pos_of (n : node) : M Z := pe (nsize n) true n.
  Definition end_of (n : node) : M Z := pe (nsize n) false n.
End PosEnd.
